package main

// Suites c07 / c16 (shared driver): the consensus-key registry of x/operator and the epoch-scheduled
// queues of x/dogfood, driven through the REAL entry points of one real ExocoreApp:
//   operator MsgServer.OptIntoAVS (with key) / OptOutOfAVS / SetConsKey, OperatorKeeper.OptIn (no key; the
//   path of the AVS precompile), DelegationKeeper.UndelegateFrom, dogfood UpdateParams (EpochsUntilUnbonded),
//   ABCI EndBlock / Commit / BeginBlock with block times that stay inside, cross, or jump several dogfood epochs.
// After every operation and after every EndBlock / BeginBlock the raw operator key prefixes, every dogfood
// prefix and the delegation hold counts are dumped and ValidatorByConsAddrForChainID is probed for every key.
// The chain keeps running across cases (a case = a segment of the history with its own initial dump).

import (
	"encoding/json"
	"fmt"
	"math/rand"
	"os"
	"sort"
	"time"

	sdkmath "cosmossdk.io/math"
	abci "github.com/cometbft/cometbft/abci/types"
	tmprotocrypto "github.com/cometbft/cometbft/proto/tendermint/crypto"
	sdk "github.com/cosmos/cosmos-sdk/types"
	authtypes "github.com/cosmos/cosmos-sdk/x/auth/types"
	govtypes "github.com/cosmos/cosmos-sdk/x/gov/types"
	stakingtypes "github.com/cosmos/cosmos-sdk/x/staking/types"
	"github.com/ethereum/go-ethereum/common"
	ethtypes "github.com/ethereum/go-ethereum/core/types"
	"github.com/ethereum/go-ethereum/core/vm"
	"github.com/evmos/evmos/v16/x/evm/statedb"
	"math/big"

	delegationprecompile "github.com/ExocoreNetwork/exocore/precompiles/delegation"

	exocoreapp "github.com/ExocoreNetwork/exocore/app"
	keytypes "github.com/ExocoreNetwork/exocore/types/keys"
	assetskeeper "github.com/ExocoreNetwork/exocore/x/assets/keeper"
	assetstypes "github.com/ExocoreNetwork/exocore/x/assets/types"
	avstypes "github.com/ExocoreNetwork/exocore/x/avs/types"
	delegationtypes "github.com/ExocoreNetwork/exocore/x/delegation/types"
	dogfoodtypes "github.com/ExocoreNetwork/exocore/x/dogfood/types"
	operatorkeeper "github.com/ExocoreNetwork/exocore/x/operator/keeper"
	operatortypes "github.com/ExocoreNetwork/exocore/x/operator/types"
	oracletypes "github.com/ExocoreNetwork/exocore/x/oracle/types"
)

func init() {
	register("c07", func(a *Args) error { return c07Run(a, "c07") })
}

const (
	c07NumOps   = 4
	c07NumKeys  = 6
	c07EpochID  = "minute"
	c07HoldPfx  = 6 // x/delegation prefixUndelegationOnHold (unexported there)
	c07Unknown  = 900
	c07InitUnb  = 2
	c07MaxUnbPl = 4 // largest EpochsUntilUnbonded the generators use
)

type c07Obs struct {
	Opted   []int64      `json:"opted"`
	KOp     [][2]int64   `json:"k_op"`
	KCh     [][2]int64   `json:"k_ch"`
	Rev     [][2]int64   `json:"rev"`
	Prev    [][2]int64   `json:"prev"`
	Rm      []int64      `json:"rm"`
	Vs      []int64      `json:"vs"`
	QOpt    []c07QEntry  `json:"q_opt"`
	QPrune  []c07QEntry  `json:"q_prune"`
	QUnd    []c07QEntry  `json:"q_und"`
	Fin     [][2]int64   `json:"fin"`
	Mat     [][2]int64   `json:"mat"`
	POpt    []int64      `json:"p_opt"`
	PPrune  []int64      `json:"p_prune"`
	PUnd    []int64      `json:"p_und"`
	EpEnd   bool         `json:"ep_end"`
	Cur     int64        `json:"cur"`
	Unb     int64        `json:"unb"`
	Holds   [][2]int64   `json:"holds"`
	Probe   []c07ProbeKV `json:"probe"`
	Jailed  []int64      `json:"jailed"`
	Info    []int64      `json:"info"`
	JProbe  []c07ProbeKV `json:"jprobe"`
	Slashed []int64      `json:"slashed"`
	slashN  []int        // number of slash records per operator (not printed; used to compute Slashed)
}

type c07QEntry struct {
	Epoch int64   `json:"epoch"`
	List  []int64 `json:"list"`
}

type c07ProbeKV struct {
	Key   int64 `json:"key"`
	Found bool  `json:"found"`
}

type c07Op struct {
	Kind string  `json:"kind"` // optinkey optin setkey setkeyraw optout undelegate setunb begin end
	O    int64   `json:"o,omitempty"`
	K    int64   `json:"k,omitempty"`
	R    int64   `json:"r,omitempty"`
	N    int64   `json:"n,omitempty"`
	Tick bool    `json:"tick,omitempty"`
	Sel  []int64 `json:"sel,omitempty"`
	Dt   int64   `json:"dt_s,omitempty"`
	ID   string  `json:"epoch_id,omitempty"`
	Via  string  `json:"via,omitempty"` // router = the application's registered message handler; msgserver = msg server on app.OperatorKeeper
}

type c07Step struct {
	Op  c07Op  `json:"op"`
	Res string `json:"res"`
	Obs c07Obs `json:"obs"`
}

type c07Case struct {
	Suite string    `json:"suite"`
	Tags  []string  `json:"tags,omitempty"`
	NT    bool      `json:"nt"`
	Ops   []int64   `json:"u_ops"`
	Keys  []int64   `json:"u_keys"`
	Recs  []int64   `json:"u_recs"`
	MaxEp int64     `json:"max_epoch"`
	MinEp int64     `json:"min_epoch"`
	Init  c07Obs    `json:"init"`
	Steps []c07Step `json:"steps"`
}

// ---- driver ---------------------------------------------------------------------------------

type c07Drv struct {
	env       *Env
	app       *exocoreapp.ExocoreApp
	avsAddr   string
	chainID   string
	keys      []keytypes.WrappedConsKey
	keyIdx    map[string]int64 // consAddr bytes -> key id
	pubIdx    map[string]int64 // ed25519 pubkey bytes -> key id
	opIdx     map[string]int64 // acc addr bytes -> operator id
	recIdx    map[string]int64 // record key -> record id
	nextRec   int64
	nonce     uint64
	msgSeq    int64
	undSeq    int64
	slashSeq  int64
	slashUsed map[[2]int64]bool
	msg       *operatorkeeper.MsgServerImpl
	w         *CaseWriter
}

func c07NewDrv(w *CaseWriter) *c07Drv {
	ops := make([]OperatorCfg, c07NumOps)
	for i := range ops {
		ops[i] = OperatorCfg{Deposit: int64(1000 + 10*i)}
	}
	env := NewEnv(EnvCfg{Operators: ops, MutGenesis: func(app *exocoreapp.ExocoreApp, gs map[string]json.RawMessage) {
		var dg dogfoodtypes.GenesisState
		app.AppCodec().MustUnmarshalJSON(gs[dogfoodtypes.ModuleName], &dg)
		dg.Params.EpochIdentifier = c07EpochID
		dg.Params.EpochsUntilUnbonded = c07InitUnb
		gs[dogfoodtypes.ModuleName] = app.AppCodec().MustMarshalJSON(&dg)
		// a token the oracle knows but has never priced (its staking asset is registered below)
		var og oracletypes.GenesisState
		app.AppCodec().MustUnmarshalJSON(gs[oracletypes.ModuleName], &og)
		og.Params.Tokens = append(og.Params.Tokens, &oracletypes.Token{
			Name: "DAI", ChainID: 1, ContractAddress: "0x", Decimal: 0, Active: true,
			AssetID: "0x6b175474e89094c44da98b954eedeac495271d0f_0x65",
		})
		og.Params.TokenFeeders = append(og.Params.TokenFeeders, &oracletypes.TokenFeeder{
			TokenID: uint64(len(og.Params.Tokens) - 1), RuleID: 1, StartRoundID: 1, StartBaseBlock: 1, Interval: 10,
		})
		gs[oracletypes.ModuleName] = app.AppCodec().MustMarshalJSON(&og)
	}})
	d := &c07Drv{env: env, app: env.App, w: w, slashUsed: map[[2]int64]bool{}}
	d.chainID = avstypes.ChainIDWithoutRevision(env.ChainID)
	d.avsAddr = avstypes.GenerateAVSAddr(d.chainID)
	d.keyIdx, d.pubIdx, d.opIdx, d.recIdx = map[string]int64{}, map[string]int64{}, map[string]int64{}, map[string]int64{}
	for i := 0; i < c07NumKeys; i++ {
		d.newKey()
	}
	for i, o := range env.Operators {
		d.opIdx[string(o.Bytes())] = int64(i)
	}
	d.msg = operatorkeeper.NewMsgServerImpl(d.app.OperatorKeeper)
	d.foreignPools()
	return d
}

// foreignPools gives the operators pools of staking assets the dogfood AVS does NOT accept: USDC (priced by the
// oracle) delegated to operators 0, 1, 2 and DAI (known to the oracle, never priced) delegated to operators 2, 3.
// The registry must stay usable for slashing / jailing whatever else an operator holds.
func (d *c07Drv) foreignPools() {
	ctx := d.ctx()
	staker := common.BytesToAddress(seedBytes("c07foreignstaker", 0)[:20])
	type fa struct {
		name, addr string
		ops        []int
	}
	nonce := uint64(1 << 40)
	for _, a := range []fa{
		{"USDC", "0xa0b86991c6218b36c1d19d4a2e9eb0ce3606eb48", []int{0, 1, 2}},
		{"DAI", "0x6b175474e89094c44da98b954eedeac495271d0f", []int{2, 3}},
	} {
		addr := common.HexToAddress(a.addr)
		if err := d.app.AssetsKeeper.SetStakingAssetInfo(ctx, &assetstypes.StakingAssetInfo{
			AssetBasicInfo: assetstypes.AssetInfo{Name: a.name, Symbol: a.name, Address: addr.String(), Decimals: 6,
				LayerZeroChainID: d.env.LzID, MetaInfo: a.name},
			StakingTotalAmount: sdkmath.ZeroInt(),
		}); err != nil {
			panic(err)
		}
		for _, o := range a.ops {
			amount := sdkmath.NewIntWithDecimal(50, 6)
			if err := d.app.AssetsKeeper.PerformDepositOrWithdraw(ctx, &assetskeeper.DepositWithdrawParams{
				ClientChainLzID: d.env.LzID, Action: assetstypes.DepositLST, StakerAddress: staker.Bytes(),
				AssetsAddress: addr.Bytes(), OpAmount: amount,
			}); err != nil {
				panic(err)
			}
			nonce++
			if err := d.app.DelegationKeeper.DelegateTo(ctx, &delegationtypes.DelegationOrUndelegationParams{
				ClientChainID: d.env.LzID, LzNonce: nonce, AssetsAddress: addr.Bytes(), StakerAddress: staker.Bytes(),
				OperatorAddress: d.env.Operators[o], OpAmount: amount,
			}); err != nil {
				panic(err)
			}
		}
	}
}

func (d *c07Drv) ctx() sdk.Context { return d.env.Ctx }

// c07Amount: undelegations move 1 unit unless the op asks for more (op.N units)
func c07Amount(n int64) sdkmath.Int {
	if n > 0 {
		return sdkmath.NewInt(n)
	}
	return sdkmath.NewInt(1)
}

// epochID is the epoch identifier the dogfood module currently uses.
func (d *c07Drv) epochID() string {
	return d.app.StakingKeeper.GetDogfoodParams(d.ctx()).EpochIdentifier
}

// newKey adds one more deterministic consensus key to the pool and returns its id.
func (d *c07Drv) newKey() int64 {
	i := len(d.keys)
	_, k := DetConsKey("cons", i)
	d.keys = append(d.keys, k)
	d.keyIdx[string(k.ToConsAddr())] = int64(i)
	d.pubIdx[string(k.ToTmProtoKey().GetEd25519())] = int64(i)
	return int64(i)
}

func (d *c07Drv) opID(b []byte) int64 {
	if v, ok := d.opIdx[string(b)]; ok {
		return v
	}
	return c07Unknown
}

func (d *c07Drv) keyIDAddr(b []byte) int64 {
	if v, ok := d.keyIdx[string(b)]; ok {
		return v
	}
	return c07Unknown
}

func (d *c07Drv) keyIDPub(bz []byte) int64 {
	pk := &tmprotocrypto.PublicKey{}
	if err := pk.Unmarshal(bz); err != nil {
		return c07Unknown
	}
	if v, ok := d.pubIdx[string(pk.GetEd25519())]; ok {
		return v
	}
	return c07Unknown
}

func (d *c07Drv) recID(b []byte) int64 {
	if v, ok := d.recIdx[string(b)]; ok {
		return v
	}
	return c07Unknown
}

func c07SortPairs(p [][2]int64) [][2]int64 {
	sort.Slice(p, func(i, j int) bool {
		if p[i][0] != p[j][0] {
			return p[i][0] < p[j][0]
		}
		return p[i][1] < p[j][1]
	})
	if p == nil {
		p = [][2]int64{}
	}
	return p
}

func c07SortInts(p []int64) []int64 {
	sort.Slice(p, func(i, j int) bool { return p[i] < p[j] })
	if p == nil {
		p = []int64{}
	}
	return p
}

// observe dumps the raw stores.
func (d *c07Drv) observe(extraKeys map[int64]bool) c07Obs {
	ctx := d.ctx()
	var o c07Obs
	o.Jailed, o.Info, o.Slashed = []int64{}, []int64{}, []int64{}
	for i, op := range d.env.Operators {
		if d.app.OperatorKeeper.IsOptedIn(ctx, op.String(), d.avsAddr) {
			o.Opted = append(o.Opted, int64(i))
		}
		if inf, err := d.app.OperatorKeeper.GetOptedInfo(ctx, op.String(), d.avsAddr); err == nil {
			o.Info = append(o.Info, int64(i))
			if inf.Jailed {
				o.Jailed = append(o.Jailed, int64(i))
			}
		}
		all, _ := d.app.OperatorKeeper.AllOperatorSlashInfo(ctx, d.avsAddr, op.String())
		o.slashN = append(o.slashN, len(all))
	}
	o.Opted = c07SortInts(o.Opted)
	// x/operator raw prefixes
	ost := ctx.KVStore(d.app.GetKey(operatortypes.StoreKey))
	chainPart := len(operatortypes.ChainIDWithLenKey(d.chainID))
	iter := func(pfx byte, f func(k, v []byte)) {
		it := sdk.KVStorePrefixIterator(ost, []byte{pfx})
		defer it.Close()
		for ; it.Valid(); it.Next() {
			f(it.Key()[1:], it.Value())
		}
	}
	iter(operatortypes.BytePrefixForOperatorAndChainIDToConsKey, func(k, v []byte) {
		o.KOp = append(o.KOp, [2]int64{d.opID(k[:20]), d.keyIDPub(v)})
	})
	iter(operatortypes.BytePrefixForChainIDAndOperatorToConsKey, func(k, v []byte) {
		o.KCh = append(o.KCh, [2]int64{d.opID(k[chainPart:]), d.keyIDPub(v)})
	})
	iter(operatortypes.BytePrefixForChainIDAndConsKeyToOperator, func(k, v []byte) {
		o.Rev = append(o.Rev, [2]int64{d.keyIDAddr(k[chainPart:]), d.opID(v)})
	})
	iter(operatortypes.BytePrefixForOperatorAndChainIDToPrevConsKey, func(k, v []byte) {
		o.Prev = append(o.Prev, [2]int64{d.opID(k[chainPart:]), d.keyIDPub(v)})
	})
	iter(operatortypes.BytePrefixForOperatorKeyRemovalForChainID, func(k, _ []byte) {
		o.Rm = append(o.Rm, d.opID(k[:20]))
	})
	o.KOp, o.KCh, o.Rev, o.Prev, o.Rm = c07SortPairs(o.KOp), c07SortPairs(o.KCh), c07SortPairs(o.Rev), c07SortPairs(o.Prev), c07SortInts(o.Rm)
	// x/dogfood raw prefixes
	dst := ctx.KVStore(d.app.GetKey(dogfoodtypes.StoreKey))
	diter := func(pfx byte, f func(k, v []byte)) {
		it := sdk.KVStorePrefixIterator(dst, []byte{pfx})
		defer it.Close()
		for ; it.Valid(); it.Next() {
			f(it.Key()[1:], it.Value())
		}
	}
	diter(dogfoodtypes.ExocoreValidatorBytePrefix, func(k, _ []byte) { o.Vs = append(o.Vs, d.keyIDAddr(k)) })
	o.Vs = c07SortInts(o.Vs)
	epochOf := func(k []byte) int64 { return int64(sdk.BigEndianToUint64(k[:8])) }
	conv := func(l [][]byte, f func([]byte) int64) []int64 {
		r := []int64{}
		for _, x := range l {
			r = append(r, f(x))
		}
		return r
	}
	o.QOpt, o.QPrune, o.QUnd = []c07QEntry{}, []c07QEntry{}, []c07QEntry{}
	diter(dogfoodtypes.OptOutsToFinishBytePrefix, func(k, v []byte) {
		var a dogfoodtypes.AccountAddresses
		if err := a.Unmarshal(v); err != nil {
			panic(err)
		}
		o.QOpt = append(o.QOpt, c07QEntry{epochOf(k), conv(a.GetList(), d.opID)})
	})
	diter(dogfoodtypes.ConsensusAddrsToPruneBytePrefix, func(k, v []byte) {
		var a dogfoodtypes.ConsensusAddresses
		if err := a.Unmarshal(v); err != nil {
			panic(err)
		}
		o.QPrune = append(o.QPrune, c07QEntry{epochOf(k), conv(a.GetList(), d.keyIDAddr)})
	})
	diter(dogfoodtypes.UnbondingReleaseMaturityBytePrefix, func(k, v []byte) {
		var a dogfoodtypes.UndelegationRecordKeys
		if err := a.Unmarshal(v); err != nil {
			panic(err)
		}
		o.QUnd = append(o.QUnd, c07QEntry{epochOf(k), conv(a.GetList(), d.recID)})
	})
	diter(dogfoodtypes.OperatorOptOutFinishEpochBytePrefix, func(k, v []byte) {
		o.Fin = append(o.Fin, [2]int64{d.opID(k), int64(sdk.BigEndianToUint64(v))})
	})
	diter(dogfoodtypes.UndelegationMaturityEpochByte, func(k, v []byte) {
		o.Mat = append(o.Mat, [2]int64{d.recID(k), int64(sdk.BigEndianToUint64(v))})
	})
	o.Fin, o.Mat = c07SortPairs(o.Fin), c07SortPairs(o.Mat)
	if bz := dst.Get(dogfoodtypes.PendingOptOutsKey()); bz != nil {
		var a dogfoodtypes.AccountAddresses
		if err := a.Unmarshal(bz); err != nil {
			panic(err)
		}
		o.POpt = conv(a.GetList(), d.opID)
	}
	if bz := dst.Get(dogfoodtypes.PendingConsensusAddrsKey()); bz != nil {
		var a dogfoodtypes.ConsensusAddresses
		if err := a.Unmarshal(bz); err != nil {
			panic(err)
		}
		o.PPrune = conv(a.GetList(), d.keyIDAddr)
	}
	if bz := dst.Get(dogfoodtypes.PendingUndelegationsKey()); bz != nil {
		var a dogfoodtypes.UndelegationRecordKeys
		if err := a.Unmarshal(bz); err != nil {
			panic(err)
		}
		o.PUnd = conv(a.GetList(), d.recID)
	}
	if o.POpt == nil {
		o.POpt = []int64{}
	}
	if o.PPrune == nil {
		o.PPrune = []int64{}
	}
	if o.PUnd == nil {
		o.PUnd = []int64{}
	}
	o.EpEnd = dst.Has(dogfoodtypes.EpochEndKey())
	ei, _ := d.app.EpochsKeeper.GetEpochInfo(ctx, d.epochID())
	o.Cur = ei.CurrentEpoch
	o.Unb = int64(d.app.StakingKeeper.GetDogfoodParams(ctx).EpochsUntilUnbonded)
	// delegation hold counts (raw), zero counts are the same as absent
	lst := ctx.KVStore(d.app.GetKey(delegationtypes.StoreKey))
	it := sdk.KVStorePrefixIterator(lst, []byte{c07HoldPfx})
	for ; it.Valid(); it.Next() {
		n := int64(sdk.BigEndianToUint64(it.Value()))
		if n != 0 {
			o.Holds = append(o.Holds, [2]int64{d.recID(it.Key()[1:]), n})
		}
	}
	it.Close()
	o.Holds = c07SortPairs(o.Holds)
	pk := map[int64]bool{}
	for i := int64(0); i < c07NumKeys; i++ {
		pk[i] = true
	}
	for k := range extraKeys {
		pk[k] = true
	}
	// every key that matters now (current, previous, validating, waiting to be pruned); reverse lookups that were
	// leaked long ago are probed only when the case uses the key again (extraKeys)
	for _, k := range o.keysMentionedExceptRev() {
		pk[k] = true
	}
	var pks []int64
	for k := range pk {
		if k >= 0 && k < int64(len(d.keys)) {
			pks = append(pks, k)
		}
	}
	pks = c07SortInts(pks)
	for _, i := range pks {
		k := d.keys[i]
		// the SDK-facing staking interface x/slashing and x/evidence use (dogfood impl_sdk.go), which goes through
		// the operator keeper's ValidatorByConsAddrForChainID incl. its USD value computation
		found := d.app.StakingKeeper.ValidatorByConsAddr(ctx, k.ToConsAddr()) != nil
		_, foundK := d.app.OperatorKeeper.ValidatorByConsAddrForChainID(ctx, k.ToConsAddr(), d.chainID)
		found2, _ := d.app.OperatorKeeper.GetOperatorAddressForChainIDAndConsAddr(ctx, d.chainID, k.ToConsAddr())
		if found && !found2 {
			panic("ValidatorByConsAddr found without reverse lookup")
		}
		if found != foundK {
			panic("dogfood ValidatorByConsAddr and operator ValidatorByConsAddrForChainID disagree")
		}
		o.Probe = append(o.Probe, c07ProbeKV{i, found})
		o.JProbe = append(o.JProbe, c07ProbeKV{i, d.app.StakingKeeper.IsValidatorJailed(ctx, k.ToConsAddr())})
		if val := d.app.StakingKeeper.ValidatorByConsAddr(ctx, k.ToConsAddr()); val != nil && val.IsJailed() != o.JProbe[len(o.JProbe)-1].Found {
			panic("ValidatorByConsAddr.IsJailed differs from IsValidatorJailed")
		}
	}
	return o
}

// keysMentioned lists every key id that occurs anywhere in the dump.
func (o *c07Obs) keysMentioned() []int64 {
	r := o.keysMentionedExceptRev()
	for _, p := range o.Rev {
		r = append(r, p[0])
	}
	return r
}

func (o *c07Obs) keysMentionedExceptRev() []int64 {
	var r []int64
	for _, p := range o.KOp {
		r = append(r, p[1])
	}
	for _, p := range o.KCh {
		r = append(r, p[1])
	}
	for _, p := range o.Prev {
		r = append(r, p[1])
	}
	r = append(r, o.Vs...)
	for _, q := range o.QPrune {
		r = append(r, q.List...)
	}
	r = append(r, o.PPrune...)
	return r
}

// tx runs f atomically (like a delivered message): state is kept only when f returns nil.
func (d *c07Drv) tx(f func(ctx sdk.Context) error) (res string) {
	cc, write := d.ctx().CacheContext()
	defer func() {
		if r := recover(); r != nil {
			res = "panic"
			if os.Getenv("C07_DEBUG") != "" {
				fmt.Fprintf(os.Stderr, "c07 tx panic: %v\n", r)
			}
		}
	}()
	if err := f(cc); err != nil {
		return "err"
	}
	write()
	return "ok"
}

// operatorMsg delivers an operator message. Every second message goes through the handler the application REGISTERED
// in its message service router (what a transaction reaches: the msg server built inside operator.NewAppModule from the
// keeper the module manager was given), the others through a msg server built directly on app.OperatorKeeper.
func (d *c07Drv) operatorMsg(op *c07Op, msg sdk.Msg, direct func(ctx sdk.Context) error) string {
	d.msgSeq++
	if d.msgSeq%2 == 0 {
		op.Via = "router"
		d.w.Count("via:router")
		return d.tx(func(ctx sdk.Context) error {
			h := d.app.MsgServiceRouter().Handler(msg)
			if h == nil {
				panic("no registered handler for " + sdk.MsgTypeURL(msg))
			}
			_, err := h(ctx, msg)
			return err
		})
	}
	op.Via = "msgserver"
	d.w.Count("via:msgserver")
	return d.tx(direct)
}

// runDelegationPrecompile calls a method of the delegation precompile instance held by the application's EVM keeper,
// with the configured gateway (assets params ExocoreLzAppAddress) as the calling contract.
func (d *c07Drv) runDelegationPrecompile(ctx sdk.Context, txHash common.Hash, method string, args ...interface{}) error {
	fresh, err := delegationprecompile.NewPrecompile(d.app.AssetsKeeper, d.app.DelegationKeeper, d.app.AuthzKeeper)
	if err != nil {
		panic(err)
	}
	addr := fresh.Address()
	pc, ok := d.app.EvmKeeper.Precompiles(addr)[addr]
	if !ok {
		panic("delegation precompile not registered")
	}
	input, err := fresh.ABI.Pack(method, args...)
	if err != nil {
		panic("pack " + method + ": " + err.Error())
	}
	p, _ := d.app.AssetsKeeper.GetParams(ctx)
	gateway := common.HexToAddress(p.ExocoreLzAppAddress)
	ctx = ctx.WithGasMeter(sdk.NewInfiniteGasMeter()).WithValue(delegationprecompile.CtxKeyTxHash, txHash)
	sdb := statedb.New(ctx, d.app.EvmKeeper, statedb.NewEmptyTxConfig(txHash))
	cfg, err := d.app.EvmKeeper.EVMConfig(ctx, d.proposer(ctx), d.app.EvmKeeper.ChainID())
	if err != nil {
		panic("evm config: " + err.Error())
	}
	msg := ethtypes.NewMessage(d.env.AccAddrs[0], &addr, 0, big.NewInt(0), 100_000_000, big.NewInt(0), big.NewInt(0), big.NewInt(0), input, nil, true)
	evm := d.app.EvmKeeper.NewEVM(ctx, msg, cfg, nil, sdb)
	contract := vm.NewPrecompile(vm.AccountRef(gateway), pc, big.NewInt(0), uint64(100_000_000))
	contract.Input = input
	bz, err := pc.Run(evm, contract, false)
	if err != nil {
		return err
	}
	out, err := fresh.ABI.Unpack(method, bz)
	if err != nil || len(out) == 0 {
		return fmt.Errorf("precompile output")
	}
	if okb, isb := out[0].(bool); !isb || !okb {
		return fmt.Errorf("precompile returned false")
	}
	return nil
}

// proposer returns the consensus address of a member of the stored validator set (the EVM resolves the coinbase from the
// block proposer; the header of this harness names a fixed genesis key that may have been replaced long ago), nil if none.
func (d *c07Drv) proposer(ctx sdk.Context) sdk.ConsAddress {
	for _, v := range d.app.StakingKeeper.GetAllExocoreValidators(ctx) {
		if pk, err := v.ConsPubKey(); err == nil {
			return sdk.GetConsAddress(pk)
		}
	}
	return nil
}

func (d *c07Drv) exec(op *c07Op) string {
	switch op.Kind {
	case "optinkey":
		m := &operatortypes.OptIntoAVSReq{
			FromAddress: d.env.Operators[op.O].String(), AvsAddress: d.avsAddr, PublicKeyJSON: d.keys[op.K].ToJSON()}
		return d.operatorMsg(op, m, func(ctx sdk.Context) error {
			_, err := d.msg.OptIntoAVS(sdk.WrapSDKContext(ctx), m)
			return err
		})
	case "optin":
		return d.tx(func(ctx sdk.Context) error {
			return d.app.OperatorKeeper.OptIn(ctx, d.env.Operators[op.O], d.avsAddr)
		})
	case "setkey":
		m := &operatortypes.SetConsKeyReq{
			Address: d.env.Operators[op.O].String(), AvsAddress: d.avsAddr, PublicKeyJSON: d.keys[op.K].ToJSON()}
		return d.operatorMsg(op, m, func(ctx sdk.Context) error {
			_, err := d.msg.SetConsKey(sdk.WrapSDKContext(ctx), m)
			return err
		})
	case "setkeyraw":
		return d.tx(func(ctx sdk.Context) error {
			return d.app.OperatorKeeper.SetOperatorConsKeyForChainID(ctx, d.env.Operators[op.O], d.chainID, d.keys[op.K])
		})
	case "optout":
		m := &operatortypes.OptOutOfAVSReq{FromAddress: d.env.Operators[op.O].String(), AvsAddress: d.avsAddr}
		return d.operatorMsg(op, m, func(ctx sdk.Context) error {
			_, err := d.msg.OptOutOfAVS(sdk.WrapSDKContext(ctx), m)
			return err
		})
	case "undelegate", "undelegatepc":
		d.nonce++
		opAddr := d.env.Operators[op.O]
		txHash := common.BytesToHash(seedBytes("c07tx", int(d.nonce)))
		recKey := delegationtypes.GetUndelegationRecordKey(uint64(d.ctx().BlockHeight()), d.nonce, txHash.String(), opAddr.String())
		op.R = d.nextRec
		d.recIdx[string(recKey)] = d.nextRec
		d.nextRec++
		if op.Kind == "undelegatepc" {
			// the production path: the gateway contract calls the delegation precompile the application REGISTERED
			// with the EVM keeper (not a freshly built instance)
			return d.tx(func(ctx sdk.Context) error {
				return d.runDelegationPrecompile(ctx, txHash, "undelegate", uint32(d.env.LzID), d.nonce,
					common.HexToAddress(d.env.AssetAddr).Bytes(), common.BytesToAddress(opAddr.Bytes()).Bytes(),
					[]byte(opAddr.String()), c07Amount(op.N).BigInt())
			})
		}
		return d.tx(func(ctx sdk.Context) error {
			return d.app.DelegationKeeper.UndelegateFrom(ctx, &delegationtypes.DelegationOrUndelegationParams{
				ClientChainID: d.env.LzID, AssetsAddress: common.HexToAddress(d.env.AssetAddr).Bytes(),
				OperatorAddress: opAddr, StakerAddress: common.BytesToAddress(opAddr.Bytes()).Bytes(),
				OpAmount: c07Amount(op.N), LzNonce: d.nonce, TxHash: txHash,
			})
		})
	case "setunb":
		return d.tx(func(ctx sdk.Context) error {
			p := d.app.StakingKeeper.GetDogfoodParams(ctx)
			p.EpochsUntilUnbonded = uint32(op.N)
			_, err := d.app.StakingKeeper.UpdateParams(sdk.WrapSDKContext(ctx), &dogfoodtypes.MsgUpdateParams{
				Authority: authtypes.NewModuleAddress(govtypes.ModuleName).String(), Params: p})
			return err
		})
	case "jail":
		return d.tx(func(ctx sdk.Context) error { d.app.StakingKeeper.Jail(ctx, d.keys[op.K].ToConsAddr()); return nil })
	case "unjail":
		return d.tx(func(ctx sdk.Context) error { d.app.StakingKeeper.Unjail(ctx, d.keys[op.K].ToConsAddr()); return nil })
	case "slash":
		// unique (infraction, height) per call: the slash id is derived from them
		d.slashSeq++
		inf := stakingtypes.Infraction(d.slashSeq % 3)
		h := d.ctx().BlockHeight() - (d.slashSeq/3)%d.ctx().BlockHeight()
		for d.slashUsed[[2]int64{int64(inf), h}] {
			h--
			if h < 1 {
				return "ok"
			}
		}
		d.slashUsed[[2]int64{int64(inf), h}] = true
		return d.tx(func(ctx sdk.Context) error {
			d.app.StakingKeeper.SlashWithInfractionReason(ctx, d.keys[op.K].ToConsAddr(), h, 1, sdk.NewDecWithPrec(1, 4), inf)
			return nil
		})
	case "setepochid":
		return d.tx(func(ctx sdk.Context) error {
			p := d.app.StakingKeeper.GetDogfoodParams(ctx)
			p.EpochIdentifier = op.ID
			_, err := d.app.StakingKeeper.UpdateParams(sdk.WrapSDKContext(ctx), &dogfoodtypes.MsgUpdateParams{
				Authority: authtypes.NewModuleAddress(govtypes.ModuleName).String(), Params: p})
			return err
		})
	case "topup":
		// the operator's own staker deposits op.K units of the accepted asset and delegates them to the operator:
		// no effect on the key registry or the queues (AfterDelegation is a no-op): for the model SetUnb unchanged
		op.N = int64(d.app.StakingKeeper.GetDogfoodParams(d.ctx()).EpochsUntilUnbonded)
		d.nonce++
		opAddr := d.env.Operators[op.O]
		return d.tx(func(ctx sdk.Context) error {
			if err := d.app.AssetsKeeper.PerformDepositOrWithdraw(ctx, &assetskeeper.DepositWithdrawParams{
				ClientChainLzID: d.env.LzID, Action: assetstypes.DepositLST, StakerAddress: common.BytesToAddress(opAddr.Bytes()).Bytes(),
				AssetsAddress: common.HexToAddress(d.env.AssetAddr).Bytes(), OpAmount: sdkmath.NewInt(op.K),
			}); err != nil {
				return err
			}
			return d.app.DelegationKeeper.DelegateTo(ctx, &delegationtypes.DelegationOrUndelegationParams{
				ClientChainID: d.env.LzID, LzNonce: d.nonce, AssetsAddress: common.HexToAddress(d.env.AssetAddr).Bytes(),
				StakerAddress: common.BytesToAddress(opAddr.Bytes()).Bytes(), OperatorAddress: opAddr, OpAmount: sdkmath.NewInt(op.K),
			})
		})
	case "setmaxvals":
		// MaxValidators only influences the selection by vote power, which is an input (sel) of the model:
		// for the model this is SetUnb with the unchanged value
		op.N = int64(d.app.StakingKeeper.GetDogfoodParams(d.ctx()).EpochsUntilUnbonded)
		return d.tx(func(ctx sdk.Context) error {
			p := d.app.StakingKeeper.GetDogfoodParams(ctx)
			p.MaxValidators = uint32(op.K)
			_, err := d.app.StakingKeeper.UpdateParams(sdk.WrapSDKContext(ctx), &dogfoodtypes.MsgUpdateParams{
				Authority: authtypes.NewModuleAddress(govtypes.ModuleName).String(), Params: p})
			return err
		})
	case "end":
		res := "ok"
		func() {
			defer func() {
				if r := recover(); r != nil {
					res = "panic"
				}
			}()
			d.app.EndBlock(abci.RequestEndBlock{Height: d.env.Header.Height})
		}()
		return res
	case "begin":
		eid := d.epochID()
		before, _ := d.app.EpochsKeeper.GetEpochInfo(d.ctx(), eid)
		d.app.Commit()
		h := d.env.Header
		h.Height++
		h.Time = h.Time.Add(time.Duration(op.Dt) * time.Second)
		h.AppHash = d.app.LastCommitID().Hash
		d.app.BeginBlock(abci.RequestBeginBlock{Header: h})
		d.env.Header = h
		d.env.Ctx = d.app.BaseApp.NewContext(false, h)
		after, _ := d.app.EpochsKeeper.GetEpochInfo(d.ctx(), eid)
		op.Tick = after.CurrentEpoch != before.CurrentEpoch
		if after.CurrentEpoch != before.CurrentEpoch && after.CurrentEpoch != before.CurrentEpoch+1 {
			panic("epoch counter moved by more than one in a block")
		}
		return "ok"
	}
	panic("unknown op " + op.Kind)
}

// ---- case construction ----------------------------------------------------------------------

type c07Builder struct {
	d     *c07Drv
	c     c07Case
	keys  map[int64]bool // universe of the case
	used  map[int64]bool // keys the case's own operations mention (probed in every state)
	recs  map[int64]bool
	kinds map[string]bool
	last  c07Obs
}

func (d *c07Drv) begin(tags ...string) *c07Builder {
	b := &c07Builder{d: d, recs: map[int64]bool{}, keys: map[int64]bool{}, used: map[int64]bool{}, kinds: map[string]bool{}}
	for i := int64(0); i < c07NumKeys; i++ {
		b.keys[i] = true
	}
	b.c.Suite = "c07"
	b.c.Tags = tags
	b.c.Init = d.observe(b.used)
	b.last = b.c.Init
	b.noteRecs(b.c.Init)
	return b
}

func (b *c07Builder) noteRecs(o c07Obs) {
	for _, k := range o.keysMentioned() {
		b.keys[k] = true
	}
	for _, q := range o.QUnd {
		for _, r := range q.List {
			b.recs[r] = true
		}
	}
	for _, p := range o.Mat {
		b.recs[p[0]] = true
	}
	for _, p := range o.Holds {
		b.recs[p[0]] = true
	}
	for _, r := range o.PUnd {
		b.recs[r] = true
	}
	if o.Cur+o.Unb+2 > b.c.MaxEp {
		b.c.MaxEp = o.Cur + o.Unb + 2
	}
	if b.c.MinEp == 0 || o.Cur-1 < b.c.MinEp {
		b.c.MinEp = o.Cur - 1 // the epoch clock can be exchanged for one with smaller numbers
	}
}

func (b *c07Builder) do(op c07Op) string {
	if op.Kind == "undelegate" {
		// every second undelegation arrives the way it does in production: gateway -> delegation precompile
		b.d.undSeq++
		if b.d.undSeq%2 == 0 && b.d.proposer(b.d.ctx()) != nil {
			op.Kind = "undelegatepc"
		}
	}
	if op.Kind == "optinkey" || op.Kind == "setkey" || op.Kind == "setkeyraw" || op.Kind == "jail" || op.Kind == "unjail" || op.Kind == "slash" {
		b.keys[op.K] = true
		b.used[op.K] = true
	}
	if op.Kind == "end" {
		res := b.d.exec(&op)
		obs := b.d.observe(b.used)
		// sel = operators whose current key (chain index) is in the stored validator set after EndBlock
		inVs := map[int64]bool{}
		for _, k := range obs.Vs {
			inVs[k] = true
		}
		op.Sel = []int64{}
		for _, p := range obs.KCh {
			if inVs[p[1]] {
				op.Sel = append(op.Sel, p[0])
			}
		}
		b.push(op, res, obs)
		return res
	}
	res := b.d.exec(&op)
	obs := b.d.observe(b.used)
	if op.Kind == "undelegate" || op.Kind == "undelegatepc" {
		b.recs[op.R] = true
	}
	b.push(op, res, obs)
	return res
}

func (b *c07Builder) push(op c07Op, res string, obs c07Obs) {
	for i := range obs.slashN {
		if i < len(b.last.slashN) && obs.slashN[i] > b.last.slashN[i] {
			obs.Slashed = append(obs.Slashed, int64(i))
		}
	}
	if op.Kind == "setepochid" {
		op.N = obs.Cur // the current epoch of the identifier in force after the call
		if obs.Cur != b.last.Cur {
			b.d.w.Count("setepochid:accepted")
		} else {
			b.d.w.Count("setepochid:refused-or-same")
		}
	}
	if op.Kind == "slash" {
		b.d.w.Count(fmt.Sprintf("slash:operators-hit=%d", len(obs.Slashed)))
	}
	if op.Kind == "jail" || op.Kind == "unjail" {
		b.d.w.Count(fmt.Sprintf("%s:flags-changed=%v", op.Kind, len(obs.Jailed) != len(b.last.Jailed)))
	}
	b.c.Steps = append(b.c.Steps, c07Step{op, res, obs})
	b.noteRecs(obs)
	b.last = obs
	b.kinds[op.Kind] = true
	w := b.d.w
	w.Count("op:" + op.Kind + ":" + res)
	if op.Kind == "begin" {
		w.Count(fmt.Sprintf("begin:tick=%v", op.Tick))
	}
}

// block ends the current block and begins the next one dt seconds later.
func (b *c07Builder) block(dt int64) {
	b.do(c07Op{Kind: "end"})
	b.do(c07Op{Kind: "begin", Dt: dt})
}

func (b *c07Builder) finish(suite string) {
	c := &b.c
	c.Suite = suite
	for i := 0; i < c07NumOps; i++ {
		c.Ops = append(c.Ops, int64(i))
	}
	for k := range b.keys {
		c.Keys = append(c.Keys, k)
	}
	c.Keys = c07SortInts(c.Keys)
	for r := range b.recs {
		c.Recs = append(c.Recs, r)
	}
	c.Recs = c07SortInts(c.Recs)
	c.MaxEp += c07MaxUnbPl
	c.NT = len(b.kinds) >= 3
	b.d.w.Add(c07CaseCoq(c), c)
	b.d.w.Count("cases")
	if len(c.Tags) > 0 {
		b.d.w.Count("cases:directed")
	}
}

// ---- Coq printing ---------------------------------------------------------------------------

func c07Zs(xs []int64) string {
	ss := make([]string, len(xs))
	for i, x := range xs {
		ss[i] = cZ(x)
	}
	return cList(ss)
}

func c07Pairs(xs [][2]int64) string {
	ss := make([]string, len(xs))
	for i, x := range xs {
		ss[i] = cTuple(cZ(x[0]), cZ(x[1]))
	}
	return cList(ss)
}

func c07Q(xs []c07QEntry) string {
	ss := make([]string, len(xs))
	for i, x := range xs {
		ss[i] = cTuple(cZ(x.Epoch), c07Zs(x.List))
	}
	return cList(ss)
}

func (o c07Obs) coq() string {
	pr := make([]string, len(o.Probe))
	for i, p := range o.Probe {
		pr[i] = cTuple(cZ(p.Key), cBool(p.Found))
	}
	jp := make([]string, len(o.JProbe))
	for i, p := range o.JProbe {
		jp[i] = cTuple(cZ(p.Key), cBool(p.Found))
	}
	return cApp("mkObs", c07Zs(o.Opted), c07Pairs(o.KOp), c07Pairs(o.KCh), c07Pairs(o.Rev), c07Pairs(o.Prev), c07Zs(o.Rm),
		c07Zs(o.Vs), c07Q(o.QOpt), c07Q(o.QPrune), c07Q(o.QUnd), c07Pairs(o.Fin), c07Pairs(o.Mat),
		c07Zs(o.POpt), c07Zs(o.PPrune), c07Zs(o.PUnd), cBool(o.EpEnd), cZ(o.Cur), cZ(o.Unb), c07Pairs(o.Holds), cList(pr),
		c07Zs(o.Jailed), c07Zs(o.Info), cList(jp), c07Zs(o.Slashed))
}

func (op c07Op) coq() string {
	switch op.Kind {
	case "optinkey":
		return cApp("OptInKey", cZ(op.O), cZ(op.K))
	case "optin":
		return cApp("OptIn", cZ(op.O))
	case "setkey":
		return cApp("SetKey", cZ(op.O), cZ(op.K))
	case "setkeyraw":
		return cApp("SetKeyK", cZ(op.O), cZ(op.K))
	case "optout":
		return cApp("OptOut", cZ(op.O))
	case "undelegate", "undelegatepc":
		return cApp("Undelegate", cZ(op.O), cZ(op.R))
	case "setunb", "setmaxvals", "topup":
		return cApp("SetUnb", cZ(op.N))
	case "jail":
		return cApp("Jail", cZ(op.K))
	case "unjail":
		return cApp("Unjail", cZ(op.K))
	case "slash":
		return cApp("SlashBy", cZ(op.K))
	case "setepochid":
		return cApp("SetClock", cZ(op.N))
	case "begin":
		return cApp("BeginBlock", cBool(op.Tick))
	case "end":
		return cApp("EndBlock", c07Zs(op.Sel))
	}
	panic("op kind")
}

func c07CaseCoq(c *c07Case) string {
	eps := make([]int64, 0, c.MaxEp+1)
	lo := c.MinEp
	if lo < 0 {
		lo = 0
	}
	for e := lo; e <= c.MaxEp; e++ {
		eps = append(eps, e)
	}
	steps := make([]string, len(c.Steps))
	for i, s := range c.Steps {
		r := map[string]string{"ok": "ROk", "err": "RErr", "panic": "RPanic"}[s.Res]
		steps[i] = cApp("mkStep", s.Op.coq(), r, s.Obs.coq())
	}
	return cApp("mkCase", cApp("mkU", c07Zs(c.Ops), c07Zs(c.Keys), c07Zs(c.Recs), c07Zs(eps)), c.Init.coq(), cList(steps))
}

// ---- directed scenarios ---------------------------------------------------------------------

// free operators: opted out, no removal pending. Drives blocks until operator o has no removal marker.
func (b *c07Builder) untilClean(o int64) {
	for i := 0; i < 12; i++ {
		rm := false
		for _, x := range b.last.Rm {
			if x == o {
				rm = true
			}
		}
		if !rm {
			return
		}
		b.block(61)
	}
}

func c07In(x int64, l []int64) bool {
	for _, y := range l {
		if x == y {
			return true
		}
	}
	return false
}

// a key of the hot pool that no reverse lookup mentions; a brand-new key when the whole hot pool is taken
func (b *c07Builder) freeKey(rng *rand.Rand) int64 {
	used := map[int64]bool{}
	for _, p := range b.last.Rev {
		used[p[0]] = true
	}
	var free []int64
	for k := int64(0); k < c07NumKeys; k++ {
		if !used[k] {
			free = append(free, k)
		}
	}
	if len(free) == 0 {
		return b.d.newKey()
	}
	return free[rng.Intn(len(free))]
}

// an operator satisfying pred on the last observation (or any operator)
func (b *c07Builder) pickOp(rng *rand.Rand, pred func(o int64) bool) int64 {
	var ok []int64
	for o := int64(0); o < c07NumOps; o++ {
		if pred(o) {
			ok = append(ok, o)
		}
	}
	if len(ok) == 0 || rng.Intn(4) == 0 {
		return int64(rng.Intn(c07NumOps))
	}
	return ok[rng.Intn(len(ok))]
}

func (b *c07Builder) hasKey(o int64) bool {
	for _, p := range b.last.KOp {
		if p[0] == o {
			return true
		}
	}
	return false
}

func (d *c07Drv) directed(suite string, rng *rand.Rand) {
	// D1: opt out (validating key), wait for completion, then opt in with a key and opt out again in the SAME
	// epoch (key never active), undelegate afterwards, opt in again with the same key (DESIGN §7 defect #4).
	b := d.begin("dir-optout-before-activation")
	b.do(c07Op{Kind: "setunb", N: 1})
	b.do(c07Op{Kind: "optout", O: 3})
	b.do(c07Op{Kind: "undelegate", O: 3})
	b.block(61)
	b.block(61)
	b.untilClean(3)
	k := b.freeKey(rng)
	b.do(c07Op{Kind: "optinkey", O: 3, K: k})
	b.do(c07Op{Kind: "optout", O: 3})
	b.do(c07Op{Kind: "undelegate", O: 3})
	b.block(7)
	b.do(c07Op{Kind: "undelegate", O: 3})
	b.block(61)
	b.do(c07Op{Kind: "undelegate", O: 3})
	b.do(c07Op{Kind: "optinkey", O: 3, K: k})
	b.block(61)
	b.block(61)
	b.finish(suite)

	// D2: replace an active key and opt out in the same epoch (current key never active, previous key validating)
	b = d.begin("dir-replace-then-optout")
	b.do(c07Op{Kind: "setunb", N: 2})
	k = b.freeKey(rng)
	b.do(c07Op{Kind: "setkey", O: 2, K: k})
	b.do(c07Op{Kind: "optout", O: 2})
	b.do(c07Op{Kind: "undelegate", O: 2})
	b.do(c07Op{Kind: "optin", O: 2})
	b.do(c07Op{Kind: "optinkey", O: 2, K: b.freeKey(rng)})
	b.do(c07Op{Kind: "setkey", O: 2, K: b.freeKey(rng)})
	for i := 0; i < 4; i++ {
		b.block(61)
		b.do(c07Op{Kind: "undelegate", O: 2})
	}
	b.do(c07Op{Kind: "optinkey", O: 2, K: b.freeKey(rng)})
	b.block(61)
	b.block(61)
	b.finish(suite)

	// D3: opt out, try to opt back in (no key) while removing, opt out again one epoch later
	b = d.begin("dir-optin-while-removing")
	b.do(c07Op{Kind: "setunb", N: 3})
	b.do(c07Op{Kind: "optout", O: 1})
	b.do(c07Op{Kind: "optin", O: 1})
	b.do(c07Op{Kind: "setkeyraw", O: 1, K: b.freeKey(rng)})
	b.block(61)
	b.do(c07Op{Kind: "optout", O: 1})
	b.do(c07Op{Kind: "undelegate", O: 1})
	for i := 0; i < 5; i++ {
		b.block(61)
	}
	b.do(c07Op{Kind: "optin", O: 1})
	b.do(c07Op{Kind: "optout", O: 1})
	b.do(c07Op{Kind: "setkey", O: 1, K: b.freeKey(rng)})
	b.do(c07Op{Kind: "optout", O: 1})
	b.block(61)
	b.do(c07Op{Kind: "optinkey", O: 1, K: b.freeKey(rng)})
	b.block(61)
	b.finish(suite)

	// D4: A -> B -> C -> (back to A / B) inside one epoch, other operators trying the same keys
	b = d.begin("dir-multi-replace")
	k1 := b.freeKey(rng)
	b.do(c07Op{Kind: "setkey", O: 0, K: k1})
	k2 := b.freeKey(rng)
	b.do(c07Op{Kind: "setkey", O: 0, K: k2})
	b.do(c07Op{Kind: "setkey", O: 0, K: 0})
	b.do(c07Op{Kind: "setkey", O: 0, K: k1})
	b.do(c07Op{Kind: "setkey", O: 1, K: k1})
	b.do(c07Op{Kind: "setkey", O: 2, K: 0})
	b.do(c07Op{Kind: "undelegate", O: 0})
	for i := 0; i < 4; i++ {
		b.block(61)
		b.do(c07Op{Kind: "setkey", O: 2, K: 0})
		b.do(c07Op{Kind: "setkey", O: 1, K: k1})
	}
	b.finish(suite)

	// D5 (was the known finding C07-deselected-key-pruned-immediately, now repaired): an operator that drops out of the
	// validator set because MaxValidators shrinks replaces its key right afterwards: the old address, active one block
	// ago, must stay resolvable for the unbonding period. Everything is restored afterwards.
	b = d.begin("dir-deselected-key-kept")
	// make sure at least three operators validate
	for o := int64(0); o < c07NumOps; o++ {
		if !c07In(o, b.last.Opted) && !c07In(o, b.last.Rm) {
			b.do(c07Op{Kind: "optinkey", O: o, K: b.freeKey(rng)})
		}
	}
	b.block(61)
	b.block(61)
	b.do(c07Op{Kind: "setmaxvals", K: 1})
	b.block(61)
	b.block(7)
	// a deselected operator: opted in, has a key, key not in the stored set
	victim := int64(-1)
	for _, p := range b.last.KOp {
		if c07In(p[0], b.last.Opted) && !c07In(p[1], b.last.Vs) {
			victim = p[0]
		}
	}
	if victim >= 0 {
		b.do(c07Op{Kind: "setkey", O: victim, K: b.freeKey(rng)})
	}
	b.do(c07Op{Kind: "setmaxvals", K: 100})
	b.block(61)
	b.block(61)
	b.finish(suite)

	// D6: jail / slash / unjail by consensus address around a key replacement of the jailed operator
	b = d.begin("dir-jail-slash")
	b.do(c07Op{Kind: "setunb", N: 2})
	jv := int64(-1)
	var jk int64
	for _, p := range b.last.KOp {
		if c07In(p[0], b.last.Opted) && c07In(p[1], b.last.Vs) {
			jv, jk = p[0], p[1]
		}
	}
	if jv >= 0 {
		b.do(c07Op{Kind: "slash", K: jk})
		b.do(c07Op{Kind: "jail", K: jk})
		b.do(c07Op{Kind: "jail", K: jk})
		b.do(c07Op{Kind: "optout", O: jv})
		b.do(c07Op{Kind: "setkey", O: jv, K: b.freeKey(rng)})
		b.do(c07Op{Kind: "undelegate", O: jv})
		b.block(61)
		b.block(7) // the jailed operator has left the stored set
		nk := b.freeKey(rng)
		b.do(c07Op{Kind: "setkeyraw", O: jv, K: nk})
		b.do(c07Op{Kind: "slash", K: jk}) // the old address still reaches the operator
		b.do(c07Op{Kind: "slash", K: nk})
		b.do(c07Op{Kind: "unjail", K: jk})
		b.do(c07Op{Kind: "jail", K: nk})
		b.do(c07Op{Kind: "unjail", K: nk})
		for i := 0; i < 4; i++ {
			b.block(61)
			b.do(c07Op{Kind: "slash", K: jk})
			b.do(c07Op{Kind: "jail", K: jk})
			b.do(c07Op{Kind: "unjail", K: jk})
		}
	}
	b.finish(suite)

	// D7: the dogfood EpochIdentifier parameter. While anything is scheduled the change must be refused (the queue
	// keys are epoch numbers of the current identifier); with nothing scheduled it is accepted, entries registered
	// under the new clock are keyed by it, and the way back is again refused until they have matured.
	b = d.begin("dir-epoch-identifier")
	b.do(c07Op{Kind: "setunb", N: 1})
	for _, o := range b.last.Opted {
		if b.hasKey(o) {
			b.do(c07Op{Kind: "undelegate", O: o})
			break
		}
	}
	b.do(c07Op{Kind: "setepochid", ID: "hour"}) // refused if the undelegation was held
	for i := 0; i < 8 && !b.nothingScheduled(); i++ {
		b.block(61)
	}
	if b.nothingScheduled() {
		b.do(c07Op{Kind: "setepochid", ID: "hour"}) // accepted
		for _, o := range b.last.Opted {
			if b.hasKey(o) {
				b.do(c07Op{Kind: "undelegate", O: o})
				break
			}
		}
		b.do(c07Op{Kind: "setepochid", ID: "minute"}) // refused while the entry keyed by the hour clock is waiting
		for i := 0; i < 6 && (!b.nothingScheduled() || i == 0); i++ {
			b.block(3601)
		}
		b.do(c07Op{Kind: "setepochid", ID: "minute"})
	}
	b.block(61)
	b.block(61)
	b.finish(suite)
}

// D8: an operator below the AVS minimum self delegation, opted out and unbonding, jailed, with foreign-asset pools: its
// address must stay resolvable through ValidatorByConsAddr and reachable by slash / jail; restored afterwards.
func (d *c07Drv) directedLowSelf(suite string, rng *rand.Rand) {
	b := d.begin("dir-low-self-delegation")
	b.do(c07Op{Kind: "setunb", N: 2})
	v, k := int64(-1), int64(0)
	for _, p := range b.last.KOp {
		if c07In(p[0], b.last.Opted) && c07In(p[1], b.last.Vs) && !c07In(p[0], b.last.Jailed) {
			v, k = p[0], p[1]
		}
	}
	if v >= 0 {
		low := int64(970_000_000) // leaves about 30..60 USD of self delegation, the AVS minimum is 100
		b.do(c07Op{Kind: "undelegate", O: v, N: low})
		b.do(c07Op{Kind: "slash", K: k})
		b.block(61)
		b.do(c07Op{Kind: "jail", K: k})
		b.do(c07Op{Kind: "unjail", K: k})
		b.do(c07Op{Kind: "optout", O: v})
		b.do(c07Op{Kind: "jail", K: k})
		b.do(c07Op{Kind: "slash", K: k})
		b.block(61)
		b.do(c07Op{Kind: "slash", K: k})
		b.do(c07Op{Kind: "unjail", K: k})
		b.block(61)
		b.do(c07Op{Kind: "topup", O: v, K: low})
		b.block(61)
		b.block(61)
	}
	b.finish(suite)
}

// D9: a validating operator replaces its key, is jailed in the same epoch (it stays in the stored validator set, with
// its previous key, until the epoch ends) and is undelegated from: the undelegation must be held like any other.
func (d *c07Drv) directedJailedReplaced(suite string, rng *rand.Rand) {
	b := d.begin("dir-jailed-replaced-undelegate")
	b.do(c07Op{Kind: "setunb", N: 2})
	for _, p := range b.last.KOp {
		if c07In(p[0], b.last.Opted) && c07In(p[1], b.last.Vs) && !c07In(p[0], b.last.Jailed) {
			o, oldKey := p[0], p[1]
			b.do(c07Op{Kind: "setkey", O: o, K: b.freeKey(rng)})
			b.do(c07Op{Kind: "jail", K: oldKey})
			b.do(c07Op{Kind: "undelegate", O: o})
			b.do(c07Op{Kind: "slash", K: oldKey})
			b.block(7)
			b.do(c07Op{Kind: "undelegate", O: o})
			b.block(61)
			b.do(c07Op{Kind: "undelegate", O: o}) // left the set at the epoch end: no hold any more
			b.do(c07Op{Kind: "unjail", K: oldKey})
			break
		}
	}
	for i := 0; i < 4; i++ {
		b.block(61)
	}
	b.finish(suite)
}

// D10: the same undelegation from a validating operator through the keeper and through the gateway precompile the
// application registered: both must be queued for cur+unb and held.
func (d *c07Drv) directedPrecompileUndelegation(suite string, rng *rand.Rand) {
	b := d.begin("dir-precompile-undelegation")
	b.do(c07Op{Kind: "setunb", N: 2})
	for _, p := range b.last.KOp {
		if c07In(p[0], b.last.Opted) && c07In(p[1], b.last.Vs) {
			o := p[0]
			b.push2(c07Op{Kind: "undelegate", O: o})
			b.push2(c07Op{Kind: "undelegatepc", O: o})
			b.do(c07Op{Kind: "optout", O: o})
			b.push2(c07Op{Kind: "undelegatepc", O: o}) // matures with the opt-out
			break
		}
	}
	for i := 0; i < 4; i++ {
		b.block(61)
	}
	b.finish(suite)
}

// push2 executes an op exactly as given (no alternation between the keeper and the precompile path).
func (b *c07Builder) push2(op c07Op) {
	if op.Kind == "undelegatepc" && b.d.proposer(b.d.ctx()) == nil {
		op.Kind = "undelegate"
	}
	res := b.d.exec(&op)
	obs := b.d.observe(b.used)
	b.recs[op.R] = true
	b.push(op, res, obs)
}

func (b *c07Builder) nothingScheduled() bool {
	o := b.last
	return len(o.QOpt) == 0 && len(o.QPrune) == 0 && len(o.QUnd) == 0 && len(o.POpt) == 0 && len(o.PPrune) == 0 && len(o.PUnd) == 0
}

// ---- random histories -----------------------------------------------------------------------

type c07Mix struct {
	optinkey, optin, setkey, setkeyraw, optout, undelegate, setunb, jail, unjail, slash, clock, combo int
	blockEvery                                                                                        int
	pTick, pGap                                                                                       int // per cent
}

func (d *c07Drv) random(suite string, rng *rand.Rand, mix c07Mix, steps int) {
	b := d.begin()
	total := mix.optinkey + mix.optin + mix.setkey + mix.setkeyraw + mix.optout + mix.undelegate + mix.setunb + mix.jail + mix.unjail + mix.slash + mix.clock + mix.combo
	sinceBlock := 0
	for len(b.c.Steps) < steps {
		if sinceBlock >= 1+rng.Intn(mix.blockEvery) {
			p := rng.Intn(100)
			switch {
			case p < mix.pGap:
				b.block(int64(125 + rng.Intn(120))) // several epochs behind: one tick per block until caught up
			case p < mix.pGap+mix.pTick:
				b.block(61)
			default:
				b.block(int64(3 + rng.Intn(8)))
			}
			sinceBlock = 0
			continue
		}
		sinceBlock++
		x := rng.Intn(total)
		if x >= total-mix.combo {
			// several things about ONE validating operator inside one epoch: replace its key, jail / slash it by one of its
			// addresses, undelegate from it (in a random order, each step optional) — interactions of the registry, the
			// jailed flag and the hold decision that independent single ops rarely line up
			var cand [][2]int64
			for _, p := range b.last.KOp {
				if c07In(p[0], b.last.Opted) && c07In(p[1], b.last.Vs) {
					cand = append(cand, p)
				}
			}
			if len(cand) > 0 {
				p := cand[rng.Intn(len(cand))]
				o, oldKey := p[0], p[1]
				newKey := b.freeKey(rng)
				steps := []c07Op{{Kind: "setkey", O: o, K: newKey}, {Kind: "jail", K: oldKey}, {Kind: "undelegate", O: o}}
				if rng.Intn(2) == 0 {
					steps = append(steps, c07Op{Kind: "slash", K: []int64{oldKey, newKey}[rng.Intn(2)]})
				}
				if rng.Intn(3) == 0 {
					steps[1], steps[0] = steps[0], steps[1] // jailed first: the replacement through the message is refused
				}
				if rng.Intn(3) == 0 {
					steps = append(steps, c07Op{Kind: "setkeyraw", O: o, K: b.freeKey(rng)})
				}
				steps = append(steps, c07Op{Kind: "undelegate", O: o})
				if rng.Intn(2) == 0 {
					steps = append(steps, c07Op{Kind: "unjail", K: []int64{oldKey, newKey}[rng.Intn(2)]})
				}
				for _, st := range steps {
					b.do(st)
				}
				b.d.w.Count("combo")
			}
			continue
		}
		opted := func(o int64) bool { return c07In(o, b.last.Opted) }
		removing := func(o int64) bool { return c07In(o, b.last.Rm) }
		pickKey := func() int64 {
			// collisions are wanted: any key of the hot pool, a key some reverse lookup still mentions, a free key, a new key
			switch p := rng.Intn(100); {
			case p < 35:
				return int64(rng.Intn(c07NumKeys))
			case p < 50 && len(b.last.Rev) > 0:
				return b.last.Rev[rng.Intn(len(b.last.Rev))][0]
			case p < 90:
				return b.freeKey(rng)
			default:
				return b.d.newKey()
			}
		}
		pickAddr := func() int64 {
			// mostly an address some index still mentions (current, replaced, waiting), sometimes any key of the hot pool
			m := b.last.keysMentioned()
			if len(m) > 0 && rng.Intn(5) != 0 {
				return m[rng.Intn(len(m))]
			}
			return int64(rng.Intn(c07NumKeys))
		}
		var o int64
		switch {
		case x < mix.optinkey:
			o = b.pickOp(rng, func(o int64) bool { return !opted(o) && !removing(o) })
		case x < mix.optinkey+mix.optin:
			o = b.pickOp(rng, func(o int64) bool { return !opted(o) })
		case x < mix.optinkey+mix.optin+mix.setkey+mix.setkeyraw:
			o = b.pickOp(rng, func(o int64) bool { return opted(o) })
		case x < mix.optinkey+mix.optin+mix.setkey+mix.setkeyraw+mix.optout:
			o = b.pickOp(rng, func(o int64) bool { return opted(o) && b.hasKey(o) })
		default:
			o = b.pickOp(rng, func(o int64) bool { return b.hasKey(o) })
		}
		switch {
		case x < mix.optinkey:
			b.do(c07Op{Kind: "optinkey", O: o, K: pickKey()})
		case x < mix.optinkey+mix.optin:
			b.do(c07Op{Kind: "optin", O: o})
		case x < mix.optinkey+mix.optin+mix.setkey:
			b.do(c07Op{Kind: "setkey", O: o, K: pickKey()})
		case x < mix.optinkey+mix.optin+mix.setkey+mix.setkeyraw:
			b.do(c07Op{Kind: "setkeyraw", O: o, K: pickKey()})
		case x < mix.optinkey+mix.optin+mix.setkey+mix.setkeyraw+mix.optout:
			b.do(c07Op{Kind: "optout", O: o})
		case x < mix.optinkey+mix.optin+mix.setkey+mix.setkeyraw+mix.optout+mix.undelegate:
			b.do(c07Op{Kind: "undelegate", O: o})
		case x < mix.optinkey+mix.optin+mix.setkey+mix.setkeyraw+mix.optout+mix.undelegate+mix.setunb:
			b.do(c07Op{Kind: "setunb", N: int64(1 + rng.Intn(c07MaxUnbPl-1))})
		case x < mix.optinkey+mix.optin+mix.setkey+mix.setkeyraw+mix.optout+mix.undelegate+mix.setunb+mix.jail:
			b.do(c07Op{Kind: "jail", K: pickAddr()})
		case x < mix.optinkey+mix.optin+mix.setkey+mix.setkeyraw+mix.optout+mix.undelegate+mix.setunb+mix.jail+mix.unjail:
			b.do(c07Op{Kind: "unjail", K: pickAddr()})
		case x < mix.optinkey+mix.optin+mix.setkey+mix.setkeyraw+mix.optout+mix.undelegate+mix.setunb+mix.jail+mix.unjail+mix.slash:
			b.do(c07Op{Kind: "slash", K: pickAddr()})
		default:
			// an attempt to exchange the epoch clock while something is scheduled (must be refused); with nothing
			// scheduled the exchange is exercised by the directed scenario only, so that the stream keeps ticking
			if !b.nothingScheduled() {
				b.do(c07Op{Kind: "setepochid", ID: []string{"hour", "day", "week"}[rng.Intn(3)]})
			}
		}
	}
	b.block(int64(3 + rng.Intn(8)))
	b.finish(suite)
}

func c07Run(a *Args, suite string) error {
	w := NewCaseWriter(a.Out)
	defer w.Close()
	rng := rand.New(rand.NewSource(a.Seed))
	d := c07NewDrv(w)
	d.directed(suite, rng)
	d.directedLowSelf(suite, rng)
	d.directedJailedReplaced(suite, rng)
	d.directedPrecompileUndelegation(suite, rng)
	mix := c07Mix{optinkey: 22, optin: 5, setkey: 24, setkeyraw: 10, optout: 18, undelegate: 16, setunb: 4, jail: 7, unjail: 9, slash: 8, clock: 2, combo: 5, blockEvery: 4, pTick: 40, pGap: 6}
	if suite == "c16" {
		mix = c07Mix{optinkey: 14, optin: 3, setkey: 13, setkeyraw: 4, optout: 14, undelegate: 40, setunb: 10, jail: 3, unjail: 4, slash: 3, clock: 4, combo: 7, blockEvery: 4, pTick: 40, pGap: 10}
	}
	for w.n < a.N {
		d.random(suite, rng, mix, 18+rng.Intn(24))
	}
	return nil
}
