package main

// Suite c10inv (inventory tie for C10): re-derives, from the repository's CURRENT sources, the list of
//   P_<pkg>_<method>  state-changing precompile methods (IsTransaction says true AND the ABI does not say view/pure)
//   M_<module>_<Method> methods of every Msg service that a module wired into app/app.go registers
//   Q_...             every other ABI method, with its mutability and IsTransaction flag
//   X_...             Msg services registered from outside the repository (x/evm registers the evmos service) and
//                     modules whose RegisterMsgServer call is commented out / which are not wired into the app
// and writes them as one Coq case that Model.check_inv compares with the constructor names of entry_point.
// Only the Go standard library is used (go/parser, go/ast, encoding/json).

import (
	"encoding/json"
	"fmt"
	"go/ast"
	"go/parser"
	"go/token"
	"os"
	"path/filepath"
	"sort"
	"strconv"
	"strings"
)

func init() { register("c10inv", runC10Inv) }

type c10Inventory struct {
	EntryPoints []string `json:"entry_points"`
	Others      []string `json:"other_abi_methods"`
	External    []string `json:"external_or_unregistered"`
	Tags        []string `json:"tags,omitempty"`
	NT          bool     `json:"nt"`
}

func c10RepoDir() string {
	if d := os.Getenv("VERIF_REPO"); d != "" {
		return d
	}
	return "/repo"
}

func c10ParseDir(dir string) []*ast.File {
	fset := token.NewFileSet()
	pkgs, err := parser.ParseDir(fset, dir, func(fi os.FileInfo) bool { return !strings.HasSuffix(fi.Name(), "_test.go") }, 0)
	if err != nil {
		return nil
	}
	var files []*ast.File
	names := []string{}
	for n := range pkgs {
		names = append(names, n)
	}
	sort.Strings(names)
	for _, n := range names {
		fns := []string{}
		for fn := range pkgs[n].Files {
			fns = append(fns, fn)
		}
		sort.Strings(fns)
		for _, fn := range fns {
			files = append(files, pkgs[n].Files[fn])
		}
	}
	return files
}

// string constants of a package
func c10Consts(files []*ast.File) map[string]string {
	out := map[string]string{}
	for _, f := range files {
		for _, d := range f.Decls {
			gd, ok := d.(*ast.GenDecl)
			if !ok || gd.Tok != token.CONST {
				continue
			}
			for _, sp := range gd.Specs {
				vs := sp.(*ast.ValueSpec)
				for i, n := range vs.Names {
					if i < len(vs.Values) {
						if bl, ok := vs.Values[i].(*ast.BasicLit); ok && bl.Kind == token.STRING {
							if s, err := strconv.Unquote(bl.Value); err == nil {
								out[n.Name] = s
							}
						}
					}
				}
			}
		}
	}
	return out
}

// methods for which IsTransaction returns true
func c10TxMethods(files []*ast.File) map[string]bool {
	consts := c10Consts(files)
	out := map[string]bool{}
	for _, f := range files {
		for _, d := range f.Decls {
			fd, ok := d.(*ast.FuncDecl)
			if !ok || fd.Name.Name != "IsTransaction" || fd.Body == nil {
				continue
			}
			ast.Inspect(fd.Body, func(n ast.Node) bool {
				cc, ok := n.(*ast.CaseClause)
				if !ok {
					return true
				}
				returnsTrue := false
				for _, st := range cc.Body {
					if rs, ok := st.(*ast.ReturnStmt); ok && len(rs.Results) == 1 {
						if id, ok := rs.Results[0].(*ast.Ident); ok && id.Name == "true" {
							returnsTrue = true
						}
					}
				}
				if returnsTrue {
					for _, e := range cc.List {
						switch v := e.(type) {
						case *ast.Ident:
							if s, ok := consts[v.Name]; ok {
								out[s] = true
							} else {
								out["?"+v.Name] = true
							}
						case *ast.BasicLit:
							if s, err := strconv.Unquote(v.Value); err == nil {
								out[s] = true
							}
						}
					}
				}
				return true
			})
		}
	}
	return out
}

type c10AbiFn struct {
	Name            string `json:"name"`
	Type            string `json:"type"`
	StateMutability string `json:"stateMutability"`
}

func c10ReadABI(path string) ([]c10AbiFn, error) {
	bz, err := os.ReadFile(path)
	if err != nil {
		return nil, err
	}
	var fns []c10AbiFn
	if err := json.Unmarshal(bz, &fns); err == nil {
		return fns, nil
	}
	var wrapped struct {
		ABI []c10AbiFn `json:"abi"`
	}
	if err := json.Unmarshal(bz, &wrapped); err != nil {
		return nil, err
	}
	return wrapped.ABI, nil
}

// does the (non-test) source of dir contain an uncommented call X.RegisterMsgServer(...)?
func c10RegistersMsgServer(files []*ast.File) (found bool, typesPkgPath string) {
	for _, f := range files {
		imports := map[string]string{}
		for _, im := range f.Imports {
			p, _ := strconv.Unquote(im.Path.Value)
			name := filepath.Base(p)
			if im.Name != nil {
				name = im.Name.Name
			}
			imports[name] = p
		}
		ast.Inspect(f, func(n ast.Node) bool {
			ce, ok := n.(*ast.CallExpr)
			if !ok {
				return true
			}
			if se, ok := ce.Fun.(*ast.SelectorExpr); ok && se.Sel.Name == "RegisterMsgServer" {
				found = true
				if id, ok := se.X.(*ast.Ident); ok {
					typesPkgPath = imports[id.Name]
				}
			}
			return true
		})
	}
	return
}

// MethodName entries of the _Msg_serviceDesc in a generated tx.pb.go
func c10MsgMethods(typesDir string) []string {
	var out []string
	for _, f := range c10ParseDir(typesDir) {
		for _, d := range f.Decls {
			gd, ok := d.(*ast.GenDecl)
			if !ok || gd.Tok != token.VAR {
				continue
			}
			for _, sp := range gd.Specs {
				vs := sp.(*ast.ValueSpec)
				if len(vs.Names) != 1 || vs.Names[0].Name != "_Msg_serviceDesc" {
					continue
				}
				ast.Inspect(vs, func(n ast.Node) bool {
					kv, ok := n.(*ast.KeyValueExpr)
					if !ok {
						return true
					}
					if id, ok := kv.Key.(*ast.Ident); ok && id.Name == "MethodName" {
						if bl, ok := kv.Value.(*ast.BasicLit); ok {
							if s, err := strconv.Unquote(bl.Value); err == nil {
								out = append(out, s)
							}
						}
					}
					return true
				})
			}
		}
	}
	return out
}

func c10Scan(repo string) (c10Inventory, error) {
	inv := c10Inventory{NT: true}
	const modPath = "github.com/ExocoreNetwork/exocore/"
	// ---- precompiles
	pdirs, err := filepath.Glob(filepath.Join(repo, "precompiles", "*", "abi.json"))
	if err != nil {
		return inv, err
	}
	if len(pdirs) == 0 {
		return inv, fmt.Errorf("no precompile abi.json under %s", repo)
	}
	sort.Strings(pdirs)
	for _, abiPath := range pdirs {
		dir := filepath.Dir(abiPath)
		pkg := filepath.Base(dir)
		fns, err := c10ReadABI(abiPath)
		if err != nil {
			return inv, fmt.Errorf("%s: %v", abiPath, err)
		}
		tx := c10TxMethods(c10ParseDir(dir))
		inABI := map[string]bool{}
		for _, fn := range fns {
			if fn.Type != "function" {
				continue
			}
			inABI[fn.Name] = true
			mutating := fn.StateMutability != "view" && fn.StateMutability != "pure"
			if mutating && tx[fn.Name] {
				inv.EntryPoints = append(inv.EntryPoints, "P_"+pkg+"_"+fn.Name)
			} else {
				flag := "q"
				if tx[fn.Name] {
					flag = "tx"
				}
				inv.Others = append(inv.Others, "Q_"+pkg+"_"+fn.Name+":"+fn.StateMutability+":"+flag)
			}
		}
		for m := range tx {
			if !inABI[m] {
				inv.Others = append(inv.Others, "Q_"+pkg+"_"+m+":not-in-abi:tx")
			}
		}
	}
	// ---- Msg services
	appImports := map[string]bool{}
	for _, f := range c10ParseDir(filepath.Join(repo, "app")) {
		for _, im := range f.Imports {
			p, _ := strconv.Unquote(im.Path.Value)
			appImports[p] = true
		}
	}
	var moduleDirs []string
	_ = filepath.Walk(filepath.Join(repo, "x"), func(p string, fi os.FileInfo, err error) error {
		if err == nil && !fi.IsDir() && fi.Name() == "module.go" {
			moduleDirs = append(moduleDirs, filepath.Dir(p))
		}
		return nil
	})
	sort.Strings(moduleDirs)
	for _, dir := range moduleDirs {
		rel, _ := filepath.Rel(repo, dir)
		rel = filepath.ToSlash(rel)
		name := strings.ReplaceAll(strings.TrimPrefix(rel, "x/"), "/", "_")
		files := c10ParseDir(dir)
		registers, typesPath := c10RegistersMsgServer(files)
		wired := appImports[modPath+rel]
		typesDir := filepath.Join(dir, "types")
		methods := c10MsgMethods(typesDir)
		switch {
		case registers && wired && strings.HasPrefix(typesPath, modPath):
			for _, m := range c10MsgMethods(filepath.Join(repo, strings.TrimPrefix(typesPath, modPath))) {
				inv.EntryPoints = append(inv.EntryPoints, "M_"+name+"_"+m)
			}
		case registers && wired:
			inv.External = append(inv.External, "X_"+name+":registers:"+typesPath)
		case registers && !wired:
			inv.External = append(inv.External, "X_"+name+":not-wired-into-app:"+strings.Join(methods, ","))
		case len(methods) > 0:
			inv.External = append(inv.External, "X_"+name+":msg-server-not-registered:"+strings.Join(methods, ","))
		}
	}
	sort.Strings(inv.EntryPoints)
	sort.Strings(inv.Others)
	sort.Strings(inv.External)
	return inv, nil
}

func runC10Inv(a *Args) error {
	inv, err := c10Scan(c10RepoDir())
	if err != nil {
		return err
	}
	cw := NewCaseWriter(a.Out)
	defer cw.Close()
	q := func(xs []string) string {
		ss := make([]string, len(xs))
		for i, x := range xs {
			ss[i] = cStr(x)
		}
		return cList(ss)
	}
	cw.Add(cApp("mkInv", q(inv.EntryPoints), q(inv.Others), q(inv.External)), inv)
	cw.CountN("entry_points", len(inv.EntryPoints))
	cw.CountN("other_abi_methods", len(inv.Others))
	cw.CountN("external_or_unregistered", len(inv.External))
	lines := append(append(append([]string{}, inv.EntryPoints...), inv.Others...), inv.External...)
	_ = os.WriteFile(filepath.Join(a.Out, "inventory.txt"), []byte(strings.Join(lines, "\n")+"\n"), 0o644)
	return nil
}
