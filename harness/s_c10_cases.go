package main

// C10 case generation: the entry-point table and the caller matrix.

import (
	"fmt"
	"math/big"
	"strconv"
	"strings"

	sdkmath "cosmossdk.io/math"
	abci "github.com/cometbft/cometbft/abci/types"
	cryptotypes "github.com/cosmos/cosmos-sdk/crypto/types"
	"github.com/cosmos/cosmos-sdk/store/prefix"
	sdk "github.com/cosmos/cosmos-sdk/types"
	stakingtypes "github.com/cosmos/cosmos-sdk/x/staking/types"
	"github.com/ethereum/go-ethereum/accounts/abi"
	"github.com/ethereum/go-ethereum/common"
	"github.com/ethereum/go-ethereum/core/vm"
	"github.com/ethereum/go-ethereum/crypto"

	assetskeeper "github.com/ExocoreNetwork/exocore/x/assets/keeper"
	assetstypes "github.com/ExocoreNetwork/exocore/x/assets/types"
	avstypes "github.com/ExocoreNetwork/exocore/x/avs/types"
	delegationtypes "github.com/ExocoreNetwork/exocore/x/delegation/types"
	dogfoodtypes "github.com/ExocoreNetwork/exocore/x/dogfood/types"
	exominttypes "github.com/ExocoreNetwork/exocore/x/exomint/types"
	feedisttypes "github.com/ExocoreNetwork/exocore/x/feedistribution/types"
	operatortypes "github.com/ExocoreNetwork/exocore/x/operator/types"
	oracletypes "github.com/ExocoreNetwork/exocore/x/oracle/types"
)

func c10ZeroCommission() stakingtypes.Commission {
	return stakingtypes.NewCommission(sdk.ZeroDec(), sdk.ZeroDec(), sdk.ZeroDec())
}

// ---- precompile entry points ------------------------------------------------------------------

type c10EvmEP struct {
	ep     string
	abi    *abi.ABI
	to     common.Address
	method string
	direct vm.PrecompiledContract
	family string // gateway | avsreg | avsowner | avsop | bls | challenge
	// args builds the ABI arguments; caller = contract.CallerAddress, sender = args[0] of AVS methods
	args func(w *c10World, caller, sender common.Address, salt int) []interface{}
	// prep seeds the cache context so that the payload is well-formed for the rightful caller
	prep func(w *c10World, ctx sdk.Context, caller, sender common.Address)
	// biz: does the business logic behind the guard accept this payload (in the prepared state)?
	biz bool
}

func c10Eth32() *big.Int {
	return new(big.Int).Mul(big.NewInt(32), new(big.Int).Exp(big.NewInt(10), big.NewInt(18), nil))
}

func c10Pad32(b []byte) []byte {
	out := make([]byte, 32)
	copy(out, b)
	return out
}

func (w *c10World) staker0() []byte {
	return c10Pad32(common.BytesToAddress(w.env.Operators[0].Bytes()).Bytes())
}
func (w *c10World) asset0() []byte { return c10Pad32(common.HexToAddress(w.env.AssetAddr).Bytes()) }

func (w *c10World) evmEPs() []c10EvmEP {
	aP, dP, vP, rP, sP := w.assetsP, w.delegationP, w.avsP, w.rewardP, w.slashP
	amt := func(salt int) *big.Int { return big.NewInt(int64(1000 + salt%997)) }
	newStaker := func(salt int) []byte {
		_, a := DetEthKey("c10staker", salt)
		return c10Pad32(a.Bytes())
	}
	opBytes := func(i int) []byte { return []byte(w.env.Operators[i].String()) }
	eps := []c10EvmEP{
		{ep: "P_assets_depositLST", abi: &aP.ABI, to: aP.Address(), method: "depositLST", family: "gateway", biz: true,
			args: func(w *c10World, _, _ common.Address, salt int) []interface{} {
				return []interface{}{uint32(101), w.asset0(), newStaker(salt), amt(salt)}
			}},
		{ep: "P_assets_depositNST", abi: &aP.ABI, to: aP.Address(), method: "depositNST", family: "gateway", biz: true,
			args: func(w *c10World, _, _ common.Address, salt int) []interface{} {
				return []interface{}{uint32(101), c10Pad32([]byte("validator-pubkey")), newStaker(salt), c10Eth32()}
			}},
		{ep: "P_assets_withdrawLST", abi: &aP.ABI, to: aP.Address(), method: "withdrawLST", family: "gateway", biz: true,
			args: func(w *c10World, _, _ common.Address, salt int) []interface{} {
				return []interface{}{uint32(101), w.asset0(), w.staker0(), amt(salt)}
			},
			prep: func(w *c10World, ctx sdk.Context, _, _ common.Address) { w.prepDeposit(ctx) }},
		{ep: "P_assets_withdrawNST", abi: &aP.ABI, to: aP.Address(), method: "withdrawNST", family: "gateway", biz: true,
			args: func(w *c10World, _, _ common.Address, salt int) []interface{} {
				return []interface{}{uint32(101), c10Pad32([]byte("validator-pubkey")), w.staker0(), c10Eth32()}
			},
			prep: func(w *c10World, ctx sdk.Context, _, _ common.Address) {
				// a native deposit of staker 0 made by the gateway beforehand
				in, _ := w.assetsP.ABI.Pack("depositNST", uint32(101), c10Pad32([]byte("validator-pubkey")), w.staker0(), c10Eth32())
				_, _ = w.evmCall(ctx, w.gateway, w.accs[0], w.assetsP.Address(), in, nil)
			}},
		{ep: "P_assets_registerOrUpdateClientChain", abi: &aP.ABI, to: aP.Address(), method: "registerOrUpdateClientChain", family: "gateway", biz: true,
			args: func(w *c10World, _, _ common.Address, salt int) []interface{} {
				return []interface{}{uint32(102 + salt%50), uint8(20), "chain" + strconv.Itoa(salt), "meta", "ECDSA"}
			}},
		{ep: "P_assets_registerToken", abi: &aP.ABI, to: aP.Address(), method: "registerToken", family: "gateway", biz: true,
			args: func(w *c10World, _, _ common.Address, salt int) []interface{} {
				_, tok := DetEthKey("c10token", salt)
				return []interface{}{uint32(101), c10Pad32(tok.Bytes()), uint8(18), "TKN" + strconv.Itoa(salt), "meta", "TKN" + strconv.Itoa(salt) + ",Ethereum,18"}
			}},
		{ep: "P_assets_updateToken", abi: &aP.ABI, to: aP.Address(), method: "updateToken", family: "gateway", biz: true,
			args: func(w *c10World, _, _ common.Address, salt int) []interface{} {
				return []interface{}{uint32(101), w.asset0(), "new meta " + strconv.Itoa(salt)}
			}},
		{ep: "P_delegation_delegate", abi: &dP.ABI, to: dP.Address(), method: "delegate", family: "gateway", biz: true,
			args: func(w *c10World, _, _ common.Address, salt int) []interface{} {
				return []interface{}{uint32(101), uint64(1000 + salt), w.asset0(), w.staker0(), opBytes(1), amt(salt)}
			},
			prep: func(w *c10World, ctx sdk.Context, _, _ common.Address) { w.prepDeposit(ctx) }},
		{ep: "P_delegation_undelegate", abi: &dP.ABI, to: dP.Address(), method: "undelegate", family: "gateway", biz: true,
			args: func(w *c10World, _, _ common.Address, salt int) []interface{} {
				return []interface{}{uint32(101), uint64(2000 + salt), w.asset0(), w.staker0(), opBytes(0), amt(salt)}
			}},
		{ep: "P_delegation_associateOperatorWithStaker", abi: &dP.ABI, to: dP.Address(), method: "associateOperatorWithStaker", family: "gateway", biz: true,
			args: func(w *c10World, _, _ common.Address, salt int) []interface{} {
				return []interface{}{uint32(101), newStaker(salt), opBytes(1)}
			}},
		{ep: "P_delegation_dissociateOperatorFromStaker", abi: &dP.ABI, to: dP.Address(), method: "dissociateOperatorFromStaker", family: "gateway", biz: true,
			args: func(w *c10World, _, _ common.Address, salt int) []interface{} {
				return []interface{}{uint32(101), w.staker0()}
			}},
		{ep: "P_reward_claimReward", abi: &rP.ABI, to: rP.Address(), method: "claimReward", family: "gateway", biz: false, // RewardForWithdraw: "don't have supported it yet"
			args: func(w *c10World, _, _ common.Address, salt int) []interface{} {
				return []interface{}{uint32(101), w.asset0(), w.staker0(), amt(salt)}
			}},
		{ep: "P_slash_submitSlash", abi: &sP.ABI, to: sP.Address(), method: "submitSlash", family: "gateway", biz: true, direct: sP, // keeper Slash is an empty stub
			args: func(w *c10World, _, _ common.Address, salt int) []interface{} {
				return []interface{}{uint32(101), w.asset0(), w.staker0(), amt(salt), opBytes(0), c10Pad32([]byte("middleware")), "0.1", "proof"}
			}},
		// ---- AVS manager
		{ep: "P_avs_registerAVS", abi: &vP.ABI, to: vP.Address(), method: "registerAVS", family: "avsreg", biz: true},
		{ep: "P_avs_updateAVS", abi: &vP.ABI, to: vP.Address(), method: "updateAVS", family: "avsowner", biz: true},
		{ep: "P_avs_deregisterAVS", abi: &vP.ABI, to: vP.Address(), method: "deregisterAVS", family: "avsowner", biz: true,
			args: func(w *c10World, _, sender common.Address, _ int) []interface{} {
				return []interface{}{sender, "c10avs"}
			}},
		{ep: "P_avs_createTask", abi: &vP.ABI, to: vP.Address(), method: "createTask", family: "avsowner", biz: true,
			args: func(w *c10World, _, sender common.Address, salt int) []interface{} {
				return []interface{}{sender, "task" + strconv.Itoa(salt), []byte("task-hash-" + strconv.Itoa(salt)), uint64(2), uint64(2), uint64(60), uint64(2)}
			},
			prep: func(w *c10World, ctx sdk.Context, caller, _ common.Address) {
				// voting power of the AVS must be positive for a task to be created
				_ = w.env.App.OperatorKeeper.SetAVSUSDValue(ctx, strings.ToLower(caller.Hex()), sdkmath.LegacyNewDec(1000))
				_ = w.env.App.OperatorKeeper.SetAVSUSDValue(ctx, caller.Hex(), sdkmath.LegacyNewDec(1000))
			}},
		{ep: "P_avs_registerOperatorToAVS", abi: &vP.ABI, to: vP.Address(), method: "registerOperatorToAVS", family: "avsop", biz: true,
			args: func(w *c10World, _, sender common.Address, _ int) []interface{} { return []interface{}{sender} }},
		{ep: "P_avs_deregisterOperatorFromAVS", abi: &vP.ABI, to: vP.Address(), method: "deregisterOperatorFromAVS", family: "avsop", biz: true,
			args: func(w *c10World, _, sender common.Address, _ int) []interface{} { return []interface{}{sender} },
			prep: func(w *c10World, ctx sdk.Context, caller, sender common.Address) {
				// the operator must be opted in before it can be opted out (only possible when the AVS exists)
				if ok, _ := w.env.App.AVSManagerKeeper.IsAVS(ctx, caller.Hex()); ok {
					_ = w.env.App.OperatorKeeper.OptIn(ctx, sdk.AccAddress(sender.Bytes()), caller.Hex())
				}
			}},
		{ep: "P_avs_registerBLSPublicKey", abi: &vP.ABI, to: vP.Address(), method: "registerBLSPublicKey", family: "bls", biz: true,
			args: func(w *c10World, _, sender common.Address, _ int) []interface{} {
				return []interface{}{sender, "c10 key", w.blsKey.pub, w.blsKey.sig, w.blsKey.hash[:]}
			}},
		{ep: "P_avs_challenge", abi: &vP.ABI, to: vP.Address(), method: "challenge", family: "challenge", biz: true,
			args: func(w *c10World, _, sender common.Address, _ int) []interface{} {
				resp := avstypes.TaskResponse{TaskID: 1, NumberSum: big.NewInt(42)}
				h, _ := avstypes.GetTaskResponseDigestEncodeByAbi(resp)
				return []interface{}{sender, []byte("c10-task-hash"), uint64(1), h[:], w.env.Operators[0].String()}
			},
			prep: func(w *c10World, ctx sdk.Context, caller, _ common.Address) { w.prepChallenge(ctx, caller) }},
	}
	return eps
}

// make sure staker0 has something withdrawable / delegatable: deposit through the keeper
func (w *c10World) prepDeposit(ctx sdk.Context) {
	_ = w.env.App.AssetsKeeper.PerformDepositOrWithdraw(ctx, &assetskeeper.DepositWithdrawParams{
		ClientChainLzID: 101, Action: assetstypes.DepositLST,
		AssetsAddress: common.HexToAddress(w.env.AssetAddr).Bytes(), StakerAddress: common.BytesToAddress(w.env.Operators[0].Bytes()).Bytes(),
		OpAmount: sdkmath.NewInt(10_000_000),
	})
}

// a task (id 1) of the task contract `caller`, answered by operator 0, inside its challenge window
func (w *c10World) prepChallenge(ctx sdk.Context, caller common.Address) {
	app := w.env.App
	_ = app.AVSManagerKeeper.SetTaskInfo(ctx, &avstypes.TaskInfo{
		TaskContractAddress: caller.String(), Name: "c10 task", Hash: []byte("c10-task-hash"), TaskId: 1,
		TaskResponsePeriod: 0, TaskStatisticalPeriod: 0, TaskChallengePeriod: 1000, ThresholdPercentage: 60, StartingEpoch: 0,
	})
	resp := avstypes.TaskResponse{TaskID: 1, NumberSum: big.NewInt(42)}
	bz, _ := avstypes.MarshalTaskResponse(resp)
	info := avstypes.TaskResultInfo{OperatorAddress: w.env.Operators[0].String(), TaskResponse: bz,
		TaskContractAddress: caller.String(), TaskId: 1, Stage: "2"}
	store := prefix.NewStore(ctx.KVStore(app.GetKey("avs")), avstypes.KeyPrefixTaskResult)
	key := assetstypes.GetJoinedStoreKey(w.env.Operators[0].String(), caller.String(), "1")
	store.Set(key, app.AppCodec().MustMarshal(&info))
}

// the reveal of task 8: its (deterministic) response and the BLS signature over keccak256(response)
func (w *c10World) task8Reveal() (resp []byte, sig []byte) {
	resp, _ = avstypes.MarshalTaskResponse(avstypes.TaskResponse{TaskID: 8, NumberSum: big.NewInt(88)})
	return resp, w.blsKey.sign(crypto.Keccak256Hash(resp).Bytes())
}

// ---- the EVM caller matrix -----------------------------------------------------------------------

type c10EvmCaller struct {
	class      string
	caller     common.Address
	isContract bool
	origin     common.Address
	sender     common.Address // args[0] for AVS methods
}

func (w *c10World) genEvmCases(cw *CaseWriter, ep c10EvmEP, salt int) {
	acc := func(i int) common.Address { return w.accs[i] }
	gwNeighbour := w.gateway
	gwNeighbour[19] ^= 1
	var callers []c10EvmCaller
	switch ep.family {
	case "gateway":
		callers = []c10EvmCaller{
			{"gateway", w.gateway, true, acc(0), common.Address{}},
			{"othercontract", w.otherContract, true, acc(0), common.Address{}},
			{"eoa", acc(0), false, acc(0), common.Address{}},
			{"avscontract", w.avsContract, true, acc(w.owner), common.Address{}},
			{"gateway-neighbour", gwNeighbour, false, acc(0), common.Address{}},
			{"zero-address", common.Address{}, false, acc(0), common.Address{}},
		}
	case "avsreg":
		callers = []c10EvmCaller{
			{"newcontract+listedsender", w.freshContract, true, acc(w.owner), acc(w.owner)},
			{"newcontract+unlistedsender", w.freshContract, true, acc(w.nonOwner), acc(w.nonOwner)},
			{"eoa+listedself", acc(0), false, acc(0), acc(0)},
			{"registeredavs+owner", w.avsContract, true, acc(w.owner), acc(w.owner)},
		}
	case "avsowner", "challenge":
		callers = []c10EvmCaller{
			{"avscontract+owner", w.avsContract, true, acc(w.owner), acc(w.owner)},
			{"avscontract+nonowner", w.avsContract, true, acc(w.nonOwner), acc(w.nonOwner)},
			{"avscontract+owner-named-by-stranger", w.avsContract, true, acc(w.nonOwner), acc(w.owner)},
			{"othercontract+owner", w.otherContract, true, acc(w.owner), acc(w.owner)},
			{"eoa+owner", acc(w.nonOwner), false, acc(w.nonOwner), acc(w.owner)},
			{"gateway+owner", w.gateway, true, acc(w.owner), acc(w.owner)},
		}
	case "avsop":
		op := common.BytesToAddress(w.env.Operators[1].Bytes())
		callers = []c10EvmCaller{
			{"avscontract+operator-is-origin", w.avsContract, true, op, op},
			{"avscontract+foreign-operator", w.avsContract, true, acc(0), op},
			{"othercontract+operator-is-origin", w.otherContract, true, op, op},
			{"eoa+foreign-operator", acc(0), false, acc(0), op},
			{"avscontract+not-an-operator", w.avsContract, true, acc(0), acc(0)},
		}
	case "bls":
		op := common.BytesToAddress(w.env.Operators[1].Bytes())
		callers = []c10EvmCaller{
			{"contract+operator-is-origin", w.avsContract, true, op, op},
			{"contract+foreign-operator", w.otherContract, true, acc(0), op},
			{"eoa+self", op, false, op, op},
			{"eoa+foreign-operator", acc(0), false, acc(0), op},
		}
	}
	for _, c := range callers {
		w.oneEvmCase(cw, ep, c, salt)
	}
	// the rightful caller with a payload the business logic refuses: authorised, yet rejected
	if ep.family != "avsop" {
		r := callers[0]
		if ep.family == "bls" {
			r = callers[2]
		}
		r.class += "+malformed"
		w.malformed = true
		w.oneEvmCase(cw, ep, r, salt)
		w.malformed = false
	}
}

// malform turns well-formed ABI arguments into ones that the code behind the guard refuses
func (w *c10World) malform(ep c10EvmEP, args []interface{}) []interface{} {
	out := append([]interface{}{}, args...)
	switch ep.family {
	case "gateway":
		switch ep.method {
		case "registerOrUpdateClientChain":
			out[1] = uint8(0) // address length 0 is refused (client chain id 0, by the way, is accepted)
		default:
			out[0] = uint32(9999) // a client chain nobody registered
		}
	case "avsreg":
		out[7] = []string{} // no asset ids
	case "avsowner":
		switch ep.method {
		case "updateAVS":
			out[3] = common.Address{} // zero task address
		case "deregisterAVS":
			out[1] = "not-the-name"
		case "createTask":
			out[1] = "" // empty task name
		}
	case "bls":
		out[3] = make([]byte, 96) // not a signature of this key
	case "challenge":
		out[1] = []byte("another-task-hash")
	}
	return out
}

func (w *c10World) oneEvmCase(cw *CaseWriter, ep c10EvmEP, c c10EvmCaller, salt int) {
	call := c10Call{EP: ep.ep, Class: c.class, Caller: c10Hex(c.caller), IsContract: c.isContract,
		Origin: c10Bech(c.origin), BizOK: ep.biz, NewOwners: []string{}}
	var args []interface{}
	var tags []string
	switch ep.family {
	case "gateway":
		args = ep.args(w, c.caller, c.sender, salt)
	case "avsreg":
		owners := []string{c10Bech(w.accs[w.owner]), c10Bech(w.accs[6])}
		if c.class == "eoa+listedself" {
			owners = []string{c10Bech(c.sender)}
		}
		_, task := DetEthKey("c10task", salt)
		args = w.registerAvsArgs(c.sender, "avs"+strconv.Itoa(salt), task, owners)
		call.Sender, call.NewOwners, call.NewTask = c10Bech(c.sender), owners, c10Hex(task)
	case "avsowner":
		call.Sender = c10Bech(c.sender)
		if ep.method == "updateAVS" {
			owners := []string{c10Bech(w.accs[w.nonOwner])}
			if salt%3 == 1 {
				owners = []string{}
			}
			// task address stays the contract itself so that the record keeps its shape
			args = w.registerAvsArgs(c.sender, "renamed"+strconv.Itoa(salt), c.caller, owners)
			call.NewOwners, call.NewTask = owners, c10Hex(c.caller)
		} else {
			args = ep.args(w, c.caller, c.sender, salt)
		}
	default:
		call.Sender = c10Bech(c.sender)
		args = ep.args(w, c.caller, c.sender, salt)
	}
	// expectations that depend on the prepared state rather than on the guard
	switch ep.family {
	case "avsop":
		if c.class == "avscontract+not-an-operator" {
			call.BizOK = false // IsOperator fails
		}
		// the recorded finding is tagged only where the binding to the calling contract holds (the caller is a registered
		// AVS); an opt-in accepted from anybody else would be a new violation
		if c.sender != c.origin && c.caller == w.avsContract {
			tags = append(tags, "kf-C10-avs-operator-bound-to-arg")
		}
	case "bls":
		if c.sender != c.origin {
			tags = append(tags, "kf-C10-avs-blskey-bound-to-arg")
		}
	case "challenge":
		if c.caller == w.avsContract && c.sender != w.accs[w.owner] {
			tags = append(tags, "kf-C10-avs-challenge-no-owner-check")
		}
	}
	if w.malformed {
		args = w.malform(ep, args)
		call.BizOK = false
	}
	input, err := ep.abi.Pack(ep.method, args...)
	if err != nil {
		panic(fmt.Sprintf("c10: pack %s: %v", ep.method, err))
	}
	var prep c10Prep
	if ep.prep != nil {
		prep = func(ctx sdk.Context) { ep.prep(w, ctx, c.caller, c.sender) }
	}
	w.runEvmCase(cw, call, ep.to, input, ep.direct, prep, tags)
}

// ---- Cosmos messages -----------------------------------------------------------------------------

type c10TxEP struct {
	ep     string
	family string // signer | subject | stub | params
	// msg builds the message whose signer (principal) is accs[principal]
	msg func(w *c10World, principal sdk.AccAddress, salt int) (sdk.Msg, string /*subject*/, string /*new gateway*/)
	who int // index into accs of the rightful principal
	// stageOf: SubmitTaskResult only, the stage the message built for this salt is in
	stageOf func(salt int) uint64
	prep    func(w *c10World, ctx sdk.Context)
	biz     bool
}

func (w *c10World) consKeyJSON(i int) string {
	_, k := DetConsKey("c10cons", i)
	return k.ToJSON()
}

func (w *c10World) txEPs() []c10TxEP {
	return []c10TxEP{
		{ep: "M_operator_RegisterOperator", family: "signer", who: w.newOpAcc, biz: true,
			msg: func(w *c10World, p sdk.AccAddress, salt int) (sdk.Msg, string, string) {
				return &operatortypes.RegisterOperatorReq{FromAddress: p.String(), Info: &operatortypes.OperatorInfo{
					EarningsAddr: p.String(), ApproveAddr: p.String(), OperatorMetaInfo: "op" + strconv.Itoa(salt),
					Commission: c10ZeroCommission(),
				}}, p.String(), ""
			}},
		{ep: "M_operator_OptIntoAVS", family: "signer", who: w.opAcc, biz: true,
			msg: func(w *c10World, p sdk.AccAddress, salt int) (sdk.Msg, string, string) {
				return &operatortypes.OptIntoAVSReq{FromAddress: p.String(), AvsAddress: w.avsContract.Hex()}, p.String(), ""
			}},
		{ep: "M_operator_OptOutOfAVS", family: "signer", who: w.opAcc, biz: true,
			msg: func(w *c10World, p sdk.AccAddress, salt int) (sdk.Msg, string, string) {
				return &operatortypes.OptOutOfAVSReq{FromAddress: p.String(), AvsAddress: w.avsContract.Hex()}, p.String(), ""
			},
			prep: func(w *c10World, ctx sdk.Context) {
				_ = w.env.App.OperatorKeeper.OptIn(ctx, sdk.AccAddress(w.accs[w.opAcc].Bytes()), w.avsContract.Hex())
			}},
		{ep: "M_operator_SetConsKey", family: "signer", who: w.genesisOpAcc, biz: true,
			msg: func(w *c10World, p sdk.AccAddress, salt int) (sdk.Msg, string, string) {
				return &operatortypes.SetConsKeyReq{Address: p.String(), AvsAddress: w.dogfoodAvs, PublicKeyJSON: w.consKeyJSON(salt)}, p.String(), ""
			}},
		{ep: "M_avs_SubmitTaskResult", family: "subject", who: w.opAcc, biz: true,
			// salt bit 0: the result is filed under another operator's name; salt bit 1: phase-two reveal instead of
			// phase-one commit
			stageOf: func(salt int) uint64 { return uint64(1 + (salt>>1)&1) },
			msg: func(w *c10World, p sdk.AccAddress, salt int) (sdk.Msg, string, string) {
				subj := p.String()
				if salt%2 == 1 {
					subj = w.env.Operators[1].String() // a result filed in the name of another operator
				}
				info := &avstypes.TaskResultInfo{OperatorAddress: subj, TaskContractAddress: w.avsContract.String()}
				if (salt>>1)&1 == 0 {
					// commit: task 7 is inside its response window
					info.TaskId, info.Stage, info.BlsSignature = 7, avstypes.TwoPhaseCommitOne, w.blsKey.sig
				} else {
					// reveal: task 8 is inside its statistical window and the named operator has a phase-one record whose BLS
					// signature (public chain state) and task response (deterministic) anybody can reproduce
					resp, sig := w.task8Reveal()
					info.TaskId, info.Stage, info.TaskResponse, info.BlsSignature = 8, avstypes.TwoPhaseCommitTwo, resp, sig
				}
				return &avstypes.SubmitTaskResultReq{FromAddress: p.String(), Info: info}, subj, ""
			},
			prep: func(w *c10World, ctx sdk.Context) {
				app := w.env.App
				// both operators have a BLS key on record, task 7 of the AVS is inside its response window, task 8 inside its
				// reveal window with a phase-one record of both operators; so the only thing that can stop a result filed
				// under a foreign name is the FromAddress = OperatorAddress check
				ops := []string{sdk.AccAddress(w.accs[w.opAcc].Bytes()).String(), w.env.Operators[1].String()}
				for _, o := range ops {
					_ = app.AVSManagerKeeper.SetOperatorPubKey(ctx, &avstypes.BlsPubKeyInfo{Name: "c10", Operator: o, PubKey: w.blsKey.pub})
				}
				_ = app.AVSManagerKeeper.SetTaskInfo(ctx, &avstypes.TaskInfo{
					TaskContractAddress: w.avsContract.String(), Name: "c10 task 7", Hash: []byte("c10-task-7"), TaskId: 7,
					TaskResponsePeriod: 1000, TaskStatisticalPeriod: 10, TaskChallengePeriod: 10, ThresholdPercentage: 60, StartingEpoch: 0,
					OptInOperators: ops, // both operators are in the task's opt-in snapshot: only the signer check can tell them apart
				})
				_ = app.AVSManagerKeeper.SetTaskInfo(ctx, &avstypes.TaskInfo{
					TaskContractAddress: w.avsContract.String(), Name: "c10 task 8", Hash: []byte("c10-task-8"), TaskId: 8,
					TaskResponsePeriod: 0, TaskStatisticalPeriod: 1000, TaskChallengePeriod: 10, ThresholdPercentage: 60, StartingEpoch: 0,
					OptInOperators: ops,
				})
				_, sig := w.task8Reveal()
				store := prefix.NewStore(ctx.KVStore(app.GetKey("avs")), avstypes.KeyPrefixTaskResult)
				for _, o := range ops {
					rec := avstypes.TaskResultInfo{OperatorAddress: o, TaskContractAddress: w.avsContract.String(), TaskId: 8,
						Stage: avstypes.TwoPhaseCommitOne, BlsSignature: sig}
					store.Set(assetstypes.GetJoinedStoreKey(o, w.avsContract.String(), "8"), app.AppCodec().MustMarshal(&rec))
				}
			}},
		{ep: "M_avs_RegisterAVS", family: "stub", who: w.owner,
			msg: func(w *c10World, p sdk.AccAddress, salt int) (sdk.Msg, string, string) {
				return &avstypes.RegisterAVSReq{FromAddress: p.String(), Info: &avstypes.AVSInfo{Name: "x", AvsAddress: w.avsContract.Hex()}}, p.String(), ""
			}},
		{ep: "M_avs_DeRegisterAVS", family: "stub", who: w.owner,
			msg: func(w *c10World, p sdk.AccAddress, salt int) (sdk.Msg, string, string) {
				return &avstypes.DeRegisterAVSReq{FromAddress: p.String(), Info: &avstypes.AVSInfo{Name: "x", AvsAddress: w.avsContract.Hex()}}, p.String(), ""
			}},
		{ep: "M_avs_RegisterAVSTask", family: "stub", who: w.owner,
			msg: func(w *c10World, p sdk.AccAddress, salt int) (sdk.Msg, string, string) {
				return &avstypes.RegisterAVSTaskReq{FromAddress: p.String(), Task: &avstypes.TaskInfo{Name: "x", TaskContractAddress: w.avsContract.Hex()}}, p.String(), ""
			}},
		{ep: "M_delegation_DelegateAssetToOperator", family: "signer", who: w.stakerAcc, biz: true,
			msg: func(w *c10World, p sdk.AccAddress, salt int) (sdk.Msg, string, string) {
				return delegationtypes.NewMsgDelegation(assetstypes.ExocoreAssetID, p.String(),
					[]delegationtypes.KeyValue{{Key: w.env.Operators[0].String(), Value: &delegationtypes.ValueField{Amount: sdkmath.NewInt(int64(100 + salt))}}}), p.String(), ""
			}},
		{ep: "M_delegation_UndelegateAssetFromOperator", family: "signer", who: w.stakerAcc, biz: true,
			prep: func(w *c10World, ctx sdk.Context) {
				// something must be delegated first
				p := sdk.AccAddress(w.accs[w.stakerAcc].Bytes())
				m := delegationtypes.NewMsgDelegation(assetstypes.ExocoreAssetID, p.String(),
					[]delegationtypes.KeyValue{{Key: w.env.Operators[0].String(), Value: &delegationtypes.ValueField{Amount: sdkmath.NewInt(5_000_000)}}})
				_, _ = w.env.App.MsgServiceRouter().Handler(m)(ctx.WithTxBytes([]byte("c10 prep")), m)
			},
			msg: func(w *c10World, p sdk.AccAddress, salt int) (sdk.Msg, string, string) {
				return delegationtypes.NewMsgUndelegation(assetstypes.ExocoreAssetID, p.String(),
					[]delegationtypes.KeyValue{{Key: w.env.Operators[0].String(), Value: &delegationtypes.ValueField{Amount: sdkmath.NewInt(int64(100 + salt))}}}), p.String(), ""
			}},
		// ---- parameters
		{ep: "M_assets_UpdateParams", family: "params", who: 0, biz: true,
			msg: func(w *c10World, p sdk.AccAddress, salt int) (sdk.Msg, string, string) {
				_, gw := DetEthKey("c10newgateway", salt)
				return &assetstypes.MsgUpdateParams{Authority: p.String(), Params: assetstypes.Params{ExocoreLzAppAddress: gw.Hex(), ExocoreLzAppEventTopic: "0x" + strings.Repeat("ab", 32)}}, p.String(), c10Hex(gw)
			}},
		{ep: "M_dogfood_UpdateParams", family: "params", who: 0, biz: true,
			msg: func(w *c10World, p sdk.AccAddress, salt int) (sdk.Msg, string, string) {
				dp := dogfoodtypes.DefaultParams()
				dp.MaxValidators = uint32(7 + salt%40)
				return &dogfoodtypes.MsgUpdateParams{Authority: p.String(), Params: dp}, p.String(), ""
			}},
		{ep: "M_exomint_UpdateParams", family: "params", who: 0, biz: true,
			msg: func(w *c10World, p sdk.AccAddress, salt int) (sdk.Msg, string, string) {
				mp := exominttypes.DefaultParams()
				mp.EpochReward = sdkmath.NewInt(int64(1_000_000 + salt))
				return &exominttypes.MsgUpdateParams{Authority: p.String(), Params: mp}, p.String(), ""
			}},
		{ep: "M_feedistribution_UpdateParams", family: "params", who: 0, biz: true,
			msg: func(w *c10World, p sdk.AccAddress, salt int) (sdk.Msg, string, string) {
				fp := feedisttypes.DefaultParams()
				fp.EpochIdentifier = []string{"hour", "minute", "week"}[salt%3]
				fp.CommunityTax = sdkmath.LegacyNewDecWithPrec(int64(31+salt%60), 3) // always differs from the stored 0.03
				return &feedisttypes.MsgUpdateParams{Authority: p.String(), Params: fp}, p.String(), ""
			}},
		{ep: "M_oracle_UpdateParams", family: "params", who: 0, biz: true,
			msg: func(w *c10World, p sdk.AccAddress, salt int) (sdk.Msg, string, string) {
				return &oracletypes.MsgUpdateParams{Authority: p.String(), Params: oracletypes.Params{
					Chains: []*oracletypes.Chain{{Name: "chain" + strconv.Itoa(salt), Desc: "c10"}},
				}}, p.String(), ""
			}},
	}
}

// the dogfood handler looks its own AVS up under the chain id of the context; the prepared state only has the AVS
// of the chain the application was started with (an artefact of switching the chain id per case)
func (w *c10World) bizUnderChain(ep, chainID string) bool {
	if ep != "M_dogfood_UpdateParams" || chainID == "" {
		return true
	}
	return avstypes.ChainIDWithoutRevision(chainID) == avstypes.ChainIDWithoutRevision(w.env.ChainID)
}

var c10ChainIDs = []string{"exocore_233-1", "exocore_233-7", "exocore_2331-1", "exocoretestnet_233-1", "exocorelocalnet_232-1", "exocore_23-1", "xexocore_233-1"}

func (w *c10World) genTxCases(cw *CaseWriter, ep c10TxEP, salt int) {
	victim := w.accPrivs[ep.who]
	other := w.accPrivs[7]
	principal := sdk.AccAddress(w.accs[ep.who].Bytes())
	chainIDs := []string{""}
	modes := []c10TxMode{c10TxValid, c10TxNilPubKey, c10TxOtherAccount, c10TxOtherKeySig, c10TxGarbage, c10TxWrongChain, c10TxNoSignerInfo, c10TxNoSig, c10TxWrongSeq}
	if ep.family == "params" {
		chainIDs = c10ChainIDs
		if w.quickMatrix {
			chainIDs = c10ChainIDs[:5] // the quick tier's base matrix keeps the five ids around the mainnet prefix
		}
	}
	for ci, chainID := range chainIDs {
		ms := modes
		if ci > 0 {
			// on the further chain ids: the honest non-gov signer and two forgeries
			ms = []c10TxMode{c10TxValid, c10TxGarbage, c10TxOtherKeySig}
		}
		for _, mode := range ms {
			w.oneTxCase(cw, ep, principal, victim, other, mode, chainID, salt)
		}
		if ci == 0 && ep.family != "stub" {
			// the rightful signer with a payload the handler refuses: authenticated, yet rejected
			w.malformed = true
			w.oneTxCase(cw, ep, principal, victim, other, c10TxValid, chainID, salt)
			w.malformed = false
		}
		if ep.family == "params" {
			// the gov module itself
			msg, _, gw := ep.msg(w, w.govAddr, salt)
			w.runGovCase(cw, c10Call{EP: ep.ep, Class: "gov-router", NewGateway: gw, BizOK: ep.biz && w.bizUnderChain(ep.ep, chainID)}, msg, chainID)
			// an ordinary account naming the gov account as authority and signing with its own key
			w.oneTxCaseForgedAuthority(cw, ep, victim, chainID, salt)
		}
	}
}

func (w *c10World) oneTxCase(cw *CaseWriter, ep c10TxEP, principal sdk.AccAddress, victim, other cryptotypes.PrivKey, mode c10TxMode, chainID string, salt int) {
	msg, subject, gw := ep.msg(w, principal, salt)
	ctx, _ := w.env.Ctx.CacheContext()
	if chainID != "" {
		ctx = ctx.WithChainID(chainID)
	}
	biz := ep.biz && w.bizUnderChain(ep.ep, chainID)
	if ep.family == "subject" && subject != principal.String() {
		biz = false
	}
	class := c10TxModeNames[mode]
	if w.malformed {
		msg = w.malformTx(ep, msg)
		biz = false
		class += "+malformed"
	}
	tx, bz, auth, err := w.buildStdTx(ctx, msg, victim, other, mode)
	if err != nil {
		panic(fmt.Sprintf("c10: build tx %s/%s: %v", ep.ep, c10TxModeNames[mode], err))
	}
	call := c10Call{EP: ep.ep, Class: class, Principal: principal.String(), Subject: subject, Auth: auth, NewGateway: gw, BizOK: biz}
	if ep.stageOf != nil {
		call.Stage = ep.stageOf(salt)
		if w.malformed {
			call.Stage = 3
		}
		call.Class += fmt.Sprintf("/stage%d", call.Stage)
		if subject != principal.String() {
			call.Class += "/foreign-operator"
		}
	}
	var prep c10Prep
	if ep.prep != nil && !(w.malformed && (ep.ep == "M_operator_OptOutOfAVS" || ep.ep == "M_delegation_UndelegateAssetFromOperator")) {
		prep = func(ctx sdk.Context) { ep.prep(w, ctx) }
	}
	if w.malformed && ep.ep == "M_operator_RegisterOperator" {
		// already registered: run the very same message once before
		prep = func(ctx sdk.Context) { _, _ = w.env.App.MsgServiceRouter().Handler(msg)(ctx, msg) }
	}
	w.runTxCase(cw, call, tx, bz, chainID, prep, nil, false)
}

// malformTx turns a well-formed message into one its handler refuses (statefully, after authentication)
func (w *c10World) malformTx(ep c10TxEP, msg sdk.Msg) sdk.Msg {
	switch m := msg.(type) {
	case *operatortypes.OptIntoAVSReq:
		m.AvsAddress = w.otherContract.Hex() // not an AVS
	case *operatortypes.SetConsKeyReq:
		m.AvsAddress = w.avsContract.Hex() // not a chain-type AVS
	case *avstypes.SubmitTaskResultReq:
		m.Info.Stage = "3" // neither commit nor reveal
	case *delegationtypes.MsgDelegation:
		m.BaseInfo.PerOperatorAmounts[0].Value.Amount = sdkmath.NewIntWithDecimal(1, 30) // more than the account owns
	case *assetstypes.MsgUpdateParams:
		m.Params.ExocoreLzAppAddress = "0xnot-an-address"
	case *dogfoodtypes.MsgUpdateParams:
		m.Params.EpochIdentifier = "no-such-epoch"
	case *exominttypes.MsgUpdateParams:
		m.Params.EpochIdentifier = "no-such-epoch"
	case *feedisttypes.MsgUpdateParams:
		m.Params.EpochIdentifier = "no-such-epoch"
	case *oracletypes.MsgUpdateParams:
		m.Params.Chains = []*oracletypes.Chain{{Name: "Ethereum", Desc: "duplicate of an existing chain"}}
	}
	// RegisterOperator (registered twice), OptOutOfAVS (never opted in), Undelegate (nothing delegated): by the prepared state
	return msg
}

func (w *c10World) oneTxCaseForgedAuthority(cw *CaseWriter, ep c10TxEP, signer cryptotypes.PrivKey, chainID string, salt int) {
	msg, subject, gw := ep.msg(w, w.govAddr, salt)
	ctx, _ := w.env.Ctx.CacheContext()
	if chainID != "" {
		ctx = ctx.WithChainID(chainID)
	}
	// signer info and signature of an ordinary account, message authority = gov account
	tx, bz, auth, err := w.buildStdTx(ctx, msg, signer, signer, c10TxValid)
	if err != nil {
		panic(err)
	}
	auth.AccountOK = false // the gov module account has no key
	call := c10Call{EP: ep.ep, Class: "nongov-names-gov-authority", Principal: w.govAddr.String(), Subject: subject, Auth: auth, NewGateway: gw, BizOK: ep.biz && w.bizUnderChain(ep.ep, chainID)}
	w.runTxCase(cw, call, tx, bz, chainID, nil, nil, false)
}

// ---- oracle price submissions ----------------------------------------------------------------------

func (w *c10World) genPriceCases(cw *CaseWriter, salt int) {
	env := w.env
	ts := env.Ctx.BlockTime().UTC().Format("2006-01-02 15:04:05")
	st := w.readState(env.Ctx)
	for v := 0; v < 2; v++ {
		victim := env.ConsPrivs[v]
		other := env.ConsPrivs[1-v]
		creator := sdk.AccAddress(victim.PubKey().Address())
		feeder := uint64(1 + salt%2)
		last := st.nonceOf(creator.String(), feeder)
		for mode := c10SigValid; mode <= c10SigWrongChain; mode++ {
			nonce := last + 1
			w.onePriceCase(cw, creator, victim, other, mode, feeder, nonce, ts, salt, true)
		}
		// the right key, but a replayed / skipped nonce
		w.onePriceCase(cw, creator, victim, other, c10SigValid, feeder, last, ts, salt, true)
		w.onePriceCase(cw, creator, victim, other, c10SigValid, feeder, last+2, ts, salt, true)
		// forged and with a wrong nonce
		w.onePriceCase(cw, creator, victim, other, c10SigGarbage, feeder, last+2, ts, salt, true)
	}
	// a key that is not a validator's, signing for itself
	_, _ = DetConsKey("c10stranger", salt)
	strangerPriv, _ := DetConsKey("c10stranger", salt)
	stranger := sdk.AccAddress(strangerPriv.PubKey().Address())
	w.onePriceCase(cw, stranger, strangerPriv, env.ConsPrivs[0], c10SigValid, 1, 1, ts, salt, true)
	// an account key (secp256k1) of an ordinary account signing for itself
	accCreator := sdk.AccAddress(w.accs[0].Bytes())
	w.onePriceCase(cw, accCreator, w.accPrivs[0], env.ConsPrivs[0], c10SigValid, 1, 1, ts, salt, true)
}

func (w *c10World) onePriceCase(cw *CaseWriter, creator sdk.AccAddress, victim, other cryptotypes.PrivKey, mode c10SigMode, feeder, nonce uint64, ts string, salt int, biz bool) {
	decimal := int32(18)
	if feeder == 2 {
		decimal = 0
	}
	msg := c10PriceMsg(creator, feeder, 1, int32(nonce), ts)
	msg.Prices[0].Prices[0].Decimal = decimal
	msg.Prices[0].Prices[0].Price = strconv.Itoa(10 + salt%90)
	ctx := w.env.Ctx
	// base block of the currently open round
	msg.BasedBlock = c10OpenRoundBase(uint64(ctx.BlockHeight()))
	tx, bz, err := c10BuildPriceTx(w.txCfg, ctx.ChainID(), msg, victim, other, mode)
	if err != nil {
		panic(fmt.Sprintf("c10: price tx: %v", err))
	}
	auth := &c10Auth{RawSigs: 1, AccountOK: true}
	vk, ok := creator.String(), sdk.AccAddress(other.PubKey().Address()).String()
	switch mode {
	case c10SigValid:
		auth.Infos, auth.SignedBy = []string{vk}, vk
	case c10SigOtherKey:
		auth.Infos, auth.SignedBy = []string{vk}, ok
	case c10SigGarbage, c10SigEmptyBytes, c10SigWrongChain:
		auth.Infos = []string{vk}
	case c10SigNoSignerInfo:
		auth.Infos = []string{}
	case c10SigNone:
		auth.Infos, auth.RawSigs = []string{}, 0
	case c10SigWrongPubKey:
		auth.Infos, auth.SignedBy = []string{ok}, ok
	}
	var tags []string
	if mode != c10SigValid && mode != c10SigNone && mode != c10SigWrongPubKey {
		tags = []string{"forged-price-signature"}
	}
	call := c10Call{EP: "M_oracle_CreatePrice", Class: "price-" + c10SigModeNames[mode], Principal: creator.String(), Subject: creator.String(),
		Feeder: feeder, Nonce: nonce, Auth: auth, BizOK: biz}
	w.runTxCase(cw, call, tx, bz, "", nil, tags, true)
}

// rounds start at StartBaseBlock=1 with interval 10
func c10OpenRoundBase(height uint64) uint64 {
	if height < 1 {
		return 1
	}
	return (height-1)/10*10 + 1
}

// ---- driver ---------------------------------------------------------------------------------------

func runC10(a *Args) error {
	w := c10NewWorld(a)
	cw := NewCaseWriter(a.Out)
	defer cw.Close()
	evmEPs, txEPs := w.evmEPs(), w.txEPs()
	// directed scenarios first: the forged price submissions (the repaired defect) and the recorded AVS findings
	w.genPriceCases(cw, int(a.Seed%1000))
	for _, ep := range evmEPs {
		if ep.family == "avsop" || ep.family == "bls" || ep.family == "challenge" {
			w.genEvmCases(cw, ep, int(a.Seed%1000))
		}
	}
	// the full matrix once
	for i, ep := range evmEPs {
		if ep.family == "avsop" || ep.family == "bls" || ep.family == "challenge" {
			continue
		}
		w.genEvmCases(cw, ep, int(a.Seed%1000)+i)
	}
	w.quickMatrix = a.Tier != "thorough"
	for i, ep := range txEPs {
		w.genTxCases(cw, ep, int(a.Seed%1000)+i)
		if ep.family == "subject" {
			// the other three combinations of (own / foreign operator name) x (commit / reveal)
			for d := 1; d <= 3; d++ {
				w.genTxCases(cw, ep, int(a.Seed%1000)+i+d)
			}
		}
	}
	w.quickMatrix = false
	// then seeded random picks until N-2 cases
	for cw.n < a.N-2 {
		salt := w.rnd.Intn(1_000_000)
		switch w.rnd.Intn(5) {
		case 0, 1:
			w.genEvmCases(cw, evmEPs[w.rnd.Intn(len(evmEPs))], salt)
		case 2, 3:
			w.genTxCases(cw, txEPs[w.rnd.Intn(len(txEPs))], salt)
		default:
			w.genPriceCases(cw, salt)
		}
	}
	// last: the same forged / honest price submission as raw bytes through BaseApp.DeliverTx (decoder, runTx, real
	// state of the running block). These two modify the block state, hence they come last.
	w.deliverPriceCase(cw, 0, c10SigGarbage, int(a.Seed%1000))
	w.deliverPriceCase(cw, 1, c10SigValid, int(a.Seed%1000))
	// coverage summary per entry point (the full matrix is in the cov:<ep>|<class>|<accepted/rejected> counters)
	for ep, c := range w.cov {
		cw.CountN("cov-ep:"+ep+":accepted", c[0])
		cw.CountN("cov-ep:"+ep+":rejected", c[1])
		if c[0] == 0 {
			cw.Count("cov-gap:never-accepted:" + ep)
		}
		if c[1] == 0 {
			cw.Count("cov-gap:never-rejected:" + ep)
		}
	}
	return nil
}

func (w *c10World) deliverPriceCase(cw *CaseWriter, v int, mode c10SigMode, salt int) {
	env := w.env
	ctx := env.Ctx
	c10ResetOracle()
	defer c10ResetOracle()
	victim, other := env.ConsPrivs[v], env.ConsPrivs[1-v]
	creator := sdk.AccAddress(victim.PubKey().Address())
	st := w.readState(ctx)
	feeder := uint64(1)
	nonce := st.nonceOf(creator.String(), feeder) + 1
	msg := c10PriceMsg(creator, feeder, c10OpenRoundBase(uint64(ctx.BlockHeight())), int32(nonce), ctx.BlockTime().UTC().Format("2006-01-02 15:04:05"))
	msg.Prices[0].Prices[0].Price = strconv.Itoa(10 + salt%90)
	_, bz, err := c10BuildPriceTx(w.txCfg, ctx.ChainID(), msg, victim, other, mode)
	if err != nil {
		panic(err)
	}
	auth := &c10Auth{RawSigs: 1, AccountOK: true, Infos: []string{creator.String()}}
	var tags []string
	if mode == c10SigValid {
		auth.SignedBy = creator.String()
	} else {
		tags = []string{"forged-price-signature"}
	}
	call := c10Call{Kind: "tx", EP: "M_oracle_CreatePrice", Class: "delivertx-price-" + c10SigModeNames[mode], ChainID: ctx.ChainID(),
		Mainnet: strings.HasPrefix(ctx.ChainID(), c10MainnetPrefix), Principal: creator.String(), Subject: creator.String(),
		Feeder: feeder, Nonce: nonce, Auth: auth, BizOK: true}
	preM, preA := w.storeDigests(ctx, w.moduleNames), w.storeDigests(ctx, w.acctNames)
	res := env.App.BaseApp.DeliverTx(abci.RequestDeliverTx{Tx: bz})
	r := "ok"
	if res.Code != 0 {
		r = "ante"
		if strings.HasPrefix(res.Log, "failed to execute message") {
			r = "msg"
		}
	}
	w.finish(cw, ctx, st, call, r, c10Short(res.Log), preM, preA, tags)
}
