package main

import (
	"bufio"
	"encoding/json"
	"fmt"
	"math/big"
	"os"
	"path/filepath"
	"sort"
	"strings"
)

// ---- Coq term formatting -------------------------------------------------------------------

func cZ(i int64) string {
	if i < 0 {
		return fmt.Sprintf("(%d)%%Z", i)
	}
	return fmt.Sprintf("%d%%Z", i)
}

func cZbig(b *big.Int) string {
	if b == nil {
		return "0%Z"
	}
	if b.Sign() < 0 {
		return "(" + b.String() + ")%Z"
	}
	return b.String() + "%Z"
}

func cZstr(s string) string {
	b, ok := new(big.Int).SetString(s, 10)
	if !ok {
		panic("cZstr: not an integer: " + s)
	}
	return cZbig(b)
}

func cN(i uint64) string { return fmt.Sprintf("%d%%N", i) }

func cNat(i int) string { return fmt.Sprintf("%d%%nat", i) }

func cBool(b bool) string {
	if b {
		return "true"
	}
	return "false"
}

// cStr renders a Go string as a Coq string literal (only printable ASCII is passed through; anything
// else is rendered as an escape the model never interprets, so generators must stay in ASCII).
func cStr(s string) string {
	var sb strings.Builder
	sb.WriteByte('"')
	for _, r := range s {
		switch {
		case r == '"':
			sb.WriteString("\"\"")
		case r >= 32 && r < 127:
			sb.WriteRune(r)
		default:
			sb.WriteString(fmt.Sprintf("\\x%02x", r))
		}
	}
	sb.WriteString("\"%string")
	return sb.String()
}

func cList(xs []string) string { return "[" + strings.Join(xs, "; ") + "]" }

func cTuple(xs ...string) string { return "(" + strings.Join(xs, ", ") + ")" }

func cApp(f string, xs ...string) string {
	if len(xs) == 0 {
		return f
	}
	return "(" + f + " " + strings.Join(xs, " ") + ")"
}

func cOpt(present bool, x string) string {
	if !present {
		return "None"
	}
	return "(Some " + x + ")"
}

// ---- case writer ---------------------------------------------------------------------------

type CaseWriter struct {
	dir   string
	coq   *bufio.Writer
	js    *bufio.Writer
	fc    *os.File
	fj    *os.File
	n     int
	Stats map[string]int
}

func NewCaseWriter(dir string) *CaseWriter {
	fc, err := os.Create(filepath.Join(dir, "cases.coq"))
	if err != nil {
		panic(err)
	}
	fj, err := os.Create(filepath.Join(dir, "cases.jsonl"))
	if err != nil {
		panic(err)
	}
	return &CaseWriter{dir: dir, coq: bufio.NewWriterSize(fc, 1<<20), js: bufio.NewWriterSize(fj, 1<<20), fc: fc, fj: fj, Stats: map[string]int{}}
}

// Add appends one case: its Coq term (single line) and a JSON description.
func (w *CaseWriter) Add(coqTerm string, desc interface{}) {
	if strings.ContainsAny(coqTerm, "\n\r") {
		coqTerm = strings.ReplaceAll(strings.ReplaceAll(coqTerm, "\n", " "), "\r", " ")
	}
	w.coq.WriteString(coqTerm)
	w.coq.WriteByte('\n')
	b, err := json.Marshal(desc)
	if err != nil {
		panic(err)
	}
	w.js.Write(b)
	w.js.WriteByte('\n')
	w.n++
}

func (w *CaseWriter) Count(key string) { w.Stats[key]++ }

func (w *CaseWriter) CountN(key string, n int) { w.Stats[key] += n }

func (w *CaseWriter) Close() {
	w.coq.Flush()
	w.js.Flush()
	w.fc.Close()
	w.fj.Close()
	keys := make([]string, 0, len(w.Stats))
	for k := range w.Stats {
		keys = append(keys, k)
	}
	sort.Strings(keys)
	ordered := map[string]int{}
	for _, k := range keys {
		ordered[k] = w.Stats[k]
	}
	b, _ := json.MarshalIndent(map[string]interface{}{"cases": w.n, "distribution": ordered}, "", " ")
	_ = os.WriteFile(filepath.Join(w.dir, "stats.json"), b, 0o644)
}
