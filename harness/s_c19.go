package main

// Suite c19: Ethereum transaction accounting. Every transaction is a REAL signed legacy / access-list /
// dynamic-fee Ethereum transaction pushed through the real ABCI DeliverTx of a real ExocoreApp (baseapp.runTx,
// the whole evm ante chain, MsgServer.EthereumTx, ApplyTransaction, statedb, precompiles, hooks).
// Around each DeliverTx the suite reads bank balance and auth sequence of sender, recipient and fee collector,
// the block gas meter, the total supply and a sha256 digest of every other module store that an EVM
// execution can reach (evm code/storage, assets, delegation, operator, avs, dogfood, erc20).
// The interpreter oracle of the model (gas burnt by evm.Call/Create, refund counter, failed flag, the digest the
// execution would leave if its writes were kept) is measured by executing the same message beforehand on a
// throw-away branch of the deliver state with a vm.EVMLogger attached (ApplyMessageWithConfig, commit=true).

import (
	"crypto/sha256"
	"encoding/hex"
	"fmt"
	"math/big"
	"math/rand"
	"os"
	"sort"
	"strings"
	"time"

	sdkmath "cosmossdk.io/math"
	abci "github.com/cometbft/cometbft/abci/types"
	storetypes "github.com/cosmos/cosmos-sdk/store/types"
	sdk "github.com/cosmos/cosmos-sdk/types"
	authtypes "github.com/cosmos/cosmos-sdk/x/auth/types"
	"github.com/ethereum/go-ethereum/common"
	"github.com/ethereum/go-ethereum/core"
	ethtypes "github.com/ethereum/go-ethereum/core/types"
	"github.com/ethereum/go-ethereum/core/vm"
	"github.com/ethereum/go-ethereum/crypto"
	"github.com/evmos/evmos/v16/crypto/ethsecp256k1"
	evmostypes "github.com/evmos/evmos/v16/types"
	erc20types "github.com/evmos/evmos/v16/x/erc20/types"
	evmtypes "github.com/evmos/evmos/v16/x/evm/types"

	assetsprecompile "github.com/ExocoreNetwork/exocore/precompiles/assets"
	delegationprecompile "github.com/ExocoreNetwork/exocore/precompiles/delegation"
	exotx "github.com/ExocoreNetwork/exocore/testutil/tx"
	"github.com/ExocoreNetwork/exocore/utils"
	assetstypes "github.com/ExocoreNetwork/exocore/x/assets/types"
	avstypes "github.com/ExocoreNetwork/exocore/x/avs/types"
	delegationtypes "github.com/ExocoreNetwork/exocore/x/delegation/types"
	dogfoodtypes "github.com/ExocoreNetwork/exocore/x/dogfood/types"
	operatortypes "github.com/ExocoreNetwork/exocore/x/operator/types"
)

func init() { register("c19", runC19) }

// ---- tracer that measures the interpreter oracle ---------------------------------------------------------

type c19Tracer struct {
	env    *vm.EVM
	depth  int
	gas    uint64
	refund uint64
	ended  bool
}

func (t *c19Tracer) CaptureTxStart(uint64) {}
func (t *c19Tracer) CaptureTxEnd(uint64)   {}
func (t *c19Tracer) CaptureStart(env *vm.EVM, _ common.Address, _ common.Address, _ bool, _ []byte, _ uint64, _ *big.Int) {
	t.env = env
}

func (t *c19Tracer) CaptureEnd(_ []byte, gasUsed uint64, _ time.Duration, _ error) {
	t.gas = gasUsed
	t.ended = true
	if t.env != nil {
		t.refund = t.env.StateDB.GetRefund()
	}
}
func (t *c19Tracer) CaptureEnter(vm.OpCode, common.Address, common.Address, []byte, uint64, *big.Int) {
}
func (t *c19Tracer) CaptureExit([]byte, uint64, error) {}
func (t *c19Tracer) CaptureState(uint64, vm.OpCode, uint64, uint64, *vm.ScopeContext, []byte, int, error) {
}
func (t *c19Tracer) CaptureFault(uint64, vm.OpCode, uint64, uint64, *vm.ScopeContext, int, error) {}

// ---- records ------------------------------------------------------------------------------------------

type c19View struct {
	SBal  string `json:"sender_balance"`
	RBal  string `json:"recipient_balance"`
	Coll  string `json:"collector_balance"`
	Nonce int64  `json:"sender_sequence"` // -1 = no account
	BGas  uint64 `json:"block_gas"`
	World string `json:"world"`
}

func (v c19View) coq() string {
	return cApp("mkView", cZstr(v.SBal), cZstr(v.RBal), cZstr(v.Coll), cOpt(v.Nonce >= 0, cZ(v.Nonce)), cZbig(new(big.Int).SetUint64(v.BGas)), cStr(v.World))
}

type c19Tx struct {
	Kind            string  `json:"kind"`
	Type            int     `json:"type"`
	From            string  `json:"from"`
	To              string  `json:"to"` // value recipient (To, or the created address)
	Create          bool    `json:"create"`
	Nonce           uint64  `json:"nonce"`
	Gas             uint64  `json:"gas"`
	Price           string  `json:"gas_price"`
	Cap             string  `json:"fee_cap"`
	Tip             string  `json:"tip_cap"`
	Value           string  `json:"value"`
	Intr            uint64  `json:"intrinsic_gas"`
	Blocked         bool    `json:"recipient_blocked"`
	FeeAboveBalance bool    `json:"fee_above_balance"`
	Data            string  `json:"data"`
	OGas            uint64  `json:"oracle_evm_gas"`
	ORefund         uint64  `json:"oracle_refund_counter"`
	OFailed         bool    `json:"oracle_failed"`
	OWorld          string  `json:"oracle_world"`
	Pre             c19View `json:"pre"`
	Code            uint32  `json:"code"`
	HasResp         bool    `json:"has_response"`
	GasUsed         uint64  `json:"gas_used"`
	Failed          bool    `json:"vm_failed"`
	VMError         string  `json:"vm_error"`
	Post            c19View `json:"post"`
	Supply0         string  `json:"supply_pre"`
	Supply1         string  `json:"supply_post"`
	AbciGasUsed     int64   `json:"abci_gas_used"`
	AbciGasWanted   int64   `json:"abci_gas_wanted"`
	Codespace       string  `json:"codespace"`
	Log             string  `json:"log,omitempty"`
}

func c19U(u uint64) string { return cZbig(new(big.Int).SetUint64(u)) }

func (t c19Tx) coq() string {
	tx := cApp("mkTx", cZ(int64(t.Type)), cStr(t.From), cStr(t.To), c19U(t.Nonce), c19U(t.Gas), cZstr(t.Price), cZstr(t.Cap), cZstr(t.Tip), cZstr(t.Value), c19U(t.Intr), cBool(t.Blocked))
	or := cApp("mkOr", c19U(t.OGas), c19U(t.ORefund), cBool(t.OFailed), cStr(t.OWorld), cZ(t.AbciGasUsed))
	resp := cOpt(t.HasResp, cTuple(c19U(t.GasUsed), cBool(t.Failed)))
	ob := cApp("mkObs", t.Pre.coq(), cBool(t.Code == 0), resp, t.Post.coq(), cZstr(t.Supply0), cZstr(t.Supply1))
	return cTuple(tx, or, ob)
}

type c19Acct struct {
	Addr  string `json:"addr"`
	Bal   string `json:"balance"`
	Nonce int64  `json:"sequence"`
}

type c19Case struct {
	Suite    string    `json:"suite"`
	Tags     []string  `json:"tags,omitempty"`
	NT       bool      `json:"nt"`
	Height   int64     `json:"height"`
	Proposer string    `json:"proposer"`
	Base     string    `json:"base_fee"`
	MGP      string    `json:"min_gas_price_dec"`
	Mult     string    `json:"min_gas_multiplier_dec"`
	BLim     int64     `json:"block_gas_limit"`
	Accts    []c19Acct `json:"accounts"`
	Coll     string    `json:"collector"`
	BGas     uint64    `json:"block_gas"`
	World    string    `json:"world"`
	Txs      []c19Tx   `json:"txs"`
}

// ---- suite state --------------------------------------------------------------------------------------

type c19S struct {
	env                                      *Env
	w                                        *CaseWriter
	rng                                      *rand.Rand
	chainID                                  *big.Int
	coll                                     sdk.AccAddress
	privs                                    []*ethsecp256k1.PrivKey
	addrs                                    []common.Address
	noAcct                                   int // index of the key that has no account
	storer, storer3, reverter, burner, proxy common.Address
	assetsP                                  *assetsprecompile.Precompile
	delegP                                   *delegationprecompile.Precompile
	lzNonce                                  uint64
	fresh                                    int
	// block-level dimension: who proposes the block and in which state that validator is
	blockNo    int
	jailed     int // validator jailed for the current block (-1 none); unjailed before the next one
	keyCounter int
	replaced   map[int]bool
	optedOut   bool
}

var c19WorldStores = []string{evmtypes.StoreKey, assetstypes.StoreKey, delegationtypes.StoreKey, operatortypes.StoreKey,
	avstypes.StoreKey, dogfoodtypes.StoreKey, erc20types.StoreKey}

func (s *c19S) world(ctx sdk.Context) string {
	h := sha256.New()
	for _, name := range c19WorldStores {
		key := s.env.App.GetKey(name)
		if key == nil {
			continue
		}
		h.Write([]byte(name))
		it := ctx.KVStore(key).Iterator(nil, nil)
		for ; it.Valid(); it.Next() {
			k, v := it.Key(), it.Value()
			h.Write([]byte{byte(len(k) >> 8), byte(len(k))})
			h.Write(k)
			h.Write([]byte{byte(len(v) >> 16), byte(len(v) >> 8), byte(len(v))})
			h.Write(v)
		}
		it.Close()
	}
	return hex.EncodeToString(h.Sum(nil))[:16]
}

func (s *c19S) bal(ctx sdk.Context, a []byte) *big.Int {
	return s.env.App.BankKeeper.GetBalance(ctx, sdk.AccAddress(a), utils.BaseDenom).Amount.BigInt()
}

func (s *c19S) seq(ctx sdk.Context, a []byte) int64 {
	acc := s.env.App.AccountKeeper.GetAccount(ctx, sdk.AccAddress(a))
	if acc == nil {
		return -1
	}
	return int64(acc.GetSequence())
}

func (s *c19S) blockGas() uint64 {
	m := s.env.App.GetContextForDeliverTx(nil).BlockGasMeter()
	if m == nil {
		return 0
	}
	return m.GasConsumed()
}

func (s *c19S) view(from, to common.Address) c19View {
	ctx := s.env.Ctx
	return c19View{s.bal(ctx, from.Bytes()).String(), s.bal(ctx, to.Bytes()).String(), s.bal(ctx, s.coll).String(),
		s.seq(ctx, from.Bytes()), s.blockGas(), s.world(ctx)}
}

func (s *c19S) supply() string {
	return s.env.App.BankKeeper.GetSupply(s.env.Ctx, utils.BaseDenom).Amount.String()
}

func c19Addr(a common.Address) string { return strings.ToLower(a.Hex()) }

// spec of one transaction to build
type c19Spec struct {
	kind   string
	typ    int
	sender int
	to     *common.Address
	data   []byte
	nonce  uint64
	gas    uint64
	price  *big.Int
	cap    *big.Int
	tip    *big.Int
	value  *big.Int
	access ethtypes.AccessList
}

func (s *c19S) build(sp c19Spec) (*evmtypes.MsgEthereumTx, []byte, error) {
	args := &evmtypes.EvmTxArgs{ChainID: s.chainID, Nonce: sp.nonce, To: sp.to, Amount: sp.value, GasLimit: sp.gas, Input: sp.data}
	switch sp.typ {
	case 0:
		args.GasPrice = sp.price
	case 1:
		args.GasPrice = sp.price
		al := sp.access
		if al == nil {
			al = ethtypes.AccessList{}
		}
		args.Accesses = &al
	default:
		args.GasFeeCap = sp.cap
		args.GasTipCap = sp.tip
		al := sp.access
		if al == nil {
			al = ethtypes.AccessList{}
		}
		args.Accesses = &al
	}
	msg := evmtypes.NewTx(args)
	msg.From = s.addrs[sp.sender].String()
	txCfg := s.env.App.GetTxConfig()
	tx, err := exotx.PrepareEthTx(txCfg, s.env.App, s.privs[sp.sender], msg)
	if err != nil {
		return nil, nil, err
	}
	bz, err := txCfg.TxEncoder()(tx)
	return msg, bz, err
}

// oracle: execute the message on a branch of the deliver state, with the ante effects applied, tracer attached
func (s *c19S) oracle(msg *evmtypes.MsgEthereumTx, from common.Address, fees *big.Int) (gas, refund uint64, failed bool, world string) {
	defer func() {
		if r := recover(); r != nil {
			gas, refund, failed, world = 0, 0, true, "panic"
		}
	}()
	cctx, _ := s.env.App.GetContextForDeliverTx(nil).CacheContext()
	// same gas set-up as EthSetupContextDecorator / EthGasConsumeDecorator leave behind
	cctx = cctx.WithGasMeter(evmostypes.NewInfiniteGasMeterWithLimit(msg.GetGas())).
		WithKVGasConfig(storetypes.GasConfig{}).WithTransientKVGasConfig(storetypes.GasConfig{})
	acc := s.env.App.AccountKeeper.GetAccount(cctx, from.Bytes())
	if acc == nil {
		return 0, 0, false, s.world(cctx)
	}
	if fees.Sign() > 0 {
		coins := sdk.Coins{sdk.NewCoin(utils.BaseDenom, sdkmath.NewIntFromBigInt(fees))}
		if err := s.env.App.BankKeeper.SendCoinsFromAccountToModule(cctx, from.Bytes(), authtypes.FeeCollectorName, coins); err != nil {
			return 0, 0, false, s.world(cctx)
		}
	}
	_ = acc.SetSequence(acc.GetSequence() + 1)
	s.env.App.AccountKeeper.SetAccount(cctx, acc)
	k := s.env.App.EvmKeeper
	cfg, err := k.EVMConfig(cctx, sdk.ConsAddress(cctx.BlockHeader().ProposerAddress), s.chainID)
	if err != nil {
		return 0, 0, false, s.world(cctx)
	}
	ethTx := msg.AsTransaction()
	signer := ethtypes.MakeSigner(cfg.ChainConfig, big.NewInt(cctx.BlockHeight()))
	cmsg, err := ethTx.AsMessage(signer, cfg.BaseFee)
	if err != nil {
		return 0, 0, false, s.world(cctx)
	}
	tr := &c19Tracer{}
	res, err := k.ApplyMessageWithConfig(cctx, cmsg, tr, true, cfg, k.TxConfig(cctx, ethTx.Hash()))
	if err != nil {
		return 0, 0, false, s.world(cctx)
	}
	return tr.gas, tr.refund, res.Failed(), s.world(cctx)
}

func (s *c19S) effPrice(sp c19Spec, base *big.Int) *big.Int {
	if sp.typ == 2 {
		p := new(big.Int).Add(sp.tip, base)
		if p.Cmp(sp.cap) > 0 {
			p = new(big.Int).Set(sp.cap)
		}
		return p
	}
	return new(big.Int).Set(sp.price)
}

// deliver one transaction for real and record everything
func (s *c19S) deliver(sp c19Spec, base *big.Int) (c19Tx, error) {
	from := s.addrs[sp.sender]
	create := sp.to == nil
	var rcpt common.Address
	if create {
		rcpt = crypto.CreateAddress(from, sp.nonce)
	} else {
		rcpt = *sp.to
	}
	msg, bz, err := s.build(sp)
	if err != nil {
		return c19Tx{}, err
	}
	al := sp.access
	if sp.typ == 0 {
		al = nil
	}
	intr, err := core.IntrinsicGas(sp.data, al, create, true, true)
	if err != nil {
		return c19Tx{}, err
	}
	rec := c19Tx{Kind: sp.kind, Type: sp.typ, From: c19Addr(from), To: c19Addr(rcpt), Create: create, Nonce: sp.nonce, Gas: sp.gas,
		Value: sp.value.String(), Intr: intr, Data: hex.EncodeToString(sp.data), Blocked: s.env.App.BankKeeper.BlockedAddr(rcpt.Bytes())}
	switch sp.typ {
	case 2:
		rec.Price, rec.Cap, rec.Tip = "0", sp.cap.String(), sp.tip.String()
	default:
		rec.Price, rec.Cap, rec.Tip = sp.price.String(), sp.price.String(), sp.price.String()
	}
	fees := new(big.Int).Mul(s.effPrice(sp, base), new(big.Int).SetUint64(sp.gas))
	if fees.Sign() < 0 {
		fees = big.NewInt(0)
	}
	rec.OGas, rec.ORefund, rec.OFailed, rec.OWorld = s.oracle(msg, from, fees)
	rec.Pre = s.view(from, rcpt)
	if pb, ok := new(big.Int).SetString(rec.Pre.SBal, 10); ok && fees.Sign() > 0 && pb.Cmp(fees) < 0 {
		rec.FeeAboveBalance = true
	}
	rec.Supply0 = s.supply()
	res := s.env.App.DeliverTx(abci.RequestDeliverTx{Tx: bz})
	rec.Code = res.Code
	rec.AbciGasUsed, rec.AbciGasWanted, rec.Codespace = res.GasUsed, res.GasWanted, res.Codespace
	if res.Code != 0 && c19Debug {
		rec.Log = res.Log
	}
	if res.Code == 0 {
		var txr sdk.TxMsgData
		if err := txr.Unmarshal(res.Data); err == nil && len(txr.MsgResponses) == 1 {
			var r evmtypes.MsgEthereumTxResponse
			if err := r.Unmarshal(txr.MsgResponses[0].Value); err == nil {
				rec.HasResp, rec.GasUsed, rec.Failed, rec.VMError = true, r.GasUsed, r.Failed(), r.VmError
			}
		}
	}
	rec.Post = s.view(from, rcpt)
	rec.Supply1 = s.supply()
	return rec, nil
}

// ---- bytecode ----------------------------------------------------------------------------------------

func c19Init(runtime []byte) []byte {
	l := byte(len(runtime))
	return append([]byte{0x60, l, 0x60, 0x0c, 0x60, 0x00, 0x39, 0x60, l, 0x60, 0x00, 0xf3}, runtime...)
}

var (
	c19RtStorer   = []byte{0x60, 0x00, 0x35, 0x60, 0x00, 0x55, 0x00}                                                 // SSTORE(0, CALLDATALOAD(0)); STOP
	c19RtStorer3  = []byte{0x60, 0x00, 0x35, 0x80, 0x60, 0x00, 0x55, 0x80, 0x60, 0x01, 0x55, 0x60, 0x02, 0x55, 0x00} // slots 0,1,2 := CALLDATALOAD(0)
	c19RtReverter = []byte{0x60, 0x00, 0x60, 0x00, 0xfd}                                                             // REVERT(0,0)
	c19RtBurner   = []byte{0x5b, 0x60, 0x00, 0x56}                                                                   // JUMPDEST; JUMP 0  (burns all gas)
	// proxy: CALL(gas, calldata[0:32], 0, calldata[32:], ...) ; then REVERT when CALLVALUE != 0 else STOP
	c19RtProxy = []byte{0x60, 0x20, 0x36, 0x03, 0x80, 0x60, 0x20, 0x60, 0x00, 0x37, 0x60, 0x00, 0x60, 0x00, 0x91, 0x60, 0x00, 0x60, 0x00,
		0x60, 0x00, 0x35, 0x5a, 0xf1, 0x50, 0x34, 0x60, 0x1e, 0x57, 0x00, 0x5b, 0x60, 0x00, 0x60, 0x00, 0xfd}
	// creation code that stores, then returns the storer runtime
	c19InitStoreReturn = append([]byte{0x60, 0x07, 0x60, 0x01, 0x55}, c19InitShift(c19RtStorer, 5)...)
	c19InitRevert      = []byte{0x60, 0x00, 0x60, 0x00, 0xfd}
	c19InitLoop        = []byte{0x5b, 0x60, 0x00, 0x56}
)

// init code placed after [shift] bytes of prologue
func c19InitShift(runtime []byte, shift int) []byte {
	l := byte(len(runtime))
	return append([]byte{0x60, l, 0x60, byte(0x0c + shift), 0x60, 0x00, 0x39, 0x60, l, 0x60, 0x00, 0xf3}, runtime...)
}

func c19Word(b []byte) []byte { return common.LeftPadBytes(b, 32) }

func c19Pad32(b []byte) []byte {
	out := make([]byte, 32)
	copy(out, b)
	return out
}

// ---- set-up ------------------------------------------------------------------------------------------

func (s *c19S) setFeeMarket(noBase bool, base *big.Int, mgp, mult sdk.Dec) {
	p := s.env.App.FeeMarketKeeper.GetParams(s.env.Ctx)
	p.NoBaseFee = noBase
	if base != nil {
		p.BaseFee = sdkmath.NewIntFromBigInt(base)
	}
	p.MinGasPrice = mgp
	p.MinGasMultiplier = mult
	if err := s.env.App.FeeMarketKeeper.SetParams(s.env.Ctx, p); err != nil {
		panic(err)
	}
}

func (s *c19S) setBlockMaxGas(maxGas int64) {
	cp := s.env.App.GetConsensusParams(s.env.Ctx)
	cp.Block.MaxGas = maxGas
	s.env.App.StoreConsensusParams(s.env.Ctx, cp)
}

func (s *c19S) baseFee() *big.Int {
	b := s.env.App.FeeMarketKeeper.GetBaseFee(s.env.Ctx)
	if b == nil {
		return big.NewInt(0)
	}
	return b
}

func (s *c19S) deploy(sender int, code []byte) common.Address {
	from := s.addrs[sender]
	nonce := uint64(s.seq(s.env.Ctx, from.Bytes()))
	price := new(big.Int).Add(s.baseFee(), big.NewInt(1))
	rec, err := s.deliver(c19Spec{kind: "setup-create", typ: 0, sender: sender, data: code, nonce: nonce, gas: 300000, price: price, value: big.NewInt(0)}, s.baseFee())
	if err != nil || rec.Code != 0 || rec.Failed {
		panic(fmt.Sprintf("c19 setup deploy failed: %v code=%d vmerr=%s", err, rec.Code, rec.VMError))
	}
	return crypto.CreateAddress(from, nonce)
}

func runC19(a *Args) error {
	env := NewEnv(EnvCfg{ExtraAccs: 6})
	w := NewCaseWriter(a.Out)
	defer w.Close()
	s := &c19S{env: env, w: w, rng: rand.New(rand.NewSource(a.Seed)), chainID: env.App.EvmKeeper.ChainID(),
		coll: authtypes.NewModuleAddress(authtypes.FeeCollectorName)}
	s.privs = append(s.privs, env.AccPrivs...)
	s.addrs = append(s.addrs, env.AccAddrs...)
	p, ad := DetEthKey("c19-noacct", 0)
	s.privs, s.addrs = append(s.privs, p), append(s.addrs, ad)
	s.noAcct = len(s.addrs) - 1
	var err error
	if s.assetsP, err = assetsprecompile.NewPrecompile(env.App.AssetsKeeper, env.App.AuthzKeeper); err != nil {
		return err
	}
	if s.delegP, err = delegationprecompile.NewPrecompile(env.App.AssetsKeeper, env.App.DelegationKeeper, env.App.AuthzKeeper); err != nil {
		return err
	}
	s.lzNonce = 1000
	env.NextBlock(time.Second)
	s.storer = s.deploy(0, c19Init(c19RtStorer))
	s.storer3 = s.deploy(0, c19Init(c19RtStorer3))
	s.reverter = s.deploy(0, c19Init(c19RtReverter))
	s.burner = s.deploy(0, c19Init(c19RtBurner))
	s.proxy = s.deploy(0, c19Init(c19RtProxy))
	// the proxy contract plays the gateway, so that the assets / delegation precompiles accept it as caller
	ap, err := env.App.AssetsKeeper.GetParams(env.Ctx)
	if err != nil {
		return err
	}
	ap.ExocoreLzAppAddress = s.proxy.Hex()
	if err := env.App.AssetsKeeper.SetParams(env.Ctx, ap); err != nil {
		return err
	}
	env.NextBlock(time.Second)

	for c := 0; c < a.N; c++ {
		if err := s.oneCase(c); err != nil {
			return err
		}
	}
	return nil
}

// nextBlockProposer ends the current block and begins the next one with genesis validator v (in turn) as proposer, after
// putting v into one of the states a validator can be in while it is still in the CometBFT set mid-epoch (dogfood changes
// the set only at epoch ends, here "day"): active, jailed (real dogfood Jail, undone before the following block), consensus
// key just replaced (it keeps proposing with the old key), opted out of the chain's AVS and unbonding.
func (s *c19S) nextBlockProposer() string {
	env, rng := s.env, s.rng
	chainID := avstypes.ChainIDWithoutRevision(env.ChainID)
	if s.replaced == nil {
		s.replaced = map[int]bool{}
		s.jailed = -1
	}
	if s.jailed >= 0 {
		env.App.StakingKeeper.Unjail(env.Ctx, env.ConsKeys[s.jailed].ToConsAddr())
		s.jailed = -1
	}
	v := s.blockNo % len(env.ConsKeys)
	s.blockNo++
	cons := env.ConsKeys[v].ToConsAddr()
	state := "active"
	switch r := rng.Intn(20); {
	case r < 5:
		env.App.StakingKeeper.Jail(env.Ctx, cons)
		s.jailed = v
		state = "jailed"
	case r < 8:
		_, nk := DetConsKey("c19-newkey", s.keyCounter)
		s.keyCounter++
		if err := env.App.OperatorKeeper.SetOperatorConsKeyForChainID(env.Ctx, env.Operators[v], chainID, nk); err == nil {
			s.replaced[v] = true
			state = "key-just-replaced"
		}
	case r == 8 && v == 1 && !s.optedOut:
		if err := env.App.OperatorKeeper.OptOut(env.Ctx, env.Operators[1], avstypes.GenerateAVSAddr(chainID)); err == nil {
			s.optedOut = true
			state = "just-opted-out"
		}
	}
	if state == "active" {
		switch {
		case v == 1 && s.optedOut:
			state = "opted-out-unbonding"
		case s.replaced[v]:
			state = "key-replaced-earlier"
		}
	}
	env.Header.ProposerAddress = cons
	env.NextBlock(time.Second)
	s.w.Count("proposer=" + state)
	return fmt.Sprintf("validator%d/%s", v, state)
}

func (s *c19S) topUp() {
	// keep the pool solvent over long runs: value leaks to fresh addresses, contracts and the fee collector, so an
	// account that fell below 1e18 is refilled with freshly minted coins (between blocks, outside any case; the
	// supply is observed per transaction only)
	ctx := s.env.Ctx
	one := new(big.Int).Exp(big.NewInt(10), big.NewInt(18), nil)
	for i := 0; i < 6; i++ {
		if s.bal(ctx, s.addrs[i].Bytes()).Cmp(one) < 0 {
			coins := sdk.Coins{sdk.NewCoin(utils.BaseDenom, sdkmath.NewIntFromBigInt(new(big.Int).Mul(one, big.NewInt(4))))}
			if err := s.env.App.BankKeeper.MintCoins(ctx, evmtypes.ModuleName, coins); err != nil {
				panic(err)
			}
			if err := s.env.App.BankKeeper.SendCoinsFromModuleToAccount(ctx, evmtypes.ModuleName, s.addrs[i].Bytes(), coins); err != nil {
				panic(err)
			}
		}
	}
}

const c19TagBlockGas = "regress-C19-rejected-consumes-block-gas"

var c19Dec = sdk.MustNewDecFromStr

var c19Debug = os.Getenv("C19_DEBUG") != ""

func (s *c19S) pick(xs ...int) int { return xs[s.rng.Intn(len(xs))] }

func (s *c19S) oneCase(c int) error {
	rng := s.rng
	env := s.env
	// ---- block configuration, effective from the next BeginBlock
	noBase := rng.Intn(4) == 0
	var base *big.Int
	switch rng.Intn(4) {
	case 0:
		base = big.NewInt(1_000_000_000)
	case 1:
		base = big.NewInt(int64(7 + rng.Intn(1000)))
	case 2:
		base = big.NewInt(int64(1_000_000 + rng.Intn(1_000_000_000)))
	default:
		base = nil // keep what the fee market computed
	}
	mgp := sdk.ZeroDec()
	switch rng.Intn(5) {
	case 0:
		mgp = c19Dec("1500000000.5")
	case 1:
		mgp = c19Dec("0.000000000000000001")
	case 2:
		mgp = sdk.NewDec(int64(1 + rng.Intn(2_000_000_000)))
	}
	mult := c19Dec("0.5")
	switch rng.Intn(6) {
	case 0:
		mult = sdk.ZeroDec()
	case 1:
		mult = sdk.OneDec()
	case 2:
		mult = sdk.NewDecWithPrec(int64(rng.Intn(1001)), 3)
	case 3:
		mult = c19Dec("0.333333333333333333")
	}
	blim := int64(-1)
	switch rng.Intn(10) {
	case 0, 1:
		blim = int64(150_000 + rng.Intn(900_000))
	case 2:
		blim = 100_000
	}
	directed := c == 0
	if directed {
		// regression scenario of finding F2 (fixed 07834a8): a transaction refused for "balance below the fee" must not
		// consume block gas; before the fix it did, and the unrelated transaction that exactly fits the block was pushed
		// over the limit and charged its whole gas limit
		noBase, base, mgp, mult, blim = false, big.NewInt(1_000_000_000), sdk.ZeroDec(), sdk.OneDec(), 100_000
	}
	s.setFeeMarket(noBase, base, mgp, mult)
	s.setBlockMaxGas(blim)
	proposer := s.nextBlockProposer()
	baseFee := s.baseFee() // what every decorator and ApplyTransaction will see in this block
	s.w.Count(fmt.Sprintf("env.basefee=%v", map[bool]string{true: "off", false: "on"}[noBase]))
	s.w.Count("env.mult=" + mult.String())
	if !mgp.IsZero() {
		s.w.Count("env.mingasprice=on")
	}
	if blim > 0 {
		s.w.Count("env.blockgas=limited")
	}

	// keep the pool solvent: an account drained by an "everything" transfer is topped up by the richest one
	// (plain bank send between blocks, outside any case)
	s.topUp()
	// ---- the transactions
	n := 1 + rng.Intn(7)
	forcePair := rng.Intn(4) == 0
	if forcePair && n < 2 {
		n = 2
	}
	if directed {
		n, forcePair = 2, false
	}
	cs := c19Case{Suite: "c19", Proposer: proposer, Height: env.Header.Height, Base: baseFee.String(), MGP: mgp.BigInt().String(), Mult: mult.BigInt().String(), BLim: blim}
	seen := map[string]bool{}
	var involved []common.Address
	note := func(a common.Address) {
		if !seen[c19Addr(a)] {
			seen[c19Addr(a)] = true
			involved = append(involved, a)
		}
	}
	// initial listing is taken before the first transaction for every address the case may touch:
	// pool, contracts, and the fresh recipients chosen below (generated up-front)
	specs := make([]func() c19Spec, n)
	for i := 0; i < n; i++ {
		force := -1
		if forcePair && i == 0 {
			force = 18 // call-store3-set
		} else if forcePair && i == 1 {
			force = 20 // call-store3-clear: refund counter 14400 > gasUsed/5
		}
		specs[i] = s.genSpec(baseFee, mgp, blim, note, force)
	}
	if directed {
		victim := s.addrs[3]
		note(victim)
		specs[0] = func() c19Spec { // fee one unit above what sender 1 owns
			bal := s.bal(env.Ctx, s.addrs[1].Bytes())
			price := new(big.Int).Add(new(big.Int).Quo(bal, big.NewInt(50_000)), big.NewInt(1))
			return c19Spec{kind: "transfer-eoa", typ: 0, sender: 1, to: &victim, nonce: uint64(s.seq(env.Ctx, s.addrs[1].Bytes())),
				gas: 50_000, price: price, cap: price, tip: price, value: big.NewInt(0)}
		}
		specs[1] = func() c19Spec { // gas limit = block limit, multiplier 1: gasUsed = 100000 fits an empty block exactly
			price := new(big.Int).Add(baseFee, big.NewInt(1))
			return c19Spec{kind: "transfer-eoa", typ: 0, sender: 2, to: &victim, nonce: uint64(s.seq(env.Ctx, s.addrs[2].Bytes())),
				gas: 100_000, price: price, cap: price, tip: price, value: big.NewInt(12345)}
		}
	}
	for _, a := range s.addrs {
		note(a)
	}
	for _, a := range []common.Address{s.storer, s.storer3, s.reverter, s.burner, s.proxy} {
		note(a)
	}
	// created addresses are unknown until nonces are fixed; they normally start at balance 0 / no account, the model's
	// default. A stale or repeated nonce, however, aims at a contract created (and possibly funded) earlier: list every
	// candidate CreateAddress(sender, seq-1 .. seq+8) that already exists.
	for _, a := range s.addrs {
		seq := s.seq(env.Ctx, a.Bytes())
		for j := int64(-1); j <= 8; j++ {
			if seq+j < 0 {
				continue
			}
			ca := crypto.CreateAddress(a, uint64(seq+j))
			if s.seq(env.Ctx, ca.Bytes()) >= 0 || s.bal(env.Ctx, ca.Bytes()).Sign() > 0 {
				note(ca)
			}
		}
	}
	sort.Slice(involved, func(i, j int) bool { return c19Addr(involved[i]) < c19Addr(involved[j]) })
	for _, a := range involved {
		cs.Accts = append(cs.Accts, c19Acct{c19Addr(a), s.bal(env.Ctx, a.Bytes()).String(), s.seq(env.Ctx, a.Bytes())})
	}
	cs.Coll = s.bal(env.Ctx, s.coll).String()
	cs.BGas = s.blockGas()
	cs.World = s.world(env.Ctx)
	tagged := false
	for i := 0; i < n; i++ {
		sp := specs[i]()
		rec, err := s.deliver(sp, baseFee)
		if err != nil {
			return err
		}
		cs.Txs = append(cs.Txs, rec)
		if rec.FeeAboveBalance && !tagged {
			// input shape of the repaired finding F2 (fee above balance): regression scenario
			tagged = true
			cs.Tags = append(cs.Tags, c19TagBlockGas)
			s.w.Count("shape=fee-above-balance")
		}
		s.w.Count("kind=" + rec.Kind)
		s.w.Count(fmt.Sprintf("type=%d", rec.Type))
		switch {
		case rec.Code != 0 && rec.Post.Nonce == rec.Pre.Nonce && rec.Post.SBal == rec.Pre.SBal:
			s.w.Count("result=rejected")
			if rec.Post.BGas != rec.Pre.BGas {
				s.w.Count("rejected-but-block-gas-consumed")
			}
		case rec.Code != 0 && rec.Gas < rec.Intr:
			s.w.Count("result=included-intrinsic-gas-error-all-gas-burnt")
			cs.NT = true
		case rec.Code != 0 && rec.Blocked && rec.Value != "0" && !rec.OFailed:
			s.w.Count("result=included-commit-error-all-gas-burnt")
			cs.NT = true
		case rec.Code != 0:
			s.w.Count("result=included-block-gas-exceeded-all-gas-burnt")
			cs.NT = true
		case rec.Failed:
			s.w.Count("result=vm-failed")
			cs.NT = true
		default:
			s.w.Count("result=ok")
			cs.NT = true
		}
		if rec.HasResp && rec.Failed && rec.OWorld != rec.Pre.World {
			s.w.Count("failed-execution-had-written-other-stores")
			if strings.HasPrefix(rec.Kind, "precompile-") {
				s.w.Count("failed-execution-had-written-restaking-state")
			}
		}
		if rec.HasResp && !rec.Failed && strings.HasPrefix(rec.Kind, "precompile-") && rec.Post.World != rec.Pre.World {
			s.w.Count("precompile-write-committed")
		}
		if rec.HasResp && rec.ORefund > 0 {
			s.w.Count("refund-counter>0")
			if (rec.Intr+rec.OGas)/5 < rec.ORefund {
				s.w.Count("refund-cap-binds")
			}
		}
	}
	// ---- emit
	var accts, txs []string
	for _, a := range cs.Accts {
		accts = append(accts, cTuple(cStr(a.Addr), cTuple(cZstr(a.Bal), cOpt(a.Nonce >= 0, cZ(a.Nonce)))))
	}
	for _, t := range cs.Txs {
		txs = append(txs, t.coq())
	}
	envC := cApp("mkEnv", cZstr(cs.Base), cZstr(cs.MGP), cZstr(cs.Mult), cZ(cs.BLim))
	term := cApp("mkCase", envC, cList(accts), cZstr(cs.Coll), c19U(cs.BGas), cStr(cs.World), cList(txs))
	s.w.Add(term, cs)
	s.w.Count(fmt.Sprintf("txs=%d", n))
	return nil
}

// genSpec chooses everything that does not depend on the live state now, and returns a closure that fixes nonce,
// value and price boundaries against the state right before the transaction is delivered.
func (s *c19S) genSpec(baseFee *big.Int, mgp sdk.Dec, blim int64, note func(common.Address), forceKind int) func() c19Spec {
	rng := s.rng
	clean := forceKind >= 0 // a fully valid transaction of the given kind
	sender := rng.Intn(6)
	if rng.Intn(25) == 0 && !clean {
		sender = s.noAcct
	}
	typ := rng.Intn(3)
	kindN := rng.Intn(25)
	if clean {
		kindN = forceKind
	}
	var to *common.Address
	var data []byte
	kind := ""
	revertFlag := false
	addrp := func(a common.Address) *common.Address { return &a }
	switch {
	case kindN < 4:
		kind = "transfer-eoa"
		to = addrp(s.addrs[rng.Intn(6)])
	case kindN < 5:
		kind = "transfer-self"
		to = addrp(s.addrs[sender])
	case kindN < 6:
		kind = "transfer-fresh"
		s.fresh++
		_, fa := DetEthKey("c19-fresh", s.fresh)
		to = &fa
	case kindN < 8:
		kind = "call-store-set"
		to = addrp(s.storer)
		data = c19Word(big.NewInt(int64(1 + rng.Intn(1000))).Bytes())
	case kindN < 10:
		kind = "call-store-clear"
		to = addrp(s.storer)
		data = c19Word(nil)
	case kindN < 11:
		kind = "call-revert"
		to = addrp(s.reverter)
	case kindN < 12:
		kind = "call-out-of-gas"
		to = addrp(s.burner)
	case kindN < 13:
		kind = "create-ok"
		data = c19InitStoreReturn
	case kindN < 14:
		kind = "create-revert"
		data = c19InitRevert
	case kindN < 15:
		kind = "create-out-of-gas"
		data = c19InitLoop
	case kindN < 18:
		// deposit through the assets precompile, then the calling contract either returns or reverts
		revertFlag = rng.Intn(2) == 0
		kind = map[bool]string{true: "precompile-deposit-revert", false: "precompile-deposit-ok"}[revertFlag]
		to = addrp(s.proxy)
		staker := c19Pad32(s.addrs[rng.Intn(6)].Bytes())
		in, err := s.assetsP.Pack(assetsprecompile.MethodDepositLST, uint32(s.env.LzID), c19Pad32(common.FromHex(s.env.AssetAddr)), staker, big.NewInt(int64(1+rng.Intn(100000))))
		if err != nil {
			panic(err)
		}
		data = append(c19Word(s.assetsP.Address().Bytes()), in...)
	case kindN == 24:
		// value sent to a module account the bank refuses to credit (x/gov): stateDB.Commit fails
		kind = "transfer-blocked"
		to = addrp(common.BytesToAddress(authtypes.NewModuleAddress("gov")))
	case kindN < 20:
		// three slots at once: the refund counter (3 x 4800) exceeds gasUsed/5, so the EIP-3529 cap binds
		kind = "call-store3-set"
		to = addrp(s.storer3)
		data = c19Word(big.NewInt(int64(1 + rng.Intn(1000))).Bytes())
	case kindN < 22:
		kind = "call-store3-clear"
		to = addrp(s.storer3)
		data = c19Word(nil)
	default:
		revertFlag = rng.Intn(2) == 0
		kind = map[bool]string{true: "precompile-delegate-revert", false: "precompile-delegate-ok"}[revertFlag]
		to = addrp(s.proxy)
		staker := c19Pad32(s.addrs[rng.Intn(6)].Bytes())
		s.lzNonce++
		in, err := s.delegP.Pack(delegationprecompile.MethodDelegate, uint32(s.env.LzID), s.lzNonce, c19Pad32(common.FromHex(s.env.AssetAddr)), staker,
			[]byte(s.env.Operators[rng.Intn(len(s.env.Operators))].String()), big.NewInt(int64(1+rng.Intn(50))))
		if err != nil {
			panic(err)
		}
		data = append(c19Word(s.delegP.Address().Bytes()), in...)
	}
	if to != nil {
		note(*to)
	}
	var access ethtypes.AccessList
	if typ != 0 && rng.Intn(3) == 0 {
		access = ethtypes.AccessList{{Address: s.storer, StorageKeys: []common.Hash{{}, {1}}[:rng.Intn(3)]}}
	}
	create := to == nil
	al := access
	if typ == 0 {
		al = nil
	}
	intr, _ := core.IntrinsicGas(data, al, create, true, true)
	// gas limit
	var gas uint64
	switch rng.Intn(14) {
	case 0:
		gas = intr
	case 1:
		gas = intr - 1
	case 2:
		gas = intr + 1
	case 3:
		gas = uint64(s.pick(0, 21000, 21000, 53000, 100_000))
	case 4:
		if blim > 0 {
			gas = uint64(blim) + uint64(rng.Intn(2))
		} else {
			gas = 3_000_000
		}
	case 5:
		if blim > 0 {
			gas = uint64(blim) - uint64(rng.Intn(2))
		} else {
			gas = 1_000_000
		}
	case 6, 7:
		gas = intr + uint64(rng.Intn(60_000))
	case 8:
		gas = 2 * intr
	default:
		gas = uint64(s.pick(60_000, 100_000, 150_000, 200_000, 400_000))
	}
	priceSel := rng.Intn(24)
	valueSel := rng.Intn(24)
	nonceSel := rng.Intn(30)
	tipSel := rng.Intn(16)
	if clean {
		gas = uint64(s.pick(120_000, 150_000, 200_000))
		if kindN >= 20 {
			gas = uint64(s.pick(45_000, 60_000, 100_000))
		}
		priceSel, valueSel, nonceSel, tipSel = 8, 23, 29, 1
	}
	extra := int64(rng.Intn(2_000_000_000))
	smallVal := int64(1 + rng.Intn(1_000_000))
	mgpInt := new(big.Int).Quo(mgp.BigInt(), big.NewInt(1_000_000_000_000_000_000)) // floor(mgp)

	return func() c19Spec {
		from := s.addrs[sender]
		bal := s.bal(s.env.Ctx, from.Bytes())
		seq := s.seq(s.env.Ctx, from.Bytes())
		sp := c19Spec{kind: kind, typ: typ, sender: sender, to: to, data: data, gas: gas, access: access}
		// price (the cap for type 2)
		var pr *big.Int
		switch priceSel {
		case 0:
			pr = new(big.Int).Set(baseFee)
		case 1:
			pr = new(big.Int).Sub(baseFee, big.NewInt(1))
		case 2:
			pr = new(big.Int).Add(baseFee, big.NewInt(1))
		case 3:
			pr = new(big.Int).Set(mgpInt)
		case 4:
			pr = new(big.Int).Add(mgpInt, big.NewInt(1))
		case 5:
			pr = new(big.Int).Add(mgpInt, big.NewInt(2))
		case 6:
			// one more than the sender can afford for this gas limit
			if gas > 0 {
				pr = new(big.Int).Add(new(big.Int).Quo(bal, new(big.Int).SetUint64(gas)), big.NewInt(1))
			} else {
				pr = big.NewInt(1)
			}
		case 7:
			pr = new(big.Int).Mul(baseFee, big.NewInt(3))
		default:
			pr = new(big.Int).Add(baseFee, big.NewInt(extra))
			if pr.Cmp(mgpInt) < 0 && priceSel%2 == 0 {
				pr = new(big.Int).Add(mgpInt, big.NewInt(extra))
			}
		}
		if pr.Sign() < 0 {
			pr = big.NewInt(0)
		}
		sp.price, sp.cap = pr, pr
		switch tipSel {
		case 0:
			sp.tip = big.NewInt(0)
		case 1:
			sp.tip = new(big.Int).Set(pr)
		case 2:
			sp.tip = new(big.Int).Add(pr, big.NewInt(1)) // tip above cap: invalid
		case 3, 5:
			sp.tip = new(big.Int).Sub(pr, baseFee) // tip + base = cap exactly
		case 4, 6:
			sp.tip = new(big.Int).Add(new(big.Int).Sub(pr, baseFee), big.NewInt(1))
		default:
			sp.tip = big.NewInt(extra % 1000)
		}
		if sp.tip.Sign() < 0 {
			sp.tip = big.NewInt(0)
		}
		fees := new(big.Int).Mul(s.effPrice(sp, baseFee), new(big.Int).SetUint64(gas))
		// value
		switch valueSel {
		case 0:
			sp.value = new(big.Int).Sub(bal, fees) // exactly everything
		case 1:
			sp.value = new(big.Int).Add(new(big.Int).Sub(bal, fees), big.NewInt(1)) // passes the ante, fails inside the EVM
		case 2:
			sp.value = new(big.Int).Set(bal)
		case 3:
			sp.value = new(big.Int).Add(bal, big.NewInt(1))
		case 4, 5, 6:
			sp.value = big.NewInt(smallVal)
		case 7:
			sp.value = new(big.Int).Quo(bal, big.NewInt(3))
		default:
			sp.value = big.NewInt(0)
		}
		if sp.value.Sign() < 0 {
			sp.value = big.NewInt(0)
		}
		if strings.HasPrefix(kind, "precompile-") {
			if revertFlag {
				sp.value = big.NewInt(1)
			} else {
				sp.value = big.NewInt(0)
			}
		}
		// nonce
		n := seq
		if n < 0 {
			n = 0
		}
		sp.nonce = uint64(n)
		switch nonceSel {
		case 0:
			sp.nonce = uint64(n) + 1
		case 1:
			if n > 0 {
				sp.nonce = uint64(n) - 1
			}
		}
		return sp
	}
}
