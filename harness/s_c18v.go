package main

// Suite c18v: the real dogfood GenesisState.Validate on generated documents (duplicate epochs, duplicate
// addresses / record keys within and across epochs, epochs <= 1, empty lists, malformed record keys) -
// the exported documents of suite c18 never contain such entries, so the validator's rejections are
// exercised here.  Params, validator set and total power are those of a real exported document.

import (
	"encoding/hex"
	"fmt"
	"math/rand"

	sdk "github.com/cosmos/cosmos-sdk/types"
	"github.com/ethereum/go-ethereum/common"
	"github.com/ethereum/go-ethereum/common/hexutil"

	delegationtypes "github.com/ExocoreNetwork/exocore/x/delegation/types"
	dogfoodtypes "github.com/ExocoreNetwork/exocore/x/dogfood/types"
)

func init() { register("c18v", runC18V) }

type c18vCase struct {
	Suite   string     `json:"suite"`
	NT      bool       `json:"nt"`
	OptOuts [][]string `json:"optouts"` // each: epoch, elements...
	Prune   [][]string `json:"prune"`
	Mature  [][]string `json:"mature"`
	Valid   bool       `json:"valid"`
	Err     string     `json:"err,omitempty"`
}

func c18vRows(xs [][]string) string {
	rows := make([]string, len(xs))
	for i, x := range xs {
		atoms := make([]string, len(x)-1)
		for j, a := range x[1:] {
			atoms[j] = cStr(a)
		}
		rows[i] = cTuple(cStr(x[0]), cApp("VList", cList(atoms)))
	}
	return cList(rows)
}

func runC18V(a *Args) error {
	env := NewEnv(EnvCfg{})
	w := NewCaseWriter(a.Out)
	defer w.Close()
	rng := rand.New(rand.NewSource(a.Seed))
	base := env.App.StakingKeeper.ExportGenesis(env.Ctx)

	var addrs [][]byte
	for i := 0; i < 5; i++ {
		_, ad := DetEthKey("c18v", i)
		addrs = append(addrs, ad.Bytes())
	}
	var rks [][]byte
	for i := 0; i < 5; i++ {
		rks = append(rks, delegationtypes.GetUndelegationRecordKey(uint64(3+i), uint64(i), common.BytesToHash(seedBytes("c18vtx", i)).String(),
			sdk.AccAddress(addrs[i%3]).String()))
	}
	bad := [][]byte{{0x12, 0x34}, []byte("exo1abc/0x1/0x2"), []byte("a/b/c/d")}
	epochPool := []int64{0, 1, 2, 2, 3, 5, 7, 7, 1 << 40}

	defect := false
	genSection := func(pool [][]byte, extra [][]byte) (hexRows [][]string, epochs []int64, lists [][][]byte) {
		n := rng.Intn(4)
		if rng.Intn(4) > 0 {
			// clean section: distinct epochs > 1, every element used once
			perm := rng.Perm(len(pool))
			used := 0
			for i := 0; i < n && used < len(pool); i++ {
				e := int64(2 + 2*i + rng.Intn(2))
				k := 1 + rng.Intn(2)
				var l [][]byte
				for j := 0; j < k && used < len(pool); j++ {
					l = append(l, pool[perm[used]])
					used++
				}
				row := []string{fmt.Sprintf("%016x", uint64(e))}
				for _, x := range l {
					row = append(row, hex.EncodeToString(x))
				}
				hexRows = append(hexRows, row)
				epochs = append(epochs, e)
				lists = append(lists, l)
			}
			// exactly one injected defect (or none) on top of the clean section
			add := func(e int64, l [][]byte) {
				row := []string{fmt.Sprintf("%016x", uint64(e))}
				for _, x := range l {
					row = append(row, hex.EncodeToString(x))
				}
				hexRows = append(hexRows, row)
				epochs = append(epochs, e)
				lists = append(lists, l)
			}
			kind := 99
			if defect {
				kind = rng.Intn(6)
				defect = false
			}
			switch kind {
			case 0: // duplicate epoch
				if len(epochs) > 0 && used < len(pool) {
					add(epochs[rng.Intn(len(epochs))], [][]byte{pool[perm[used]]})
				}
			case 1: // element of an earlier entry again under a new epoch
				if len(lists) > 0 {
					l := lists[rng.Intn(len(lists))]
					add(int64(20+rng.Intn(3)), [][]byte{l[rng.Intn(len(l))]})
				}
			case 2: // epoch 0 / 1
				if used < len(pool) {
					add(int64(rng.Intn(2)), [][]byte{pool[perm[used]]})
				}
			case 3: // empty list
				add(int64(30+rng.Intn(3)), nil)
			case 4: // malformed element (record keys only)
				if len(extra) > 0 {
					add(int64(40+rng.Intn(3)), [][]byte{extra[rng.Intn(len(extra))]})
				}
			case 5: // same element twice in one entry
				if used < len(pool) {
					add(int64(50+rng.Intn(3)), [][]byte{pool[perm[used]], pool[perm[used]]})
				}
			}
			return
		}
		for i := 0; i < n; i++ {
			e := epochPool[rng.Intn(len(epochPool))]
			if rng.Intn(3) > 0 {
				e = int64(2 + rng.Intn(6))
			}
			k := rng.Intn(4)
			if rng.Intn(3) > 0 && k == 0 {
				k = 1
			}
			var l [][]byte
			for j := 0; j < k; j++ {
				if len(extra) > 0 && rng.Intn(8) == 0 {
					l = append(l, extra[rng.Intn(len(extra))])
				} else {
					l = append(l, pool[rng.Intn(len(pool))])
				}
			}
			row := []string{fmt.Sprintf("%016x", uint64(e))}
			for _, x := range l {
				row = append(row, hex.EncodeToString(x))
			}
			hexRows = append(hexRows, row)
			epochs = append(epochs, e)
			lists = append(lists, l)
		}
		return
	}

	for c := 0; c < a.N; c++ {
		gs := *base
		cs := &c18vCase{Suite: "c18v"}
		var ep []int64
		var ls [][][]byte
		which := rng.Intn(5) // the section that gets the single injected defect (3, 4: none)
		defect = which == 0
		cs.OptOuts, ep, ls = genSection(addrs, nil)
		gs.OptOutExpiries = nil
		for i := range ep {
			var xs []string
			for _, x := range ls[i] {
				xs = append(xs, sdk.AccAddress(x).String())
			}
			gs.OptOutExpiries = append(gs.OptOutExpiries, dogfoodtypes.EpochToOperatorAddrs{Epoch: ep[i], OperatorAccAddrs: xs})
		}
		defect = which == 1
		cs.Prune, ep, ls = genSection(addrs, nil)
		gs.ConsensusAddrsToPrune = nil
		for i := range ep {
			var xs []string
			for _, x := range ls[i] {
				xs = append(xs, sdk.ConsAddress(x).String())
			}
			gs.ConsensusAddrsToPrune = append(gs.ConsensusAddrsToPrune, dogfoodtypes.EpochToConsensusAddrs{Epoch: ep[i], ConsAddrs: xs})
		}
		defect = which == 2
		cs.Mature, ep, ls = genSection(rks, bad)
		gs.UndelegationMaturities = nil
		for i := range ep {
			var xs []string
			for _, x := range ls[i] {
				xs = append(xs, hexutil.Encode(x))
			}
			gs.UndelegationMaturities = append(gs.UndelegationMaturities, dogfoodtypes.EpochToUndelegationRecordKeys{Epoch: ep[i], UndelegationRecordKeys: xs})
		}
		err := gs.Validate()
		cs.Valid = err == nil
		if err != nil {
			cs.Err = err.Error()
			if len(cs.Err) > 120 {
				cs.Err = cs.Err[:120]
			}
		}
		cs.NT = len(cs.OptOuts)+len(cs.Prune)+len(cs.Mature) > 0
		w.Count(fmt.Sprintf("valid=%v", cs.Valid))
		w.Add(cApp("mkV", c18vRows(cs.OptOuts), c18vRows(cs.Prune), c18vRows(cs.Mature), cBool(cs.Valid)), cs)
	}
	return nil
}
