package main

// Suite c12k: the two pure kernels of the oracle aggregation, run on their own:
// common.BigIntList.Median and common.ExceedsThreshold (real functions, boundary-biased inputs).

import (
	"fmt"
	"math/big"
	"math/rand"

	oraclecommon "github.com/ExocoreNetwork/exocore/x/oracle/keeper/common"
)

func init() { register("c12k", runC12k) }

type c12KCase struct {
	Suite string  `json:"suite"`
	Kind  string  `json:"kind"`
	List  []int64 `json:"list,omitempty"`
	Res   string  `json:"res"`
	A     int32   `json:"a,omitempty"`
	B     int32   `json:"b,omitempty"`
	Power string  `json:"power,omitempty"`
	Total string  `json:"total,omitempty"`
}

func runC12k(a *Args) error {
	w := NewCaseWriter(a.Out)
	defer w.Close()
	r := rand.New(rand.NewSource(a.Seed))
	savedA, savedB := oraclecommon.ThresholdA, oraclecommon.ThresholdB
	defer func() { oraclecommon.ThresholdA, oraclecommon.ThresholdB = savedA, savedB }()
	pool := []int64{0, 1, 2, 3, 7, 100, 101, 99, -1, -5, 2500, 1 << 40}
	for i := 0; i < a.N; i++ {
		if i%2 == 0 {
			n := r.Intn(8)
			if i < 16 {
				n = i / 2
			}
			xs := make([]int64, n)
			for j := range xs {
				if r.Intn(3) == 0 {
					xs[j] = r.Int63n(2000) - 1000
				} else {
					xs[j] = pool[r.Intn(len(pool))]
				}
			}
			l := make([]*big.Int, n)
			var cs []string
			for j, x := range xs {
				l[j] = big.NewInt(x)
				cs = append(cs, cZ(x))
			}
			res := "None"
			resJ := "panic"
			func() {
				defer func() {
					if rec := recover(); rec != nil {
						res, resJ = "None", "panic"
					}
				}()
				m := oraclecommon.BigIntList(l).Median()
				res = "(Some " + cZbig(m) + ")"
				resJ = m.String()
			}()
			w.Add(cApp("KMedian", cList(cs), res), c12KCase{Suite: "c12k", Kind: "median", List: xs, Res: resJ})
			w.Count(fmt.Sprintf("median.len=%d", n))
		} else {
			ab := [][2]int32{{2, 3}, {1, 2}, {3, 4}, {1, 1}, {2, 3}, {2, 3}}[r.Intn(6)]
			total := int64(1 + r.Intn(1000))
			if r.Intn(3) == 0 {
				total = int64(ab[1]) * int64(1+r.Intn(300)) // divisible: the exact boundary exists
			}
			// power around total*A/B
			boundary := total * int64(ab[0]) / int64(ab[1])
			power := boundary + int64(r.Intn(5)) - 2
			if r.Intn(4) == 0 {
				power = r.Int63n(total + 2)
			}
			if power < 0 {
				power = 0
			}
			oraclecommon.ThresholdA, oraclecommon.ThresholdB = ab[0], ab[1]
			res := oraclecommon.ExceedsThreshold(big.NewInt(power), big.NewInt(total))
			w.Add(cApp("KThreshold", cZ(int64(ab[0])), cZ(int64(ab[1])), cZ(power), cZ(total), cBool(res)),
				c12KCase{Suite: "c12k", Kind: "threshold", A: ab[0], B: ab[1], Power: fmt.Sprint(power), Total: fmt.Sprint(total), Res: fmt.Sprint(res)})
			if power*int64(ab[1]) == total*int64(ab[0]) {
				w.Count("threshold.exactly-on-boundary")
			} else {
				w.Count(fmt.Sprintf("threshold.res=%v", res))
			}
		}
	}
	return nil
}
