package main

// Suite c19basefee: the fee market between blocks, on the real chain. Each case = block A (fee-market and consensus
// parameters drawn for it, a few real signed transfers whose gas limits aim at the block's gas target), A's EndBlock
// (block gas wanted) and the BeginBlock of block A+1 (new base fee), observed through the real keepers.

import (
	"fmt"
	"math/big"
	"math/rand"
	"time"

	sdkmath "cosmossdk.io/math"
	sdk "github.com/cosmos/cosmos-sdk/types"
	authtypes "github.com/cosmos/cosmos-sdk/x/auth/types"
)

func init() { register("c19basefee", runC19BaseFee) }

type c19BFCase struct {
	Suite       string   `json:"suite"`
	NT          bool     `json:"nt"`
	NoBase      bool     `json:"no_base_fee"`
	Enable      int64    `json:"enable_height"`
	StoredBase  string   `json:"stored_base_fee_during_A"`
	Elasticity  uint32   `json:"elasticity_multiplier"`
	Denominator uint32   `json:"base_fee_change_denominator"`
	MGP         string   `json:"min_gas_price_dec"`
	MaxGas      int64    `json:"consensus_max_gas"`
	HeightB     int64    `json:"height_of_next_block"`
	Mult        string   `json:"min_gas_multiplier_dec"`
	Included    []uint64 `json:"included_gas_limits"`
	Refused     int      `json:"refused_txs"`
	Transient   uint64   `json:"transient_gas_wanted"`
	Consumed    uint64   `json:"block_gas_consumed"`
	Wanted      uint64   `json:"block_gas_wanted_after_endblock"`
	StoredAfter string   `json:"stored_base_fee_after_beginblock"`
	EvmBase     string   `json:"evm_base_fee_in_next_block"`
}

func runC19BaseFee(a *Args) error {
	env := NewEnv(EnvCfg{ExtraAccs: 6})
	w := NewCaseWriter(a.Out)
	defer w.Close()
	s := &c19S{env: env, w: w, rng: rand.New(rand.NewSource(a.Seed)), chainID: env.App.EvmKeeper.ChainID(),
		coll: authtypes.NewModuleAddress(authtypes.FeeCollectorName)}
	s.privs = append(s.privs, env.AccPrivs...)
	s.addrs = append(s.addrs, env.AccAddrs...)
	env.NextBlock(time.Second)
	for c := 0; c < a.N; c++ {
		if err := s.oneBaseFee(); err != nil {
			return err
		}
	}
	return nil
}

func (s *c19S) oneBaseFee() error {
	rng := s.rng
	env := s.env
	fk := env.App.FeeMarketKeeper
	// ---- parameters, in force from block A's BeginBlock on
	p := fk.GetParams(env.Ctx)
	p.NoBaseFee = rng.Intn(8) == 0
	switch rng.Intn(4) {
	case 0:
		p.BaseFee = sdkmath.NewInt(int64(1 + rng.Intn(20)))
	case 1:
		p.BaseFee = sdkmath.NewInt(1_000_000_000)
	case 2:
		p.BaseFee = sdkmath.NewInt(int64(1 + rng.Intn(2_000_000_000)))
	}
	p.ElasticityMultiplier = uint32(s.pick(1, 2, 2, 2, 3, 4))
	p.BaseFeeChangeDenominator = uint32(s.pick(1, 2, 8, 8, 8, 50))
	p.MinGasPrice = sdk.ZeroDec()
	switch rng.Intn(4) {
	case 0:
		p.MinGasPrice = sdk.NewDec(int64(1 + rng.Intn(1_500_000_000)))
	case 1:
		p.MinGasPrice = c19Dec("3.999999999999999999")
	}
	p.MinGasMultiplier = c19Dec("0.5")
	switch rng.Intn(4) {
	case 0:
		p.MinGasMultiplier = sdk.ZeroDec()
	case 1:
		p.MinGasMultiplier = sdk.OneDec()
	case 2:
		p.MinGasMultiplier = sdk.NewDecWithPrec(int64(rng.Intn(1001)), 3)
	}
	if err := fk.SetParams(env.Ctx, p); err != nil {
		return err
	}
	maxGas := int64(-1)
	if rng.Intn(5) != 0 {
		maxGas = int64(s.pick(200_000, 240_000, 300_000, 400_000, 600_000))
	}
	s.setBlockMaxGas(maxGas)
	s.topUp()
	env.NextBlock(time.Second) // BeginBlock of A
	p = fk.GetParams(env.Ctx)
	cs := c19BFCase{Suite: "c19basefee", NoBase: p.NoBaseFee, Enable: p.EnableHeight, StoredBase: p.BaseFee.String(),
		Elasticity: p.ElasticityMultiplier, Denominator: p.BaseFeeChangeDenominator, MGP: p.MinGasPrice.BigInt().String(),
		MaxGas: maxGas, Mult: p.MinGasMultiplier.BigInt().String()}
	baseFee := s.baseFee()
	// ---- block A: transfers whose gas limits aim at the gas target
	target := uint64(1 << 62)
	if maxGas > 0 {
		target = uint64(maxGas) / uint64(p.ElasticityMultiplier)
	}
	n := rng.Intn(4)
	remaining := target
	for i := 0; i < n; i++ {
		sender := rng.Intn(6)
		from := s.addrs[sender]
		to := s.addrs[rng.Intn(6)]
		var gas uint64
		switch {
		case i == n-1 && maxGas > 0 && remaining >= 21000:
			// the last one lands the block's wanted gas on the target, one below, one above, or anywhere
			gas = []uint64{remaining, remaining - 1, remaining + 1, remaining, uint64(21000 + rng.Intn(200_000))}[rng.Intn(5)]
			if p.MinGasMultiplier.IsPositive() && rng.Intn(2) == 0 && !p.MinGasMultiplier.Equal(sdk.OneDec()) {
				// aim wanted = gasLimit * multiplier at the target instead
				g := sdk.NewDec(int64(remaining)).Quo(p.MinGasMultiplier).TruncateInt().Uint64()
				gas = g + uint64(rng.Intn(3))
			}
		default:
			gas = uint64(21000 + rng.Intn(80_000))
		}
		if maxGas > 0 && gas > uint64(maxGas) {
			gas = uint64(maxGas)
		}
		nonce := uint64(s.seq(env.Ctx, from.Bytes()))
		if rng.Intn(12) == 0 {
			nonce++ // refused: must not count towards the gas the block wanted
		}
		price := new(big.Int).Add(baseFee, big.NewInt(int64(1+rng.Intn(1000))))
		if m := new(big.Int).Quo(p.MinGasPrice.BigInt(), big.NewInt(1_000_000_000_000_000_000)); price.Cmp(m) <= 0 && rng.Intn(6) != 0 {
			price = new(big.Int).Add(m, big.NewInt(1))
		}
		seq0 := s.seq(env.Ctx, from.Bytes())
		rec, err := s.deliver(c19Spec{kind: "transfer-eoa", typ: rng.Intn(3), sender: sender, to: &to, nonce: nonce, gas: gas,
			price: price, cap: price, tip: price, value: big.NewInt(int64(rng.Intn(1000)))}, baseFee)
		if err != nil {
			return err
		}
		if rec.Code == 0 || s.seq(env.Ctx, from.Bytes()) != seq0 {
			cs.Included = append(cs.Included, gas)
			used := rec.GasUsed
			if !rec.HasResp {
				used = gas
			}
			if remaining > used {
				remaining -= used
			} else {
				remaining = 0
			}
		} else {
			cs.Refused++
		}
	}
	cs.Transient = fk.GetTransientGasWanted(env.App.GetContextForDeliverTx(nil))
	cs.Consumed = s.blockGas()
	env.NextBlock(time.Second) // EndBlock of A, BeginBlock of A+1
	cs.HeightB = env.Header.Height
	cs.Wanted = fk.GetBlockGasWanted(env.Ctx)
	cs.StoredAfter = fk.GetParams(env.Ctx).BaseFee.String()
	cs.EvmBase = s.baseFeeEvm().String()
	cs.NT = len(cs.Included) > 0
	w := s.w
	w.Count(fmt.Sprintf("txs=%d", n))
	w.Count(fmt.Sprintf("elasticity=%d", p.ElasticityMultiplier))
	w.Count(fmt.Sprintf("denominator=%d", p.BaseFeeChangeDenominator))
	if p.NoBaseFee {
		w.Count("basefee=off")
	}
	if maxGas > 0 {
		switch {
		case cs.Wanted == target:
			w.Count("wanted=target")
		case cs.Wanted > target:
			w.Count("wanted>target")
		default:
			w.Count("wanted<target")
		}
	} else {
		w.Count("maxgas=unlimited")
	}
	if cs.StoredAfter != cs.StoredBase {
		w.Count("base-fee-moved")
	}
	var inc []string
	for _, g := range cs.Included {
		inc = append(inc, c19U(g))
	}
	fm := cApp("mkFm", cBool(cs.NoBase), cZ(cs.Enable), cZstr(cs.StoredBase), cZ(int64(cs.Elasticity)), cZ(int64(cs.Denominator)), cZstr(cs.MGP), cZ(cs.MaxGas))
	term := cApp("mkBf", fm, cZ(cs.HeightB), cZstr(cs.Mult), cList(inc), c19U(cs.Transient), c19U(cs.Consumed), c19U(cs.Wanted), cZstr(cs.StoredAfter), cZstr(cs.EvmBase))
	w.Add(term, cs)
	return nil
}

// the base fee the evm keeper hands out (0 when the fee market has none)
func (s *c19S) baseFeeEvm() *big.Int {
	k := s.env.App.EvmKeeper
	ethCfg := k.GetParams(s.env.Ctx).ChainConfig.EthereumConfig(k.ChainID())
	b := k.GetBaseFee(s.env.Ctx, ethCfg)
	if b == nil {
		return big.NewInt(0)
	}
	return b
}
