import subprocess, sys, os, re, json, shutil
W='/work/gN'
R=W+'/repo'
env=dict(os.environ, W=W, VERIF_REPO=R, GOFLAGS='-mod=mod', GOPROXY='off', GOSUMDB='off', GOTOOLCHAIN='local', VERIF_JOBS='4')
ABCI=R+'/x/epochs/keeper/abci.go'
APP=R+'/app/app.go'
def rep(path, old, new, count=1):
    s=open(path).read()
    assert s.count(old)>=1, (path, old)
    if count==-1:
        i=s.rindex(old); s=s[:i]+new+s[i+len(old):]
    else:
        s=s.replace(old,new,1)
    open(path,'w').write(s)
M={
 'M1-after-to-notbefore': lambda: rep(ABCI,'isTickEnding := ctx.BlockTime().After(epochEndTime)','isTickEnding := !ctx.BlockTime().Before(epochEndTime)'),
 'M2-start-time-is-block-time': lambda: rep(ABCI,'epochInfo.CurrentEpochStartTime = epochEndTime','epochInfo.CurrentEpochStartTime = ctx.BlockTime()'),
 'M3-end-hook-after-start-hook': lambda: (rep(ABCI,'				k.Hooks().AfterEpochEnd(ctx, epochInfo.Identifier, epochInfo.CurrentEpoch)\n',''),
      rep(ABCI,'			k.Hooks().BeforeEpochStart(ctx, epochInfo.Identifier, epochInfo.CurrentEpoch)\n','			k.Hooks().BeforeEpochStart(ctx, epochInfo.Identifier, epochInfo.CurrentEpoch)\n			if !isFirstTick {\n				k.Hooks().AfterEpochEnd(ctx, epochInfo.Identifier, epochInfo.CurrentEpoch-1)\n			}\n')),
 'M4-hook-order-app-go': lambda: (rep(APP,'			app.OperatorKeeper.EpochsHooks(),   // must come before staking keeper so it can set the USD value\n','			app.XXXX.EpochsHooks(),\n'),
      rep(APP,'			app.StakingKeeper.EpochsHooks(),    // at this point, the order is irrelevant.\n','			app.OperatorKeeper.EpochsHooks(),\n'),
      rep(APP,'			app.XXXX.EpochsHooks(),\n','			app.StakingKeeper.EpochsHooks(),\n')),
 'M5-stop-after-first-tick': lambda: rep(ABCI,'			k.Hooks().BeforeEpochStart(ctx, epochInfo.Identifier, epochInfo.CurrentEpoch)\n\n			return false','			k.Hooks().BeforeEpochStart(ctx, epochInfo.Identifier, epochInfo.CurrentEpoch)\n\n			return true'),
 'M6-first-start-time-is-block-time': lambda: rep(ABCI,'epochInfo.CurrentEpochStartTime = epochInfo.StartTime','epochInfo.CurrentEpochStartTime = ctx.BlockTime()'),
 'M7-no-start-hook-on-first-epoch': lambda: rep(ABCI,'			k.Hooks().BeforeEpochStart(ctx, epochInfo.Identifier, epochInfo.CurrentEpoch)\n\n','			if !isFirstTick {\n				k.Hooks().BeforeEpochStart(ctx, epochInfo.Identifier, epochInfo.CurrentEpoch)\n			}\n\n'),
 'M8-double-increment-when-far-behind': lambda: rep(ABCI,'				epochInfo.CurrentEpoch++\n','				epochInfo.CurrentEpoch++\n				if ctx.BlockTime().After(epochEndTime.Add(100 * epochInfo.Duration)) {\n					epochInfo.CurrentEpoch++\n				}\n'),
 'M9-skip-start-time-check-when-started': lambda: rep(ABCI,'if ctx.BlockTime().Before(epochInfo.StartTime) {','if !epochInfo.EpochCountingStarted && ctx.BlockTime().Before(epochInfo.StartTime) {'),
}
names=sys.argv[1:] or list(M)
for n in names:
    subprocess.run(['git','-C',R,'checkout','--','.'],check=True)
    M[n]()
    d=subprocess.run(['git','-C',R,'diff','--stat'],capture_output=True,text=True).stdout.strip().splitlines()[-1]
    r=subprocess.run('cd %s/verif && timeout 1800 python3 corr/run_check.py C15 --tier quick'%W,shell=True,env=env,capture_output=True,text=True)
    out=r.stdout+r.stderr
    lines=[l for l in out.splitlines() if 'VIOLATION' in l or 'PASS' in l or 'FAIL' in l or 'failed on case' in l or 'mismatch' in l or 'harness build' in l]
    print('=====',n,'exit',r.returncode,'|',d)
    print('\n'.join(lines))
    import glob
    cnt={}
    for sh in sorted(glob.glob(W+'/verif/build/cases/C15/*/shard*.v')):
        suite=sh.split('/')[-2]
        rr=subprocess.run(['coqc','-noglob','-R',W+'/verif/coq','Exo',sh],capture_output=True,text=True,cwd=os.path.dirname(sh))
        for m in re.finditer(r'@@BEGIN (\S+)\n(.*?)@@END', rr.stdout, re.S):
            cnt[(suite,m.group(1))]=cnt.get((suite,m.group(1)),0)+len(re.findall(r'\(\s*\d+\s*,\s*\d+\s*\)', m.group(2)))
    print('  failing cases per check:', cnt)
    # keep the first replay
    os.makedirs('/tmp/gN_mut/replays/'+n,exist_ok=True)
    for l in lines:
        m=re.search(r'replay=(\S+)',l)
        if m and os.path.exists(m.group(1)):
            shutil.copy(m.group(1),'/tmp/gN_mut/replays/'+n+'/')
    sys.stdout.flush()
subprocess.run(['git','-C',R,'checkout','--','.'],check=True)
