(* C03/Proofs_first.v — "released at the first eligible block, not before, exactly once": an unheld, properly indexed
   record with a nonce no other live record uses stays untouched through every block end before its completion
   height and is gone after the block end of its completion height. *)
From Coq Require Import List String Ascii Bool ZArith Lia.
From Exo Require Import Base.Store Base.IntDec Base.Util Ledger.Ledger Ledger.Strings Ledger.LedgerLemmas Ledger.IndexInv
  Ledger.AggInv Ledger.NonNeg C03.Model C03.Proofs C03.Proofs_credit.
Import ListNotations.
Local Open Scope string_scope.
Local Open Scope Z_scope.

Lemma pkey_of_inj h n h' n' : 0 <= h -> 0 <= n -> 0 <= h' -> 0 <= n' -> pkey_of h n = pkey_of h' n' -> h = h' /\ n = n'.
Proof.
  intros A B C D H. unfold pkey_of in H. apply join2_inj in H; try apply hexZ_no_slash.
  destruct H as [H1 H2]. split; apply hexZ_inj; assumption.
Qed.

(* the nonce of r is used by no other live record *)
Definition uniq_nonce (s : st) (r : urec) : Prop :=
  forall k r', sget (ur s) k = Some r' -> ur_nonce r' = ur_nonce r -> k = rkey r.

(* what one loop iteration (for another record r1 due at the current height) leaves alone *)
Definition keepQ (r : urec) (s : st) : Prop :=
  sget (pidx s) (pkey r) = Some (rkey r) /\ uniq_nonce s r.

Lemma process_keep r s r1 : idx_inv s -> sget (ur s) (rkey r1) = Some r1 -> sget (ur s) (rkey r) = Some r ->
  ur_cn r1 = height s -> height s < ur_cn r -> keepQ r s -> keepQ r (process s r1).
Proof.
  intros I G1 G Cn1 Lt [Px U]. pose proof I as (Su & Sp & K & Ip & W & Hh).
  assert (rec_wf r = true) as Wr by (eapply allv_sget; eauto).
  assert (rec_wf r1 = true) as Wr1 by (eapply allv_sget; eauto).
  unfold rec_wf in Wr, Wr1. rewrite !andb_true_iff, !Z.leb_le in Wr, Wr1.
  assert (rkey r1 <> rkey r) as Nk.
  { intro Eq. rewrite Eq in G1. rewrite G in G1. inversion G1; subst. lia. }
  assert (pkey r1 <> pkey r) as Np.
  { intro Eq. unfold pkey in Eq. apply pkey_of_inj in Eq; try tauto. lia. }
  unfold process. destruct (0 <? hold_count s (rkey r1)).
  - (* re-queue of r1 *)
    unfold set_record. simpl.
    replace (height s + 1 <? height s) with false by (symmetry; apply Z.ltb_ge; lia).
    change (rkey (mkUR (ur_staker r1) (ur_asset r1) (ur_op r1) (ur_tx r1) (ur_bn r1) (height s + 1) (ur_nonce r1) (ur_amt r1) (ur_act r1))) with (rkey r1).
    rewrite (sget_sdel_same _ _ Su). simpl. split.
    + unfold pkey at 1. simpl.
      assert (pkey_of (height s + 1) (ur_nonce r1) <> pkey r) as Nq.
      { intro Eq. unfold pkey in Eq. apply pkey_of_inj in Eq; try tauto; try lia. destruct Eq as [_ En].
        pose proof (U _ _ G1 En). contradiction. }
      rewrite sget_sset_other; [| apply sdel_sorted; assumption | exact Nq].
      rewrite sget_sdel_other by assumption. exact Px.
    + intros k r' Gk En. simpl in Gk. destruct (string_dec (rkey r1) k) as [<-|Ne].
      * rewrite sget_sset_same in Gk. inversion Gk; subst. simpl in En. apply (U _ _ G1 En).
      * rewrite sget_sset_other in Gk; [| apply sdel_sorted; assumption | exact Ne].
        rewrite sget_sdel_other in Gk by assumption. apply (U _ _ Gk En).
  - destruct (upd_dg s _ 0 (- ur_amt r1)) as [[s1 z]|] eqn:E1; [|split; assumption].
    destruct (pay_staker s1 r1) as [s2|] eqn:E2; [|split; assumption].
    destruct (upd_oa s2 _ 0 (- ur_amt r1) 0 0) as [s3|] eqn:E3; [|split; assumption].
    apply upd_dg_frame in E1. apply pay_frame in E2. apply upd_oa_frame in E3.
    destruct E1 as (u1 & p1 & _), E2 as (u2 & p2 & _), E3 as (u3 & p3 & _).
    unfold del_record, keepQ, uniq_nonce. simpl. rewrite u3, u2, u1, p3, p2, p1. split.
    + rewrite sget_sdel_other by assumption. exact Px.
    + intros k r' Gk En. destruct (string_dec (rkey r1) k) as [<-|Ne].
      * rewrite sget_sdel_same in Gk by assumption. discriminate.
      * rewrite sget_sdel_other in Gk by assumption. apply (U _ _ Gk En).
Qed.

Definition waitQ (s0 : st) (r : urec) (s : st) : Prop :=
  keepQ r s /\ sget (ur s) (rkey r) = Some r /\ height s = height s0 /\ hold s = hold s0 /\ J s.

Lemma end_block_wait s r : inv_all s -> sget (ur s) (rkey r) = Some r -> height s < ur_cn r -> keepQ r s ->
  keepQ r (end_block s) /\ sget (ur (end_block s)) (rkey r) = Some r /\ hold (end_block s) = hold s /\
  inv_all (end_block s) /\ height (end_block s) = height s + 1.
Proof.
  intros Hi G Lt Kq. pose proof Hi as (I & Hj & N & Lst). pose proof I as (Su & Sp & K & Ip & W & Hh).
  assert (inv_all (end_block s)) as Hi'.
  { split; [|split; [|split]].
    - exact (step_idx s EndBlock I eq_refl eq_refl).
    - exact (step_J s EndBlock I Hj eq_refl eq_refl).
    - exact (step_nn s EndBlock I N eq_refl).
    - exact (step_lst s EndBlock I Lst eq_refl eq_refl). }
  assert (height (end_block s) = height s + 1) as Hg by (unfold end_block; reflexivity).
  unfold end_block in *.
  destruct (fetch (ur s) (due_keys (height s) (pidx s))) as [recs|] eqn:F.
  2:{ simpl. split; [exact Kq|]. split; [exact G|]. split; [reflexivity|]. split; [exact Hi'|exact Hg]. }
  destruct (fetch_keys _ _ _ K F) as [MK Gs].
  assert (NoDup (map rkey recs)) as ND by (rewrite MK; apply due_keys_nodup; assumption).
  assert (forall r1, In r1 recs -> ur_cn r1 = height s) as HP.
  { intros r1 In0. assert (In (rkey r1) (due_keys (height s) (pidx s))) as InK by (rewrite <- MK; apply in_map; assumption).
    destruct (due_keys_spec s (height s) (rkey r1) I Hh InK) as (r2 & G2 & Cn). rewrite (Gs r1 In0) in G2. inversion G2; subst. exact Cn. }
  assert (waitQ s r (fold_left process recs s)) as (Kq' & G' & _ & Hh' & _).
  { apply (process_loop_P (fun r1 => ur_cn r1 = height s) (waitQ s r)); try assumption.
    - intros s1 r1 I1 G1 Cn1 (Kq1 & Gr1 & Hg1 & Hh1 & J1).
      destruct (process_J s1 r1 I1 J1 G1) as [J' H']. destruct (process_idx s1 r1 I1 G1) as (_ & O1 & Hg').
      assert (rkey r <> rkey r1) as Nk.
      { intro Eq. rewrite <- Eq in G1. rewrite Gr1 in G1. inversion G1; subst. lia. }
      split; [apply process_keep; try assumption; congruence|].
      split; [rewrite O1; assumption|]. split; [congruence|]. split; [congruence|exact J'].
    - split; [exact Kq|]. split; [exact G|]. split; [reflexivity|]. split; [reflexivity|exact Hj]. }
  simpl. split; [exact Kq'|]. split; [exact G'|]. split; [exact Hh'|]. split; [exact Hi'|exact Hg].
Qed.

(* n block ends *)
Definition blocks (n : nat) (s : st) : st := run (repeat EndBlock n) s.

Lemma blocks_S n s : blocks (S n) s = blocks n (end_block s).
Proof. reflexivity. Qed.

Lemma wait_until_due : forall n s r, inv_all s -> sget (ur s) (rkey r) = Some r -> keepQ r s ->
  hold_count s (rkey r) = 0 -> ur_cn r = height s + Z.of_nat n ->
  let s' := blocks n s in
  inv_all s' /\ sget (ur s') (rkey r) = Some r /\ keepQ r s' /\ hold_count s' (rkey r) = 0 /\ height s' = ur_cn r.
Proof.
  induction n as [|n IH]; intros s r Hi G Kq H0 Cn; simpl.
  - unfold blocks, run. simpl. split; [exact Hi|]. split; [exact G|]. split; [exact Kq|]. split; [exact H0|]. simpl in Cn. lia.
  - rewrite blocks_S.
    destruct (end_block_wait s r Hi G ltac:(lia) Kq) as (Kq' & G' & Hh' & Hi' & Hg').
    apply IH; try assumption.
    + unfold hold_count in *. rewrite Hh'. exact H0.
    + lia.
Qed.

(* the statement: untouched before, gone right after the block end of its completion height *)
Lemma first_eligible_block : forall n s r, inv_all s -> sget (ur s) (rkey r) = Some r ->
  sget (pidx s) (pkey r) = Some (rkey r) -> uniq_nonce s r -> hold_count s (rkey r) = 0 ->
  ur_cn r = height s + Z.of_nat n ->
  (forall m, (m <= n)%nat -> sget (ur (blocks m s)) (rkey r) = Some r) /\
  sget (ur (blocks (S n) s)) (rkey r) = None.
Proof.
  intros n s r Hi G Px U H0 Cn. split.
  - intros m Hm.
    (* after m <= n blocks the record is still waiting: use wait_until_due on a virtual record position *)
    assert (forall m s1, inv_all s1 -> sget (ur s1) (rkey r) = Some r -> keepQ r s1 -> (height s1 + Z.of_nat m <= ur_cn r) ->
            sget (ur (blocks m s1)) (rkey r) = Some r) as Aux.
    { clear. induction m as [|m IHm]; intros s1 Hi1 G1 K1 Le; [exact G1|].
      rewrite blocks_S. destruct (end_block_wait s1 r Hi1 G1 ltac:(lia) K1) as (K' & G' & _ & Hi' & Hg').
      apply IHm; try assumption. lia. }
    apply Aux; try assumption; [split; assumption | lia].
  - destruct (wait_until_due n s r Hi G (conj Px U) H0 Cn) as (Hi' & G' & (Px' & _) & H0' & Hg').
    replace (blocks (S n) s) with (end_block (blocks n s)).
    + destruct (release_at_end_block (blocks n s) (rkey r) r Hi' G' (eq_sym Hg') Px') as [Rel _]. apply Rel. exact H0'.
    + unfold blocks, run. change (repeat EndBlock (S n)) with (EndBlock :: repeat EndBlock n).
      rewrite (repeat_cons n EndBlock), fold_left_app. reflexivity.
Qed.

Lemma sget_single {V} (k0 : string) (v : V) k v' : sget [(k0, v)] k = Some v' -> k = k0.
Proof. simpl. destruct (scmp k k0) eqn:E; try discriminate. intros _. apply scmp_eq. exact E. Qed.
