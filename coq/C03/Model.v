(* C03/Model.v — exit path. The executable ledger model is Ledger/Ledger.v (shared with C01); this file holds the
   C03 property monitors: boolean statements of the property evaluated on the IMPLEMENTATION's observed raw
   stores (rebuilt from the change lists written by the harness), independent of the model's step function.
   No proofs here. *)
From Coq Require Import List String Ascii Bool ZArith Lia.
From Exo Require Import Base.Store Base.IntDec Base.Util Ledger.Ledger.
Import ListNotations.
Local Open Scope string_scope.
Local Open Scope Z_scope.

Definition case := Ledger.case.
Definition check_case := Ledger.check_case.

(* walk the observed steps; [f h before obs after]; step numbers start at 1, 0 = initial dump *)
Fixpoint mon_walk (f : Z -> dump -> obs -> dump -> bool) (h : Z) (d : dump) (l : list obs) (i : nat) : option nat :=
  match l with
  | [] => None
  | o :: r =>
      let d' := fold_left apply_chg (o_chg o) d in
      if f h d o d' then mon_walk f (match o_op o with EndBlock => h + 1 | _ => h end) d' r (S i) else Some i
  end.

Definition mon_with (init_ok : dump -> bool) (f : Z -> dump -> obs -> dump -> bool) (c : case) : option nat :=
  if init_ok (c_init c) then mon_walk f (c_height c) (c_init c) (c_steps c) 1 else Some 0%nat.

(* --- no record is lost, duplicated or overwritten: the three indexes agree with the record store at all times --- *)
Definition mon_index : case -> option nat := mon_with index_ok_d (fun _ _ _ d' => index_ok_d d').

(* --- aggregates --- *)
Definition mon_aggregates : case -> option nat := mon_with aggregates_ok_d (fun _ _ _ d' => aggregates_ok_d d').

(* --- never early, never lost: EndBlock at height h leaves every record with h < CompleteBlockNumber untouched;
       no other operation removes a record --- *)
Definition never_early_step (h : Z) (d : dump) (o : obs) (d' : dump) : bool :=
  match o_op o with
  | EndBlock =>
      forallb (fun kv => let '(rk, r) := kv in
                 if h <? ur_cn r then match sget (d_ur d') rk with Some r' => ur_eqb r r' | None => false end else true)
              (d_ur d)
  | _ => forallb (fun kv => has_key (d_ur d') (fst kv)) (d_ur d)
  end.
Definition mon_never_early : case -> option nat := mon_with (fun _ => true) never_early_step.

(* --- release: at EndBlock h every properly indexed record with CompleteBlockNumber = h is, if no hold remains,
       deleted and its staker credited with exactly ActualCompletedAmount (pending figures reduced by Amount), and
       otherwise re-queued for h+1; nothing else changes --- *)
Definition with_cn (r : urec) (cn : Z) : urec :=
  mkUR (ur_staker r) (ur_asset r) (ur_op r) (ur_tx r) (ur_bn r) cn (ur_nonce r) (ur_amt r) (ur_act r).

Definition sum_rel (rel : list (string * urec)) (key : urec -> string) (k : string) (f : urec -> Z) : Z :=
  zsum (map (fun kv => if String.eqb (key (snd kv)) k then f (snd kv) else 0) rel).

Definition release_step (h : Z) (d : dump) (o : obs) (d' : dump) : bool :=
  match o_op o with
  | EndBlock =>
      let due := filter (fun kv => let '(rk, r) := kv in
                           (ur_cn r =? h) && idx_points (d_pidx d) (pkey r) rk && String.eqb rk (rkey r)) (d_ur d) in
      let rel := filter (fun kv => holdc d (fst kv) =? 0) due in
      let req := filter (fun kv => 0 <? holdc d (fst kv)) due in
      let ksa r := sa_key (ur_staker r) (ur_asset r) in
      let koa r := oa_key (ur_op r) (ur_asset r) in
      let kdg r := dg_key (ur_staker r) (ur_asset r) (ur_op r) in
      forallb (fun kv => negb (has_key (d_ur d') (fst kv))) rel &&
      forallb (fun kv => match sget (d_ur d') (fst kv) with
                         | Some r' => ur_eqb r' (with_cn (snd kv) (h + 1)) | None => false end) req &&
      store_eqb sa_eqb (d_sa d')
        (map (fun kv => (fst kv, mkSA (sa_total (snd kv)) (sa_wd (snd kv) + sum_rel rel ksa (fst kv) ur_act)
                                      (sa_pend (snd kv) - sum_rel rel ksa (fst kv) ur_amt))) (d_sa d)) &&
      store_eqb oa_eqb (d_oa d')
        (map (fun kv => (fst kv, mkOA (oa_amt (snd kv)) (oa_pend (snd kv) - sum_rel rel koa (fst kv) ur_amt)
                                      (oa_tsh (snd kv)) (oa_osh (snd kv)))) (d_oa d)) &&
      store_eqb dg_eqb (d_dg d')
        (map (fun kv => (fst kv, mkDG (dg_sh (snd kv)) (dg_wait (snd kv) - sum_rel rel kdg (fst kv) ur_amt))) (d_dg d)) &&
      store_eqb Z.eqb (d_tot d') (d_tot d) && store_eqb Z.eqb (d_hold d') (d_hold d) &&
      (* native token: each released record is paid, exactly its ActualCompletedAmount, from the escrow account to its staker's bank account *)
      (let paid k := zsum (map (fun kv => if is_native (ur_asset (snd kv)) && String.eqb (ur_staker (snd kv)) k then ur_act (snd kv) else 0) rel) in
       let out := zsum (map (fun kv => if is_native (ur_asset (snd kv)) then ur_act (snd kv) else 0) rel) in
       store_eqb Z.eqb (d_bank d')
         (map (fun kv => (fst kv, snd kv + paid (fst kv) - (if String.eqb (fst kv) pool_key then out else 0))) (d_bank d))) &&
      store_eqb (list_eqb String.eqb) (d_sl d') (d_sl d) &&
      (* every other record stays, and no record appears *)
      forallb (fun kv => existsb (fun x => String.eqb (fst x) (fst kv)) rel || has_key (d_ur d') (fst kv)) (d_ur d) &&
      forallb (fun kv => has_key (d_ur d) (fst kv)) (d_ur d')
  | _ => true
  end.
Definition mon_release : case -> option nat := mon_with (fun _ => true) release_step.

(* --- release in the REAL block (suite fullapp: app.EndBlocker in the application's configured module order, holds placed and
       released by the real dogfood module): a properly indexed record whose completion height is the height of the block
       and whose hold count is 0 AT THE END of the block must be gone at the end of the block, its staker credited with exactly
       ActualCompletedAmount and the three pending figures lowered by Amount; a due record that stays is the same record
       re-queued for the next height; records that are not due, staking totals and staker lists do not change --- *)
Definition release_app_step (h : Z) (d : dump) (o : obs) (d' : dump) : bool :=
  match o_op o with
  | EndBlock =>
      let due := filter (fun kv => let '(rk, r) := kv in
                           (ur_cn r =? h) && idx_points (d_pidx d) (pkey r) rk && String.eqb rk (rkey r)) (d_ur d) in
      let rel := filter (fun kv => negb (has_key (d_ur d') (fst kv))) due in
      let is_due k := existsb (fun x => String.eqb (fst x) k) due in
      let ksa r := sa_key (ur_staker r) (ur_asset r) in
      let koa r := oa_key (ur_op r) (ur_asset r) in
      let kdg r := dg_key (ur_staker r) (ur_asset r) (ur_op r) in
      forallb (fun kv => if holdc d' (fst kv) =? 0 then negb (has_key (d_ur d') (fst kv)) else true) due &&
      forallb (fun kv => match sget (d_ur d') (fst kv) with
                         | Some r' => ur_eqb r' (with_cn (snd kv) (h + 1)) | None => true end) due &&
      forallb (fun kv => holdc d' (fst kv) =? 0) rel &&
      store_eqb sa_eqb (d_sa d')
        (map (fun kv => (fst kv, mkSA (sa_total (snd kv)) (sa_wd (snd kv) + sum_rel rel ksa (fst kv) ur_act)
                                      (sa_pend (snd kv) - sum_rel rel ksa (fst kv) ur_amt))) (d_sa d)) &&
      store_eqb oa_eqb (d_oa d')
        (map (fun kv => (fst kv, mkOA (oa_amt (snd kv)) (oa_pend (snd kv) - sum_rel rel koa (fst kv) ur_amt)
                                      (oa_tsh (snd kv)) (oa_osh (snd kv)))) (d_oa d)) &&
      store_eqb dg_eqb (d_dg d')
        (map (fun kv => (fst kv, mkDG (dg_sh (snd kv)) (dg_wait (snd kv) - sum_rel rel kdg (fst kv) ur_amt))) (d_dg d)) &&
      store_eqb Z.eqb (d_tot d') (d_tot d) && store_eqb (list_eqb String.eqb) (d_sl d') (d_sl d) &&
      forallb (fun kv => is_due (fst kv) ||
                         match sget (d_ur d') (fst kv) with Some r' => ur_eqb r' (snd kv) | None => false end) (d_ur d) &&
      forallb (fun kv => has_key (d_ur d) (fst kv)) (d_ur d')
  | _ => true
  end.
Definition mon_release_app : case -> option nat := mon_with (fun _ => true) release_app_step.

(* --- slashing applied while pending is recorded: when a native-restaking balance decrease is booked against the staker
       (the amount the implementation debits from the staker's TotalDepositAmount, reported by the harness as GNstM), exactly
       that much disappears from what the staker can still get: withdrawable balance, ActualCompletedAmount of the pending
       records it went through, delegated pools - so a record that absorbed part of the decrease pays out that much less --- *)
Definition pending_slash_step (h : Z) (d : dump) (o : obs) (d' : dump) : bool :=
  match o_op o, o_res o with
  | NstBalance _ a x, ROk =>
      if x <? 0 then
        let booked := zsum (map (fun e => match e with GNstM b m => if_eq b a m | _ => 0 end) (o_gev o)) in
        value_d a d - value_d a d' =? booked
      else true
  | _, _ => true
  end.
Definition mon_pending_slash : case -> option nat := mon_with (fun _ => true) pending_slash_step.

(* --- acceptance: an undelegation of 0 < x <= position (TokensFromShares of the staker's share) from a registered
       operator is accepted and creates exactly one record; a withdrawal of 0 <= x <= withdrawable is accepted --- *)
Definition position_d (d : dump) (st a op : string) : Z :=
  match sget (d_dg d) (dg_key st a op), sget (d_oa d) (oa_key op a) with
  | Some g, Some p => match tokens_from_shares (dg_sh g) (oa_tsh p) (oa_amt p) with Some t => t | None => 0 end
  | _, _ => 0
  end.

Definition accept_step (ops : list string) (h : Z) (d : dump) (o : obs) (d' : dump) : bool :=
  match o_op o with
  | Undelegate st a op x _ _ =>
      if (0 <? x) && (x <=? position_d d st a op) && mem op ops
      then res_eqb (o_res o) ROk && (Z.of_nat (List.length (d_ur d')) =? Z.of_nat (List.length (d_ur d)) + 1)
      else true
  | Withdraw st a x =>
      match sget (d_sa d) (sa_key st a) with
      | Some row => if (0 <=? x) && (x <=? sa_wd row) && has_key (d_tot d) a then res_eqb (o_res o) ROk else true
      | None => true
      end
  | _ => true
  end.
Definition mon_accept (c : case) : option nat := mon_with (fun _ => true) (accept_step (c_ops c)) c.
