(* C03/Props.v — property theorems only. *)
From Coq Require Import List String ZArith.
From Exo Require Import Base.Store Base.IntDec Ledger.Ledger Ledger.Strings Ledger.IndexInv Ledger.AggInv Ledger.NonNeg Ledger.SidxInv C03.Model C03.Proofs C03.Proofs_credit C03.Proofs_accept C03.Proofs_first.
Import ListNotations.
Local Open Scope string_scope.
Local Open Scope Z_scope.

(* The "/"-terminated prefix used by GetPendingUndelegationRecKeys at height h matches the pending-index key of a
   record completing at h' (any nonce) iff h = h' : for all heights. *)
Theorem C03_pending_scan_exact : forall h h' n, 0 <= h -> 0 <= h' ->
  (is_prefix (hexZ h ++ "/") (pkey_of h' n) = true <-> h = h').
Proof. exact pending_scan_exact. Qed.
Print Assumptions C03_pending_scan_exact.

(* ... and without the delimiter it is not: this is the early-release defect that fix F1 removed. *)
Theorem C03_scan_without_delimiter_refuted :
  exists h h' n, h < h' /\ is_prefix (hexZ h) (pkey_of h' n) = true.
Proof. exact scan_without_delimiter_matches_early. Qed.
Print Assumptions C03_scan_without_delimiter_refuted.

(* Along EVERY history of well-formed operations (incl. native-token delegation and UpdateNSTBalance) with fresh record keys,
   from any state satisfying the index
   invariant (e.g. the empty ledger), every pending-index entry points to a live record with that completion height
   and nonce, and every record is stored under its own key. *)
Theorem C03_index_invariant : forall ops s0, idx_inv s0 -> hist_ok s0 ops = true -> idx_inv (run ops s0).
Proof. exact run_idx. Qed.
Print Assumptions C03_index_invariant.

(* The staker index: along every such history every staker-index entry (staker/asset/hex(nonce)) points to a live record whose
   own staker, asset and nonce are that key - also across native-restaking balance adjustments, whose record walk goes
   through this index. (The converse, "every record has its entry", is exactly what the staker-index collision finding
   breaks; it is not claimed.) The empty ledger satisfies the hypothesis ([empty_sidx]). *)
Theorem C03_staker_index_invariant : forall ops s0, idx_inv s0 -> sidx_inv s0 -> hist_ok s0 ops = true -> sidx_inv (run ops s0).
Proof. exact run_sidx. Qed.
Print Assumptions C03_staker_index_invariant.

(* Never early: after every such history, the EndBlock of the current height leaves every record whose completion
   height lies in the future exactly as it is (same key, same amounts). *)
Theorem C03_never_early : forall ops s0, idx_inv s0 -> hist_ok s0 ops = true ->
  let s := run ops s0 in
  forall k r, sget (ur s) k = Some r -> height s < ur_cn r -> sget (ur (end_block s)) k = Some r.
Proof. exact never_early_all. Qed.
Print Assumptions C03_never_early.

(* Never lost by anything but EndBlock: every other operation keeps every record (key, completion height, amount,
   staker, asset; a slash may only lower the amount still owed). *)
Theorem C03_only_endblock_removes : forall s o, idx_inv s -> wf_op o = true -> fresh_op s o = true -> o <> EndBlock ->
  keeps_records s (fst (step s o)).
Proof. exact step_keeps. Qed.
Print Assumptions C03_only_endblock_removes.

(* The state invariants (index invariant, aggregates + sorted row stores, non-negativity, and "no native-token record":
   the release theorems below are about the assets that have staker rows; a completed native-token undelegation is paid
   from the bank escrow, C01_escrow) hold in every state reachable by well-formed operations with fresh record keys that
   do not undelegate the native token; the empty ledger satisfies them. *)
Theorem C03_reachable_invariants : forall ops s0, inv_all s0 -> hist_ok s0 ops = true -> forallb lst_op ops = true ->
  inv_all (run ops s0).
Proof. exact run_inv_all. Qed.
Print Assumptions C03_reachable_invariants.

(* Aggregates: in every reachable state each staker row's, operator pool's and delegation row's pending figure equals
   the sum of the amounts of the live records that name it (native-token records count towards the operator pool and
   the delegation row only: the native token has no staker rows). Prop form for every key, and the boolean the monitor
   evaluates on the implementation's stores; native-token histories included. *)
Theorem C03_aggregates : forall ops s0, idx_inv s0 -> J s0 -> hist_ok s0 ops = true ->
  agg_inv (run ops s0) /\ aggregates_rows_d (dump_of (run ops s0)) = true.
Proof. exact aggregates_all. Qed.
Print Assumptions C03_aggregates.

(* Release, exactness: processing one due, unheld record in a state satisfying the invariants deletes it from all three
   indexes, credits its staker's withdrawable balance with exactly ActualCompletedAmount, lowers the three pending
   figures by exactly Amount, and changes nothing else (staking totals, staker lists, hold counts, ghost log, every
   other record). *)
Theorem C03_release_exact : forall s r, inv_all s -> sget (ur s) (rkey r) = Some r -> hold_count s (rkey r) = 0 ->
  released_effect s (process s r) r.
Proof. exact process_release. Qed.
Print Assumptions C03_release_exact.

(* Re-queue: a due record that is still held is moved to height+1 unchanged otherwise; nobody is credited. *)
Theorem C03_requeue_exact : forall s r, idx_inv s -> sget (ur s) (rkey r) = Some r -> 0 < hold_count s (rkey r) ->
  sget (ur (process s r)) (rkey r) = Some (with_cn r (height s + 1)) /\
  sa (process s r) = sa s /\ oa (process s r) = oa s /\ dg (process s r) = dg s /\ tot (process s r) = tot s /\
  hold (process s r) = hold s /\ glog (process s r) = glog s /\
  pidx (process s r) = sset (sdel (pidx s) (pkey r)) (pkey_of (height s + 1) (ur_nonce r)) (rkey r).
Proof. exact process_requeue. Qed.
Print Assumptions C03_requeue_exact.

(* Release, timing: in every state satisfying the invariants, the EndBlock of height h releases every record with
   completion height h whose pending-index entry points to it and on which no hold remains, and re-queues it for h+1
   when a hold remains (so, with never_early, a properly indexed record leaves exactly at the first block end at or
   after its completion height at which its hold count is zero). *)
Theorem C03_release_at_end_block : forall s rk r, inv_all s -> sget (ur s) rk = Some r -> ur_cn r = height s ->
  sget (pidx s) (pkey r) = Some rk -> outcome s r (sget (ur (end_block s)) rk).
Proof. exact release_at_end_block. Qed.
Print Assumptions C03_release_at_end_block.

(* Release, exactness of a whole EndBlock: for every staker row k, withdrawable(k) + (ActualCompletedAmount of the records
   of k that are due at this height, unheld and still stored) is the same before and after the EndBlock, and likewise
   pending(k) - (their Amount). With C03_release_at_end_block (the properly indexed ones are gone afterwards) this says
   the row is credited with exactly the recorded amounts, less slashing, of the records released - and nothing else. *)
Theorem C03_end_block_credit : forall s k, inv_all s ->
  phi_wd (height s) (hold s) k (end_block s) = phi_wd (height s) (hold s) k s /\
  phi_pd (height s) (hold s) k (end_block s) = phi_pd (height s) (hold s) k s.
Proof. exact end_block_credit. Qed.
Print Assumptions C03_end_block_credit.

(* Regression witness for the repaired acceptance defect (fix 56b99a6): in the deep-slash state the staker's reported position
   is 56; the request to undelegate 56 is accepted and records 56; 57 is rejected. *)
Theorem C03_accept_deep_slash_witness :
  let s := run accept_ops accept_s0 in
  hist_ok accept_s0 accept_ops = true /\
  position_d (dump_of s) "s2" "a0" "o2" = 56 /\
  snd (step s (Undelegate "s2" "a0" "o2" 56 9 "t9")) = ROk /\
  option_map ur_amt (sget (ur (fst (step s (Undelegate "s2" "a0" "o2" 56 9 "t9")))) "o2/0x4/0x9/t9") = Some 56 /\
  snd (step s (Undelegate "s2" "a0" "o2" 57 9 "t9")) = RErr /\
  option_map dg_sh (sget (dg s) "s2/a0/o2") = Some 470042106230190932613 /\
  option_map oa_tsh (sget (oa s) "o2/a0") = Some 548665042106230190932613 /\
  option_map oa_amt (sget (oa s) "o2/a0") = Some 65367.
Proof. exact accept_witness. Qed.
Print Assumptions C03_accept_deep_slash_witness.

(* ... and the check as it was BEFORE the repair ([share_check false]) refused exactly that request on exactly that pool:
   position 56, largest accepted amount 55. *)
Theorem C03_accept_prerepair_refuted :
  let dsh := 470042106230190932613 in let tsh := 548665042106230190932613 in let T := 65367 in
  tokens_from_shares dsh tsh T = Some 56 /\ xmax dsh tsh T = 55 /\
  share_check false dsh tsh T 56 = false /\ share_check false dsh tsh T 55 = true /\
  share_check true dsh tsh T 56 = true /\ share_check true dsh tsh T 57 = false.
Proof. exact prerepair_witness. Qed.
Print Assumptions C03_accept_prerepair_refuted.

(* Released at the first eligible block end, not before, exactly once: an unheld record that is stored under its key,
   listed in the pending index and whose nonce no other live record uses (so the index-collision defect cannot hit it)
   is still there, unchanged, after each of the block ends before its completion height (heights h .. c-1, n = c - h of
   them, i.e. after m <= n block ends) and is gone after the block end of height c. (Once gone nothing re-creates it:
   C03_only_endblock_removes and the freshness of new keys; what its staker received is C03_release_exact /
   C03_end_block_credit.) *)
Theorem C03_first_eligible_block : forall n s r, inv_all s -> sget (ur s) (rkey r) = Some r ->
  sget (pidx s) (pkey r) = Some (rkey r) -> uniq_nonce s r -> hold_count s (rkey r) = 0 ->
  ur_cn r = height s + Z.of_nat n ->
  (forall m, (m <= n)%nat -> sget (ur (blocks m s)) (rkey r) = Some r) /\
  sget (ur (blocks (S n) s)) (rkey r) = None.
Proof. exact first_eligible_block. Qed.
Print Assumptions C03_first_eligible_block.

(* The full acceptance statement (kept visible; not proved: beyond the share check it needs C02's share-sum and staker-list
   invariants; its share-check part is C03_accept_within_position). *)
Definition C03_accept_full : Prop := forall s st a op x n tx,
  inv_all s -> mem op (operators s) = true -> wf_op (Undelegate st a op x n tx) = true ->
  fresh_op s (Undelegate st a op x n tx) = true -> 0 < x -> x <= position_d (dump_of s) st a op ->
  snd (step s (Undelegate st a op x n tx)) = ROk.

(* What does hold, over the whole numeric domain: as long as the pool has fewer than two shares per token
   (totalShare < 2 * 10^18 * totalAmount, true until slashing has removed more than half of a pool), the share check of
   ValidateUndelegationAmount - the step that rejects in the refutation - accepts every amount within the position
   that TokensFromShares reports. *)
Theorem C03_accept_partial : forall dsh tsh T x t,
  0 < T -> 0 < tsh -> 0 <= dsh -> dsh <= tsh -> tsh < 2 * P * T -> 0 < x ->
  tokens_from_shares dsh tsh T = Some t -> x <= t ->
  exists sh0, shares_from_tokens tsh x T = Some sh0 /\ sh0 <= dsh.
Proof. exact share_check_ok. Qed.
Print Assumptions C03_accept_partial.

(* Exact characterisation of the share check of ValidateUndelegationAmount, for every pool and amount: on the tree before
   fix 56b99a6 ([share_check false]) a request of x was let through iff x <= xmax = floor(((share+1)*totalAmount - 1) / totalShare); with the
   whole-position repair iff x <= max(xmax, reported position). *)
Theorem C03_accept_exact : forall dsh tsh T x pos, 0 < T -> 0 < tsh -> 0 <= dsh -> 0 < x -> tokens_from_shares dsh tsh T = Some pos ->
  (share_check false dsh tsh T x = true <-> x <= xmax dsh tsh T) /\
  (share_check true dsh tsh T x = true <-> x <= Z.max (xmax dsh tsh T) pos).
Proof. exact share_check_exact. Qed.
Print Assumptions C03_accept_exact.

(* Hence "every amount within the reported position passes": always with the repair; without it iff position <= xmax. *)
Theorem C03_accept_within_position : forall dsh tsh T pos, 0 < T -> 0 < tsh -> 0 <= dsh -> tokens_from_shares dsh tsh T = Some pos ->
  (forall x, 0 < x -> x <= pos -> share_check true dsh tsh T x = true) /\
  ((forall x, 0 < x -> x <= pos -> share_check false dsh tsh T x = true) <-> (pos <= 0 \/ pos <= xmax dsh tsh T)).
Proof. exact within_position. Qed.
Print Assumptions C03_accept_within_position.

(* The check is the model's real decision: when it fails UndelegateFrom is rejected. *)
Theorem C03_accept_check_necessary : forall s st a op x n tx d o,
  sget (dg s) (dg_key st a op) = Some d -> sget (oa s) (oa_key op a) = Some o ->
  share_check true (dg_sh d) (oa_tsh o) (oa_amt o) x = false -> undelegate s st a op x n tx = None.
Proof. exact undelegate_needs_check. Qed.
Print Assumptions C03_accept_check_necessary.


(* The three indexes are NOT mutually inverse: two accepted undelegations with the same nonce in one block share one
   pending-index key; one record is never released (known finding C03-pending-index-collision). *)
Theorem C03_index_bijection_refuted :
  let s := run collide_ops collide_s0 in
  let s30 := run (repeat EndBlock 30) s in
  hist_ok collide_s0 (collide_ops ++ repeat EndBlock 30) = true /\
  index_ok_d (dump_of s) = false /\
  List.length (ur s) = 2%nat /\ List.length (pidx s) = 1%nat /\
  map fst (ur s30) = ["o1/0x1/0x7/t1"] /\ List.length (pidx s30) = 0%nat /\
  option_map sa_wd (sget (sa s30) "s1/a1") = Some 500 /\ option_map sa_pend (sget (sa s30) "s1/a1") = Some 100 /\
  option_map sa_wd (sget (sa s30) "s2/a1") = Some 700.
Proof. exact index_bijection_witness. Qed.
Print Assumptions C03_index_bijection_refuted.

(* non-vacuity of the hypotheses *)
Example ex_idx_inv : idx_inv collide_s0.
Proof. unfold idx_inv, collide_s0, empty_st; simpl. repeat split; try apply sorted_nil; try discriminate; intros k r G; discriminate. Qed.
Example ex_inv_all : inv_all collide_s0.
Proof. apply empty_inv_all. discriminate. Qed.

(* the hypotheses of C03_first_eligible_block are satisfiable: a freshly accepted undelegation from a plain operator *)
Definition ex_first_s : st :=
  run [Deposit "s1" "a1" 100; Delegate "s1" "a1" "o1" 60; Undelegate "s1" "a1" "o1" 20 7 "t1"] (empty_st 5 ["o1"] [] ["a1"]).
Definition ex_first_r : urec := mkUR "s1" "a1" "o1" "t1" 5 15 7 20 20.
Example ex_first_hyps :
  inv_all ex_first_s /\ sget (ur ex_first_s) (rkey ex_first_r) = Some ex_first_r /\
  sget (pidx ex_first_s) (pkey ex_first_r) = Some (rkey ex_first_r) /\ hold_count ex_first_s (rkey ex_first_r) = 0 /\
  ur_cn ex_first_r = height ex_first_s + Z.of_nat 10 /\ uniq_nonce ex_first_s ex_first_r.
Proof.
  split; [apply run_inv_all; [apply empty_inv_all; discriminate | vm_compute; reflexivity | vm_compute; reflexivity]|].
  repeat split; try (vm_compute; reflexivity).
  intros k r' G _.
  assert (ur ex_first_s = [(rkey ex_first_r, ex_first_r)]) as E by (vm_compute; reflexivity).
  rewrite E in G. exact (sget_single _ _ _ _ G).
Qed.
