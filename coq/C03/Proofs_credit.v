(* C03/Proofs_credit.v — the credit made by a whole EndBlock: per staker row, withdrawable + (ActualCompletedAmount of the
   due, unheld records of that row still stored) is the same before and after; likewise pending - (their Amount). *)
From Coq Require Import List String Ascii Bool ZArith Lia.
From Exo Require Import Base.Store Base.IntDec Base.Util Ledger.Ledger Ledger.Strings Ledger.LedgerLemmas Ledger.IndexInv
  Ledger.AggInv Ledger.NonNeg C03.Model C03.Proofs.
Import ListNotations.
Local Open Scope string_scope.
Local Open Scope Z_scope.

Definition hold_of (H : store Z) (rk : string) : Z := match sget H rk with Some n => n | None => 0 end.

(* sum of f over the records of row k that are due at h0 and unheld according to H *)
Definition due_sum (f : urec -> Z) (h0 : Z) (H : store Z) (k : string) (u : store urec) : Z :=
  ssumk (fun rk r => if (ur_cn r =? h0) && (hold_of H rk =? 0) && String.eqb (ksa r) k then f r else 0) u.

Definition WD (s : st) (k : string) : Z := sa_wd (sa_old s k).

Definition phi_wd (h0 : Z) (H : store Z) (k : string) (s : st) : Z := WD s k + due_sum ur_act h0 H k (ur s).
Definition phi_pd (h0 : Z) (H : store Z) (k : string) (s : st) : Z := RS s k - due_sum ur_amt h0 H k (ur s).

Lemma due_sum_sdel f h0 H k u rk r : sget u rk = Some r ->
  due_sum f h0 H k (sdel u rk) = due_sum f h0 H k u -
    (if (ur_cn r =? h0) && (hold_of H rk =? 0) && String.eqb (ksa r) k then f r else 0).
Proof. intro G. unfold due_sum. rewrite ssumk_sdel. unfold old_of. rewrite G. lia. Qed.

Lemma due_sum_sset_fresh f h0 H k u rk r : sget u rk = None ->
  due_sum f h0 H k (sset u rk r) = due_sum f h0 H k u +
    (if (ur_cn r =? h0) && (hold_of H rk =? 0) && String.eqb (ksa r) k then f r else 0).
Proof. intro G. unfold due_sum. rewrite ssumk_sset. unfold old_of. rewrite G. lia. Qed.

Lemma process_phi h0 k s r : idx_inv s -> J s -> nn s -> height s = h0 -> sget (ur s) (rkey r) = Some r -> ur_cn r = h0 ->
  is_native (ur_asset r) = false ->
  phi_wd h0 (hold s) k (process s r) = phi_wd h0 (hold s) k s /\
  phi_pd h0 (hold s) k (process s r) = phi_pd h0 (hold s) k s.
Proof.
  intros I [S A] N Hh G Cn Nat. pose proof I as (Su & _). pose proof N as (_ & _ & _ & _ & _ & Nh). unfold phi_wd, phi_pd, WD.
  unfold process. destruct (0 <? hold_count s (rkey r)) eqn:Eh.
  - (* re-queue *)
    apply Z.ltb_lt in Eh. unfold set_record. simpl.
    replace (height s + 1 <? height s) with false by (symmetry; apply Z.ltb_ge; lia).
    change (rkey (mkUR (ur_staker r) (ur_asset r) (ur_op r) (ur_tx r) (ur_bn r) (height s + 1) (ur_nonce r) (ur_amt r) (ur_act r))) with (rkey r).
    rewrite (sget_sdel_same _ _ Su). simpl. unfold RS. simpl.
    rewrite !due_sum_sset_fresh by (apply sget_sdel_same; assumption).
    rewrite !(due_sum_sdel _ _ _ _ _ _ r G). simpl.
    assert (hold_of (hold s) (rkey r) =? 0 = false) as H0 by (apply Z.eqb_neq; unfold hold_of; unfold hold_count in Eh; lia).
    rewrite H0, !andb_false_r. simpl.
    replace (height s + 1 =? h0) with false by (symmetry; apply Z.eqb_neq; lia). simpl. split; lia.
  - (* release (or a failed update: nothing changes) *)
    apply Z.ltb_ge in Eh.
    destruct (upd_dg s _ 0 (- ur_amt r)) as [[s1 z]|] eqn:E1; [|split; reflexivity].
    destruct (pay_staker s1 r) as [s2|] eqn:E2; [|split; reflexivity].
    apply pay_spec in E2. destruct E2 as [(Nt & _)|(_ & E2)]; [congruence|].
    destruct (upd_oa s2 _ 0 (- ur_amt r) 0 0) as [s3|] eqn:E3; [|split; reflexivity].
    pose proof (upd_dg_srt _ _ _ _ _ _ S E1) as S1. pose proof (upd_sa_srt _ _ _ _ _ _ S1 E2) as S2.
    destruct (upd_dg_reads _ _ _ _ _ _ S E1) as (_ & a1 & b1 & c1 & h1 & _).
    destruct (upd_sa_reads _ _ _ _ _ _ S1 E2) as (R2 & a2 & b2 & c2 & h2 & _).
    destruct (upd_oa_reads _ _ _ _ _ _ _ S2 E3) as (_ & a3 & b3 & c3 & h3 & _).
    (* the withdrawable reading after upd_sa *)
    assert (forall k0, sa_wd (sa_old s2 k0) = sa_wd (sa_old s1 k0) + if_eq (sa_key (ur_staker r) (ur_asset r)) k0 (ur_act r)) as W2.
    { destruct S1 as (Ss1 & _). intro k0. apply upd_sa_spec in E2. destruct E2 as (r' & -> & _ & Hw & _). simpl.
      rewrite sa_old_sset by assumption. unfold if_eq. destruct (String.eqb _ k0) eqn:E; [|lia].
      apply String.eqb_eq in E. subst. lia. }
    unfold del_record, RS. simpl. rewrite a3. fold (RS s2 k). rewrite (R2 k), (RS_ext s1 s k a1). rewrite W2, a1.
    replace (ur s3) with (ur s) by congruence.
    rewrite !(due_sum_sdel _ _ _ _ _ _ r G). rewrite Cn, Z.eqb_refl. simpl.
    assert (hold_of (hold s) (rkey r) =? 0 = true) as H0.
    { apply Z.eqb_eq. unfold hold_of. unfold hold_count in Eh.
      destruct (sget (hold s) (rkey r)) eqn:Eg; [|reflexivity].
      pose proof (allv_sget _ _ _ _ Nh Eg) as Hn. apply Z.leb_le in Hn. lia. }
    rewrite H0. simpl. fold (ksa r). unfold if_eq, RS. destruct (String.eqb (ksa r) k); split; lia.
Qed.

Lemma process_loop_P (P : urec -> Prop) (Q : st -> Prop) :
  (forall s r, idx_inv s -> sget (ur s) (rkey r) = Some r -> P r -> Q s -> Q (process s r)) ->
  forall recs s, idx_inv s -> Q s -> (forall r, In r recs -> sget (ur s) (rkey r) = Some r) -> NoDup (map rkey recs) ->
  (forall r, In r recs -> P r) -> Q (fold_left process recs s).
Proof.
  intros HQ recs. induction recs as [|r rest IH]; intros s I q G ND HP; simpl; [assumption|].
  simpl in ND. inversion ND as [|? ? Nin ND']; subst.
  pose proof (G r (or_introl eq_refl)) as G0.
  destruct (process_idx s r I G0) as (I1 & O1 & H1).
  apply IH; try assumption.
  - apply HQ; auto. apply HP. left; reflexivity.
  - intros r0 In0. rewrite O1; [apply G; right; assumption|].
    intro Eq. apply Nin. rewrite <- Eq. apply in_map. assumption.
  - intros r0 In0. apply HP. right; assumption.
Qed.

Definition creditQ (s0 : st) (k : string) (s : st) : Prop :=
  J s /\ nn s /\ lst_only s /\ hold s = hold s0 /\ height s = height s0 /\
  phi_wd (height s0) (hold s0) k s = phi_wd (height s0) (hold s0) k s0 /\
  phi_pd (height s0) (hold s0) k s = phi_pd (height s0) (hold s0) k s0.

Lemma end_block_credit s k : inv_all s ->
  phi_wd (height s) (hold s) k (end_block s) = phi_wd (height s) (hold s) k s /\
  phi_pd (height s) (hold s) k (end_block s) = phi_pd (height s) (hold s) k s.
Proof.
  intros (I & Hj & N & Lst). pose proof I as (Su & Sp & K & Ip & W & Hh). unfold end_block.
  destruct (fetch (ur s) (due_keys (height s) (pidx s))) as [recs|] eqn:F; [|split; reflexivity].
  destruct (fetch_keys _ _ _ K F) as [MK Gs].
  assert (NoDup (map rkey recs)) as ND by (rewrite MK; apply due_keys_nodup; assumption).
  assert (forall r, In r recs -> ur_cn r = height s) as HP.
  { intros r In0. assert (In (rkey r) (due_keys (height s) (pidx s))) as InK by (rewrite <- MK; apply in_map; assumption).
    destruct (due_keys_spec s (height s) (rkey r) I Hh InK) as (r2 & G2 & Cn). rewrite (Gs r In0) in G2. inversion G2; subst. exact Cn. }
  assert (creditQ s k (fold_left process recs s)) as (_ & _ & _ & _ & _ & A & B).
  { apply (process_loop_P (fun r => ur_cn r = height s) (creditQ s k)); try assumption.
    - intros s1 r I1 G1 Cn (J1 & N1 & L1 & H1 & Hg1 & A1 & B1).
      destruct (process_J s1 r I1 J1 G1) as [J' H']. destruct (process_idx s1 r I1 G1) as (_ & _ & Hg').
      assert (is_native (ur_asset r) = false) as Nat by (apply negb_true_iff; exact (allv_sget _ _ _ _ L1 G1)).
      destruct (process_phi (height s) k s1 r I1 J1 N1 Hg1 G1 Cn Nat) as [P1 P2]. rewrite H1 in P1, P2.
      split; [exact J'|]. split; [apply process_nn; assumption|]. split; [apply process_lst; assumption|].
      split; [congruence|]. split; [congruence|]. split; congruence.
    - split; [exact Hj|]. split; [exact N|]. split; [exact Lst|]. repeat split; reflexivity. }
  split; [exact A | exact B].
Qed.
