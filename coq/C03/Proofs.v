(* C03/Proofs.v — lemmas for the exit-path theorems. *)
From Coq Require Import List String Ascii Bool ZArith Lia.
From Exo Require Import Base.Store Base.IntDec Base.Util Ledger.Ledger Ledger.Strings Ledger.LedgerLemmas Ledger.IndexInv C03.Model.
Import ListNotations.
Local Open Scope string_scope.
Local Open Scope Z_scope.

(* what the scan would match WITHOUT the delimiter (the defect repaired by fix F1): height 1 matches a record due at 19 *)
Lemma scan_without_delimiter_matches_early :
  exists h h' n, h < h' /\ is_prefix (hexZ h) (pkey_of h' n) = true.
Proof. exists 1, 19, 5. split; [lia|]. vm_compute. reflexivity. Qed.

(* the index invariant holds along every well-formed history with fresh record keys *)
Lemma run_idx ops : forall s, idx_inv s -> hist_ok s ops = true -> idx_inv (run ops s).
Proof.
  induction ops as [|o r IH]; intros s I H; simpl; [assumption|].
  simpl in H. rewrite !andb_true_iff in H. destruct H as [[Wf Fr] Hr].
  apply IH; [apply step_idx; assumption | assumption].
Qed.

(* never early (and never late-touched): EndBlock at height h leaves every record whose completion height is not h
   exactly as it is *)
Lemma end_block_untouched s k r : idx_inv s -> sget (ur s) k = Some r -> ur_cn r <> height s ->
  sget (ur (end_block s)) k = Some r.
Proof.
  intros I G N.
  destruct (end_block_idx (fun _ => True) (fun _ _ _ _ _ => Logic.I) (fun _ _ _ => Logic.I) s I Logic.I) as (_ & _ & U).
  apply U; assumption.
Qed.

Lemma never_early_all : forall ops s0, idx_inv s0 -> hist_ok s0 ops = true ->
  let s := run ops s0 in
  forall k r, sget (ur s) k = Some r -> height s < ur_cn r -> sget (ur (end_block s)) k = Some r.
Proof.
  intros ops s0 I H s k r G Lt. apply end_block_untouched; [apply run_idx; assumption | assumption | lia].
Qed.

(* only EndBlock removes records: every other operation keeps every record key (a slash may reduce the amount
   still owed, nothing else) *)
Definition keeps_records (s s' : st) : Prop :=
  forall k r, sget (ur s) k = Some r -> exists r', sget (ur s') k = Some r' /\
     rkey r' = rkey r /\ ur_cn r' = ur_cn r /\ ur_amt r' = ur_amt r /\ ur_staker r' = ur_staker r /\ ur_asset r' = ur_asset r.

Lemma keeps_refl s s' : ur s' = ur s -> keeps_records s s'.
Proof. intros E k r G. exists r. rewrite E. auto 10. Qed.

Lemma set_record_keeps s r s' : idx_inv s -> sget (ur s) (rkey r) = None -> set_record s r = Some s' -> keeps_records s s'.
Proof.
  intros (Su & _) Fr H k r0 G. exists r0. split; [|auto 10].
  rewrite (set_record_other s r s' k Su H); [assumption|]. intro Eq. subst k. congruence.
Qed.

Lemma step_keeps s o : idx_inv s -> wf_op o = true -> fresh_op s o = true -> o <> EndBlock ->
  keeps_records s (fst (step s o)).
Proof.
  intros I Wf Fr Ne. destruct o; simpl.
  - destruct (deposit s staker asset x) as [s'|] eqn:E; simpl; [|apply keeps_refl; reflexivity].
    apply deposit_frame in E. destruct E as (? & _). apply keeps_refl; assumption.
  - destruct (withdraw s staker asset x) as [s'|] eqn:E; simpl; [|apply keeps_refl; reflexivity].
    apply withdraw_frame in E. destruct E as (? & _). apply keeps_refl; assumption.
  - destruct (delegate s staker asset operator x) as [s'|] eqn:E; simpl; [|apply keeps_refl; reflexivity].
    apply delegate_frame in E. destruct E as (? & _). apply keeps_refl; assumption.
  - destruct (undelegate s staker asset operator x nonce tx) as [[s' r]|] eqn:E; simpl; [|apply keeps_refl; reflexivity].
    apply undelegate_shape in E. destruct E as (s4 & s5 & tok & U4 & P4 & H4 & -> & E5 & U' & P' & H').
    simpl in Fr. apply has_key_false in Fr.
    assert (idx_inv s4) as I4 by (eapply (idx_inv_ext s s4); eauto).
    intros k r0 G. rewrite <- U4 in G.
    assert (sget (ur s4) (rkey (mkUR staker asset operator tx (height s) (height s + unbonding) nonce tok tok)) = None) as Fr4
      by (rewrite U4; exact Fr).
    destruct (set_record_keeps s4 _ s5 I4 Fr4 E5 k r0 G) as (r' & G' & Rest).
    exists r'. rewrite U'. auto.
  - simpl in Wf, Fr. apply has_key_false in Fr. unfold genesis_load.
    destruct ((ur_amt r <=? 0) || negb (ur_act r =? ur_amt r)); [apply keeps_refl; reflexivity|].
    destruct (deposit s (ur_staker r) (ur_asset r) (ur_amt r)) as [s1|] eqn:E0; [|apply keeps_refl; reflexivity].
    destruct (upd_sa s1 _ 0 (- ur_amt r) (ur_amt r)) as [s2|] eqn:E1; [|apply keeps_refl; reflexivity].
    destruct (upd_oa s2 _ 0 (ur_amt r) 0 0) as [s3|] eqn:E2; [|apply keeps_refl; reflexivity].
    destruct (upd_dg s3 _ 0 (ur_amt r)) as [[s4 z]|] eqn:E3; [|apply keeps_refl; reflexivity].
    destruct (set_record s4 r) as [s5|] eqn:E4; [|apply keeps_refl; reflexivity]. simpl.
    apply deposit_frame in E0. apply upd_sa_frame in E1. apply upd_oa_frame in E2. apply upd_dg_frame in E3.
    destruct E0 as (? & ? & ?), E1 as (? & ? & ? & _), E2 as (? & ? & ? & _), E3 as (? & ? & ? & _).
    assert (ur s4 = ur s) as U4 by congruence.
    assert (idx_inv s4) as I4 by (eapply (idx_inv_ext s s4); [congruence|congruence|congruence|exact I]).
    intros k r0 G. rewrite <- U4 in G.
    apply (set_record_keeps s4 r s5 I4); [rewrite U4; exact Fr | exact E4 | exact G].
  - destruct prop as [p|]; simpl; [|apply keeps_refl; reflexivity].
    destruct (slash s operator eh p) as [s'|] eqn:E; simpl; [|apply keeps_refl; reflexivity].
    unfold slash in E. destruct ((p <? 0) || (p >? P)); [discriminate|].
    destruct (slash_pools operator p (oa s) (dg s) (sl s)) as [[[o' d'] l'] ev2].
    destruct (eh <=? height s).
    + pose proof (slash_records_map operator eh p (ur s)) as M.
      destruct (slash_records operator eh p (ur s)) as [u' ev1]. simpl in M. subst u'.
      inversion E; subst; clear E. intros k r G. simpl. rewrite sget_map_vals, G. simpl.
      exists (slash_rec_fun operator eh p k r). split; [reflexivity|].
      unfold slash_rec_fun. destruct (_ && _); [|auto 10].
      pose proof (slash_record_keys p r) as (A & _ & _ & _ & B & C & D & _ & F). auto 10.
    + inversion E; subst; clear E. apply keeps_refl; reflexivity.
  - pose proof (hold_inc_frame s rk) as (? & _). apply keeps_refl; assumption.
  - pose proof (hold_dec_frame s rk) as (? & _). apply keeps_refl; assumption.
  - congruence.
  - (* NstBalance: records are only rewritten with a lower ActualCompletedAmount *)
    destruct (nst_balance s staker asset x) as [s'|] eqn:E; simpl; [|apply keeps_refl; reflexivity].
    refine (proj2 (nst_balance_P (fun s0 => idx_inv s0 /\ keeps_records s s0) s staker asset x s' (conj I (keeps_refl s s eq_refl)) _ _ _ _ E)).
    + intros s1 _ U. pose proof U as F. apply upd_sa_frame in F. destruct F as (u & p & h & _).
      split; [eapply (idx_inv_ext s); eauto | apply keeps_refl; exact u].
    + intros info f s1 _ _ _ U. pose proof U as F. apply upd_sa_frame in F. destruct F as (u & p & h & _).
      split; [eapply (idx_inv_ext s); eauto | apply keeps_refl; exact u].
    + intros s0 pend rk s2 p' _ [I0 K0] E0. split; [eapply record_step_idx; eauto|].
      apply record_step_shape in E0. destruct E0 as (r & s1 & G & _ & H0). simpl in H0. destruct H0 as (U & ->).
      apply upd_sa_frame in U. destruct U as (u & _). destruct I0 as (Su0 & _).
      intros k0 r0 G0. destruct (K0 k0 r0 G0) as (r1 & G1 & A & B & C & D & F). simpl. rewrite u.
      destruct (string_dec rk k0) as [<-|Nk0].
      * rewrite sget_sset_same. rewrite G in G1. inversion G1; subst. exists (with_act r1 (ur_act r1 - (if 0 <? pend - ur_act r1 then ur_act r1 else pend))).
        split; [reflexivity|]. unfold with_act. simpl. auto 10.
      * rewrite sget_sset_other by assumption. exists r1. auto 10.
    + intros prop s0 k row s2 [I0 K0] E0. apply share_step_frame in E0. destruct E0 as (u & p & _ & h & _).
      split; [eapply (idx_inv_ext s0); eauto|]. intros k0 r0 G0. destruct (K0 k0 r0 G0) as (r1 & G1 & Rest). exists r1. rewrite u. auto.
  - apply keeps_refl; reflexivity.
Qed.

(* ---- the index-bijection defect: a witness history ---- *)
Definition collide_s0 : st := empty_st 1 ["o1"] [] ["a1"].
Definition collide_ops : list op :=
  [Deposit "s1" "a1" 1000; Deposit "s2" "a1" 1000; Delegate "s1" "a1" "o1" 500; Delegate "s2" "a1" "o1" 500;
   Undelegate "s1" "a1" "o1" 100 7 "t1"; Undelegate "s2" "a1" "o1" 200 7 "t2"].

Lemma index_bijection_witness :
  let s := run collide_ops collide_s0 in
  let s30 := run (repeat EndBlock 30) s in
  hist_ok collide_s0 (collide_ops ++ repeat EndBlock 30) = true /\
  index_ok_d (dump_of s) = false /\
  List.length (ur s) = 2%nat /\ List.length (pidx s) = 1%nat /\
  (* 30 blocks later (unbonding = 10) the first record is still pending, its staker was never paid *)
  map fst (ur s30) = ["o1/0x1/0x7/t1"] /\ List.length (pidx s30) = 0%nat /\
  option_map sa_wd (sget (sa s30) "s1/a1") = Some 500 /\ option_map sa_pend (sget (sa s30) "s1/a1") = Some 100 /\
  option_map sa_wd (sget (sa s30) "s2/a1") = Some 700.
Proof. vm_compute. repeat split; reflexivity. Qed.

(* ================= aggregates and release ================= *)
From Exo Require Import Ledger.AggInv Ledger.NonNeg.

(* The release theorems of C03 are about the assets that have staker rows. A completed native-token undelegation is paid
   from the bank escrow instead; that it can always be paid is C01's escrow theorem. [lst_only]: no native-token record. *)
Definition rec_lst (r : urec) : bool := negb (is_native (ur_asset r)).
Definition lst_only (s : st) : Prop := allv rec_lst (ur s) = true.
Definition lst_op (o : op) : bool :=
  match o with Undelegate _ a _ _ _ _ => negb (is_native a) | _ => true end.

Definition inv_all (s : st) : Prop := idx_inv s /\ J s /\ nn s /\ lst_only s.

Lemma set_record_lst s r s' : lst_only s -> rec_lst r = true -> set_record s r = Some s' -> lst_only s'.
Proof.
  unfold lst_only, set_record. intros L Hr H. destruct (ur_cn r <? height s); [discriminate|]. inversion H; subst; clear H.
  destruct (sget (ur s) (rkey r)); simpl; apply allv_sset; assumption.
Qed.

Lemma process_lst s r : lst_only s -> sget (ur s) (rkey r) = Some r -> lst_only (process s r).
Proof.
  intros L G. assert (rec_lst r = true) as Hr by (eapply allv_sget; eauto).
  unfold process. destruct (0 <? hold_count s (rkey r)).
  - set (r' := mkUR _ _ _ _ _ (height s + 1) _ _ _).
    destruct (set_record (del_record s r) r') as [s2|] eqn:E; [|assumption].
    eapply (set_record_lst (del_record s r) r'); [|exact Hr|exact E].
    unfold lst_only, del_record. simpl. apply allv_sdel; assumption.
  - destruct (upd_dg s _ 0 (- ur_amt r)) as [[s1 z]|] eqn:E1; [|assumption].
    destruct (pay_staker s1 r) as [s2|] eqn:E2; [|assumption].
    destruct (upd_oa s2 _ 0 (- ur_amt r) 0 0) as [s3|] eqn:E3; [|assumption].
    apply upd_dg_frame in E1. apply pay_frame in E2. apply upd_oa_frame in E3.
    destruct E1 as (u1 & _), E2 as (u2 & _), E3 as (u3 & _).
    unfold lst_only, del_record. simpl. rewrite u3, u2, u1. apply allv_sdel; assumption.
Qed.

Lemma step_lst s o : idx_inv s -> lst_only s -> wf_op o = true -> lst_op o = true -> lst_only (fst (step s o)).
Proof.
  intros I L Wf Lo. unfold lst_only in *. destruct o; simpl.
  - destruct (deposit s staker asset x) as [s'|] eqn:E; simpl; [|exact L]. apply deposit_frame in E. destruct E as (-> & _). exact L.
  - destruct (withdraw s staker asset x) as [s'|] eqn:E; simpl; [|exact L]. apply withdraw_frame in E. destruct E as (-> & _). exact L.
  - destruct (delegate s staker asset operator x) as [s'|] eqn:E; simpl; [|exact L]. apply delegate_frame in E. destruct E as (-> & _). exact L.
  - destruct (undelegate s staker asset operator x nonce tx) as [[s' r]|] eqn:E; simpl; [|exact L].
    apply undelegate_shape in E. destruct E as (s4 & s5 & tok & U4 & P4 & H4 & -> & E5 & U' & P' & H').
    rewrite U'. refine (set_record_lst s4 _ s5 _ _ E5); [unfold lst_only; rewrite U4; exact L | exact Lo].
  - simpl in Wf. apply andb_prop in Wf. destruct Wf as [_ Nn]. unfold genesis_load.
    destruct ((ur_amt r <=? 0) || negb (ur_act r =? ur_amt r)); [exact L|].
    destruct (deposit s (ur_staker r) (ur_asset r) (ur_amt r)) as [s1|] eqn:E0; [|exact L].
    destruct (upd_sa s1 _ 0 (- ur_amt r) (ur_amt r)) as [s2|] eqn:E1; [|exact L].
    destruct (upd_oa s2 _ 0 (ur_amt r) 0 0) as [s3|] eqn:E2; [|exact L].
    destruct (upd_dg s3 _ 0 (ur_amt r)) as [[s4 z]|] eqn:E3; [|exact L].
    destruct (set_record s4 r) as [s5|] eqn:E4; [|exact L]. simpl.
    apply deposit_frame in E0. apply upd_sa_frame in E1. apply upd_oa_frame in E2. apply upd_dg_frame in E3.
    destruct E0 as (u0 & _), E1 as (u1 & _), E2 as (u2 & _), E3 as (u3 & _).
    apply (set_record_lst s4 r s5); [unfold lst_only; rewrite u3, u2, u1, u0; exact L | exact Nn | exact E4].
  - destruct prop as [p|]; simpl; [|exact L].
    destruct (slash s operator eh p) as [s'|] eqn:E; simpl; [|exact L].
    unfold slash in E. destruct ((p <? 0) || (p >? P)); [discriminate|].
    destruct (slash_pools operator p (oa s) (dg s) (sl s)) as [[[o' d'] l'] ev2].
    destruct (eh <=? height s).
    + pose proof (slash_records_map operator eh p (ur s)) as M.
      destruct (slash_records operator eh p (ur s)) as [u' ev1]. simpl in M. subst u'.
      inversion E; subst; clear E. simpl. apply allv_map_vals; [exact L|]. intros k v Hv.
      unfold rec_lst, slash_rec_fun in *. destruct (_ && _); [|exact Hv].
      pose proof (slash_record_keys p v) as (_ & _ & _ & _ & _ & A & _). rewrite A. exact Hv.
    + inversion E; subst; clear E. exact L.
  - pose proof (hold_inc_frame s rk) as (-> & _). exact L.
  - pose proof (hold_dec_frame s rk) as (-> & _). exact L.
  - destruct (end_block_idx lst_only (fun s0 r _ G L0 => process_lst s0 r L0 G) (fun s0 h L0 => L0) s I L) as (_ & Q & _). exact Q.
  - destruct (nst_balance s staker asset x) as [s'|] eqn:E; simpl; [|exact L].
    refine (nst_balance_P (fun s0 => allv rec_lst (ur s0) = true) s staker asset x s' L _ _ _ _ E).
    + intros s1 _ U. apply upd_sa_frame in U. destruct U as (u & _). unfold log_ev. simpl. rewrite u. exact L.
    + intros info f s1 _ _ _ U. apply upd_sa_frame in U. destruct U as (u & _). unfold log_ev. simpl. rewrite u. exact L.
    + intros s0 pend rk s2 p' _ L0 E0. apply record_step_shape in E0. destruct E0 as (r & s1 & G & _ & H0). simpl in H0.
      destruct H0 as (U & ->). apply upd_sa_frame in U. destruct U as (u & _). simpl. rewrite u.
      apply allv_sset; [exact L0|]. exact (allv_sget _ _ _ _ L0 G).
    + intros prop s0 k row s2 L0 E0. apply share_step_frame in E0. destruct E0 as (u & _). rewrite u. exact L0.
  - exact L.
Qed.

Lemma run_lst ops : forall s, idx_inv s -> lst_only s -> hist_ok s ops = true -> forallb lst_op ops = true -> lst_only (run ops s).
Proof.
  induction ops as [|o r IH]; intros s I L H F; simpl; [assumption|].
  simpl in H, F. rewrite !andb_true_iff in H. destruct H as [[Wf Fr] Hr]. apply andb_prop in F. destruct F as [Lo Fr'].
  apply IH; [apply step_idx; assumption | apply step_lst; assumption | assumption | assumption].
Qed.

Lemma run_inv_all ops s : inv_all s -> hist_ok s ops = true -> forallb lst_op ops = true -> inv_all (run ops s).
Proof.
  intros (I & Hj & N & L) H F. split; [|split; [|split]].
  - apply run_idx; assumption.
  - apply run_J; assumption.
  - apply run_nn; assumption.
  - apply run_lst; assumption.
Qed.

Lemma empty_inv_all h o v assets : 0 <= h -> inv_all (empty_st h o v assets).
Proof.
  intro Hh. split; [|split; [apply empty_J|split; [|reflexivity]]].
  - unfold idx_inv, empty_st. simpl. repeat split; try apply sorted_nil; try assumption; intros k r G; discriminate.
  - unfold nn, empty_st. simpl. repeat split; try reflexivity.
    assert (forall (l : list (string * Z)) (acc : store Z), allv (fun t => 0 <=? t) acc = true ->
            forallb (fun kv => 0 <=? snd kv) l = true ->
            allv (fun t => 0 <=? t) (fold_left (fun s kv => sset s (fst kv) (snd kv)) l acc) = true) as G.
    { induction l as [|[k v0] r IH]; simpl; intros acc Ha Hl; [assumption|].
      apply andb_prop in Hl. destruct Hl as [H1 H2]. apply IH; [apply allv_sset; assumption | assumption]. }
    unfold of_list. apply G; [reflexivity|]. induction assets; simpl; auto.
Qed.

(* the aggregate invariant in the boolean form the monitor evaluates *)
Lemma agg_rows_bool s : J s -> aggregates_rows_d (dump_of s) = true.
Proof.
  intros [(Ss & So & Sd) A]. unfold aggregates_rows_d, dump_of. simpl. rewrite !andb_true_iff. repeat split.
  - apply forallb_forall. intros [k row] In0. simpl. apply (sget_in _ _ _ Ss) in In0.
    destruct (A k) as (A1 & _). unfold sa_oldS in A1. rewrite In0 in A1. apply Z.eqb_eq. exact A1.
  - apply forallb_forall. intros [k row] In0. simpl. apply (sget_in _ _ _ So) in In0.
    destruct (A k) as (_ & A2 & _). unfold oa_oldS in A2. rewrite In0 in A2. apply Z.eqb_eq. exact A2.
  - apply forallb_forall. intros [k row] In0. simpl. apply (sget_in _ _ _ Sd) in In0.
    destruct (A k) as (_ & _ & A3). unfold dg_oldS in A3. rewrite In0 in A3. apply Z.eqb_eq. exact A3.
Qed.

Lemma aggregates_all : forall ops s0, idx_inv s0 -> J s0 -> hist_ok s0 ops = true ->
  agg_inv (run ops s0) /\ aggregates_rows_d (dump_of (run ops s0)) = true.
Proof.
  intros ops s0 I0 J0 H. pose proof (run_J ops s0 I0 J0 H) as Hj. split; [apply Hj | apply agg_rows_bool; exact Hj].
Qed.

(* ---- one unheld due record is released: exact effect ---- *)
Lemma upd_val_ok v d : 0 <= v + d -> upd_val v d = Some (v + d).
Proof.
  intro H. unfold upd_val. destruct (d <? 0) eqn:E1; simpl; [|reflexivity].
  destruct (v <? - d) eqn:E2; [apply Z.ltb_lt in E2; lia | reflexivity].
Qed.

Lemma amt_le_pend (key : urec -> string) u rk r : allv ur_nn u = true -> sget u rk = Some r ->
  ur_amt r <= ssumk (fun _ x => if_eq (key x) (key r) (ur_amt x)) u.
Proof.
  intros N G.
  assert (forall k v, 0 <= (fun (_ : string) x => if allv ur_nn u then if_eq (key x) (key r) (Z.max 0 (ur_amt x)) else 0) k v) as Hg.
  { intros k v. rewrite N. unfold if_eq. destruct (String.eqb _ _); lia. }
  pose proof (ssumk_ge_elem _ u rk r Hg G) as L. rewrite N in L. unfold if_eq in L at 1. rewrite String.eqb_refl in L.
  assert (ssumk (fun _ x => if_eq (key x) (key r) (Z.max 0 (ur_amt x))) u = ssumk (fun _ x => if_eq (key x) (key r) (ur_amt x)) u) as E.
  { clear L Hg G. unfold ssumk, allv in *. induction u as [|[k v] rest IH]; simpl in *; [reflexivity|].
    apply andb_prop in N. destruct N as [N1 N2]. rewrite (IH N2). unfold ur_nn in N1. rewrite andb_true_iff, !Z.leb_le in N1.
    unfold if_eq. destruct (String.eqb _ _); lia. }
  rewrite E in L. lia.
Qed.

Lemma amt_le_pend_sa u rk r : allv ur_nn u = true -> sget u rk = Some r -> amt_sa r <= pend_sa (ksa r) u.
Proof.
  intros N G.
  assert (forall k v, 0 <= (fun (_ : string) x => if allv ur_nn u then if_eq (ksa x) (ksa r) (Z.max 0 (amt_sa x)) else 0) k v) as Hg.
  { intros k v. rewrite N. unfold if_eq. destruct (String.eqb _ _); lia. }
  pose proof (ssumk_ge_elem _ u rk r Hg G) as L. rewrite N in L. unfold if_eq in L at 1. rewrite String.eqb_refl in L.
  assert (ssumk (fun _ x => if_eq (ksa x) (ksa r) (Z.max 0 (amt_sa x))) u = pend_sa (ksa r) u) as E.
  { clear L Hg G. unfold pend_sa, ssumk, allv in *. induction u as [|[k v] rest IH]; simpl in *; [reflexivity|].
    apply andb_prop in N. destruct N as [N1 N2]. rewrite (IH N2). unfold ur_nn in N1. rewrite andb_true_iff, !Z.leb_le in N1.
    unfold amt_sa, if_eq. fold (ksa v). destruct (String.eqb (ksa v) (ksa r)); destruct (is_native (ur_asset v)); lia. }
  rewrite E in L. lia.
Qed.

Definition released_effect (s s' : st) (r : urec) : Prop :=
  sget (ur s') (rkey r) = None /\ ur s' = sdel (ur s) (rkey r) /\
  sidx s' = sdel (sidx s) (skey r) /\ pidx s' = sdel (pidx s) (pkey r) /\
  sa s' = sset (sa s) (ksa r) (mkSA (sa_total (sa_old s (ksa r))) (sa_wd (sa_old s (ksa r)) + ur_act r) (sa_pend (sa_old s (ksa r)) - ur_amt r)) /\
  oa s' = sset (oa s) (koa r) (mkOA (oa_amt (oa_old s (koa r))) (oa_pend (oa_old s (koa r)) - ur_amt r) (oa_tsh (oa_old s (koa r))) (oa_osh (oa_old s (koa r)))) /\
  dg s' = sset (dg s) (kdg r) (mkDG (dg_sh (dg_old s (kdg r))) (dg_wait (dg_old s (kdg r)) - ur_amt r)) /\
  tot s' = tot s /\ sl s' = sl s /\ hold s' = hold s /\ glog s' = glog s /\ height s' = height s.

Lemma process_release s r : inv_all s -> sget (ur s) (rkey r) = Some r -> hold_count s (rkey r) = 0 ->
  released_effect s (process s r) r.
Proof.
  intros (I & [S A] & N & Lst) G H0. pose proof I as (Su & _). pose proof N as (Nsa & Noa & _ & Ndg & Nur & _).
  assert (is_native (ur_asset r) = false) as Nat by (apply negb_true_iff; exact (allv_sget _ _ _ _ Lst G)).
  pose proof (allv_sget _ _ _ _ Nur G) as Nr. unfold ur_nn in Nr. rewrite andb_true_iff, !Z.leb_le in Nr.
  destruct (A (ksa r)) as (A1 & _ & _). destruct (A (koa r)) as (_ & A2 & _). destruct (A (kdg r)) as (_ & _ & A3).
  pose proof (amt_le_pend ksa (ur s) _ r Nur G) as L1. pose proof (amt_le_pend koa (ur s) _ r Nur G) as L2.
  pose proof (amt_le_pend kdg (ur s) _ r Nur G) as L3.
  assert (forall u, ssumk (fun _ x => if_eq (ksa x) (ksa r) (ur_amt x)) u >= 0 -> True) as _ by auto.
  clear L1. pose proof (amt_le_pend_sa (ur s) _ r Nur G) as L1. unfold amt_sa in L1 at 1. rewrite Nat in L1. change (ur_amt r <= pend_oa (koa r) (ur s)) in L2.
  change (ur_amt r <= pend_dg (kdg r) (ur s)) in L3.
  pose proof (sa_old_nn s (ksa r) Nsa) as Na. pose proof (oa_old_nn s (koa r) Noa) as No. pose proof (dg_old_nn s (kdg r) Ndg) as Nd.
  unfold sa_nn in Na. unfold oa_nn in No. unfold dg_nn in Nd. rewrite !andb_true_iff, !Z.leb_le in Na, No, Nd.
  unfold process. rewrite H0. simpl.
  fold (kdg r) (ksa r) (koa r).
  unfold upd_dg. fold (dg_oldS (dg s) (kdg r)). simpl.
  repeat (rewrite upd_val_ok by lia).
  unfold pay_staker. simpl. rewrite Nat. unfold upd_sa. simpl. fold (ksa r). fold (sa_oldS (sa s) (ksa r)).
  repeat (rewrite upd_val_ok by lia).
  unfold upd_oa. simpl. fold (oa_oldS (oa s) (koa r)).
  repeat (rewrite upd_val_ok by lia).
  unfold released_effect, del_record. simpl. rewrite !Z.add_0_r.
  repeat split; try reflexivity. apply sget_sdel_same; assumption.
Qed.

(* ---- a held due record is re-queued for the next height ---- *)
Lemma process_requeue s r : idx_inv s -> sget (ur s) (rkey r) = Some r -> 0 < hold_count s (rkey r) ->
  sget (ur (process s r)) (rkey r) = Some (with_cn r (height s + 1)) /\
  sa (process s r) = sa s /\ oa (process s r) = oa s /\ dg (process s r) = dg s /\ tot (process s r) = tot s /\
  hold (process s r) = hold s /\ glog (process s r) = glog s /\
  pidx (process s r) = sset (sdel (pidx s) (pkey r)) (pkey_of (height s + 1) (ur_nonce r)) (rkey r).
Proof.
  intros (Su & _) G H. unfold process. apply Z.ltb_lt in H. rewrite H.
  unfold set_record. simpl.
  replace (height s + 1 <? height s) with false by (symmetry; apply Z.ltb_ge; lia).
  change (rkey (mkUR (ur_staker r) (ur_asset r) (ur_op r) (ur_tx r) (ur_bn r) (height s + 1) (ur_nonce r) (ur_amt r) (ur_act r))) with (rkey r).
  rewrite (sget_sdel_same _ _ Su). simpl. rewrite sget_sset_same. repeat split; reflexivity.
Qed.

Definition outcome (s0 : st) (r : urec) (o : option urec) : Prop :=
  (hold_count s0 (rkey r) = 0 -> o = None) /\ (0 < hold_count s0 (rkey r) -> o = Some (with_cn r (height s0 + 1))).

Definition loopQ (s0 s : st) : Prop := J s /\ nn s /\ hold s = hold s0 /\ height s = height s0 /\ lst_only s.

Lemma loopQ_process s0 s r : idx_inv s -> sget (ur s) (rkey r) = Some r -> loopQ s0 s -> loopQ s0 (process s r).
Proof.
  intros I G (Hj & N & Hh & Hg & L). destruct (process_J s r I Hj G) as [J' H']. destruct (process_idx s r I G) as (_ & _ & Hg').
  split; [exact J'|]. split; [apply process_nn; assumption|]. split; [congruence|]. split; [congruence|apply process_lst; assumption].
Qed.

Lemma process_outcome s0 s r : idx_inv s -> sget (ur s) (rkey r) = Some r -> loopQ s0 s ->
  outcome s0 r (sget (ur (process s r)) (rkey r)).
Proof.
  intros I G (Hj & N & Hh & Hg & L). unfold outcome, hold_count. rewrite <- Hh, <- Hg. fold (hold_count s (rkey r)). split; intro H.
  - destruct (process_release s r (conj I (conj Hj (conj N L))) G H) as (A & _). exact A.
  - destruct (process_requeue s r I G H) as (A & _). exact A.
Qed.

Lemma process_loop_outcome s0 : forall recs s, idx_inv s -> loopQ s0 s ->
  (forall r, In r recs -> sget (ur s) (rkey r) = Some r) -> NoDup (map rkey recs) ->
  forall r, In r recs -> outcome s0 r (sget (ur (fold_left process recs s)) (rkey r)).
Proof.
  induction recs as [|r0 rest IH]; intros s I Q G ND r In0; [destruct In0|].
  simpl in ND. inversion ND as [|? ? Nin ND']; subst. simpl.
  pose proof (G r0 (or_introl eq_refl)) as G0.
  destruct (process_idx s r0 I G0) as (I1 & O1 & H1).
  assert (forall r1, In r1 rest -> sget (ur (process s r0)) (rkey r1) = Some r1) as G1.
  { intros r1 In1. rewrite O1; [apply G; right; assumption|].
    intro Eq. apply Nin. rewrite <- Eq. apply in_map. assumption. }
  pose proof (loopQ_process s0 s r0 I G0 Q) as Q1.
  destruct In0 as [<-|In1].
  - destruct (process_loop (loopQ s0) (fun s r I G Q => loopQ_process s0 s r I G Q) rest (process s r0) I1 Q1 G1 ND') as (_ & _ & O2 & _).
    rewrite (O2 (rkey r0) Nin). apply process_outcome; assumption.
  - apply IH; assumption.
Qed.

Lemma fetch_total u ks : (forall k, In k ks -> exists r, sget u k = Some r) -> exists recs, fetch u ks = Some recs.
Proof.
  induction ks as [|k ks IH]; intro H; simpl; [eexists; reflexivity|].
  destruct (H k (or_introl eq_refl)) as (r & ->).
  destruct IH as (recs & ->); [intros k0 In0; apply H; right; assumption|]. eexists; reflexivity.
Qed.

Lemma forall2_in {A B} (P : A -> B -> Prop) l1 l2 a : Forall2 P l1 l2 -> In a l1 -> exists b, In b l2 /\ P a b.
Proof.
  induction 1 as [|x y l1' l2' Hp Hf IH]; intro In0; [destruct In0|].
  destruct In0 as [<-|In1]; [exists y; split; [left; reflexivity|assumption]|].
  destruct (IH In1) as (b & Inb & Pb). exists b. split; [right; assumption|assumption].
Qed.

(* ---- release at EndBlock: every indexed record that is due now is released if unheld, re-queued if held ---- *)
Lemma release_at_end_block s rk r : inv_all s -> sget (ur s) rk = Some r -> ur_cn r = height s ->
  sget (pidx s) (pkey r) = Some rk ->
  outcome s r (sget (ur (end_block s)) rk).
Proof.
  intros (I & Hj & N & Lst) G Cn Px. pose proof I as (Su & Sp & K & Ip & W & Hh).
  pose proof (K _ _ G) as Rk. subst rk.
  assert (In (rkey r) (due_keys (height s) (pidx s))) as InDue.
  { unfold due_keys, prefix_iter. apply in_map_iff. exists (pkey r, rkey r). split; [reflexivity|].
    apply filter_In. split; [apply (sget_in _ _ _ Sp); exact Px|].
    unfold fst. unfold pkey. rewrite Cn. apply (pending_scan_exact (height s) (height s) (ur_nonce r)); [assumption|assumption|reflexivity]. }
  destruct (fetch_total (ur s) (due_keys (height s) (pidx s))) as (recs & F).
  { intros k In0. destruct (due_keys_spec s (height s) k I Hh In0) as (r2 & G2 & _). exists r2. exact G2. }
  destruct (fetch_keys _ _ _ K F) as [MK Gs].
  assert (NoDup (map rkey recs)) as ND by (rewrite MK; apply due_keys_nodup; assumption).
  assert (In r recs) as InR.
  { destruct (forall2_in _ _ _ _ (fetch_spec _ _ _ F) InDue) as (b & Inb & Pb). rewrite G in Pb. inversion Pb; subst. exact Inb. }
  unfold end_block. rewrite F. simpl.
  apply (process_loop_outcome s recs s I); try assumption.
  split; [exact Hj|]. split; [exact N|]. split; [reflexivity|]. split; [reflexivity|exact Lst].
Qed.

(* ---- the deep-slash state in which the pre-repair share check rejected a request for exactly the reported position
        (regression scenario regress-C03-accept-deep-slash replays it on the real keepers) ---- *)
Definition accept_s0 : st := empty_st 4 ["o2"] [] ["a0"].
Definition accept_ops : list op :=
  [Deposit "s0" "a0" 548170; Delegate "s0" "a0" "o2" 548170; Deposit "s1" "a0" 25; Delegate "s1" "a0" "o2" 25;
   Slash "o2" 4 (Some 726991307837539562); Slash "o2" 4 (Some 563610001202710107);
   Deposit "s2" "a0" 56; Delegate "s2" "a0" "o2" 54; Delegate "s2" "a0" "o2" 2].

Lemma accept_witness :
  let s := run accept_ops accept_s0 in
  hist_ok accept_s0 accept_ops = true /\
  position_d (dump_of s) "s2" "a0" "o2" = 56 /\
  snd (step s (Undelegate "s2" "a0" "o2" 56 9 "t9")) = ROk /\
  option_map ur_amt (sget (ur (fst (step s (Undelegate "s2" "a0" "o2" 56 9 "t9")))) "o2/0x4/0x9/t9") = Some 56 /\
  snd (step s (Undelegate "s2" "a0" "o2" 57 9 "t9")) = RErr /\
  option_map dg_sh (sget (dg s) "s2/a0/o2") = Some 470042106230190932613 /\
  option_map oa_tsh (sget (oa s) "o2/a0") = Some 548665042106230190932613 /\
  option_map oa_amt (sget (oa s) "o2/a0") = Some 65367.
Proof. vm_compute. repeat split; reflexivity. Qed.
