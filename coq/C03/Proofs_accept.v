(* C03/Proofs_accept.v — the share check of ValidateUndelegationAmount cannot reject a request within the reported position
   as long as the pool holds fewer than two shares per token (pure arithmetic over the whole numeric domain). *)
From Coq Require Import List String Bool ZArith Lia.
From Exo Require Import Base.Store Base.IntDec Base.Util Ledger.Ledger.
Local Open Scope Z_scope.

Lemma share_check_ok dsh tsh T x t :
  0 < T -> 0 < tsh -> 0 <= dsh -> dsh <= tsh -> tsh < 2 * P * T -> 0 < x ->
  tokens_from_shares dsh tsh T = Some t -> x <= t ->
  exists sh0, shares_from_tokens tsh x T = Some sh0 /\ sh0 <= dsh.
Proof.
  intros HT Hts Hd Hle Hrate Hx Htok Hxt. pose proof P_pos as HP. pose proof PP_pos as HPP.
  unfold shares_from_tokens. destruct (T =? 0) eqn:ET; [apply Z.eqb_eq in ET; lia|].
  eexists; split; [reflexivity|].
  unfold tokens_from_shares in Htok.
  destruct (dsh >? tsh) eqn:E1; [discriminate|]. destruct (tsh =? 0) eqn:E2; [apply Z.eqb_eq in E2; lia|].
  inversion Htok; subst t; clear Htok.
  unfold dec_quo_int, dec_mul_int. rewrite quot_nonneg_div by nia.
  apply Z.lt_succ_r. apply Z.div_lt_upper_bound; [lia|].
  (* unfold the position *)
  unfold dec_trunc_int, dec_quo, dec_mul_int in Hxt.
  set (d := Z.quot (dsh * T * PP) tsh) in *.
  assert (0 <= d) as Hd0 by (unfold d; rewrite quot_nonneg_div by nia; apply Z.div_pos; nia).
  assert (d * tsh <= dsh * T * PP) as Hdt.
  { unfold d. rewrite quot_nonneg_div by nia. rewrite Z.mul_comm. apply Z.mul_div_le. lia. }
  rewrite chop_round_nonneg_eq in Hxt by assumption.
  pose proof (chop_round_nn_bounds d Hd0) as [B1 _].
  pose proof (chop_round_nn_nonneg d Hd0) as Hc.
  rewrite quot_nonneg_div in Hxt by lia.
  assert (x * P <= chop_round_nn d) as Hxp.
  { pose proof (Z.mul_div_le (chop_round_nn d) P HP) as M.
    set (q := chop_round_nn d / P) in *. assert (x * P <= q * P) by (apply Z.mul_le_mono_nonneg_r; lia). lia. }
  clear Hxt. unfold PP in *.
  set (c := chop_round_nn d) in *.
  (* 2P * x*P <= 2P*c <= 2d + P ; multiply by tsh *)
  assert (2 * P * (x * P) * tsh <= (2 * d + P) * tsh) as H1.
  { apply Z.mul_le_mono_nonneg_r; [lia|]. assert (2 * P * (x * P) <= 2 * P * c) by (apply Z.mul_le_mono_nonneg_l; lia). lia. }
  assert ((2 * d + P) * tsh <= 2 * (dsh * T * (P * P)) + P * tsh) as H2 by nia.
  assert (P * tsh < P * (2 * P * T)) as H3 by (apply Z.mul_lt_mono_pos_l; lia).
  assert (2 * (P * P) * (tsh * x) < 2 * (P * P) * ((dsh + 1) * T)) as H4 by nia.
  apply (Z.mul_lt_mono_pos_l (2 * (P * P))); [nia |]. replace (T * Z.succ dsh) with ((dsh + 1) * T) by lia. exact H4.
Qed.

(* ---------- exact characterisation of the share check ---------- *)
(* the largest amount whose converted shares do not exceed the staker's shares *)
Definition xmax (dsh tsh T : Z) : Z := ((dsh + 1) * T - 1) / tsh.

Lemma shares_le_iff dsh tsh T x : 0 < T -> 0 < tsh -> 0 <= dsh -> 0 < x ->
  (forall sh0, shares_from_tokens tsh x T = Some sh0 -> (sh0 <= dsh <-> x <= xmax dsh tsh T)).
Proof.
  intros HT Hts Hd Hx sh0 H. unfold shares_from_tokens in H. destruct (T =? 0) eqn:ET; [apply Z.eqb_eq in ET; lia|].
  inversion H; subst sh0; clear H. unfold dec_quo_int, dec_mul_int, xmax. rewrite quot_nonneg_div by nia.
  split; intro L.
  - assert (tsh * x < (dsh + 1) * T) as L1.
    { destruct (Z_lt_le_dec (tsh * x) ((dsh + 1) * T)) as [A|A]; [exact A|].
      assert (dsh + 1 <= tsh * x / T) by (apply Z.div_le_lower_bound; lia). lia. }
    apply Z.div_le_lower_bound; lia.
  - assert (tsh * x <= (dsh + 1) * T - 1) as L1.
    { pose proof (Z.mul_div_le ((dsh + 1) * T - 1) tsh Hts). nia. }
    apply Z.lt_succ_r. apply Z.div_lt_upper_bound; lia.
Qed.

(* the check: [share_check true] is what the code (and the model) does since fix 56b99a6, [share_check false] what it did before *)
Definition share_check (cl : bool) (dsh tsh T x : Z) : bool :=
  match shares_from_tokens tsh x T with
  | None => false
  | Some sh0 =>
      negb ((sh0 >? dsh) &&
            negb (cl && match tokens_from_shares dsh tsh T with Some pos => x <=? pos | None => false end))
  end.

(* unrepaired tree: accepted iff x <= xmax; repaired tree: iff x <= max xmax position *)
Lemma share_check_exact dsh tsh T x pos : 0 < T -> 0 < tsh -> 0 <= dsh -> 0 < x -> tokens_from_shares dsh tsh T = Some pos ->
  (share_check false dsh tsh T x = true <-> x <= xmax dsh tsh T) /\
  (share_check true dsh tsh T x = true <-> x <= Z.max (xmax dsh tsh T) pos).
Proof.
  intros HT Hts Hd Hx Hp. unfold share_check. rewrite Hp.
  destruct (shares_from_tokens tsh x T) as [sh0|] eqn:Es.
  2:{ unfold shares_from_tokens in Es. destruct (T =? 0) eqn:ET; [apply Z.eqb_eq in ET; lia|discriminate]. }
  pose proof (shares_le_iff dsh tsh T x HT Hts Hd Hx sh0 Es) as Iff.
  destruct (sh0 >? dsh) eqn:Eo; rewrite Z.gtb_ltb in Eo.
  - apply Z.ltb_lt in Eo. simpl. split.
    + split; [discriminate|]. intro L. apply Iff in L. lia.
    + destruct (x <=? pos) eqn:Ep; simpl.
      * apply Z.leb_le in Ep. split; [lia|reflexivity].
      * apply Z.leb_gt in Ep. split; [discriminate|]. intro L. assert (x <= xmax dsh tsh T) as L2 by lia. apply Iff in L2. lia.
  - apply Z.ltb_ge in Eo. simpl. apply Iff in Eo. split; split; intros; try reflexivity; lia.
Qed.

(* everything within the reported position passes the check: always on the repaired tree; on the unrepaired tree
   exactly when position <= xmax *)
Lemma within_position dsh tsh T pos : 0 < T -> 0 < tsh -> 0 <= dsh -> tokens_from_shares dsh tsh T = Some pos ->
  (forall x, 0 < x -> x <= pos -> share_check true dsh tsh T x = true) /\
  ((forall x, 0 < x -> x <= pos -> share_check false dsh tsh T x = true) <-> (pos <= 0 \/ pos <= xmax dsh tsh T)).
Proof.
  intros HT Hts Hd Hp. split.
  - intros x Hx L. apply (share_check_exact dsh tsh T x pos HT Hts Hd Hx Hp). lia.
  - split.
    + intro A. destruct (Z_le_gt_dec pos 0) as [Z0|Pp]; [left; exact Z0|right].
      apply (share_check_exact dsh tsh T pos pos HT Hts Hd ltac:(lia) Hp). apply A; lia.
    + intros [Z0|L] x Hx Lx; [lia|]. apply (share_check_exact dsh tsh T x pos HT Hts Hd Hx Hp). lia.
Qed.

(* the model's undelegate rejects whenever the check fails (so the characterisation is about the real decision) *)
Lemma undelegate_needs_check s st a op x n tx d o :
  sget (dg s) (dg_key st a op) = Some d -> sget (oa s) (oa_key op a) = Some o ->
  share_check true (dg_sh d) (oa_tsh o) (oa_amt o) x = false -> undelegate s st a op x n tx = None.
Proof.
  intros Gd Go Ck. unfold undelegate. destruct (x <=? 0); [reflexivity|]. destruct (negb (mem op (operators s))); [reflexivity|].
  rewrite Gd, Go. unfold share_check in Ck.
  destruct (shares_from_tokens (oa_tsh o) x (oa_amt o)) as [sh0|]; [|reflexivity].
  apply negb_false_iff in Ck. simpl in Ck. rewrite Ck. reflexivity.
Qed.

(* the pool of the regression scenario (rows of the state reached by C03.Proofs.accept_ops): before fix 56b99a6 the check
   rejected the reported position of 56 and accepted 55 *)
Lemma prerepair_witness :
  let dsh := 470042106230190932613 in let tsh := 548665042106230190932613 in let T := 65367 in
  tokens_from_shares dsh tsh T = Some 56 /\ xmax dsh tsh T = 55 /\
  share_check false dsh tsh T 56 = false /\ share_check false dsh tsh T 55 = true /\
  share_check true dsh tsh T 56 = true /\ share_check true dsh tsh T 57 = false.
Proof. vm_compute. repeat split; reflexivity. Qed.
