(* C03/Proofs_accept.v — the share check of ValidateUndelegationAmount cannot reject a request within the reported position
   as long as the pool holds fewer than two shares per token (pure arithmetic over the whole numeric domain). *)
From Coq Require Import List String Bool ZArith Lia.
From Exo Require Import Base.Store Base.IntDec Base.Util Ledger.Ledger.
Local Open Scope Z_scope.

Lemma share_check_ok dsh tsh T x t :
  0 < T -> 0 < tsh -> 0 <= dsh -> dsh <= tsh -> tsh < 2 * P * T -> 0 < x ->
  tokens_from_shares dsh tsh T = Some t -> x <= t ->
  exists sh0, shares_from_tokens tsh x T = Some sh0 /\ sh0 <= dsh.
Proof.
  intros HT Hts Hd Hle Hrate Hx Htok Hxt. pose proof P_pos as HP. pose proof PP_pos as HPP.
  unfold shares_from_tokens. destruct (T =? 0) eqn:ET; [apply Z.eqb_eq in ET; lia|].
  eexists; split; [reflexivity|].
  unfold tokens_from_shares in Htok.
  destruct (dsh >? tsh) eqn:E1; [discriminate|]. destruct (tsh =? 0) eqn:E2; [apply Z.eqb_eq in E2; lia|].
  inversion Htok; subst t; clear Htok.
  unfold dec_quo_int, dec_mul_int. rewrite quot_nonneg_div by nia.
  apply Z.lt_succ_r. apply Z.div_lt_upper_bound; [lia|].
  (* unfold the position *)
  unfold dec_trunc_int, dec_quo, dec_mul_int in Hxt.
  set (d := Z.quot (dsh * T * PP) tsh) in *.
  assert (0 <= d) as Hd0 by (unfold d; rewrite quot_nonneg_div by nia; apply Z.div_pos; nia).
  assert (d * tsh <= dsh * T * PP) as Hdt.
  { unfold d. rewrite quot_nonneg_div by nia. rewrite Z.mul_comm. apply Z.mul_div_le. lia. }
  rewrite chop_round_nonneg_eq in Hxt by assumption.
  pose proof (chop_round_nn_bounds d Hd0) as [B1 _].
  pose proof (chop_round_nn_nonneg d Hd0) as Hc.
  rewrite quot_nonneg_div in Hxt by lia.
  assert (x * P <= chop_round_nn d) as Hxp.
  { pose proof (Z.mul_div_le (chop_round_nn d) P HP) as M.
    set (q := chop_round_nn d / P) in *. assert (x * P <= q * P) by (apply Z.mul_le_mono_nonneg_r; lia). lia. }
  clear Hxt. unfold PP in *.
  set (c := chop_round_nn d) in *.
  (* 2P * x*P <= 2P*c <= 2d + P ; multiply by tsh *)
  assert (2 * P * (x * P) * tsh <= (2 * d + P) * tsh) as H1.
  { apply Z.mul_le_mono_nonneg_r; [lia|]. assert (2 * P * (x * P) <= 2 * P * c) by (apply Z.mul_le_mono_nonneg_l; lia). lia. }
  assert ((2 * d + P) * tsh <= 2 * (dsh * T * (P * P)) + P * tsh) as H2 by nia.
  assert (P * tsh < P * (2 * P * T)) as H3 by (apply Z.mul_lt_mono_pos_l; lia).
  assert (2 * (P * P) * (tsh * x) < 2 * (P * P) * ((dsh + 1) * T)) as H4 by nia.
  apply (Z.mul_lt_mono_pos_l (2 * (P * P))); [nia |]. replace (T * Z.succ dsh) with ((dsh + 1) * T) by lia. exact H4.
Qed.
