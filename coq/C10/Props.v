(* C10/Props.v — property theorems only. *)
From Coq Require Import List String Bool NArith.
From Exo Require Import Base.Util C10.Model C10.Proofs.
Import ListNotations.
Local Open Scope string_scope.

(* The full statement: whatever takes effect was asked for by the rightful caller.  It is FALSE of the faithful
   model (see C10_sound_refuted): three AVS precompile methods act for an operator named in args[0] and one
   (challenge) never consults the owner list. *)
Definition C10_sound_full : Prop :=
  forall c s cl, snd (dispatch c s cl) = Accepted -> authorized c s cl = true.

(* every entry point except the four listed by [known_gap], every caller, every payload, every state *)
Theorem C10_sound_partial : forall c s cl,
  known_gap (ep_of cl) = false ->
  snd (dispatch c s cl) = Accepted -> authorized c s cl = true.
Proof. exact dispatch_sound. Qed.
Print Assumptions C10_sound_partial.

(* an unauthorised caller is rejected and the state (including the ghost log and the nonce table) is untouched *)
Theorem C10_reject_no_change_partial : forall c s cl,
  known_gap (ep_of cl) = false -> authorized c s cl = false ->
  dispatch c s cl = (s, snd (dispatch c s cl)) /\ snd (dispatch c s cl) <> Accepted.
Proof. exact dispatch_unauthorized_same. Qed.
Print Assumptions C10_reject_no_change_partial.

(* whoever the caller is: a rejection by the ante handler / a `false` from a precompile leaves the state as it was *)
Theorem C10_early_reject_no_change : forall c s cl,
  (snd (dispatch c s cl) = RejectedAnte \/ snd (dispatch c s cl) = ReturnedFalse \/ snd (dispatch c s cl) = NoSuchEntry) ->
  fst (dispatch c s cl) = s.
Proof. exact dispatch_rejected_early_same. Qed.
Print Assumptions C10_early_reject_no_change.

(* histories: every call accepted anywhere in any call sequence was authorised in the state it met *)
Theorem C10_run_sound : forall c cs s,
  Forall (fun sc => known_gap (ep_of (snd sc)) = true \/ authorized c (fst sc) (snd sc) = true) (accepted_in c s cs).
Proof. intros c cs s. apply accepted_in_sound. Qed.
Print Assumptions C10_run_sound.

(* frames: the gateway address changes only through an accepted assets UpdateParams ... *)
Theorem C10_gateway_frame : forall c s cl,
  st_gateway (fst (dispatch c s cl)) <> st_gateway s ->
  ep_of cl = M_assets_UpdateParams /\ snd (dispatch c s cl) = Accepted /\ authorized c s cl = true.
Proof.
  intros c s cl H. destruct (dispatch_gateway_frame c s cl H) as [E A].
  repeat split; try assumption. apply dispatch_sound; [rewrite E; reflexivity|exact A].
Qed.
Print Assumptions C10_gateway_frame.

(* ... and the record of the AVS at address a is only touched by precompile calls coming from a itself *)
Theorem C10_avs_bound_to_caller : forall s ep caller isc origin sender owners task biz a c,
  String.eqb caller a = false ->
  find_avs a (st_avs (fst (dispatch c s (CallEvm ep caller isc origin sender owners task biz)))) = find_avs a (st_avs s).
Proof. intros. simpl. apply evm_avs_frame. assumption. Qed.
Print Assumptions C10_avs_bound_to_caller.

(* on a mainnet chain id, along ANY history in which governance takes no part (no message executed by the gov
   module, no transaction signed by the authority's key) the gateway parameter and the authority stay what they were:
   nobody else can re-point the gateway *)
Theorem C10_gateway_stable_without_gov : forall c, cfg_mainnet c = true -> forall cs s,
  forallb (not_gov (st_authority s)) cs = true ->
  st_gateway (run c s cs) = st_gateway s /\ st_authority (run c s cs) = st_authority s.
Proof. exact run_gateway_stable. Qed.
Print Assumptions C10_gateway_stable_without_gov.

(* one lemma per guard family, restated *)
Theorem C10_gateway_family : forall s ep caller origin sender owners task biz,
  family_of ep = FGateway ->
  snd (evm_dispatch s ep caller origin sender owners task biz) = Accepted ->
  String.eqb caller (st_gateway s) = true.
Proof. exact gateway_guard. Qed.

Theorem C10_price_family : forall c s p subj stg f n a gw biz,
  snd (tx_dispatch c s M_oracle_CreatePrice p subj stg f n a gw biz) = Accepted ->
  signed_by a p = true /\ ta_infos a = [Some p] /\ ta_raw_sigs a = 1%nat /\ is_validator p (st_nonces s) = true.
Proof.
  intros c s p subj stg f n a gw biz H. unfold tx_dispatch in H. simpl in H.
  destruct (oracle_sig_ok p a) eqn:A; simpl in H; [|discriminate].
  destruct (check_and_increase_nonce p f n (st_nonces s)) eqn:Nn; simpl in H; [|discriminate].
  destruct (oracle_sig_ok_signed _ _ A) as [S1 [S2 S3]].
  repeat split; try assumption. exact (check_nonce_validator _ _ _ _ _ Nn).
Qed.
Print Assumptions C10_price_family.

Theorem C10_params_family : forall c s ep p subj stg f n a gw biz,
  family_of ep = FParams -> cfg_mainnet c = true ->
  snd (tx_dispatch c s ep p subj stg f n a gw biz) = Accepted ->
  String.eqb p (st_authority s) = true /\ signed_by a p = true.
Proof.
  intros c s ep p subj stg f n a gw biz F M H.
  pose proof (tx_sound _ _ _ _ _ _ _ _ _ _ _ H) as Au. unfold authorized in Au. rewrite F, M in Au.
  apply andb_prop in Au. tauto.
Qed.
Print Assumptions C10_params_family.

(* ---- the four gap entry points, characterised ---- *)
(* total form of soundness: whatever is accepted was either authorised in the property's sense, or it is one of the
   four gap entry points AND the binding to the calling contract that the code does enforce holds *)
Theorem C10_sound_total : forall c s cl,
  snd (dispatch c s cl) = Accepted ->
  authorized c s cl = true \/ (known_gap (ep_of cl) = true /\ gap_guarantee s cl = true).
Proof. exact dispatch_sound_total. Qed.
Print Assumptions C10_sound_total.

(* and such an accepted gap call changes nothing but what it is about: gateway, every AVS record and owner list, the
   authority and the oracle nonce table stay as they were; only the effect (ep, operator/challenger named in args[0])
   is recorded. In particular an opt-in/out is always into/out of the AVS registered at the CALLER's own address. *)
Theorem C10_gap_effect_is_bound : forall c s cl,
  known_gap (ep_of cl) = true -> snd (dispatch c s cl) = Accepted ->
  gap_guarantee s cl = true /\
  exists ep caller isc origin sender owners task biz,
    cl = CallEvm ep caller isc origin sender owners task biz /\ fst (dispatch c s cl) = log_effect s ep sender.
Proof. exact gap_accept_shape. Qed.
Print Assumptions C10_gap_effect_is_bound.

(* task results: in BOTH stages the operator named in the payload must be the signer, and the signer must really
   have signed; other stage values never take effect *)
Theorem C10_task_result_family : forall c s p subj stg f n a gw biz,
  snd (tx_dispatch c s M_avs_SubmitTaskResult p subj stg f n a gw biz) = Accepted ->
  signed_by a p = true /\ String.eqb p subj = true /\ (stg = 1%N \/ stg = 2%N).
Proof.
  intros c s p subj stg f n a gw biz H. unfold tx_dispatch in H. simpl in H.
  destruct (std_ante p a) eqn:A; simpl in H; [|discriminate].
  destruct (String.eqb p subj) eqn:E; simpl in H; [|discriminate].
  destruct (N.eqb stg 1) eqn:S1; destruct (N.eqb stg 2) eqn:S2; simpl in H; try discriminate;
    (split; [exact (std_ante_signed _ _ A)|split; [reflexivity|]]).
  - left. apply N.eqb_eq. exact S1.
  - left. apply N.eqb_eq. exact S1.
  - right. apply N.eqb_eq. exact S2.
Qed.
Print Assumptions C10_task_result_family.

(* ---- refutations (each witness is replayed on the real code by a tagged directed scenario) ---- *)
Definition ex_state : state :=
  mkState "0xgateway" [mkAvs "0xattacker" ["exo1attacker"] "0xattacker"] "exo1gov"
          [("exo1val", [(1%N, 0%N)])] [].

(* an AVS registered at the attacker's own address opts a foreign operator in: accepted, and the operator is not
   the signer of the transaction *)
Theorem C10_sound_refuted : exists c s cl, snd (dispatch c s cl) = Accepted /\ authorized c s cl = false.
Proof.
  exists (mkCfg true), ex_state,
    (CallEvm P_avs_registerOperatorToAVS "0xattacker" false "exo1attacker" "exo1victim" [] "" true).
  vm_compute. split; reflexivity.
Qed.

(* a challenge raised through the task contract by somebody who is not a listed owner is accepted *)
Theorem C10_challenge_owner_refuted : exists c s cl,
  ep_of cl = P_avs_challenge /\ snd (dispatch c s cl) = Accepted /\ authorized c s cl = false.
Proof.
  exists (mkCfg true), ex_state,
    (CallEvm P_avs_challenge "0xattacker" true "exo1nobody" "exo1nobody" [] "" true).
  vm_compute. repeat split; reflexivity.
Qed.

(* the oracle branch as it was before repo_patches/fix-c10-oracle-sigverify.patch: a price attributed to a
   validator is accepted with the validator's public key and a signature nobody made, and without any key *)
Theorem C10_unfixed_sigverify_refuted : exists c s cl1 cl2,
  snd (dispatch_unfixed c s cl1) = Accepted /\ authorized c s cl1 = false /\
  snd (dispatch_unfixed c s cl2) = Accepted /\ authorized c s cl2 = false /\
  snd (dispatch c s cl1) = RejectedAnte /\ snd (dispatch c s cl2) = RejectedAnte.
Proof.
  exists (mkCfg true), ex_state,
    (CallTx M_oracle_CreatePrice "exo1val" "exo1val" 0%N 1%N 1%N (mkAuth 1 [Some "exo1val"] None true) "" true),
    (CallTx M_oracle_CreatePrice "exo1val" "exo1val" 0%N 1%N 1%N (mkAuth 1 [] None true) "" true).
  vm_compute. repeat split; reflexivity.
Qed.

(* ---- non-vacuity: every family has accepted calls, and the hypotheses of the theorems are satisfiable ---- *)
Example ex_gateway_accept :
  snd (dispatch (mkCfg true) ex_state (CallEvm P_assets_depositLST "0xgateway" true "exo1x" "" [] "" true)) = Accepted.
Proof. reflexivity. Qed.
Example ex_gateway_reject :
  dispatch (mkCfg true) ex_state (CallEvm P_assets_depositLST "0xother" true "exo1x" "" [] "" true) = (ex_state, ReturnedFalse).
Proof. reflexivity. Qed.
Example ex_avs_register_accept :
  snd (dispatch (mkCfg true) ex_state (CallEvm P_avs_registerAVS "0xnew" true "exo1o" "exo1o" ["exo1o"] "0xtask" true)) = Accepted.
Proof. reflexivity. Qed.
Example ex_avs_update_accept :
  snd (dispatch (mkCfg true) ex_state (CallEvm P_avs_updateAVS "0xattacker" true "exo1attacker" "exo1attacker" ["exo1b"] "" true)) = Accepted.
Proof. reflexivity. Qed.
Example ex_avs_update_reject :
  dispatch (mkCfg true) ex_state (CallEvm P_avs_updateAVS "0xattacker" true "exo1b" "exo1b" ["exo1b"] "" true) = (ex_state, ReturnedFalse).
Proof. reflexivity. Qed.
Example ex_signer_accept :
  snd (dispatch (mkCfg true) ex_state
         (CallTx M_operator_RegisterOperator "exo1a" "exo1a" 0%N 0%N 0%N (mkAuth 1 [Some "exo1a"] (Some "exo1a") true) "" true)) = Accepted.
Proof. reflexivity. Qed.
Example ex_signer_forged :
  dispatch (mkCfg true) ex_state
         (CallTx M_operator_RegisterOperator "exo1a" "exo1a" 0%N 0%N 0%N (mkAuth 1 [Some "exo1a"] None true) "" true) = (ex_state, RejectedAnte).
Proof. reflexivity. Qed.
Example ex_task_result_reveal_accept :
  snd (dispatch (mkCfg true) ex_state
         (CallTx M_avs_SubmitTaskResult "exo1a" "exo1a" 2%N 0%N 0%N (mkAuth 1 [Some "exo1a"] (Some "exo1a") true) "" true)) = Accepted.
Proof. reflexivity. Qed.
Example ex_task_result_reveal_foreign :
  dispatch (mkCfg true) ex_state
         (CallTx M_avs_SubmitTaskResult "exo1a" "exo1victim" 2%N 0%N 0%N (mkAuth 1 [Some "exo1a"] (Some "exo1a") true) "" true) = (ex_state, RejectedMsg).
Proof. reflexivity. Qed.
Example ex_price_accept :
  snd (dispatch (mkCfg true) ex_state
         (CallTx M_oracle_CreatePrice "exo1val" "exo1val" 0%N 1%N 1%N (mkAuth 1 [Some "exo1val"] (Some "exo1val") true) "" true)) = Accepted.
Proof. reflexivity. Qed.
Example ex_params_gov_accept :
  snd (dispatch (mkCfg true) ex_state (CallGov M_assets_UpdateParams "0xnewgw" true)) = Accepted.
Proof. reflexivity. Qed.
Example ex_params_nongov_mainnet :
  dispatch (mkCfg true) ex_state
         (CallTx M_assets_UpdateParams "exo1a" "exo1a" 0%N 0%N 0%N (mkAuth 1 [Some "exo1a"] (Some "exo1a") true) "0xevil" true) = (ex_state, RejectedMsg).
Proof. reflexivity. Qed.
Example ex_params_nongov_testnet :
  snd (dispatch (mkCfg false) ex_state
         (CallTx M_assets_UpdateParams "exo1a" "exo1a" 0%N 0%N 0%N (mkAuth 1 [Some "exo1a"] (Some "exo1a") true) "0xevil" true)) = Accepted.
Proof. reflexivity. Qed.
Example ex_not_gov_history :
  forallb (not_gov (st_authority ex_state))
    [CallEvm P_assets_depositLST "0xgateway" true "exo1x" "" [] "" true;
     CallTx M_assets_UpdateParams "exo1a" "exo1a" 0%N 0%N 0%N (mkAuth 1 [Some "exo1a"] (Some "exo1a") true) "0xevil" true;
     CallTx M_operator_RegisterOperator "exo1a" "exo1a" 0%N 0%N 0%N (mkAuth 1 [Some "exo1a"] (Some "exo1a") true) "" true] = true.
Proof. reflexivity. Qed.
(* the unauthorised hypothesis of C10_reject_no_change_partial is satisfiable for every non-gap entry point *)
Example ex_every_entry_point_has_unauthorised_caller :
  forallb (fun ep => negb (authorized (mkCfg true) ex_state
                             (if is_precompile ep
                              then CallEvm ep "0xnobody" false "exo1n" "exo1m" [] "" true
                              else CallTx ep "exo1a" "exo1b" 1%N 1%N 1%N (mkAuth 1 [Some "exo1a"] None true) "" true)))
          all_entry_points = true.
Proof. vm_compute. reflexivity. Qed.
(* the inventory list is complete and names are unambiguous, so the comparison made by check_inv is about the
   constructors themselves *)
Theorem C10_inventory_complete : (forall ep, In ep all_entry_points) /\ (forall a b, ep_name a = ep_name b -> a = b).
Proof. split; [exact all_entry_points_complete | exact ep_name_injective]. Qed.
Print Assumptions C10_inventory_complete.
Example ex_all_entry_points_listed : List.length all_entry_points = 37%nat.
Proof. reflexivity. Qed.
