(* C10/Proofs.v — lemmas about the guard families, the dispatch function and runs. *)
From Coq Require Import List String Bool NArith Arith Lia.
From Exo Require Import Base.Util C10.Model.
Import ListNotations.
Local Open Scope string_scope.

(* ---- small tools ---- *)
Lemma negb_false_true b : negb b = false -> b = true.
Proof. destruct b; simpl; congruence. Qed.

Lemma signed_by_spec a k : signed_by a k = true -> exists k', ta_signed_by a = Some k' /\ k' = k.
Proof.
  unfold signed_by. destruct (ta_signed_by a) as [k'|]; [|discriminate].
  intro H. apply String.eqb_eq in H. eauto.
Qed.

(* break the next [if]/[match] on a boolean, option or list in goal or hypothesis *)
Ltac brk1 :=
  match goal with
  | H : context [if ?b then _ else _] |- _ => let E := fresh "E" in destruct b eqn:E
  | |- context [if ?b then _ else _] => let E := fresh "E" in destruct b eqn:E
  | H : context [match ?x with Some _ => _ | None => _ end] |- _ => let E := fresh "E" in destruct x eqn:E
  | |- context [match ?x with Some _ => _ | None => _ end] => let E := fresh "E" in destruct x eqn:E
  end.

Ltac done := simpl in *; try congruence; try discriminate; auto.

(* ---- family: gateway ---- *)
Lemma gateway_guard s ep caller origin sender owners task biz :
  family_of ep = FGateway ->
  snd (evm_dispatch s ep caller origin sender owners task biz) = Accepted ->
  String.eqb caller (st_gateway s) = true.
Proof.
  intros F. unfold evm_dispatch. rewrite F.
  destruct (String.eqb caller (st_gateway s)); simpl; [reflexivity|discriminate].
Qed.

Lemma gateway_reject s ep caller origin sender owners task biz :
  family_of ep = FGateway ->
  String.eqb caller (st_gateway s) = false ->
  evm_dispatch s ep caller origin sender owners task biz = (s, ReturnedFalse).
Proof. intros F E. unfold evm_dispatch. rewrite F, E. reflexivity. Qed.

(* ---- family: AVS owner methods ---- *)
Lemma avs_register_guard s ep caller origin sender owners task biz :
  family_of ep = FAvsRegister ->
  snd (evm_dispatch s ep caller origin sender owners task biz) = Accepted ->
  mem sender owners = true /\ find_avs caller (st_avs s) = None.
Proof.
  intros F. unfold evm_dispatch. rewrite F.
  destruct (mem sender owners); simpl; [|discriminate].
  destruct (find_avs caller (st_avs s)); simpl; [discriminate|].
  destruct biz; simpl; [auto|discriminate].
Qed.

Definition owner_target (s : state) (ep : entry_point) (caller : addr) : option avs_rec :=
  match ep with
  | P_avs_createTask => find_avs_by_task caller (st_avs s)
  | _ => find_avs caller (st_avs s)
  end.

Lemma avs_owner_guard s ep caller origin sender owners task biz :
  family_of ep = FAvsOwner ->
  snd (evm_dispatch s ep caller origin sender owners task biz) = Accepted ->
  exists r, owner_target s ep caller = Some r /\ mem sender (avs_owners r) = true.
Proof.
  intros F. unfold evm_dispatch. rewrite F. fold (owner_target s ep caller).
  destruct (owner_target s ep caller) as [r|]; simpl; [|discriminate].
  destruct (mem sender (avs_owners r)) eqn:M; simpl; [|discriminate].
  intros _. eauto.
Qed.

(* ---- family: signer (standard ante branch) ---- *)
Lemma std_ante_signed from a : std_ante from a = true -> signed_by a from = true.
Proof.
  unfold std_ante. intro H.
  apply andb_prop in H. destruct H as [_ H].
  destruct (ta_infos a) as [|pk [|? ?]]; try discriminate.
  apply andb_prop in H. destruct H as [_ H]. exact H.
Qed.

Lemma std_ante_one_sig from a : std_ante from a = true -> ta_raw_sigs a = 1%nat /\ List.length (ta_infos a) = 1%nat.
Proof.
  unfold std_ante. intro H.
  apply andb_prop in H. destruct H as [H1 H].
  apply Nat.eqb_eq in H1.
  destruct (ta_infos a) as [|pk [|? ?]]; try discriminate. auto.
Qed.

(* ---- family: price (oracle ante branches, repaired) ---- *)
Lemma oracle_sig_ok_signed creator a : oracle_sig_ok creator a = true ->
  signed_by a creator = true /\ ta_infos a = [Some creator] /\ ta_raw_sigs a = 1%nat.
Proof.
  unfold oracle_sig_ok. intro H.
  apply andb_prop in H. destruct H as [H1 H]. apply Nat.eqb_eq in H1.
  destruct (ta_infos a) as [|[k|] [|? ?]]; try discriminate.
  apply andb_prop in H. destruct H as [Hk Hs]. apply String.eqb_eq in Hk. subst k. auto.
Qed.

Lemma check_nonce_validator v f n tab tab' :
  check_and_increase_nonce v f n tab = Some tab' -> is_validator v tab = true.
Proof.
  revert tab'. induction tab as [|[v0 l] t IH]; intros tab' H; simpl in *; [discriminate|].
  unfold is_validator in *. simpl.
  destruct (String.eqb v0 v) eqn:E; [reflexivity|].
  destruct (check_and_increase_nonce v f n t) eqn:E2; [|discriminate].
  simpl. exact (IH _ eq_refl).
Qed.

(* the key set of the nonce table (= validator set) is not changed by a nonce bump *)
Lemma check_nonce_keys v f n tab tab' :
  check_and_increase_nonce v f n tab = Some tab' -> map fst tab' = map fst tab.
Proof.
  revert tab'. induction tab as [|[v0 l] t IH]; intros tab' H; simpl in *; [discriminate|].
  destruct (String.eqb v0 v).
  - destruct (bump_feeder f n l); [|discriminate]. inversion H; reflexivity.
  - destruct (check_and_increase_nonce v f n t) eqn:E2; [|discriminate].
    inversion H; subst; simpl. f_equal. apply IH. reflexivity.
Qed.

(* ---- family: params ---- *)
Lemma params_handler_guard c s ep au gw biz :
  snd (params_handler c s ep au gw biz) = Accepted ->
  cfg_mainnet c = true -> String.eqb (st_authority s) au = true.
Proof.
  unfold params_handler. intros H M. rewrite M in H. simpl in H.
  destruct (String.eqb (st_authority s) au); simpl in *; [reflexivity|discriminate].
Qed.

(* ---- soundness of dispatch ---- *)
Lemma evm_sound s ep caller isc origin sender owners task biz c :
  known_gap ep = false ->
  snd (evm_dispatch s ep caller origin sender owners task biz) = Accepted ->
  authorized c s (CallEvm ep caller isc origin sender owners task biz) = true.
Proof.
  intros G H. unfold authorized.
  destruct (family_of ep) eqn:F.
  - exact (gateway_guard _ _ _ _ _ _ _ _ F H).
  - apply (avs_register_guard _ _ _ _ _ _ _ _ F) in H. tauto.
  - destruct (avs_owner_guard _ _ _ _ _ _ _ _ F H) as [r [T M]].
    unfold owner_target in T. rewrite T. exact M.
  - unfold known_gap in G. rewrite F in G. discriminate.
  - unfold known_gap in G. rewrite F in G. discriminate.
  - unfold known_gap in G. rewrite F in G. discriminate.
  - unfold evm_dispatch in H. rewrite F in H. discriminate.
  - unfold evm_dispatch in H. rewrite F in H. discriminate.
  - unfold evm_dispatch in H. rewrite F in H. discriminate.
  - unfold evm_dispatch in H. rewrite F in H. discriminate.
  - unfold evm_dispatch in H. rewrite F in H. discriminate.
Qed.

Lemma tx_sound c s ep p subj stg f n a gw biz :
  snd (tx_dispatch c s ep p subj stg f n a gw biz) = Accepted ->
  authorized c s (CallTx ep p subj stg f n a gw biz) = true.
Proof.
  intro H. unfold authorized. unfold tx_dispatch in H.
  destruct (family_of ep) eqn:F; try (simpl in H; discriminate).
  - (* FSigner *)
    destruct (std_ante p a) eqn:A; simpl in H; [|discriminate].
    exact (std_ante_signed _ _ A).
  - (* FSignerSubject *)
    destruct (std_ante p a) eqn:A; simpl in H; [|discriminate].
    destruct (String.eqb p subj) eqn:E; simpl in H; [|discriminate].
    rewrite (std_ante_signed _ _ A). reflexivity.
  - (* FStubPanic: never accepted *)
    destruct (std_ante p a); simpl in H; discriminate.
  - (* FPrice *)
    destruct (oracle_sig_ok p a) eqn:A; simpl in H; [|discriminate].
    destruct (check_and_increase_nonce p f n (st_nonces s)) eqn:Nn; simpl in H; [|discriminate].
    destruct (oracle_sig_ok_signed _ _ A) as [Sg _]. rewrite Sg.
    rewrite (check_nonce_validator _ _ _ _ _ Nn). reflexivity.
  - (* FParams *)
    destruct (std_ante p a) eqn:A; simpl in H; [|discriminate].
    rewrite (std_ante_signed _ _ A). simpl.
    destruct (cfg_mainnet c) eqn:M; [|reflexivity].
    pose proof (params_handler_guard _ _ _ _ _ _ H M) as E.
    rewrite String.eqb_sym. exact E.
Qed.

Lemma dispatch_sound c s cl :
  known_gap (ep_of cl) = false ->
  snd (dispatch c s cl) = Accepted -> authorized c s cl = true.
Proof.
  destruct cl as [ep caller isc origin sender owners task biz | ep p subj stg f n a gw biz | ep gw biz]; intros G H;
    simpl in G, H.
  - apply evm_sound; assumption.
  - apply tx_sound; assumption.
  - simpl. destruct (family_of ep); simpl in H; try discriminate. reflexivity.
Qed.

(* ---- rejected => nothing changed ---- *)
Lemma evm_not_accepted_same s ep caller origin sender owners task biz :
  snd (evm_dispatch s ep caller origin sender owners task biz) <> Accepted ->
  fst (evm_dispatch s ep caller origin sender owners task biz) = s.
Proof.
  unfold evm_dispatch.
  destruct (family_of ep); simpl; intros H; repeat brk1; simpl in *; try reflexivity; try (exfalso; apply H; reflexivity);
  destruct ep; simpl in *; try reflexivity; try (exfalso; apply H; reflexivity).
Qed.

Lemma params_not_accepted_same c s ep au gw biz :
  snd (params_handler c s ep au gw biz) <> Accepted -> fst (params_handler c s ep au gw biz) = s.
Proof.
  unfold params_handler. intros H. repeat brk1; simpl in *; try reflexivity;
  destruct ep; simpl in *; try reflexivity; exfalso; apply H; reflexivity.
Qed.

(* states that differ at most in the oracle nonce table, whose validator set is the same *)
Definition same_but_nonces (s s' : state) : Prop :=
  st_gateway s' = st_gateway s /\ st_avs s' = st_avs s /\ st_authority s' = st_authority s /\
  st_log s' = st_log s /\ map fst (st_nonces s') = map fst (st_nonces s).

Lemma same_but_nonces_refl s : same_but_nonces s s.
Proof. unfold same_but_nonces; auto. Qed.

Lemma tx_not_accepted c s ep p subj stg f n a gw biz :
  snd (tx_dispatch c s ep p subj stg f n a gw biz) <> Accepted ->
  let s' := fst (tx_dispatch c s ep p subj stg f n a gw biz) in
  s' = s \/ (ep = M_oracle_CreatePrice /\ snd (tx_dispatch c s ep p subj stg f n a gw biz) = RejectedMsg /\
             authorized c s (CallTx ep p subj stg f n a gw biz) = true /\ same_but_nonces s s').
Proof.
  intro H. simpl. unfold tx_dispatch in *.
  destruct (family_of ep) eqn:F; simpl in *; auto.
  - destruct (std_ante p a); simpl in *; auto. destruct biz; simpl in *; auto. exfalso; apply H; reflexivity.
  - destruct (std_ante p a); simpl in *; auto. destruct (String.eqb p subj); simpl in *; auto.
    destruct (negb ((stg =? 1)%N || (stg =? 2)%N)); simpl in *; auto.
    destruct biz; simpl in *; auto. exfalso; apply H; reflexivity.
  - destruct (std_ante p a); simpl in *; auto.
  - destruct (oracle_sig_ok p a) eqn:A; simpl in *; auto.
    destruct (check_and_increase_nonce p f n (st_nonces s)) eqn:Nn; simpl in *; auto.
    destruct biz; simpl in *; [exfalso; apply H; reflexivity|].
    right. split; [destruct ep; simpl in F; try discriminate; reflexivity|].
    split; [reflexivity|]. split.
    + unfold authorized; try rewrite F; simpl. destruct (oracle_sig_ok_signed _ _ A) as [Sg _]. rewrite Sg.
      rewrite (check_nonce_validator _ _ _ _ _ Nn). reflexivity.
    + unfold same_but_nonces; simpl. repeat split; auto. exact (check_nonce_keys _ _ _ _ _ Nn).
  - destruct (std_ante p a); simpl in *; auto. left. apply params_not_accepted_same. exact H.
Qed.

Lemma dispatch_unauthorized_same c s cl :
  known_gap (ep_of cl) = false -> authorized c s cl = false -> dispatch c s cl = (s, snd (dispatch c s cl)) /\ snd (dispatch c s cl) <> Accepted.
Proof.
  intros G U.
  assert (NA : snd (dispatch c s cl) <> Accepted).
  { intro A. rewrite (dispatch_sound _ _ _ G A) in U. discriminate. }
  split; [|exact NA].
  destruct cl as [ep caller isc origin sender owners task biz | ep p subj stg f n a gw biz | ep gw biz]; simpl in *.
  - pose proof (evm_not_accepted_same _ _ _ _ _ _ _ _ NA) as E.
    destruct (evm_dispatch s ep caller origin sender owners task biz) as [s' v]; simpl in *. subst. reflexivity.
  - destruct (tx_not_accepted _ _ _ _ _ _ _ _ _ _ _ NA) as [E | [_ [_ [Au _]]]].
    + destruct (tx_dispatch c s ep p subj stg f n a gw biz) as [s' v]; simpl in *. subst. reflexivity.
    + simpl in Au. congruence.
  - destruct (family_of ep); simpl in *; try reflexivity; discriminate.
Qed.

Lemma dispatch_rejected_early_same c s cl :
  (snd (dispatch c s cl) = RejectedAnte \/ snd (dispatch c s cl) = ReturnedFalse \/ snd (dispatch c s cl) = NoSuchEntry) ->
  fst (dispatch c s cl) = s.
Proof.
  intros H.
  assert (NA : snd (dispatch c s cl) <> Accepted) by (destruct H as [H|[H|H]]; rewrite H; discriminate).
  destruct cl as [ep caller isc origin sender owners task biz | ep p subj stg f n a gw biz | ep gw biz]; simpl in *.
  - exact (evm_not_accepted_same _ _ _ _ _ _ _ _ NA).
  - destruct (tx_not_accepted _ _ _ _ _ _ _ _ _ _ _ NA) as [E | [_ [R _]]]; [exact E|].
    destruct H as [H|[H|H]]; rewrite H in R; discriminate.
  - destruct (family_of ep); simpl in *; try reflexivity. apply params_not_accepted_same. exact NA.
Qed.

(* ---- runs ---- *)
Lemma accepted_in_sound c cs : forall s,
  Forall (fun sc => known_gap (ep_of (snd sc)) = true \/ authorized c (fst sc) (snd sc) = true) (accepted_in c s cs).
Proof.
  induction cs as [|x r IH]; intro s; simpl; [constructor|].
  destruct (dispatch c s x) as [s' v] eqn:D.
  apply Forall_app. split; [|apply IH].
  destruct (verdict_eqb v Accepted) eqn:V; [|constructor].
  constructor; [|constructor]. simpl.
  destruct (known_gap (ep_of x)) eqn:G; [left; reflexivity|right].
  apply dispatch_sound; [exact G|]. rewrite D. simpl. destruct v; simpl in V; try discriminate. reflexivity.
Qed.

(* ---- frames: who can change the gateway / an AVS record ---- *)
Lemma evm_gateway_frame s ep caller origin sender owners task biz :
  st_gateway (fst (evm_dispatch s ep caller origin sender owners task biz)) = st_gateway s.
Proof.
  unfold evm_dispatch. destruct (family_of ep); simpl; repeat brk1; simpl; try reflexivity;
  destruct ep; simpl; reflexivity.
Qed.

Lemma dispatch_gateway_frame c s cl :
  st_gateway (fst (dispatch c s cl)) <> st_gateway s ->
  ep_of cl = M_assets_UpdateParams /\ snd (dispatch c s cl) = Accepted.
Proof.
  destruct cl as [ep caller isc origin sender owners task biz | ep p subj stg f n a gw biz | ep gw biz]; simpl.
  - intro H. exfalso. apply H. apply evm_gateway_frame.
  - unfold tx_dispatch. destruct (family_of ep) eqn:F; simpl; try (intro H; exfalso; apply H; reflexivity);
      repeat brk1; simpl; try (intro H; exfalso; apply H; reflexivity).
    unfold params_handler. repeat brk1; simpl; try (intro H; exfalso; apply H; reflexivity).
    destruct ep; simpl in *; try discriminate; try (intro H; exfalso; apply H; reflexivity). auto.
  - destruct (family_of ep) eqn:F; simpl; try (intro H; exfalso; apply H; reflexivity).
    unfold params_handler. repeat brk1; simpl; try (intro H; exfalso; apply H; reflexivity).
    destruct ep; simpl in *; try discriminate; try (intro H; exfalso; apply H; reflexivity). auto.
Qed.

Lemma find_avs_remove_other a b l : String.eqb b a = false -> find_avs a (remove_avs b l) = find_avs a l.
Proof.
  intro N. unfold find_avs, remove_avs. induction l as [|x t IH]; simpl; [reflexivity|].
  destruct (String.eqb (avs_addr x) b) eqn:E; simpl.
  - apply String.eqb_eq in E. rewrite E, N. exact IH.
  - destruct (String.eqb (avs_addr x) a); [reflexivity|exact IH].
Qed.

Lemma find_avs_set_other a r l : String.eqb (avs_addr r) a = false -> find_avs a (set_avs r l) = find_avs a l.
Proof.
  intro N. unfold find_avs. induction l as [|x t IH]; simpl; [rewrite N; reflexivity|].
  destruct (String.eqb (avs_addr x) (avs_addr r)) eqn:E; simpl.
  - apply String.eqb_eq in E. rewrite E, N. reflexivity.
  - destruct (String.eqb (avs_addr x) a); [reflexivity|exact IH].
Qed.

Lemma find_avs_app_other a r l : String.eqb (avs_addr r) a = false -> find_avs a (l ++ [r]) = find_avs a l.
Proof.
  intro N. unfold find_avs. induction l as [|x t IH]; simpl; [rewrite N; reflexivity|].
  destruct (String.eqb (avs_addr x) a); [reflexivity|exact IH].
Qed.

Lemma find_avs_addr a l r : find_avs a l = Some r -> avs_addr r = a.
Proof.
  unfold find_avs. intro H. apply find_some in H. destruct H as [_ H]. apply String.eqb_eq. exact H.
Qed.

(* the record of AVS [a] is only ever touched by a call coming from address [a] itself *)
Lemma evm_avs_frame s ep caller origin sender owners task biz a :
  String.eqb caller a = false ->
  find_avs a (st_avs (fst (evm_dispatch s ep caller origin sender owners task biz))) = find_avs a (st_avs s).
Proof.
  intro N. unfold evm_dispatch.
  destruct ep; simpl; repeat brk1; simpl; try reflexivity;
  try (apply find_avs_app_other; simpl; exact N);
  try (apply find_avs_set_other; simpl); try (apply find_avs_remove_other);
  match goal with H : find_avs caller _ = Some ?r |- _ => rewrite (find_avs_addr _ _ _ H) end; exact N.
Qed.

(* ---- the list used by the inventory tie and by the examples really contains every constructor ---- *)
Lemma all_entry_points_complete : forall ep, In ep all_entry_points.
Proof. intro ep. destruct ep; simpl; tauto. Qed.

Lemma ep_name_injective : forall a b, ep_name a = ep_name b -> a = b.
Proof. intros a b. destruct a; destruct b; simpl; intro H; try reflexivity; discriminate H. Qed.

(* ---- histories without governance: the gateway parameter cannot move ---- *)
Lemma evm_authority_frame s ep caller origin sender owners task biz :
  st_authority (fst (evm_dispatch s ep caller origin sender owners task biz)) = st_authority s.
Proof.
  unfold evm_dispatch. destruct (family_of ep); simpl; repeat brk1; simpl; try reflexivity;
  destruct ep; simpl; reflexivity.
Qed.

Lemma dispatch_authority_frame c s cl : st_authority (fst (dispatch c s cl)) = st_authority s.
Proof.
  destruct cl as [ep caller isc origin sender owners task biz | ep p subj stg f n a gw biz | ep gw biz]; simpl.
  - apply evm_authority_frame.
  - unfold tx_dispatch, params_handler. destruct (family_of ep); simpl; repeat brk1; simpl; try reflexivity;
    destruct ep; simpl; reflexivity.
  - unfold params_handler. destruct (family_of ep); simpl; repeat brk1; simpl; try reflexivity;
    destruct ep; simpl; reflexivity.
Qed.

(* a call that governance has no part in: not executed by the gov module, not signed by the authority's key *)
Definition not_gov (authority : addr) (cl : call) : bool :=
  match cl with
  | CallGov _ _ _ => false
  | CallTx _ _ _ _ _ _ a _ _ => negb (signed_by a authority)
  | CallEvm _ _ _ _ _ _ _ _ => true
  end.

Lemma dispatch_gateway_needs_gov c s cl :
  cfg_mainnet c = true -> not_gov (st_authority s) cl = true ->
  st_gateway (fst (dispatch c s cl)) = st_gateway s.
Proof.
  intros M NG.
  destruct (String.eqb (st_gateway (fst (dispatch c s cl))) (st_gateway s)) eqn:E;
    [apply String.eqb_eq; exact E|].
  exfalso. apply String.eqb_neq in E.
  destruct (dispatch_gateway_frame c s cl E) as [EP A].
  assert (Au : authorized c s cl = true) by (apply dispatch_sound; [rewrite EP; reflexivity|exact A]).
  destruct cl as [ep caller isc origin sender owners task biz | ep p subj stg f n a gw biz | ep gw biz];
    simpl in EP, NG; subst ep; simpl in Au.
  - discriminate.
  - rewrite M in Au. apply andb_prop in Au. destruct Au as [Sg Eq]. apply String.eqb_eq in Eq. subst p.
    rewrite Sg in NG. discriminate.
  - discriminate.
Qed.

Lemma run_gateway_stable c : cfg_mainnet c = true -> forall cs s,
  forallb (not_gov (st_authority s)) cs = true ->
  st_gateway (run c s cs) = st_gateway s /\ st_authority (run c s cs) = st_authority s.
Proof.
  intros M cs. induction cs as [|x r IH]; intros s H; simpl in *; [auto|].
  apply andb_prop in H. destruct H as [Hx Hr].
  pose proof (dispatch_authority_frame c s x) as Af.
  pose proof (dispatch_gateway_needs_gov c s x M Hx) as Gf.
  destruct (IH (fst (dispatch c s x))) as [G A]; [rewrite Af; exact Hr|].
  split; congruence.
Qed.

(* ---- the four gap entry points: what IS guaranteed ---- *)
Lemma gap_accept_shape c s cl :
  known_gap (ep_of cl) = true -> snd (dispatch c s cl) = Accepted ->
  gap_guarantee s cl = true /\
  exists ep caller isc origin sender owners task biz,
    cl = CallEvm ep caller isc origin sender owners task biz /\ fst (dispatch c s cl) = log_effect s ep sender.
Proof.
  destruct cl as [ep caller isc origin sender owners task biz | ep p subj stg f n a gw biz | ep gw biz];
    unfold known_gap; simpl; intros G H.
  - unfold evm_dispatch in *. unfold gap_guarantee.
    destruct (family_of ep) eqn:F; try discriminate G.
    + destruct (find_avs caller (st_avs s)); simpl in *; [|discriminate].
      destruct biz; simpl in *; [|discriminate].
      split; [reflexivity|]. exists ep, caller, isc, origin, sender, owners, task, true. split; reflexivity.
    + destruct biz; simpl in *; [|discriminate]. split; [reflexivity|]. exists ep, caller, isc, origin, sender, owners, task, true. split; reflexivity.
    + destruct (find_avs_by_task caller (st_avs s)); simpl in *; [|discriminate].
      destruct biz; simpl in *; [|discriminate].
      split; [reflexivity|]. exists ep, caller, isc, origin, sender, owners, task, true. split; reflexivity.
  - unfold tx_dispatch in H. destruct (family_of ep); simpl in H; try discriminate G; discriminate H.
  - destruct (family_of ep); simpl in H; try discriminate G; discriminate H.
Qed.

Lemma dispatch_sound_total c s cl :
  snd (dispatch c s cl) = Accepted ->
  authorized c s cl = true \/ (known_gap (ep_of cl) = true /\ gap_guarantee s cl = true).
Proof.
  intro H. destruct (known_gap (ep_of cl)) eqn:G.
  - right. split; [reflexivity|]. exact (proj1 (gap_accept_shape c s cl G H)).
  - left. exact (dispatch_sound c s cl G H).
Qed.
