(* C10/Model.v — privileged entry points and their caller guards (executable definitions only).

   Transcribed from (REPAIRED code, see repo_patches/fix-c10-oracle-sigverify.patch):
     precompiles/assets/tx.go, precompiles/delegation/tx.go, precompiles/reward/methods.go,
     precompiles/slash/methods.go            -> CheckExocoreGatewayAddr(ctx, contract.CallerAddress)
     precompiles/avs/tx.go, x/avs/keeper/keeper.go (UpdateAVSInfo, CreateAVSTask, OperatorOptAction,
       RaiseAndResolveChallenge), x/avs/keeper/bls... -> AVS address := contract.CallerAddress, owner list checks
     x/operator/types/msg.go, x/avs/types/msg.go, x/delegation/types/msg.go (GetSigners) +
       app/ante/cosmos/sigverify.go (standard branch)  -> signer family
     app/ante/cosmos/sigverify.go (IsOracleCreatePriceTx branches of SetPubKeyDecorator,
       SigVerificationDecorator, IncrementSequenceDecorator), x/oracle/keeper/nonce.go -> price family
     x/{oracle,dogfood,assets,exomint,feedistribution}/keeper UpdateParams + utils.IsMainnet -> params family

   Addresses are kept as the text the code compares (lower-case 0x-hex for EVM addresses, bech32 for account
   addresses).  A public key is identified with the address derived from it (address derivation is assumed
   injective, see trusted base).  Signature validity is an explicit input: [ta_signed_by] names the key whose
   private half really produced the signature over the sign bytes the verifier recomputes (None = garbage,
   missing, other bytes, other chain id). *)
From Coq Require Import List String Bool NArith Arith.
From Exo Require Import Base.Util.
Import ListNotations.
Local Open Scope string_scope.

Definition addr := string.

(* ---- inventory: every state-changing precompile method and every Msg service method ---- *)
(* The constructor list is tied to the repository by tools/c10scan (see coq/C10/entry_points.txt). *)
Inductive entry_point :=
| P_assets_depositLST | P_assets_depositNST | P_assets_withdrawLST | P_assets_withdrawNST
| P_assets_registerOrUpdateClientChain | P_assets_registerToken | P_assets_updateToken
| P_delegation_delegate | P_delegation_undelegate
| P_delegation_associateOperatorWithStaker | P_delegation_dissociateOperatorFromStaker
| P_avs_registerAVS | P_avs_updateAVS | P_avs_deregisterAVS
| P_avs_registerOperatorToAVS | P_avs_deregisterOperatorFromAVS
| P_avs_createTask | P_avs_registerBLSPublicKey | P_avs_challenge
| P_reward_claimReward | P_slash_submitSlash
| M_operator_RegisterOperator | M_operator_SetConsKey | M_operator_OptIntoAVS | M_operator_OptOutOfAVS
| M_avs_RegisterAVS | M_avs_DeRegisterAVS | M_avs_RegisterAVSTask | M_avs_SubmitTaskResult
| M_delegation_DelegateAssetToOperator | M_delegation_UndelegateAssetFromOperator
| M_oracle_CreatePrice | M_oracle_UpdateParams
| M_dogfood_UpdateParams | M_assets_UpdateParams | M_exomint_UpdateParams | M_feedistribution_UpdateParams.

Definition all_entry_points : list entry_point :=
  [P_assets_depositLST; P_assets_depositNST; P_assets_withdrawLST; P_assets_withdrawNST;
   P_assets_registerOrUpdateClientChain; P_assets_registerToken; P_assets_updateToken;
   P_delegation_delegate; P_delegation_undelegate;
   P_delegation_associateOperatorWithStaker; P_delegation_dissociateOperatorFromStaker;
   P_avs_registerAVS; P_avs_updateAVS; P_avs_deregisterAVS;
   P_avs_registerOperatorToAVS; P_avs_deregisterOperatorFromAVS;
   P_avs_createTask; P_avs_registerBLSPublicKey; P_avs_challenge;
   P_reward_claimReward; P_slash_submitSlash;
   M_operator_RegisterOperator; M_operator_SetConsKey; M_operator_OptIntoAVS; M_operator_OptOutOfAVS;
   M_avs_RegisterAVS; M_avs_DeRegisterAVS; M_avs_RegisterAVSTask; M_avs_SubmitTaskResult;
   M_delegation_DelegateAssetToOperator; M_delegation_UndelegateAssetFromOperator;
   M_oracle_CreatePrice; M_oracle_UpdateParams;
   M_dogfood_UpdateParams; M_assets_UpdateParams; M_exomint_UpdateParams; M_feedistribution_UpdateParams].

(* guard families *)
Inductive family :=
| FGateway        (* precompile: contract.CallerAddress must equal assets Params.ExocoreLzAppAddress *)
| FAvsRegister    (* AVS := caller's own address; args[0] must be in the owner list being registered *)
| FAvsOwner       (* AVS := caller's own address (or the AVS whose task address is the caller); args[0] in stored owner list *)
| FAvsOperator    (* AVS := caller's own address; operator := args[0], no further check *)
| FAvsBls         (* operator := args[0]; neither the caller nor the origin is looked at *)
| FAvsChallenge   (* task contract := caller's own address; challenger := args[0], no owner check *)
| FSigner         (* Cosmos message acting for its FromAddress; standard signature verification *)
| FSignerSubject  (* as FSigner, and the operator named inside the payload must equal FromAddress *)
| FStubPanic      (* Msg handler is `panic("implement me")` *)
| FPrice          (* oracle price submission: custom ante branches *)
| FParams.        (* UpdateParams: IsMainnet && authority != msg.Authority => reject *)

Definition family_of (ep : entry_point) : family :=
  match ep with
  | P_assets_depositLST | P_assets_depositNST | P_assets_withdrawLST | P_assets_withdrawNST
  | P_assets_registerOrUpdateClientChain | P_assets_registerToken | P_assets_updateToken
  | P_delegation_delegate | P_delegation_undelegate
  | P_delegation_associateOperatorWithStaker | P_delegation_dissociateOperatorFromStaker
  | P_reward_claimReward | P_slash_submitSlash => FGateway
  | P_avs_registerAVS => FAvsRegister
  | P_avs_updateAVS | P_avs_deregisterAVS | P_avs_createTask => FAvsOwner
  | P_avs_registerOperatorToAVS | P_avs_deregisterOperatorFromAVS => FAvsOperator
  | P_avs_registerBLSPublicKey => FAvsBls
  | P_avs_challenge => FAvsChallenge
  | M_operator_RegisterOperator | M_operator_SetConsKey | M_operator_OptIntoAVS | M_operator_OptOutOfAVS
  | M_delegation_DelegateAssetToOperator | M_delegation_UndelegateAssetFromOperator => FSigner
  | M_avs_SubmitTaskResult => FSignerSubject
  | M_avs_RegisterAVS | M_avs_DeRegisterAVS | M_avs_RegisterAVSTask => FStubPanic
  | M_oracle_CreatePrice => FPrice
  | M_oracle_UpdateParams | M_dogfood_UpdateParams | M_assets_UpdateParams
  | M_exomint_UpdateParams | M_feedistribution_UpdateParams => FParams
  end.

Definition is_precompile (ep : entry_point) : bool :=
  match family_of ep with
  | FGateway | FAvsRegister | FAvsOwner | FAvsOperator | FAvsBls | FAvsChallenge => true
  | _ => false
  end.

(* ---- configuration and authorization-relevant state ---- *)
Record cfg := mkCfg { cfg_mainnet : bool }.   (* utils.IsMainnet(ctx.ChainID()) *)

Record avs_rec := mkAvs { avs_addr : addr; avs_owners : list addr; avs_task_addr : addr }.

(* oracle nonce store: validator consensus address -> [(feederID, last nonce)] *)
Definition nonce_tab := list (addr * list (N * N)).

Record state := mkState {
  st_gateway : addr;          (* common.HexToAddress(Params.ExocoreLzAppAddress), lower-case hex *)
  st_avs : list avs_rec;      (* x/avs AVSInfo records (address, AvsOwnerAddress, TaskAddr) *)
  st_authority : addr;        (* keeper authority = gov module account *)
  st_nonces : nonce_tab;      (* x/oracle nonce store; its key set is the oracle's validator set *)
  st_log : list (entry_point * addr)   (* ghost: accepted effects, newest first, with the principal acted for *)
}.

(* ---- callers ---- *)
(* what a Cosmos transaction carries as authentication for its single signer *)
Record txauth := mkAuth {
  ta_raw_sigs : nat;               (* len(tx.Signatures) *)
  ta_infos : list (option addr);   (* AuthInfo.SignerInfos: public key (as its address) or nil *)
  ta_signed_by : option addr;      (* key that really signed the expected sign bytes (signature 0) *)
  ta_account_ok : bool             (* standard path only: account exists with a key, sequence matches, fee payable *)
}.

Inductive call :=
| CallEvm (ep : entry_point)
          (caller : addr)          (* contract.CallerAddress *)
          (is_contract : bool)     (* caller has code (contract) or not (EOA); no guard reads it *)
          (origin : addr)          (* evm.Origin = signer of the Ethereum transaction *)
          (sender_arg : addr)      (* args[0] of AVS methods (as bech32 account address); "" otherwise *)
          (new_owners : list addr) (* registerAVS / updateAVS: owner list in the payload *)
          (new_task : addr)        (* registerAVS / updateAVS: task contract address in the payload ("" = none) *)
          (biz_ok : bool)          (* the business logic behind the guard accepts this payload in this state *)
| CallTx (ep : entry_point)
         (principal : addr)        (* FromAddress / Creator / Authority of the message = its GetSigners *)
         (subject : addr)          (* operator named in the payload (SubmitTaskResult), else = principal *)
         (stage : N)               (* SubmitTaskResult: 1 = phase-one commit, 2 = phase-two reveal; 0 elsewhere *)
         (feeder nonce : N)        (* price submission: feeder id and nonce *)
         (auth : txauth)
         (new_gateway : addr)      (* assets UpdateParams: gateway address in the new params *)
         (biz_ok : bool)
| CallGov (ep : entry_point)       (* message executed by the gov module through the Msg router (no ante);
                                      gov only executes messages whose signer is the gov account *)
          (new_gateway : addr)
          (biz_ok : bool).

Definition ep_of (c : call) : entry_point :=
  match c with CallEvm ep _ _ _ _ _ _ _ | CallTx ep _ _ _ _ _ _ _ _ | CallGov ep _ _ => ep end.

Inductive verdict :=
| Accepted        (* the entry point took effect *)
| RejectedAnte    (* Cosmos: rejected by the ante handler, nothing is written *)
| RejectedMsg     (* Cosmos: authenticated transaction, handler returned an error or panicked *)
| ReturnedFalse   (* precompile: error swallowed into `false` *)
| NoSuchEntry.    (* call shape does not fit the entry point (EVM call of a Msg, ...) *)

Definition verdict_eqb (a b : verdict) : bool :=
  match a, b with
  | Accepted, Accepted | RejectedAnte, RejectedAnte | RejectedMsg, RejectedMsg
  | ReturnedFalse, ReturnedFalse | NoSuchEntry, NoSuchEntry => true
  | _, _ => false
  end.

(* ---- helpers ---- *)
Definition mem (a : addr) (l : list addr) : bool := existsb (String.eqb a) l.

Definition find_avs (a : addr) (l : list avs_rec) : option avs_rec :=
  find (fun r => String.eqb (avs_addr r) a) l.

(* GetAVSInfoByTaskAddress: first record whose TaskAddr is the given address *)
Definition find_avs_by_task (a : addr) (l : list avs_rec) : option avs_rec :=
  find (fun r => String.eqb (avs_task_addr r) a) l.

Definition remove_avs (a : addr) (l : list avs_rec) : list avs_rec :=
  filter (fun r => negb (String.eqb (avs_addr r) a)) l.

Fixpoint set_avs (r : avs_rec) (l : list avs_rec) : list avs_rec :=
  match l with
  | [] => [r]
  | x :: t => if String.eqb (avs_addr x) (avs_addr r) then r :: t else x :: set_avs r t
  end.

Definition log_effect (s : state) (ep : entry_point) (who : addr) : state :=
  mkState (st_gateway s) (st_avs s) (st_authority s) (st_nonces s) ((ep, who) :: st_log s).

Definition with_avs (s : state) (l : list avs_rec) : state :=
  mkState (st_gateway s) l (st_authority s) (st_nonces s) (st_log s).

Definition with_gateway (s : state) (g : addr) : state :=
  mkState g (st_avs s) (st_authority s) (st_nonces s) (st_log s).

Definition with_nonces (s : state) (n : nonce_tab) : state :=
  mkState (st_gateway s) (st_avs s) (st_authority s) n (st_log s).

(* x/oracle/keeper/nonce.go CheckAndIncreaseNonce: validator found, feeder found, nonce = last + 1
   (the uint32 range check against MaxNonce belongs to C12/C13; the harness stays inside it) *)
Fixpoint bump_feeder (feeder nonce : N) (l : list (N * N)) : option (list (N * N)) :=
  match l with
  | [] => None                                                    (* "feeder not found" *)
  | (f, v) :: t =>
      if N.eqb f feeder
      then if N.eqb (v + 1) nonce then Some ((f, nonce) :: t) else None   (* "nonce is not consecutive" *)
      else match bump_feeder feeder nonce t with Some t' => Some ((f, v) :: t') | None => None end
  end.

Fixpoint check_and_increase_nonce (validator : addr) (feeder nonce : N) (tab : nonce_tab) : option nonce_tab :=
  match tab with
  | [] => None                                                    (* "validator not found" *)
  | (v, l) :: t =>
      if String.eqb v validator
      then match bump_feeder feeder nonce l with Some l' => Some ((v, l') :: t) | None => None end
      else match check_and_increase_nonce validator feeder nonce t with
           | Some t' => Some ((v, l) :: t') | None => None end
  end.

Definition is_validator (a : addr) (tab : nonce_tab) : bool := existsb (fun p => String.eqb (fst p) a) tab.

Definition signed_by (a : txauth) (k : addr) : bool :=
  match ta_signed_by a with Some k' => String.eqb k' k | None => false end.

(* ---- ante handler, standard branch (app/ante/cosmos/sigverify.go non-oracle code + SDK ValidateBasic) ----
   one message, one signer [from]:
     tx.ValidateBasic            : len(Signatures) <> 0 and = len(GetSigners) = 1
     SetPubKeyDecorator          : every non-nil public key must hash to its signer; index past the signer list panics
     SigVerificationDecorator    : len(GetSignaturesV2) (= number of signer infos) = 1; account key present,
                                   sequence equal, signature verifies under the ACCOUNT's key, whose address is [from] *)
Definition std_ante (from : addr) (a : txauth) : bool :=
  Nat.eqb (ta_raw_sigs a) 1 &&
  match ta_infos a with
  | [pk] =>
      (match pk with Some k => String.eqb k from | None => true end) &&
      ta_account_ok a &&
      signed_by a from
  | _ => false
  end.

(* ---- ante handler, oracle branch as REPAIRED ----
     tx.ValidateBasic             : as above
     SetPubKeyDecorator (oracle)  : len(pubKeys) = len(signers); no nil key; every key hashes to its signer
     SigVerificationDecorator     : len(sigs) = len(pubKeys) = len(signers) <> 0; key hashes to signer;
                                    VerifySignature(key, signBytes(chain id), sig) must be TRUE
     IncrementSequenceDecorator   : CheckAndIncreaseNonce(ConsAddress(creator), feeder, nonce) *)
Definition oracle_sig_ok (creator : addr) (a : txauth) : bool :=
  Nat.eqb (ta_raw_sigs a) 1 &&
  match ta_infos a with
  | [Some k] => String.eqb k creator && signed_by a k
  | _ => false
  end.

(* the same branch as it was BEFORE the repair: the verification result is dropped, counts are not compared *)
Definition oracle_sig_ok_unfixed (creator : addr) (a : txauth) : bool :=
  Nat.eqb (ta_raw_sigs a) 1 &&
  match ta_infos a with
  | [] => true                                  (* no key: neither loop body runs *)
  | [Some k] => String.eqb k creator            (* address binding only *)
  | _ => false                                  (* nil key or index past the signer list: panic, recovered as an error *)
  end.

(* ---- dispatch ---- *)
Definition evm_dispatch (s : state) (ep : entry_point) (caller origin sender : addr) (new_owners : list addr)
           (new_task : addr) (biz_ok : bool) : state * verdict :=
  match family_of ep with
  | FGateway =>
      if negb (String.eqb caller (st_gateway s)) then (s, ReturnedFalse)
      else if biz_ok then (log_effect s ep caller, Accepted) else (s, ReturnedFalse)
  | FAvsRegister =>
      (* slices.Contains(avsParams.AvsOwnerAddress, avsParams.CallerAddress), then UpdateAVSInfo(Register):
         the AVS must not exist yet *)
      if negb (mem sender new_owners) then (s, ReturnedFalse)
      else match find_avs caller (st_avs s) with
           | Some _ => (s, ReturnedFalse)
           | None =>
               if biz_ok
               then (log_effect (with_avs s (st_avs s ++ [mkAvs caller new_owners new_task])) ep caller, Accepted)
               else (s, ReturnedFalse)
           end
  | FAvsOwner =>
      let target := match ep with
                    | P_avs_createTask => find_avs_by_task caller (st_avs s)
                    | _ => find_avs caller (st_avs s)
                    end in
      match target with
      | None => (s, ReturnedFalse)
      | Some r =>
          if negb (mem sender (avs_owners r)) then (s, ReturnedFalse)
          else if negb biz_ok then (s, ReturnedFalse)
          else match ep with
               | P_avs_deregisterAVS =>
                   (log_effect (with_avs s (remove_avs (avs_addr r) (st_avs s))) ep (avs_addr r), Accepted)
               | P_avs_updateAVS =>
                   (* GetAVSParamsFromUpdateInputs always yields a non-nil owner list and a non-empty task
                      address, so UpdateAVSInfo(Update) always replaces both *)
                   (log_effect (with_avs s (set_avs (mkAvs (avs_addr r) new_owners new_task) (st_avs s)))
                               ep (avs_addr r), Accepted)
               | _ => (log_effect s ep (avs_addr r), Accepted)
               end
      end
  | FAvsOperator =>
      match find_avs caller (st_avs s) with
      | None => (s, ReturnedFalse)
      | Some _ => if biz_ok then (log_effect s ep sender, Accepted) else (s, ReturnedFalse)
      end
  | FAvsBls =>
      if biz_ok then (log_effect s ep sender, Accepted) else (s, ReturnedFalse)
  | FAvsChallenge =>
      (* RaiseAndResolveChallenge looks the task up under the caller's address and needs the AVS that owns this
         task address (for its epoch); the owner list of that AVS is never consulted *)
      match find_avs_by_task caller (st_avs s) with
      | None => (s, ReturnedFalse)
      | Some _ => if biz_ok then (log_effect s ep sender, Accepted) else (s, ReturnedFalse)
      end
  | _ => (s, NoSuchEntry)
  end.

Definition params_handler (c : cfg) (s : state) (ep : entry_point) (authority_field new_gateway : addr)
           (biz_ok : bool) : state * verdict :=
  if cfg_mainnet c && negb (String.eqb (st_authority s) authority_field) then (s, RejectedMsg)
  else if negb biz_ok then (s, RejectedMsg)
  else match ep with
       | M_assets_UpdateParams => (log_effect (with_gateway s new_gateway) ep authority_field, Accepted)
       | _ => (log_effect s ep authority_field, Accepted)
       end.

Definition tx_dispatch (c : cfg) (s : state) (ep : entry_point) (principal subject : addr) (stage feeder nonce : N)
           (a : txauth) (new_gateway : addr) (biz_ok : bool) : state * verdict :=
  match family_of ep with
  | FSigner =>
      if negb (std_ante principal a) then (s, RejectedAnte)
      else if biz_ok then (log_effect s ep principal, Accepted) else (s, RejectedMsg)
  | FSignerSubject =>
      if negb (std_ante principal a) then (s, RejectedAnte)
      (* SetTaskResultInfo: `addr != info.OperatorAddress` is the FIRST check, before the switch on info.Stage,
         so it binds the phase-one commit and the phase-two reveal alike; any other stage value is an error *)
      else if negb (String.eqb principal subject) then (s, RejectedMsg)
      else if negb (N.eqb stage 1 || N.eqb stage 2) then (s, RejectedMsg)
      else if biz_ok then (log_effect s ep principal, Accepted) else (s, RejectedMsg)
  | FStubPanic =>
      if negb (std_ante principal a) then (s, RejectedAnte) else (s, RejectedMsg)
  | FPrice =>
      if negb (oracle_sig_ok principal a) then (s, RejectedAnte)
      else match check_and_increase_nonce principal feeder nonce (st_nonces s) with
           | None => (s, RejectedAnte)
           | Some tab =>
               (* the ante handler's writes stay even when the message then fails *)
               let s1 := with_nonces s tab in
               if biz_ok then (log_effect s1 ep principal, Accepted) else (s1, RejectedMsg)
           end
  | FParams =>
      if negb (std_ante principal a) then (s, RejectedAnte)
      else params_handler c s ep principal new_gateway biz_ok
  | _ => (s, NoSuchEntry)
  end.

Definition dispatch (c : cfg) (s : state) (cl : call) : state * verdict :=
  match cl with
  | CallEvm ep caller _ origin sender new_owners new_task biz_ok =>
      evm_dispatch s ep caller origin sender new_owners new_task biz_ok
  | CallTx ep principal subject stage feeder nonce a new_gateway biz_ok =>
      tx_dispatch c s ep principal subject stage feeder nonce a new_gateway biz_ok
  | CallGov ep new_gateway biz_ok =>
      match family_of ep with
      | FParams => params_handler c s ep (st_authority s) new_gateway biz_ok
      | _ => (s, NoSuchEntry)
      end
  end.

(* the unrepaired oracle branch, kept to state what was wrong *)
Definition dispatch_unfixed (c : cfg) (s : state) (cl : call) : state * verdict :=
  match cl with
  | CallTx M_oracle_CreatePrice principal _ _ feeder nonce a _ biz_ok =>
      if negb (oracle_sig_ok_unfixed principal a) then (s, RejectedAnte)
      else match check_and_increase_nonce principal feeder nonce (st_nonces s) with
           | None => (s, RejectedAnte)
           | Some tab =>
               let s1 := with_nonces s tab in
               if biz_ok then (log_effect s1 M_oracle_CreatePrice principal, Accepted) else (s1, RejectedMsg)
           end
  | _ => dispatch c s cl
  end.

(* ---- the property's sentence ---- *)
(* "take effect only when the precompile is invoked by the configured gateway contract;
    AVS registration, update, deregistration, task creation and challenges bind to the calling contract's own
    address and require a listed owner;
    operator registration, opt-in/out, key changes and task results take effect only for the signer of the
    transaction;
    price submissions only when signed by the consensus key of the validator they are attributed to;
    parameter changes (on mainnet chain IDs) only by the governance authority." *)
Definition authorized (c : cfg) (s : state) (cl : call) : bool :=
  match cl with
  | CallEvm ep caller _ origin sender new_owners _ _ =>
      match family_of ep with
      | FGateway => String.eqb caller (st_gateway s)
      | FAvsRegister => mem sender new_owners             (* the AVS is the caller's own address by construction *)
      | FAvsOwner =>
          match (match ep with
                 | P_avs_createTask => find_avs_by_task caller (st_avs s)
                 | _ => find_avs caller (st_avs s) end) with
          | Some r => mem sender (avs_owners r)
          | None => false
          end
      | FAvsChallenge =>
          match find_avs_by_task caller (st_avs s) with
          | Some r => mem sender (avs_owners r)
          | None => false
          end
      | FAvsOperator | FAvsBls => String.eqb sender origin   (* opt-in/out, key change: only for the tx signer *)
      | _ => false
      end
  | CallTx ep principal subject _ _ _ a _ _ =>
      match family_of ep with
      | FSigner | FStubPanic => signed_by a principal
      | FSignerSubject => signed_by a principal && String.eqb principal subject
      | FPrice => signed_by a principal && is_validator principal (st_nonces s)
      | FParams =>
          signed_by a principal &&
          (if cfg_mainnet c then String.eqb principal (st_authority s) else true)
      | _ => false
      end
  | CallGov ep _ _ =>
      match family_of ep with FParams => true | _ => false end
  end.

(* entry points whose guard, as written in the code, does not establish the property's sentence *)
Definition known_gap (ep : entry_point) : bool :=
  match family_of ep with FAvsOperator | FAvsBls | FAvsChallenge => true | _ => false end.

(* what the code DOES guarantee for those entry points: the effect is bound to the calling contract —
   opt-in/out only into the AVS registered at the caller's own address, a challenge only on a task contract that is
   the caller itself and belongs to a registered AVS; for the BLS key registration nothing at all *)
Definition is_some {A} (o : option A) : bool := match o with Some _ => true | None => false end.

Definition gap_guarantee (s : state) (cl : call) : bool :=
  match cl with
  | CallEvm ep caller _ _ _ _ _ _ =>
      match family_of ep with
      | FAvsOperator => is_some (find_avs caller (st_avs s))
      | FAvsChallenge => is_some (find_avs_by_task caller (st_avs s))
      | FAvsBls => true
      | _ => false
      end
  | _ => false
  end.

(* runs *)
Fixpoint run (c : cfg) (s : state) (cs : list call) : state :=
  match cs with
  | [] => s
  | x :: r => run c (fst (dispatch c s x)) r
  end.

(* the accepted calls of a run, each with the state it was accepted in *)
Fixpoint accepted_in (c : cfg) (s : state) (cs : list call) : list (state * call) :=
  match cs with
  | [] => []
  | x :: r =>
      let '(s', v) := dispatch c s x in
      (if verdict_eqb v Accepted then [(s, x)] else []) ++ accepted_in c s' r
  end.

(* ================= harness cases ================= *)
(* observed result of the REAL code *)
Inductive obs_result :=
| OOk            (* Cosmos: ante + handler succeeded; precompile: returned true *)
| OAnteRejected  (* ante handler returned an error (or panicked and was recovered) *)
| OMsgRejected   (* handler returned an error or panicked *)
| OFalse         (* precompile returned false *)
| OEvmError.     (* precompile returned an error / reverted *)

Record observed := mkObs {
  o_result : obs_result;
  o_modules_changed : bool;   (* sha256 over all exocore module stores (+ evm) differs before/after *)
  o_accounts_changed : bool;  (* sha256 over auth + bank stores differs (fees, sequences) *)
  o_gateway_after : addr;
  o_owners_after : list addr; (* owner list of the AVS at the caller's address after the call ([] if none) *)
  o_nonce_after : N           (* oracle nonce of (principal, feeder) after the call (0 if none) *)
}.

Record case := mkCase {
  c_cfg : cfg;
  c_state : state;            (* read from the real stores before the call *)
  c_call : call;
  c_obs : observed
}.

Definition obs_accepted (o : observed) : bool :=
  match o_result o with OOk => true | _ => false end.

Definition verdict_matches (v : verdict) (r : obs_result) : bool :=
  match v, r with
  | Accepted, OOk | RejectedAnte, OAnteRejected | RejectedMsg, OMsgRejected
  | ReturnedFalse, OFalse | ReturnedFalse, OEvmError => true   (* the slash precompile does not swallow its errors *)
  | _, _ => false
  end.

Definition lookup_nonce (v : addr) (feeder : N) (tab : nonce_tab) : N :=
  match find (fun p => String.eqb (fst p) v) tab with
  | Some (_, l) => match find (fun q => N.eqb (fst q) feeder) l with Some (_, n) => n | None => 0%N end
  | None => 0%N
  end.

Definition owners_at (a : addr) (l : list avs_rec) : list addr :=
  match find_avs a l with Some r => avs_owners r | None => [] end.

(* x/slash/keeper Slash is `return nil`: the call is accepted and writes nothing *)
Definition effect_is_noop (ep : entry_point) : bool :=
  match ep with P_slash_submitSlash => true | _ => false end.

(* model vs implementation: 1 = verdict, 2 = changed flag, 3 = gateway after, 4 = owners after, 5 = nonce after *)
Definition check_case (k : case) : option nat :=
  let '(s', v) := dispatch (c_cfg k) (c_state k) (c_call k) in
  let o := c_obs k in
  if negb (verdict_matches v (o_result o)) then Some 1%nat
  else if negb (Bool.eqb (o_modules_changed o)
                  (match v with
                   | Accepted => negb (effect_is_noop (ep_of (c_call k)))
                   | RejectedMsg => negb (list_eqb (fun a b => String.eqb (fst a) (fst b) &&
                                       list_eqb (fun x y => N.eqb (fst x) (fst y) && N.eqb (snd x) (snd y)) (snd a) (snd b))
                                       (st_nonces s') (st_nonces (c_state k)))
                   | _ => false end)) then Some 2%nat
  else if negb (String.eqb (st_gateway s') (o_gateway_after o)) then Some 3%nat
  else match c_call k with
       | CallEvm _ caller _ _ _ _ _ _ =>
           if list_eqb String.eqb (owners_at caller (st_avs s')) (o_owners_after o) then None else Some 4%nat
       | CallTx M_oracle_CreatePrice p _ _ feeder _ _ _ _ =>
           if N.eqb (lookup_nonce p feeder (st_nonces s')) (o_nonce_after o) then None else Some 5%nat
       | _ => None
       end.

(* the property itself, evaluated on what the implementation did (no use of dispatch):
     1: the call took effect although the caller is not the rightful one
     2: rejected, yet some module store changed while the caller was not the rightful one
     3: rejected by the ante handler, yet something (module stores, accounts) changed
     4: one of the four gap entry points took effect without even the binding to the calling contract that the code
        does enforce (never matched by a recorded finding: the harness tags only cases in which the binding holds) *)
Definition monitor_case (k : case) : option nat :=
  let o := c_obs k in
  let auth := authorized (c_cfg k) (c_state k) (c_call k) in
  if obs_accepted o && known_gap (ep_of (c_call k)) && negb (gap_guarantee (c_state k) (c_call k)) then Some 4%nat
  else if obs_accepted o && negb auth then Some 1%nat
  else if negb auth && (o_modules_changed o) then Some 2%nat
  else match o_result o with
       | OAnteRejected => if o_modules_changed o || o_accounts_changed o then Some 3%nat else None
       | _ => None
       end.

(* ================= inventory tie (suite c10inv) ================= *)
(* the name under which harness/s_c10_inv.go reports an entry point found in the repository *)
Definition ep_name (ep : entry_point) : string :=
  match ep with
  | P_assets_depositLST => "P_assets_depositLST"
  | P_assets_depositNST => "P_assets_depositNST"
  | P_assets_withdrawLST => "P_assets_withdrawLST"
  | P_assets_withdrawNST => "P_assets_withdrawNST"
  | P_assets_registerOrUpdateClientChain => "P_assets_registerOrUpdateClientChain"
  | P_assets_registerToken => "P_assets_registerToken"
  | P_assets_updateToken => "P_assets_updateToken"
  | P_delegation_delegate => "P_delegation_delegate"
  | P_delegation_undelegate => "P_delegation_undelegate"
  | P_delegation_associateOperatorWithStaker => "P_delegation_associateOperatorWithStaker"
  | P_delegation_dissociateOperatorFromStaker => "P_delegation_dissociateOperatorFromStaker"
  | P_avs_registerAVS => "P_avs_registerAVS"
  | P_avs_updateAVS => "P_avs_updateAVS"
  | P_avs_deregisterAVS => "P_avs_deregisterAVS"
  | P_avs_registerOperatorToAVS => "P_avs_registerOperatorToAVS"
  | P_avs_deregisterOperatorFromAVS => "P_avs_deregisterOperatorFromAVS"
  | P_avs_createTask => "P_avs_createTask"
  | P_avs_registerBLSPublicKey => "P_avs_registerBLSPublicKey"
  | P_avs_challenge => "P_avs_challenge"
  | P_reward_claimReward => "P_reward_claimReward"
  | P_slash_submitSlash => "P_slash_submitSlash"
  | M_operator_RegisterOperator => "M_operator_RegisterOperator"
  | M_operator_SetConsKey => "M_operator_SetConsKey"
  | M_operator_OptIntoAVS => "M_operator_OptIntoAVS"
  | M_operator_OptOutOfAVS => "M_operator_OptOutOfAVS"
  | M_avs_RegisterAVS => "M_avs_RegisterAVS"
  | M_avs_DeRegisterAVS => "M_avs_DeRegisterAVS"
  | M_avs_RegisterAVSTask => "M_avs_RegisterAVSTask"
  | M_avs_SubmitTaskResult => "M_avs_SubmitTaskResult"
  | M_delegation_DelegateAssetToOperator => "M_delegation_DelegateAssetToOperator"
  | M_delegation_UndelegateAssetFromOperator => "M_delegation_UndelegateAssetFromOperator"
  | M_oracle_CreatePrice => "M_oracle_CreatePrice"
  | M_oracle_UpdateParams => "M_oracle_UpdateParams"
  | M_dogfood_UpdateParams => "M_dogfood_UpdateParams"
  | M_assets_UpdateParams => "M_assets_UpdateParams"
  | M_exomint_UpdateParams => "M_exomint_UpdateParams"
  | M_feedistribution_UpdateParams => "M_feedistribution_UpdateParams"
  end.

(* ABI methods that are NOT entry points (views, pure helpers, queries declared nonpayable), with mutability and
   IsTransaction flag, as found when this model was written; a new or re-classified method shows up as a difference *)
Definition inventory_other_methods : list string :=
  ["Q_assets_getClientChains:view:q";
   "Q_assets_isRegisteredClientChain:view:q";
   "Q_avs_getAVSUSDValue:view:q";
   "Q_avs_getOperatorOptedUSDValue:view:q";
   "Q_avs_getOptInOperators:nonpayable:q";
   "Q_avs_getRegisteredPubkey:pure:q";
   "Q_avs_submitProof:nonpayable:q";
   "Q_bls_addTwoPubkeys:pure:tx";
   "Q_bls_aggregatePubkeys:pure:tx";
   "Q_bls_aggregateSignatures:pure:tx";
   "Q_bls_fastAggregateVerify:pure:tx";
   "Q_bls_verify:pure:tx"].

(* Msg services that exist in the tree but are not reachable entry points of the application *)
Definition inventory_external : list string :=
  ["X_appchain_coordinator:not-wired-into-app:RegisterSubscriberChain";
   "X_appchain_subscriber:not-wired-into-app:";
   "X_evm:registers:github.com/evmos/evmos/v16/x/evm/types";
   "X_reward:msg-server-not-registered:UpdateParams";
   "X_slash:msg-server-not-registered:UpdateParams"].

Record inv_case := mkInv {
  i_entry_points : list string;   (* P_/M_ names derived from abi.json + IsTransaction + RegisterMsgServer + _Msg_serviceDesc *)
  i_others : list string;
  i_external : list string
}.

Definition subset (a b : list string) : bool := forallb (fun x => mem x b) a.

(* 1: an entry point of the repository is not a constructor of entry_point; 2: a constructor no longer exists in the
   repository; 3/4: the other ABI methods differ; 5/6: the external / unregistered services differ *)
Definition check_inv (k : inv_case) : option nat :=
  let mine := map ep_name all_entry_points in
  if negb (subset (i_entry_points k) mine) then Some 1%nat
  else if negb (subset mine (i_entry_points k)) then Some 2%nat
  else if negb (subset (i_others k) inventory_other_methods) then Some 3%nat
  else if negb (subset inventory_other_methods (i_others k)) then Some 4%nat
  else if negb (subset (i_external k) inventory_external) then Some 5%nat
  else if negb (subset inventory_external (i_external k)) then Some 6%nat
  else None.
