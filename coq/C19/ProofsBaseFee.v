(* C19/ProofsBaseFee.v — lemmas about the fee market between blocks (C19/BaseFee.v). *)
From Coq Require Import List String Bool ZArith Lia.
From Exo Require Import Base.IntDec Base.Util C19.Model C19.BaseFee C19.Proofs.
Import ListNotations.
Local Open Scope Z_scope.

Definition target_of (p : fm) : Z :=
  (if -1 <? f_maxgas p then f_maxgas p else max_uint64) / f_elast p.

(* direction and bounds of one base-fee update *)
Lemma next_base_fee_direction p height pg f :
  next_base_fee p height pg = BfSome f ->
  f_enable p < height -> 0 <= f_base p -> 0 < f_elast p -> 0 < f_denom p -> 0 <= pg ->
  (pg = target_of p -> f = f_base p) /\
  (target_of p < pg -> f_base p < f) /\
  (pg < target_of p -> dec_trunc_int (f_mgp p) <= f <= Z.max (f_base p) (dec_trunc_int (f_mgp p))).
Proof.
  unfold next_base_fee, target_of. intros H Hh Hb He Hd Hpg.
  destruct (f_nobase p || (height <? f_enable p)); [discriminate|].
  destruct (height =? f_enable p) eqn:E1; [apply Z.eqb_eq in E1; lia|].
  destruct (f_elast p =? 0) eqn:E2; [apply Z.eqb_eq in E2; lia|].
  set (target := (if -1 <? f_maxgas p then f_maxgas p else max_uint64) / f_elast p) in *.
  destruct (max_uint64 <? target); [discriminate|].
  destruct (pg =? target) eqn:E3.
  { apply Z.eqb_eq in E3. inversion H; subst. repeat split; intros; lia. }
  apply Z.eqb_neq in E3.
  destruct (target <? pg) eqn:E4.
  - apply Z.ltb_lt in E4. destruct ((target =? 0) || (f_denom p =? 0)); [discriminate|].
    inversion H; subst f. repeat split; intros; lia.
  - apply Z.ltb_ge in E4. destruct (f_denom p =? 0); [discriminate|]. inversion H; subst f.
    assert (0 <= f_base p * (target - pg) / target / f_denom p).
    { apply Z.div_pos; [|lia]. apply Z.div_pos; [nia|lia]. }
    repeat split; intros; lia.
Qed.

(* an admitted transaction pays at least the block's base fee per gas (and at most its fee cap) *)
Lemma admitted_price_ge_base e bal nonce bgas t :
  admit_reason e bal nonce bgas t = 0 -> e_base e <= eff_price e t /\ eff_price e t <= fee_cap t.
Proof.
  intro H. apply admit_inv in H. destruct H as (Hv & _ & _ & _ & _ & Hcap & _).
  unfold eff_price, fee_cap in *. unfold basic_valid in Hv.
  apply andb_prop in Hv. destruct Hv as [_ Hv].
  destruct (t_type t =? 2).
  - apply andb_prop in Hv. destruct Hv as [Hv _]. apply andb_prop in Hv. destruct Hv as [H1 _]. apply Z.leb_le in H1. lia.
  - lia.
Qed.

Lemma included_admitted e s t o :
  included_b (snd (deliver e s t o)) = true ->
  admit_reason e (aget 0 (s_bal s) (t_from t)) (aget None (s_nonce s) (t_from t)) (s_bgas s) t = 0.
Proof.
  unfold deliver.
  set (w := admit_reason e (aget 0 (s_bal s) (t_from t)) (aget None (s_nonce s) (t_from t)) (s_bgas s) t).
  destruct (w =? 2); [simpl; discriminate|].
  destruct (w =? 0) eqn:E; [intros _; apply Z.eqb_eq; exact E|simpl; discriminate].
Qed.

Definition pays_base (e : env) (p : tx * result) : Prop :=
  included_b (snd p) = true -> e_base e <= eff_price e (fst p).

Lemma trace_b_pays_base e ops : forall s, Forall (pays_base e) (trace_b e s ops).
Proof.
  induction ops as [|[t o] r IH]; intro s; simpl; constructor; [|apply IH].
  unfold pays_base. simpl. intro Hi. apply included_admitted in Hi. apply admitted_price_ge_base in Hi. tauto.
Qed.

(* chains of blocks: in every block every included transaction pays at least that block's base fee, and the base fee of
   each block is the fee-market function of the previous block's base fee and wanted gas *)
Definition block_env (c : cstate) (b : blockin) (base : Z) : env :=
  mkEnv base (f_mgp (b_fm b)) (b_mult b) (blim_of (fm_with_base (b_fm b) (c_stored c))).

Lemma block_step_pays_base c b c' base tr :
  block_step c b = Some (c', base, tr) -> Forall (pays_base (block_env c b base)) tr.
Proof.
  unfold block_step, block_env. intro H.
  destruct (next_base_fee (fm_with_base (b_fm b) (c_stored c)) (b_height b) (c_parent_gas c)) eqn:E;
    try discriminate; inversion H; subst; apply trace_b_pays_base.
Qed.

Lemma block_step_base c b c' base tr :
  block_step c b = Some (c', base, tr) ->
  let p := fm_with_base (b_fm b) (c_stored c) in
  c_stored c' = match next_base_fee p (b_height b) (c_parent_gas c) with BfSome f => f | _ => c_stored c end /\
  base = evm_base_fee p (b_height b) (c_stored c').
Proof.
  unfold block_step. intro H.
  destruct (next_base_fee (fm_with_base (b_fm b) (c_stored c)) (b_height b) (c_parent_gas c)) eqn:E;
    try discriminate; inversion H; subst; simpl; split; reflexivity.
Qed.

Fixpoint chain_ok (c : cstate) (blocks : list blockin) (l : list (Z * list (tx * result))) : Prop :=
  match blocks, l with
  | [], [] => True
  | b :: r, (base, tr) :: l' =>
      exists c', block_step c b = Some (c', base, tr) /\
                 Forall (pays_base (block_env c b base)) tr /\ chain_ok c' r l'
  | _, _ => False
  end.

Lemma run_chain_ok blocks : forall c c' l, run_chain c blocks = Some (c', l) -> chain_ok c blocks l.
Proof.
  induction blocks as [|b r IH]; intros c c' l H; simpl in H.
  - inversion H; subst. exact I.
  - destruct (block_step c b) as [[[c1 base] tr]|] eqn:E; [|discriminate].
    destruct (run_chain c1 r) as [[c2 l']|] eqn:E2; [|discriminate]. inversion H; subst.
    simpl. exists c1. split; [exact E|]. split; [eapply block_step_pays_base; eauto|]. eapply IH; eauto.
Qed.
