(* C19/Props.v — property theorems only (proofs live in C19/Proofs.v). *)
From Coq Require Import List String Bool ZArith.
From Exo Require Import Base.IntDec Base.Util C19.Model C19.MultiTx C19.Multi C19.Proofs C19.ProofsMulti C19.BaseFee C19.ProofsBaseFee C19.ProofsAgree.
Import ListNotations.
Local Open Scope Z_scope.

(* ---- pure arithmetic, whole Z domain ---- *)

(* GasToRefund: the refund is the counter capped by consumed/quotient *)
Theorem C19_refund_capped : forall avail consumed quot,
  0 <= avail -> 0 <= consumed -> 0 < quot ->
  0 <= gas_to_refund avail consumed quot <= consumed / quot.
Proof. exact gas_to_refund_bounds. Qed.
Print Assumptions C19_refund_capped.

(* gasUsed = max(floor(multiplier * gasLimit), temporaryGasUsed): the LegacyDec round trip loses nothing *)
Theorem C19_gas_used_closed_form : forall e t tmp,
  0 <= t_gas t -> 0 <= e_mult e -> 0 <= tmp ->
  final_gas_used e t tmp = Z.max ((t_gas t * e_mult e) / P) tmp.
Proof. exact final_gas_used_eq. Qed.
Print Assumptions C19_gas_used_closed_form.

(* floor(mult * gasLimit) <= gasUsed <= gasLimit for every multiplier in [0,1] and every interpreter report within the limit *)
Theorem C19_gas_bounds : forall e t tmp,
  0 <= t_gas t -> 0 <= e_mult e -> e_mult e <= P -> 0 <= tmp -> tmp <= t_gas t ->
  min_gas_used e t <= final_gas_used e t tmp /\ tmp <= final_gas_used e t tmp /\
  final_gas_used e t tmp <= t_gas t /\ 0 <= min_gas_used e t.
Proof. exact final_gas_used_bounds. Qed.
Print Assumptions C19_gas_bounds.

(* the refund never exceeds what was prepaid at admission and is never negative *)
Theorem C19_refund_le_prepaid : forall gas gu price,
  0 <= gu -> gu <= gas -> 0 <= price ->
  0 <= (gas - gu) * price <= price * gas.
Proof. exact refund_le_prepaid. Qed.
Print Assumptions C19_refund_le_prepaid.

(* ---- one transaction ---- *)

(* sender, collector, gas bounds, nonce, frame, failed => nothing else, block gas: everything about one DeliverTx *)
Theorem C19_accounting : forall e s t o,
  env_ok e = true -> oracle_ok t o = true -> state_ok s ->
  let s' := fst (deliver e s t o) in
  let r := snd (deliver e s t o) in
  r <> RefundFail /\
  state_ok s' /\
  (included r = false ->
     s_bal s' = s_bal s /\ s_nonce s' = s_nonce s /\ s_coll s' = s_coll s /\ s_world s' = s_world s /\
     s_bgas s <= s_bgas s') /\
  (included r = true ->
     let g := charged t r in
     let price := eff_price e t in
     let moved := if succeeded r then t_value t else 0 in
     admit_reason e (aget 0 (s_bal s) (t_from t)) (aget None (s_nonce s) (t_from t)) (s_bgas s) t = 0 /\
     min_gas_used e t <= g /\ g <= t_gas t /\ 0 <= price /\
     s_coll s' = s_coll s + g * price /\
     aget None (s_nonce s') (t_from t) = Some (t_nonce t + 1) /\
     (forall a, a <> t_from t -> aget None (s_nonce s') a = aget None (s_nonce s) a) /\
     (t_from t = t_to t -> aget 0 (s_bal s') (t_from t) = aget 0 (s_bal s) (t_from t) - g * price) /\
     (t_from t <> t_to t ->
        aget 0 (s_bal s') (t_from t) = aget 0 (s_bal s) (t_from t) - (moved + g * price) /\
        aget 0 (s_bal s') (t_to t) = aget 0 (s_bal s) (t_to t) + moved) /\
     (forall a, a <> t_from t -> a <> t_to t -> aget 0 (s_bal s') a = aget 0 (s_bal s) a) /\
     (succeeded r = false -> s_world s' = s_world s) /\
     s_bgas s <= s_bgas s' /\
     (forall g' f, r = Done g' f -> g' = final_gas_used e t (temp_gas_used t o) /\
                                  s_bgas s' = s_bgas s + g' /\
                                  (0 <= e_blim e -> s_bgas s' <= e_blim e))).
Proof. exact deliver_spec. Qed.
Print Assumptions C19_accounting.

(* the boolean the monitor evaluates on the implementation holds of every model step *)
Theorem C19_step_meets_statement : forall e s t o,
  env_ok e = true -> oracle_ok t o = true -> state_ok s ->
  let s' := fst (deliver e s t o) in
  let r := snd (deliver e s t o) in
  step_ok e t (view_of s t) (code_of r) (resp_of r) (view_of s' t) = true /\
  gas_rule_ok e t o (resp_of r) = true.
Proof. exact deliver_step_ok. Qed.
Print Assumptions C19_step_meets_statement.

(* a transaction that fails admission costs nothing: no balance, nonce, collector or other-store change (no hypotheses) *)
Theorem C19_rejected_free : forall e s t o,
  included (snd (deliver e s t o)) = false ->
  let s' := fst (deliver e s t o) in
  s_bal s' = s_bal s /\ s_nonce s' = s_nonce s /\ s_coll s' = s_coll s /\ s_world s' = s_world s.
Proof. exact rejected_free. Qed.
Print Assumptions C19_rejected_free.

(* failed / reverted / dropped execution: every other store, every other balance and nonce unchanged; sender pays gas only *)
Theorem C19_failed_no_effect : forall e s t o,
  env_ok e = true -> oracle_ok t o = true -> state_ok s ->
  included (snd (deliver e s t o)) = true -> succeeded (snd (deliver e s t o)) = false ->
  let s' := fst (deliver e s t o) in
  s_world s' = s_world s /\
  (forall a, a <> t_from t -> aget 0 (s_bal s') a = aget 0 (s_bal s) a) /\
  (forall a, a <> t_from t -> aget None (s_nonce s') a = aget None (s_nonce s) a) /\
  aget 0 (s_bal s') (t_from t) = aget 0 (s_bal s) (t_from t) - charged t (snd (deliver e s t o)) * eff_price e t.
Proof. exact failed_no_effect. Qed.
Print Assumptions C19_failed_no_effect.

(* ---- sequences of transactions sharing a block gas meter and a fee collector ---- *)

Theorem C19_block_meets_statement : forall e ops s,
  env_ok e = true -> oracles_ok ops = true -> state_ok s -> all_steps_ok e s ops = true.
Proof. exact all_steps_ok_true. Qed.
Print Assumptions C19_block_meets_statement.

(* no balance and not the collector ever goes negative, whatever the interpreter reports *)
Theorem C19_solvent : forall e ops s,
  env_ok e = true -> oracles_ok ops = true -> state_ok s -> state_ok (run e s ops).
Proof. exact run_state_ok. Qed.
Print Assumptions C19_solvent.

(* collector receives exactly the sum of gas charged times price paid *)
Theorem C19_collector : forall e ops s,
  env_ok e = true -> oracles_ok ops = true -> state_ok s ->
  s_coll (run e s ops) = s_coll s + zsum (map (fee_of e) (trace e s ops)).
Proof. exact collector_run. Qed.
Print Assumptions C19_collector.

(* nonce: +1 per included transaction of that sender, and only then *)
Theorem C19_nonce : forall e ops s a n,
  env_ok e = true -> oracles_ok ops = true -> state_ok s ->
  aget None (s_nonce s) a = Some n ->
  aget None (s_nonce (run e s ops)) a = Some (n + Z.of_nat (List.length (filter (from_incl a) (trace e s ops)))).
Proof. exact nonce_run. Qed.
Print Assumptions C19_nonce.

(* zero sum over senders, recipients and the collector *)
Theorem C19_zero_sum : forall e L ops s,
  env_ok e = true -> oracles_ok ops = true -> state_ok s -> NoDup L -> ops_within L ops ->
  total L (run e s ops) = total L s.
Proof. exact total_run. Qed.
Print Assumptions C19_zero_sum.

(* with a block gas limit, the gas of everything executed and kept fits in what was left of the block *)
Theorem C19_block_gas : forall e ops s,
  env_ok e = true -> oracles_ok ops = true -> state_ok s -> 0 <= e_blim e ->
  zsum (map done_gas (trace e s ops)) <= Z.max 0 (e_blim e - s_bgas s).
Proof. exact block_gas_run. Qed.
Print Assumptions C19_block_gas.

(* ---- "costs nothing", read for the block as well (finding F2) ---- *)

(* refused by any admission check the property names (block gas left, price, balance, value, gas limit, nonce): the block
   gas meter is untouched. Reason 2 (a malformed message refused by baseapp's validateBasicTxMsgs before the ante handler)
   is the only refusal that moves it, by the oracle input o_ctxgas (cosmos-sdk behaviour, observation R3). *)
Theorem C19_rejected_block_gas : forall e s t o why,
  snd (deliver e s t o) = Rejected why -> why <> 2 ->
  s_bgas (fst (deliver e s t o)) = s_bgas s.
Proof. exact rejected_block_gas. Qed.
Print Assumptions C19_rejected_block_gas.

(* regression scenario of finding F2 (fixed 07834a8): balance below the fee is refused with reason 10 and the block gas
   meter stays where it was, whatever ResponseDeliverTx.GasUsed says *)
Example ex_regress_F2 :
  deliver (mkEnv 1000 0 (P / 2) 100000) (mkSt [("a"%string, 5000)] [("a"%string, Some 0)] 0 0 "w")
          (mkTx 0 "a" "b" 0 50000 2000 2000 2000 0 21000 false) (mkOr 0 0 false "w" 48103) =
  (mkSt [("a"%string, 5000)] [("a"%string, Some 0)] 0 0 "w", Rejected 10).
Proof. vm_compute. reflexivity. Qed.

(* ---- several Ethereum messages in ONE cosmos transaction: the nonce clause ---- *)

(* as found: a creation followed by further messages of the same sender winds the sequence back (witness = the directed
   scenario of suite evmmulti, observed on the real code: sequence n+1 after three messages, and a replay that succeeds) *)
Theorem C19_multimsg_nonce_refuted : exists seq0 msgs,
  consecutive seq0 msgs = true /\ seq_after_found seq0 msgs <> seq0 + Z.of_nat (List.length msgs).
Proof. exists 7, [(true, 7); (false, 8); (false, 9)]. split; [reflexivity | vm_compute; discriminate]. Qed.
Print Assumptions C19_multimsg_nonce_refuted.

Definition C19_multimsg_nonce_full : Prop := forall seq0 msgs,
  consecutive seq0 msgs = true -> seq_after_found seq0 msgs = seq0 + Z.of_nat (List.length msgs).

(* repaired rule (repo_patches/fix-evm-create-nonce-multimsg.patch): +1 per message, for every mix of creations and calls *)
Theorem C19_multimsg_nonce_repaired : forall seq0 msgs,
  consecutive seq0 msgs = true -> seq_after_repaired seq0 msgs = seq0 + Z.of_nat (List.length msgs).
Proof. exact seq_after_repaired_ok. Qed.
Print Assumptions C19_multimsg_nonce_repaired.

(* ---- multi-message transactions: the transition model of C19/MultiTx.v (repaired sequence rule) ---- *)

(* C19_accounting lifted: one cosmos transaction carrying any number of Ethereum messages *)
Theorem C19_multi_accounting : forall e s cg ops,
  env_ok e = true -> mops_ok ops = true -> state_ok s -> 0 <= cg ->
  let s' := fst (deliver_multi e s cg ops) in
  let r := snd (deliver_multi e s cg ops) in
  state_ok s' /\
  (mincluded r = false ->
     s_bal s' = s_bal s /\ s_nonce s' = s_nonce s /\ s_coll s' = s_coll s /\ s_world s' = s_world s /\
     s_bgas s <= s_bgas s') /\
  (mincluded r = true ->
     let mm := mm_of ops r in
     s_coll s' = s_coll s + zsum (map (msg_fee e) mm) /\
     (forall a, aget 0 (s_bal s') a = aget 0 (s_bal s) a + delta_for e a mm) /\
     nonce_advanced s s' (map fst ops) /\
     Forall (gas_bounded e) mm /\
     (existsb msg_ok mm = false -> s_world s' = s_world s) /\
     (forall outs, r = MDone outs -> 0 <= e_blim e -> s_bgas s' <= e_blim e)) /\
  (forall L, NoDup L -> ops_within_m L ops -> total L s' = total L s).
Proof. exact deliver_multi_spec. Qed.
Print Assumptions C19_multi_accounting.

(* lists of multi-message transactions in one block *)
Theorem C19_multi_solvent : forall e txs s,
  env_ok e = true -> txs_ok txs = true -> state_ok s -> state_ok (run_multi e s txs).
Proof. exact run_multi_state_ok. Qed.
Print Assumptions C19_multi_solvent.

Theorem C19_multi_zero_sum : forall e L txs s,
  env_ok e = true -> txs_ok txs = true -> state_ok s -> NoDup L ->
  Forall (fun x => ops_within_m L (snd x)) txs ->
  total L (run_multi e s txs) = total L s.
Proof. exact run_multi_total. Qed.
Print Assumptions C19_multi_zero_sum.

Theorem C19_multi_nonce : forall e txs s a n,
  env_ok e = true -> txs_ok txs = true -> state_ok s ->
  aget None (s_nonce s) a = Some n ->
  aget None (s_nonce (run_multi e s txs)) a = Some (n + zsum (map (nonce_inc a) (mtrace e s txs))).
Proof. exact run_multi_nonce. Qed.
Print Assumptions C19_multi_nonce.

Theorem C19_multi_collector : forall e txs s,
  env_ok e = true -> txs_ok txs = true -> state_ok s ->
  s_coll (run_multi e s txs) = s_coll s + zsum (map (mfee_of e) (mtrace e s txs)).
Proof. exact run_multi_collector. Qed.
Print Assumptions C19_multi_collector.

(* dropped message branch (error return of any message, block gas overflow): every other store unchanged - including what
   earlier messages of the same transaction wrote through precompiles -, no value moved, every message pays its gas limit *)
Theorem C19_multi_dropped_no_effect : forall e s cg ops,
  env_ok e = true -> mops_ok ops = true -> state_ok s -> 0 <= cg ->
  let s' := fst (deliver_multi e s cg ops) in
  let r := snd (deliver_multi e s cg ops) in
  mincluded r = true -> mouts r = None ->
  s_world s' = s_world s /\
  s_coll s' = s_coll s + zsum (map (fees_of e) (map fst ops)) /\
  (forall a, aget 0 (s_bal s') a = aget 0 (s_bal s) a - zsum (map (fee_from e a) (map fst ops))).
Proof. exact multi_dropped_no_effect. Qed.
Print Assumptions C19_multi_dropped_no_effect.

(* ---- the single-message model IS the one-element case of the multi-message model (proved, no hypotheses beyond
   "RefundGas did not fail", which C19_accounting shows unreachable) ---- *)
Theorem C19_single_is_multi : forall e s t o,
  snd (deliver e s t o) <> RefundFail ->
  deliver_multi e s (o_ctxgas o) [(t, o)] = (fst (deliver e s t o), lift (snd (deliver e s t o))).
Proof. exact deliver_multi_single. Qed.
Print Assumptions C19_single_is_multi.

Theorem C19_single_is_multi_ok : forall e s t o,
  env_ok e = true -> oracle_ok t o = true -> state_ok s ->
  deliver_multi e s (o_ctxgas o) [(t, o)] = (fst (deliver e s t o), lift (snd (deliver e s t o))).
Proof. exact deliver_as_multi. Qed.
Print Assumptions C19_single_is_multi_ok.

(* a block of single-message transactions = the same block of one-element multi-message transactions *)
Theorem C19_block_is_multi : forall e ops s,
  env_ok e = true -> oracles_ok ops = true -> state_ok s ->
  run_multi e s (map wrap ops) = run e s ops.
Proof. exact run_as_multi. Qed.
Print Assumptions C19_block_is_multi.

(* hence the single-message block theorems are corollaries of the multi-message ones (shown for two of them) *)
Theorem C19_solvent_via_multi : forall e ops s,
  env_ok e = true -> oracles_ok ops = true -> state_ok s -> state_ok (run e s ops).
Proof. exact single_solvent_from_multi. Qed.
Print Assumptions C19_solvent_via_multi.

Theorem C19_zero_sum_via_multi : forall e L ops s,
  env_ok e = true -> oracles_ok ops = true -> state_ok s -> NoDup L -> ops_within L ops ->
  total L (run e s ops) = total L s.
Proof. exact single_zero_sum_from_multi. Qed.
Print Assumptions C19_zero_sum_via_multi.

(* an admitted transaction is dropped with its whole gas limit burnt only for one of the three reasons the code has
   (intrinsic gas, value to a blocked address, block gas overflow); otherwise it executes. The model step has no other input,
   in particular not the block proposer: monitor mustrun demands the same of the implementation for every proposer state. *)
Theorem C19_admitted_runs : forall e s t o,
  env_ok e = true -> oracle_ok t o = true -> state_ok s ->
  must_run_ok e t o (view_of s t) (code_of (snd (deliver e s t o))) = true.
Proof. exact deliver_must_run_ok. Qed.
Print Assumptions C19_admitted_runs.

(* ---- the fee market between blocks (C19/BaseFee.v): sequences of BLOCKS ---- *)

(* one base-fee update: unchanged on target, strictly up above it, down (never below floor(MinGasPrice)) under it *)
Theorem C19_base_fee_direction : forall p height pg f,
  next_base_fee p height pg = BfSome f ->
  f_enable p < height -> 0 <= f_base p -> 0 < f_elast p -> 0 < f_denom p -> 0 <= pg ->
  (pg = target_of p -> f = f_base p) /\
  (target_of p < pg -> f_base p < f) /\
  (pg < target_of p -> dec_trunc_int (f_mgp p) <= f <= Z.max (f_base p) (dec_trunc_int (f_mgp p))).
Proof. exact next_base_fee_direction. Qed.
Print Assumptions C19_base_fee_direction.

(* the price an admitted transaction pays per gas lies between the block's base fee and its own fee cap *)
Theorem C19_price_between_base_and_cap : forall e bal nonce bgas t,
  admit_reason e bal nonce bgas t = 0 -> e_base e <= eff_price e t /\ eff_price e t <= fee_cap t.
Proof. exact admitted_price_ge_base. Qed.
Print Assumptions C19_price_between_base_and_cap.

(* any chain of blocks: each block's base fee is the fee-market function of the previous block (its stored base fee and the
   gas it wanted), and every transaction included in a block pays at least that block's base fee per gas *)
Theorem C19_chain : forall blocks c c' l,
  run_chain c blocks = Some (c', l) -> chain_ok c blocks l.
Proof. exact run_chain_ok. Qed.
Print Assumptions C19_chain.

Theorem C19_chain_base_fee : forall c b c' base tr,
  block_step c b = Some (c', base, tr) ->
  let p := fm_with_base (b_fm b) (c_stored c) in
  c_stored c' = match next_base_fee p (b_height b) (c_parent_gas c) with BfSome f => f | _ => c_stored c end /\
  base = evm_base_fee p (b_height b) (c_stored c').
Proof. exact block_step_base. Qed.
Print Assumptions C19_chain_base_fee.

(* ---- non-vacuity: a block in which every branch of the model is taken ---- *)
Definition ex_env : env := mkEnv 1000 (1500 * P + P / 2) (P / 2) 250000.
Definition ex_state : state :=
  mkSt [("a"%string, 5000000000); ("b"%string, 700000000)] [("a"%string, Some 7); ("b"%string, Some 0)] 0 0 "w0".
Definition ex_ops : list (tx * oracle) :=
  [ (mkTx 2 "a" "b" 7 100000 0 2000 600 12345 21000 false, mkOr 0 0 false "w0" 0);        (* transfer, minimum gas applies *)
    (mkTx 0 "a" "c" 8 60000 3000 3000 3000 5 21064 false, mkOr 30000 4800 false "w1" 0);   (* call with a refund counter *)
    (mkTx 1 "b" "c" 0 40000 1600 1600 1600 1 21000 false, mkOr 19000 0 true "w2" 0);       (* reverted call *)
    (mkTx 0 "b" "a" 1 30000 1500 1500 1500 0 21000 false, mkOr 0 0 false "w1" 0);          (* price above the base fee but below the min gas price 1500.5 *)
    (mkTx 0 "a" "b" 9 20000 2000 2000 2000 0 21000 false, mkOr 0 0 false "w1" 0);          (* gas limit below intrinsic gas *)
    (mkTx 0 "a" "b" 10 100000 2000 2000 2000 0 21000 false, mkOr 79000 0 false "w3" 0);    (* exceeds what is left of the block *)
    (mkTx 0 "a" "b" 11 21000 2000 2000 2000 0 21000 false, mkOr 0 0 false "w1" 0) ].       (* block is full *)

Example ex_hyps : env_ok ex_env = true /\ oracles_ok ex_ops = true /\ state_ok ex_state.
Proof.
  split; [vm_compute; reflexivity|]. split; [vm_compute; reflexivity|].
  split; [vm_compute; discriminate|]. intro a. unfold ex_state. simpl.
  destruct (String.eqb a "a"); [vm_compute; discriminate|]. destruct (String.eqb a "b"); vm_compute; discriminate.
Qed.

Example ex_results : map snd (trace ex_env ex_state ex_ops) =
  [Done 50000 false; Done 46264 false; Done 40000 true; Rejected 3; MsgErr; BlockGasExceeded 100000 false; Rejected 1].
Proof. vm_compute. reflexivity. Qed.

Example ex_final :
  let s := run ex_env ex_state ex_ops in
  (aget 0 (s_bal s) "a", aget 0 (s_bal s) "b", aget 0 (s_bal s) "c", s_coll s,
   aget None (s_nonce s) "a", aget None (s_nonce s) "b", s_world s, s_bgas s) =
  (5000000000 - 12345 - 50000 * 1600 - 5 - 46264 * 3000 - 20000 * 2000 - 100000 * 2000,
   700000000 + 12345 - 40000 * 1600, 5,
   50000 * 1600 + 46264 * 3000 + 40000 * 1600 + 20000 * 2000 + 100000 * 2000,
   Some 11, Some 1, "w1"%string, 50000 + 46264 + 40000 + 20000 + 100000).
Proof. vm_compute. reflexivity. Qed.

(* value sent to an address the bank refuses to credit: the whole gas limit is burnt, nothing moves *)
Example ex_blocked :
  deliver ex_env ex_state (mkTx 0 "a" "gov" 7 30000 2000 2000 2000 5 21000 true) (mkOr 0 0 false "w0" 0) =
  (mkSt [("a"%string, 5000000000 - 30000 * 2000); ("a"%string, 5000000000); ("b"%string, 700000000)]
        [("a"%string, Some 8); ("a"%string, Some 7); ("b"%string, Some 0)] (30000 * 2000) 30000 "w0", MsgErr).
Proof. vm_compute. reflexivity. Qed.

(* non-vacuity: [create; transfer; failing call] from one sender, then the transfer replayed: refused by the sequence check *)
Definition ex_mops : list (tx * oracle) :=
  [ (mkTx 0 "a" "k" 7 130000 2000 2000 2000 0 53000 false, mkOr 40000 0 false "w1" 0);
    (mkTx 2 "a" "b" 8 60000 0 2500 700 1000000 21000 false, mkOr 0 0 false "w1" 0);
    (mkTx 1 "a" "c" 9 50000 1600 1600 1600 3 21000 false, mkOr 29000 0 true "w2" 0) ].

Example ex_multi :
  let '(s1, r1) := deliver_multi ex_env ex_state 0 ex_mops in
  let '(s2, r2) := deliver_multi ex_env s1 0 [nth 1 ex_mops (mkTx 0 "" "" 0 0 0 0 0 0 0 false, mkOr 0 0 false "" 0)] in
  (r1, aget None (s_nonce s1) "a", aget 0 (s_bal s1) "b", s_world s1, r2, aget 0 (s_bal s2) "b") =
  (MDone [(93000, false); (30000, false); (50000, true)], Some 10, 700000000 + 1000000, "w1"%string,
   MRejected 9, 700000000 + 1000000).
Proof. vm_compute. reflexivity. Qed.

Example ex_multi_hyps : mops_ok ex_mops = true /\ txs_ok [(0, ex_mops)] = true.
Proof. split; vm_compute; reflexivity. Qed.

(* two blocks: the first wants more than its target (100000 of a 150000 block, elasticity 2), so the second block's base
   fee rises from 1000 to 1041 and a transaction offering 1040 is refused there *)
Definition ex_fm : fm := mkFm false 0 1000 2 8 0 150000.
Definition ex_chain : list blockin :=
  [ mkBlk ex_fm 5 P [(mkTx 0 "a" "b" 7 100000 2000 2000 2000 5 21000 false, mkOr 0 0 false "w0" 0)];
    mkBlk ex_fm 6 P [(mkTx 0 "a" "b" 8 30000 1040 1040 1040 5 21000 false, mkOr 0 0 false "w0" 0);
                     (mkTx 0 "a" "b" 8 30000 1041 1041 1041 5 21000 false, mkOr 0 0 false "w0" 0)] ].

Example ex_chain_run :
  match run_chain (mkCs 1000 75000 ex_state) ex_chain with
  | Some (c, l) => (c_stored c, c_parent_gas c, map (fun x => (fst x, map snd (snd x))) l)
  | None => (0, 0, [])
  end = (1041, 30000, [(1000, [Done 100000 false]); (1041, [Rejected 4; Done 30000 false])]).
Proof. vm_compute. reflexivity. Qed.
