(* C19/Proofs.v — lemmas about the C19 model. *)
From Coq Require Import List String Bool ZArith Lia.
From Exo Require Import Base.IntDec Base.Util C19.Model C19.Multi.
Import ListNotations.
Local Open Scope Z_scope.

(* ---------------- maps ---------------- *)
Lemma aget_aset {V} (d : V) m k v k' :
  aget d (aset m k v) k' = if String.eqb k' k then v else aget d m k'.
Proof. reflexivity. Qed.

Lemma aget_aset_same {V} (d : V) m k v : aget d (aset m k v) k = v.
Proof. rewrite aget_aset, String.eqb_refl. reflexivity. Qed.

Lemma aget_aset_other {V} (d : V) m k v k' : k' <> k -> aget d (aset m k v) k' = aget d m k'.
Proof. intro H. rewrite aget_aset. apply String.eqb_neq in H. rewrite H. reflexivity. Qed.

Lemma optz_eqb_refl a : optz_eqb a a = true.
Proof. destruct a; simpl; [apply Z.eqb_refl | reflexivity]. Qed.

Lemma optz_eqb_eq a b : optz_eqb a b = true -> a = b.
Proof. destruct a, b; simpl; intro H; try discriminate; [apply Z.eqb_eq in H; subst|]; reflexivity. Qed.

(* ---------------- pure arithmetic kernels (whole Z domain) ---------------- *)
Lemma gas_to_refund_bounds avail consumed quot :
  0 <= avail -> 0 <= consumed -> 0 < quot ->
  0 <= gas_to_refund avail consumed quot <= consumed / quot.
Proof.
  intros Ha Hc Hq. unfold gas_to_refund.
  assert (0 <= consumed / quot) by (apply Z.div_pos; lia).
  destruct (consumed / quot >? avail) eqn:E; [apply Z.gtb_lt in E|]; lia.
Qed.

Lemma gas_to_refund_le_avail avail consumed quot :
  gas_to_refund avail consumed quot <= avail.
Proof.
  unfold gas_to_refund. destruct (consumed / quot >? avail) eqn:E; [lia|].
  rewrite Z.gtb_ltb in E. apply Z.ltb_ge in E. lia.
Qed.

Lemma min_gas_used_dec_eq e t :
  0 <= t_gas t -> 0 <= e_mult e -> min_gas_used_dec e t = t_gas t * e_mult e.
Proof.
  intros Hg Hm. pose proof P_pos as HP. unfold min_gas_used_dec, dec_mul, dec_of_int.
  rewrite chop_round_nonneg_eq by nia.
  replace (t_gas t * P * e_mult e) with ((t_gas t * e_mult e) * P) by ring.
  apply chop_round_nn_exact. nia.
Qed.

Lemma min_gas_used_eq e t :
  0 <= t_gas t -> 0 <= e_mult e -> min_gas_used e t = (t_gas t * e_mult e) / P.
Proof.
  intros Hg Hm. unfold min_gas_used. rewrite min_gas_used_dec_eq by assumption.
  unfold dec_trunc_int. apply quot_nonneg_div; [nia | apply P_pos].
Qed.

(* gasUsed = max(floor(mult * gasLimit), temporaryGasUsed) *)
Lemma final_gas_used_eq e t tmp :
  0 <= t_gas t -> 0 <= e_mult e -> 0 <= tmp ->
  final_gas_used e t tmp = Z.max ((t_gas t * e_mult e) / P) tmp.
Proof.
  intros Hg Hm Ht. pose proof P_pos as HP. unfold final_gas_used.
  rewrite min_gas_used_dec_eq by assumption. unfold dec_trunc_int, dec_of_int.
  rewrite quot_nonneg_div by (try apply P_pos; nia).
  destruct (Z.max_spec (t_gas t * e_mult e) (tmp * P)) as [[Hlt ->]|[Hge ->]].
  - rewrite Z.div_mul by lia.
    assert (t_gas t * e_mult e / P <= tmp) by (apply Z.div_le_upper_bound; nia). lia.
  - assert (tmp <= t_gas t * e_mult e / P) by (apply Z.div_le_lower_bound; nia). lia.
Qed.

Lemma final_gas_used_bounds e t tmp :
  0 <= t_gas t -> 0 <= e_mult e -> e_mult e <= P -> 0 <= tmp -> tmp <= t_gas t ->
  min_gas_used e t <= final_gas_used e t tmp /\ tmp <= final_gas_used e t tmp /\
  final_gas_used e t tmp <= t_gas t /\ 0 <= min_gas_used e t.
Proof.
  intros Hg Hm Hm1 Ht Htg. pose proof P_pos as HP.
  rewrite final_gas_used_eq, min_gas_used_eq by assumption.
  assert (t_gas t * e_mult e / P <= t_gas t) by (apply Z.div_le_upper_bound; nia).
  assert (0 <= t_gas t * e_mult e / P) by (apply Z.div_pos; nia).
  lia.
Qed.

Lemma temp_gas_used_bounds t o :
  0 <= t_intr t -> 0 <= o_gas o -> 0 <= o_refund o ->
  0 <= temp_gas_used t o <= t_intr t + o_gas o.
Proof.
  intros Hi Hg Hr. unfold temp_gas_used.
  pose proof (gas_to_refund_bounds (o_refund o) (t_intr t + o_gas o) refund_quotient Hr ltac:(lia) ltac:(unfold refund_quotient; lia)) as [B1 B2].
  assert ((t_intr t + o_gas o) / refund_quotient <= t_intr t + o_gas o).
  { unfold refund_quotient. apply Z.div_le_upper_bound; lia. }
  lia.
Qed.

(* refund (gasLimit - gasUsed) * price never exceeds what was prepaid and is never negative *)
Lemma refund_le_prepaid gas gu price :
  0 <= gu -> gu <= gas -> 0 <= price ->
  0 <= (gas - gu) * price <= price * gas.
Proof. intros. nia. Qed.

Lemma eff_price_nonneg e t : 0 <= e_base e -> basic_valid t = true -> 0 <= eff_price e t.
Proof.
  intros Hb Hv. unfold basic_valid in Hv. unfold eff_price.
  apply andb_prop in Hv. destruct Hv as [_ Hv].
  destruct (t_type t =? 2).
  - apply andb_prop in Hv. destruct Hv as [Hv _]. apply andb_prop in Hv. destruct Hv as [H1 H2].
    apply Z.leb_le in H1, H2. lia.
  - apply Z.leb_le in Hv. exact Hv.
Qed.

(* for dynamic-fee transactions the price paid is within [base fee, fee cap] once admitted *)
Lemma eff_price_range e t :
  t_type t = 2 -> 0 <= t_tip t -> e_base e <= t_cap t ->
  e_base e <= eff_price e t <= t_cap t.
Proof. intros Ht Htip Hcap. unfold eff_price. rewrite Ht. simpl. lia. Qed.

(* ---------------- admission ---------------- *)
Lemma admit_inv e bal nonce bgas t :
  admit_reason e bal nonce bgas t = 0 ->
  basic_valid t = true /\ nonce = Some (t_nonce t) /\
  0 < eff_price e t * t_gas t /\ eff_price e t * t_gas t <= bal /\
  (0 < t_value t -> t_value t <= bal) /\ e_base e <= fee_cap t /\
  (0 <= e_blim e -> bgas < e_blim e /\ t_gas t <= e_blim e).
Proof.
  unfold admit_reason. intro H.
  destruct ((0 <=? e_blim e) && (e_blim e <=? bgas)) eqn:E1; [discriminate|].
  destruct (basic_valid t) eqn:E2; simpl in H; [|discriminate].
  destruct (negb (e_mgp e =? 0) && _) eqn:E3; [discriminate|].
  destruct (fee_cap t <? e_base e) eqn:E4; [discriminate|].
  destruct ((0 <? t_value t) && (bal <? t_value t)) eqn:E5; [discriminate|].
  destruct (eff_price e t * t_gas t <=? 0) eqn:E6; [discriminate|].
  destruct (bal <? eff_price e t * t_gas t) eqn:E7; [discriminate|].
  destruct nonce as [n|]; [|discriminate]. simpl in H.
  destruct ((0 <=? e_blim e) && (e_blim e <? t_gas t)) eqn:E8; [discriminate|].
  destruct (n =? t_nonce t) eqn:E9; [|discriminate].
  apply Z.eqb_eq in E9. apply Z.ltb_ge in E4, E7. apply Z.leb_gt in E6.
  assert (Hval : 0 < t_value t -> t_value t <= bal).
  { intro Hv. apply andb_false_iff in E5. destruct E5 as [E5|E5]; apply Z.ltb_ge in E5; lia. }
  assert (Hl1 : 0 <= e_blim e -> bgas < e_blim e).
  { intro Hl. apply andb_false_iff in E1. destruct E1 as [E1|E1]; apply Z.leb_gt in E1; lia. }
  assert (Hl2 : 0 <= e_blim e -> t_gas t <= e_blim e).
  { intro Hl. apply andb_false_iff in E8. destruct E8 as [E8|E8]; [apply Z.leb_gt in E8|apply Z.ltb_ge in E8]; lia. }
  subst n. repeat split; auto; lia.
Qed.

Lemma basic_valid_gas t : basic_valid t = true -> 0 < t_gas t /\ 0 <= t_value t.
Proof.
  unfold basic_valid. intro H. apply andb_prop in H. destruct H as [H _].
  apply andb_prop in H. destruct H as [H1 H2]. apply Z.ltb_lt in H1. apply Z.leb_le in H2. lia.
Qed.

(* ---------------- the step meets the statement ---------------- *)
Definition state_ok (s : state) : Prop :=
  0 <= s_coll s /\ forall a, 0 <= aget 0 (s_bal s) a.

Lemma env_ok_inv e : env_ok e = true -> 0 <= e_base e /\ 0 <= e_mgp e /\ 0 <= e_mult e /\ e_mult e <= P.
Proof.
  unfold env_ok. intro H.
  apply andb_prop in H. destruct H as [H H4]. apply andb_prop in H. destruct H as [H H3].
  apply andb_prop in H. destruct H as [H1 H2].
  apply Z.leb_le in H1, H2, H3, H4. lia.
Qed.

Lemma oracle_ok_inv t o : oracle_ok t o = true ->
  0 <= t_intr t /\ 0 <= o_gas o /\ 0 <= o_refund o /\ (t_intr t <= t_gas t -> t_intr t + o_gas o <= t_gas t) /\
  0 <= o_ctxgas o.
Proof.
  unfold oracle_ok. intro H.
  apply andb_prop in H. destruct H as [H H5].
  apply andb_prop in H. destruct H as [H H4]. apply andb_prop in H. destruct H as [H H3].
  apply andb_prop in H. destruct H as [H1 H2].
  apply Z.leb_le in H1, H2, H3, H5.
  repeat split; try assumption. intro Hi.
  apply orb_prop in H4. destruct H4 as [H4|H4].
  - apply Z.ltb_lt in H4. lia.
  - apply Z.leb_le in H4. lia.
Qed.

Ltac zb :=
  repeat match goal with
  | |- (_ && _) = true => apply andb_true_intro; split
  | |- (_ =? _) = true => apply Z.eqb_eq
  | |- (_ <=? _) = true => apply Z.leb_le
  | |- optz_eqb _ _ = true => apply optz_eqb_refl
  | |- String.eqb ?a ?a = true => apply String.eqb_refl
  | |- Bool.eqb ?a ?a = true => apply Bool.eqb_reflx
  end.

(* expand every lookup in an updated map, decide the address comparisons, finish by arithmetic *)
Ltac sget bal :=
  subst bal; rewrite ?aget_aset;
  repeat match goal with
  | |- context [String.eqb ?a ?b] => destruct (String.eqb_spec a b)
  end;
  repeat match goal with
  | H : ?a = ?b |- _ => rewrite H in *; clear H
  end;
  try congruence; try reflexivity; try nia.

Ltac fin bal :=
  repeat match goal with
  | |- _ /\ _ => split
  | |- forall _, _ => intro
  end;
  try discriminate; try assumption; try lia;
  try match goal with
  | H : Done _ _ = Done _ _ |- _ => inversion H; subst; cbn [s_bgas]; try reflexivity; try lia
  end;
  try solve [sget bal].

Lemma view_same_refl_bgas s g t : view_same (view_of s t) (view_of (with_bgas s g) t) = true.
Proof. unfold view_same, view_of, with_bgas; simpl. zb; reflexivity. Qed.

Lemma view_same_refl v : view_same v v = true.
Proof. unfold view_same. zb; reflexivity. Qed.

(* gas charged to an included transaction, as the statement reads it off the result *)
Definition charged (t : tx) (r : result) : Z :=
  match r with Done g _ => g | Rejected _ => 0 | _ => t_gas t end.
Definition included (r : result) : bool := match r with Rejected _ => false | _ => true end.
Definition succeeded (r : result) : bool := match r with Done _ false => true | _ => false end.

(* everything the later theorems need about one step, in one place *)
Lemma deliver_spec e s t o :
  env_ok e = true -> oracle_ok t o = true -> state_ok s ->
  let s' := fst (deliver e s t o) in
  let r := snd (deliver e s t o) in
  r <> RefundFail /\
  state_ok s' /\
  (included r = false ->
     s_bal s' = s_bal s /\ s_nonce s' = s_nonce s /\ s_coll s' = s_coll s /\ s_world s' = s_world s /\
     s_bgas s <= s_bgas s') /\
  (included r = true ->
     let g := charged t r in
     let price := eff_price e t in
     let moved := if succeeded r then t_value t else 0 in
     admit_reason e (aget 0 (s_bal s) (t_from t)) (aget None (s_nonce s) (t_from t)) (s_bgas s) t = 0 /\
     min_gas_used e t <= g /\ g <= t_gas t /\ 0 <= price /\
     s_coll s' = s_coll s + g * price /\
     aget None (s_nonce s') (t_from t) = Some (t_nonce t + 1) /\
     (forall a, a <> t_from t -> aget None (s_nonce s') a = aget None (s_nonce s) a) /\
     (t_from t = t_to t -> aget 0 (s_bal s') (t_from t) = aget 0 (s_bal s) (t_from t) - g * price) /\
     (t_from t <> t_to t ->
        aget 0 (s_bal s') (t_from t) = aget 0 (s_bal s) (t_from t) - (moved + g * price) /\
        aget 0 (s_bal s') (t_to t) = aget 0 (s_bal s) (t_to t) + moved) /\
     (forall a, a <> t_from t -> a <> t_to t -> aget 0 (s_bal s') a = aget 0 (s_bal s) a) /\
     (succeeded r = false -> s_world s' = s_world s) /\
     s_bgas s <= s_bgas s' /\
     (forall g' f, r = Done g' f -> g' = final_gas_used e t (temp_gas_used t o) /\
                                  s_bgas s' = s_bgas s + g' /\
                                  (0 <= e_blim e -> s_bgas s' <= e_blim e))).
Proof.
  intros He Ho [Hc Hb].
  apply env_ok_inv in He. destruct He as (Hbase & Hmgp & Hm0 & Hm1).
  apply oracle_ok_inv in Ho. destruct Ho as (Hi & Hog & Hor & Hfit & Hcg).
  unfold deliver.
  set (bal := aget 0 (s_bal s) (t_from t)).
  set (nonce := aget None (s_nonce s) (t_from t)).
  set (why := admit_reason e bal nonce (s_bgas s) t).
  destruct (why =? 2) eqn:Ew.
  { simpl. split; [discriminate|]. split; [split; assumption|]. split; [intros _; repeat split; lia|intro H; discriminate]. }
  destruct (why =? 0) eqn:Ew0; simpl negb; cbv iota.
  2:{ simpl. split; [discriminate|]. split; [split; assumption|]. split; [intros _; repeat split; lia|intro H; discriminate]. }
  apply Z.eqb_eq in Ew0. unfold why in Ew0. pose proof Ew0 as Hadm.
  apply admit_inv in Ew0. destruct Ew0 as (Hv & Hn & Hf0 & Hf1 & Hval & Hcap & Hlim).
  pose proof (basic_valid_gas t Hv) as [Hgas Hvalue].
  pose proof (eff_price_nonneg e t Hbase Hv) as Hprice.
  set (price := eff_price e t) in *.
  assert (Hbal0 : 0 <= bal) by apply Hb.
  assert (Hbto : 0 <= aget 0 (s_bal s) (t_to t)) by apply Hb.
  assert (Hmin : min_gas_used e t <= t_gas t /\ 0 <= min_gas_used e t).
  { rewrite min_gas_used_eq by lia. pose proof P_pos. split; [apply Z.div_le_upper_bound; nia|apply Z.div_pos; nia]. }
  destruct (t_gas t <? t_intr t) eqn:Eintr.
  - (* intrinsic gas error *)
    simpl. split; [discriminate|].
    split.
    { split; simpl; [nia|]. intro a. pose proof (Hb a). sget bal. }
    split; [intro H; discriminate|]. intros _. simpl. fin bal.
  - apply Z.ltb_ge in Eintr. specialize (Hfit Eintr).
    set (failed := o_failed o || (bal - price * t_gas t <? t_value t)).
    destruct (negb failed && t_blocked t && (0 <? t_value t)) eqn:Eblk.
    { simpl. split; [discriminate|].
      split.
      { split; simpl; [nia|]. intro a. pose proof (Hb a). sget bal. }
      split; [intro H; discriminate|]. intros _. simpl. fin bal. }
    pose proof (temp_gas_used_bounds t o Hi Hog Hor) as [Ht0 Ht1].
    pose proof (final_gas_used_bounds e t (temp_gas_used t o) ltac:(lia) Hm0 Hm1 Ht0 ltac:(lia)) as (Hg1 & Hg2 & Hg3 & Hg4).
    set (gu := final_gas_used e t (temp_gas_used t o)) in *.
    assert (Hgu0 : 0 <= gu) by lia.
    pose proof (refund_le_prepaid (t_gas t) gu price Hgu0 Hg3 Hprice) as [Hr0 Hr1].
    destruct ((t_gas t - gu) * price <? 0) eqn:Er0; [apply Z.ltb_lt in Er0; lia|].
    cbn [s_coll]. destruct (s_coll s + price * t_gas t <? (t_gas t - gu) * price) eqn:Er1; [apply Z.ltb_lt in Er1; lia|].
    destruct ((0 <=? e_blim e) && (e_blim e <? s_bgas s + gu)) eqn:Eb.
    + (* block gas exceeded: only the ante effects stay *)
      simpl. split; [discriminate|]. split.
      { split; simpl; [nia|]. intro a. pose proof (Hb a). sget bal. }
      split; [intro H; discriminate|]. intros _. simpl. fin bal.
    + (* executed and kept *)
      simpl. split; [discriminate|].
      assert (Hbl : 0 <= e_blim e -> s_bgas s + gu <= e_blim e).
      { intro Hl. apply andb_false_iff in Eb. destruct Eb as [Eb|Eb]; [apply Z.leb_gt in Eb; lia|apply Z.ltb_ge in Eb; lia]. }
      destruct failed eqn:Ef.
      * split.
        { split; simpl; [nia|]. intro a. pose proof (Hb a). sget bal. }
        split; [intro H; discriminate|]. intros _. simpl. fin bal.
      * unfold failed in Ef. apply orb_false_iff in Ef. destruct Ef as [_ Ef]. apply Z.ltb_ge in Ef.
        split.
        { split; simpl; [nia|]. intro a. pose proof (Hb a). sget bal. }
        split; [intro H; discriminate|]. intros _. simpl. fin bal.
Qed.

(* ---------------- the model's step satisfies the monitored statement ---------------- *)
Lemma deliver_step_ok e s t o :
  env_ok e = true -> oracle_ok t o = true -> state_ok s ->
  let s' := fst (deliver e s t o) in
  let r := snd (deliver e s t o) in
  step_ok e t (view_of s t) (code_of r) (resp_of r) (view_of s' t) = true /\
  gas_rule_ok e t o (resp_of r) = true.
Proof.
  intros He Ho Hs. pose proof (deliver_spec e s t o He Ho Hs) as H. cbv zeta in *.
  destruct H as (Hnf & _ & Hrej & Hinc).
  destruct (deliver e s t o) as [s' r] eqn:Ed. simpl fst in *. simpl snd in *.
  destruct (included r) eqn:Ei.
  - specialize (Hinc eq_refl). cbv zeta in Hinc.
    destruct Hinc as (Hadm & Hg1 & Hg2 & Hp & Hcoll & Hnon & _ & Hself & Hdiff & _ & Hworld & Hbg & Hdone).
    unfold step_ok. simpl v_sbal; simpl v_nonce; simpl v_bgas. rewrite Hadm. simpl negb. cbv iota.
    assert (Hsplit : forall g ok, g = charged t r -> ok = succeeded r ->
      (Bool.eqb (code_of r) (match resp_of r with Some _ => true | None => false end) &&
       optz_eqb (aget None (s_nonce s') (t_from t)) (Some (t_nonce t + 1)) &&
       (min_gas_used e t <=? g) && (g <=? t_gas t) &&
       (s_coll s' =? s_coll s + g * eff_price e t) &&
       (if String.eqb (t_from t) (t_to t)
        then aget 0 (s_bal s') (t_from t) =? aget 0 (s_bal s) (t_from t) - g * eff_price e t
        else (aget 0 (s_bal s') (t_from t) =? aget 0 (s_bal s) (t_from t) - ((if ok then t_value t else 0) + g * eff_price e t)) &&
             (aget 0 (s_bal s') (t_to t) =? aget 0 (s_bal s) (t_to t) + (if ok then t_value t else 0))) &&
       (ok || String.eqb (s_world s') (s_world s)) && (s_bgas s <=? s_bgas s')) = true).
    { intros g ok -> ->. rewrite Hnon.
      repeat (apply andb_true_intro; split); try (apply Z.leb_le; assumption); try (apply Z.eqb_eq; assumption).
      - destruct r; reflexivity.
      - apply optz_eqb_refl.
      - destruct (String.eqb_spec (t_from t) (t_to t)) as [E|E].
        + apply Z.eqb_eq. apply Hself. exact E.
        + destruct (Hdiff E) as [D1 D2]. apply andb_true_intro; split; apply Z.eqb_eq; assumption.
      - destruct (succeeded r) eqn:Es; [reflexivity|]. rewrite (Hworld eq_refl). simpl. apply String.eqb_refl. }
    split.
    + destruct r as [w| | |g f|]; simpl resp_of in *; simpl code_of in *; try discriminate;
        try (apply Hsplit; reflexivity).
    + destruct r as [w| | |g f|]; simpl; try reflexivity.
      destruct (Hdone g f eq_refl) as (-> & _). apply Z.eqb_refl.
  - destruct (Hrej eq_refl) as (Hb & Hn & Hc & Hw & _).
    destruct r as [w| | | |]; try discriminate. simpl.
    assert (Hwhy : (admit_reason e (aget 0 (s_bal s) (t_from t)) (aget None (s_nonce s) (t_from t)) (s_bgas s) t =? 0) = false).
    { unfold deliver in Ed.
      destruct (admit_reason e (aget 0 (s_bal s) (t_from t)) (aget None (s_nonce s) (t_from t)) (s_bgas s) t =? 2) eqn:E1.
      - apply Z.eqb_eq in E1; rewrite E1; reflexivity.
      - destruct (admit_reason e (aget 0 (s_bal s) (t_from t)) (aget None (s_nonce s) (t_from t)) (s_bgas s) t =? 0) eqn:E0; [|reflexivity].
        simpl in Ed. exfalso.
        repeat match type of Ed with
        | (if ?c then _ else _) = _ => destruct c
        | (let _ := _ in _) = _ => cbv zeta in Ed
        end; inversion Ed. }
    split; [|reflexivity].
    unfold step_ok. simpl v_sbal; simpl v_nonce; simpl v_bgas. rewrite Hwhy. simpl.
    unfold view_same, view_of; simpl. rewrite Hb, Hn, Hc, Hw.
    rewrite !Z.eqb_refl, optz_eqb_refl, String.eqb_refl. reflexivity.
Qed.

(* ---------------- sequences of transactions sharing a block ---------------- *)
Fixpoint trace (e : env) (s : state) (ops : list (tx * oracle)) : list (tx * result) :=
  match ops with
  | [] => []
  | (t, o) :: r => (t, snd (deliver e s t o)) :: trace e (fst (deliver e s t o)) r
  end.

Lemma run_cons e s t o r : run e s ((t, o) :: r) = run e (fst (deliver e s t o)) r.
Proof. reflexivity. Qed.

Definition oracles_ok (ops : list (tx * oracle)) : bool := forallb (fun op => oracle_ok (fst op) (snd op)) ops.

Lemma run_state_ok e ops : forall s,
  env_ok e = true -> oracles_ok ops = true -> state_ok s -> state_ok (run e s ops).
Proof.
  induction ops as [|[t o] r IH]; intros s He Ho Hs; [exact Hs|].
  simpl in Ho. apply andb_prop in Ho. destruct Ho as [Ho1 Ho2].
  rewrite run_cons. apply IH; try assumption.
  apply (deliver_spec e s t o He Ho1 Hs).
Qed.

Fixpoint all_steps_ok (e : env) (s : state) (ops : list (tx * oracle)) : bool :=
  match ops with
  | [] => true
  | (t, o) :: r =>
      let s' := fst (deliver e s t o) in
      let res := snd (deliver e s t o) in
      step_ok e t (view_of s t) (code_of res) (resp_of res) (view_of s' t) &&
      gas_rule_ok e t o (resp_of res) && all_steps_ok e s' r
  end.

Lemma all_steps_ok_true e ops : forall s,
  env_ok e = true -> oracles_ok ops = true -> state_ok s -> all_steps_ok e s ops = true.
Proof.
  induction ops as [|[t o] r IH]; intros s He Ho Hs; [reflexivity|].
  simpl in Ho. apply andb_prop in Ho. destruct Ho as [Ho1 Ho2]. simpl.
  destruct (deliver_step_ok e s t o He Ho1 Hs) as [H1 H2]. cbv zeta in H1, H2. rewrite H1, H2. simpl.
  apply IH; try assumption. apply (deliver_spec e s t o He Ho1 Hs).
Qed.

(* collector: sum over the block of gas charged times the price paid *)
Definition fee_of (e : env) (p : tx * result) : Z := charged (fst p) (snd p) * eff_price e (fst p).

Lemma collector_run e ops : forall s,
  env_ok e = true -> oracles_ok ops = true -> state_ok s ->
  s_coll (run e s ops) = s_coll s + zsum (map (fee_of e) (trace e s ops)).
Proof.
  induction ops as [|[t o] r IH]; intros s He Ho Hs; [simpl; lia|].
  simpl in Ho. apply andb_prop in Ho. destruct Ho as [Ho1 Ho2].
  rewrite run_cons. simpl trace. simpl map. simpl zsum.
  pose proof (deliver_spec e s t o He Ho1 Hs) as H. cbv zeta in H. destruct H as (_ & Hs' & Hrej & Hinc).
  rewrite IH by assumption. unfold fee_of at 2. simpl fst; simpl snd.
  destruct (included (snd (deliver e s t o))) eqn:Ei.
  - destruct (Hinc eq_refl) as (_ & _ & _ & _ & Hc & _). rewrite Hc. lia.
  - destruct (Hrej eq_refl) as (_ & _ & Hc & _). rewrite Hc.
    destruct (snd (deliver e s t o)); try discriminate. simpl. lia.
Qed.

(* nonce: +1 for every included transaction of the account, nothing else *)
Definition from_incl (a : string) (p : tx * result) : bool := included (snd p) && String.eqb (t_from (fst p)) a.

Lemma nonce_run e ops : forall s a n,
  env_ok e = true -> oracles_ok ops = true -> state_ok s ->
  aget None (s_nonce s) a = Some n ->
  aget None (s_nonce (run e s ops)) a = Some (n + Z.of_nat (List.length (filter (from_incl a) (trace e s ops)))).
Proof.
  induction ops as [|[t o] r IH]; intros s a n He Ho Hs Hn; [simpl; rewrite Hn; f_equal; lia|].
  simpl in Ho. apply andb_prop in Ho. destruct Ho as [Ho1 Ho2].
  rewrite run_cons. simpl trace. simpl filter.
  pose proof (deliver_spec e s t o He Ho1 Hs) as H. cbv zeta in H. destruct H as (_ & Hs' & Hrej & Hinc).
  unfold from_incl at 1. simpl fst; simpl snd.
  destruct (included (snd (deliver e s t o))) eqn:Ei.
  - destruct (Hinc eq_refl) as (Hadm & _ & _ & _ & _ & Hnon & Hoth & _).
    destruct (String.eqb_spec (t_from t) a) as [E|E]; simpl.
    + subst a. apply admit_inv in Hadm. destruct Hadm as (_ & Hnn & _). rewrite Hn in Hnn. inversion Hnn; subst n.
      rewrite (IH _ (t_from t) (t_nonce t + 1) He Ho2 Hs' Hnon). f_equal. lia.
    + rewrite (IH _ a n He Ho2 Hs'); [reflexivity|]. rewrite Hoth by congruence. exact Hn.
  - destruct (Hrej eq_refl) as (_ & Hnn & _). simpl.
    rewrite (IH _ a n He Ho2 Hs'); [reflexivity|]. rewrite Hnn. exact Hn.
Qed.

(* zero sum over any finite set of addresses that contains every sender and recipient, plus the collector *)
Definition total (L : list string) (s : state) : Z := zsum (map (aget 0 (s_bal s)) L) + s_coll s.

Lemma zsum_map_delta (f g : string -> Z) L :
  zsum (map g L) = zsum (map f L) + zsum (map (fun a => g a - f a) L).
Proof. induction L as [|a r IH]; simpl; [reflexivity|]. rewrite IH. lia. Qed.

Lemma zsum_map_zero (d : string -> Z) L : (forall a, In a L -> d a = 0) -> zsum (map d L) = 0.
Proof.
  induction L as [|a r IH]; intro H; simpl; [reflexivity|].
  rewrite (H a) by (left; reflexivity). rewrite IH; [reflexivity|]. intros b Hb. apply H. right; exact Hb.
Qed.

Lemma zsum_map_one (d : string -> Z) L k :
  NoDup L -> In k L -> (forall a, In a L -> a <> k -> d a = 0) -> zsum (map d L) = d k.
Proof.
  induction L as [|a r IH]; intros Hnd Hin Hz; [destruct Hin|].
  inversion Hnd as [|? ? Hna Hnd']; subst. simpl. destruct Hin as [->|Hin].
  - rewrite zsum_map_zero; [lia|]. intros b Hb. apply Hz; [right; exact Hb|]. intro; subst. contradiction.
  - rewrite (Hz a) by (try (left; reflexivity); intro; subst; contradiction).
    rewrite IH; try assumption; [lia|]. intros b Hb Hne. apply Hz; [right; exact Hb|exact Hne].
Qed.

Lemma zsum_map_two (d : string -> Z) L k1 k2 :
  NoDup L -> In k1 L -> In k2 L -> k1 <> k2 -> (forall a, In a L -> a <> k1 -> a <> k2 -> d a = 0) ->
  zsum (map d L) = d k1 + d k2.
Proof.
  induction L as [|a r IH]; intros Hnd H1 H2 Hne Hz; [destruct H1|].
  inversion Hnd as [|? ? Hna Hnd']; subst. simpl.
  destruct H1 as [->|H1], H2 as [->|H2].
  - contradiction.
  - rewrite (zsum_map_one d r k2 Hnd' H2); [lia|]. intros b Hb Hb2. apply Hz; [right; exact Hb| |exact Hb2].
    intro; subst. contradiction.
  - rewrite (zsum_map_one d r k1 Hnd' H1); [lia|]. intros b Hb Hb1. apply Hz; [right; exact Hb|exact Hb1|].
    intro; subst. contradiction.
  - rewrite (Hz a); [|left; reflexivity|intro; subst; contradiction|intro; subst; contradiction].
    rewrite IH; try assumption; [lia|]. intros b Hb. apply Hz. right; exact Hb.
Qed.

Definition ops_within (L : list string) (ops : list (tx * oracle)) : Prop :=
  Forall (fun op => In (t_from (fst op)) L /\ In (t_to (fst op)) L) ops.

Lemma total_step e s t o L :
  env_ok e = true -> oracle_ok t o = true -> state_ok s ->
  NoDup L -> In (t_from t) L -> In (t_to t) L ->
  total L (fst (deliver e s t o)) = total L s.
Proof.
  intros He Ho Hs Hnd Hf Ht.
  pose proof (deliver_spec e s t o He Ho Hs) as H. cbv zeta in H. destruct H as (_ & _ & Hrej & Hinc).
  unfold total.
  destruct (included (snd (deliver e s t o))) eqn:Ei.
  - destruct (Hinc eq_refl) as (_ & _ & _ & _ & Hc & _ & _ & Hself & Hdiff & Hoth & _).
    rewrite (zsum_map_delta (aget 0 (s_bal s)) (aget 0 (s_bal (fst (deliver e s t o)))) L). rewrite Hc.
    set (d := fun a : string => aget 0 (s_bal (fst (deliver e s t o))) a - aget 0 (s_bal s) a).
    destruct (string_dec (t_from t) (t_to t)) as [E|E].
    + rewrite (zsum_map_one d L (t_from t) Hnd Hf).
      * unfold d. rewrite (Hself E). lia.
      * intros a _ Ha. unfold d. rewrite Hoth; [lia|exact Ha|congruence].
    + destruct (Hdiff E) as [D1 D2].
      rewrite (zsum_map_two d L (t_from t) (t_to t) Hnd Hf Ht E).
      * unfold d. rewrite D1, D2. lia.
      * intros a _ Ha1 Ha2. unfold d. rewrite Hoth by assumption. lia.
  - destruct (Hrej eq_refl) as (Hb & _ & Hc & _). rewrite Hb, Hc. reflexivity.
Qed.

Lemma total_run e L ops : forall s,
  env_ok e = true -> oracles_ok ops = true -> state_ok s -> NoDup L -> ops_within L ops ->
  total L (run e s ops) = total L s.
Proof.
  induction ops as [|[t o] r IH]; intros s He Ho Hs Hnd Hw; [reflexivity|].
  simpl in Ho. apply andb_prop in Ho. destruct Ho as [Ho1 Ho2].
  inversion Hw as [|? ? [Hf Ht] Hw']; subst. simpl in Hf, Ht.
  rewrite run_cons. rewrite IH; try assumption.
  - apply total_step; assumption.
  - apply (deliver_spec e s t o He Ho1 Hs).
Qed.

(* ---------------- frame statements ---------------- *)
Lemma rejected_free e s t o :
  included (snd (deliver e s t o)) = false ->
  let s' := fst (deliver e s t o) in
  s_bal s' = s_bal s /\ s_nonce s' = s_nonce s /\ s_coll s' = s_coll s /\ s_world s' = s_world s.
Proof.
  unfold deliver.
  repeat match goal with
  | |- context [if ?c then _ else _] => destruct c; simpl; try discriminate
  end; intros _; repeat split.
Qed.

Lemma failed_no_effect e s t o :
  env_ok e = true -> oracle_ok t o = true -> state_ok s ->
  included (snd (deliver e s t o)) = true -> succeeded (snd (deliver e s t o)) = false ->
  let s' := fst (deliver e s t o) in
  s_world s' = s_world s /\
  (forall a, a <> t_from t -> aget 0 (s_bal s') a = aget 0 (s_bal s) a) /\
  (forall a, a <> t_from t -> aget None (s_nonce s') a = aget None (s_nonce s) a) /\
  aget 0 (s_bal s') (t_from t) = aget 0 (s_bal s) (t_from t) - charged t (snd (deliver e s t o)) * eff_price e t.
Proof.
  intros He Ho Hs Hi Hf.
  pose proof (deliver_spec e s t o He Ho Hs) as H. cbv zeta in H. destruct H as (_ & _ & _ & Hinc).
  destruct (Hinc Hi) as (_ & _ & _ & _ & _ & _ & Hnon & Hself & Hdiff & Hoth & Hw & _).
  rewrite Hf in *. cbv zeta. split; [apply Hw; reflexivity|]. split; [|split; [exact Hnon|]].
  - intros a Ha. destruct (string_dec a (t_to t)) as [->|N].
    + destruct (Hdiff ltac:(congruence)) as [_ D2]. rewrite D2. lia.
    + apply Hoth; assumption.
  - destruct (string_dec (t_from t) (t_to t)) as [E|E].
    + apply Hself. exact E.
    + destruct (Hdiff E) as [D1 _]. rewrite D1. lia.
Qed.

(* a transaction refused by anything but validateBasicTxMsgs (2) leaves the block gas meter alone *)
Lemma rejected_block_gas e s t o why :
  snd (deliver e s t o) = Rejected why -> why <> 2 ->
  s_bgas (fst (deliver e s t o)) = s_bgas s.
Proof.
  unfold deliver.
  set (w := admit_reason e (aget 0 (s_bal s) (t_from t)) (aget None (s_nonce s) (t_from t)) (s_bgas s) t).
  destruct (w =? 2) eqn:E1.
  { simpl. intros H H2. inversion H; subst why. apply Z.eqb_eq in E1; congruence. }
  destruct (w =? 0) eqn:E0; simpl negb; cbv iota; [|simpl; reflexivity].
  intros H _. exfalso. revert H.
  repeat match goal with
  | |- context [if ?c then _ else _] => destruct c
  end; simpl; discriminate.
Qed.

(* ---------------- block gas: what is executed and kept fits in the block ---------------- *)
Definition done_gas (p : tx * result) : Z := match snd p with Done g _ => g | _ => 0 end.

Lemma block_gas_run e ops : forall s,
  env_ok e = true -> oracles_ok ops = true -> state_ok s -> 0 <= e_blim e ->
  zsum (map done_gas (trace e s ops)) <= Z.max 0 (e_blim e - s_bgas s).
Proof.
  induction ops as [|[t o] r IH]; intros s He Ho Hs Hl; [simpl; lia|].
  simpl in Ho. apply andb_prop in Ho. destruct Ho as [Ho1 Ho2].
  simpl trace. simpl map. simpl zsum.
  pose proof (deliver_spec e s t o He Ho1 Hs) as H. cbv zeta in H. destruct H as (_ & Hs' & Hrej & Hinc).
  specialize (IH (fst (deliver e s t o)) He Ho2 Hs' Hl).
  unfold done_gas at 1. simpl snd.
  destruct (included (snd (deliver e s t o))) eqn:Ei.
  - destruct (Hinc eq_refl) as (_ & Hg1 & _ & _ & _ & _ & _ & _ & _ & _ & _ & Hmono & Hdone).
    destruct (snd (deliver e s t o)) as [w| | |g f|] eqn:Er; try lia.
    destruct (Hdone g f eq_refl) as (_ & Hb & Hle). specialize (Hle Hl).
    simpl charged in Hg1.
    assert (0 <= min_gas_used e t).
    { apply env_ok_inv in He. destruct He as (_ & _ & Hm0 & Hm1).
      destruct (Hinc eq_refl) as (Hadm & _). apply admit_inv in Hadm. destruct Hadm as (Hv & _).
      apply basic_valid_gas in Hv. rewrite min_gas_used_eq by lia. pose proof P_pos. apply Z.div_pos; nia. }
    lia.
  - destruct (Hrej eq_refl) as (_ & _ & _ & _ & Hmono).
    destruct (snd (deliver e s t o)); try discriminate. lia.
Qed.

(* ---------------- sender sequence across the messages of one multi-message transaction ---------------- *)
Lemma consecutive_bound msgs : forall n,
  consecutive n msgs = true ->
  forall m, In m msgs -> snd m + 1 <= n + Z.of_nat (List.length msgs).
Proof.
  induction msgs as [|a r IH]; intros n H m Hin; [destruct Hin|].
  simpl in H. apply andb_prop in H. destruct H as [H1 H2]. apply Z.eqb_eq in H1.
  simpl List.length. rewrite Nat2Z.inj_succ.
  destruct Hin as [->|Hin]; [lia|]. specialize (IH (n + 1) H2 m Hin). lia.
Qed.

Lemma repaired_fold msgs : forall total,
  (forall m, In m msgs -> snd m + 1 <= total) ->
  fold_left (fun seq (m : bool * Z) => if fst m then Z.max seq (snd m + 1) else seq) msgs total = total.
Proof.
  induction msgs as [|a r IH]; intros total H; [reflexivity|]. simpl.
  assert (Ha : snd a + 1 <= total) by (apply H; left; reflexivity).
  replace (if fst a then Z.max total (snd a + 1) else total) with total by (destruct (fst a); lia).
  apply IH. intros m Hm. apply H. right; exact Hm.
Qed.

Lemma seq_after_repaired_ok seq0 msgs :
  consecutive seq0 msgs = true -> seq_after_repaired seq0 msgs = seq0 + Z.of_nat (List.length msgs).
Proof.
  intro H. unfold seq_after_repaired. apply repaired_fold. apply consecutive_bound. exact H.
Qed.
