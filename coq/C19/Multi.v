(* C19/Multi.v — the C19 statement summed over the messages of ONE cosmos transaction that carries several
   MsgEthereumTx (same or different senders). Monitor only: no transition function is modelled for this shape
   (the theorems of C19/Props.v are about single-message transactions); the statement below is evaluated on what
   the implementation was observed to do. Executable definitions only. *)
From Coq Require Import List String Bool ZArith.
From Exo Require Import Base.IntDec Base.Util C19.Model C19.MultiTx.
Import ListNotations.
Local Open Scope Z_scope.

Record acct_obs := mkAO {
  ao_addr : string;
  ao_bal0 : Z; ao_nonce0 : option Z;     (* before DeliverTx *)
  ao_bal1 : Z; ao_nonce1 : option Z      (* after *)
}.

Definition mmsg := (tx * option (Z * bool))%type.   (* message, Some (GasUsed, VmError <> "") when a response exists *)

Record mcase := mkMCase {
  m_env : env;
  m_msgs : list mmsg;
  m_code_ok : bool;
  m_accts : list acct_obs;        (* every sender and value recipient, each once *)
  m_coll0 : Z; m_coll1 : Z;
  m_world0 : string; m_world1 : string;
  m_supply0 : Z; m_supply1 : Z;
  m_creates : list bool;          (* per message: contract creation *)
  m_oracles : list oracle;        (* per message: what the interpreter reported (measured on a discarded branch) *)
  m_bgas0 : Z; m_bgas1 : Z;       (* block gas meter *)
  m_ctxgas : Z                    (* ResponseDeliverTx.GasUsed *)
}.

Definition msg_g (m : mmsg) : Z := match snd m with Some (g, _) => g | None => t_gas (fst m) end.
Definition msg_ok (m : mmsg) : bool := match snd m with Some (_, f) => negb f | None => false end.
Definition msg_moved (m : mmsg) : Z := if msg_ok m then t_value (fst m) else 0.
Definition msg_fee (e : env) (m : mmsg) : Z := msg_g m * eff_price e (fst m).

(* net balance change the statement prescribes for address [a] *)
Definition delta_for (e : env) (a : string) (msgs : list mmsg) : Z :=
  zsum (map (fun m =>
               (if String.eqb (t_to (fst m)) a then msg_moved m else 0) -
               (if String.eqb (t_from (fst m)) a then msg_moved m + msg_fee e m else 0)) msgs).

Definition count_from (a : string) (msgs : list mmsg) : Z :=
  Z.of_nat (List.length (filter (fun m => String.eqb (t_from (fst m)) a) msgs)).

Definition accounting_ok (e : env) (msgs : list mmsg) (accts : list acct_obs) (coll0 coll1 : Z) : bool :=
  forallb (fun ao =>
             (ao_bal1 ao =? ao_bal0 ao + delta_for e (ao_addr ao) msgs) &&
             (let k := count_from (ao_addr ao) msgs in
              if k =? 0 then
                (* not a sender: an existing account keeps its sequence; an address without account may get one
                   (fresh recipient: sequence 0, created contract: nonce 1) *)
                match ao_nonce0 ao with Some _ => optz_eqb (ao_nonce1 ao) (ao_nonce0 ao) | None => true end
              else match ao_nonce0 ao with
                   | Some n => optz_eqb (ao_nonce1 ao) (Some (n + k))
                   | None => false
                   end)) accts &&
  (coll1 =? coll0 + zsum (map (msg_fee e) msgs)) &&
  forallb (fun m => (min_gas_used e (fst m) <=? msg_g m) && (msg_g m <=? t_gas (fst m))) msgs.

Definition nothing_changed (c : mcase) : bool :=
  forallb (fun ao => (ao_bal1 ao =? ao_bal0 ao) && optz_eqb (ao_nonce1 ao) (ao_nonce0 ao)) (m_accts c) &&
  (m_coll1 c =? m_coll0 c) && String.eqb (m_world1 c) (m_world0 c).

Definition mmonitor_case (c : mcase) : option nat :=
  let e := m_env c in
  let ok :=
    (m_supply0 c =? m_supply1 c) &&
    (if m_code_ok c then
       (* executed: every message has a response; per-message gas bounds; sums of value and gasUsed*price *)
       forallb (fun m => match snd m with Some _ => true | None => false end) (m_msgs c) &&
       accounting_ok e (m_msgs c) (m_accts c) (m_coll0 c) (m_coll1 c) &&
       (existsb msg_ok (m_msgs c) || String.eqb (m_world1 c) (m_world0 c))
     else
       (* either not included (nothing changes), or included with the message branch dropped: every message's whole
          gas limit is charged, every sender's nonce advances, and nothing else changes *)
       let dropped := map (fun m => (fst m, @None (Z * bool))) (m_msgs c) in
       nothing_changed c ||
       (accounting_ok e dropped (m_accts c) (m_coll0 c) (m_coll1 c) && String.eqb (m_world1 c) (m_world0 c)))
  in if ok then None else Some 0%nat.

(* ---- the sender sequence across the messages of one cosmos transaction
   (one sender, messages = (is a contract creation whose execution did not fail, nonce); a failed execution's writes,
   the nonce write included, are discarded with its cache context) ----
   Ante (EthIncrementSenderSequenceDecorator): every message must carry the current sequence, which is then incremented,
   so after the ante handler the sequence is seq0 + number of messages.
   ApplyMessageWithConfig, as found: a creation message ends with  stateDB.SetNonce(sender, msg.Nonce()+1).
   Repaired (repo_patches/fix-evm-create-nonce-multimsg.patch): ... SetNonce(sender, max(entry nonce, msg.Nonce()+1)). *)
Fixpoint consecutive (n : Z) (msgs : list (bool * Z)) : bool :=
  match msgs with
  | [] => true
  | m :: r => (snd m =? n) && consecutive (n + 1) r
  end.

Definition seq_after_found (seq0 : Z) (msgs : list (bool * Z)) : Z :=
  fold_left (fun (seq : Z) (m : bool * Z) => if fst m then snd m + 1 else seq) msgs (seq0 + Z.of_nat (List.length msgs)).

Definition seq_after_repaired (seq0 : Z) (msgs : list (bool * Z)) : Z :=
  fold_left (fun (seq : Z) (m : bool * Z) => if fst m then Z.max seq (snd m + 1) else seq) msgs (seq0 + Z.of_nat (List.length msgs)).

(* correspondence of the sequence rule: when every message has the same sender and the transaction executed, the observed
   sequence is the one of the as-found rule or of the repaired rule (whichever the tree under test implements) *)
Definition mnonce_case (c : mcase) : option nat :=
  match m_msgs c with
  | [] => None
  | m0 :: _ =>
      let a := t_from (fst m0) in
      if negb (m_code_ok c) || negb (forallb (fun m => String.eqb (t_from (fst m)) a) (m_msgs c)) then None
      else
        match find (fun ao => String.eqb (ao_addr ao) a) (m_accts c) with
        | Some ao =>
            match ao_nonce0 ao, ao_nonce1 ao with
            | Some n0, Some n1 =>
                let l := map (fun p => (fst p && msg_ok (snd p), t_nonce (fst (snd p))))
                             (combine (m_creates c) (m_msgs c)) in
                if (n1 =? seq_after_found n0 l) || (n1 =? seq_after_repaired n0 l) then None else Some 0%nat
            | _, _ => Some 0%nat
            end
        | None => Some 0%nat
        end
  end.

(* ---- correspondence with the transition model of C19/MultiTx.v ---- *)
Definition minit (c : mcase) : state :=
  mkSt (map (fun ao => (ao_addr ao, ao_bal0 ao)) (m_accts c))
       (map (fun ao => (ao_addr ao, ao_nonce0 ao)) (m_accts c))
       (m_coll0 c) (m_bgas0 c) (m_world0 c).

Definition out_eqb (a b : Z * bool) : bool := (fst a =? fst b) && Bool.eqb (snd a) (snd b).

Definition mcheck_case (c : mcase) : option nat :=
  let ops := combine (map fst (m_msgs c)) (m_oracles c) in
  if negb (Nat.eqb (List.length (m_msgs c)) (List.length (m_oracles c))) then Some 0%nat
  else
    let '(s', r) := deliver_multi (m_env c) (minit c) (m_ctxgas c) ops in
    let ok :=
      Bool.eqb (match r with MDone _ => true | _ => false end) (m_code_ok c) &&
      (match r with
       | MDone outs => list_eqb (option_eqb out_eqb) (map (@Some _) outs) (map snd (m_msgs c))
       | _ => forallb (fun m => match snd m with None => true | Some _ => false end) (m_msgs c)
       end) &&
      forallb (fun ao =>
                 (aget 0 (s_bal s') (ao_addr ao) =? ao_bal1 ao) &&
                 (* sequences: senders and already existing accounts; an address without account that is not a sender
                    may get one as a side effect (fresh recipient, created contract), which the model does not track *)
                 (match ao_nonce0 ao with
                  | Some _ => optz_eqb (aget None (s_nonce s') (ao_addr ao)) (ao_nonce1 ao)
                  | None => if count_from (ao_addr ao) (m_msgs c) =? 0 then true
                            else optz_eqb (aget None (s_nonce s') (ao_addr ao)) (ao_nonce1 ao)
                  end)) (m_accts c) &&
      (s_coll s' =? m_coll1 c) && (s_bgas s' =? m_bgas1 c) && String.eqb (s_world s') (m_world1 c)
    in if ok then None else Some 1%nat.

(* ---- the single-message model (Model.deliver) and the multi-message model on a one-element list ----
   evaluated on every transaction of suite evmfee: same result class, same charged gas, same state *)
Definition single_agrees (e : env) (s : state) (t : tx) (o : oracle) : bool :=
  let '(s1, r1) := deliver e s t o in
  let '(s2, r2) := deliver_multi e s (o_ctxgas o) [(t, o)] in
  (s_coll s1 =? s_coll s2) && (s_bgas s1 =? s_bgas s2) && String.eqb (s_world s1) (s_world s2) &&
  (aget 0 (s_bal s1) (t_from t) =? aget 0 (s_bal s2) (t_from t)) &&
  (aget 0 (s_bal s1) (t_to t) =? aget 0 (s_bal s2) (t_to t)) &&
  optz_eqb (aget None (s_nonce s1) (t_from t)) (aget None (s_nonce s2) (t_from t)) &&
  match r1, r2 with
  | Rejected a, MRejected b => a =? b
  | MsgErr, MMsgErr => true
  | BlockGasExceeded g f, MBlockGasExceeded [(g', f')] => (g =? g') && Bool.eqb f f'
  | Done g f, MDone [(g', f')] => (g =? g') && Bool.eqb f f'
  | RefundFail, MMsgErr => true
  | _, _ => false
  end.

Fixpoint agree_txs (e : env) (s : state) (l : list (tx * oracle * obs)) (i : nat) : option nat :=
  match l with
  | [] => None
  | (t, o, _) :: r =>
      if single_agrees e s t o then agree_txs e (fst (deliver e s t o)) r (S i) else Some i
  end.

Definition agree_case (c : case) : option nat := agree_txs (c_env c) (init_state c) (c_txs c) 0.

(* multi-message counterpart of Model.must_run_ok, asserted only where it is clear-cut: unlimited block, the ante handler
   admits the transaction, no message has a gas limit below its intrinsic gas or sends value to a blocked address ==> the
   transaction must execute (code 0), whoever proposed the block *)
Definition mmustrun_case (c : mcase) : option nat :=
  let e := m_env c in
  let msgs := map fst (m_msgs c) in
  if (0 <=? e_blim e) || (match msgs with [] => true | _ => false end) || negb (forallb basic_valid msgs) then None
  else match ante_multi e (minit c) msgs with
       | inl _ => None
       | inr _ =>
           if existsb (fun t => (t_gas t <? t_intr t) || (t_blocked t && (0 <? t_value t))) msgs then None
           else if m_code_ok c then None else Some 0%nat
       end.
