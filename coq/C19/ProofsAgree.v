(* C19/ProofsAgree.v — the single-message model is the one-element case of the multi-message model. *)
From Coq Require Import List String Bool ZArith Lia.
From Exo Require Import Base.IntDec Base.Util C19.Model C19.MultiTx C19.Multi C19.Proofs C19.ProofsMulti.
Import ListNotations.
Local Open Scope Z_scope.

Definition lift (r : result) : mresult :=
  match r with
  | Rejected w => MRejected w
  | MsgErr => MMsgErr
  | BlockGasExceeded g f => MBlockGasExceeded [(g, f)]
  | Done g f => MDone [(g, f)]
  | RefundFail => MMsgErr
  end.

Lemma deliver_multi_single e s t o :
  snd (deliver e s t o) <> RefundFail ->
  deliver_multi e s (o_ctxgas o) [(t, o)] = (fst (deliver e s t o), lift (snd (deliver e s t o))).
Proof.
  unfold deliver, deliver_multi, ante_multi, admit_reason. simpl map.
  set (bal := aget 0 (s_bal s) (t_from t)).
  destruct ((0 <=? e_blim e) && (e_blim e <=? s_bgas s)) eqn:E1; [intros _; reflexivity|].
  simpl forallb. rewrite andb_true_r.
  destruct (basic_valid t) eqn:E2; simpl; [|intros _; reflexivity].
  unfold mgp_ok, fees_of.
  destruct (negb (e_mgp e =? 0) && (dec_of_int (eff_price e t * t_gas t) <? dec_mul (e_mgp e) (dec_of_int (t_gas t)))) eqn:E3;
    simpl; [intros _; reflexivity|].
  destruct (fee_cap t <? e_base e) eqn:E4; simpl; [intros _; reflexivity|].
  fold bal.
  destruct ((0 <? t_value t) && (bal <? t_value t)) eqn:E5; simpl; [intros _; reflexivity|].
  unfold fees_of.
  destruct (eff_price e t * t_gas t <=? 0) eqn:E6; simpl; [intros _; reflexivity|].
  fold bal.
  destruct (bal <? eff_price e t * t_gas t) eqn:E7; simpl; [intros _; reflexivity|].
  destruct (aget None (s_nonce s) (t_from t)) as [n|] eqn:En; simpl; [|intros _; reflexivity].
  unfold gas_sum. simpl zsum. rewrite Z.add_0_r.
  destruct ((0 <=? e_blim e) && (e_blim e <? t_gas t)) eqn:E8; simpl; [intros _; reflexivity|].
  destruct (n =? t_nonce t) eqn:E9; simpl; [|intros _; reflexivity].
  apply Z.eqb_eq in E9. subst n.
  unfold exec_msg. cbn [s_bal s_coll s_nonce s_bgas s_world].
  destruct (t_gas t <? t_intr t) eqn:E10; [intros _; reflexivity|].
  rewrite aget_aset_same.
  set (failed := o_failed o || (bal - eff_price e t * t_gas t <? t_value t)).
  set (gu := final_gas_used e t (temp_gas_used t o)).
  destruct (negb failed && t_blocked t && (0 <? t_value t)) eqn:E11; [intros _; reflexivity|].
  destruct ((t_gas t - gu) * eff_price e t <? 0) eqn:E12; simpl; [intro H; exfalso; apply H; reflexivity|].
  destruct (s_coll s + eff_price e t * t_gas t <? (t_gas t - gu) * eff_price e t) eqn:E13; simpl;
    [intro H; exfalso; apply H; reflexivity|].
  intros _. rewrite Z.add_0_r.
  destruct ((0 <=? e_blim e) && (e_blim e <? s_bgas s + gu)) eqn:E14; simpl; reflexivity.
Qed.

(* under the standing hypotheses RefundFail is unreachable (Proofs.deliver_spec), so the agreement is unconditional *)
Lemma deliver_as_multi e s t o :
  env_ok e = true -> oracle_ok t o = true -> state_ok s ->
  deliver_multi e s (o_ctxgas o) [(t, o)] = (fst (deliver e s t o), lift (snd (deliver e s t o))).
Proof.
  intros He Ho Hs. apply deliver_multi_single.
  pose proof (deliver_spec e s t o He Ho Hs) as H. cbv zeta in H. apply H.
Qed.

Definition wrap (op : tx * oracle) : Z * list (tx * oracle) := (o_ctxgas (snd op), [op]).

(* a block of single-message transactions is a block of one-element multi-message transactions *)
Lemma run_as_multi e ops : forall s,
  env_ok e = true -> oracles_ok ops = true -> state_ok s ->
  run_multi e s (map wrap ops) = run e s ops.
Proof.
  induction ops as [|[t o] r IH]; intros s He Ho Hs; [reflexivity|].
  simpl in Ho. apply andb_prop in Ho. destruct Ho as [Ho1 Ho2].
  simpl map. rewrite run_multi_cons, run_cons. unfold wrap at 1. simpl fst; simpl snd.
  rewrite (deliver_as_multi e s t o He Ho1 Hs). simpl fst.
  apply IH; try assumption. apply (deliver_spec e s t o He Ho1 Hs).
Qed.

Lemma wrap_txs_ok ops : oracles_ok ops = true -> txs_ok (map wrap ops) = true.
Proof.
  unfold oracles_ok, txs_ok. induction ops as [|[t o] r IH]; intro H; [reflexivity|].
  simpl in H. apply andb_prop in H. destruct H as [H1 H2]. simpl. rewrite (IH H2).
  unfold mops_ok. simpl. rewrite H1. simpl.
  apply oracle_ok_inv in H1. destruct H1 as (_ & _ & _ & _ & Hc). apply Z.leb_le in Hc. rewrite Hc. reflexivity.
Qed.

(* the single-message block theorems as corollaries of the multi-message ones *)
Corollary single_solvent_from_multi e ops s :
  env_ok e = true -> oracles_ok ops = true -> state_ok s -> state_ok (run e s ops).
Proof.
  intros He Ho Hs. rewrite <- (run_as_multi e ops s He Ho Hs).
  apply run_multi_state_ok; try assumption. apply wrap_txs_ok; assumption.
Qed.

Corollary single_zero_sum_from_multi e L ops s :
  env_ok e = true -> oracles_ok ops = true -> state_ok s -> NoDup L -> ops_within L ops ->
  total L (run e s ops) = total L s.
Proof.
  intros He Ho Hs Hnd Hin. rewrite <- (run_as_multi e ops s He Ho Hs).
  apply run_multi_total; try assumption; [apply wrap_txs_ok; assumption|].
  clear - Hin. induction Hin as [|op r H Hr IH]; simpl; constructor; [|exact IH].
  unfold wrap, ops_within_m. simpl. constructor; [exact H|constructor].
Qed.

(* the model never drops an admitted transaction without one of the three excuses (monitor mustrun holds of every step) *)
Lemma deliver_must_run e s t o :
  snd (deliver e s t o) <> RefundFail ->
  must_run_ok e t o (view_of s t) (code_of (snd (deliver e s t o))) = true.
Proof.
  unfold must_run_ok, view_of, deliver. cbn [v_sbal v_nonce v_bgas].
  set (w := admit_reason e (aget 0 (s_bal s) (t_from t)) (aget None (s_nonce s) (t_from t)) (s_bgas s) t).
  set (bal := aget 0 (s_bal s) (t_from t)).
  destruct (w =? 2) eqn:E2.
  { apply Z.eqb_eq in E2. rewrite E2. intros _. reflexivity. }
  destruct (w =? 0) eqn:E0; simpl negb; cbv iota; [|intros _; reflexivity].
  destruct (t_gas t <? t_intr t) eqn:E1; [intros _; reflexivity|]. simpl orb.
  set (failed := o_failed o || (bal - eff_price e t * t_gas t <? t_value t)).
  destruct (negb failed && t_blocked t && (0 <? t_value t)) eqn:E3; [intros _; reflexivity|]. simpl orb.
  set (gu := final_gas_used e t (temp_gas_used t o)).
  destruct ((t_gas t - gu) * eff_price e t <? 0); [simpl; intro H; exfalso; apply H; reflexivity|].
  cbn [s_coll].
  destruct (s_coll s + eff_price e t * t_gas t <? (t_gas t - gu) * eff_price e t);
    [simpl; intro H; exfalso; apply H; reflexivity|].
  destruct ((0 <=? e_blim e) && (e_blim e <? s_bgas s + gu)); simpl; intros _; reflexivity.
Qed.

Lemma deliver_must_run_ok e s t o :
  env_ok e = true -> oracle_ok t o = true -> state_ok s ->
  must_run_ok e t o (view_of s t) (code_of (snd (deliver e s t o))) = true.
Proof.
  intros He Ho Hs. apply deliver_must_run.
  pose proof (deliver_spec e s t o He Ho Hs) as H. cbv zeta in H. apply H.
Qed.
