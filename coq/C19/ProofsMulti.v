(* C19/ProofsMulti.v — lemmas about the multi-message transition model (C19/MultiTx.v). *)
From Coq Require Import List String Bool ZArith Lia.
From Exo Require Import Base.IntDec Base.Util C19.Model C19.MultiTx C19.Multi C19.Proofs.
Import ListNotations.
Local Open Scope Z_scope.

(* ---------------- sums over address lists ---------------- *)
Lemma zsum_aset (m : amap Z) L k v :
  NoDup L -> In k L ->
  zsum (map (aget 0 (aset m k v)) L) = zsum (map (aget 0 m) L) + (v - aget 0 m k).
Proof.
  intros Hnd Hin. rewrite (zsum_map_delta (aget 0 m) (aget 0 (aset m k v)) L).
  set (d := fun a : string => aget 0 (aset m k v) a - aget 0 m a).
  rewrite (zsum_map_one d L k Hnd Hin).
  - unfold d. rewrite aget_aset_same. lia.
  - intros a _ Ha. unfold d. rewrite aget_aset_other by assumption. lia.
Qed.

Definition bal_nonneg (bal : amap Z) : Prop := forall a, 0 <= aget 0 bal a.

Lemma bal_nonneg_aset bal k v : bal_nonneg bal -> 0 <= v -> bal_nonneg (aset bal k v).
Proof. intros H Hv a. rewrite aget_aset. destruct (String.eqb a k); [exact Hv | apply H]. Qed.

(* ---------------- EthGasConsume over all messages ---------------- *)
Definition fee_from (e : env) (a : string) (t : tx) : Z := if String.eqb (t_from t) a then fees_of e t else 0.

Lemma consume_all_spec e nonce msgs : forall bal coll bal1 coll1,
  consume_all e nonce bal coll msgs = inr (bal1, coll1) ->
  coll1 = coll + zsum (map (fees_of e) msgs) /\
  (forall a, aget 0 bal1 a = aget 0 bal a - zsum (map (fee_from e a) msgs)) /\
  Forall (fun t => 0 < fees_of e t) msgs /\
  (bal_nonneg bal -> bal_nonneg bal1).
Proof.
  induction msgs as [|t r IH]; intros bal coll bal1 coll1 H; simpl in H.
  - inversion H; subst. simpl. split; [lia|]. split; [intro a; lia|]. split; [constructor|auto].
  - destruct (fees_of e t <=? 0) eqn:E1; [discriminate|]. apply Z.leb_gt in E1.
    destruct (aget 0 bal (t_from t) <? fees_of e t) eqn:E2; [discriminate|]. apply Z.ltb_ge in E2.
    destruct (aget None nonce (t_from t)); [|discriminate].
    apply IH in H. destruct H as (Hc & Hb & Hf & Hn). simpl.
    split; [lia|]. split.
    + intro a. rewrite Hb. rewrite aget_aset. unfold fee_from at 2.
      rewrite (String.eqb_sym a (t_from t)). destruct (String.eqb_spec (t_from t) a) as [->|N]; lia.
    + split; [constructor; assumption|]. intro Hnn. apply Hn. apply bal_nonneg_aset; [assumption|lia].
Qed.

Lemma consume_all_total e nonce L msgs : forall bal coll bal1 coll1,
  consume_all e nonce bal coll msgs = inr (bal1, coll1) ->
  NoDup L -> Forall (fun t => In (t_from t) L) msgs ->
  zsum (map (aget 0 bal1) L) + coll1 = zsum (map (aget 0 bal) L) + coll.
Proof.
  induction msgs as [|t r IH]; intros bal coll bal1 coll1 H Hnd Hin; simpl in H.
  - inversion H; subst. reflexivity.
  - destruct (fees_of e t <=? 0); [discriminate|].
    destruct (aget 0 bal (t_from t) <? fees_of e t); [discriminate|].
    destruct (aget None nonce (t_from t)); [|discriminate].
    inversion Hin as [|? ? Hf Hr]; subst.
    rewrite (IH _ _ _ _ H Hnd Hr). rewrite (zsum_aset bal L _ _ Hnd Hf). lia.
Qed.

(* ---------------- EthIncrementSenderSequence over all messages ---------------- *)
Definition tcount (a : string) (msgs : list tx) : Z :=
  Z.of_nat (List.length (filter (fun t => String.eqb (t_from t) a) msgs)).

Lemma tcount_cons a t r : tcount a (t :: r) = (if String.eqb (t_from t) a then 1 else 0) + tcount a r.
Proof.
  unfold tcount. simpl. destruct (String.eqb (t_from t) a); simpl List.length; [rewrite Nat2Z.inj_succ|]; lia.
Qed.

Lemma tcount_nonneg a msgs : 0 <= tcount a msgs.
Proof. unfold tcount. lia. Qed.

Lemma bump_all_spec msgs : forall nonce nonce1,
  bump_all nonce msgs = inr nonce1 ->
  forall a, match aget None nonce a with
            | Some n => aget None nonce1 a = Some (n + tcount a msgs)
            | None => tcount a msgs = 0 /\ aget None nonce1 a = None
            end.
Proof.
  induction msgs as [|t r IH]; intros nonce nonce1 H a; simpl in H.
  - inversion H; subst. unfold tcount; simpl. destruct (aget None nonce1 a); [f_equal; lia|split; reflexivity].
  - destruct (aget None nonce (t_from t)) as [n|] eqn:En; [|discriminate].
    destruct (n =? t_nonce t) eqn:Eq; [|discriminate].
    specialize (IH _ _ H a). rewrite aget_aset in IH. rewrite tcount_cons.
    rewrite (String.eqb_sym a (t_from t)) in IH.
    destruct (String.eqb_spec (t_from t) a) as [E|N].
    + subst a. rewrite En. rewrite IH. f_equal. lia.
    + destruct (aget None nonce a); [rewrite IH; f_equal; lia|]. destruct IH as [I1 I2]. split; [lia|exact I2].
Qed.

(* ---------------- one message on the message branch ---------------- *)
Definition out_moved (t : tx) (out : Z * bool) : Z := if snd out then 0 else t_value t.
Definition out_refund (e : env) (t : tx) (out : Z * bool) : Z := (t_gas t - fst out) * eff_price e t.

Lemma exec_msg_spec e s t o s' out :
  exec_msg e s t o = Some (s', out) -> 0 <= t_value t ->
  fst out = final_gas_used e t (temp_gas_used t o) /\
  t_intr t <= t_gas t /\
  0 <= out_refund e t out /\ out_refund e t out <= s_coll s /\
  s_coll s' = s_coll s - out_refund e t out /\
  s_nonce s' = s_nonce s /\ s_bgas s' = s_bgas s /\
  (snd out = true -> s_world s' = s_world s) /\
  (snd out = false -> t_value t <= aget 0 (s_bal s) (t_from t)) /\ 0 <= out_moved t out /\
  (forall a, aget 0 (s_bal s') a =
             aget 0 (s_bal s) a + (if String.eqb (t_to t) a then out_moved t out else 0)
             - (if String.eqb (t_from t) a then out_moved t out else 0)
             + (if String.eqb (t_from t) a then out_refund e t out else 0)).
Proof.
  unfold exec_msg. intros H Hv.
  destruct (t_gas t <? t_intr t) eqn:Ei; [discriminate|]. apply Z.ltb_ge in Ei.
  set (b := aget 0 (s_bal s) (t_from t)) in *.
  set (failed := o_failed o || (b <? t_value t)) in *.
  destruct (negb failed && t_blocked t && (0 <? t_value t)); [discriminate|].
  set (gu := final_gas_used e t (temp_gas_used t o)) in *.
  destruct (((t_gas t - gu) * eff_price e t <? 0) || (s_coll s <? (t_gas t - gu) * eff_price e t)) eqn:Er; [discriminate|].
  apply orb_false_iff in Er. destruct Er as [Er1 Er2]. apply Z.ltb_ge in Er1, Er2.
  inversion H; subst s' out; clear H. unfold out_moved, out_refund. simpl fst; simpl snd.
  cbn [s_coll s_nonce s_bgas s_world s_bal].
  repeat split; try assumption; try reflexivity; try lia.
  - intro Hf. rewrite Hf. reflexivity.
  - intro Ef. unfold failed in Ef. apply orb_false_iff in Ef. destruct Ef as [_ Ef].
    apply Z.ltb_ge in Ef. fold b. lia.
  - destruct failed; lia.
  - intro a. subst b. destruct failed eqn:Ef; rewrite ?aget_aset;
      repeat match goal with |- context [String.eqb ?x ?y] => destruct (String.eqb_spec x y) end;
      repeat match goal with
             | H : @eq string ?x ?y |- _ => first [subst x | subst y | rewrite H in *; clear H]
             end; try congruence; try lia.
Qed.

Lemma exec_msg_state_ok e s t o s' out :
  exec_msg e s t o = Some (s', out) -> 0 <= t_value t -> state_ok s -> state_ok s'.
Proof.
  intros H Hv [Hc Hb]. pose proof (exec_msg_spec e s t o s' out H Hv) as
    (_ & _ & Hr0 & Hr1 & Hcoll & _ & _ & _ & Hmv & Hm0 & Hbal).
  split; [lia|]. intro a. rewrite Hbal. pose proof (Hb a) as Ha.
  unfold out_moved in *. destruct (snd out) eqn:Ef.
  - destruct (String.eqb (t_to t) a), (String.eqb (t_from t) a); lia.
  - specialize (Hmv eq_refl).
    destruct (String.eqb_spec (t_from t) a) as [E|N]; destruct (String.eqb (t_to t) a); subst; lia.
Qed.

Lemma exec_msg_total e s t o s' out L :
  exec_msg e s t o = Some (s', out) -> 0 <= t_value t ->
  NoDup L -> In (t_from t) L -> In (t_to t) L -> total L s' = total L s.
Proof.
  intros H Hv Hnd Hf Ht. pose proof (exec_msg_spec e s t o s' out H Hv) as
    (_ & _ & _ & _ & Hcoll & _ & _ & _ & _ & _ & Hbal).
  unfold total. rewrite Hcoll.
  rewrite (zsum_map_delta (aget 0 (s_bal s)) (aget 0 (s_bal s')) L).
  set (d := fun a : string => aget 0 (s_bal s') a - aget 0 (s_bal s) a).
  assert (Hd : forall a, d a = (if String.eqb (t_to t) a then out_moved t out else 0)
                               - (if String.eqb (t_from t) a then out_moved t out else 0)
                               + (if String.eqb (t_from t) a then out_refund e t out else 0)).
  { intro a. unfold d. rewrite Hbal. lia. }
  destruct (string_dec (t_from t) (t_to t)) as [E|E].
  - rewrite (zsum_map_one d L (t_from t) Hnd Hf).
    + rewrite Hd. rewrite <- E. rewrite String.eqb_refl. lia.
    + intros a _ Ha. rewrite Hd. rewrite <- E.
      assert (Hn : String.eqb (t_from t) a = false) by (apply String.eqb_neq; congruence). rewrite Hn. lia.
  - rewrite (zsum_map_two d L (t_from t) (t_to t) Hnd Hf Ht E).
    + rewrite !Hd. rewrite !String.eqb_refl.
      assert (H1 : String.eqb (t_to t) (t_from t) = false) by (apply String.eqb_neq; congruence).
      assert (H2 : String.eqb (t_from t) (t_to t) = false) by (apply String.eqb_neq; congruence).
      rewrite H1, H2. lia.
    + intros a _ Ha1 Ha2. rewrite Hd.
      assert (H1 : String.eqb (t_to t) a = false) by (apply String.eqb_neq; congruence).
      assert (H2 : String.eqb (t_from t) a = false) by (apply String.eqb_neq; congruence).
      rewrite H1, H2. lia.
Qed.

(* ---------------- all messages on the message branch ---------------- *)
Definition xdelta (e : env) (a : string) (p : (tx * oracle) * (Z * bool)) : Z :=
  let t := fst (fst p) in
  (if String.eqb (t_to t) a then out_moved t (snd p) else 0)
  - (if String.eqb (t_from t) a then out_moved t (snd p) else 0)
  + (if String.eqb (t_from t) a then out_refund e t (snd p) else 0).

Definition values_ok (ops : list (tx * oracle)) : Prop := Forall (fun op => 0 <= t_value (fst op)) ops.

Lemma exec_all_spec e ops : forall s s2 outs,
  exec_all e s ops = Some (s2, outs) -> values_ok ops ->
  List.length outs = List.length ops /\
  s_coll s2 = s_coll s - zsum (map (fun p => out_refund e (fst (fst p)) (snd p)) (combine ops outs)) /\
  (forall a, aget 0 (s_bal s2) a = aget 0 (s_bal s) a + zsum (map (xdelta e a) (combine ops outs))) /\
  s_nonce s2 = s_nonce s /\ s_bgas s2 = s_bgas s /\
  (forallb (fun out : Z * bool => snd out) outs = true -> s_world s2 = s_world s) /\
  Forall (fun p => snd p = (final_gas_used e (fst (fst p)) (temp_gas_used (fst (fst p)) (snd (fst p)))) /\
                   t_intr (fst (fst p)) <= t_gas (fst (fst p)))
         (map (fun p => (fst p, fst (snd p))) (combine ops outs)) /\
  (state_ok s -> state_ok s2).
Proof.
  induction ops as [|[t o] r IH]; intros s s2 outs H Hv; simpl in H.
  - inversion H; subst. simpl. split; [reflexivity|]. split; [lia|]. split; [intro a; lia|].
    split; [reflexivity|]. split; [reflexivity|]. split; [intros _; reflexivity|]. split; [constructor|auto].
  - destruct (exec_msg e s t o) as [[s' out]|] eqn:E1; [|discriminate].
    destruct (exec_all e s' r) as [[s'' outs']|] eqn:E2; [|discriminate].
    inversion H; subst s2 outs; clear H.
    inversion Hv as [|? ? Hv0 Hvr]; subst. simpl in Hv0.
    pose proof (exec_msg_spec e s t o s' out E1 Hv0) as
      (Hg & Hi & _ & _ & Hcoll & Hnon & Hbg & Hw & _ & _ & Hbal).
    destruct (IH s' s'' outs' E2 Hvr) as (Il & Ic & Ib & In_ & Ig & Iw & If & Iok).
    simpl List.length. simpl combine. simpl map. simpl zsum.
    split; [lia|]. split; [rewrite Ic, Hcoll; simpl; lia|]. split.
    { intro a. rewrite Ib, Hbal. unfold xdelta at 2. simpl. lia. }
    split; [congruence|]. split; [congruence|]. split.
    { intro Hall. simpl in Hall. apply andb_prop in Hall. destruct Hall as [H1 H2].
      rewrite (Iw H2). apply Hw. exact H1. }
    split.
    { constructor; [simpl; split; assumption|exact If]. }
    intro Hs. apply Iok. eapply exec_msg_state_ok; eauto.
Qed.

Lemma exec_all_total e L ops : forall s s2 outs,
  exec_all e s ops = Some (s2, outs) -> values_ok ops -> NoDup L ->
  Forall (fun op => In (t_from (fst op)) L /\ In (t_to (fst op)) L) ops ->
  total L s2 = total L s.
Proof.
  induction ops as [|[t o] r IH]; intros s s2 outs H Hv Hnd Hin; simpl in H.
  - inversion H; subst. reflexivity.
  - destruct (exec_msg e s t o) as [[s' out]|] eqn:E1; [|discriminate].
    destruct (exec_all e s' r) as [[s'' outs']|] eqn:E2; [|discriminate].
    inversion H; subst s2 outs; clear H.
    inversion Hv as [|? ? Hv0 Hvr]; subst. inversion Hin as [|? ? [Hf Ht] Hir]; subst. simpl in *.
    rewrite (IH s' s'' outs' E2 Hvr Hnd Hir). eapply exec_msg_total; eauto.
Qed.

(* ---------------- the ante handler as a whole ---------------- *)
Lemma ante_multi_spec e s msgs s1 :
  ante_multi e s msgs = inr s1 ->
  s_coll s1 = s_coll s + zsum (map (fees_of e) msgs) /\
  (forall a, aget 0 (s_bal s1) a = aget 0 (s_bal s) a - zsum (map (fee_from e a) msgs)) /\
  (forall a, match aget None (s_nonce s) a with
             | Some n => aget None (s_nonce s1) a = Some (n + tcount a msgs)
             | None => tcount a msgs = 0 /\ aget None (s_nonce s1) a = None
             end) /\
  s_bgas s1 = s_bgas s /\ s_world s1 = s_world s /\
  Forall (fun t => 0 < fees_of e t) msgs /\
  (state_ok s -> state_ok s1) /\
  (0 <= e_blim e -> gas_sum msgs <= e_blim e) /\
  (forall L, NoDup L -> Forall (fun t => In (t_from t) L) msgs -> total L s1 = total L s).
Proof.
  unfold ante_multi. intro H.
  destruct (negb (forallb (mgp_ok e) msgs)); [discriminate|].
  destruct (negb (can_transfer_all e (s_bal s) msgs =? 0)); [discriminate|].
  destruct (consume_all e (s_nonce s) (s_bal s) (s_coll s) msgs) as [w|[bal1 coll1]] eqn:Ec; [discriminate|].
  destruct ((0 <=? e_blim e) && (e_blim e <? gas_sum msgs)) eqn:El; [discriminate|].
  destruct (bump_all (s_nonce s) msgs) as [w|nonce1] eqn:Eb; [discriminate|].
  inversion H; subst s1; clear H. cbn [s_coll s_bal s_nonce s_bgas s_world].
  pose proof (consume_all_spec e (s_nonce s) msgs _ _ _ _ Ec) as (Hc & Hb & Hf & Hn).
  split; [exact Hc|]. split; [exact Hb|]. split; [apply (bump_all_spec msgs _ _ Eb)|].
  split; [reflexivity|]. split; [reflexivity|]. split; [exact Hf|]. split.
  { intros [Hs1 Hs2]. split; cbn [s_coll s_bal].
    - rewrite Hc. assert (0 <= zsum (map (fees_of e) msgs)); [|lia].
      clear - Hf. induction Hf; simpl; lia.
    - apply Hn. exact Hs2. }
  split.
  { intro Hl. apply andb_false_iff in El. destruct El as [El|El]; [apply Z.leb_gt in El; lia|apply Z.ltb_ge in El; lia]. }
  intros L Hnd Hin. unfold total. cbn [s_coll s_bal]. eapply consume_all_total; eauto.
Qed.

(* ---------------- per-message outcomes as the statement reads them ---------------- *)
Definition mm_done (ops : list (tx * oracle)) (outs : list (Z * bool)) : list mmsg :=
  map (fun p => (fst (fst p), Some (snd p))) (combine ops outs).
Definition mm_dropped (ops : list (tx * oracle)) : list mmsg := map (fun op => (fst op, @None (Z * bool))) ops.
Definition mm_of (ops : list (tx * oracle)) (r : mresult) : list mmsg :=
  match r with MDone outs => mm_done ops outs | _ => mm_dropped ops end.

Lemma done_delta e a ops : forall outs,
  List.length outs = List.length ops ->
  delta_for e a (mm_done ops outs) =
  zsum (map (xdelta e a) (combine ops outs)) - zsum (map (fee_from e a) (map fst ops)).
Proof.
  unfold delta_for, mm_done.
  induction ops as [|[t o] r IH]; intros [|[g f] outs] Hl; simpl in Hl; try discriminate; [reflexivity|].
  injection Hl as Hl. specialize (IH outs Hl). simpl. simpl in IH. rewrite IH.
  unfold xdelta, fee_from, msg_moved, msg_fee, msg_ok, msg_g, out_moved, out_refund, fees_of. simpl.
  destruct f; simpl; destruct (String.eqb (t_to t) a), (String.eqb (t_from t) a); lia.
Qed.

Lemma done_fee e ops : forall outs,
  List.length outs = List.length ops ->
  zsum (map (msg_fee e) (mm_done ops outs)) =
  zsum (map (fees_of e) (map fst ops)) - zsum (map (fun p => out_refund e (fst (fst p)) (snd p)) (combine ops outs)).
Proof.
  unfold mm_done.
  induction ops as [|[t o] r IH]; intros [|[g f] outs] Hl; simpl in Hl; try discriminate; [reflexivity|].
  injection Hl as Hl. specialize (IH outs Hl). simpl. simpl in IH. rewrite IH.
  unfold msg_fee, msg_g, out_refund, fees_of. simpl. lia.
Qed.

Lemma dropped_delta e a ops :
  delta_for e a (mm_dropped ops) = - zsum (map (fee_from e a) (map fst ops)).
Proof.
  unfold delta_for, mm_dropped. induction ops as [|[t o] r IH]; [reflexivity|]. simpl. simpl in IH. rewrite IH.
  unfold fee_from, msg_moved, msg_fee, msg_ok, msg_g, fees_of. simpl.
  destruct (String.eqb (t_to t) a), (String.eqb (t_from t) a); lia.
Qed.

Lemma dropped_fee e ops :
  zsum (map (msg_fee e) (mm_dropped ops)) = zsum (map (fees_of e) (map fst ops)).
Proof.
  unfold mm_dropped. induction ops as [|[t o] r IH]; [reflexivity|]. simpl. simpl in IH. rewrite IH.
  unfold msg_fee, msg_g, fees_of. simpl. lia.
Qed.

Lemma done_all_failed ops : forall outs,
  List.length outs = List.length ops ->
  existsb msg_ok (mm_done ops outs) = false -> forallb (fun out : Z * bool => snd out) outs = true.
Proof.
  unfold mm_done.
  induction ops as [|[t o] r IH]; intros [|[g f] outs] Hl H; simpl in Hl; try discriminate; [reflexivity|].
  injection Hl as Hl. simpl in H. apply orb_false_iff in H. destruct H as [H1 H2].
  simpl. unfold msg_ok in H1. simpl in H1. apply negb_false_iff in H1. rewrite H1. simpl. apply IH; assumption.
Qed.

Definition gas_bounded (e : env) (m : mmsg) : Prop := min_gas_used e (fst m) <= msg_g m <= t_gas (fst m).

Lemma dropped_bounds e ops :
  0 <= e_mult e -> e_mult e <= P -> Forall (fun op => 0 < t_gas (fst op)) ops ->
  Forall (gas_bounded e) (mm_dropped ops).
Proof.
  intros Hm0 Hm1 H. unfold mm_dropped. induction H as [|[t o] r Hg Hr IH]; simpl; constructor; [|exact IH].
  unfold gas_bounded, msg_g. simpl in *. rewrite min_gas_used_eq by lia. pose proof P_pos.
  split; [apply Z.div_le_upper_bound; nia|lia].
Qed.

Lemma exec_all_bounds e ops : forall s s2 outs,
  exec_all e s ops = Some (s2, outs) ->
  0 <= e_mult e -> e_mult e <= P ->
  Forall (fun op => 0 < t_gas (fst op) /\ 0 <= t_value (fst op) /\ oracle_ok (fst op) (snd op) = true) ops ->
  Forall (gas_bounded e) (mm_done ops outs).
Proof.
  unfold mm_done.
  induction ops as [|[t o] r IH]; intros s s2 outs H Hm0 Hm1 Hok; simpl in H.
  - inversion H; subst. constructor.
  - destruct (exec_msg e s t o) as [[s' out]|] eqn:E1; [|discriminate].
    destruct (exec_all e s' r) as [[s'' outs']|] eqn:E2; [|discriminate].
    inversion H; subst s2 outs; clear H.
    inversion Hok as [|? ? (Hg & Hv & Ho) Hr]; subst. simpl in Hg, Hv, Ho.
    simpl. constructor; [|eapply IH; eauto].
    pose proof (exec_msg_spec e s t o s' out E1 Hv) as (Hgu & Hi & _).
    apply oracle_ok_inv in Ho. destruct Ho as (Hi0 & Hog & Hor & Hfit & _). specialize (Hfit Hi).
    pose proof (temp_gas_used_bounds t o Hi0 Hog Hor) as [Ht0 Ht1].
    pose proof (final_gas_used_bounds e t (temp_gas_used t o) ltac:(lia) Hm0 Hm1 Ht0 ltac:(lia)) as (B1 & _ & B3 & _).
    unfold gas_bounded, msg_g. simpl. destruct out as [g f]. simpl in *. subst g. lia.
Qed.

(* ---------------- one multi-message transaction ---------------- *)
Definition mops_ok (ops : list (tx * oracle)) : bool := forallb (fun op => oracle_ok (fst op) (snd op)) ops.

Lemma ops_facts ops :
  forallb basic_valid (map fst ops) = true -> mops_ok ops = true ->
  Forall (fun op => 0 < t_gas (fst op) /\ 0 <= t_value (fst op) /\ oracle_ok (fst op) (snd op) = true) ops.
Proof.
  unfold mops_ok. induction ops as [|[t o] r IH]; intros H1 H2; [constructor|].
  simpl in H1, H2. apply andb_prop in H1. destruct H1 as [Hb H1]. apply andb_prop in H2. destruct H2 as [Ho H2].
  constructor; [|apply IH; assumption]. simpl. pose proof (basic_valid_gas t Hb). tauto.
Qed.

Definition nonce_advanced (s s' : state) (msgs : list tx) : Prop :=
  forall a, match aget None (s_nonce s) a with
            | Some n => aget None (s_nonce s') a = Some (n + tcount a msgs)
            | None => tcount a msgs = 0 /\ aget None (s_nonce s') a = None
            end.

Definition ops_within_m (L : list string) (ops : list (tx * oracle)) : Prop :=
  Forall (fun op => In (t_from (fst op)) L /\ In (t_to (fst op)) L) ops.

Lemma deliver_multi_spec e s cg ops :
  env_ok e = true -> mops_ok ops = true -> state_ok s -> 0 <= cg ->
  let s' := fst (deliver_multi e s cg ops) in
  let r := snd (deliver_multi e s cg ops) in
  state_ok s' /\
  (mincluded r = false ->
     s_bal s' = s_bal s /\ s_nonce s' = s_nonce s /\ s_coll s' = s_coll s /\ s_world s' = s_world s /\
     s_bgas s <= s_bgas s') /\
  (mincluded r = true ->
     let mm := mm_of ops r in
     s_coll s' = s_coll s + zsum (map (msg_fee e) mm) /\
     (forall a, aget 0 (s_bal s') a = aget 0 (s_bal s) a + delta_for e a mm) /\
     nonce_advanced s s' (map fst ops) /\
     Forall (gas_bounded e) mm /\
     (existsb msg_ok mm = false -> s_world s' = s_world s) /\
     (forall outs, r = MDone outs -> 0 <= e_blim e -> s_bgas s' <= e_blim e)) /\
  (forall L, NoDup L -> ops_within_m L ops -> total L s' = total L s).
Proof.
  intros He Ho Hs Hcg. apply env_ok_inv in He. destruct He as (Hbase & Hmgp & Hm0 & Hm1).
  unfold deliver_multi. set (msgs := map fst ops).
  destruct ((0 <=? e_blim e) && (e_blim e <=? s_bgas s)).
  { simpl. split; [exact Hs|]. split; [intros _; repeat split; lia|]. split; [discriminate|]. reflexivity. }
  destruct ((match msgs with [] => true | _ => false end) || negb (forallb basic_valid msgs)) eqn:Ebv.
  { simpl. split; [exact Hs|]. split; [intros _; repeat split; lia|]. split; [discriminate|]. reflexivity. }
  apply orb_false_iff in Ebv. destruct Ebv as [_ Ebv]. apply negb_false_iff in Ebv.
  pose proof (ops_facts ops Ebv Ho) as Hfacts.
  assert (Hvals : values_ok ops). { eapply Forall_impl; [|exact Hfacts]. simpl. tauto. }
  assert (Hgas : Forall (fun op => 0 < t_gas (fst op)) ops). { eapply Forall_impl; [|exact Hfacts]. simpl. tauto. }
  destruct (ante_multi e s msgs) as [why|s1] eqn:Ea.
  { simpl. split; [exact Hs|].
    split; [intros _; repeat split; lia|]. split; [discriminate|].
    intros L _ _. reflexivity. }
  pose proof (ante_multi_spec e s msgs s1 Ea) as (Ac & Ab & An & Ag & Aw & Af & Aok & Alim & Atot).
  assert (Hfrom : forall L, ops_within_m L ops -> Forall (fun t => In (t_from t) L) msgs).
  { intros L H. unfold msgs. clear - H. induction H as [|op r [H1 _] Hr IH]; simpl; constructor; assumption. }
  destruct (exec_all e s1 ops) as [[s2 outs]|] eqn:Ex.
  2:{ (* a message returned an error *)
    simpl. split; [apply Aok; exact Hs|]. split; [discriminate|]. split.
    - intros _. simpl. split; [rewrite dropped_fee; exact Ac|].
      split; [intro a; rewrite dropped_delta, Ab; fold msgs; lia|].
      split; [exact An|]. split; [apply dropped_bounds; assumption|].
      split; [intros _; exact Aw|]. discriminate.
    - intros L Hnd Hin. unfold total in *. cbn [s_bal s_coll with_bgas]. apply Atot; auto. }
  pose proof (exec_all_spec e ops s1 s2 outs Ex Hvals) as (Xl & Xc & Xb & Xn & Xg & Xw & _ & Xok).
  destruct ((0 <=? e_blim e) && (e_blim e <? s_bgas s + zsum (map fst outs))) eqn:Eb.
  - (* block gas exceeded *)
    simpl. split; [apply Aok; exact Hs|]. split; [discriminate|]. split.
    + intros _. simpl. split; [rewrite dropped_fee; exact Ac|].
      split; [intro a; rewrite dropped_delta, Ab; fold msgs; lia|].
      split; [exact An|]. split; [apply dropped_bounds; assumption|].
      split; [intros _; exact Aw|]. discriminate.
    + intros L Hnd Hin. unfold total in *. cbn [s_bal s_coll with_bgas]. apply Atot; auto.
  - (* executed and kept *)
    simpl. split; [apply Xok; apply Aok; exact Hs|]. split; [discriminate|]. split.
    + intros _. simpl. split; [rewrite (done_fee e ops outs Xl), Xc, Ac; fold msgs; lia|].
      split; [intro a; rewrite (done_delta e a ops outs Xl), Xb, Ab; fold msgs; lia|].
      split; [unfold nonce_advanced; cbn [s_nonce with_bgas]; rewrite Xn; exact An|].
      split; [eapply exec_all_bounds; eauto|].
      split; [intro Hall; cbn [s_world with_bgas]; rewrite (Xw (done_all_failed ops outs Xl Hall)); exact Aw|].
      intros outs' _ Hl. cbn [s_bgas with_bgas].
      apply andb_false_iff in Eb. destruct Eb as [Eb|Eb]; [apply Z.leb_gt in Eb; lia|apply Z.ltb_ge in Eb; lia].
    + intros L Hnd Hin. unfold total in *. cbn [s_bal s_coll with_bgas].
      pose proof (exec_all_total e L ops s1 s2 outs Ex Hvals Hnd Hin) as Ht. unfold total in Ht. rewrite Ht.
      apply Atot; auto.
Qed.

(* ---------------- blocks of multi-message transactions ---------------- *)
Definition txs_ok (txs : list (Z * list (tx * oracle))) : bool :=
  forallb (fun x => (0 <=? fst x) && mops_ok (snd x)) txs.

Fixpoint mtrace (e : env) (s : state) (txs : list (Z * list (tx * oracle))) : list (list (tx * oracle) * mresult) :=
  match txs with
  | [] => []
  | x :: r => (snd x, snd (deliver_multi e s (fst x) (snd x))) :: mtrace e (fst (deliver_multi e s (fst x) (snd x))) r
  end.

Lemma run_multi_cons e s x r :
  run_multi e s (x :: r) = run_multi e (fst (deliver_multi e s (fst x) (snd x))) r.
Proof. reflexivity. Qed.

Lemma run_multi_state_ok e txs : forall s,
  env_ok e = true -> txs_ok txs = true -> state_ok s -> state_ok (run_multi e s txs).
Proof.
  induction txs as [|[cg ops] r IH]; intros s He Hok Hs; [exact Hs|].
  simpl in Hok. apply andb_prop in Hok. destruct Hok as [H1 H2]. apply andb_prop in H1. destruct H1 as [Hc Ho].
  apply Z.leb_le in Hc. rewrite run_multi_cons. apply IH; try assumption.
  apply (deliver_multi_spec e s cg ops He Ho Hs Hc).
Qed.

Lemma run_multi_total e L txs : forall s,
  env_ok e = true -> txs_ok txs = true -> state_ok s -> NoDup L ->
  Forall (fun x => ops_within_m L (snd x)) txs ->
  total L (run_multi e s txs) = total L s.
Proof.
  induction txs as [|[cg ops] r IH]; intros s He Hok Hs Hnd Hin; [reflexivity|].
  simpl in Hok. apply andb_prop in Hok. destruct Hok as [H1 H2]. apply andb_prop in H1. destruct H1 as [Hc Ho].
  apply Z.leb_le in Hc. inversion Hin as [|? ? Hin0 Hinr]; subst. simpl in Hin0.
  pose proof (deliver_multi_spec e s cg ops He Ho Hs Hc) as (Hs' & _ & _ & Ht). cbv zeta in *.
  rewrite run_multi_cons. simpl fst; simpl snd. rewrite IH; try assumption. apply Ht; assumption.
Qed.

(* sequence of [a] advances by the number of its messages in every included transaction, and never otherwise *)
Definition nonce_inc (a : string) (p : list (tx * oracle) * mresult) : Z :=
  if mincluded (snd p) then tcount a (map fst (fst p)) else 0.

Lemma run_multi_nonce e txs : forall s a n,
  env_ok e = true -> txs_ok txs = true -> state_ok s ->
  aget None (s_nonce s) a = Some n ->
  aget None (s_nonce (run_multi e s txs)) a = Some (n + zsum (map (nonce_inc a) (mtrace e s txs))).
Proof.
  induction txs as [|[cg ops] r IH]; intros s a n He Hok Hs Hn; [simpl; rewrite Hn; f_equal; lia|].
  simpl in Hok. apply andb_prop in Hok. destruct Hok as [H1 H2]. apply andb_prop in H1. destruct H1 as [Hc Ho].
  apply Z.leb_le in Hc.
  pose proof (deliver_multi_spec e s cg ops He Ho Hs Hc) as (Hs' & Hrej & Hinc & _). cbv zeta in *.
  rewrite run_multi_cons. simpl mtrace. simpl map. simpl zsum. simpl fst in *; simpl snd in *.
  unfold nonce_inc at 1. simpl fst; simpl snd.
  destruct (mincluded (snd (deliver_multi e s cg ops))) eqn:Ei.
  - destruct (Hinc eq_refl) as (_ & _ & Hadv & _). specialize (Hadv a). rewrite Hn in Hadv.
    rewrite (IH _ a _ He H2 Hs' Hadv). f_equal. lia.
  - destruct (Hrej eq_refl) as (_ & Hnn & _).
    rewrite (IH _ a n He H2 Hs'); [f_equal; lia|]. rewrite Hnn. exact Hn.
Qed.

Definition mfee_of (e : env) (p : list (tx * oracle) * mresult) : Z :=
  if mincluded (snd p) then zsum (map (msg_fee e) (mm_of (fst p) (snd p))) else 0.

Lemma run_multi_collector e txs : forall s,
  env_ok e = true -> txs_ok txs = true -> state_ok s ->
  s_coll (run_multi e s txs) = s_coll s + zsum (map (mfee_of e) (mtrace e s txs)).
Proof.
  induction txs as [|[cg ops] r IH]; intros s He Hok Hs; [simpl; lia|].
  simpl in Hok. apply andb_prop in Hok. destruct Hok as [H1 H2]. apply andb_prop in H1. destruct H1 as [Hc Ho].
  apply Z.leb_le in Hc.
  pose proof (deliver_multi_spec e s cg ops He Ho Hs Hc) as (Hs' & Hrej & Hinc & _). cbv zeta in *.
  rewrite run_multi_cons. simpl mtrace. simpl map. simpl zsum. simpl fst in *; simpl snd in *.
  rewrite (IH _ He H2 Hs').
  change (mfee_of e (ops, snd (deliver_multi e s cg ops)))
    with (if mincluded (snd (deliver_multi e s cg ops))
          then zsum (map (msg_fee e) (mm_of ops (snd (deliver_multi e s cg ops)))) else 0).
  destruct (mincluded (snd (deliver_multi e s cg ops))) eqn:Ei.
  - destruct (Hinc eq_refl) as (Hcoll & _). rewrite Hcoll. lia.
  - destruct (Hrej eq_refl) as (_ & _ & Hcoll & _). rewrite Hcoll. lia.
Qed.

(* a cosmos transaction whose message branch is dropped (a message returned an error, or the block gas meter overflowed)
   leaves every other store unchanged - whatever earlier messages of it wrote through precompiles or contract code -
   moves no value, and charges every message its whole gas limit *)
Lemma dropped_no_ok ops : existsb msg_ok (mm_dropped ops) = false.
Proof. unfold mm_dropped. induction ops as [|op r IH]; [reflexivity|]. simpl. exact IH. Qed.

Lemma multi_dropped_no_effect e s cg ops :
  env_ok e = true -> mops_ok ops = true -> state_ok s -> 0 <= cg ->
  let s' := fst (deliver_multi e s cg ops) in
  let r := snd (deliver_multi e s cg ops) in
  mincluded r = true -> mouts r = None ->
  s_world s' = s_world s /\
  s_coll s' = s_coll s + zsum (map (fees_of e) (map fst ops)) /\
  (forall a, aget 0 (s_bal s') a = aget 0 (s_bal s) a - zsum (map (fee_from e a) (map fst ops))).
Proof.
  intros He Ho Hs Hcg. pose proof (deliver_multi_spec e s cg ops He Ho Hs Hcg) as H. cbv zeta in *.
  destruct H as (_ & _ & Hinc & _). intros Hi Hn. specialize (Hinc Hi).
  destruct (snd (deliver_multi e s cg ops)) as [w| |outs|outs] eqn:Er; try discriminate; simpl mm_of in Hinc;
    destruct Hinc as (Hc & Hb & _ & _ & Hw & _);
    (split; [apply Hw; apply dropped_no_ok|]); (split; [rewrite Hc, dropped_fee; reflexivity|]);
    intro a; rewrite Hb, dropped_delta; lia.
Qed.
