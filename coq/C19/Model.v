(* C19/Model.v — executable model of one Ethereum transaction going through ABCI DeliverTx:
   baseapp.runTx (block-gas gate, ante branch, message branch, deferred block-gas consumption),
   app/ante/evm/{fees.go EthMinGasPriceDecorator, setup_ctx.go EthValidateBasicDecorator,
   eth.go CanTransferDecorator / EthGasConsumeDecorator / EthIncrementSenderSequenceDecorator,
   fee_market.go GasWantedDecorator}, x/evm/keeper/{fees.go VerifyFee / DeductTxCostsFromUserBalance,
   state_transition.go ApplyTransaction / ApplyMessageWithConfig tail, gas.go GasToRefund / RefundGas}.
   The EVM interpreter is an INPUT of the step (record [oracle]): gas burnt by the interpreter proper,
   refund counter, failed flag, and the digest of every other store as the execution would leave it.
   Amounts are Z; LegacyDec values (min gas price, min gas multiplier) are Z scaled by 10^18 (Base/IntDec).
   No proofs here. *)
From Coq Require Import List String Bool ZArith Lia.
From Exo Require Import Base.IntDec Base.Util.
Import ListNotations.
Local Open Scope Z_scope.
Local Open Scope list_scope.

(* ---- association maps with default (bank balance of an unknown address = 0, account = None) ---- *)
Definition amap (V : Type) := list (string * V).
Fixpoint aget {V} (d : V) (m : amap V) (k : string) : V :=
  match m with
  | [] => d
  | (k', v) :: r => if String.eqb k k' then v else aget d r k
  end.
Definition aset {V} (m : amap V) (k : string) (v : V) : amap V := (k, v) :: m.

(* ---- block environment ---- *)
Record env := mkEnv {
  e_base : Z;   (* base fee seen by every decorator and by ApplyTransaction in this block (0 when NoBaseFee) *)
  e_mgp  : Z;   (* feemarket MinGasPrice, LegacyDec scaled *)
  e_mult : Z;   (* feemarket MinGasMultiplier, LegacyDec scaled *)
  e_blim : Z    (* block gas limit; negative = no limit (consensus MaxGas = -1) *)
}.

(* ---- transaction ---- *)
Record tx := mkTx {
  t_type : Z;        (* 0 legacy, 1 access list, 2 dynamic fee *)
  t_from : string;
  t_to : string;     (* recipient of the value: To, or the address of the created contract *)
  t_nonce : Z;
  t_gas : Z;         (* gas limit *)
  t_price : Z;       (* gasPrice (types 0,1) *)
  t_cap : Z;         (* gasFeeCap (type 2) *)
  t_tip : Z;         (* gasTipCap (type 2) *)
  t_value : Z;
  t_intr : Z;        (* core.IntrinsicGas of (data, access list, creation) *)
  t_blocked : bool   (* the recipient is an address the bank refuses to credit (module account, precompile address) *)
}.

(* what the interpreter reported for this message *)
Record oracle := mkOr {
  o_gas : Z;         (* gas burnt by evm.Call / evm.Create *)
  o_refund : Z;      (* stateDB.GetRefund() *)
  o_failed : bool;   (* vmErr <> nil *)
  o_world : string;  (* digest of all other stores if the execution's writes are kept *)
  o_ctxgas : Z       (* ResponseDeliverTx.GasUsed: when validateBasicTxMsgs fails (reason 2), runTx's context was
                        never replaced and whatever sits on the deliver-state context's own gas meter (BeginBlock and
                        consensus-param reads) is added to the block gas meter by the deferred consumeBlockGas *)
}.

Record state := mkSt {
  s_bal : amap Z;
  s_nonce : amap (option Z);
  s_coll : Z;        (* fee collector balance *)
  s_bgas : Z;        (* block gas meter: consumed *)
  s_world : string   (* digest of every other store (contract code/storage, restaking modules) *)
}.

Inductive result :=
| Rejected (why : Z)                        (* not included: no state change *)
| MsgErr                                    (* ApplyMessageWithConfig returned an error: only the ante effects stay *)
| BlockGasExceeded (gas_used : Z) (failed : bool)  (* deferred block gas consumption panicked: only ante effects stay *)
| Done (gas_used : Z) (failed : bool)
| RefundFail.                               (* RefundGas returned an error (shown unreachable) *)

(* ---- pure kernels ---- *)
Definition refund_quotient : Z := 5.   (* params.RefundQuotientEIP3529; London is active from block 0 *)

(* x/evm/keeper/gas.go GasToRefund *)
Definition gas_to_refund (avail consumed quot : Z) : Z :=
  let refund := consumed / quot in
  if refund >? avail then avail else refund.

(* effective gas price: tx.AsMessage(signer, baseFee).GasPrice() = txData.EffectiveGasPrice(baseFee) *)
Definition eff_price (e : env) (t : tx) : Z :=
  if t_type t =? 2 then Z.min (t_tip t + e_base e) (t_cap t) else t_price t.
Definition fee_cap (t : tx) : Z := if t_type t =? 2 then t_cap t else t_price t.

(* minimumGasUsed = gasLimit.Mul(minGasMultiplier) *)
Definition min_gas_used_dec (e : env) (t : tx) : Z := dec_mul (dec_of_int (t_gas t)) (e_mult e).
Definition min_gas_used (e : env) (t : tx) : Z := dec_trunc_int (min_gas_used_dec e t).
(* gasUsed = MaxDec(minimumGasUsed, NewDec(temporaryGasUsed)).TruncateInt() *)
Definition final_gas_used (e : env) (t : tx) (tmp : Z) : Z :=
  dec_trunc_int (Z.max (min_gas_used_dec e t) (dec_of_int tmp)).
(* temporaryGasUsed after the refund *)
Definition temp_gas_used (t : tx) (o : oracle) : Z :=
  let tmp := t_intr t + o_gas o in
  tmp - gas_to_refund (o_refund o) tmp refund_quotient.

(* MsgEthereumTx.ValidateBasic / txData.Validate (the clauses a signed tx can violate) *)
Definition basic_valid (t : tx) : bool :=
  (0 <? t_gas t) && (0 <=? t_value t) &&
  (if t_type t =? 2 then (0 <=? t_tip t) && (0 <=? t_cap t) && (t_tip t <=? t_cap t) else 0 <=? t_price t).

(* Admission in DeliverTx mode, in the order the code evaluates it; 0 = admitted.
   Arguments are the sender's balance / account sequence (None = no account) and the block gas consumed so far,
   so that the same predicate is used on model states and on observed implementation states. *)
Definition admit_reason (e : env) (bal : Z) (nonce : option Z) (bgas : Z) (t : tx) : Z :=
  if (0 <=? e_blim e) && (e_blim e <=? bgas) then 1            (* runTx: no block gas left *)
  else if negb (basic_valid t) then 2                           (* validateBasicTxMsgs *)
  else if negb (e_mgp e =? 0) &&
          (dec_of_int (eff_price e t * t_gas t) <? dec_mul (e_mgp e) (dec_of_int (t_gas t))) then 3  (* EthMinGasPrice *)
  else if fee_cap t <? e_base e then 4                          (* CanTransfer / VerifyFee: fee cap below base fee *)
  else if (0 <? t_value t) && (bal <? t_value t) then 5         (* CanTransfer *)
  else
    let fees := eff_price e t * t_gas t in
    if fees <=? 0 then 6        (* ClaimStakingRewardsIfNecessary: an empty fee has "the wrong denomination" *)
    else if bal <? fees then 10 (* EthGasConsumeDecorator: balance below the fee, an ordinary error since fix 07834a8
                                   (before: a recovered panic in the claim-rewards helper that also consumed block gas) *)
    else if (match nonce with None => true | Some _ => false end) then 6   (* DeductTxCosts: GetSignerAcc *)
    else if (0 <=? e_blim e) && (e_blim e <? t_gas t) then 7    (* gas wanted above the block gas limit *)
    else match nonce with
         | None => 8
         | Some n => if n =? t_nonce t then 0 else 9            (* EthIncrementSenderSequence *)
         end.

Definition with_bgas (s : state) (g : Z) : state :=
  mkSt (s_bal s) (s_nonce s) (s_coll s) g (s_world s).

(* ---- one DeliverTx ---- *)
Definition deliver (e : env) (s : state) (t : tx) (o : oracle) : state * result :=
  let bal := aget 0 (s_bal s) (t_from t) in
  let nonce := aget None (s_nonce s) (t_from t) in
  let why := admit_reason e bal nonce (s_bgas s) t in
  if why =? 2 then (with_bgas s (s_bgas s + o_ctxgas o), Rejected why)
  else if negb (why =? 0) then (s, Rejected why)
  else
    let price := eff_price e t in
    let fees := price * t_gas t in
    (* ante branch written: fee moved to the collector, sequence incremented *)
    let s1 := mkSt (aset (s_bal s) (t_from t) (bal - fees))
                   (aset (s_nonce s) (t_from t) (Some (t_nonce t + 1)))
                   (s_coll s + fees) (s_bgas s) (s_world s) in
    if t_gas t <? t_intr t then
      (* core.ErrIntrinsicGas: ResetGasMeterAndConsumeGas(limit), message branch dropped *)
      (with_bgas s1 (s_bgas s + t_gas t), MsgErr)
    else
      (* evm.Call / evm.Create refuse to move value the sender no longer has *)
      let failed := o_failed o || (bal - fees <? t_value t) in
      if negb failed && t_blocked t && (0 <? t_value t) then
        (* stateDB.Commit cannot credit the recipient: ApplyMessageWithConfig returns an error, same path as above *)
        (with_bgas s1 (s_bgas s + t_gas t), MsgErr)
      else
      let gu := final_gas_used e t (temp_gas_used t o) in
      let refund := (t_gas t - gu) * price in
      if refund <? 0 then (s1, RefundFail)
      else if s_coll s1 <? refund then (s1, RefundFail)
      else
        (* tmpCtx is committed only when the execution did not fail *)
        let balA := if failed then s_bal s1
                    else let m := aset (s_bal s1) (t_from t) (bal - fees - t_value t) in
                         aset m (t_to t) (aget 0 m (t_to t) + t_value t) in
        let worldA := if failed then s_world s1 else o_world o in
        (* RefundGas: collector -> sender at msg.GasPrice() *)
        let balB := aset balA (t_from t) (aget 0 balA (t_from t) + refund) in
        let s3 := mkSt balB (s_nonce s1) (s_coll s1 - refund) (s_bgas s + gu) worldA in
        if (0 <=? e_blim e) && (e_blim e <? s_bgas s + gu) then
          (with_bgas s1 (s_bgas s + gu), BlockGasExceeded gu failed)
        else (s3, Done gu failed).

(* a block: the transactions share the block gas meter and the fee collector *)
Definition run (e : env) (s : state) (ops : list (tx * oracle)) : state :=
  fold_left (fun st op => fst (deliver e st (fst op) (snd op))) ops s.

(* ---- the statement of C19 for one transaction, as a boolean over OBSERVATIONS ---- *)
Record view := mkView {
  v_sbal : Z;               (* sender balance *)
  v_rbal : Z;               (* recipient balance *)
  v_coll : Z;               (* fee collector balance *)
  v_nonce : option Z;       (* sender sequence *)
  v_bgas : Z;               (* block gas consumed *)
  v_world : string          (* digest of every other store *)
}.

Definition optz_eqb (a b : option Z) : bool := option_eqb Z.eqb a b.

Definition view_same (a b : view) : bool :=
  (v_sbal a =? v_sbal b) && (v_rbal a =? v_rbal b) && (v_coll a =? v_coll b) &&
  optz_eqb (v_nonce a) (v_nonce b) && String.eqb (v_world a) (v_world b).

(* [code_ok]: DeliverTx returned code 0; [resp]: Some (GasUsed, VmError <> "") of MsgEthereumTxResponse when present *)
Definition step_ok (e : env) (t : tx) (pre : view) (code_ok : bool) (resp : option (Z * bool)) (post : view) : bool :=
  if negb (admit_reason e (v_sbal pre) (v_nonce pre) (v_bgas pre) t =? 0) then
    (* fails admission: not included, costs nothing, changes nothing *)
    negb code_ok && view_same pre post
  else
    let price := eff_price e t in
    (* an admitted transaction whose message branch was dropped has burnt its whole gas limit *)
    let g := match resp with Some (g, _) => g | None => t_gas t end in
    let ok := match resp with Some (_, failed) => negb failed | None => false end in
    let moved := if ok then t_value t else 0 in
    Bool.eqb code_ok (match resp with Some _ => true | None => false end) &&
    optz_eqb (v_nonce post) (Some (t_nonce t + 1)) &&
    (min_gas_used e t <=? g) && (g <=? t_gas t) &&
    (v_coll post =? v_coll pre + g * price) &&
    (if String.eqb (t_from t) (t_to t)
     then (v_sbal post =? v_sbal pre - g * price)
     else (v_sbal post =? v_sbal pre - (moved + g * price)) && (v_rbal post =? v_rbal pre + moved)) &&
    (ok || String.eqb (v_world post) (v_world pre)) &&
    (v_bgas pre <=? v_bgas post).

(* the gas actually charged is the interpreter's consumption minus the capped refund, floored at the minimum *)
Definition gas_rule_ok (e : env) (t : tx) (o : oracle) (resp : option (Z * bool)) : bool :=
  match resp with
  | Some (g, _) => g =? final_gas_used e t (temp_gas_used t o)
  | None => true
  end.

Definition view_of (s : state) (t : tx) : view :=
  mkView (aget 0 (s_bal s) (t_from t)) (aget 0 (s_bal s) (t_to t)) (s_coll s)
         (aget None (s_nonce s) (t_from t)) (s_bgas s) (s_world s).

Definition code_of (r : result) : bool := match r with Done _ _ => true | _ => false end.
Definition resp_of (r : result) : option (Z * bool) := match r with Done g f => Some (g, f) | _ => None end.

(* hypotheses of the theorems, as booleans *)
Definition env_ok (e : env) : bool :=
  (0 <=? e_base e) && (0 <=? e_mgp e) && (0 <=? e_mult e) && (e_mult e <=? P).
Definition oracle_ok (t : tx) (o : oracle) : bool :=
  (0 <=? t_intr t) && (0 <=? o_gas o) && (0 <=? o_refund o) &&
  ((t_gas t <? t_intr t) || (t_intr t + o_gas o <=? t_gas t)) && (0 <=? o_ctxgas o).

(* ---- correspondence cases (written by the harness) ---- *)
Record obs := mkObs {
  ob_pre : view;
  ob_code_ok : bool;
  ob_resp : option (Z * bool);
  ob_post : view;
  ob_supply_pre : Z;
  ob_supply_post : Z
}.

Record case := mkCase {
  c_env : env;
  c_accts : list (string * (Z * option Z));   (* address, balance, sequence *)
  c_coll : Z;
  c_bgas : Z;
  c_world : string;
  c_txs : list (tx * oracle * obs)
}.

Definition init_state (c : case) : state :=
  mkSt (map (fun a => (fst a, fst (snd a))) (c_accts c))
       (map (fun a => (fst a, snd (snd a))) (c_accts c))
       (c_coll c) (c_bgas c) (c_world c).

Definition view_eqb (a b : view) : bool := view_same a b && (v_bgas a =? v_bgas b).

Definition resp_eqb (a b : option (Z * bool)) : bool :=
  option_eqb (fun x y => (fst x =? fst y) && Bool.eqb (snd x) (snd y)) a b.

(* model vs implementation, transaction by transaction; Some i = first transaction that differs *)
Fixpoint check_txs (e : env) (s : state) (l : list (tx * oracle * obs)) (i : nat) : option nat :=
  match l with
  | [] => None
  | (t, o, ob) :: r =>
      if negb (view_eqb (view_of s t) (ob_pre ob)) then Some i
      else
        let '(s', res) := deliver e s t o in
        if Bool.eqb (code_of res) (ob_code_ok ob) && resp_eqb (resp_of res) (ob_resp ob) &&
           view_eqb (view_of s' t) (ob_post ob)
        then check_txs e s' r (S i) else Some i
  end.

Definition check_case (c : case) : option nat := check_txs (c_env c) (init_state c) (c_txs c) 0.

(* the property evaluated on what the implementation was observed to do (no model state involved) *)
Fixpoint monitor_txs (e : env) (l : list (tx * oracle * obs)) (i : nat) : option nat :=
  match l with
  | [] => None
  | (t, o, ob) :: r =>
      if step_ok e t (ob_pre ob) (ob_code_ok ob) (ob_resp ob) (ob_post ob) &&
         (ob_supply_pre ob =? ob_supply_post ob)
      then monitor_txs e r (S i) else Some i
  end.

Definition monitor_case (c : case) : option nat := monitor_txs (c_env c) (c_txs c) 0.

Fixpoint gasrule_txs (e : env) (l : list (tx * oracle * obs)) (i : nat) : option nat :=
  match l with
  | [] => None
  | (t, o, ob) :: r => if gas_rule_ok e t o (ob_resp ob) then gasrule_txs e r (S i) else Some i
  end.

Definition gasrule_case (c : case) : option nat := gasrule_txs (c_env c) (c_txs c) 0.

(* An admitted transaction may end without a response (its whole gas limit burnt, nothing executed) only for one of the
   three reasons the code has: gas limit below intrinsic gas, a successful execution whose value cannot be credited to a
   blocked address, or the block gas meter overflowing. Otherwise it must execute and answer - whoever proposed the block
   and whatever state that validator is in. (Without this clause "admitted, charged everything, not executed" would satisfy
   the accounting identity with gasUsed = gasLimit.) *)
Definition must_run_ok (e : env) (t : tx) (o : oracle) (pre : view) (code_ok : bool) : bool :=
  if negb (admit_reason e (v_sbal pre) (v_nonce pre) (v_bgas pre) t =? 0) then true
  else
    let fees := eff_price e t * t_gas t in
    let failed := o_failed o || (v_sbal pre - fees <? t_value t) in
    let gu := final_gas_used e t (temp_gas_used t o) in
    (t_gas t <? t_intr t) || (negb failed && t_blocked t && (0 <? t_value t)) ||
    ((0 <=? e_blim e) && (e_blim e <? v_bgas pre + gu)) || code_ok.

Fixpoint mustrun_txs (e : env) (l : list (tx * oracle * obs)) (i : nat) : option nat :=
  match l with
  | [] => None
  | (t, o, ob) :: r => if must_run_ok e t o (ob_pre ob) (ob_code_ok ob) then mustrun_txs e r (S i) else Some i
  end.

Definition mustrun_case (c : case) : option nat := mustrun_txs (c_env c) (c_txs c) 0.

(* "is not included and costs nothing", read for the block as well (finding F2, fixed 07834a8): a transaction refused by one
   of the admission checks the property names (block gas left, price, balance, gas above the block limit, nonce: reasons 1
   and 3-10) must leave the block gas meter exactly where it was. Reason 2 (a malformed message refused by
   validateBasicTxMsgs before the ante handler) is outside that list (observation R3). *)
Definition blockgas_ok (e : env) (t : tx) (pre post : view) : bool :=
  let why := admit_reason e (v_sbal pre) (v_nonce pre) (v_bgas pre) t in
  if (why =? 1) || (3 <=? why) then v_bgas post =? v_bgas pre else true.

Fixpoint blockgas_txs (e : env) (l : list (tx * oracle * obs)) (i : nat) : option nat :=
  match l with
  | [] => None
  | (t, o, ob) :: r => if blockgas_ok e t (ob_pre ob) (ob_post ob) then blockgas_txs e r (S i) else Some i
  end.

Definition blockgas_case (c : case) : option nat := blockgas_txs (c_env c) (c_txs c) 0.
