(* C19/BaseFee.v — the fee market between blocks: x/feemarket (evmos fork) BeginBlock -> CalculateBaseFee and
   EndBlock -> SetBlockGasWanted, transcribed clause by clause, and blocks chained through them: the base fee of block k+1
   is a function of block k's base fee and of the gas block k wanted/used; it is the [e_base] every decorator and
   ApplyTransaction of block k+1 sees (Model.v). Executable definitions only. *)
From Coq Require Import List String Bool ZArith Lia.
From Exo Require Import Base.IntDec Base.Util C19.Model.
Import ListNotations.
Local Open Scope Z_scope.

Record fm := mkFm {
  f_nobase : bool;        (* Params.NoBaseFee *)
  f_enable : Z;           (* Params.EnableHeight *)
  f_base : Z;             (* Params.BaseFee as stored = the parent block's base fee *)
  f_elast : Z;            (* Params.ElasticityMultiplier *)
  f_denom : Z;            (* Params.BaseFeeChangeDenominator *)
  f_mgp : Z;              (* Params.MinGasPrice, LegacyDec scaled *)
  f_maxgas : Z            (* consensus Block.MaxGas; -1 = unlimited *)
}.

Inductive bf_result :=
| BfNone                  (* CalculateBaseFee returns nil: BeginBlock leaves the stored base fee alone *)
| BfSome (fee : Z)
| BfPanic.                (* big.Int division by zero inside BeginBlock (excluded by Params.Validate) *)

Definition max_uint64 : Z := 2 ^ 64 - 1.

(* CalculateBaseFee at block [height], [parent_gas] = GetBlockGasWanted (written by the parent's EndBlock) *)
Definition next_base_fee (p : fm) (height parent_gas : Z) : bf_result :=
  if f_nobase p || (height <? f_enable p) then BfNone
  else if height =? f_enable p then BfSome (f_base p)
  else
    let gas_limit := if -1 <? f_maxgas p then f_maxgas p else max_uint64 in
    if f_elast p =? 0 then BfPanic
    else
      let target := gas_limit / f_elast p in
      if max_uint64 <? target then BfNone
      else if parent_gas =? target then BfSome (f_base p)
      else if target <? parent_gas then
        if (target =? 0) || (f_denom p =? 0) then BfPanic
        else
          let y := (f_base p * (parent_gas - target)) / target in
          BfSome (f_base p + Z.max (y / f_denom p) 1)
      else
        if f_denom p =? 0 then BfPanic
        else
          let y := (f_base p * (target - parent_gas)) / target in
          BfSome (Z.max (f_base p - y / f_denom p) (dec_trunc_int (f_mgp p))).

(* the base fee the evm keeper hands to the ante handler and to ApplyTransaction (keeper.getBaseFee, London active):
   the stored fee market value, 0 when the fee market has none *)
Definition evm_base_fee (p : fm) (height : Z) (stored : Z) : Z :=
  if f_nobase p then 0 else stored.

(* GasWantedDecorator adds to the transient gas wanted only while GetBaseFeeEnabled *)
Definition base_fee_enabled (p : fm) (height : Z) : bool := negb (f_nobase p) && (f_enable p <=? height).

(* EndBlock: gas the block "wanted" = max(transient gas wanted * MinGasMultiplier, block gas consumed up to the limit) *)
Definition block_gas_wanted (mult transient_wanted consumed blim : Z) : Z :=
  let used := if (0 <? blim) && (blim <? consumed) then blim else consumed in
  dec_trunc_int (Z.max (dec_mul (dec_of_int transient_wanted) mult) (dec_of_int used)).

(* GasWantedDecorator: every admitted transaction adds its gas limit to the transient gas wanted *)
Definition included_b (r : result) : bool := match r with Rejected _ => false | _ => true end.

Fixpoint trace_b (e : env) (s : state) (ops : list (tx * oracle)) : list (tx * result) :=
  match ops with
  | [] => []
  | (t, o) :: r => (t, snd (deliver e s t o)) :: trace_b e (fst (deliver e s t o)) r
  end.

Definition gas_wanted_of (enabled : bool) (tr : list (tx * result)) : Z :=
  if enabled then zsum (map (fun p => if included_b (snd p) then t_gas (fst p) else 0) tr) else 0.

(* ---- a chain of blocks ---- *)
Record blockin := mkBlk {
  b_fm : fm;                      (* parameters in force at this block's BeginBlock; [f_base] is overridden by the chain *)
  b_height : Z;
  b_mult : Z;                     (* MinGasMultiplier *)
  b_ops : list (tx * oracle)
}.

(* chain state: stored base fee, block gas wanted of the previous block, account state *)
Record cstate := mkCs { c_stored : Z; c_parent_gas : Z; c_st : state }.

Definition fm_with_base (p : fm) (b : Z) : fm :=
  mkFm (f_nobase p) (f_enable p) b (f_elast p) (f_denom p) (f_mgp p) (f_maxgas p).

Definition blim_of (p : fm) : Z := if 0 <? f_maxgas p then f_maxgas p else -1.

(* one block: BeginBlock (new base fee, fresh block gas meter), DeliverTx*, EndBlock (gas wanted); None = BeginBlock panic *)
Definition block_step (c : cstate) (b : blockin) : option (cstate * Z * list (tx * result)) :=
  let p := fm_with_base (b_fm b) (c_stored c) in
  match next_base_fee p (b_height b) (c_parent_gas c) with
  | BfPanic => None
  | r =>
      let stored := match r with BfSome f => f | _ => c_stored c end in
      let base := evm_base_fee p (b_height b) stored in
      let e := mkEnv base (f_mgp p) (b_mult b) (blim_of p) in
      let s0 := with_bgas (c_st c) 0 in
      let tr := trace_b e s0 (b_ops b) in
      let s1 := run e s0 (b_ops b) in
      let wanted := block_gas_wanted (b_mult b) (gas_wanted_of (base_fee_enabled p (b_height b)) tr) (s_bgas s1) (blim_of p) in
      Some (mkCs stored wanted s1, base, tr)
  end.

Fixpoint run_chain (c : cstate) (blocks : list blockin) : option (cstate * list (Z * list (tx * result))) :=
  match blocks with
  | [] => Some (c, [])
  | b :: r =>
      match block_step c b with
      | None => None
      | Some (c', base, tr) =>
          match run_chain c' r with
          | None => None
          | Some (c'', l) => Some (c'', (base, tr) :: l)
          end
      end
  end.

(* ---- correspondence cases: block A (its transactions and EndBlock) and the BeginBlock of block A+1, on the real chain ---- *)
Record bfcase := mkBf {
  bf_params : fm;                 (* in force during A and at A+1's BeginBlock; f_base = stored base fee during A *)
  bf_height : Z;                  (* height of block A+1 *)
  bf_mult : Z;                    (* MinGasMultiplier *)
  bf_included_gas : list Z;       (* gas limits of the transactions block A included *)
  bf_transient : Z;               (* GetTransientGasWanted before A's EndBlock *)
  bf_consumed : Z;                (* block gas meter before A's EndBlock *)
  bf_wanted_after : Z;            (* GetBlockGasWanted after A's EndBlock = parent gas of A+1 *)
  bf_stored_after : Z;            (* Params.BaseFee after A+1's BeginBlock *)
  bf_evm_base : Z                 (* EvmKeeper.GetBaseFee in A+1 (0 when nil) *)
}.

Definition bfcheck_case (c : bfcase) : option nat :=
  let p := bf_params c in
  if negb ((if base_fee_enabled p (bf_height c - 1) then zsum (bf_included_gas c) else 0) =? bf_transient c) then Some 1%nat
  else
    let wanted := block_gas_wanted (bf_mult c) (bf_transient c) (bf_consumed c) (blim_of p) in
    if negb (wanted =? bf_wanted_after c) then Some 2%nat
    else match next_base_fee p (bf_height c) wanted with
         | BfPanic => Some 3%nat
         | r =>
             let stored := match r with BfSome f => f | _ => f_base p end in
             if negb (stored =? bf_stored_after c) then Some 4%nat
             else if negb (evm_base_fee p (bf_height c) stored =? bf_evm_base c) then Some 5%nat
             else None
         end.

(* the property-level reading, on observations only: the new base fee never drops below floor(MinGasPrice), moves up only
   when the parent block wanted more than its target, down only when it wanted less, and stays when it hit the target *)
Definition bfmonitor_case (c : bfcase) : option nat :=
  let p := bf_params c in
  if f_nobase p || (bf_height c <=? f_enable p) || (f_elast p <=? 0) || (f_denom p <=? 0) then None
  else
    let gas_limit := if -1 <? f_maxgas p then f_maxgas p else max_uint64 in
    let target := gas_limit / f_elast p in
    let nb := bf_stored_after c in
    let ok :=
      if bf_wanted_after c =? target then nb =? f_base p
      else if target <? bf_wanted_after c then f_base p <? nb
      else (nb <=? Z.max (f_base p) (dec_trunc_int (f_mgp p))) && (dec_trunc_int (f_mgp p) <=? nb)
    in if ok then None else Some 0%nat.
