(* C19/MultiTx.v — executable model of ONE cosmos transaction that carries several MsgEthereumTx, through DeliverTx.
   Transcribed from baseapp.runTx and app/ante/evm for the multi-message case: every decorator loops over ALL messages
   before the next decorator runs (EthMinGasPrice, CanTransfer against the state before any deduction, EthGasConsume
   deducting message after message, gas wanted = sum of gas limits against the block limit, EthIncrementSenderSequence
   message after message), the ante branch is written as a whole, then MsgServer.EthereumTx / ApplyTransaction run message
   after message on one message branch: a failed VM execution does not fail the transaction, an error return
   (intrinsic gas, stateDB.Commit, RefundGas) fails the whole transaction and only the ante effects stay, with the gas
   meter set to the SUM of the gas limits; finally the deferred block gas consumption can drop the message branch.
   Sequence numbers: the repaired rule (fix e884872) — ApplyMessageWithConfig never winds the sequence back, so only the
   ante handler moves it. No proofs here. *)
From Coq Require Import List String Bool ZArith Lia.
From Exo Require Import Base.IntDec Base.Util C19.Model.
Import ListNotations.
Local Open Scope Z_scope.
Local Open Scope list_scope.

Inductive mresult :=
| MRejected (why : Z)                          (* not included: no balance / sequence / store change *)
| MMsgErr                                      (* a message returned an error: only the ante effects stay *)
| MBlockGasExceeded (outs : list (Z * bool))   (* deferred block gas consumption panicked: only the ante effects stay *)
| MDone (outs : list (Z * bool)).              (* per message: (GasUsed, VmError <> "") *)

Definition fees_of (e : env) (t : tx) : Z := eff_price e t * t_gas t.
Definition gas_sum (msgs : list tx) : Z := zsum (map t_gas msgs).

(* EthMinGasPriceDecorator, one message *)
Definition mgp_ok (e : env) (t : tx) : bool :=
  negb (negb (e_mgp e =? 0) && (dec_of_int (fees_of e t) <? dec_mul (e_mgp e) (dec_of_int (t_gas t)))).

(* CanTransferDecorator: every message against the balances BEFORE any fee is deducted; 0 = all pass *)
Fixpoint can_transfer_all (e : env) (bal : amap Z) (msgs : list tx) : Z :=
  match msgs with
  | [] => 0
  | t :: r =>
      if fee_cap t <? e_base e then 4
      else if (0 <? t_value t) && (aget 0 bal (t_from t) <? t_value t) then 5
      else can_transfer_all e bal r
  end.

(* EthGasConsumeDecorator: VerifyFee / ClaimStakingRewardsIfNecessary / DeductTxCostsFromUserBalance, message after message *)
Fixpoint consume_all (e : env) (nonce : amap (option Z)) (bal : amap Z) (coll : Z) (msgs : list tx) : Z + (amap Z * Z) :=
  match msgs with
  | [] => inr (bal, coll)
  | t :: r =>
      let fees := fees_of e t in
      let b := aget 0 bal (t_from t) in
      if fees <=? 0 then inl 6
      else if b <? fees then inl 10
      else if (match aget None nonce (t_from t) with None => true | Some _ => false end) then inl 6
      else consume_all e nonce (aset bal (t_from t) (b - fees)) (coll + fees) r
  end.

(* EthIncrementSenderSequenceDecorator, message after message *)
Fixpoint bump_all (nonce : amap (option Z)) (msgs : list tx) : Z + amap (option Z) :=
  match msgs with
  | [] => inr nonce
  | t :: r =>
      match aget None nonce (t_from t) with
      | None => inl 8
      | Some n => if n =? t_nonce t then bump_all (aset nonce (t_from t) (Some (n + 1))) r else inl 9
      end
  end.

(* ApplyTransaction for one message on the message branch (fees already paid, sequence already advanced) *)
Definition exec_msg (e : env) (s : state) (t : tx) (o : oracle) : option (state * (Z * bool)) :=
  if t_gas t <? t_intr t then None
  else
    let b := aget 0 (s_bal s) (t_from t) in
    let failed := o_failed o || (b <? t_value t) in
    if negb failed && t_blocked t && (0 <? t_value t) then None
    else
      let gu := final_gas_used e t (temp_gas_used t o) in
      let refund := (t_gas t - gu) * eff_price e t in
      if (refund <? 0) || (s_coll s <? refund) then None
      else
        let balA := if failed then s_bal s
                    else let m := aset (s_bal s) (t_from t) (b - t_value t) in
                         aset m (t_to t) (aget 0 m (t_to t) + t_value t) in
        let worldA := if failed then s_world s else o_world o in
        let balB := aset balA (t_from t) (aget 0 balA (t_from t) + refund) in
        Some (mkSt balB (s_nonce s) (s_coll s - refund) (s_bgas s) worldA, (gu, failed)).

Fixpoint exec_all (e : env) (s : state) (ops : list (tx * oracle)) : option (state * list (Z * bool)) :=
  match ops with
  | [] => Some (s, [])
  | (t, o) :: r =>
      match exec_msg e s t o with
      | None => None
      | Some (s', out) =>
          match exec_all e s' r with
          | None => None
          | Some (s'', outs) => Some (s'', out :: outs)
          end
      end
  end.

(* the ante handler as a whole: reason, or the state with the ante branch written *)
Definition ante_multi (e : env) (s : state) (msgs : list tx) : Z + state :=
  if negb (forallb (mgp_ok e) msgs) then inl 3
  else
    let ct := can_transfer_all e (s_bal s) msgs in
    if negb (ct =? 0) then inl ct
    else match consume_all e (s_nonce s) (s_bal s) (s_coll s) msgs with
         | inl why => inl why
         | inr (bal1, coll1) =>
             if (0 <=? e_blim e) && (e_blim e <? gas_sum msgs) then inl 7
             else match bump_all (s_nonce s) msgs with
                  | inl why => inl why
                  | inr nonce1 => inr (mkSt bal1 nonce1 coll1 (s_bgas s) (s_world s))
                  end
         end.

(* [ctxgas]: ResponseDeliverTx.GasUsed, used only when validateBasicTxMsgs fails (Model.v o_ctxgas) *)
Definition deliver_multi (e : env) (s : state) (ctxgas : Z) (ops : list (tx * oracle)) : state * mresult :=
  let msgs := map fst ops in
  if (0 <=? e_blim e) && (e_blim e <=? s_bgas s) then (s, MRejected 1)
  else if (match msgs with [] => true | _ => false end) || negb (forallb basic_valid msgs) then
    (with_bgas s (s_bgas s + ctxgas), MRejected 2)
  else match ante_multi e s msgs with
       | inl why => (s, MRejected why)
       | inr s1 =>
           match exec_all e s1 ops with
           | None => (with_bgas s1 (s_bgas s + gas_sum msgs), MMsgErr)
           | Some (s2, outs) =>
               let total := zsum (map fst outs) in
               if (0 <=? e_blim e) && (e_blim e <? s_bgas s + total) then
                 (with_bgas s1 (s_bgas s + total), MBlockGasExceeded outs)
               else (with_bgas s2 (s_bgas s + total), MDone outs)
           end
       end.

(* a block of multi-message transactions *)
Definition run_multi (e : env) (s : state) (txs : list (Z * list (tx * oracle))) : state :=
  fold_left (fun st x => fst (deliver_multi e st (fst x) (snd x))) txs s.

Definition mincluded (r : mresult) : bool := match r with MRejected _ => false | _ => true end.
Definition mouts (r : mresult) : option (list (Z * bool)) := match r with MDone o => Some o | _ => None end.
