(* Ledger/IndexInv.v — the index invariant of the undelegation stores and its preservation (shared by C01 and C03).
     K  : every record is stored under its own key;
     Ip : every pending-index entry points to a live record whose (completeHeight, nonce) is the entry's key. *)
From Coq Require Import List String Ascii Bool ZArith Lia Sorting.Sorted.
From Exo Require Import Base.Store Base.IntDec Base.Util Ledger.Ledger Ledger.Strings Ledger.LedgerLemmas.
Import ListNotations.
Local Open Scope string_scope.
Local Open Scope Z_scope.

Definition rec_wf (r : urec) : bool :=
  no_slash (ur_staker r) && no_slash (ur_op r) && (0 <=? ur_cn r) && (0 <=? ur_nonce r).

Definition Kinv (u : store urec) : Prop := forall k r, sget u k = Some r -> k = rkey r.
Definition Ipinv (u : store urec) (p : store string) : Prop :=
  forall k rk, sget p k = Some rk -> exists r, sget u rk = Some r /\ k = pkey r.

Definition idx_inv (s : st) : Prop :=
  sorted (ur s) /\ sorted (pidx s) /\ Kinv (ur s) /\ Ipinv (ur s) (pidx s) /\ allv rec_wf (ur s) = true /\ 0 <= height s.

Lemma idx_inv_ext s1 s2 : ur s1 = ur s2 -> pidx s1 = pidx s2 -> height s1 = height s2 -> idx_inv s1 -> idx_inv s2.
Proof. unfold idx_inv. intros -> -> ->. auto. Qed.

(* ---- key-preserving maps over a store ---- *)
Lemma sget_map_vals {V} (f : string -> V -> V) (s : store V) k :
  sget (map (fun kv => (fst kv, f (fst kv) (snd kv))) s) k = option_map (f k) (sget s k).
Proof.
  induction s as [|[k' v'] r IH]; simpl; [reflexivity|].
  destruct (scmp k k') eqn:E; simpl; auto. apply scmp_eq in E. subst. reflexivity.
Qed.

Lemma skeys_map_vals {V} (f : string -> V -> V) (s : store V) :
  skeys (map (fun kv => (fst kv, f (fst kv) (snd kv))) s) = skeys s.
Proof. unfold skeys. rewrite map_map. simpl. reflexivity. Qed.

Definition slash_rec_fun (op : string) (eh prop : Z) (k : string) (r : urec) : urec :=
  if is_prefix op k && negb (ur_bn r <? eh) then fst (slash_record prop r) else r.

Lemma slash_records_map op eh prop u :
  fst (slash_records op eh prop u) = map (fun kv => (fst kv, slash_rec_fun op eh prop (fst kv) (snd kv))) u.
Proof.
  induction u as [|[k r] rest IH]; simpl; [reflexivity|].
  destruct (slash_records op eh prop rest) as [rest' ev'] eqn:E. simpl in IH.
  unfold slash_rec_fun at 1. simpl.
  destruct (is_prefix op k && negb (ur_bn r <? eh)).
  - destruct (slash_record prop r) as [r' ev]. simpl. rewrite IH. reflexivity.
  - simpl. rewrite IH. reflexivity.
Qed.

Lemma slash_record_keys prop r :
  rkey (fst (slash_record prop r)) = rkey r /\ pkey (fst (slash_record prop r)) = pkey r /\
  skey (fst (slash_record prop r)) = skey r /\ rec_wf (fst (slash_record prop r)) = rec_wf r /\
  ur_cn (fst (slash_record prop r)) = ur_cn r /\ ur_asset (fst (slash_record prop r)) = ur_asset r /\
  ur_staker (fst (slash_record prop r)) = ur_staker r /\ ur_op (fst (slash_record prop r)) = ur_op r /\
  ur_amt (fst (slash_record prop r)) = ur_amt r.
Proof. unfold slash_record. destruct (ur_act r =? 0); simpl; auto 10. Qed.

Lemma slash_rec_fun_keys op eh prop k r :
  rkey (slash_rec_fun op eh prop k r) = rkey r /\ pkey (slash_rec_fun op eh prop k r) = pkey r /\
  rec_wf (slash_rec_fun op eh prop k r) = rec_wf r /\ ur_cn (slash_rec_fun op eh prop k r) = ur_cn r.
Proof.
  unfold slash_rec_fun. destruct (_ && _); [|auto].
  pose proof (slash_record_keys prop r) as (A & B & _ & C & D & _). auto.
Qed.

(* ---- set / delete of one record ---- *)
Lemma set_record_idx s r s' :
  idx_inv s -> rec_wf r = true -> sget (ur s) (rkey r) = None -> set_record s r = Some s' -> idx_inv s'.
Proof.
  intros (Su & Sp & K & Ip & W & Hh) Wr Fr H. unfold set_record in H.
  destruct (ur_cn r <? height s); [discriminate|]. rewrite Fr in H. inversion H; subst; clear H.
  unfold idx_inv. simpl. repeat split.
  - apply sset_sorted; assumption.
  - apply sset_sorted; assumption.
  - intros k r0 G. destruct (string_dec (rkey r) k) as [<-|Ne].
    + rewrite sget_sset_same in G. inversion G; subst. reflexivity.
    + rewrite sget_sset_other in G by assumption. apply K; assumption.
  - intros k rk G. destruct (string_dec (pkey r) k) as [<-|Ne].
    + rewrite sget_sset_same in G. inversion G; subst. exists r. rewrite sget_sset_same. auto.
    + rewrite sget_sset_other in G by assumption. destruct (Ip _ _ G) as (r2 & G2 & ->).
      exists r2. split; [|reflexivity]. rewrite sget_sset_other; [assumption|assumption|].
      intro Eq. rewrite <- Eq in G2. congruence.
  - apply allv_sset; assumption.
  - assumption.
Qed.

Lemma del_record_idx s r : idx_inv s -> sget (ur s) (rkey r) = Some r -> idx_inv (del_record s r).
Proof.
  intros (Su & Sp & K & Ip & W & Hh) G0. unfold idx_inv, del_record. simpl. repeat split.
  - apply sdel_sorted; assumption.
  - apply sdel_sorted; assumption.
  - intros k r0 G. destruct (string_dec (rkey r) k) as [<-|Ne].
    + rewrite sget_sdel_same in G by assumption. discriminate.
    + rewrite sget_sdel_other in G by assumption. apply K; assumption.
  - intros k rk G. destruct (string_dec (pkey r) k) as [<-|Ne].
    + rewrite sget_sdel_same in G by assumption. discriminate.
    + rewrite sget_sdel_other in G by assumption. destruct (Ip _ _ G) as (r2 & G2 & ->).
      exists r2. split; [|reflexivity]. rewrite sget_sdel_other; [assumption|assumption|].
      intro Eq. rewrite <- Eq in G2. rewrite G0 in G2. inversion G2; subst. apply Ne; reflexivity.
  - apply allv_sdel; assumption.
  - assumption.
Qed.

Lemma del_record_fresh s r : sorted (ur s) -> sget (ur (del_record s r)) (rkey r) = None.
Proof. intro S. unfold del_record. simpl. apply sget_sdel_same; assumption. Qed.

Lemma del_record_other s r k : sorted (ur s) -> k <> rkey r -> sget (ur (del_record s r)) k = sget (ur s) k.
Proof. intros S N. unfold del_record. simpl. apply sget_sdel_other; auto. Qed.

Lemma set_record_other s r s' k : sorted (ur s) -> set_record s r = Some s' -> k <> rkey r -> sget (ur s') k = sget (ur s) k.
Proof.
  intros S H N. unfold set_record in H. destruct (ur_cn r <? height s); [discriminate|].
  inversion H; subst; clear H. destruct (sget (ur s) (rkey r)); simpl; apply sget_sset_other; auto.
Qed.

Lemma set_record_height s r s' : set_record s r = Some s' -> height s' = height s.
Proof.
  unfold set_record. destruct (ur_cn r <? height s); [discriminate|]. intro H; inversion H; subst.
  destruct (sget (ur s) (rkey r)); reflexivity.
Qed.

(* ---- frames of the primitive updates ---- *)
Lemma upd_sa_frame s k a b c s' : upd_sa s k a b c = Some s' -> ur s' = ur s /\ pidx s' = pidx s /\ height s' = height s /\ hold s' = hold s /\ sidx s' = sidx s.
Proof. intro H. apply upd_sa_spec in H. destruct H as (r & -> & _). simpl. auto. Qed.
Lemma upd_oa_frame s k a b c d s' : upd_oa s k a b c d = Some s' -> ur s' = ur s /\ pidx s' = pidx s /\ height s' = height s /\ hold s' = hold s /\ sidx s' = sidx s.
Proof. intro H. apply upd_oa_spec in H. destruct H as (r & -> & _). simpl. auto. Qed.
Lemma upd_dg_frame s k a b s' z : upd_dg s k a b = Some (s', z) -> ur s' = ur s /\ pidx s' = pidx s /\ height s' = height s /\ hold s' = hold s /\ sidx s' = sidx s.
Proof. intro H. apply upd_dg_spec in H. destruct H as (r & -> & _). simpl. auto. Qed.

Lemma same_frame5 s s' : same_but_sa_bank_log s s' ->
  ur s' = ur s /\ pidx s' = pidx s /\ height s' = height s /\ hold s' = hold s /\ sidx s' = sidx s.
Proof. intros (A & B & C & D & E & _). auto. Qed.
Lemma take_frame s st a x s' : take_from_staker s st a x = Some s' -> ur s' = ur s /\ pidx s' = pidx s /\ height s' = height s /\ hold s' = hold s /\ sidx s' = sidx s.
Proof. intro H. apply same_frame5. eapply take_same; eauto. Qed.
Lemma book_frame s st a x s' : book_pending s st a x = Some s' -> ur s' = ur s /\ pidx s' = pidx s /\ height s' = height s /\ hold s' = hold s /\ sidx s' = sidx s.
Proof. intro H. apply same_frame5. eapply book_same; eauto. Qed.
Lemma pay_frame s r s' : pay_staker s r = Some s' -> ur s' = ur s /\ pidx s' = pidx s /\ height s' = height s /\ hold s' = hold s /\ sidx s' = sidx s.
Proof. intro H. apply same_frame5. eapply pay_same; eauto. Qed.

Lemma rec_wf_requeue r h : rec_wf r = true -> 0 <= h ->
  rec_wf (mkUR (ur_staker r) (ur_asset r) (ur_op r) (ur_tx r) (ur_bn r) (h + 1) (ur_nonce r) (ur_amt r) (ur_act r)) = true.
Proof.
  unfold rec_wf. simpl. rewrite !andb_true_iff, !Z.leb_le. intuition lia.
Qed.

(* ---- one iteration of the EndBlock loop ---- *)
Lemma process_idx s r :
  idx_inv s -> sget (ur s) (rkey r) = Some r ->
  idx_inv (process s r) /\ (forall k, k <> rkey r -> sget (ur (process s r)) k = sget (ur s) k) /\
  height (process s r) = height s.
Proof.
  intros I G. pose proof I as (Su & Sp & K & Ip & W & Hh).
  assert (rec_wf r = true) as Wr by (eapply allv_sget; eauto).
  unfold process. destruct (0 <? hold_count s (rkey r)).
  - set (r' := mkUR _ _ _ _ _ (height s + 1) _ _ _).
    destruct (set_record (del_record s r) r') as [s2|] eqn:E; [|auto].
    assert (rkey r' = rkey r) as RK by reflexivity.
    assert (rec_wf r' = true) as Wr' by (exact (rec_wf_requeue r (height s) Wr Hh)).
    assert (sget (ur (del_record s r)) (rkey r') = None) as Fr by (rewrite RK; apply del_record_fresh; assumption).
    split; [|split].
    + exact (set_record_idx _ _ _ (del_record_idx _ _ I G) Wr' Fr E).
    + intros k N. assert (sorted (ur (del_record s r))) as Sd by (unfold del_record; simpl; apply sdel_sorted; assumption).
      rewrite (set_record_other _ _ _ k Sd E) by (rewrite RK; assumption).
      apply del_record_other; assumption.
    + apply set_record_height in E. rewrite E. reflexivity.
  - destruct (upd_dg s _ 0 (- ur_amt r)) as [[s1 z]|] eqn:E1; [|auto].
    destruct (pay_staker s1 r) as [s2|] eqn:E2; [|auto].
    destruct (upd_oa s2 _ 0 (- ur_amt r) 0 0) as [s3|] eqn:E3; [|auto].
    apply upd_dg_frame in E1. destruct E1 as (U1 & P1 & H1 & _).
    apply pay_frame in E2. destruct E2 as (U2 & P2 & H2 & _).
    apply upd_oa_frame in E3. destruct E3 as (U3 & P3 & H3 & _).
    assert (idx_inv s3) as I3 by (eapply (idx_inv_ext s s3); try congruence).
    assert (ur s3 = ur s) as U by congruence.
    split; [|split].
    + apply del_record_idx; [assumption | rewrite U; assumption].
    + intros k N. rewrite del_record_other; [rewrite U; reflexivity | rewrite U; assumption | assumption].
    + unfold del_record. simpl. congruence.
Qed.

(* ---- the whole loop, generic in an additional preserved predicate Q ---- *)
Lemma process_loop (Q : st -> Prop) :
  (forall s r, idx_inv s -> sget (ur s) (rkey r) = Some r -> Q s -> Q (process s r)) ->
  forall recs s, idx_inv s -> Q s -> (forall r, In r recs -> sget (ur s) (rkey r) = Some r) -> NoDup (map rkey recs) ->
  idx_inv (fold_left process recs s) /\ Q (fold_left process recs s) /\
  (forall k, ~ In k (map rkey recs) -> sget (ur (fold_left process recs s)) k = sget (ur s) k) /\
  height (fold_left process recs s) = height s.
Proof.
  intros HQ recs. induction recs as [|r rest IH]; intros s I q G ND; simpl.
  - auto.
  - simpl in ND. inversion ND as [|? ? Nin ND']; subst.
    destruct (process_idx s r I (G r (or_introl eq_refl))) as (I1 & O1 & H1).
    assert (forall r0, In r0 rest -> sget (ur (process s r)) (rkey r0) = Some r0) as G1.
    { intros r0 In0. rewrite O1; [apply G; right; assumption|].
      intro Eq. apply Nin. rewrite <- Eq. apply in_map. assumption. }
    destruct (IH (process s r) I1 (HQ _ _ I (G r (or_introl eq_refl)) q) G1 ND') as (I2 & Q2 & O2 & H2).
    split; [assumption|split; [assumption|split]].
    + intros k N. rewrite O2 by (intro; apply N; right; assumption).
      apply O1. intro; apply N; left; congruence.
    + congruence.
Qed.

(* ---- what EndBlock fetches ---- *)
Lemma fetch_spec u ks recs : fetch u ks = Some recs -> Forall2 (fun k r => sget u k = Some r) ks recs.
Proof.
  revert recs. induction ks as [|k ks IH]; simpl; intros recs H.
  - inversion H; constructor.
  - destruct (sget u k) as [x|] eqn:E; [|discriminate].
    destruct (fetch u ks) as [l|]; [|discriminate]. inversion H; subst. constructor; auto.
Qed.

Lemma fetch_keys u ks recs : Kinv u -> fetch u ks = Some recs ->
  map rkey recs = ks /\ (forall r, In r recs -> sget u (rkey r) = Some r).
Proof.
  intros K H. apply fetch_spec in H. induction H as [|k r ks recs G F IH]; simpl.
  - split; [reflexivity | tauto].
  - destruct IH as [IH1 IH2]. pose proof (K _ _ G) as ->. split; [f_equal; assumption|].
    intros r0 [<-|In0]; auto.
Qed.

Lemma nodup_snd_filter (p : store string) (f : string * string -> bool) :
  sorted p -> (forall k1 k2 v, In (k1, v) p -> In (k2, v) p -> k1 = k2) -> NoDup (map snd (filter f p)).
Proof.
  induction p as [|[k v] rest IH]; intros S Inj; simpl; [constructor|].
  assert (NoDup (map snd (filter f rest))) as ND.
  { apply IH; [eapply sorted_tail; eauto|]. intros k1 k2 v0 A B. eapply Inj; right; eassumption. }
  destruct (f (k, v)); [|assumption]. simpl. constructor; [|assumption].
  intro In0. apply in_map_iff in In0. destruct In0 as ([k2 v2] & Ev & In2). simpl in Ev. subst v2.
  apply filter_In in In2. destruct In2 as [In2 _].
  assert (k = k2) by (eapply Inj; [left; reflexivity | right; exact In2]). subst k2.
  pose proof (sorted_head _ _ _ S) as Hf. rewrite Forall_forall in Hf.
  apply (slt_irrefl k). apply Hf. apply in_map_iff. exists (k, v). auto.
Qed.

Lemma due_keys_nodup s h : idx_inv s -> NoDup (due_keys h (pidx s)).
Proof.
  intros (Su & Sp & K & Ip & W & _). unfold due_keys, prefix_iter. apply nodup_snd_filter; [assumption|].
  intros k1 k2 v A B. apply (sget_in _ _ _ Sp) in A. apply (sget_in _ _ _ Sp) in B.
  destruct (Ip _ _ A) as (r1 & G1 & ->). destruct (Ip _ _ B) as (r2 & G2 & ->). congruence.
Qed.

Lemma due_keys_spec s h rk : idx_inv s -> 0 <= h -> In rk (due_keys h (pidx s)) ->
  exists r, sget (ur s) rk = Some r /\ ur_cn r = h.
Proof.
  intros (Su & Sp & K & Ip & W & _) Hh In0. unfold due_keys, prefix_iter in In0.
  apply in_map_iff in In0. destruct In0 as ([k v] & Ev & In1). simpl in Ev. subst v.
  apply filter_In in In1. destruct In1 as [In1 Pf]. simpl in Pf.
  apply (sget_in _ _ _ Sp) in In1. destruct (Ip _ _ In1) as (r & G & ->).
  exists r. split; [assumption|].
  assert (rec_wf r = true) as Wr by (eapply allv_sget; eauto).
  unfold rec_wf in Wr. rewrite !andb_true_iff, !Z.leb_le in Wr.
  symmetry. apply (pending_scan_exact h (ur_cn r) (ur_nonce r)); [assumption | tauto | exact Pf].
Qed.

(* ---- EndBlock as a whole ---- *)
Lemma end_block_idx (Q : st -> Prop) :
  (forall s r, idx_inv s -> sget (ur s) (rkey r) = Some r -> Q s -> Q (process s r)) ->
  (forall s h, Q s -> Q (w_height h s)) ->
  forall s, idx_inv s -> Q s ->
  idx_inv (end_block s) /\ Q (end_block s) /\
  (forall k r, sget (ur s) k = Some r -> ur_cn r <> height s -> sget (ur (end_block s)) k = Some r).
Proof.
  intros HQ HQh s I q. pose proof I as (Su & Sp & K & Ip & W & Hh). unfold end_block.
  destruct (fetch (ur s) (due_keys (height s) (pidx s))) as [recs|] eqn:F.
  - destruct (fetch_keys _ _ _ K F) as [MK G].
    assert (NoDup (map rkey recs)) as ND by (rewrite MK; apply due_keys_nodup; assumption).
    destruct (process_loop Q HQ recs s I q G ND) as (I2 & Q2 & O2 & H2).
    split; [|split].
    + destruct I2 as (A & B & C & D & E & _). unfold idx_inv. simpl. repeat split; auto. lia.
    + apply HQh. assumption.
    + intros k r Gk Ne. simpl. rewrite O2; [assumption|]. rewrite MK. intro In0.
      destruct (due_keys_spec s (height s) k I Hh In0) as (r2 & G2 & Cn). congruence.
  - split; [|split].
    + unfold idx_inv. simpl. repeat split; auto. lia.
    + apply HQh. assumption.
    + intros k r Gk _. simpl. assumption.
Qed.

(* ================= UpdateNSTBalance (op NstBalance) ================= *)
(* ---------- generic loop lemmas ---------- *)
Lemma nst_records_P (P : st -> Prop) sk :
  (forall s pend rk s2 p', 0 < pend -> P s -> nst_record_step s sk pend rk = Some (s2, p') -> P s2) ->
  forall entries s pend s' p', 0 < pend -> P s -> nst_records entries s sk pend = Some (s', p') -> P s'.
Proof.
  intros Hs entries. induction entries as [|[k rk] rest IH]; intros s pend s' p' Hp Ps H; simpl in H.
  - inversion H; subst. exact Ps.
  - destruct (nst_record_step s sk pend rk) as [[s2 q]|] eqn:E; [|discriminate].
    pose proof (Hs _ _ _ _ _ Hp Ps E) as P2.
    destruct (0 <? q) eqn:Eq.
    + apply Z.ltb_lt in Eq. eapply IH; eauto.
    + inversion H; subst. exact P2.
Qed.

Lemma nst_shares_P (P : st -> Prop) staker asset prop :
  (forall s k row s', P s -> nst_share_step s staker asset prop k row = Some s' -> P s') ->
  forall rows s s', P s -> nst_shares rows s staker asset prop = Some s' -> P s'.
Proof.
  intros Hs rows. induction rows as [|[k row] rest IH]; intros s s' Ps H; simpl in H.
  - inversion H; subst. exact Ps.
  - destruct (nst_share_step s staker asset prop k row) as [s1|] eqn:E; [|discriminate].
    eapply IH; [eapply Hs; eauto | exact H].
Qed.

(* the whole operation: P is preserved if it survives the first write (+ ghost event) and every iteration *)
Lemma nst_balance_P (P : st -> Prop) s st a x s' :
  P s ->
  (forall s1, 0 < x -> upd_sa s (sa_key st a) x x 0 = Some s1 -> P (log_ev (GNstP a x) s1)) ->
  (forall info f s1, x < 0 -> sget (sa s) (sa_key st a) = Some info -> (f = sa_wd info \/ 0 < f) ->
       upd_sa s (sa_key st a) (- f) (- f) 0 = Some s1 -> P (log_ev (GNstM a f) s1)) ->
  (forall s0 pend rk s2 p', 0 < pend -> P s0 -> nst_record_step s0 (sa_key st a) pend rk = Some (s2, p') -> P s2) ->
  (forall prop s0 k row s2, P s0 -> nst_share_step s0 st a prop k row = Some s2 -> P s2) ->
  nst_balance s st a x = Some s' -> P s'.
Proof.
  intros Ps Hpos Hneg Hrec Hsh H. unfold nst_balance in H.
  destruct (0 <? x) eqn:Ex.
  - apply Z.ltb_lt in Ex. destruct (upd_sa s (sa_key st a) x x 0) as [s1|] eqn:E; [|discriminate].
    inversion H; subst. exact (Hpos s1 Ex eq_refl).
  - destruct (x <? 0) eqn:Ex2; [|inversion H; subst; exact Ps]. apply Z.ltb_lt in Ex2.
    destruct (sget (sa s) (sa_key st a)) as [info|] eqn:Gi; [|discriminate].
    set (pend0 := - x - sa_wd info) in *.
    set (sfw := if 0 <? pend0 then sa_wd info else - x) in *.
    destruct (upd_sa s (sa_key st a) (- sfw) (- sfw) 0) as [s1|] eqn:E1; [|discriminate].
    assert (P (log_ev (GNstM a sfw) s1)) as P1.
    { refine (Hneg info sfw s1 Ex2 eq_refl _ E1). unfold sfw. destruct (0 <? pend0); [left; reflexivity | right; lia]. }
    destruct (0 <? pend0) eqn:Ep; [|inversion H; subst; exact P1]. apply Z.ltb_lt in Ep.
    match type of H with match ?e with _ => _ end = _ => destruct e as [[s2 pend1]|] eqn:E2; [|discriminate] end.
    pose proof (nst_records_P P (sa_key st a) Hrec _ _ _ _ _ Ep P1 E2) as P2.
    destruct (0 <? pend1); [|inversion H; subst; exact P2].
    match type of H with match ?e with _ => _ end = _ => destruct e as [total|]; [|discriminate] end.
    destruct (total =? 0); [inversion H; subst; exact P2|].
    eapply (nst_shares_P P st a); [apply Hsh | exact P2 | exact H].
Qed.

(* ---------- shapes of one iteration ---------- *)
Lemma record_step_shape s sk pend rk s2 p' : nst_record_step s sk pend rk = Some (s2, p') ->
  exists r s1, sget (ur s) rk = Some r /\ p' = pend - ur_act r /\
    let sl := if 0 <? pend - ur_act r then ur_act r else pend in
    upd_sa s sk (- sl) 0 0 = Some s1 /\
    s2 = log_ev (GNstM (ur_asset r) sl) (w_ur (sset (ur s1) rk (with_act r (ur_act r - sl))) s1).
Proof.
  unfold nst_record_step. destruct (sget (ur s) rk) as [r|] eqn:G; [|discriminate].
  destruct (upd_sa s sk _ 0 0) as [s1|] eqn:E; [|discriminate]. intro H; inversion H; subst. eauto 10.
Qed.

Lemma share_step_shape s st a prop k row s' : nst_share_step s st a prop k row = Some s' ->
  exists o sh tok s1 s2 z s3 s4, let op := key_operator k in
    sget (oa s) (oa_key op a) = Some o /\ 0 < sh /\ sh <= oa_tsh o /\
    (if oa_tsh o =? sh then Some (oa_amt o) else tokens_from_shares sh (oa_tsh o) (oa_amt o)) = Some tok /\
    upd_oa s (oa_key op a) (- tok) 0 (- sh) 0 = Some s1 /\ upd_dg s1 (dg_key st a op) (- sh) 0 = Some (s2, z) /\
    (if z then delete_staker s2 (oa_key op a) st else Some s2) = Some s3 /\
    upd_sa s3 (sa_key st a) (- tok) 0 0 = Some s4 /\ s' = log_ev (GNstM (key_asset (oa_key op a)) tok) s4.
Proof.
  unfold nst_share_step. set (op := key_operator k). set (sh := dec_mul (dg_sh row) prop).
  destruct (sh <=? 0) eqn:E0; [discriminate|]. apply Z.leb_gt in E0.
  destruct (sget (oa s) (oa_key op a)) as [o|] eqn:Go; [|discriminate].
  destruct (sh >? oa_tsh o) eqn:E1; [discriminate|]. rewrite Z.gtb_ltb in E1. apply Z.ltb_ge in E1.
  match goal with |- match ?e with _ => _ end = _ -> _ => destruct e as [tok|] eqn:Et; [|discriminate] end.
  destruct (upd_oa s (oa_key op a) (- tok) 0 (- sh) 0) as [s1|] eqn:U1; [|discriminate].
  destruct (upd_dg s1 (dg_key st a op) (- sh) 0) as [[s2 z]|] eqn:U2; [|discriminate].
  match goal with |- match ?e with _ => _ end = _ -> _ => destruct e as [s3|] eqn:U3; [|discriminate] end.
  destruct (upd_sa s3 (sa_key st a) (- tok) 0 0) as [s4|] eqn:U4; [|discriminate].
  intro H; inversion H; subst. exists o, sh, tok, s1, s2, z, s3, s4. simpl. auto 12.
Qed.

Lemma share_step_frame s st a prop k row s' : nst_share_step s st a prop k row = Some s' ->
  ur s' = ur s /\ pidx s' = pidx s /\ sidx s' = sidx s /\ height s' = height s /\ hold s' = hold s /\ bank s' = bank s /\ tot s' = tot s.
Proof.
  intro H. apply share_step_shape in H. destruct H as (o & sh & tok & s1 & s2 & z & s3 & s4 & H). simpl in H.
  destruct H as (_ & _ & _ & _ & U1 & U2 & U3 & U4 & ->).
  apply upd_oa_spec in U1. destruct U1 as (r1 & -> & _). apply upd_dg_spec in U2. destruct U2 as (r2 & -> & _).
  assert (ur s3 = ur s /\ pidx s3 = pidx s /\ sidx s3 = sidx s /\ height s3 = height s /\ hold s3 = hold s /\ bank s3 = bank s /\ tot s3 = tot s) as F3.
  { destruct z; [|inversion U3; subst; simpl; auto 10]. unfold delete_staker in U3. simpl in U3.
    destruct (sget (sl s) _); [|discriminate]. inversion U3; subst. simpl. auto 10. }
  apply upd_sa_spec in U4. destruct U4 as (r4 & -> & _). simpl. exact F3.
Qed.

(* ---------- a record rewritten with a lower ActualCompletedAmount ---------- *)
Lemma with_act_idx s rk r x : idx_inv s -> sget (ur s) rk = Some r -> idx_inv (w_ur (sset (ur s) rk (with_act r x)) s).
Proof.
  intros (Su & Sp & K & Ip & W & Hh) G. pose proof (K _ _ G) as Rk.
  unfold idx_inv. simpl. repeat split; try assumption.
  - apply sset_sorted; assumption.
  - intros k r0 G0. destruct (string_dec rk k) as [<-|Ne].
    + rewrite sget_sset_same in G0. inversion G0 as [E0]. rewrite Rk at 1. reflexivity.
    + rewrite sget_sset_other in G0 by assumption. apply K; assumption.
  - intros k rk2 G2. destruct (Ip _ _ G2) as (r2 & Gr & ->). destruct (string_dec rk rk2) as [<-|Ne].
    + exists (with_act r x). rewrite sget_sset_same. rewrite G in Gr. inversion Gr; subst. auto.
    + exists r2. rewrite sget_sset_other by assumption. auto.
  - apply allv_sset; [assumption|]. pose proof (allv_sget _ _ _ _ W G) as Wr. exact Wr.
Qed.

Lemma record_step_idx s sk pend rk s2 p' : idx_inv s -> nst_record_step s sk pend rk = Some (s2, p') -> idx_inv s2.
Proof.
  intros I H. apply record_step_shape in H. destruct H as (r & s1 & G & _ & H). simpl in H. destruct H as (U & ->).
  apply upd_sa_frame in U. destruct U as (u & p & h & _).
  assert (idx_inv s1) as I1 by (eapply (idx_inv_ext s s1); eauto).
  eapply (idx_inv_ext (w_ur (sset (ur s1) rk (with_act r _)) s1)); try reflexivity.
  apply with_act_idx; [exact I1 | rewrite u; exact G].
Qed.

Lemma nst_balance_idx s st a x s' : idx_inv s -> nst_balance s st a x = Some s' -> idx_inv s'.
Proof.
  intros I H. apply (nst_balance_P idx_inv s st a x s' I); try exact H.
  - intros s1 _ U. apply upd_sa_frame in U. destruct U as (u & p & h & _). eapply (idx_inv_ext s); eauto.
  - intros info f s1 _ _ _ U. apply upd_sa_frame in U. destruct U as (u & p & h & _). eapply (idx_inv_ext s); eauto.
  - intros s0 pend rk s2 p' _ I0 E. eapply record_step_idx; eauto.
  - intros prop s0 k row s2 I0 E. apply share_step_frame in E. destruct E as (u & p & _ & h & _). eapply (idx_inv_ext s0); eauto.
Qed.


(* ---- well-formed and fresh operations ---- *)
Definition wf_op (o : op) : bool :=
  match o with
  | Deposit st _ _ | Withdraw st _ _ => no_slash st
  | Delegate st _ op _ => no_slash st && no_slash op
  | Undelegate st _ op _ n _ => no_slash st && no_slash op && (0 <=? n)
  | GenesisLoad r => rec_wf r && negb (is_native (ur_asset r))   (* genesis loading is driven for the staker-row assets only *)
  | NstBalance st a _ => no_slash st && negb (is_native a)   (* the native token has no staker rows to adjust *)
  | _ => true
  end.

(* the record key an operation is about to write is not in use (tx hashes are unique) *)
Definition fresh_op (s : st) (o : op) : bool :=
  match o with
  | Undelegate _ _ op _ n tx => negb (has_key (ur s) (join4 op (hexZ (height s)) (hexZ n) tx))
  | GenesisLoad r => negb (has_key (ur s) (rkey r))
  | _ => true
  end.

Fixpoint hist_ok (s : st) (ops : list op) : bool :=
  match ops with
  | [] => true
  | o :: r => wf_op o && fresh_op s o && hist_ok (fst (step s o)) r
  end.

Lemma has_key_false {V} (s : store V) k : negb (has_key s k) = true -> sget s k = None.
Proof. unfold has_key. destruct (sget s k); [discriminate|reflexivity]. Qed.

Lemma allv_map_vals {V} (f : V -> bool) (g : string -> V -> V) (s : store V) :
  allv f s = true -> (forall k v, f v = true -> f (g k v) = true) ->
  allv f (map (fun kv => (fst kv, g (fst kv) (snd kv))) s) = true.
Proof.
  unfold allv. intros H Hg. induction s as [|[k v] r IH]; simpl in *; [reflexivity|].
  apply andb_prop in H. destruct H as [H1 H2]. rewrite (Hg _ _ H1), (IH H2). reflexivity.
Qed.

Lemma slash_idx s op eh prop s' : idx_inv s -> slash s op eh prop = Some s' -> idx_inv s'.
Proof.
  intros (Su & Sp & K & Ip & W & Hh) H. unfold slash in H.
  destruct ((prop <? 0) || (prop >? P)); [discriminate|].
  destruct (slash_pools op prop (oa s) (dg s) (sl s)) as [[[o' d'] l'] ev2].
  destruct (eh <=? height s) eqn:Eh.
  - pose proof (slash_records_map op eh prop (ur s)) as M.
    destruct (slash_records op eh prop (ur s)) as [u' ev1]. simpl in M. subst u'.
    inversion H; subst; clear H. unfold idx_inv. simpl. repeat split.
    + unfold sorted. rewrite skeys_map_vals. exact Su.
    + exact Sp.
    + intros k r G. rewrite sget_map_vals in G. destruct (sget (ur s) k) as [r0|] eqn:E; [|discriminate].
      simpl in G. inversion G; subst. destruct (slash_rec_fun_keys op eh prop k r0) as (A & _). rewrite A. apply K; assumption.
    + intros k rk G. destruct (Ip _ _ G) as (r & G2 & ->).
      exists (slash_rec_fun op eh prop rk r). rewrite sget_map_vals, G2. simpl. split; [reflexivity|].
      destruct (slash_rec_fun_keys op eh prop rk r) as (_ & B & _). rewrite B. reflexivity.
    + apply allv_map_vals; [assumption|]. intros k v Hv.
      destruct (slash_rec_fun_keys op eh prop k v) as (_ & _ & C & _). rewrite C. assumption.
    + assumption.
  - inversion H; subst; clear H. unfold idx_inv. simpl. repeat split; assumption.
Qed.

Lemma deposit_frame_lst s st a x s' : deposit_lst s st a x = Some s' -> ur s' = ur s /\ pidx s' = pidx s /\ height s' = height s.
Proof.
  unfold deposit_lst. intro H. dmatch H. inversion H; subst; clear H.
  apply upd_sa_spec in Heqo0. destruct Heqo0 as (r' & -> & _).
  apply upd_tot_spec in Heqo1. destruct Heqo1 as (t & t' & _ & _ & _ & ->). simpl. auto.
Qed.
Lemma deposit_frame s st a x s' : deposit s st a x = Some s' -> ur s' = ur s /\ pidx s' = pidx s /\ height s' = height s.
Proof.
  intro H. apply deposit_shape in H. destruct H as [(_ & ->)|(_ & H)]; [auto|]. eapply deposit_frame_lst; eauto.
Qed.
Lemma withdraw_frame_lst s st a x s' : withdraw_lst s st a x = Some s' -> ur s' = ur s /\ pidx s' = pidx s /\ height s' = height s.
Proof.
  unfold withdraw_lst. intro H. dmatch H. inversion H; subst; clear H.
  apply upd_sa_spec in Heqo0. destruct Heqo0 as (r' & -> & _).
  apply upd_tot_spec in Heqo1. destruct Heqo1 as (t & t' & _ & _ & _ & ->). simpl. auto.
Qed.
Lemma withdraw_frame s st a x s' : withdraw s st a x = Some s' -> ur s' = ur s /\ pidx s' = pidx s /\ height s' = height s.
Proof.
  intro H. apply withdraw_shape in H. destruct H as [(_ & ->)|(_ & H)]; [auto|]. eapply withdraw_frame_lst; eauto.
Qed.

Lemma append_staker_frame s k x :
  ur (append_staker s k x) = ur s /\ pidx (append_staker s k x) = pidx s /\ height (append_staker s k x) = height s.
Proof. unfold append_staker. destruct (mem x _); simpl; auto. Qed.

Lemma delegate_frame s st a op x s' : delegate s st a op x = Some s' -> ur s' = ur s /\ pidx s' = pidx s /\ height s' = height s.
Proof.
  unfold delegate. intro H.
  destruct (x <=? 0); [discriminate|]. destruct (negb (mem op (operators s))); [discriminate|].
  destruct (take_from_staker s st a x) as [s1|] eqn:E1; [|discriminate].
  match type of H with match ?e with _ => _ end = _ => destruct e as [sh|]; [|discriminate] end.
  destruct (upd_oa s1 (oa_key op a) x 0 sh 0) as [s2|] eqn:E2; [|discriminate].
  destruct (upd_dg s2 (dg_key st a op) sh 0) as [[s3 z]|] eqn:E3; [|discriminate].
  inversion H; subst; clear H.
  destruct (append_staker_frame s3 (oa_key op a) st) as (-> & -> & ->).
  apply take_frame in E1. apply upd_oa_frame in E2. apply upd_dg_frame in E3.
  destruct E1 as (? & ? & ? & _), E2 as (? & ? & ? & _), E3 as (? & ? & ? & _). repeat split; congruence.
Qed.

Lemma delete_staker_frame s k x s' : delete_staker s k x = Some s' -> ur s' = ur s /\ pidx s' = pidx s /\ height s' = height s.
Proof. unfold delete_staker. destruct (sget (sl s) k); [|discriminate]. intro H; inversion H; subst. simpl. auto. Qed.

Lemma hold_inc_frame s rk : ur (fst (hold_inc s rk)) = ur s /\ pidx (fst (hold_inc s rk)) = pidx s /\ height (fst (hold_inc s rk)) = height s.
Proof. unfold hold_inc. destruct (_ =? _); simpl; auto. Qed.
Lemma hold_dec_frame s rk : ur (fst (hold_dec s rk)) = ur s /\ pidx (fst (hold_dec s rk)) = pidx s /\ height (fst (hold_dec s rk)) = height s.
Proof. unfold hold_dec. destruct (_ =? _); simpl; auto. Qed.

(* the record created by an accepted undelegation, and the state just before it is stored *)
Lemma undelegate_shape s st a op x n tx s' r : undelegate s st a op x n tx = Some (s', r) ->
  exists s4 s5 tok, ur s4 = ur s /\ pidx s4 = pidx s /\ height s4 = height s /\
    r = mkUR st a op tx (height s) (height s + unbonding) n tok tok /\ set_record s4 r = Some s5 /\
    ur s' = ur s5 /\ pidx s' = pidx s5 /\ height s' = height s5.
Proof.
  intro H. unfold undelegate in H.
  destruct (x <=? 0); [discriminate|]. destruct (negb (mem op (operators s))); [discriminate|].
  destruct (sget (dg s) (dg_key st a op)) as [d|]; [|discriminate].
  destruct (sget (oa s) (oa_key op a)) as [o|] eqn:Eo; [|discriminate].
  destruct (shares_from_tokens (oa_tsh o) x (oa_amt o)) as [sh0|]; [|discriminate].
  match type of H with (if ?c then _ else _) = _ => destruct c; [discriminate|] end.
  destruct (shares_from_tokens (oa_tsh o) 1 (oa_amt o)) as [tol|]; [|discriminate].
  set (sh := if sh0 >? dg_sh d then dg_sh d else if dg_sh d - sh0 <? tol then dg_sh d else sh0) in *.
  destruct (sh <=? 0); [discriminate|]. destruct (sh >? oa_tsh o); [discriminate|].
  match type of H with match ?e with _ => _ end = _ => destruct e as [tok|]; [|discriminate] end.
  destruct (upd_oa s (oa_key op a) (- tok) tok (- sh) 0) as [s1|] eqn:E1; [|discriminate].
  destruct (book_pending s1 st a tok) as [s2|] eqn:E2; [|discriminate].
  destruct (upd_dg s2 (dg_key st a op) (- sh) tok) as [[s3 z]|] eqn:E3; [|discriminate].
  match type of H with match ?e with _ => _ end = _ => destruct e as [s4|] eqn:E4; [|discriminate] end.
  match type of H with match set_record s4 ?rr with _ => _ end = _ => set (r0 := rr) in *;
    destruct (set_record s4 r0) as [s5|] eqn:E5; [|discriminate] end.
  apply upd_oa_frame in E1. apply book_frame in E2. apply upd_dg_frame in E3.
  destruct E1 as (? & ? & ? & _), E2 as (? & ? & ? & _), E3 as (? & ? & ? & _).
  assert (ur s4 = ur s3 /\ pidx s4 = pidx s3 /\ height s4 = height s3) as (? & ? & ?).
  { destruct z; [eapply delete_staker_frame; eauto | inversion E4; subst; auto]. }
  exists s4, s5, tok.
  destruct (mem op (validators s)).
  - pose proof (hold_inc_frame s5 (rkey r0)) as (? & ? & ?).
    destruct (hold_inc s5 (rkey r0)) as [s6 [| |]]; try discriminate. inversion H; subst. simpl in *.
    repeat split; try congruence.
  - inversion H; subst. repeat split; try congruence.
Qed.

Lemma undelegate_idx s st a op x n tx s' r :
  idx_inv s -> wf_op (Undelegate st a op x n tx) = true -> fresh_op s (Undelegate st a op x n tx) = true ->
  undelegate s st a op x n tx = Some (s', r) -> idx_inv s'.
Proof.
  intros I Wf Fr H. apply undelegate_shape in H.
  destruct H as (s4 & s5 & tok & U4 & P4 & H4 & -> & E5 & U' & P' & H').
  simpl in Wf, Fr. rewrite !andb_true_iff in Wf. destruct Wf as [[W1 W2] W3]. apply Z.leb_le in W3.
  apply has_key_false in Fr.
  assert (idx_inv s4) as I4 by (eapply (idx_inv_ext s s4); eauto).
  pose proof I as (_ & _ & _ & _ & _ & Hh).
  eapply (idx_inv_ext s5 s'); eauto.
  eapply set_record_idx; [exact I4 | | | exact E5].
  - unfold rec_wf. simpl. rewrite W1, W2. simpl. rewrite !andb_true_iff, !Z.leb_le. unfold unbonding. lia.
  - rewrite U4. exact Fr.
Qed.

Lemma genesis_load_idx s r : idx_inv s -> rec_wf r = true -> negb (has_key (ur s) (rkey r)) = true ->
  idx_inv (fst (genesis_load s r)).
Proof.
  intros I Wr Fr. apply has_key_false in Fr. unfold genesis_load.
  destruct ((ur_amt r <=? 0) || negb (ur_act r =? ur_amt r)); [exact I|].
  destruct (deposit s (ur_staker r) (ur_asset r) (ur_amt r)) as [s1|] eqn:E0; [|exact I].
  destruct (upd_sa s1 _ 0 (- ur_amt r) (ur_amt r)) as [s2|] eqn:E1; [|exact I].
  destruct (upd_oa s2 _ 0 (ur_amt r) 0 0) as [s3|] eqn:E2; [|exact I].
  destruct (upd_dg s3 _ 0 (ur_amt r)) as [[s4 z]|] eqn:E3; [|exact I].
  destruct (set_record s4 r) as [s5|] eqn:E4; [|exact I]. simpl.
  apply deposit_frame in E0. apply upd_sa_frame in E1. apply upd_oa_frame in E2. apply upd_dg_frame in E3.
  destruct E0 as (? & ? & ?), E1 as (? & ? & ? & _), E2 as (? & ? & ? & _), E3 as (? & ? & ? & _).
  eapply set_record_idx; [ | exact Wr | | exact E4].
  - eapply (idx_inv_ext s s4); [congruence|congruence|congruence|exact I].
  - replace (ur s4) with (ur s) by congruence. exact Fr.
Qed.

Lemma step_idx s o : idx_inv s -> wf_op o = true -> fresh_op s o = true -> idx_inv (fst (step s o)).
Proof.
  intros I Wf Fr. destruct o; simpl.
  - destruct (deposit s staker asset x) as [s'|] eqn:E; simpl; [|exact I].
    apply deposit_frame in E. destruct E as (? & ? & ?). eapply (idx_inv_ext s s'); eauto.
  - destruct (withdraw s staker asset x) as [s'|] eqn:E; simpl; [|exact I].
    apply withdraw_frame in E. destruct E as (? & ? & ?). eapply (idx_inv_ext s s'); eauto.
  - destruct (delegate s staker asset operator x) as [s'|] eqn:E; simpl; [|exact I].
    apply delegate_frame in E. destruct E as (? & ? & ?). eapply (idx_inv_ext s s'); eauto.
  - destruct (undelegate s staker asset operator x nonce tx) as [[s' r]|] eqn:E; simpl; [|exact I].
    eapply undelegate_idx; eauto.
  - simpl in Wf. apply andb_prop in Wf. destruct Wf as [Wr _]. apply genesis_load_idx; assumption.
  - destruct prop as [p|]; simpl; [|exact I].
    destruct (slash s operator eh p) as [s'|] eqn:E; simpl; [|exact I]. eapply slash_idx; eauto.
  - pose proof (hold_inc_frame s rk) as (? & ? & ?). eapply (idx_inv_ext s); eauto.
  - pose proof (hold_dec_frame s rk) as (? & ? & ?). eapply (idx_inv_ext s); eauto.
  - destruct (end_block_idx (fun _ => True) (fun _ _ _ _ _ => Logic.I) (fun _ _ _ => Logic.I) s I Logic.I) as (A & _). exact A.
  - destruct (nst_balance s staker asset x) as [s'|] eqn:E; simpl; [|exact I]. eapply nst_balance_idx; eauto.
  - exact I.
Qed.
