(* Ledger/Ledger.v — executable model of the restaking ledger (x/assets + x/delegation + the slash effect of
   x/operator), shared by C01 and C03.  Definitions only; proofs live in Ledger/LedgerLemmas.v and C01|C03/Proofs.v.

   Transcribed from
     x/assets/keeper/bank.go                PerformDepositOrWithdraw
     x/assets/keeper/staker_asset.go        UpdateStakerAssetState, GetStakerSpecifiedAssetInfo (non-native branch)
     x/assets/keeper/operator_asset.go      UpdateOperatorAssetState, IterateAssetsForOperator
     x/assets/keeper/client_chain_asset.go  UpdateStakingAssetTotalAmount, IsStakingAsset
     x/assets/types/general.go              UpdateAssetValue, UpdateAssetDecValue
     x/delegation/keeper/delegation.go      delegateTo, UndelegateFrom
     x/delegation/keeper/share.go           TokensFromShares, SharesFromTokens, CalculateShare,
                                            ValidateUndelegationAmount, RemoveShareFromOperator, RemoveShare
     x/delegation/keeper/delegation_state.go UpdateDelegationState, Append/DeleteStakerForOperator, SetStakerShareToZero
     x/delegation/keeper/un_delegation_state.go  SetUndelegationRecords, DeleteUndelegationRecord,
                                            GetPendingUndelegationRecKeys, GetUndelegationRecords,
                                            IterateUndelegationsByOperator, Increment/DecrementUndelegationHoldCount
     x/delegation/keeper/abci.go            EndBlock
     x/delegation/keeper/genesis.go         InitGenesis (undelegation part)
     x/delegation/types/keys.go             the key constructors
     x/operator/keeper/slash.go             SlashFromUndelegation, SlashAssets (the part after the proportion is known; the
                                            undelegation walk runs when SlashEventHeight <= BlockHeight, fix 9b113a9)
     x/delegation/keeper/update_native_restaking_balance.go  UpdateNSTBalance (op NstBalance: correspondence and monitors
                                            only, the theorems are about histories without it, see wf_op)
     x/dogfood/keeper/impl_delegation_hooks.go AfterUndelegationStarted (hold placed iff the operator is an active validator)

   Stores are key-sorted association lists keyed by the REAL key strings (Base/Store.v); iteration order is byte order.
   Amounts (sdk.Int) are Z; shares (LegacyDec) are Z scaled by 10^18 (Base/IntDec.v).
   Every entry point runs in a cache context that is committed only on success (the harness does the same), so a
   rejected / panicking operation leaves the state unchanged. *)
From Coq Require Import List String Ascii Bool ZArith NArith Lia Hexadecimal HexadecimalString.
From Exo Require Import Base.Store Base.IntDec Base.Util.
Import ListNotations.
Local Open Scope string_scope.
Local Open Scope Z_scope.

(* ---------- key encoding ---------- *)

(* hexutil.EncodeUint64: "0x" + lower-case hex without leading zeros, "0x0" for 0 *)
Definition hexN (n : N) : string := "0x" ++ NilEmpty.string_of_uint (N.to_hex_uint n).
Definition hexZ (z : Z) : string := hexN (Z.to_N z).

Definition slash_c : ascii := "/"%char.
Definition join2 (a b : string) : string := a ++ "/" ++ b.
Definition join3 (a b c : string) : string := a ++ "/" ++ b ++ "/" ++ c.
Definition join4 (a b c d : string) : string := a ++ "/" ++ b ++ "/" ++ c ++ "/" ++ d.

(* split at the first "/" : ParseJoinedKey component 0 and the rest *)
Fixpoint split1 (s : string) : string * string :=
  match s with
  | EmptyString => (EmptyString, EmptyString)
  | String c r => if Ascii.eqb c slash_c then (EmptyString, r)
                  else let '(a, b) := split1 r in (String c a, b)
  end.
Definition key_asset (k : string) : string := snd (split1 k).   (* second component of "x/asset" *)

Fixpoint no_slash (s : string) : bool :=
  match s with
  | EmptyString => true
  | String c r => negb (Ascii.eqb c slash_c) && no_slash r
  end.

(* bytes.HasPrefix, as used by sdk.KVStorePrefixIterator *)
Fixpoint is_prefix (p s : string) : bool :=
  match p, s with
  | EmptyString, _ => true
  | String a p', String b s' => Ascii.eqb a b && is_prefix p' s'
  | String _ _, EmptyString => false
  end.

Definition prefix_iter {V} (p : string) (s : store V) : list (string * V) :=
  filter (fun kv => is_prefix p (fst kv)) s.

(* ---------- rows ---------- *)

Record sa_row := mkSA { sa_total : Z; sa_wd : Z; sa_pend : Z }.             (* StakerAssetInfo *)
Record oa_row := mkOA { oa_amt : Z; oa_pend : Z; oa_tsh : Z; oa_osh : Z }.  (* OperatorAssetInfo; shares scaled *)
Record dg_row := mkDG { dg_sh : Z; dg_wait : Z }.                            (* DelegationAmounts *)
Record urec := mkUR {
  ur_staker : string; ur_asset : string; ur_op : string; ur_tx : string;
  ur_bn : Z;           (* BlockNumber *)
  ur_cn : Z;           (* CompleteBlockNumber *)
  ur_nonce : Z;        (* LzTxNonce *)
  ur_amt : Z;          (* Amount *)
  ur_act : Z           (* ActualCompletedAmount *)
}.

(* ghost history: what the ledger was told to add / remove, per asset *)
Inductive gev :=
| GDep (a : string) (x : Z)      (* deposited (incl. genesis-loaded deposits) *)
| GWdr (a : string) (x : Z)      (* withdrawn *)
| GSl (a : string) (x : Z)       (* removed by slashing (pool or pending record) *)
| GLost (a : string) (x : Z)     (* owed amount of a record that was overwritten by another record with the same key *)
| GNstP (a : string) (x : Z)     (* positive native-restaking balance adjustment (virtual deposit) *)
| GNstM (a : string) (x : Z)     (* amount removed by a negative native-restaking balance adjustment *)
| GEscIn (a : string) (x : Z)    (* native token moved from a staker's bank account into the delegation escrow (delegation) *)
| GEscOut (a : string) (x : Z).  (* native token paid out of the escrow to the staker (completed undelegation) *)

Record st := mkSt {
  height : Z;
  operators : list string;          (* registered operators (x/operator IsOperator) *)
  validators : list string;         (* operators for which the dogfood hook places a hold *)
  sa : store sa_row;                (* staker/asset *)
  oa : store oa_row;                (* operator/asset *)
  tot : store Z;                    (* asset -> StakingTotalAmount (key present = IsStakingAsset) *)
  dg : store dg_row;                (* staker/asset/operator *)
  sl : store (list string);         (* operator/asset -> staker list *)
  ur : store urec;                  (* operator/hex(height)/hex(nonce)/txhash -> record *)
  sidx : store string;              (* staker/asset/hex(nonce) -> record key *)
  pidx : store string;              (* hex(completeHeight)/hex(nonce) -> record key *)
  hold : store Z;                   (* record key -> hold count (uint64) *)
  glog : list gev;
  bank : store Z                    (* x/bank balances of the base denom: native stakers (keyed by staker id) and the delegated_tokens_pool module account *)
}.

Definition w_height h s := mkSt h (operators s) (validators s) (sa s) (oa s) (tot s) (dg s) (sl s) (ur s) (sidx s) (pidx s) (hold s) (glog s) (bank s).
Definition w_sa x s := mkSt (height s) (operators s) (validators s) x (oa s) (tot s) (dg s) (sl s) (ur s) (sidx s) (pidx s) (hold s) (glog s) (bank s).
Definition w_oa x s := mkSt (height s) (operators s) (validators s) (sa s) x (tot s) (dg s) (sl s) (ur s) (sidx s) (pidx s) (hold s) (glog s) (bank s).
Definition w_tot x s := mkSt (height s) (operators s) (validators s) (sa s) (oa s) x (dg s) (sl s) (ur s) (sidx s) (pidx s) (hold s) (glog s) (bank s).
Definition w_dg x s := mkSt (height s) (operators s) (validators s) (sa s) (oa s) (tot s) x (sl s) (ur s) (sidx s) (pidx s) (hold s) (glog s) (bank s).
Definition w_sl x s := mkSt (height s) (operators s) (validators s) (sa s) (oa s) (tot s) (dg s) x (ur s) (sidx s) (pidx s) (hold s) (glog s) (bank s).
Definition w_ur x s := mkSt (height s) (operators s) (validators s) (sa s) (oa s) (tot s) (dg s) (sl s) x (sidx s) (pidx s) (hold s) (glog s) (bank s).
Definition w_sidx x s := mkSt (height s) (operators s) (validators s) (sa s) (oa s) (tot s) (dg s) (sl s) (ur s) x (pidx s) (hold s) (glog s) (bank s).
Definition w_pidx x s := mkSt (height s) (operators s) (validators s) (sa s) (oa s) (tot s) (dg s) (sl s) (ur s) (sidx s) x (hold s) (glog s) (bank s).
Definition w_hold x s := mkSt (height s) (operators s) (validators s) (sa s) (oa s) (tot s) (dg s) (sl s) (ur s) (sidx s) (pidx s) x (glog s) (bank s).
Definition w_glog x s := mkSt (height s) (operators s) (validators s) (sa s) (oa s) (tot s) (dg s) (sl s) (ur s) (sidx s) (pidx s) (hold s) x (bank s).
Definition w_bank x s := mkSt (height s) (operators s) (validators s) (sa s) (oa s) (tot s) (dg s) (sl s) (ur s) (sidx s) (pidx s) (hold s) (glog s) x.
Definition log_ev (e : gev) (s : st) : st := w_glog (e :: glog s) s.

Definition mem (x : string) (l : list string) : bool := existsb (String.eqb x) l.

(* ---------- keys (x/delegation/types/keys.go, x/assets GetJoinedStoreKey) ---------- *)
Definition sa_key (staker asset : string) := join2 staker asset.
Definition oa_key (op asset : string) := join2 op asset.
Definition dg_key (staker asset op : string) := join3 staker asset op.
Definition rkey (r : urec) : string := join4 (ur_op r) (hexZ (ur_bn r)) (hexZ (ur_nonce r)) (ur_tx r).
Definition skey (r : urec) : string := join3 (ur_staker r) (ur_asset r) (hexZ (ur_nonce r)).
Definition pkey_of (cn nonce : Z) : string := join2 (hexZ cn) (hexZ nonce).
Definition pkey (r : urec) : string := pkey_of (ur_cn r) (ur_nonce r).

(* ---------- UpdateAssetValue / UpdateAssetDecValue ---------- *)
Definition upd_val (v d : Z) : option Z :=
  if (d <? 0) && (v <? - d) then None else Some (v + d).

(* UpdateStakerAssetState *)
Definition upd_sa (s : st) (k : string) (dt dw dp : Z) : option st :=
  let r := match sget (sa s) k with Some r => r | None => mkSA 0 0 0 end in
  match upd_val (sa_total r) dt with None => None | Some t =>
  match upd_val (sa_wd r) dw with None => None | Some w =>
  match upd_val (sa_pend r) dp with None => None | Some p =>
  Some (w_sa (sset (sa s) k (mkSA t w p)) s) end end end.

(* UpdateOperatorAssetState *)
Definition upd_oa (s : st) (k : string) (da dp dts dos : Z) : option st :=
  let r := match sget (oa s) k with Some r => r | None => mkOA 0 0 0 0 end in
  match upd_val (oa_amt r) da with None => None | Some a =>
  match upd_val (oa_pend r) dp with None => None | Some p =>
  match upd_val (oa_tsh r) dts with None => None | Some ts =>
  match upd_val (oa_osh r) dos with None => None | Some os =>
  Some (w_oa (sset (oa s) k (mkOA a p ts os)) s) end end end end.

(* UpdateDelegationState; the bool is shareIsZero *)
Definition upd_dg (s : st) (k : string) (dsh dwait : Z) : option (st * bool) :=
  let r := match sget (dg s) k with Some r => r | None => mkDG 0 0 end in
  match upd_val (dg_wait r) dwait with None => None | Some w =>
  match upd_val (dg_sh r) dsh with None => None | Some sh =>
  Some (w_dg (sset (dg s) k (mkDG sh w)) s, sh =? 0) end end.

(* UpdateStakingAssetTotalAmount *)
Definition upd_tot (s : st) (asset : string) (d : Z) : option st :=
  match sget (tot s) asset with
  | None => None
  | Some t => match upd_val t d with None => None | Some t' => Some (w_tot (sset (tot s) asset t') s) end
  end.

(* ---------- share arithmetic (share.go) ---------- *)
Definition tokens_from_shares (sh tsh amt : Z) : option Z :=
  if sh >? tsh then None
  else if tsh =? 0 then (if amt =? 0 then Some 0 else None)
  else Some (dec_trunc_int (dec_quo (dec_mul_int sh amt) tsh)).

Definition shares_from_tokens (tsh x amt : Z) : option Z :=
  if amt =? 0 then (if tsh =? 0 then Some 0 else None)
  else Some (dec_quo_int (dec_mul_int tsh x) amt).

(* ---------- undelegation record storage ---------- *)
(* SetUndelegationRecords for one record *)
Definition set_record (s : st) (r : urec) : option st :=
  if ur_cn r <? height s then None
  else
    let rk := rkey r in
    let s1 := match sget (ur s) rk with
              | Some old => log_ev (GLost (ur_asset old) (ur_act old)) s     (* overwritten record: ghost only *)
              | None => s
              end in
    Some (w_pidx (sset (pidx s1) (pkey r) rk) (w_sidx (sset (sidx s1) (skey r) rk) (w_ur (sset (ur s1) rk r) s1))).

(* DeleteUndelegationRecord *)
Definition del_record (s : st) (r : urec) : st :=
  w_pidx (sdel (pidx s) (pkey r)) (w_sidx (sdel (sidx s) (skey r)) (w_ur (sdel (ur s) (rkey r)) s)).

Definition hold_count (s : st) (rk : string) : Z :=
  match sget (hold s) rk with Some n => n | None => 0 end.

Definition max_u64 : Z := 18446744073709551615.

Inductive res := ROk | RErr | RPanic.

Definition hold_inc (s : st) (rk : string) : st * res :=
  let prev := hold_count s rk in
  if prev =? max_u64 then (s, RErr) else (w_hold (sset (hold s) rk (prev + 1)) s, ROk).

Definition hold_dec (s : st) (rk : string) : st * res :=
  let prev := hold_count s rk in
  if prev =? 0 then (s, RErr) else (w_hold (sset (hold s) rk (prev - 1)) s, ROk).

(* ---------- the native token (x/assets ExocoreAssetID) and the bank ---------- *)
Definition native_id : string := "0x0000000000000000000000000000000000000000_0x0".
Definition pool_key : string := "delegated_tokens_pool".     (* delegationtypes.DelegatedPoolName, the escrow module account *)
Definition is_native (a : string) : bool := String.eqb a native_id.
Definition bank_bal (s : st) (k : string) : Z := match sget (bank s) k with Some b => b | None => 0 end.

(* bank (Un)DelegateCoinsFromAccountToModule / FromModuleToAccount for one coin of the base denom: fails when the
   sender's balance is insufficient *)
Definition bank_send (s : st) (from to : string) (x : Z) : option st :=
  match sget (bank s) from with
  | None => None
  | Some b =>
      if b <? x then None
      else let b1 := sset (bank s) from (b - x) in
           let t := match sget b1 to with Some y => y | None => 0 end in
           Some (w_bank (sset b1 to (t + x)) s)
  end.

(* the three places where the native token and the other assets differ *)
(* delegateTo: take x from the staker - withdrawable balance of the staker row, or bank account -> escrow *)
Definition take_from_staker (s : st) (staker asset : string) (x : Z) : option st :=
  if is_native asset
  then option_map (log_ev (GEscIn asset x)) (bank_send s staker pool_key x)
  else match sget (sa s) (sa_key staker asset) with
       | None => None
       | Some info => if sa_wd info <? x then None else upd_sa s (sa_key staker asset) 0 (- x) 0
       end.
(* RemoveShare(isUndelegation): the staker row's pending figure (no row for the native token) *)
Definition book_pending (s : st) (staker asset : string) (tok : Z) : option st :=
  if is_native asset then Some s else upd_sa s (sa_key staker asset) 0 0 tok.
(* EndBlock: pay a completed undelegation - credit the staker row, or escrow -> bank account *)
Definition pay_staker (s : st) (r : urec) : option st :=
  if is_native (ur_asset r)
  then option_map (log_ev (GEscOut (ur_asset r) (ur_act r))) (bank_send s pool_key (ur_staker r) (ur_act r))
  else upd_sa s (sa_key (ur_staker r) (ur_asset r)) 0 (ur_act r) (- ur_amt r).

(* ---------- operations ---------- *)

(* PerformDepositOrWithdraw, LST deposit *)
Definition deposit_lst (s : st) (staker asset : string) (x : Z) : option st :=
  if x <? 0 then None
  else match sget (tot s) asset with None => None | Some _ =>
  match upd_sa s (sa_key staker asset) x x 0 with None => None | Some s1 =>
  match upd_tot s1 asset x with None => None | Some s2 => Some (log_ev (GDep asset x) s2) end end end.

Definition withdraw_lst (s : st) (staker asset : string) (x : Z) : option st :=
  if x <? 0 then None
  else match sget (tot s) asset with None => None | Some _ =>
  match upd_sa s (sa_key staker asset) (- x) (- x) 0 with None => None | Some s1 =>
  match upd_tot s1 asset (- x) with None => None | Some s2 => Some (log_ev (GWdr asset x) s2) end end end.

(* for the native token PerformDepositOrWithdraw checks the amount and the registration and then changes nothing
   ("don't update staker info for exo-native-token") *)
Definition deposit_native (s : st) (asset : string) (x : Z) : option st :=
  if x <? 0 then None else match sget (tot s) asset with None => None | Some _ => Some s end.
Definition deposit (s : st) (staker asset : string) (x : Z) : option st :=
  if is_native asset then deposit_native s asset x else deposit_lst s staker asset x.
Definition withdraw (s : st) (staker asset : string) (x : Z) : option st :=
  if is_native asset then deposit_native s asset x else withdraw_lst s staker asset x.

(* AppendStakerForOperator *)
Definition append_staker (s : st) (k staker : string) : st :=
  let l := match sget (sl s) k with Some l => l | None => [] end in
  if mem staker l then s else w_sl (sset (sl s) k (l ++ [staker])%list) s.

Fixpoint remove_first (x : string) (l : list string) : list string :=
  match l with
  | [] => []
  | y :: r => if String.eqb y x then r else y :: remove_first x r
  end.

(* DeleteStakerForOperator *)
Definition delete_staker (s : st) (k staker : string) : option st :=
  match sget (sl s) k with
  | None => None
  | Some l => Some (w_sl (sset (sl s) k (remove_first staker l)) s)
  end.

(* delegateTo (notGenesis = true, LST branch, staker without an associated operator) *)
Definition delegate (s : st) (staker asset op : string) (x : Z) : option st :=
  if x <=? 0 then None
  else if negb (mem op (operators s)) then None
  else
  match take_from_staker s staker asset x with None => None | Some s1 =>
  let share :=
    match sget (oa s1) (oa_key op asset) with
    | None => Some (dec_of_int x)
    | Some o => if oa_tsh o =? 0 then Some (dec_of_int x) else shares_from_tokens (oa_tsh o) x (oa_amt o)
    end in
  match share with None => None | Some sh =>
  match upd_oa s1 (oa_key op asset) x 0 sh 0 with None => None | Some s2 =>
  match upd_dg s2 (dg_key staker asset op) sh 0 with None => None | Some (s3, _) =>
  Some (append_staker s3 (oa_key op asset) staker) end end end end.

Definition unbonding : Z := 10.   (* operatortypes.UnbondingExpiration *)

(* UndelegateFrom; result: new state and the record created *)
Definition undelegate (s : st) (staker asset op : string) (x nonce : Z) (tx : string) : option (st * urec) :=
  if x <=? 0 then None
  else if negb (mem op (operators s)) then None
  else
  (* ValidateUndelegationAmount *)
  match sget (dg s) (dg_key staker asset op) with None => None | Some d =>
  match sget (oa s) (oa_key op asset) with None => None | Some o =>
  match shares_from_tokens (oa_tsh o) x (oa_amt o) with None => None | Some sh0 =>
  (* the share check (fix 56b99a6): a request whose converted share exceeds the staker's share by rounding dust but
     whose amount is within the reported position is an undelegation of the whole position; above the position: rejected *)
  let over := sh0 >? dg_sh d in
  let within := match tokens_from_shares (dg_sh d) (oa_tsh o) (oa_amt o) with Some pos => x <=? pos | None => false end in
  if over && negb within then None else
  match shares_from_tokens (oa_tsh o) 1 (oa_amt o) with None => None | Some tol =>
  let sh := if over then dg_sh d else if dg_sh d - sh0 <? tol then dg_sh d else sh0 in
  (* RemoveShare / RemoveShareFromOperator *)
  if sh <=? 0 then None
  else if sh >? oa_tsh o then None
  else
  match (if oa_tsh o =? sh then Some (oa_amt o) else tokens_from_shares sh (oa_tsh o) (oa_amt o)) with
  | None => None | Some tok =>
  match upd_oa s (oa_key op asset) (- tok) tok (- sh) 0 with None => None | Some s1 =>
  match book_pending s1 staker asset tok with None => None | Some s2 =>
  match upd_dg s2 (dg_key staker asset op) (- sh) tok with None => None | Some (s3, isz) =>
  match (if isz then delete_staker s3 (oa_key op asset) staker else Some s3) with None => None | Some s4 =>
  let r := mkUR staker asset op tx (height s) (height s + unbonding) nonce tok tok in
  match set_record s4 r with None => None | Some s5 =>
  (* AfterUndelegationStarted (dogfood): hold iff the operator is an active validator *)
  if mem op (validators s) then
    match hold_inc s5 (rkey r) with (s6, ROk) => Some (s6, r) | _ => None end
  else Some (s5, r)
  end end end end end end end end end end.

(* A genesis file that contains a deposit of x by [staker], delegated to [op] and now pending undelegation:
   assets genesis row + delegation genesis record (InitGenesis -> SetUndelegationRecords). The harness performs it
   with the real keepers: PerformDepositOrWithdraw, UpdateStakerAssetState, UpdateOperatorAssetState,
   UpdateDelegationState, delegation InitGenesis. InitGenesis panics when SetUndelegationRecords fails. *)
Definition genesis_load (s : st) (r : urec) : st * res :=
  let x := ur_amt r in
  if (x <=? 0) || negb (ur_act r =? x) then (s, RErr) else   (* a freshly loaded record is unslashed *)
  match deposit s (ur_staker r) (ur_asset r) x with None => (s, RErr) | Some s1 =>
  match upd_sa s1 (sa_key (ur_staker r) (ur_asset r)) 0 (- x) x with None => (s, RErr) | Some s2 =>
  match upd_oa s2 (oa_key (ur_op r) (ur_asset r)) 0 x 0 0 with None => (s, RErr) | Some s3 =>
  match upd_dg s3 (dg_key (ur_staker r) (ur_asset r) (ur_op r)) 0 x with None => (s, RErr) | Some (s4, _) =>
  match set_record s4 r with None => (s, RPanic) | Some s5 => (s5, ROk) end end end end end.

(* ---------- slash (SlashAssets once newSlashProportion is known) ---------- *)

(* SlashFromUndelegation *)
Definition slash_record (prop : Z) (r : urec) : urec * list gev :=
  if ur_act r =? 0 then (r, [])
  else
    let sa0 := dec_trunc_int (dec_mul_int prop (ur_amt r)) in
    let sa1 := if sa0 >=? ur_act r then ur_act r else sa0 in
    (mkUR (ur_staker r) (ur_asset r) (ur_op r) (ur_tx r) (ur_bn r) (ur_cn r) (ur_nonce r) (ur_amt r) (ur_act r - sa1),
     [GSl (ur_asset r) sa1]).

(* IterateUndelegationsByOperator(operator, &eventHeight, isUpdate = true, SlashFromUndelegation) *)
Fixpoint slash_records (op : string) (eh prop : Z) (u : store urec) : store urec * list gev :=
  match u with
  | [] => ([], [])
  | (k, r) :: rest =>
      let '(rest', ev') := slash_records op eh prop rest in
      if is_prefix op k && negb (ur_bn r <? eh) then
        let '(r', ev) := slash_record prop r in ((k, r') :: rest', (ev ++ ev')%list)
      else ((k, r) :: rest', ev')
  end.

(* SetStakerShareToZero *)
Definition zero_shares (d : store dg_row) (stakers : list string) (asset op : string) : store dg_row :=
  fold_left (fun d staker =>
               let k := dg_key staker asset op in
               match sget d k with
               | Some row => sset d k (mkDG 0 (dg_wait row))
               | None => d
               end) stakers d.

(* opFuncToIterateAssets of SlashAssets for one pool row *)
Definition slash_pool (op : string) (prop : Z) (k : string) (o : oa_row) (d : store dg_row) (l : store (list string))
  : oa_row * store dg_row * store (list string) * Z :=
  let asset := key_asset k in
  let x := dec_trunc_int (dec_mul_int prop (oa_amt o)) in
  let remaining := oa_amt o - x in
  let lk := oa_key op asset in
  match (if remaining =? 0 then sget l lk else None) with
  | Some stakers => (mkOA remaining (oa_pend o) 0 0, zero_shares d stakers asset op, sdel l lk, x)
  | None => (mkOA remaining (oa_pend o) (oa_tsh o) (oa_osh o), d, l, x)
  end.

(* the pool walk of SlashAssets: IterateAssetsForOperator(isUpdate = true, operator, nil, opFunc) *)
Fixpoint slash_pools (op : string) (prop : Z) (pools : store oa_row) (d : store dg_row) (l : store (list string))
  : store oa_row * store dg_row * store (list string) * list gev :=
  match pools with
  | [] => ([], d, l, [])
  | (k, o) :: rest =>
      if is_prefix op k then
        let '(o', d1, l1, x) := slash_pool op prop k o d l in
        let '(rest', d2, l2, ev) := slash_pools op prop rest d1 l1 in
        ((k, o') :: rest', d2, l2, GSl (key_asset k) x :: ev)
      else
        let '(rest', d2, l2, ev) := slash_pools op prop rest d l in
        ((k, o) :: rest', d2, l2, ev)
  end.

(* prop = newSlashProportion as computed by SlashAssets from USD values (input; 0 <= prop <= 1 is guaranteed by
   CheckSlashParameter + LegacyMinDec, which belong to C04's model) *)
Definition slash (s : st) (op : string) (eh prop : Z) : option st :=
  if (prop <? 0) || (prop >? P) then None else
  let '(u', ev1) := if eh <=? height s then slash_records op eh prop (ur s) else (ur s, []) in
  let '(o', d', l', ev2) := slash_pools op prop (oa s) (dg s) (sl s) in
  Some (w_glog ((ev1 ++ ev2) ++ glog s)%list (w_sl l' (w_dg d' (w_oa o' (w_ur u' s))))).

(* ---------- EndBlock (abci.go) ---------- *)

(* GetPendingUndelegationRecKeys: values under the prefix hex(height) ++ "/" in key order *)
Definition due_keys (h : Z) (p : store string) : list string :=
  map snd (prefix_iter (hexZ h ++ "/") p).

(* GetUndelegationRecords: any missing key is an error for the whole call *)
Fixpoint fetch (u : store urec) (ks : list string) : option (list urec) :=
  match ks with
  | [] => Some []
  | k :: r => match sget u k with
              | None => None
              | Some x => match fetch u r with None => None | Some l => Some (x :: l) end
              end
  end.

(* body of the loop for one (already fetched) record, in its own cache context *)
Definition process (s : st) (r : urec) : st :=
  if 0 <? hold_count s (rkey r) then
    let s1 := del_record s r in
    let r' := mkUR (ur_staker r) (ur_asset r) (ur_op r) (ur_tx r) (ur_bn r) (height s + 1) (ur_nonce r) (ur_amt r) (ur_act r) in
    match set_record s1 r' with None => s | Some s2 => s2 end
  else
    match upd_dg s (dg_key (ur_staker r) (ur_asset r) (ur_op r)) 0 (- ur_amt r) with None => s | Some (s1, _) =>
    match pay_staker s1 r with None => s | Some s2 =>
    match upd_oa s2 (oa_key (ur_op r) (ur_asset r)) 0 (- ur_amt r) 0 0 with None => s | Some s3 =>
    del_record s3 r end end end.

Definition end_block (s : st) : st :=
  let s' := match fetch (ur s) (due_keys (height s) (pidx s)) with
            | None => s
            | Some recs => fold_left process recs s
            end in
  w_height (height s + 1) s'.

(* ---------- UpdateNSTBalance (x/delegation/keeper/update_native_restaking_balance.go) ---------- *)
Definition with_act (r : urec) (act : Z) : urec :=
  mkUR (ur_staker r) (ur_asset r) (ur_op r) (ur_tx r) (ur_bn r) (ur_cn r) (ur_nonce r) (ur_amt r) act.

(* IterateUndelegationsByStakerAndAsset(isUpdate = true) with the closure of UpdateNSTBalance: walks the staker-index
   entries under staker/asset/ in key order, reads each record from the live store, lowers ActualCompletedAmount and
   the staker's TotalDepositAmount, writes the record back, stops when nothing is left to slash.
   One iteration (for the record key [rk], [pend] still to slash); result: state and what is still to slash.
   The ghost event books the amount to the asset of the record that was hit. *)
Definition nst_record_step (s : st) (sk : string) (pend : Z) (rk : string) : option (st * Z) :=
  match sget (ur s) rk with
  | None => None
  | Some r =>
      let pend' := pend - ur_act r in
      let sl := if 0 <? pend' then ur_act r else pend in
      match upd_sa s sk (- sl) 0 0 with
      | None => None
      | Some s1 => Some (log_ev (GNstM (ur_asset r) sl) (w_ur (sset (ur s1) rk (with_act r (ur_act r - sl))) s1), pend')
      end
  end.

Fixpoint nst_records (entries : list (string * string)) (s : st) (sk : string) (pend : Z) : option (st * Z) :=
  match entries with
  | [] => Some (s, pend)
  | (_, rk) :: rest =>
      match nst_record_step s sk pend rk with
      | None => None
      | Some (s2, pend') => if 0 <? pend' then nst_records rest s2 sk pend' else Some (s2, pend')
      end
  end.

Definition key_operator (k : string) : string := key_asset (key_asset k).   (* third component of staker/asset/operator *)

(* TotalDelegatedAmountForStakerAsset *)
Fixpoint nst_total (rows : list (string * dg_row)) (s : st) (asset : string) : option Z :=
  match rows with
  | [] => Some 0
  | (k, row) :: rest =>
      if dg_sh row =? 0 then nst_total rest s asset
      else match sget (oa s) (oa_key (key_operator k) asset) with
           | None => None
           | Some o => match tokens_from_shares (dg_sh row) (oa_tsh o) (oa_amt o), nst_total rest s asset with
                       | Some t, Some r => Some (t + r)
                       | _, _ => None
                       end
           end
  end.

(* the proportional removal from one delegation of the staker: RemoveShare(isUndelegation = false, ...) and the closure's
   TotalDepositAmount update; the ghost event books the removed tokens to the asset of the pool row that was hit *)
Definition nst_share_step (s : st) (staker asset : string) (prop : Z) (k : string) (row : dg_row) : option st :=
  let op := key_operator k in
  let sh := dec_mul (dg_sh row) prop in
  if sh <=? 0 then None
  else match sget (oa s) (oa_key op asset) with None => None | Some o =>
  if sh >? oa_tsh o then None else
  match (if oa_tsh o =? sh then Some (oa_amt o) else tokens_from_shares sh (oa_tsh o) (oa_amt o)) with None => None | Some tok =>
  match upd_oa s (oa_key op asset) (- tok) 0 (- sh) 0 with None => None | Some s1 =>
  match upd_dg s1 (dg_key staker asset op) (- sh) 0 with None => None | Some (s2, isz) =>
  match (if isz then delete_staker s2 (oa_key op asset) staker else Some s2) with None => None | Some s3 =>
  match upd_sa s3 (sa_key staker asset) (- tok) 0 0 with None => None | Some s4 =>
  Some (log_ev (GNstM (key_asset (oa_key op asset)) tok) s4) end end end end end end.

Fixpoint nst_shares (rows : list (string * dg_row)) (s : st) (staker asset : string) (prop : Z) : option st :=
  match rows with
  | [] => Some s
  | (k, row) :: rest =>
      match nst_share_step s staker asset prop k row with
      | None => None
      | Some s' => nst_shares rest s' staker asset prop
      end
  end.

Definition nst_balance (s : st) (staker asset : string) (x : Z) : option st :=
  let sk := sa_key staker asset in
  if 0 <? x then
    match upd_sa s sk x x 0 with None => None | Some s1 => Some (log_ev (GNstP asset x) s1) end
  else if x <? 0 then
    match sget (sa s) sk with None => None | Some info =>
    let pend0 := - x - sa_wd info in
    let sfw := if 0 <? pend0 then sa_wd info else - x in
    match upd_sa s sk (- sfw) (- sfw) 0 with None => None | Some s1' =>
    let s1 := log_ev (GNstM asset sfw) s1' in
    if 0 <? pend0 then
      match nst_records (prefix_iter (join2 staker asset ++ "/") (sidx s1)) s1 sk pend0 with None => None | Some (s2, pend1) =>
      if 0 <? pend1 then
        let rows := prefix_iter (join2 staker asset ++ "/") (dg s2) in
        match nst_total rows s2 asset with None => None | Some total =>
        if total =? 0 then Some s2
        else
          let p0 := dec_quo (dec_of_int pend1) (dec_of_int total) in
          let prop := if p0 >? P then P else p0 in
          nst_shares rows s2 staker asset prop
        end
      else Some s2
      end
    else Some s1
    end end
  else Some s.

(* ---------- the step function ---------- *)
Inductive op :=
| Deposit (staker asset : string) (x : Z)
| Withdraw (staker asset : string) (x : Z)
| Delegate (staker asset operator : string) (x : Z)
| Undelegate (staker asset operator : string) (x nonce : Z) (tx : string)
| GenesisLoad (r : urec)
| Slash (operator : string) (eh : Z) (prop : option Z)   (* None: rejected before the asset walk (C04's part) *)
| HoldInc (rk : string)
| HoldDec (rk : string)
| EndBlock
| NstBalance (staker asset : string) (x : Z)    (* DelegationKeeper.UpdateNSTBalance *)
| UpdateTokenMeta (asset : string).            (* AssetsKeeper.UpdateStakingAssetMetaInfo (the gateway's updateToken): rewrites the
                                                  asset's meta information only; an unregistered asset is rejected *)

Definition has_key_tot (s : st) (a : string) : bool := match sget (tot s) a with Some _ => true | None => false end.

Definition of_opt (s : st) (o : option st) : st * res :=
  match o with Some s' => (s', ROk) | None => (s, RErr) end.

Definition step (s : st) (o : op) : st * res :=
  match o with
  | Deposit a b x => of_opt s (deposit s a b x)
  | Withdraw a b x => of_opt s (withdraw s a b x)
  | Delegate a b c x => of_opt s (delegate s a b c x)
  | Undelegate a b c x n tx => of_opt s (option_map fst (undelegate s a b c x n tx))
  | GenesisLoad r => genesis_load s r
  | Slash o eh (Some p) => of_opt s (slash s o eh p)
  | Slash _ _ None => (s, RErr)
  | HoldInc rk => hold_inc s rk
  | HoldDec rk => hold_dec s rk
  | EndBlock => (end_block s, ROk)
  | NstBalance a b x => of_opt s (nst_balance s a b x)
  | UpdateTokenMeta a => (s, if has_key_tot s a then ROk else RErr)
  end.

Definition run (ops : list op) (s : st) : st := fold_left (fun s o => fst (step s o)) ops s.

Definition empty_st (h : Z) (ops vals assets : list string) : st :=
  mkSt h ops vals [] [] (of_list (map (fun a => (a, 0)) assets)) [] [] [] [] [] [] [] [].

(* ---------- observation: what the harness dumps ---------- *)
Definition sa_eqb (a b : sa_row) := (sa_total a =? sa_total b) && (sa_wd a =? sa_wd b) && (sa_pend a =? sa_pend b).
Definition oa_eqb (a b : oa_row) := (oa_amt a =? oa_amt b) && (oa_pend a =? oa_pend b) && (oa_tsh a =? oa_tsh b) && (oa_osh a =? oa_osh b).
Definition dg_eqb (a b : dg_row) := (dg_sh a =? dg_sh b) && (dg_wait a =? dg_wait b).
Definition ur_eqb (a b : urec) :=
  String.eqb (ur_staker a) (ur_staker b) && String.eqb (ur_asset a) (ur_asset b) && String.eqb (ur_op a) (ur_op b) &&
  String.eqb (ur_tx a) (ur_tx b) && (ur_bn a =? ur_bn b) && (ur_cn a =? ur_cn b) && (ur_nonce a =? ur_nonce b) &&
  (ur_amt a =? ur_amt b) && (ur_act a =? ur_act b).
Definition kv_eqb {V} (f : V -> V -> bool) (a b : string * V) := String.eqb (fst a) (fst b) && f (snd a) (snd b).
Definition store_eqb {V} (f : V -> V -> bool) (a b : store V) := list_eqb (kv_eqb f) a b.

(* raw stores of the implementation (iteration order = key order) *)
Record dump := mkDump {
  d_sa : store sa_row; d_oa : store oa_row; d_tot : store Z; d_dg : store dg_row; d_sl : store (list string);
  d_ur : store urec; d_sidx : store string; d_pidx : store string; d_hold : store Z;
  d_bank : store Z }.

Definition dump_of (s : st) : dump := mkDump (sa s) (oa s) (tot s) (dg s) (sl s) (ur s) (sidx s) (pidx s) (hold s) (bank s).
Definition st_of (h : Z) (ops vals : list string) (d : dump) (g : list gev) : st :=
  mkSt h ops vals (d_sa d) (d_oa d) (d_tot d) (d_dg d) (d_sl d) (d_ur d) (d_sidx d) (d_pidx d) (d_hold d) g (d_bank d).

Definition dump_eqb (a b : dump) : bool :=
  store_eqb sa_eqb (d_sa a) (d_sa b) && store_eqb oa_eqb (d_oa a) (d_oa b) && store_eqb Z.eqb (d_tot a) (d_tot b) &&
  store_eqb dg_eqb (d_dg a) (d_dg b) && store_eqb (list_eqb String.eqb) (d_sl a) (d_sl b) &&
  store_eqb ur_eqb (d_ur a) (d_ur b) && store_eqb String.eqb (d_sidx a) (d_sidx b) &&
  store_eqb String.eqb (d_pidx a) (d_pidx b) && store_eqb Z.eqb (d_hold a) (d_hold b) && store_eqb Z.eqb (d_bank a) (d_bank b).

(* one change of one raw store entry, as observed by the harness between two dumps *)
Inductive chg :=
| CSa (k : string) (v : option sa_row) | COa (k : string) (v : option oa_row) | CTot (k : string) (v : option Z)
| CDg (k : string) (v : option dg_row) | CSl (k : string) (v : option (list string)) | CUr (k : string) (v : option urec)
| CSidx (k : string) (v : option string) | CPidx (k : string) (v : option string) | CHold (k : string) (v : option Z)
| CBank (k : string) (v : option Z).

Definition app1 {V} (s : store V) (k : string) (v : option V) : store V :=
  match v with Some x => sset s k x | None => sdel s k end.

Definition apply_chg (d : dump) (c : chg) : dump :=
  match c with
  | CSa k v => mkDump (app1 (d_sa d) k v) (d_oa d) (d_tot d) (d_dg d) (d_sl d) (d_ur d) (d_sidx d) (d_pidx d) (d_hold d) (d_bank d)
  | COa k v => mkDump (d_sa d) (app1 (d_oa d) k v) (d_tot d) (d_dg d) (d_sl d) (d_ur d) (d_sidx d) (d_pidx d) (d_hold d) (d_bank d)
  | CTot k v => mkDump (d_sa d) (d_oa d) (app1 (d_tot d) k v) (d_dg d) (d_sl d) (d_ur d) (d_sidx d) (d_pidx d) (d_hold d) (d_bank d)
  | CDg k v => mkDump (d_sa d) (d_oa d) (d_tot d) (app1 (d_dg d) k v) (d_sl d) (d_ur d) (d_sidx d) (d_pidx d) (d_hold d) (d_bank d)
  | CSl k v => mkDump (d_sa d) (d_oa d) (d_tot d) (d_dg d) (app1 (d_sl d) k v) (d_ur d) (d_sidx d) (d_pidx d) (d_hold d) (d_bank d)
  | CUr k v => mkDump (d_sa d) (d_oa d) (d_tot d) (d_dg d) (d_sl d) (app1 (d_ur d) k v) (d_sidx d) (d_pidx d) (d_hold d) (d_bank d)
  | CSidx k v => mkDump (d_sa d) (d_oa d) (d_tot d) (d_dg d) (d_sl d) (d_ur d) (app1 (d_sidx d) k v) (d_pidx d) (d_hold d) (d_bank d)
  | CPidx k v => mkDump (d_sa d) (d_oa d) (d_tot d) (d_dg d) (d_sl d) (d_ur d) (d_sidx d) (app1 (d_pidx d) k v) (d_hold d) (d_bank d)
  | CHold k v => mkDump (d_sa d) (d_oa d) (d_tot d) (d_dg d) (d_sl d) (d_ur d) (d_sidx d) (d_pidx d) (app1 (d_hold d) k v) (d_bank d)
  | CBank k v => mkDump (d_sa d) (d_oa d) (d_tot d) (d_dg d) (d_sl d) (d_ur d) (d_sidx d) (d_pidx d) (d_hold d) (app1 (d_bank d) k v)
  end.

(* one observed step: the op, the implementation's result class, the changes of the raw stores, and the
   ghost events the HARNESS derived from the implementation's own results (deposit/withdraw accepted with amount x,
   slash execution info) — never from the model. *)
Record obs := mkObs { o_op : op; o_res : res; o_chg : list chg; o_gev : list gev }.

Record case := mkCase {
  c_height : Z; c_ops : list string; c_vals : list string;
  c_init : dump;                 (* full raw dump before the first op *)
  c_steps : list obs;
  c_final : dump                 (* full raw dump after the last op (cross-checks the change lists) *)
}.

Definition res_eqb (a b : res) : bool :=
  match a, b with ROk, ROk | RErr, RErr | RPanic, RPanic => true | _, _ => false end.

(* correspondence: model and implementation agree on result class and on every raw store after every op *)
Fixpoint check_steps (s : st) (d : dump) (l : list obs) (i : nat) : option nat * dump :=
  match l with
  | [] => (None, d)
  | o :: r =>
      let '(s', rs) := step s (o_op o) in
      let d' := fold_left apply_chg (o_chg o) d in
      if res_eqb rs (o_res o) && dump_eqb (dump_of s') d' then check_steps s' d' r (S i) else (Some i, d')
  end.

Definition check_case (c : case) : option nat :=
  let s0 := st_of (c_height c) (c_ops c) (c_vals c) (c_init c) [] in
  match check_steps s0 (c_init c) (c_steps c) 1 with
  | (Some i, _) => Some i
  | (None, d) => if dump_eqb d (c_final c) then None else Some 0%nat
  end.

(* ====================== property predicates (used by theorems AND by the monitors) ====================== *)

(* sum over a store of a function of key and value *)
Definition ssumk {V} (g : string -> V -> Z) (s : store V) : Z := zsum (map (fun kv => g (fst kv) (snd kv)) s).

Definition if_asset (a k : string) (x : Z) : Z := if String.eqb (key_asset k) a then x else 0.
Definition if_eq (a b : string) (x : Z) : Z := if String.eqb a b then x else 0.

(* C01: the value of asset a held by the ledger *)
Definition value_wd (a : string) (s : store sa_row) : Z := ssumk (fun k r => if_asset a k (sa_wd r)) s.
Definition value_pool (a : string) (s : store oa_row) : Z := ssumk (fun k r => if_asset a k (oa_amt r)) s.
Definition value_rec (a : string) (s : store urec) : Z := ssumk (fun _ r => if_eq (ur_asset r) a (ur_act r)) s.
Definition value_d (a : string) (d : dump) : Z := value_wd a (d_sa d) + value_pool a (d_oa d) + value_rec a (d_ur d).
Definition value (a : string) (s : st) : Z := value_d a (dump_of s).
Definition tot_of (a : string) (s : store Z) : Z := ssumk (fun k t => if_eq k a t) s.

Definition gev_net (a : string) (e : gev) : Z :=
  match e with
  | GDep b x => if_eq b a x
  | GWdr b x => - if_eq b a x
  | GSl b x => - if_eq b a x
  | GLost b x => - if_eq b a x
  | GNstP b x => if_eq b a x
  | GNstM b x => - if_eq b a x
  | GEscIn b x => if_eq b a x
  | GEscOut b x => - if_eq b a x
  end.
Definition gev_stake (a : string) (e : gev) : Z :=     (* deposits minus withdrawals only *)
  match e with
  | GDep b x => if_eq b a x
  | GWdr b x => - if_eq b a x
  | _ => 0
  end.
Definition net (a : string) (l : list gev) : Z := zsum (map (gev_net a) l).
Definition stake (a : string) (l : list gev) : Z := zsum (map (gev_stake a) l).

(* non-negativity of every figure *)
Definition sa_nn (r : sa_row) : bool := (0 <=? sa_total r) && (0 <=? sa_wd r) && (0 <=? sa_pend r).
Definition oa_nn (r : oa_row) : bool := (0 <=? oa_amt r) && (0 <=? oa_pend r) && (0 <=? oa_tsh r) && (0 <=? oa_osh r).
Definition dg_nn (r : dg_row) : bool := (0 <=? dg_sh r) && (0 <=? dg_wait r).
Definition ur_nn (r : urec) : bool := (0 <=? ur_amt r) && (0 <=? ur_act r).
Definition allv {V} (f : V -> bool) (s : store V) : bool := forallb (fun kv => f (snd kv)) s.
Definition nonneg_d (d : dump) : bool :=
  allv sa_nn (d_sa d) && allv oa_nn (d_oa d) && allv (fun t => 0 <=? t) (d_tot d) && allv dg_nn (d_dg d) &&
  allv ur_nn (d_ur d) && allv (fun n => 0 <=? n) (d_hold d).

(* C03: index consistency of a dump (three-way indexed storage of each record) *)
Definition idx_points (idx : store string) (k rk : string) : bool :=
  match sget idx k with Some x => String.eqb x rk | None => false end.
Definition index_ok_d (d : dump) : bool :=
  forallb (fun kv => let '(rk, r) := kv in
             String.eqb rk (rkey r) && idx_points (d_sidx d) (skey r) rk && idx_points (d_pidx d) (pkey r) rk) (d_ur d) &&
  forallb (fun kv => let '(k, rk) := kv in
             match sget (d_ur d) rk with Some r => String.eqb (skey r) k | None => false end) (d_sidx d) &&
  forallb (fun kv => let '(k, rk) := kv in
             match sget (d_ur d) rk with Some r => String.eqb (pkey r) k | None => false end) (d_pidx d).

(* C03: aggregates = sums over the live records *)
(* the native token has no staker rows (the balance lives in x/bank): its records do not count towards a row *)
Definition amt_sa (r : urec) : Z := if is_native (ur_asset r) then 0 else ur_amt r.
Definition pend_sa (k : string) (u : store urec) : Z :=
  ssumk (fun _ r => if_eq (sa_key (ur_staker r) (ur_asset r)) k (amt_sa r)) u.
Definition pend_oa (k : string) (u : store urec) : Z :=
  ssumk (fun _ r => if_eq (oa_key (ur_op r) (ur_asset r)) k (ur_amt r)) u.
Definition pend_dg (k : string) (u : store urec) : Z :=
  ssumk (fun _ r => if_eq (dg_key (ur_staker r) (ur_asset r) (ur_op r)) k (ur_amt r)) u.
Definition has_key {V} (s : store V) (k : string) : bool := match sget s k with Some _ => true | None => false end.
Definition aggregates_rows_d (d : dump) : bool :=
  forallb (fun kv => sa_pend (snd kv) =? pend_sa (fst kv) (d_ur d)) (d_sa d) &&
  forallb (fun kv => oa_pend (snd kv) =? pend_oa (fst kv) (d_ur d)) (d_oa d) &&
  forallb (fun kv => dg_wait (snd kv) =? pend_dg (fst kv) (d_ur d)) (d_dg d).
Definition aggregates_ok_d (d : dump) : bool :=
  aggregates_rows_d d &&
  forallb (fun kv => let r := snd kv in
             (is_native (ur_asset r) || has_key (d_sa d) (sa_key (ur_staker r) (ur_asset r))) && has_key (d_oa d) (oa_key (ur_op r) (ur_asset r)) &&
             has_key (d_dg d) (dg_key (ur_staker r) (ur_asset r) (ur_op r))) (d_ur d).

(* C01 T.4: the escrow account holds at least the native pools plus the amounts owed by native pending undelegations *)
Definition esc_of (B : store Z) : Z := ssumk (fun k v => if_eq k pool_key v) B.   (* balance of the escrow account *)
Definition escrow_d (d : dump) : Z := esc_of (d_bank d).
Definition escrow_ok_d (d : dump) : bool := value_d native_id d <=? escrow_d d.

Definition holdc (d : dump) (rk : string) : Z := match sget (d_hold d) rk with Some n => n | None => 0 end.
