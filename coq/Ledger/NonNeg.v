(* Ledger/NonNeg.v — no figure of the ledger is ever negative (invariant over all histories); used by C01 (T.5) and C03. *)
From Coq Require Import List String Ascii Bool ZArith Lia.
From Exo Require Import Base.Store Base.IntDec Base.Util Ledger.Ledger Ledger.Strings Ledger.LedgerLemmas Ledger.IndexInv.
Import ListNotations.
Local Open Scope string_scope.
Local Open Scope Z_scope.

Definition nn (s : st) : Prop :=
  allv sa_nn (sa s) = true /\ allv oa_nn (oa s) = true /\ allv (fun t => 0 <=? t) (tot s) = true /\
  allv dg_nn (dg s) = true /\ allv ur_nn (ur s) = true /\ allv (fun n => 0 <=? n) (hold s) = true.

Lemma nn_nonneg_d s : nn s -> nonneg_d (dump_of s) = true.
Proof. intros (A & B & C & D & E & F). unfold nonneg_d, dump_of. simpl. rewrite A, B, C, D, E, F. reflexivity. Qed.

Lemma sa_old_nn s k : allv sa_nn (sa s) = true -> sa_nn (sa_old s k) = true.
Proof. intro H. unfold sa_oldS. destruct (sget (sa s) k) eqn:E; [eapply allv_sget; eauto | reflexivity]. Qed.
Lemma oa_old_nn s k : allv oa_nn (oa s) = true -> oa_nn (oa_old s k) = true.
Proof. intro H. unfold oa_oldS. destruct (sget (oa s) k) eqn:E; [eapply allv_sget; eauto | reflexivity]. Qed.
Lemma dg_old_nn s k : allv dg_nn (dg s) = true -> dg_nn (dg_old s k) = true.
Proof. intro H. unfold dg_oldS. destruct (sget (dg s) k) eqn:E; [eapply allv_sget; eauto | reflexivity]. Qed.

Lemma upd_sa_nn s k a b c s' : nn s -> upd_sa s k a b c = Some s' -> nn s'.
Proof.
  intros (A & B & C & D & E & F) H. apply upd_sa_spec in H. destruct H as (r & -> & _ & _ & _ & N).
  unfold nn. simpl. repeat split; try assumption. apply allv_sset; [assumption|]. apply N. apply sa_old_nn; assumption.
Qed.
Lemma upd_oa_nn s k a b c d s' : nn s -> upd_oa s k a b c d = Some s' -> nn s'.
Proof.
  intros (A & B & C & D & E & F) H. apply upd_oa_spec in H. destruct H as (r & -> & _ & _ & _ & _ & N).
  unfold nn. simpl. repeat split; try assumption. apply allv_sset; [assumption|]. apply N. apply oa_old_nn; assumption.
Qed.
Lemma upd_dg_nn s k a b s' z : nn s -> upd_dg s k a b = Some (s', z) -> nn s'.
Proof.
  intros (A & B & C & D & E & F) H. apply upd_dg_spec in H. destruct H as (r & -> & _ & _ & N).
  unfold nn. simpl. repeat split; try assumption. apply allv_sset; [assumption|]. apply N. apply dg_old_nn; assumption.
Qed.
Lemma upd_tot_nn s a d s' : nn s -> upd_tot s a d = Some s' -> nn s'.
Proof.
  intros (A & B & C & D & E & F) H. apply upd_tot_spec in H. destruct H as (t & t' & G & _ & N & ->).
  unfold nn. simpl. repeat split; try assumption. apply allv_sset; [assumption|].
  apply Z.leb_le. apply N. apply Z.leb_le. exact (allv_sget _ _ _ _ C G).
Qed.

Lemma bank_send_nn s f t x s0 : nn s -> bank_send s f t x = Some s0 -> nn s0.
Proof. intros N H. apply bank_send_spec in H. destruct H as (b & B & _ & _ & -> & _). unfold nn in *. simpl. exact N. Qed.

Lemma log_ev_nn e s : nn s -> nn (log_ev e s).
Proof. unfold nn, log_ev. simpl. auto. Qed.

Lemma take_nn s st a x s1 : nn s -> take_from_staker s st a x = Some s1 -> nn s1.
Proof.
  intros N H. apply take_spec in H. destruct H as [(_ & s0 & B & ->)|(_ & E)]; [|eapply upd_sa_nn; eauto].
  apply log_ev_nn. eapply bank_send_nn; eauto.
Qed.
Lemma book_nn s st a x s1 : nn s -> book_pending s st a x = Some s1 -> nn s1.
Proof. intros N H. apply book_spec in H. destruct H as [(_ & ->)|(_ & E)]; [exact N|eapply upd_sa_nn; eauto]. Qed.
Lemma pay_nn s r s1 : nn s -> pay_staker s r = Some s1 -> nn s1.
Proof.
  intros N H. apply pay_spec in H. destruct H as [(_ & s0 & B & ->)|(_ & E)]; [|eapply upd_sa_nn; eauto].
  apply log_ev_nn. eapply bank_send_nn; eauto.
Qed.

Lemma deposit_nn_lst s st a x s' : nn s -> deposit_lst s st a x = Some s' -> nn s'.
Proof.
  intros N H. unfold deposit_lst in H. dmatch H. inversion H; subst; clear H.
  apply log_ev_nn. eapply upd_tot_nn; [|eassumption]. eapply upd_sa_nn; eassumption.
Qed.
Lemma deposit_nn s st a x s' : nn s -> deposit s st a x = Some s' -> nn s'.
Proof.
  intros N H. apply deposit_shape in H. destruct H as [(_ & ->)|(_ & H)]; [exact N|]. eapply deposit_nn_lst; eauto.
Qed.
Lemma withdraw_nn_lst s st a x s' : nn s -> withdraw_lst s st a x = Some s' -> nn s'.
Proof.
  intros N H. unfold withdraw_lst in H. dmatch H. inversion H; subst; clear H.
  apply log_ev_nn. eapply upd_tot_nn; [|eassumption]. eapply upd_sa_nn; eassumption.
Qed.
Lemma withdraw_nn s st a x s' : nn s -> withdraw s st a x = Some s' -> nn s'.
Proof.
  intros N H. apply withdraw_shape in H. destruct H as [(_ & ->)|(_ & H)]; [exact N|]. eapply withdraw_nn_lst; eauto.
Qed.

Lemma append_staker_nn s k x : nn s -> nn (append_staker s k x).
Proof. unfold append_staker. destruct (mem x _); [auto|]. unfold nn. simpl. auto. Qed.
Lemma delete_staker_nn s k x s' : nn s -> delete_staker s k x = Some s' -> nn s'.
Proof. unfold delete_staker. destruct (sget (sl s) k); [|discriminate]. intros N H; inversion H; subst. unfold nn in *. simpl. auto. Qed.

Lemma delegate_nn s st a op x s' : nn s -> delegate s st a op x = Some s' -> nn s'.
Proof.
  intros N H. unfold delegate in H.
  destruct (x <=? 0); [discriminate|]. destruct (negb (mem op (operators s))); [discriminate|].
  destruct (take_from_staker s st a x) as [s1|] eqn:E1; [|discriminate].
  match type of H with match ?e with _ => _ end = _ => destruct e as [sh|]; [|discriminate] end.
  destruct (upd_oa s1 (oa_key op a) x 0 sh 0) as [s2|] eqn:E2; [|discriminate].
  destruct (upd_dg s2 (dg_key st a op) sh 0) as [[s3 z]|] eqn:E3; [|discriminate].
  inversion H; subst; clear H. apply append_staker_nn.
  eapply upd_dg_nn; [|eassumption]. eapply upd_oa_nn; [|eassumption]. eapply take_nn; eassumption.
Qed.

Lemma set_record_nn s r s' : nn s -> ur_nn r = true -> set_record s r = Some s' -> nn s'.
Proof.
  intros N Wr H. unfold set_record in H. destruct (ur_cn r <? height s); [discriminate|].
  inversion H; subst; clear H.
  destruct (sget (ur s) (rkey r)); [apply (log_ev_nn (GLost (ur_asset u) (ur_act u))) in N|];
    destruct N as (A & B & C & D & E & F); unfold nn; simpl; repeat split; try assumption; apply allv_sset; assumption.
Qed.

Lemma del_record_nn s r : nn s -> nn (del_record s r).
Proof. intros (A & B & C & D & E & F). unfold nn, del_record. simpl. repeat split; try assumption. apply allv_sdel; assumption. Qed.

Lemma hold_inc_nn s rk : nn s -> nn (fst (hold_inc s rk)).
Proof.
  intros N. pose proof N as (A & B & C & D & E & F). unfold hold_inc. destruct (_ =? _); [assumption|]. simpl.
  unfold nn. simpl. repeat split; try assumption. apply allv_sset; [assumption|].
  apply Z.leb_le. unfold hold_count. destruct (sget (hold s) rk) eqn:G; [|lia].
  pose proof (allv_sget _ _ _ _ F G) as Hn. apply Z.leb_le in Hn. lia.
Qed.
Lemma hold_dec_nn s rk : nn s -> nn (fst (hold_dec s rk)).
Proof.
  intros N. pose proof N as (A & B & C & D & E & F). unfold hold_dec. destruct (hold_count s rk =? 0) eqn:Z0; [assumption|]. simpl.
  unfold nn. simpl. repeat split; try assumption. apply allv_sset; [assumption|].
  apply Z.leb_le. apply Z.eqb_neq in Z0. unfold hold_count in *. destruct (sget (hold s) rk) eqn:G; [|lia].
  pose proof (allv_sget _ _ _ _ F G) as Hn. apply Z.leb_le in Hn. lia.
Qed.

Lemma ur_nn_mk a b c d e f g x y : 0 <= x -> 0 <= y -> ur_nn (mkUR a b c d e f g x y) = true.
Proof. intros. unfold ur_nn. simpl. rewrite andb_true_iff, !Z.leb_le. lia. Qed.

Lemma tokens_from_shares_nn sh tsh amt t : 0 <= sh -> 0 <= tsh -> 0 <= amt -> tokens_from_shares sh tsh amt = Some t -> 0 <= t.
Proof.
  unfold tokens_from_shares. intros A B C H.
  destruct (sh >? tsh); [discriminate|]. destruct (tsh =? 0) eqn:E.
  - destruct (amt =? 0); inversion H; lia.
  - inversion H; subst. apply Z.eqb_neq in E. apply dec_trunc_int_nonneg. apply dec_quo_nonneg; [unfold dec_mul_int; nia | lia].
Qed.

Lemma undelegate_nn s st a op x n tx s' r : nn s -> undelegate s st a op x n tx = Some (s', r) -> nn s'.
Proof.
  intros N H. unfold undelegate in H.
  destruct (x <=? 0); [discriminate|]. destruct (negb (mem op (operators s))); [discriminate|].
  destruct (sget (dg s) (dg_key st a op)) as [d|] eqn:Ed; [|discriminate].
  destruct (sget (oa s) (oa_key op a)) as [o|] eqn:Eo; [|discriminate].
  destruct (shares_from_tokens (oa_tsh o) x (oa_amt o)) as [sh0|]; [|discriminate].
  match type of H with (if ?c then _ else _) = _ => destruct c; [discriminate|] end.
  destruct (shares_from_tokens (oa_tsh o) 1 (oa_amt o)) as [tol|]; [|discriminate].
  set (sh := if sh0 >? dg_sh d then dg_sh d else if dg_sh d - sh0 <? tol then dg_sh d else sh0) in *.
  destruct (sh <=? 0) eqn:Esh; [discriminate|]. destruct (sh >? oa_tsh o); [discriminate|].
  match type of H with match ?e with _ => _ end = _ => destruct e as [tok|] eqn:Et; [|discriminate] end.
  destruct (upd_oa s (oa_key op a) (- tok) tok (- sh) 0) as [s1|] eqn:E1; [|discriminate].
  destruct (book_pending s1 st a tok) as [s2|] eqn:E2; [|discriminate].
  destruct (upd_dg s2 (dg_key st a op) (- sh) tok) as [[s3 z]|] eqn:E3; [|discriminate].
  match type of H with match ?e with _ => _ end = _ => destruct e as [s4|] eqn:E4; [|discriminate] end.
  match type of H with match set_record s4 ?rr with _ => _ end = _ => set (r0 := rr) in *;
    destruct (set_record s4 r0) as [s5|] eqn:E5; [|discriminate] end.
  pose proof N as (_ & NO & _).
  pose proof (allv_sget _ _ _ _ NO Eo) as No. unfold oa_nn in No. rewrite !andb_true_iff, !Z.leb_le in No.
  assert (0 <= tok) as Ht.
  { apply Z.leb_gt in Esh. destruct (oa_tsh o =? sh); [inversion Et; lia|].
    eapply tokens_from_shares_nn; [| | |exact Et]; lia. }
  assert (nn s3) as N3.
  { eapply upd_dg_nn; [|eassumption]. eapply book_nn; [|eassumption]. eapply upd_oa_nn; eassumption. }
  assert (nn s4) as N4 by (destruct z; [eapply delete_staker_nn; eauto | inversion E4; subst; assumption]).
  assert (nn s5) as N5 by (eapply set_record_nn; [exact N4 | unfold r0; apply ur_nn_mk; exact Ht | exact E5]).
  destruct (mem op (validators s)).
  - pose proof (hold_inc_nn s5 (rkey r0) N5) as Nh.
    destruct (hold_inc s5 (rkey r0)) as [s6 [| |]]; try discriminate. inversion H; subst. exact Nh.
  - inversion H; subst. exact N5.
Qed.

Lemma genesis_load_nn s r : nn s -> nn (fst (genesis_load s r)).
Proof.
  intros N. unfold genesis_load.
  destruct (ur_amt r <=? 0) eqn:Ea; [exact N|]. destruct (ur_act r =? ur_amt r) eqn:EA; [|exact N]. simpl.
  destruct (deposit s (ur_staker r) (ur_asset r) (ur_amt r)) as [s1|] eqn:E0; [|exact N].
  destruct (upd_sa s1 _ 0 (- ur_amt r) (ur_amt r)) as [s2|] eqn:E1; [|exact N].
  destruct (upd_oa s2 _ 0 (ur_amt r) 0 0) as [s3|] eqn:E2; [|exact N].
  destruct (upd_dg s3 _ 0 (ur_amt r)) as [[s4 z]|] eqn:E3; [|exact N].
  destruct (set_record s4 r) as [s5|] eqn:E4; [|exact N]. simpl.
  eapply set_record_nn; [| |exact E4].
  - eapply upd_dg_nn; [|eassumption]. eapply upd_oa_nn; [|eassumption]. eapply upd_sa_nn; [|eassumption].
    eapply deposit_nn; eassumption.
  - apply Z.leb_gt in Ea. apply Z.eqb_eq in EA. unfold ur_nn. rewrite andb_true_iff, !Z.leb_le. lia.
Qed.

(* ---- slash ---- *)
Lemma trunc_mul_bounds prop x : 0 <= prop <= P -> 0 <= x -> 0 <= dec_trunc_int (dec_mul_int prop x) <= x.
Proof.
  intros Hp Hx. unfold dec_trunc_int, dec_mul_int. pose proof P_pos.
  rewrite quot_nonneg_div by nia. split; [apply Z.div_pos; nia | apply Z.div_le_upper_bound; nia].
Qed.

Lemma slash_record_nn prop r : ur_nn r = true -> ur_nn (fst (slash_record prop r)) = true.
Proof.
  unfold slash_record, ur_nn. rewrite !andb_true_iff, !Z.leb_le. intros [A B].
  destruct (ur_act r =? 0); simpl.
  - lia.
  - destruct (dec_trunc_int (dec_mul_int prop (ur_amt r)) >=? ur_act r) eqn:E; [lia|].
    rewrite Z.geb_leb in E. apply Z.leb_gt in E. lia.
Qed.

Lemma zero_shares_nn d stakers asset op : allv dg_nn d = true -> allv dg_nn (zero_shares d stakers asset op) = true.
Proof.
  revert d. unfold zero_shares. induction stakers as [|x r IH]; simpl; intros d H; [assumption|].
  apply IH. destruct (sget d (dg_key x asset op)) as [row|] eqn:E; [|assumption].
  apply allv_sset; [assumption|]. pose proof (allv_sget _ _ _ _ H E) as Hr.
  unfold dg_nn in *. simpl. rewrite andb_true_iff, !Z.leb_le in *. lia.
Qed.

Lemma slash_pool_nn op prop k o d l o' d' l' x : 0 <= prop <= P -> oa_nn o = true -> allv dg_nn d = true ->
  slash_pool op prop k o d l = (o', d', l', x) -> oa_nn o' = true /\ allv dg_nn d' = true /\ 0 <= x.
Proof.
  intros Hp No Nd H. unfold oa_nn in No. rewrite !andb_true_iff, !Z.leb_le in No.
  pose proof (trunc_mul_bounds prop (oa_amt o) Hp ltac:(lia)) as B.
  unfold slash_pool in H.
  destruct (if oa_amt o - dec_trunc_int (dec_mul_int prop (oa_amt o)) =? 0 then sget l (oa_key op (key_asset k)) else None);
    inversion H; subst; clear H; unfold oa_nn; simpl; rewrite !andb_true_iff, !Z.leb_le; repeat split; try lia; try assumption.
  apply zero_shares_nn; assumption.
Qed.

Lemma slash_pools_nn op prop pools d l o' d' l' ev : 0 <= prop <= P -> allv oa_nn pools = true -> allv dg_nn d = true ->
  slash_pools op prop pools d l = (o', d', l', ev) -> allv oa_nn o' = true /\ allv dg_nn d' = true.
Proof.
  intros Hp. revert d l o' d' l' ev. induction pools as [|[k o] rest IH]; simpl; intros d l o' d' l' ev Np Nd H.
  - inversion H; subst. auto.
  - unfold allv in Np. simpl in Np. apply andb_prop in Np. destruct Np as [No Nr]. fold (allv oa_nn rest) in Nr.
    destruct (is_prefix op k).
    + destruct (slash_pool op prop k o d l) as [[[o1 d1] l1] x] eqn:E1.
      destruct (slash_pools op prop rest d1 l1) as [[[rest' d2] l2] ev2] eqn:E2.
      destruct (slash_pool_nn _ _ _ _ _ _ _ _ _ _ Hp No Nd E1) as (A & B & _).
      destruct (IH _ _ _ _ _ _ Nr B E2) as [C D]. inversion H; subst; clear H.
      split; [|assumption]. unfold allv. simpl. rewrite A. exact C.
    + destruct (slash_pools op prop rest d l) as [[[rest' d2] l2] ev2] eqn:E2.
      destruct (IH _ _ _ _ _ _ Nr Nd E2) as [C D]. inversion H; subst; clear H.
      split; [|assumption]. unfold allv. simpl. rewrite No. exact C.
Qed.

Lemma slash_nn s op eh prop s' : nn s -> slash s op eh prop = Some s' -> nn s'.
Proof.
  intros (A & B & C & D & E & F) H. unfold slash in H.
  destruct ((prop <? 0) || (prop >? P)) eqn:Ep; [discriminate|].
  apply orb_false_elim in Ep. destruct Ep as [Ep1 Ep2]. apply Z.ltb_ge in Ep1. rewrite Z.gtb_ltb in Ep2. apply Z.ltb_ge in Ep2.
  destruct (slash_pools op prop (oa s) (dg s) (sl s)) as [[[o' d'] l'] ev2] eqn:E2.
  destruct (slash_pools_nn _ _ _ _ _ _ _ _ _ (conj Ep1 Ep2) B D E2) as [B' D'].
  destruct (eh <=? height s).
  - pose proof (slash_records_map op eh prop (ur s)) as M.
    destruct (slash_records op eh prop (ur s)) as [u' ev1]. simpl in M. subst u'.
    inversion H; subst; clear H. unfold nn. simpl. repeat split; try assumption.
    apply allv_map_vals; [assumption|]. intros k v Hv. unfold slash_rec_fun.
    destruct (_ && _); [apply slash_record_nn|]; assumption.
  - inversion H; subst; clear H. unfold nn. simpl. repeat split; assumption.
Qed.

(* ---- EndBlock ---- *)
Lemma process_nn s r : nn s -> sget (ur s) (rkey r) = Some r -> nn (process s r).
Proof.
  intros N G. pose proof N as (A & B & C & D & E & F).
  pose proof (allv_sget _ _ _ _ E G) as Nr.
  unfold process. destruct (0 <? hold_count s (rkey r)).
  - set (r' := mkUR _ _ _ _ _ (height s + 1) _ _ _).
    destruct (set_record (del_record s r) r') as [s2|] eqn:E2; [|assumption].
    assert (ur_nn r' = true) as Nr' by exact Nr.
    exact (set_record_nn _ _ _ (del_record_nn s r N) Nr' E2).
  - destruct (upd_dg s _ 0 (- ur_amt r)) as [[s1 z]|] eqn:E1; [|assumption].
    destruct (pay_staker s1 r) as [s2|] eqn:E2; [|assumption].
    destruct (upd_oa s2 _ 0 (- ur_amt r) 0 0) as [s3|] eqn:E3; [|assumption].
    apply del_record_nn. eapply upd_oa_nn; [|eassumption]. eapply pay_nn; [|eassumption]. eapply upd_dg_nn; eassumption.
Qed.

Lemma w_height_nn h s : nn s -> nn (w_height h s).
Proof. unfold nn. simpl. auto. Qed.

(* ---------- non-negativity ---------- *)
Lemma record_step_nn s sk pend rk s2 p' : 0 < pend -> nn s -> nst_record_step s sk pend rk = Some (s2, p') -> nn s2.
Proof.
  intros Hp N H. apply record_step_shape in H. destruct H as (r & s1 & G & _ & H). simpl in H. destruct H as (U & ->).
  pose proof N as (_ & _ & _ & _ & Nu & _). pose proof (allv_sget _ _ _ _ Nu G) as Nr.
  unfold ur_nn in Nr. rewrite andb_true_iff, !Z.leb_le in Nr.
  pose proof (upd_sa_nn _ _ _ _ _ _ N U) as N1. apply log_ev_nn.
  destruct N1 as (A & B & C & D & E & F). unfold nn. simpl. repeat split; try assumption.
  apply allv_sset; [assumption|]. unfold ur_nn, with_act. simpl. rewrite andb_true_iff, !Z.leb_le.
  destruct Nr as [Na Nb]. destruct (0 <? pend - ur_act r) eqn:Eq; [split; lia|]. apply Z.ltb_ge in Eq. split; lia.
Qed.

Lemma share_step_nn s st a prop k row s' : nn s -> nst_share_step s st a prop k row = Some s' -> nn s'.
Proof.
  intros N H. apply share_step_shape in H. destruct H as (o & sh & tok & s1 & s2 & z & s3 & s4 & H). simpl in H.
  destruct H as (_ & _ & _ & _ & U1 & U2 & U3 & U4 & ->). apply log_ev_nn.
  eapply upd_sa_nn; [|exact U4].
  assert (nn s2) as N2 by (eapply upd_dg_nn; [|exact U2]; eapply upd_oa_nn; eauto).
  destruct z; [eapply delete_staker_nn; eauto | inversion U3; subst; exact N2].
Qed.

Lemma nst_balance_nn s st a x s' : nn s -> nst_balance s st a x = Some s' -> nn s'.
Proof.
  intros N H. apply (nst_balance_P nn s st a x s' N); try exact H.
  - intros s1 _ U. apply log_ev_nn. eapply upd_sa_nn; eauto.
  - intros info f s1 _ _ _ U. apply log_ev_nn. eapply upd_sa_nn; eauto.
  - intros s0 pend rk s2 p' Hp N0 E. eapply record_step_nn; eauto.
  - intros prop s0 k row s2 N0 E. eapply share_step_nn; eauto.
Qed.


Lemma step_nn s o : idx_inv s -> nn s -> wf_op o = true -> nn (fst (step s o)).
Proof.
  intros I N Wf. destruct o; simpl.
  - destruct (deposit s staker asset x) as [s'|] eqn:E; simpl; [|exact N]. eapply deposit_nn; eauto.
  - destruct (withdraw s staker asset x) as [s'|] eqn:E; simpl; [|exact N]. eapply withdraw_nn; eauto.
  - destruct (delegate s staker asset operator x) as [s'|] eqn:E; simpl; [|exact N]. eapply delegate_nn; eauto.
  - destruct (undelegate s staker asset operator x nonce tx) as [[s' r]|] eqn:E; simpl; [|exact N].
    eapply undelegate_nn; eauto.
  - apply genesis_load_nn; assumption.
  - destruct prop as [p|]; simpl; [|exact N].
    destruct (slash s operator eh p) as [s'|] eqn:E; simpl; [|exact N]. eapply slash_nn; eauto.
  - apply hold_inc_nn; assumption.
  - apply hold_dec_nn; assumption.
  - destruct (end_block_idx nn (fun s0 r _ G N0 => process_nn s0 r N0 G) (fun s0 h N0 => w_height_nn h s0 N0) s I N) as (_ & Q & _).
    exact Q.
  - destruct (nst_balance s staker asset x) as [s'|] eqn:E; simpl; [|exact N]. eapply nst_balance_nn; eauto.
  - exact N.
Qed.

Lemma run_nn ops : forall s, idx_inv s -> nn s -> hist_ok s ops = true -> nn (run ops s).
Proof.
  induction ops as [|o r IH]; intros s I N H; simpl; [assumption|].
  simpl in H. rewrite !andb_true_iff in H. destruct H as [[Wf Fr] Hr].
  apply IH; [apply step_idx; assumption | apply step_nn; assumption | assumption].
Qed.

Lemma nonneg_all : forall ops s0, idx_inv s0 -> nn s0 -> hist_ok s0 ops = true -> nonneg_d (dump_of (run ops s0)) = true.
Proof. intros. apply nn_nonneg_d. apply run_nn; assumption. Qed.

