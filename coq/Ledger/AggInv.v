(* Ledger/AggInv.v — the aggregate invariant: every pending figure (staker row, operator pool, delegation row) equals the
   sum of the amounts of the live undelegation records that name it; and sortedness of the row stores. *)
From Coq Require Import List String Ascii Bool ZArith Lia Sorting.Sorted.
From Exo Require Import Base.Store Base.IntDec Base.Util Ledger.Ledger Ledger.Strings Ledger.LedgerLemmas Ledger.IndexInv.
Import ListNotations.
Local Open Scope string_scope.
Local Open Scope Z_scope.

Definition ksa (r : urec) := sa_key (ur_staker r) (ur_asset r).
Definition koa (r : urec) := oa_key (ur_op r) (ur_asset r).
Definition kdg (r : urec) := dg_key (ur_staker r) (ur_asset r) (ur_op r).

Definition srt (s : st) : Prop := sorted (sa s) /\ sorted (oa s) /\ sorted (dg s).

Definition agg_inv (s : st) : Prop :=
  forall k, sa_pend (sa_old s k) = pend_sa k (ur s) /\ oa_pend (oa_old s k) = pend_oa k (ur s) /\
            dg_wait (dg_old s k) = pend_dg k (ur s).

(* ---- reading a row after a write (sorted stores) ---- *)
Lemma sa_old_sset S k r' k' : sorted S -> sa_oldS (sset S k r') k' = if String.eqb k k' then r' else sa_oldS S k'.
Proof.
  intro Hs. unfold sa_oldS. destruct (String.eqb k k') eqn:E.
  - apply String.eqb_eq in E. subst. rewrite sget_sset_same. reflexivity.
  - apply String.eqb_neq in E. rewrite sget_sset_other by assumption. reflexivity.
Qed.
Lemma oa_old_sset S k r' k' : sorted S -> oa_oldS (sset S k r') k' = if String.eqb k k' then r' else oa_oldS S k'.
Proof.
  intro Hs. unfold oa_oldS. destruct (String.eqb k k') eqn:E.
  - apply String.eqb_eq in E. subst. rewrite sget_sset_same. reflexivity.
  - apply String.eqb_neq in E. rewrite sget_sset_other by assumption. reflexivity.
Qed.
Lemma dg_old_sset S k r' k' : sorted S -> dg_oldS (sset S k r') k' = if String.eqb k k' then r' else dg_oldS S k'.
Proof.
  intro Hs. unfold dg_oldS. destruct (String.eqb k k') eqn:E.
  - apply String.eqb_eq in E. subst. rewrite sget_sset_same. reflexivity.
  - apply String.eqb_neq in E. rewrite sget_sset_other by assumption. reflexivity.
Qed.

(* ---- sums over the record store ---- *)
Lemma pend_sset_fresh (key : urec -> string) (f : urec -> Z) k u rk r : sget u rk = None ->
  ssumk (fun _ x => if_eq (key x) k (f x)) (sset u rk r) = ssumk (fun _ x => if_eq (key x) k (f x)) u + if_eq (key r) k (f r).
Proof. intro F. rewrite ssumk_sset. unfold old_of. rewrite F. lia. Qed.

Lemma pend_sdel_stored (key : urec -> string) (f : urec -> Z) k u rk r : sget u rk = Some r ->
  ssumk (fun _ x => if_eq (key x) k (f x)) (sdel u rk) = ssumk (fun _ x => if_eq (key x) k (f x)) u - if_eq (key r) k (f r).
Proof. intro F. rewrite ssumk_sdel. unfold old_of. rewrite F. lia. Qed.

Lemma ssumk_map_vals {V} (g : string -> V -> Z) (f : string -> V -> V) (s : store V) :
  (forall k v, g k (f k v) = g k v) -> ssumk g (map (fun kv => (fst kv, f (fst kv) (snd kv))) s) = ssumk g s.
Proof.
  intro H. unfold ssumk. induction s as [|[k v] r IH]; simpl; [reflexivity|]. rewrite H, IH. reflexivity.
Qed.

Lemma ssumk_ge_elem (g : string -> urec -> Z) (u : store urec) rk r :
  (forall k v, 0 <= g k v) -> sget u rk = Some r -> g rk r <= ssumk g u.
Proof.
  intros Hg. unfold ssumk. induction u as [|[k v] rest IH]; simpl; intro G; [discriminate|].
  assert (0 <= zsum (map (fun kv => g (fst kv) (snd kv)) rest)) as Hr.
  { clear IH G. induction rest as [|[k' v'] r' IH']; simpl; [lia|]. pose proof (Hg k' v'). lia. }
  destruct (scmp rk k) eqn:E; try discriminate.
  - apply scmp_eq in E. subst. inversion G; subst. lia.
  - pose proof (Hg k v). specialize (IH G). lia.
Qed.

(* ---- set / delete of a record and the aggregates ---- *)
Definition pend3 (k : string) (u : store urec) := (pend_sa k u, pend_oa k u, pend_dg k u).

Lemma set_record_pend s r s' k : sget (ur s) (rkey r) = None -> set_record s r = Some s' ->
  pend_sa k (ur s') = pend_sa k (ur s) + if_eq (ksa r) k (amt_sa r) /\
  pend_oa k (ur s') = pend_oa k (ur s) + if_eq (koa r) k (ur_amt r) /\
  pend_dg k (ur s') = pend_dg k (ur s) + if_eq (kdg r) k (ur_amt r) /\
  sa s' = sa s /\ oa s' = oa s /\ dg s' = dg s /\ hold s' = hold s.
Proof.
  intros F H. unfold set_record in H. destruct (ur_cn r <? height s); [discriminate|]. rewrite F in H.
  inversion H; subst; clear H. simpl. unfold pend_sa, pend_oa, pend_dg.
  rewrite !(pend_sset_fresh _ _ k (ur s) (rkey r) r F). auto 10.
Qed.

Lemma del_record_pend s r k : sget (ur s) (rkey r) = Some r ->
  pend_sa k (ur (del_record s r)) = pend_sa k (ur s) - if_eq (ksa r) k (amt_sa r) /\
  pend_oa k (ur (del_record s r)) = pend_oa k (ur s) - if_eq (koa r) k (ur_amt r) /\
  pend_dg k (ur (del_record s r)) = pend_dg k (ur s) - if_eq (kdg r) k (ur_amt r).
Proof.
  intros F. unfold del_record. simpl. unfold pend_sa, pend_oa, pend_dg.
  rewrite !(pend_sdel_stored _ _ k (ur s) (rkey r) r F). auto.
Qed.

(* ---- sortedness of the row stores is preserved ---- *)
Lemma upd_sa_srt s k a b c s' : srt s -> upd_sa s k a b c = Some s' -> srt s'.
Proof. intros (A & B & C) H. apply upd_sa_spec in H. destruct H as (r & -> & _). unfold srt. simpl. auto using sset_sorted. Qed.
Lemma upd_oa_srt s k a b c d s' : srt s -> upd_oa s k a b c d = Some s' -> srt s'.
Proof. intros (A & B & C) H. apply upd_oa_spec in H. destruct H as (r & -> & _). unfold srt. simpl. auto using sset_sorted. Qed.
Lemma upd_dg_srt s k a b s' z : srt s -> upd_dg s k a b = Some (s', z) -> srt s'.
Proof. intros (A & B & C) H. apply upd_dg_spec in H. destruct H as (r & -> & _). unfold srt. simpl. auto using sset_sorted. Qed.
Lemma srt_ext s1 s2 : sa s1 = sa s2 -> oa s1 = oa s2 -> dg s1 = dg s2 -> srt s1 -> srt s2.
Proof. unfold srt. intros -> -> ->. auto. Qed.

Lemma zero_shares_sorted d stakers asset op : sorted d -> sorted (zero_shares d stakers asset op).
Proof.
  revert d. unfold zero_shares. induction stakers as [|x r IH]; simpl; intros d H; [assumption|].
  apply IH. destruct (sget d (dg_key x asset op)); [apply sset_sorted|]; assumption.
Qed.

Lemma slash_pools_keys op prop pools d l o' d' l' ev : sorted d ->
  slash_pools op prop pools d l = (o', d', l', ev) -> skeys o' = skeys pools /\ sorted d'.
Proof.
  revert d l o' d' l' ev. induction pools as [|[k o] rest IH]; simpl; intros d l o' d' l' ev Sd H.
  - inversion H; subst. auto.
  - destruct (is_prefix op k).
    + destruct (slash_pool op prop k o d l) as [[[o1 d1] l1] x] eqn:E1.
      destruct (slash_pools op prop rest d1 l1) as [[[rest' d2] l2] ev2] eqn:E2.
      assert (sorted d1) as S1.
      { unfold slash_pool in E1.
        destruct (if oa_amt o - dec_trunc_int (dec_mul_int prop (oa_amt o)) =? 0 then sget l (oa_key op (key_asset k)) else None);
          inversion E1; subst; [apply zero_shares_sorted|]; assumption. }
      destruct (IH _ _ _ _ _ _ S1 E2) as [A B]. inversion H; subst. simpl. rewrite A. auto.
    + destruct (slash_pools op prop rest d l) as [[[rest' d2] l2] ev2] eqn:E2.
      destruct (IH _ _ _ _ _ _ Sd E2) as [A B]. inversion H; subst. simpl. rewrite A. auto.
Qed.

(* the pending figure of every pool row / delegation row survives the slash walk *)
Lemma zero_shares_wait d stakers asset op k : sorted d ->
  dg_wait (dg_oldS (zero_shares d stakers asset op) k) = dg_wait (dg_oldS d k).
Proof.
  revert d. unfold zero_shares. induction stakers as [|x r IH]; simpl; intros d Sd; [reflexivity|].
  destruct (sget d (dg_key x asset op)) as [row|] eqn:E.
  - rewrite IH by (apply sset_sorted; assumption). rewrite dg_old_sset by assumption.
    destruct (String.eqb (dg_key x asset op) k) eqn:Ek; [|reflexivity].
    apply String.eqb_eq in Ek. subst k. unfold dg_oldS. rewrite E. reflexivity.
  - apply IH; assumption.
Qed.

Lemma slash_pools_pend op prop pools d l o' d' l' ev k : sorted d ->
  slash_pools op prop pools d l = (o', d', l', ev) ->
  oa_pend (oa_oldS o' k) = oa_pend (oa_oldS pools k) /\ dg_wait (dg_oldS d' k) = dg_wait (dg_oldS d k).
Proof.
  revert d l o' d' l' ev. induction pools as [|[k0 o] rest IH]; simpl; intros d l o' d' l' ev Sd H.
  - inversion H; subst. auto.
  - destruct (is_prefix op k0).
    + destruct (slash_pool op prop k0 o d l) as [[[o1 d1] l1] x] eqn:E1.
      destruct (slash_pools op prop rest d1 l1) as [[[rest' d2] l2] ev2] eqn:E2.
      assert (sorted d1 /\ oa_pend o1 = oa_pend o /\ dg_wait (dg_oldS d1 k) = dg_wait (dg_oldS d k)) as (S1 & Po & Wd).
      { unfold slash_pool in E1.
        destruct (if oa_amt o - dec_trunc_int (dec_mul_int prop (oa_amt o)) =? 0 then sget l (oa_key op (key_asset k0)) else None);
          inversion E1; subst; simpl; repeat split; try assumption; try reflexivity.
        - apply zero_shares_sorted; assumption.
        - apply zero_shares_wait; assumption. }
      destruct (IH _ _ _ _ _ _ S1 E2) as [A B]. inversion H; subst. split; [|congruence].
      unfold oa_oldS in *. simpl. destruct (scmp k k0); auto.
    + destruct (slash_pools op prop rest d l) as [[[rest' d2] l2] ev2] eqn:E2.
      destruct (IH _ _ _ _ _ _ Sd E2) as [A B]. inversion H; subst. split; [|assumption].
      unfold oa_oldS in *. simpl. destruct (scmp k k0); auto.
Qed.

(* ---- how the primitive updates move the three pending readings ---- *)
Definition RS (s : st) k := sa_pend (sa_old s k).
Definition RO (s : st) k := oa_pend (oa_old s k).
Definition RD (s : st) k := dg_wait (dg_old s k).

Lemma upd_sa_reads s k1 dt dw dp s' : srt s -> upd_sa s k1 dt dw dp = Some s' ->
  (forall k, RS s' k = RS s k + if_eq k1 k dp) /\ oa s' = oa s /\ dg s' = dg s /\ ur s' = ur s /\ hold s' = hold s /\ height s' = height s.
Proof.
  intros (A & _) H. apply upd_sa_spec in H. destruct H as (r & -> & _ & _ & Hp & _). simpl. repeat split; try reflexivity.
  intro k. unfold RS. simpl. rewrite sa_old_sset by assumption. unfold if_eq.
  destruct (String.eqb k1 k) eqn:E; [|lia]. apply String.eqb_eq in E. subst. lia.
Qed.
Lemma upd_oa_reads s k1 da dp dts dos s' : srt s -> upd_oa s k1 da dp dts dos = Some s' ->
  (forall k, RO s' k = RO s k + if_eq k1 k dp) /\ sa s' = sa s /\ dg s' = dg s /\ ur s' = ur s /\ hold s' = hold s /\ height s' = height s.
Proof.
  intros (_ & A & _) H. apply upd_oa_spec in H. destruct H as (r & -> & _ & Hp & _). simpl. repeat split; try reflexivity.
  intro k. unfold RO. simpl. rewrite oa_old_sset by assumption. unfold if_eq.
  destruct (String.eqb k1 k) eqn:E; [|lia]. apply String.eqb_eq in E. subst. lia.
Qed.
Lemma upd_dg_reads s k1 dsh dw s' z : srt s -> upd_dg s k1 dsh dw = Some (s', z) ->
  (forall k, RD s' k = RD s k + if_eq k1 k dw) /\ sa s' = sa s /\ oa s' = oa s /\ ur s' = ur s /\ hold s' = hold s /\ height s' = height s.
Proof.
  intros (_ & _ & A) H. apply upd_dg_spec in H. destruct H as (r & -> & _ & Hp & _). simpl. repeat split; try reflexivity.
  intro k. unfold RD. simpl. rewrite dg_old_sset by assumption. unfold if_eq.
  destruct (String.eqb k1 k) eqn:E; [|lia]. apply String.eqb_eq in E. subst. lia.
Qed.

Lemma RS_ext s1 s2 k : sa s1 = sa s2 -> RS s1 k = RS s2 k. Proof. unfold RS. intros ->. reflexivity. Qed.
Lemma RO_ext s1 s2 k : oa s1 = oa s2 -> RO s1 k = RO s2 k. Proof. unfold RO. intros ->. reflexivity. Qed.
Lemma RD_ext s1 s2 k : dg s1 = dg s2 -> RD s1 k = RD s2 k. Proof. unfold RD. intros ->. reflexivity. Qed.

(* the three native / non-native points: sortedness and the pending reading of the staker rows *)
Lemma same_srt s s' : same_but_sa_bank_log s s' -> sa s' = sa s -> srt s -> srt s'.
Proof. intros (_ & _ & _ & _ & _ & O & D & _) A. apply srt_ext; congruence. Qed.

Lemma srt_of_eq s s' : sa s' = sa s -> oa s' = oa s -> dg s' = dg s -> srt s -> srt s'.
Proof. unfold srt. intros -> -> ->. auto. Qed.

Lemma bank_send_reads s f t x s0 : bank_send s f t x = Some s0 ->
  sa s0 = sa s /\ oa s0 = oa s /\ dg s0 = dg s /\ ur s0 = ur s /\ hold s0 = hold s /\ height s0 = height s.
Proof. intro H. apply bank_send_spec in H. destruct H as (b & B & _ & _ & -> & _). simpl. auto 10. Qed.

Lemma pay_reads s r s' : srt s -> pay_staker s r = Some s' ->
  srt s' /\ (forall k, RS s' k = RS s k + if_eq (ksa r) k (- amt_sa r)) /\
  oa s' = oa s /\ dg s' = dg s /\ ur s' = ur s /\ hold s' = hold s /\ height s' = height s.
Proof.
  intros S H. apply pay_spec in H. destruct H as [(N & s0 & B & ->)|(N & E)].
  - apply bank_send_reads in B. destruct B as (a & b & c & d & e & f). unfold log_ev. simpl.
    split; [apply (srt_of_eq s); assumption|]. split; [|auto 10].
    intro k. unfold RS. simpl. rewrite a. unfold amt_sa. rewrite N. unfold if_eq. destruct (String.eqb _ k); lia.
  - pose proof (upd_sa_srt _ _ _ _ _ _ S E) as S'. destruct (upd_sa_reads _ _ _ _ _ _ S E) as (R & a & b & c & d & e).
    split; [exact S'|]. split; [|auto 10]. intro k. rewrite (R k). unfold amt_sa, ksa. rewrite N. reflexivity.
Qed.

Lemma book_reads s st a tok s' : srt s -> book_pending s st a tok = Some s' ->
  srt s' /\ (forall k, RS s' k = RS s k + if_eq (sa_key st a) k (if is_native a then 0 else tok)) /\
  oa s' = oa s /\ dg s' = dg s /\ ur s' = ur s /\ hold s' = hold s /\ height s' = height s.
Proof.
  intros S H. apply book_spec in H. destruct H as [(N & ->)|(N & E)].
  - split; [exact S|]. split; [|auto 10]. intro k. rewrite N. unfold if_eq. destruct (String.eqb _ k); lia.
  - pose proof (upd_sa_srt _ _ _ _ _ _ S E) as S'. destruct (upd_sa_reads _ _ _ _ _ _ S E) as (R & a1 & b & c & d & e).
    split; [exact S'|]. split; [|auto 10]. intro k. rewrite (R k), N. reflexivity.
Qed.

Lemma take_J0 s st a x s' : srt s /\ agg_inv s -> take_from_staker s st a x = Some s' -> srt s' /\ agg_inv s'.
Proof.
  intros [S A] H. apply take_spec in H. destruct H as [(N & s0 & B & ->)|(N & E)].
  - apply bank_send_reads in B. destruct B as (a1 & b & c & d & e & f). unfold log_ev.
    split; [apply (srt_of_eq s); simpl; assumption|].
    intro k. simpl. rewrite a1, b, c, d. apply A.
  - split; [eapply upd_sa_srt; eauto|]. unfold agg_inv, RS in *.
    destruct (upd_sa_reads _ _ _ _ _ _ S E) as (R & a1 & b & c & _). intro k. destruct (A k) as (A1 & A2 & A3).
    specialize (R k). unfold RS in R. rewrite R, a1, b, c, A1, A2, A3. unfold if_eq. destruct (String.eqb _ k); repeat split; lia.
Qed.

Definition J (s : st) : Prop := srt s /\ agg_inv s.

Lemma agg_inv_R s : agg_inv s <-> forall k, RS s k = pend_sa k (ur s) /\ RO s k = pend_oa k (ur s) /\ RD s k = pend_dg k (ur s).
Proof. unfold agg_inv, RS, RO, RD. tauto. Qed.

Lemma J_ext s1 s2 : sa s1 = sa s2 -> oa s1 = oa s2 -> dg s1 = dg s2 -> ur s1 = ur s2 -> J s1 -> J s2.
Proof. unfold J, srt, agg_inv. intros -> -> -> ->. auto. Qed.

(* ---- the EndBlock loop body ---- *)
Lemma process_J s r : idx_inv s -> J s -> sget (ur s) (rkey r) = Some r -> J (process s r) /\ hold (process s r) = hold s.
Proof.
  intros I [S A] G. pose proof I as (Su & _). rewrite agg_inv_R in A.
  unfold process. destruct (0 <? hold_count s (rkey r)).
  - set (r' := mkUR _ _ _ _ _ (height s + 1) _ _ _).
    destruct (set_record (del_record s r) r') as [s2|] eqn:E; [|split; [split; [assumption|apply agg_inv_R; assumption]|reflexivity]].
    assert (sget (ur (del_record s r)) (rkey r') = None) as Fr by (apply (del_record_fresh s r Su)).
    split.
    + split.
      * destruct (set_record_pend _ _ _ EmptyString Fr E) as (_ & _ & _ & E1 & E2 & E3 & _).
        eapply (srt_ext s); try (symmetry; assumption). assumption.
      * apply agg_inv_R. intro k.
        destruct (set_record_pend _ _ _ k Fr E) as (P1 & P2 & P3 & E1 & E2 & E3 & _).
        destruct (del_record_pend s r k G) as (Q1 & Q2 & Q3). destruct (A k) as (A1 & A2 & A3).
        rewrite P1, P2, P3, Q1, Q2, Q3. unfold RS, RO, RD. rewrite E1, E2, E3.
        unfold del_record; simpl. fold (RS s k) (RO s k) (RD s k). rewrite A1, A2, A3.
        change (ksa r') with (ksa r). change (koa r') with (koa r). change (kdg r') with (kdg r).
        change (ur_amt r') with (ur_amt r). change (amt_sa r') with (amt_sa r). repeat split; lia.
    + destruct (set_record_pend _ _ _ EmptyString Fr E) as (_ & _ & _ & _ & _ & _ & Hh). rewrite Hh. reflexivity.
  - destruct (upd_dg s _ 0 (- ur_amt r)) as [[s1 z]|] eqn:E1; [|split; [split; [assumption|apply agg_inv_R; assumption]|reflexivity]].
    destruct (pay_staker s1 r) as [s2|] eqn:E2; [|split; [split; [assumption|apply agg_inv_R; assumption]|reflexivity]].
    destruct (upd_oa s2 _ 0 (- ur_amt r) 0 0) as [s3|] eqn:E3; [|split; [split; [assumption|apply agg_inv_R; assumption]|reflexivity]].
    pose proof (upd_dg_srt _ _ _ _ _ _ S E1) as S1.
    destruct (pay_reads _ _ _ S1 E2) as (S2 & R2 & a2 & b2 & c2 & h2 & _).
    pose proof (upd_oa_srt _ _ _ _ _ _ _ S2 E3) as S3.
    destruct (upd_dg_reads _ _ _ _ _ _ S E1) as (R1 & a1 & b1 & c1 & h1 & _).
    destruct (upd_oa_reads _ _ _ _ _ _ _ S2 E3) as (R3 & a3 & b3 & c3 & h3 & _).
    split; [|unfold del_record; simpl; congruence].
    split; [eapply (srt_ext s3); try reflexivity; exact S3|].
    apply agg_inv_R. intro k.
    assert (sget (ur s3) (rkey r) = Some r) as G3 by (rewrite c3, c2, c1; exact G).
    destruct (del_record_pend s3 r k G3) as (Q1 & Q2 & Q3). rewrite Q1, Q2, Q3.
    replace (ur s3) with (ur s) by congruence. destruct (A k) as (A1 & A2 & A3).
    unfold del_record. unfold RS, RO, RD. simpl. fold (RS s3 k) (RO s3 k) (RD s3 k).
    rewrite (RS_ext s3 s2 k a3), (R2 k), (RS_ext s1 s k a1), A1.
    rewrite (R3 k), (RO_ext s2 s1 k a2), (RO_ext s1 s k b1), A2.
    rewrite (RD_ext s3 s2 k b3), (RD_ext s2 s1 k b2), (R1 k), A3.
    unfold ksa, koa, kdg, if_eq. repeat split; destruct (String.eqb _ k); lia.
Qed.

Lemma upd_tot_J s a d s' : J s -> upd_tot s a d = Some s' -> J s'.
Proof. intros Hj H. apply upd_tot_spec in H. destruct H as (t & t' & _ & _ & _ & ->). eapply (J_ext s); try reflexivity. assumption. Qed.

Lemma upd_sa_J0 s k0 dt dw s' : J s -> upd_sa s k0 dt dw 0 = Some s' -> J s'.
Proof.
  intros [S A] H. split; [eapply upd_sa_srt; eauto|]. rewrite agg_inv_R in *.
  destruct (upd_sa_reads _ _ _ _ _ _ S H) as (R & a & b & c & _). intro k. destruct (A k) as (A1 & A2 & A3).
  rewrite (R k), (RO_ext s' s k a), (RD_ext s' s k b), c, A1, A2, A3. unfold if_eq. destruct (String.eqb k0 k); repeat split; lia.
Qed.
Lemma upd_oa_J0 s k0 da dts dos s' : J s -> upd_oa s k0 da 0 dts dos = Some s' -> J s'.
Proof.
  intros [S A] H. split; [eapply upd_oa_srt; eauto|]. rewrite agg_inv_R in *.
  destruct (upd_oa_reads _ _ _ _ _ _ _ S H) as (R & a & b & c & _). intro k. destruct (A k) as (A1 & A2 & A3).
  rewrite (R k), (RS_ext s' s k a), (RD_ext s' s k b), c, A1, A2, A3. unfold if_eq. destruct (String.eqb k0 k); repeat split; lia.
Qed.
Lemma upd_dg_J0 s k0 dsh s' z : J s -> upd_dg s k0 dsh 0 = Some (s', z) -> J s'.
Proof.
  intros [S A] H. split; [eapply upd_dg_srt; eauto|]. rewrite agg_inv_R in *.
  destruct (upd_dg_reads _ _ _ _ _ _ S H) as (R & a & b & c & _). intro k. destruct (A k) as (A1 & A2 & A3).
  rewrite (R k), (RS_ext s' s k a), (RO_ext s' s k b), c, A1, A2, A3. unfold if_eq. destruct (String.eqb k0 k); repeat split; lia.
Qed.

Lemma log_ev_J e s : J s -> J (log_ev e s).
Proof. apply J_ext; reflexivity. Qed.

Lemma deposit_J_lst s st a x s' : J s -> deposit_lst s st a x = Some s' -> J s'.
Proof.
  intros Hj H. unfold deposit_lst in H. dmatch H. inversion H; subst; clear H.
  apply log_ev_J. eapply upd_tot_J; [|eassumption]. eapply upd_sa_J0; eassumption.
Qed.
Lemma deposit_J s st a x s' : J s -> deposit s st a x = Some s' -> J s'.
Proof.
  intros Hj H. apply deposit_shape in H. destruct H as [(_ & ->)|(_ & H)]; [exact Hj|]. eapply deposit_J_lst; eauto.
Qed.
Lemma withdraw_J_lst s st a x s' : J s -> withdraw_lst s st a x = Some s' -> J s'.
Proof.
  intros Hj H. unfold withdraw_lst in H. dmatch H. inversion H; subst; clear H.
  apply log_ev_J. eapply upd_tot_J; [|eassumption]. eapply upd_sa_J0; eassumption.
Qed.
Lemma withdraw_J s st a x s' : J s -> withdraw s st a x = Some s' -> J s'.
Proof.
  intros Hj H. apply withdraw_shape in H. destruct H as [(_ & ->)|(_ & H)]; [exact Hj|]. eapply withdraw_J_lst; eauto.
Qed.
Lemma delegate_J s st a op x s' : J s -> delegate s st a op x = Some s' -> J s'.
Proof.
  intros Hj H. unfold delegate in H.
  destruct (x <=? 0); [discriminate|]. destruct (negb (mem op (operators s))); [discriminate|].
  destruct (take_from_staker s st a x) as [s1|] eqn:E1; [|discriminate].
  match type of H with match ?e with _ => _ end = _ => destruct e as [sh|]; [|discriminate] end.
  destruct (upd_oa s1 (oa_key op a) x 0 sh 0) as [s2|] eqn:E2; [|discriminate].
  destruct (upd_dg s2 (dg_key st a op) sh 0) as [[s3 z]|] eqn:E3; [|discriminate].
  inversion H; subst; clear H.
  assert (J s3) as J3 by (eapply upd_dg_J0; [|eassumption]; eapply upd_oa_J0; [|eassumption]; exact (take_J0 _ _ _ _ _ Hj E1)).
  unfold append_staker. destruct (mem st _); [assumption|]. eapply (J_ext s3); try reflexivity. assumption.
Qed.

Lemma undelegate_J s st a op x n tx s' r : idx_inv s -> J s ->
  fresh_op s (Undelegate st a op x n tx) = true -> undelegate s st a op x n tx = Some (s', r) -> J s'.
Proof.
  intros I [S A] Fr H. simpl in Fr. apply has_key_false in Fr. unfold undelegate in H.
  destruct (x <=? 0); [discriminate|]. destruct (negb (mem op (operators s))); [discriminate|].
  destruct (sget (dg s) (dg_key st a op)) as [d|]; [|discriminate].
  destruct (sget (oa s) (oa_key op a)) as [o|] eqn:Eo; [|discriminate].
  destruct (shares_from_tokens (oa_tsh o) x (oa_amt o)) as [sh0|]; [|discriminate].
  match type of H with (if ?c then _ else _) = _ => destruct c; [discriminate|] end.
  destruct (shares_from_tokens (oa_tsh o) 1 (oa_amt o)) as [tol|]; [|discriminate].
  set (sh := if sh0 >? dg_sh d then dg_sh d else if dg_sh d - sh0 <? tol then dg_sh d else sh0) in *.
  destruct (sh <=? 0); [discriminate|]. destruct (sh >? oa_tsh o); [discriminate|].
  match type of H with match ?e with _ => _ end = _ => destruct e as [tok|]; [|discriminate] end.
  destruct (upd_oa s (oa_key op a) (- tok) tok (- sh) 0) as [s1|] eqn:E1; [|discriminate].
  destruct (book_pending s1 st a tok) as [s2|] eqn:E2; [|discriminate].
  destruct (upd_dg s2 (dg_key st a op) (- sh) tok) as [[s3 z]|] eqn:E3; [|discriminate].
  match type of H with match ?e with _ => _ end = _ => destruct e as [s4|] eqn:E4; [|discriminate] end.
  match type of H with match set_record s4 ?rr with _ => _ end = _ => set (r0 := rr) in *;
    destruct (set_record s4 r0) as [s5|] eqn:E5; [|discriminate] end.
  pose proof (upd_oa_srt _ _ _ _ _ _ _ S E1) as S1.
  destruct (book_reads _ _ _ _ _ S1 E2) as (S2 & R2 & a2 & b2 & c2 & _).
  pose proof (upd_dg_srt _ _ _ _ _ _ S2 E3) as S3.
  destruct (upd_oa_reads _ _ _ _ _ _ _ S E1) as (R1 & a1 & b1 & c1 & _).
  destruct (upd_dg_reads _ _ _ _ _ _ S2 E3) as (R3 & a3 & b3 & c3 & _).
  assert (sa s4 = sa s3 /\ oa s4 = oa s3 /\ dg s4 = dg s3 /\ ur s4 = ur s3) as (a4 & b4 & c4 & d4).
  { destruct z; [|inversion E4; subst; auto]. unfold delete_staker in E4.
    destruct (sget (sl s3) _); [|discriminate]. inversion E4; subst. simpl. auto. }
  assert (sget (ur s4) (rkey r0) = None) as Fr4 by (rewrite d4, c3, c2, c1; exact Fr).
  assert (J s5) as J5.
  { split.
    - destruct (set_record_pend _ _ _ EmptyString Fr4 E5) as (_ & _ & _ & e1 & e2 & e3 & _).
      eapply (srt_ext s3); [congruence|congruence|congruence|assumption].
    - apply agg_inv_R. rewrite agg_inv_R in A. intro k.
      destruct (set_record_pend _ _ _ k Fr4 E5) as (P1 & P2 & P3 & e1 & e2 & e3 & _).
      destruct (A k) as (A1 & A2 & A3).
      rewrite P1, P2, P3. replace (ur s4) with (ur s) by congruence.
      rewrite (RS_ext s5 s2 k) by congruence. rewrite (R2 k), (RS_ext s1 s k a1), A1.
      rewrite (RO_ext s5 s1 k) by congruence. rewrite (R1 k), A2.
      rewrite (RD_ext s5 s3 k) by congruence. rewrite (R3 k), (RD_ext s2 s1 k b2), (RD_ext s1 s k b1), A3.
      unfold r0, ksa, koa, kdg, amt_sa. simpl. repeat split; lia. }
  destruct (mem op (validators s)).
  - unfold hold_inc in H. destruct (hold_count s5 (rkey r0) =? max_u64); [discriminate|]. inversion H; subst.
    eapply (J_ext s5); try reflexivity. assumption.
  - inversion H; subst. assumption.
Qed.

Lemma genesis_load_J s r : idx_inv s -> J s -> is_native (ur_asset r) = false -> negb (has_key (ur s) (rkey r)) = true -> J (fst (genesis_load s r)).
Proof.
  intros I Hj Nat Fr. apply has_key_false in Fr. unfold genesis_load.
  destruct ((ur_amt r <=? 0) || negb (ur_act r =? ur_amt r)); [exact Hj|].
  destruct (deposit s (ur_staker r) (ur_asset r) (ur_amt r)) as [s0|] eqn:E0; [|exact Hj].
  destruct (upd_sa s0 _ 0 (- ur_amt r) (ur_amt r)) as [s1|] eqn:E1; [|exact Hj].
  destruct (upd_oa s1 _ 0 (ur_amt r) 0 0) as [s2|] eqn:E2; [|exact Hj].
  destruct (upd_dg s2 _ 0 (ur_amt r)) as [[s3 z]|] eqn:E3; [|exact Hj].
  destruct (set_record s3 r) as [s5|] eqn:E5; [|exact Hj]. simpl.
  pose proof (deposit_J _ _ _ _ _ Hj E0) as [S0 A0].
  pose proof (deposit_frame _ _ _ _ _ E0) as (u0 & _).
  pose proof (upd_sa_srt _ _ _ _ _ _ S0 E1) as S1. pose proof (upd_oa_srt _ _ _ _ _ _ _ S1 E2) as S2.
  pose proof (upd_dg_srt _ _ _ _ _ _ S2 E3) as S3.
  destruct (upd_sa_reads _ _ _ _ _ _ S0 E1) as (R1 & a1 & b1 & c1 & _).
  destruct (upd_oa_reads _ _ _ _ _ _ _ S1 E2) as (R2 & a2 & b2 & c2 & _).
  destruct (upd_dg_reads _ _ _ _ _ _ S2 E3) as (R3 & a3 & b3 & c3 & _).
  assert (sget (ur s3) (rkey r) = None) as Fr3 by (rewrite c3, c2, c1, u0; exact Fr).
  split.
  - destruct (set_record_pend _ _ _ EmptyString Fr3 E5) as (_ & _ & _ & e1 & e2 & e3 & _).
    eapply (srt_ext s3); [congruence|congruence|congruence|assumption].
  - apply agg_inv_R. rewrite agg_inv_R in A0. intro k.
    destruct (set_record_pend _ _ _ k Fr3 E5) as (P1 & P2 & P3 & e1 & e2 & e3 & _).
    destruct (A0 k) as (A1 & A2 & A3).
    rewrite P1, P2, P3. replace (ur s3) with (ur s0) by congruence.
    rewrite (RS_ext s5 s1 k) by congruence. rewrite (R1 k), A1.
    rewrite (RO_ext s5 s2 k) by congruence. rewrite (R2 k), (RO_ext s1 s0 k a1), A2.
    rewrite (RD_ext s5 s3 k) by congruence. rewrite (R3 k), (RD_ext s2 s1 k b2), (RD_ext s1 s0 k b1), A3.
    unfold ksa, koa, kdg, amt_sa. rewrite Nat. repeat split; lia.
Qed.

Lemma slash_rec_fun_agg op eh prop k r :
  ksa (slash_rec_fun op eh prop k r) = ksa r /\ koa (slash_rec_fun op eh prop k r) = koa r /\
  kdg (slash_rec_fun op eh prop k r) = kdg r /\ ur_amt (slash_rec_fun op eh prop k r) = ur_amt r /\
  amt_sa (slash_rec_fun op eh prop k r) = amt_sa r.
Proof.
  unfold slash_rec_fun. destruct (_ && _); [|auto 10].
  pose proof (slash_record_keys prop r) as (_ & _ & _ & _ & _ & A & B & C & D).
  unfold ksa, koa, kdg, amt_sa. rewrite A, B, C, D. auto 10.
Qed.

Lemma slash_J s op eh prop s' : J s -> slash s op eh prop = Some s' -> J s'.
Proof.
  intros [(Ss & So & Sd) A] H. unfold slash in H.
  destruct ((prop <? 0) || (prop >? P)); [discriminate|].
  destruct (slash_pools op prop (oa s) (dg s) (sl s)) as [[[o' d'] l'] ev2] eqn:E2.
  destruct (slash_pools_keys _ _ _ _ _ _ _ _ _ Sd E2) as [Ko Sd'].
  assert (forall k, pend_sa k (fst (if eh <=? height s then slash_records op eh prop (ur s) else (ur s, []))) = pend_sa k (ur s) /\
                    pend_oa k (fst (if eh <=? height s then slash_records op eh prop (ur s) else (ur s, []))) = pend_oa k (ur s) /\
                    pend_dg k (fst (if eh <=? height s then slash_records op eh prop (ur s) else (ur s, []))) = pend_dg k (ur s)) as PU.
  { intro k. destruct (eh <=? height s); [|simpl; auto]. rewrite slash_records_map.
    unfold pend_sa, pend_oa, pend_dg.
    repeat split; apply ssumk_map_vals; intros k0 v; destruct (slash_rec_fun_agg op eh prop k0 v) as (a & b & c & d & e);
      fold (ksa (slash_rec_fun op eh prop k0 v)) (koa (slash_rec_fun op eh prop k0 v)) (kdg (slash_rec_fun op eh prop k0 v));
      fold (ksa v) (koa v) (kdg v); rewrite ?a, ?b, ?c, ?d, ?e; reflexivity. }
  destruct (if eh <=? height s then slash_records op eh prop (ur s) else (ur s, [])) as [u' ev1].
  inversion H; subst; clear H. split.
  - unfold srt. simpl. repeat split; [assumption | unfold sorted; rewrite Ko; exact So | assumption].
  - intro k. simpl. destruct (PU k) as (P1 & P2 & P3). simpl in P1, P2, P3. rewrite P1, P2, P3.
    destruct (slash_pools_pend _ _ _ _ _ _ _ _ _ k Sd E2) as [Q1 Q2]. rewrite Q1, Q2. apply A.
Qed.

(* ---------- aggregates ---------- *)
Lemma with_act_J s rk r x : sorted (ur s) -> J s -> sget (ur s) rk = Some r -> J (w_ur (sset (ur s) rk (with_act r x)) s).
Proof.
  intros Su [S A] G. split; [exact S|]. intro k. simpl. destruct (A k) as (A1 & A2 & A3).
  unfold pend_sa, pend_oa, pend_dg in *. rewrite !ssumk_sset. unfold old_of. rewrite G.
  change (amt_sa (with_act r x)) with (amt_sa r). change (ur_amt (with_act r x)) with (ur_amt r).
  change (ur_staker (with_act r x)) with (ur_staker r). change (ur_asset (with_act r x)) with (ur_asset r).
  change (ur_op (with_act r x)) with (ur_op r).
  split; [|split]; [rewrite A1 | rewrite A2 | rewrite A3]; ring.
Qed.

Lemma record_step_J s sk pend rk s2 p' : idx_inv s -> J s -> nst_record_step s sk pend rk = Some (s2, p') -> J s2.
Proof.
  intros I Hj H. apply record_step_shape in H. destruct H as (r & s1 & G & _ & H). simpl in H. destruct H as (U & ->).
  pose proof (upd_sa_J0 _ _ _ _ _ Hj U) as J1. pose proof I as (Su & _).
  apply upd_sa_frame in U. destruct U as (u & _).
  apply log_ev_J. apply with_act_J; [rewrite u; exact Su | exact J1 | rewrite u; exact G].
Qed.

Lemma share_step_J s st a prop k row s' : J s -> nst_share_step s st a prop k row = Some s' -> J s'.
Proof.
  intros Hj H. apply share_step_shape in H. destruct H as (o & sh & tok & s1 & s2 & z & s3 & s4 & H). simpl in H.
  destruct H as (_ & _ & _ & _ & U1 & U2 & U3 & U4 & ->). apply log_ev_J.
  eapply upd_sa_J0; [|exact U4].
  assert (J s2) as J2 by (eapply upd_dg_J0; [|exact U2]; eapply upd_oa_J0; eauto).
  destruct z; [|inversion U3; subst; exact J2]. unfold delete_staker in U3.
  destruct (sget (sl s2) _); [|discriminate]. inversion U3; subst. eapply (J_ext s2); try reflexivity. exact J2.
Qed.

Lemma nst_balance_J s st a x s' : idx_inv s -> J s -> nst_balance s st a x = Some s' -> J s'.
Proof.
  intros I Hj H. apply (nst_balance_P (fun s0 => idx_inv s0 /\ J s0) s st a x s' (conj I Hj)); try exact H.
  - intros s1 _ U. split; [pose proof U as U'; apply upd_sa_frame in U'; destruct U' as (u & p & h & _); eapply (idx_inv_ext s); eauto|].
    apply log_ev_J. eapply upd_sa_J0; eauto.
  - intros info f s1 _ _ _ U. split; [pose proof U as U'; apply upd_sa_frame in U'; destruct U' as (u & p & h & _); eapply (idx_inv_ext s); eauto|].
    apply log_ev_J. eapply upd_sa_J0; eauto.
  - intros s0 pend rk s2 p' _ [I0 J0] E. split; [eapply record_step_idx; eauto | eapply record_step_J; eauto].
  - intros prop s0 k row s2 [I0 J0] E. split; [|eapply share_step_J; eauto].
    apply share_step_frame in E. destruct E as (u & p & _ & h & _). eapply (idx_inv_ext s0); eauto.
Qed.

Lemma step_J s o : idx_inv s -> J s -> wf_op o = true -> fresh_op s o = true -> J (fst (step s o)).
Proof.
  intros I Hj Wf Fr. destruct o; simpl.
  - destruct (deposit s staker asset x) as [s'|] eqn:E; simpl; [|exact Hj]. eapply deposit_J; eauto.
  - destruct (withdraw s staker asset x) as [s'|] eqn:E; simpl; [|exact Hj]. eapply withdraw_J; eauto.
  - destruct (delegate s staker asset operator x) as [s'|] eqn:E; simpl; [|exact Hj]. eapply delegate_J; eauto.
  - destruct (undelegate s staker asset operator x nonce tx) as [[s' r]|] eqn:E; simpl; [|exact Hj].
    eapply undelegate_J; eauto.
  - simpl in Wf. apply andb_prop in Wf. destruct Wf as [_ Nn]. apply negb_true_iff in Nn. apply genesis_load_J; assumption.
  - destruct prop as [p|]; simpl; [|exact Hj].
    destruct (slash s operator eh p) as [s'|] eqn:E; simpl; [|exact Hj]. eapply slash_J; eauto.
  - unfold hold_inc. destruct (_ =? _); simpl; [exact Hj|]. eapply (J_ext s); try reflexivity. exact Hj.
  - unfold hold_dec. destruct (_ =? _); simpl; [exact Hj|]. eapply (J_ext s); try reflexivity. exact Hj.
  - destruct (end_block_idx J (fun s0 r I0 G J0 => proj1 (process_J s0 r I0 J0 G))
                (fun s0 h J0 => J_ext s0 (w_height h s0) eq_refl eq_refl eq_refl eq_refl J0) s I Hj) as (_ & Q & _).
    exact Q.
  - destruct (nst_balance s staker asset x) as [s'|] eqn:E; simpl; [|exact Hj]. eapply nst_balance_J; eauto.
  - exact Hj.
Qed.

Lemma run_J ops : forall s, idx_inv s -> J s -> hist_ok s ops = true -> J (run ops s).
Proof.
  induction ops as [|o r IH]; intros s I Hj H; simpl; [assumption|].
  simpl in H. rewrite !andb_true_iff in H. destruct H as [[Wf Fr] Hr].
  apply IH; [apply step_idx; assumption | apply step_J; assumption | assumption].
Qed.

Lemma empty_J h o v assets : J (empty_st h o v assets).
Proof.
  split; [unfold srt, empty_st; simpl; repeat split; apply sorted_nil|].
  intro k. unfold empty_st, sa_oldS, oa_oldS, dg_oldS, pend_sa, pend_oa, pend_dg, ssumk. simpl. auto.
Qed.
