(* Ledger/LedgerLemmas.v — store-sum lemmas and the effect of the primitive updates (shared by C01 and C03). *)
From Coq Require Import List String Ascii Bool ZArith Lia.
From Exo Require Import Base.Store Base.IntDec Base.Util Ledger.Ledger Ledger.Strings.
Import ListNotations.
Local Open Scope string_scope.
Local Open Scope Z_scope.

(* ---------- sums over stores: no sortedness needed, sset/sdel/sget walk the same path ---------- *)
Definition old_of {V} (g : string -> V -> Z) (s : store V) (k : string) : Z :=
  match sget s k with Some o => g k o | None => 0 end.

Lemma ssumk_sset {V} (g : string -> V -> Z) s k v :
  ssumk g (sset s k v) = ssumk g s - old_of g s k + g k v.
Proof.
  unfold ssumk, old_of. induction s as [|[k' v'] r IH]; simpl; [lia|].
  destruct (scmp k k') eqn:E; simpl.
  - apply scmp_eq in E. subst k'. lia.
  - lia.
  - rewrite IH. lia.
Qed.

Lemma ssumk_sdel {V} (g : string -> V -> Z) s k :
  ssumk g (sdel s k) = ssumk g s - old_of g s k.
Proof.
  unfold ssumk, old_of. induction s as [|[k' v'] r IH]; simpl; [lia|].
  destruct (scmp k k') eqn:E; simpl.
  - apply scmp_eq in E. subst k'. lia.
  - lia.
  - rewrite IH. lia.
Qed.

(* ---------- Forall-style facts over stores ---------- *)
Lemma allv_sset {V} (f : V -> bool) s k v : allv f s = true -> f v = true -> allv f (sset s k v) = true.
Proof.
  unfold allv. induction s as [|[k' v'] r IH]; simpl; intros H Hv.
  - rewrite Hv. reflexivity.
  - apply andb_prop in H. destruct H as [H1 H2].
    destruct (scmp k k'); simpl; rewrite ?Hv, ?H1, ?H2; simpl; auto.
Qed.

Lemma allv_sdel {V} (f : V -> bool) s k : allv f s = true -> allv f (sdel s k) = true.
Proof.
  unfold allv. induction s as [|[k' v'] r IH]; simpl; intros H; [reflexivity|].
  apply andb_prop in H. destruct H as [H1 H2].
  destruct (scmp k k'); simpl; rewrite ?H1, ?H2; simpl; auto.
Qed.

Lemma allv_sget {V} (f : V -> bool) s k v : allv f s = true -> sget s k = Some v -> f v = true.
Proof.
  unfold allv. induction s as [|[k' v'] r IH]; simpl; intros H G; [discriminate|].
  apply andb_prop in H. destruct H as [H1 H2].
  destruct (scmp k k'); try discriminate; [inversion G; subst; assumption | auto].
Qed.

(* ---------- upd_val ---------- *)
Lemma upd_val_spec v d v' : upd_val v d = Some v' -> v' = v + d /\ (0 <= v -> 0 <= v').
Proof.
  unfold upd_val. intros H.
  destruct (d <? 0) eqn:E1; destruct (v <? - d) eqn:E2; simpl in H; inversion H; subst;
    try apply Z.ltb_lt in E1; try apply Z.ltb_ge in E1; try apply Z.ltb_ge in E2; split; lia.
Qed.

(* ---------- primitive updates: what they write ---------- *)
Definition sa_oldS (S : store sa_row) k := match sget S k with Some r => r | None => mkSA 0 0 0 end.
Definition oa_oldS (S : store oa_row) k := match sget S k with Some r => r | None => mkOA 0 0 0 0 end.
Definition dg_oldS (S : store dg_row) k := match sget S k with Some r => r | None => mkDG 0 0 end.
Notation sa_old s k := (sa_oldS (sa s) k).
Notation oa_old s k := (oa_oldS (oa s) k).
Notation dg_old s k := (dg_oldS (dg s) k).

Lemma upd_sa_spec s k dt dw dp s' : upd_sa s k dt dw dp = Some s' ->
  exists r', s' = w_sa (sset (sa s) k r') s /\
    sa_total r' = sa_total (sa_old s k) + dt /\ sa_wd r' = sa_wd (sa_old s k) + dw /\ sa_pend r' = sa_pend (sa_old s k) + dp /\
    (sa_nn (sa_old s k) = true -> sa_nn r' = true).
Proof.
  unfold upd_sa. fold (sa_oldS (sa s) k). intro H.
  destruct (upd_val (sa_total (sa_old s k)) dt) as [t|] eqn:E1; [|discriminate].
  destruct (upd_val (sa_wd (sa_old s k)) dw) as [w|] eqn:E2; [|discriminate].
  destruct (upd_val (sa_pend (sa_old s k)) dp) as [p|] eqn:E3; [|discriminate].
  inversion H; subst. apply upd_val_spec in E1, E2, E3.
  exists (mkSA t w p). simpl. repeat split; try tauto.
  unfold sa_nn. simpl. intro N. apply andb_prop in N. destruct N as [N N3]. apply andb_prop in N. destruct N as [N1 N2].
  apply Z.leb_le in N1, N2, N3. rewrite !andb_true_iff, !Z.leb_le. intuition lia.
Qed.

Lemma upd_oa_spec s k da dp dts dos s' : upd_oa s k da dp dts dos = Some s' ->
  exists r', s' = w_oa (sset (oa s) k r') s /\
    oa_amt r' = oa_amt (oa_old s k) + da /\ oa_pend r' = oa_pend (oa_old s k) + dp /\
    oa_tsh r' = oa_tsh (oa_old s k) + dts /\ oa_osh r' = oa_osh (oa_old s k) + dos /\
    (oa_nn (oa_old s k) = true -> oa_nn r' = true).
Proof.
  unfold upd_oa. fold (oa_oldS (oa s) k). intro H.
  destruct (upd_val (oa_amt (oa_old s k)) da) as [a|] eqn:E1; [|discriminate].
  destruct (upd_val (oa_pend (oa_old s k)) dp) as [p|] eqn:E2; [|discriminate].
  destruct (upd_val (oa_tsh (oa_old s k)) dts) as [ts|] eqn:E3; [|discriminate].
  destruct (upd_val (oa_osh (oa_old s k)) dos) as [os|] eqn:E4; [|discriminate].
  inversion H; subst. apply upd_val_spec in E1, E2, E3, E4.
  exists (mkOA a p ts os). simpl. repeat split; try tauto.
  unfold oa_nn. simpl. rewrite !andb_true_iff, !Z.leb_le. intuition lia.
Qed.

Lemma upd_dg_spec s k dsh dw s' z : upd_dg s k dsh dw = Some (s', z) ->
  exists r', s' = w_dg (sset (dg s) k r') s /\
    dg_sh r' = dg_sh (dg_old s k) + dsh /\ dg_wait r' = dg_wait (dg_old s k) + dw /\
    (dg_nn (dg_old s k) = true -> dg_nn r' = true).
Proof.
  unfold upd_dg. fold (dg_oldS (dg s) k). intro H.
  destruct (upd_val (dg_wait (dg_old s k)) dw) as [w|] eqn:E1; [|discriminate].
  destruct (upd_val (dg_sh (dg_old s k)) dsh) as [sh|] eqn:E2; [|discriminate].
  inversion H; subst. apply upd_val_spec in E1, E2.
  exists (mkDG sh w). simpl. repeat split; try tauto.
  unfold dg_nn. simpl. rewrite !andb_true_iff, !Z.leb_le. intuition lia.
Qed.

Lemma upd_tot_spec s a d s' : upd_tot s a d = Some s' ->
  exists t t', sget (tot s) a = Some t /\ t' = t + d /\ (0 <= t -> 0 <= t') /\ s' = w_tot (sset (tot s) a t') s.
Proof.
  unfold upd_tot. intro H. destruct (sget (tot s) a) as [t|] eqn:E; [|discriminate].
  destruct (upd_val t d) as [t'|] eqn:E1; [|discriminate]. inversion H; subst.
  apply upd_val_spec in E1. exists t, t'. intuition.
Qed.

(* ---------- value of a row update ---------- *)
Lemma value_wd_sset a S k r' :
  value_wd a (sset S k r') = value_wd a S + if_asset a k (sa_wd r' - sa_wd (sa_oldS S k)).
Proof.
  unfold value_wd. rewrite ssumk_sset. unfold old_of, sa_oldS, if_asset.
  destruct (sget S k); destruct (String.eqb (key_asset k) a); simpl; lia.
Qed.

Lemma value_pool_sset a S k r' :
  value_pool a (sset S k r') = value_pool a S + if_asset a k (oa_amt r' - oa_amt (oa_oldS S k)).
Proof.
  unfold value_pool. rewrite ssumk_sset. unfold old_of, oa_oldS, if_asset.
  destruct (sget S k); destruct (String.eqb (key_asset k) a); simpl; lia.
Qed.

Lemma value_rec_sset a S k r' :
  value_rec a (sset S k r') = value_rec a S + if_eq (ur_asset r') a (ur_act r')
                              - match sget S k with Some o => if_eq (ur_asset o) a (ur_act o) | None => 0 end.
Proof. unfold value_rec. rewrite ssumk_sset. unfold old_of. destruct (sget S k); lia. Qed.

Lemma value_rec_sdel a S k :
  value_rec a (sdel S k) = value_rec a S - match sget S k with Some o => if_eq (ur_asset o) a (ur_act o) | None => 0 end.
Proof. unfold value_rec. rewrite ssumk_sdel. unfold old_of. destruct (sget S k); lia. Qed.

Lemma tot_of_sset a s k t t' : sget s k = Some t -> tot_of a (sset s k t') = tot_of a s + if_eq k a (t' - t).
Proof.
  intro H. unfold tot_of. rewrite ssumk_sset. unfold old_of, if_eq. rewrite H.
  destruct (String.eqb k a); lia.
Qed.

Lemma if_asset_join a x y z : no_slash x = true -> if_asset a (join2 x y) z = if_eq y a z.
Proof. intro H. unfold if_asset, if_eq. rewrite key_asset_join by assumption. reflexivity. Qed.

(* destruct the innermost match/if of a hypothesis, discarding impossible branches *)
Ltac dmatch H :=
  repeat match type of H with
  | context [match ?x with _ => _ end] =>
      lazymatch x with
      | context [match _ with _ => _ end] => fail
      | _ => destruct x eqn:?; try discriminate H
      end
  end.

(* ---------- the three native / non-native difference points ---------- *)
Lemma bank_send_spec s f t x s0 : bank_send s f t x = Some s0 ->
  exists b B, sget (bank s) f = Some b /\ x <= b /\ s0 = w_bank B s /\
    B = sset (sset (bank s) f (b - x)) t (match sget (sset (bank s) f (b - x)) t with Some y => y | None => 0 end + x).
Proof.
  unfold bank_send. destruct (sget (bank s) f) as [b|]; [|discriminate].
  destruct (b <? x) eqn:E; [discriminate|]. apply Z.ltb_ge in E. intro H; inversion H; subst. eauto 10.
Qed.

Lemma take_spec s st a x s1 : take_from_staker s st a x = Some s1 ->
  (is_native a = true /\ exists s0, bank_send s st pool_key x = Some s0 /\ s1 = log_ev (GEscIn a x) s0) \/
  (is_native a = false /\ upd_sa s (sa_key st a) 0 (- x) 0 = Some s1).
Proof.
  unfold take_from_staker. destruct (is_native a).
  - destruct (bank_send s st pool_key x) as [s0|]; [|discriminate]. intro H; inversion H; subst. left; eauto.
  - destruct (sget (sa s) (sa_key st a)) as [info|]; [|discriminate].
    destruct (sa_wd info <? x); [discriminate|]. intro H. right; auto.
Qed.

Lemma book_spec s st a tok s1 : book_pending s st a tok = Some s1 ->
  (is_native a = true /\ s1 = s) \/ (is_native a = false /\ upd_sa s (sa_key st a) 0 0 tok = Some s1).
Proof. unfold book_pending. destruct (is_native a); intro H; [inversion H; subst; left; auto | right; auto]. Qed.

Lemma pay_spec s r s1 : pay_staker s r = Some s1 ->
  (is_native (ur_asset r) = true /\ exists s0, bank_send s pool_key (ur_staker r) (ur_act r) = Some s0 /\
                                               s1 = log_ev (GEscOut (ur_asset r) (ur_act r)) s0) \/
  (is_native (ur_asset r) = false /\ upd_sa s (sa_key (ur_staker r) (ur_asset r)) 0 (ur_act r) (- ur_amt r) = Some s1).
Proof.
  unfold pay_staker. destruct (is_native (ur_asset r)).
  - destruct (bank_send s pool_key (ur_staker r) (ur_act r)) as [s0|]; [|discriminate]. intro H; inversion H; subst. left; eauto.
  - intro H. right; auto.
Qed.

(* what none of the three touches *)
Definition same_but_sa_bank_log (s s' : st) : Prop :=
  ur s' = ur s /\ pidx s' = pidx s /\ height s' = height s /\ hold s' = hold s /\ sidx s' = sidx s /\
  oa s' = oa s /\ dg s' = dg s /\ tot s' = tot s /\ sl s' = sl s /\ operators s' = operators s /\ validators s' = validators s.

Lemma upd_sa_same s k a b c s' : upd_sa s k a b c = Some s' -> same_but_sa_bank_log s s'.
Proof. intro H. apply upd_sa_spec in H. destruct H as (r & -> & _). unfold same_but_sa_bank_log. simpl. auto 20. Qed.

Lemma bank_send_same s f t x s0 : bank_send s f t x = Some s0 -> same_but_sa_bank_log s s0 /\ sa s0 = sa s /\ glog s0 = glog s.
Proof. intro H. apply bank_send_spec in H. destruct H as (b & B & _ & _ & -> & _). unfold same_but_sa_bank_log. simpl. auto 20. Qed.

Lemma take_same s st a x s1 : take_from_staker s st a x = Some s1 -> same_but_sa_bank_log s s1.
Proof.
  intro H. apply take_spec in H. destruct H as [(_ & s0 & B & ->)|(_ & U)]; [|eapply upd_sa_same; eauto].
  apply bank_send_same in B. destruct B as (F & _). unfold same_but_sa_bank_log, log_ev in *. simpl. exact F.
Qed.
Lemma book_same s st a x s1 : book_pending s st a x = Some s1 -> same_but_sa_bank_log s s1.
Proof.
  intro H. apply book_spec in H. destruct H as [(_ & ->)|(_ & U)]; [|eapply upd_sa_same; eauto].
  unfold same_but_sa_bank_log. auto 20.
Qed.
Lemma pay_same s r s1 : pay_staker s r = Some s1 -> same_but_sa_bank_log s s1.
Proof.
  intro H. apply pay_spec in H. destruct H as [(_ & s0 & B & ->)|(_ & U)]; [|eapply upd_sa_same; eauto].
  apply bank_send_same in B. destruct B as (F & _). unfold same_but_sa_bank_log, log_ev in *. simpl. exact F.
Qed.

Lemma deposit_shape s st a x s' : deposit s st a x = Some s' ->
  (is_native a = true /\ s' = s) \/ (is_native a = false /\ deposit_lst s st a x = Some s').
Proof.
  unfold deposit, deposit_native. destruct (is_native a); [|auto].
  destruct (x <? 0); [discriminate|]. destruct (sget (tot s) a); [|discriminate]. intro H; inversion H; auto.
Qed.
Lemma withdraw_shape s st a x s' : withdraw s st a x = Some s' ->
  (is_native a = true /\ s' = s) \/ (is_native a = false /\ withdraw_lst s st a x = Some s').
Proof.
  unfold withdraw, deposit_native. destruct (is_native a); [|auto].
  destruct (x <? 0); [discriminate|]. destruct (sget (tot s) a); [|discriminate]. intro H; inversion H; auto.
Qed.
