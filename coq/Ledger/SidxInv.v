(* Ledger/SidxInv.v — the staker-index invariant: every staker-index entry (staker/asset/hex(nonce) -> record key) points to
   a live record whose own (staker, asset, nonce) is the entry's key. (The converse - every record has its entry - is what
   the staker-index collision finding breaks: two records with equal staker/asset/nonce share one entry.) *)
From Coq Require Import List String Ascii Bool ZArith Lia Sorting.Sorted.
From Exo Require Import Base.Store Base.IntDec Base.Util Ledger.Ledger Ledger.Strings Ledger.LedgerLemmas Ledger.IndexInv.
Import ListNotations.
Local Open Scope string_scope.
Local Open Scope Z_scope.

Definition Isinv (u : store urec) (x : store string) : Prop :=
  forall k rk, sget x k = Some rk -> exists r, sget u rk = Some r /\ k = skey r.
Definition sidx_inv (s : st) : Prop := sorted (sidx s) /\ Isinv (ur s) (sidx s).

Lemma sidx_inv_ext s1 s2 : ur s2 = ur s1 -> sidx s2 = sidx s1 -> sidx_inv s1 -> sidx_inv s2.
Proof. unfold sidx_inv. intros -> ->. auto. Qed.

Lemma set_record_sidx s r s' : sorted (ur s) -> sidx_inv s -> sget (ur s) (rkey r) = None -> set_record s r = Some s' -> sidx_inv s'.
Proof.
  intros Su [Sx Is] Fr H. unfold set_record in H. destruct (ur_cn r <? height s); [discriminate|]. rewrite Fr in H.
  inversion H; subst; clear H. unfold sidx_inv. simpl. split; [apply sset_sorted; assumption|].
  intros k rk G. destruct (string_dec (skey r) k) as [<-|Ne].
  - rewrite sget_sset_same in G. inversion G; subst. exists r. rewrite sget_sset_same. auto.
  - rewrite sget_sset_other in G by assumption. destruct (Is _ _ G) as (r2 & G2 & ->).
    exists r2. split; [|reflexivity]. rewrite sget_sset_other; [assumption|assumption|].
    intro Eq. rewrite <- Eq in G2. congruence.
Qed.

Lemma del_record_sidx s r : sorted (ur s) -> sidx_inv s -> sget (ur s) (rkey r) = Some r -> sidx_inv (del_record s r).
Proof.
  intros Su [Sx Is] G0. unfold sidx_inv, del_record. simpl. split; [apply sdel_sorted; assumption|].
  intros k rk G. destruct (string_dec (skey r) k) as [<-|Ne].
  - rewrite sget_sdel_same in G by assumption. discriminate.
  - rewrite sget_sdel_other in G by assumption. destruct (Is _ _ G) as (r2 & G2 & ->).
    exists r2. split; [|reflexivity]. rewrite sget_sdel_other; [assumption|assumption|].
    intro Eq. rewrite <- Eq in G2. rewrite G0 in G2. inversion G2; subst. apply Ne; reflexivity.
Qed.

Lemma rewrite_sidx s rk r r' : sorted (ur s) -> sidx_inv s -> sget (ur s) rk = Some r -> skey r' = skey r ->
  sidx_inv (w_ur (sset (ur s) rk r') s).
Proof.
  intros Su [Sx Is] G E. unfold sidx_inv. simpl. split; [assumption|].
  intros k rk2 G2. destruct (Is _ _ G2) as (r2 & Gr & ->). destruct (string_dec rk rk2) as [<-|Ne].
  - exists r'. rewrite sget_sset_same. rewrite G in Gr. inversion Gr; subst. auto.
  - exists r2. rewrite sget_sset_other by assumption. auto.
Qed.

Lemma slash_sidx s op eh prop s' : sidx_inv s -> slash s op eh prop = Some s' -> sidx_inv s'.
Proof.
  intros [Sx Is] H. unfold slash in H. destruct ((prop <? 0) || (prop >? P)); [discriminate|].
  destruct (slash_pools op prop (oa s) (dg s) (sl s)) as [[[o' d'] l'] ev2].
  destruct (eh <=? height s).
  - pose proof (slash_records_map op eh prop (ur s)) as M.
    destruct (slash_records op eh prop (ur s)) as [u' ev1]. simpl in M. subst u'.
    inversion H; subst; clear H. unfold sidx_inv. simpl. split; [assumption|].
    intros k rk G. destruct (Is _ _ G) as (r & G2 & ->).
    exists (slash_rec_fun op eh prop rk r). rewrite sget_map_vals, G2. simpl. split; [reflexivity|].
    unfold slash_rec_fun. destruct (_ && _); [|reflexivity].
    pose proof (slash_record_keys prop r) as (_ & _ & A & _). rewrite A. reflexivity.
  - inversion H; subst; clear H. unfold sidx_inv. simpl. auto.
Qed.

Lemma process_sidx s r : idx_inv s -> sidx_inv s -> sget (ur s) (rkey r) = Some r -> sidx_inv (process s r).
Proof.
  intros I Sx G. pose proof I as (Su & _).
  unfold process. destruct (0 <? hold_count s (rkey r)).
  - set (r' := mkUR _ _ _ _ _ (height s + 1) _ _ _).
    destruct (set_record (del_record s r) r') as [s2|] eqn:E; [|assumption].
    refine (set_record_sidx (del_record s r) r' s2 _ (del_record_sidx s r Su Sx G) _ E).
    + unfold del_record. simpl. apply sdel_sorted; assumption.
    + exact (del_record_fresh s r Su).
  - destruct (upd_dg s _ 0 (- ur_amt r)) as [[s1 z]|] eqn:E1; [|assumption].
    destruct (pay_staker s1 r) as [s2|] eqn:E2; [|assumption].
    destruct (upd_oa s2 _ 0 (- ur_amt r) 0 0) as [s3|] eqn:E3; [|assumption].
    apply upd_dg_frame in E1. apply pay_frame in E2. apply upd_oa_frame in E3.
    destruct E1 as (u1 & _ & _ & _ & x1), E2 as (u2 & _ & _ & _ & x2), E3 as (u3 & _ & _ & _ & x3).
    assert (sidx_inv s3) as S3 by (apply (sidx_inv_ext s); congruence).
    apply del_record_sidx; [rewrite u3, u2, u1; exact Su | exact S3 | rewrite u3, u2, u1; exact G].
Qed.

(* frames: operations that touch neither the record store nor the staker index *)
Definition same_ui (s s' : st) : Prop := ur s' = ur s /\ sidx s' = sidx s.
Lemma same_ui_trans s1 s2 s3 : same_ui s1 s2 -> same_ui s2 s3 -> same_ui s1 s3.
Proof. unfold same_ui. intros [a b] [c d]. split; congruence. Qed.
Lemma f5_ui s s' : (ur s' = ur s /\ pidx s' = pidx s /\ height s' = height s /\ hold s' = hold s /\ sidx s' = sidx s) -> same_ui s s'.
Proof. intros (a & _ & _ & _ & b). split; assumption. Qed.
Lemma upd_tot_ui s a d s' : upd_tot s a d = Some s' -> same_ui s s'.
Proof. intro H. apply upd_tot_spec in H. destruct H as (t & t' & _ & _ & _ & ->). split; reflexivity. Qed.

Lemma deposit_ui s st a x s' : deposit s st a x = Some s' -> same_ui s s'.
Proof.
  intro H. apply deposit_shape in H. destruct H as [(_ & ->)|(_ & H)]; [split; reflexivity|].
  unfold deposit_lst in H. dmatch H. inversion H; subst; clear H.
  apply upd_sa_frame in Heqo0. apply f5_ui in Heqo0. apply upd_tot_ui in Heqo1.
  destruct Heqo0 as [a1 b1], Heqo1 as [a2 b2]. split; simpl; congruence.
Qed.
Lemma withdraw_ui s st a x s' : withdraw s st a x = Some s' -> same_ui s s'.
Proof.
  intro H. apply withdraw_shape in H. destruct H as [(_ & ->)|(_ & H)]; [split; reflexivity|].
  unfold withdraw_lst in H. dmatch H. inversion H; subst; clear H.
  apply upd_sa_frame in Heqo0. apply f5_ui in Heqo0. apply upd_tot_ui in Heqo1.
  destruct Heqo0 as [a1 b1], Heqo1 as [a2 b2]. split; simpl; congruence.
Qed.

Lemma delegate_ui s st a op x s' : delegate s st a op x = Some s' -> same_ui s s'.
Proof.
  unfold delegate. intro H.
  destruct (x <=? 0); [discriminate|]. destruct (negb (mem op (operators s))); [discriminate|].
  destruct (take_from_staker s st a x) as [s1|] eqn:E1; [|discriminate].
  match type of H with match ?e with _ => _ end = _ => destruct e as [sh|]; [|discriminate] end.
  destruct (upd_oa s1 (oa_key op a) x 0 sh 0) as [s2|] eqn:E2; [|discriminate].
  destruct (upd_dg s2 (dg_key st a op) sh 0) as [[s3 z]|] eqn:E3; [|discriminate].
  inversion H; subst; clear H.
  apply take_frame in E1. apply upd_oa_frame in E2. apply upd_dg_frame in E3.
  apply f5_ui in E1. apply f5_ui in E2. apply f5_ui in E3.
  destruct E1 as [a1 b1], E2 as [a2 b2], E3 as [a3 b3].
  unfold append_staker. destruct (mem st _); split; simpl; congruence.
Qed.

Lemma undelegate_shape_ui s st a op x n tx s' r : undelegate s st a op x n tx = Some (s', r) ->
  exists s4 s5 tok, same_ui s s4 /\ height s4 = height s /\
    r = mkUR st a op tx (height s) (height s + unbonding) n tok tok /\ set_record s4 r = Some s5 /\ same_ui s5 s'.
Proof.
  intro H. unfold undelegate in H.
  destruct (x <=? 0); [discriminate|]. destruct (negb (mem op (operators s))); [discriminate|].
  destruct (sget (dg s) (dg_key st a op)) as [d|]; [|discriminate].
  destruct (sget (oa s) (oa_key op a)) as [o|] eqn:Eo; [|discriminate].
  destruct (shares_from_tokens (oa_tsh o) x (oa_amt o)) as [sh0|]; [|discriminate].
  match type of H with (if ?c then _ else _) = _ => destruct c; [discriminate|] end.
  destruct (shares_from_tokens (oa_tsh o) 1 (oa_amt o)) as [tol|]; [|discriminate].
  set (sh := if sh0 >? dg_sh d then dg_sh d else if dg_sh d - sh0 <? tol then dg_sh d else sh0) in *.
  destruct (sh <=? 0); [discriminate|]. destruct (sh >? oa_tsh o); [discriminate|].
  match type of H with match ?e with _ => _ end = _ => destruct e as [tok|]; [|discriminate] end.
  destruct (upd_oa s (oa_key op a) (- tok) tok (- sh) 0) as [s1|] eqn:E1; [|discriminate].
  destruct (book_pending s1 st a tok) as [s2|] eqn:E2; [|discriminate].
  destruct (upd_dg s2 (dg_key st a op) (- sh) tok) as [[s3 z]|] eqn:E3; [|discriminate].
  match type of H with match ?e with _ => _ end = _ => destruct e as [s4|] eqn:E4; [|discriminate] end.
  match type of H with match set_record s4 ?rr with _ => _ end = _ => set (r0 := rr) in *;
    destruct (set_record s4 r0) as [s5|] eqn:E5; [|discriminate] end.
  apply upd_oa_frame in E1. apply book_frame in E2. apply upd_dg_frame in E3.
  destruct E1 as (u1 & _ & h1 & _ & x1), E2 as (u2 & _ & h2 & _ & x2), E3 as (u3 & _ & h3 & _ & x3).
  assert (ur s4 = ur s3 /\ sidx s4 = sidx s3 /\ height s4 = height s3) as (u4 & x4 & h4).
  { destruct z; [|inversion E4; subst; auto]. unfold delete_staker in E4.
    destruct (sget (sl s3) _); [|discriminate]. inversion E4; subst. simpl. auto. }
  exists s4, s5, tok. split; [split; congruence|]. split; [congruence|].
  destruct (mem op (validators s)).
  - unfold hold_inc in H. destruct (hold_count s5 (rkey r0) =? max_u64); [discriminate|]. inversion H; subst.
    split; [reflexivity|]. split; [exact E5|]. split; reflexivity.
  - inversion H; subst. split; [reflexivity|]. split; [exact E5|]. split; reflexivity.
Qed.

Lemma record_step_sidx s sk pend rk s2 p' : idx_inv s -> sidx_inv s -> nst_record_step s sk pend rk = Some (s2, p') -> sidx_inv s2.
Proof.
  intros I Sx H. pose proof I as (Su & _). apply record_step_shape in H. destruct H as (r & s1 & G & _ & H). simpl in H.
  destruct H as (U & ->). apply upd_sa_frame in U. destruct U as (u & _ & _ & _ & x).
  assert (sidx_inv s1) as S1 by (apply (sidx_inv_ext s); assumption).
  unfold log_ev. match goal with |- sidx_inv (w_glog _ ?t) => apply (sidx_inv_ext t); [reflexivity|reflexivity|] end.
  apply (rewrite_sidx s1 rk r); [rewrite u; exact Su | exact S1 | rewrite u; exact G | reflexivity].
Qed.

Lemma step_sidx s o : idx_inv s -> sidx_inv s -> wf_op o = true -> fresh_op s o = true -> sidx_inv (fst (step s o)).
Proof.
  intros I Sx Wf Fr. pose proof I as (Su & _). destruct o; simpl.
  - destruct (deposit s staker asset x) as [s'|] eqn:E; simpl; [|exact Sx]. apply deposit_ui in E. destruct E. apply (sidx_inv_ext s); assumption.
  - destruct (withdraw s staker asset x) as [s'|] eqn:E; simpl; [|exact Sx]. apply withdraw_ui in E. destruct E. apply (sidx_inv_ext s); assumption.
  - destruct (delegate s staker asset operator x) as [s'|] eqn:E; simpl; [|exact Sx]. apply delegate_ui in E. destruct E. apply (sidx_inv_ext s); assumption.
  - destruct (undelegate s staker asset operator x nonce tx) as [[s' r]|] eqn:E; simpl; [|exact Sx].
    apply undelegate_shape_ui in E. destruct E as (s4 & s5 & tok & [u4 x4] & h4 & -> & E5 & [u' x']).
    simpl in Fr. apply has_key_false in Fr.
    apply (sidx_inv_ext s5); try assumption.
    refine (set_record_sidx s4 _ s5 _ _ _ E5).
    + rewrite u4. exact Su.
    + apply (sidx_inv_ext s); assumption.
    + rewrite u4. exact Fr.
  - simpl in Wf, Fr. apply has_key_false in Fr. unfold genesis_load.
    destruct ((ur_amt r <=? 0) || negb (ur_act r =? ur_amt r)); [exact Sx|].
    destruct (deposit s (ur_staker r) (ur_asset r) (ur_amt r)) as [s1|] eqn:E0; [|exact Sx].
    destruct (upd_sa s1 _ 0 (- ur_amt r) (ur_amt r)) as [s2|] eqn:E1; [|exact Sx].
    destruct (upd_oa s2 _ 0 (ur_amt r) 0 0) as [s3|] eqn:E2; [|exact Sx].
    destruct (upd_dg s3 _ 0 (ur_amt r)) as [[s4 z]|] eqn:E3; [|exact Sx].
    destruct (set_record s4 r) as [s5|] eqn:E4; [|exact Sx]. simpl.
    apply deposit_ui in E0. apply upd_sa_frame in E1. apply upd_oa_frame in E2. apply upd_dg_frame in E3.
    apply f5_ui in E1. apply f5_ui in E2. apply f5_ui in E3.
    destruct E0 as [a0 b0], E1 as [a1 b1], E2 as [a2 b2], E3 as [a3 b3].
    refine (set_record_sidx s4 r s5 _ _ _ E4).
    + replace (ur s4) with (ur s) by congruence. exact Su.
    + apply (sidx_inv_ext s); congruence.
    + replace (ur s4) with (ur s) by congruence. exact Fr.
  - destruct prop as [p|]; simpl; [|exact Sx].
    destruct (slash s operator eh p) as [s'|] eqn:E; simpl; [|exact Sx]. eapply slash_sidx; eauto.
  - unfold hold_inc. destruct (_ =? _); simpl; [exact Sx|]. apply (sidx_inv_ext s); [reflexivity|reflexivity|exact Sx].
  - unfold hold_dec. destruct (_ =? _); simpl; [exact Sx|]. apply (sidx_inv_ext s); [reflexivity|reflexivity|exact Sx].
  - destruct (end_block_idx sidx_inv (fun s0 r I0 G S0 => process_sidx s0 r I0 S0 G)
                (fun s0 h S0 => sidx_inv_ext s0 (w_height h s0) eq_refl eq_refl S0) s I Sx) as (_ & Q & _). exact Q.
  - destruct (nst_balance s staker asset x) as [s'|] eqn:E; simpl; [|exact Sx].
    refine (proj2 (nst_balance_P (fun s0 => idx_inv s0 /\ sidx_inv s0) s staker asset x s' (conj I Sx) _ _ _ _ E)).
    + intros s1 _ U. apply upd_sa_frame in U. destruct U as (u & p & h & _ & x1).
      split; [eapply (idx_inv_ext s); eauto | apply (sidx_inv_ext s); assumption].
    + intros info f s1 _ _ _ U. apply upd_sa_frame in U. destruct U as (u & p & h & _ & x1).
      split; [eapply (idx_inv_ext s); eauto | apply (sidx_inv_ext s); assumption].
    + intros s0 pend rk s2 p' _ [I0 S0] E0. split; [eapply record_step_idx; eauto | eapply record_step_sidx; eauto].
    + intros prop s0 k row s2 [I0 S0] E0. apply share_step_frame in E0. destruct E0 as (u & p & x1 & h & _).
      split; [eapply (idx_inv_ext s0); eauto | apply (sidx_inv_ext s0); assumption].
  - exact Sx.
Qed.

Lemma run_sidx ops : forall s, idx_inv s -> sidx_inv s -> hist_ok s ops = true -> sidx_inv (run ops s).
Proof.
  induction ops as [|o r IH]; intros s I Sx H; simpl; [assumption|].
  simpl in H. rewrite !andb_true_iff in H. destruct H as [[Wf Fr] Hr].
  apply IH; [apply step_idx; assumption | apply step_sidx; assumption | assumption].
Qed.

Lemma empty_sidx h o v assets : sidx_inv (empty_st h o v assets).
Proof. unfold sidx_inv, Isinv, empty_st. simpl. split; [apply sorted_nil | intros k rk G; discriminate]. Qed.
