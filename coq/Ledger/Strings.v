(* Ledger/Strings.v — lemmas about the key encodings: hexutil.EncodeUint64 is injective and "/"-free; prefix scans
   with a "/"-terminated prefix select exactly the keys whose first component is that prefix; split1 inverts join. *)
From Coq Require Import List String Ascii Bool ZArith NArith Lia Hexadecimal HexadecimalString HexadecimalN.
From Exo Require Import Base.Store Base.IntDec Base.Util Ledger.Ledger.
Import ListNotations.
Local Open Scope string_scope.
Local Arguments Ascii.eqb : simpl never.

Lemma no_slash_app a b : no_slash (a ++ b) = no_slash a && no_slash b.
Proof. induction a as [|c a IH]; simpl; [reflexivity|]. rewrite IH. apply andb_assoc. Qed.

Lemma string_of_uint_no_slash d : no_slash (NilEmpty.string_of_uint d) = true.
Proof. induction d; simpl; try reflexivity; exact IHd. Qed.

Lemma hexN_no_slash n : no_slash (hexN n) = true.
Proof. unfold hexN. rewrite no_slash_app. simpl. apply string_of_uint_no_slash. Qed.

Lemma hexZ_no_slash z : no_slash (hexZ z) = true.
Proof. apply hexN_no_slash. Qed.

Lemma append_inj_l a b c : a ++ b = a ++ c -> b = c.
Proof. induction a as [|x a IH]; simpl; intro H; [exact H|]. inversion H. auto. Qed.

Lemma hexN_inj n m : hexN n = hexN m -> n = m.
Proof.
  unfold hexN. intro H. apply append_inj_l in H.
  apply HexadecimalN.Unsigned.to_uint_inj.
  pose proof (NilEmpty.usu (N.to_hex_uint n)) as A. pose proof (NilEmpty.usu (N.to_hex_uint m)) as B.
  rewrite H in A. rewrite A in B. inversion B. reflexivity.
Qed.

Lemma hexZ_inj a b : (0 <= a)%Z -> (0 <= b)%Z -> hexZ a = hexZ b -> a = b.
Proof. intros Ha Hb H. apply hexN_inj in H. lia. Qed.

Lemma is_prefix_refl_app a r : is_prefix a (a ++ r) = true.
Proof. induction a as [|c a IH]; simpl; [reflexivity|]. rewrite Ascii.eqb_refl. exact IH. Qed.

(* the heart of fix F1: with the trailing "/" the scan selects exactly the keys whose height component equals the prefix *)
Lemma prefix_slash_eq a b r :
  no_slash a = true -> no_slash b = true ->
  is_prefix (a ++ "/") (b ++ "/" ++ r) = true -> a = b.
Proof.
  revert b. induction a as [|c a IH]; intros b Ha Hb H.
  - destruct b as [|d b]; [reflexivity|]. simpl in *.
    apply andb_prop in H. destruct H as [H _]. apply andb_prop in Hb. destruct Hb as [Hb _].
    apply Ascii.eqb_eq in H. subst d. unfold slash_c in Hb. rewrite Ascii.eqb_refl in Hb. discriminate.
  - destruct b as [|d b]; simpl in *.
    + apply andb_prop in H. destruct H as [H _]. apply andb_prop in Ha. destruct Ha as [Ha _].
      apply Ascii.eqb_eq in H. subst c. unfold slash_c in Ha. rewrite Ascii.eqb_refl in Ha. discriminate.
    + apply andb_prop in H. destruct H as [H1 H2]. apply Ascii.eqb_eq in H1. subst d.
      apply andb_prop in Ha. destruct Ha as [_ Ha]. apply andb_prop in Hb. destruct Hb as [_ Hb].
      f_equal. apply IH; assumption.
Qed.

Lemma app_assoc_s (a b c : string) : (a ++ b) ++ c = a ++ (b ++ c).
Proof. induction a as [|x a IH]; simpl; [reflexivity|]. rewrite IH. reflexivity. Qed.

Lemma split1_join' a b : no_slash a = true -> split1 (a ++ String slash_c b) = (a, b).
Proof.
  induction a as [|c a IH]; simpl; intro H.
  - try rewrite Ascii.eqb_refl. reflexivity.
  - apply andb_prop in H. destruct H as [H1 H2].
    destruct (Ascii.eqb c slash_c); [discriminate|]. rewrite (IH H2). reflexivity.
Qed.

Lemma split1_join a b : no_slash a = true -> split1 (a ++ "/" ++ b) = (a, b).
Proof. apply split1_join'. Qed.

Lemma key_asset_join a b : no_slash a = true -> key_asset (join2 a b) = b.
Proof. intro H. unfold key_asset, join2. rewrite split1_join by assumption. reflexivity. Qed.

(* a join of two components is injective when the first components are "/"-free *)
Lemma join2_inj a b a' b' : no_slash a = true -> no_slash a' = true -> join2 a b = join2 a' b' -> a = a' /\ b = b'.
Proof.
  intros Ha Ha' H. pose proof (split1_join a b Ha) as A. pose proof (split1_join a' b' Ha') as B.
  unfold join2 in H. rewrite H in A. rewrite A in B. inversion B. auto.
Qed.

(* scan exactness at the level of pending-index keys *)
Lemma pending_scan_exact h h' n :
  (0 <= h)%Z -> (0 <= h')%Z ->
  (is_prefix (hexZ h ++ "/") (pkey_of h' n) = true <-> h = h').
Proof.
  intros Hh Hh'. unfold pkey_of, join2. split.
  - intro H. apply prefix_slash_eq in H; try apply hexZ_no_slash. apply hexZ_inj; assumption.
  - intros ->. rewrite <- app_assoc_s. apply is_prefix_refl_app.
Qed.
