(* C08/Proofs.v — lemmas: every map-range loop of Model.v gives the same result for every schedule. *)
From Coq Require Import List ZArith Bool Lia Permutation.
From Exo Require Import Base.Util C08.Model.
Import ListNotations.
Local Open Scope Z_scope.

Lemma model_is_function feeders maxnonce h force l aggs l' aggs' :
  l = l' -> aggs = aggs' -> seal_round feeders maxnonce h force l aggs = seal_round feeders maxnonce h force l' aggs'.
Proof. intros -> ->. reflexivity. Qed.

(* ---------------------------------------------------------------------------------------------- *)
(* generic: folds of commuting steps do not see the order                                           *)

Lemma fold_left_perm_comm {A S} (f : S -> A -> S) :
  (forall s a b, f (f s a) b = f (f s b) a) ->
  forall l l', Permutation l l' -> forall s, fold_left f l s = fold_left f l' s.
Proof.
  intros C l l' P. induction P as [|x l l' P IH|x y l|l l' l'' P1 IH1 P2 IH2]; intros s; simpl.
  - reflexivity.
  - apply IH.
  - rewrite C. reflexivity.
  - rewrite IH1. apply IH2.
Qed.

Section FoldUpTo.
  Context {A S : Type} (R : S -> S -> Prop) (f : S -> A -> S).
  Hypothesis Rrefl : forall s, R s s.
  Hypothesis Rtrans : forall a b c, R a b -> R b c -> R a c.
  Hypothesis fR : forall s s' a, R s s' -> R (f s a) (f s' a).

  Lemma fold_R_resp l : forall s s', R s s' -> R (fold_left f l s) (fold_left f l s').
  Proof. induction l as [|a l IH]; intros s s' H; simpl; [exact H|]. apply IH, fR, H. Qed.

  Lemma fold_perm_R :
    (forall s a b, R (f (f s a) b) (f (f s b) a)) ->
    forall l l', Permutation l l' -> forall s s', R s s' -> R (fold_left f l s) (fold_left f l' s').
  Proof.
    intros C l l' P. induction P as [|x l l' P IH|x y l|l l' l'' P1 IH1 P2 IH2]; intros s s' H; simpl.
    - exact H.
    - apply IH, fR, H.
    - apply fold_R_resp. eapply Rtrans; [apply C|]. apply fR, fR, H.
    - eapply Rtrans; [apply IH1, H|]. apply IH2, Rrefl.
  Qed.

  Lemma fold_perm_R_nodup (key : A -> Z) :
    (forall s a b, key a <> key b -> R (f (f s a) b) (f (f s b) a)) ->
    forall l l', Permutation l l' -> NoDup (map key l) ->
    forall s s', R s s' -> R (fold_left f l s) (fold_left f l' s').
  Proof.
    intros C l l' P. induction P as [|x l l' P IH|x y l|l l' l'' P1 IH1 P2 IH2]; intros ND s s' H; simpl.
    - exact H.
    - simpl in ND. inversion ND; subst. apply IH; [assumption|]. apply fR, H.
    - simpl in ND. inversion ND as [|? ? Hn ND']; subst. apply fold_R_resp.
      eapply Rtrans; [apply C|].
      + intro E. apply Hn. left. symmetry. exact E.
      + apply fR, fR, H.
    - eapply Rtrans; [apply IH1; [exact ND | exact H]|].
      apply IH2; [|apply Rrefl].
      eapply Permutation_NoDup; [apply Permutation_map, P1 | exact ND].
  Qed.
End FoldUpTo.

(* ---------------------------------------------------------------------------------------------- *)
(* finite maps                                                                                      *)

Lemma feq_refl {V} (m : fmap V) : feq m m.
Proof. intro x. reflexivity. Qed.
Lemma feq_sym {V} (m m' : fmap V) : feq m m' -> feq m' m.
Proof. intros H x. symmetry. apply H. Qed.
Lemma feq_trans {V} (a b c : fmap V) : feq a b -> feq b c -> feq a c.
Proof. intros H1 H2 x. rewrite H1. apply H2. Qed.

Lemma fset_feq {V} k (ov ov' : option V) m m' : ov = ov' -> feq m m' -> feq (fset k ov m) (fset k ov' m').
Proof. intros -> H x. unfold fset. destruct (x =? k); [reflexivity | apply H]. Qed.
Lemma fupd_feq {V} k (v : V) m m' : feq m m' -> feq (fupd k v m) (fupd k v m').
Proof. intros H x. unfold fupd. destruct (x =? k); [reflexivity | apply H]. Qed.
Lemma fdel_feq {V} k (m m' : fmap V) : feq m m' -> feq (fdel k m) (fdel k m').
Proof. intros H x. unfold fdel. destruct (x =? k); [reflexivity | apply H]. Qed.

Lemma of_list_perm {V} (l l' : list (Z * V)) :
  Permutation l l' -> NoDup (map fst l) -> feq (of_list l) (of_list l').
Proof.
  intros P. induction P as [|[k v] l l' P IH|[k1 v1] [k2 v2] l|l l' l'' P1 IH1 P2 IH2]; intros ND x; simpl.
  - reflexivity.
  - simpl in ND. inversion ND; subst. destruct (x =? k); [reflexivity | apply IH; assumption].
  - simpl in ND. inversion ND as [|? ? Hn ND']; subst.
    destruct (x =? k2) eqn:E2, (x =? k1) eqn:E1; try reflexivity.
    apply Z.eqb_eq in E1, E2. subst. exfalso. apply Hn. left. reflexivity.
  - rewrite IH1 by assumption. apply IH2.
    eapply Permutation_NoDup; [apply Permutation_map, P1 | exact ND].
Qed.

(* ---------------------------------------------------------------------------------------------- *)
(* G2: keyed folds                                                                                  *)

Section Keyed.
  Context {A V : Type} (key : A -> Z) (g : A -> option V -> option V).

  Lemma keyed_step_feq m m' a : feq m m' -> feq (keyed_step key g m a) (keyed_step key g m' a).
  Proof. intros H. unfold keyed_step. apply fset_feq; [rewrite H; reflexivity | exact H]. Qed.

  Lemma keyed_step_comm_diff m a b : key a <> key b ->
    feq (keyed_step key g (keyed_step key g m a) b) (keyed_step key g (keyed_step key g m b) a).
  Proof.
    intros D x. unfold keyed_step, fset.
    repeat match goal with |- context [?p =? ?q] => destruct (Z.eqb_spec p q) end; subst; congruence.
  Qed.

  Lemma keyed_step_comm_same m a b : key a = key b ->
    (forall v, g a (g b v) = g b (g a v)) ->
    feq (keyed_step key g (keyed_step key g m a) b) (keyed_step key g (keyed_step key g m b) a).
  Proof.
    intros E C x. unfold keyed_step, fset. rewrite E.
    rewrite Z.eqb_refl. destruct (x =? key b); [symmetry; apply C | reflexivity].
  Qed.

  Lemma keyed_fold_perm l l' m m' :
    (forall a b v, key a = key b -> g a (g b v) = g b (g a v)) ->
    Permutation l l' -> feq m m' -> feq (keyed_fold key g l m) (keyed_fold key g l' m').
  Proof.
    intros C P H. unfold keyed_fold.
    apply (fold_perm_R feq (keyed_step key g) feq_refl feq_trans keyed_step_feq); try assumption.
    intros s a b. destruct (Z.eq_dec (key a) (key b)) as [E|D].
    - apply keyed_step_comm_same; [exact E|]. intro v. apply C. exact E.
    - apply keyed_step_comm_diff. exact D.
  Qed.

  Lemma keyed_fold_perm_nodup l l' m m' :
    NoDup (map key l) -> Permutation l l' -> feq m m' -> feq (keyed_fold key g l m) (keyed_fold key g l' m').
  Proof.
    intros ND P H. unfold keyed_fold.
    apply (fold_perm_R_nodup feq (keyed_step key g) feq_refl feq_trans keyed_step_feq key); try assumption.
    intros s a b D. apply keyed_step_comm_diff. exact D.
  Qed.
End Keyed.

(* ---------------------------------------------------------------------------------------------- *)
(* G3: sorting                                                                                      *)

Lemma insert_comm x y l : insert x (insert y l) = insert y (insert x l).
Proof.
  induction l as [|z l IH]; simpl.
  - destruct (x <=? y) eqn:E1, (y <=? x) eqn:E2; try reflexivity.
    + apply Z.leb_le in E1, E2. assert (x = y) by lia. subst. reflexivity.
    + apply Z.leb_gt in E1, E2. lia.
  - destruct (y <=? z) eqn:Eyz, (x <=? z) eqn:Exz; simpl.
    + destruct (x <=? y) eqn:E1, (y <=? x) eqn:E2; rewrite ?Exz, ?Eyz; try reflexivity.
      * apply Z.leb_le in E1, E2. assert (x = y) by lia. subst. reflexivity.
      * apply Z.leb_gt in E1, E2. lia.
    + destruct (x <=? y) eqn:E1.
      * apply Z.leb_le in E1, Eyz. apply Z.leb_gt in Exz. lia.
      * rewrite Exz, Eyz. reflexivity.
    + destruct (y <=? x) eqn:E2.
      * apply Z.leb_le in E2, Exz. apply Z.leb_gt in Eyz. lia.
      * rewrite Exz, Eyz. reflexivity.
    + rewrite Exz, Eyz. rewrite IH. reflexivity.
Qed.

Lemma isort_perm l l' : Permutation l l' -> isort l = isort l'.
Proof.
  intros P. induction P as [|x l l' P IH|x y l|l l' l'' P1 IH1 P2 IH2]; simpl.
  - reflexivity.
  - unfold isort in *. simpl. rewrite IH. reflexivity.
  - unfold isort. simpl. apply insert_comm.
  - congruence.
Qed.

(* ---------------------------------------------------------------------------------------------- *)
(* sums                                                                                             *)

Lemma zsum_perm l l' : Permutation l l' -> zsum l = zsum l'.
Proof.
  intros P. induction P as [|x l l' P IH|x y l|l l' l'' P1 IH1 P2 IH2]; unfold zsum in *; simpl; try lia.
Qed.

(* ---------------------------------------------------------------------------------------------- *)
(* S8: AllocateTokensToStakers                                                                      *)

Lemma g_add_reward_comm R total a b v :
  g_add_reward R total a (g_add_reward R total b v) = g_add_reward R total b (g_add_reward R total a v).
Proof. unfold g_add_reward. destruct v; f_equal; lia. Qed.

Lemma alloc_stakers_perm R l l' rewards :
  Permutation l l' ->
  feq (fst (alloc_stakers R l rewards)) (fst (alloc_stakers R l' rewards)) /\
  snd (alloc_stakers R l rewards) = snd (alloc_stakers R l' rewards).
Proof.
  intros P. unfold alloc_stakers.
  assert (T : zsum (map snd l) = zsum (map snd l')) by (apply zsum_perm, Permutation_map, P).
  rewrite <- T. set (total := zsum (map snd l)).
  destruct (total >? 0); simpl.
  - split.
    + apply keyed_fold_perm; [|exact P|apply feq_refl].
      intros a b v _. apply g_add_reward_comm.
    + f_equal. apply zsum_perm, Permutation_map, P.
  - split; [apply feq_refl | reflexivity].
Qed.

Lemma alloc_dust_witness :
  exists R total l l', Permutation l l' /\ NoDup (map fst l) /\
    exists k, alloc_dust_last R total R l fempty k <> alloc_dust_last R total R l' fempty k.
Proof.
  exists 10, 3, [(1, 1); (2, 2)], [(2, 2); (1, 1)]. split; [apply perm_swap|]. split.
  - simpl. constructor; [simpl; intros [H|[]]; discriminate|]. constructor; [intros []|constructor].
  - exists 1. vm_compute. discriminate.
Qed.

(* ---------------------------------------------------------------------------------------------- *)
(* S3: consumers that apply the same per-key function for every element                             *)

Lemma grow_all_perm failed failed' st : Permutation failed failed' -> feq (grow_all failed st) (grow_all failed' st).
Proof. intros P. unfold grow_all. apply keyed_fold_perm; [|exact P|apply feq_refl]. intros a b v _. reflexivity. Qed.

Lemma add_zero_nonce_perm f vals vals' st :
  Permutation vals vals' -> feq (add_zero_nonce_for f vals st) (add_zero_nonce_for f vals' st).
Proof. intros P. unfold add_zero_nonce_for. apply keyed_fold_perm; [|exact P|apply feq_refl]. intros a b v _. reflexivity. Qed.

Lemma remove_nonce_perm f vals vals' st st' :
  Permutation vals vals' -> feq st st' -> feq (remove_nonce_for f vals st) (remove_nonce_for f vals' st').
Proof. intros P H. unfold remove_nonce_for. apply keyed_fold_perm; [|exact P|exact H]. intros a b v _. reflexivity. Qed.

(* ---------------------------------------------------------------------------------------------- *)
(* S4: map copies, SetValidatorPowers, cacheValidator.add                                           *)

Lemma copy_into_perm {V} (l l' : list (Z * V)) m :
  Permutation l l' -> NoDup (map fst l) -> feq (copy_into l m) (copy_into l' m).
Proof. intros P ND. unfold copy_into. apply keyed_fold_perm_nodup; [exact ND|exact P|apply feq_refl]. Qed.

Definition svp_R (a b : fmap Z * Z) : Prop := feq (fst a) (fst b) /\ snd a = snd b.

Lemma set_validator_powers_perm vp vp' :
  Permutation vp vp' -> NoDup (map fst vp) ->
  feq (fst (set_validator_powers vp)) (fst (set_validator_powers vp')) /\
  snd (set_validator_powers vp) = snd (set_validator_powers vp').
Proof.
  intros P ND. unfold set_validator_powers.
  apply (fold_perm_R_nodup svp_R
           (fun st kv => (fupd (fst kv) (snd kv) (fst st), snd st + snd kv)) ) with (key := fst); try assumption.
  - intros s. split; [apply feq_refl|reflexivity].
  - intros a b c [H1 H2] [H3 H4]. split; [eapply feq_trans; eassumption | congruence].
  - intros s s' a [H1 H2]. split; simpl; [apply fupd_feq, H1 | congruence].
  - intros s a b D. split; simpl; [|lia].
    intro x. unfold fupd. repeat match goal with |- context [?p =? ?q] => destruct (Z.eqb_spec p q) end; subst; congruence.
  - split; [apply feq_refl|reflexivity].
Qed.

Definition ca_R (a b : fmap Z * bool) : Prop := feq (fst a) (fst b) /\ snd a = snd b.

Lemma cache_add_step_R s s' kv : ca_R s s' -> ca_R (cache_add_step s kv) (cache_add_step s' kv).
Proof.
  destruct s as [m u], s' as [m' u'], kv as [op np]. intros [H1 H2]. simpl in *. subst u'.
  rewrite <- (H1 op). destruct (m op) as [p|].
  - destruct (np =? 0); [split; simpl; [apply fdel_feq, H1|reflexivity]|].
    destruct (negb (p =? np)); split; simpl; try reflexivity; try apply fupd_feq; assumption.
  - split; simpl; [apply fupd_feq, H1|reflexivity].
Qed.

Lemma cache_add_step_comm s a b : fst a <> fst b ->
  ca_R (cache_add_step (cache_add_step s a) b) (cache_add_step (cache_add_step s b) a).
Proof.
  destruct s as [m u], a as [ka va], b as [kb vb]. simpl. intros D.
  assert (Dba : (kb =? ka) = false) by (apply Z.eqb_neq; congruence).
  assert (Dab : (ka =? kb) = false) by (apply Z.eqb_neq; congruence).
  unfold cache_add_step.
  destruct (m ka) as [pa|] eqn:Ea; destruct (m kb) as [pb|] eqn:Eb;
    repeat (match goal with
            | |- context [if ?c then _ else _] => destruct c eqn:?
            end; simpl; unfold fupd, fdel in *; rewrite ?Dba, ?Dab, ?Ea, ?Eb in *; simpl);
    try (split; simpl; [intro x; repeat match goal with |- context [?p =? ?q] => destruct (Z.eqb_spec p q) end; subst; congruence
                       | reflexivity]).
  all: try discriminate.
Qed.

Lemma cache_add_perm l l' st :
  Permutation l l' -> NoDup (map fst l) ->
  feq (fst (cache_add l st)) (fst (cache_add l' st)) /\ snd (cache_add l st) = snd (cache_add l' st).
Proof.
  intros P ND. unfold cache_add.
  apply (fold_perm_R_nodup ca_R cache_add_step) with (key := fst); try assumption.
  - intros s. split; [apply feq_refl|reflexivity].
  - intros a b c [H1 H2] [H3 H4]. split; [eapply feq_trans; eassumption | congruence].
  - intros s s' a H. apply cache_add_step_R, H.
  - intros s a b D. apply cache_add_step_comm, D.
  - split; [apply feq_refl|reflexivity].
Qed.

(* ---------------------------------------------------------------------------------------------- *)
(* S5: median                                                                                       *)

Lemma report_aggregate_perm l l' : Permutation l l' -> report_aggregate l = report_aggregate l'.
Proof.
  intros P. unfold report_aggregate, median.
  rewrite (isort_perm (map snd l) (map snd l')) by (apply Permutation_map, P). reflexivity.
Qed.

(* ---------------------------------------------------------------------------------------------- *)
(* S7: loops with an early return on error                                                          *)

Definition all_ok {V} (l : list (Z * option V)) : bool :=
  forallb (fun e => match snd e with Some _ => true | None => false end) l.

Lemma forallb_perm {A} (f : A -> bool) l l' : Permutation l l' -> forallb f l = forallb f l'.
Proof.
  intros P. induction P as [|x l l' P IH|x y l|l l' l'' P1 IH1 P2 IH2]; simpl; try congruence.
  destruct (f x), (f y); reflexivity.
Qed.

Definition sum_tw (l : list (Z * option (Z * Z))) : Z :=
  zsum (map (fun e => match snd e with Some (t, w) => t + w | None => 0 end) l).
Definition sum_w (l : list (Z * option (Z * Z))) : Z :=
  zsum (map (fun e => match snd e with Some (_, w) => w | None => 0 end) l).

Lemma staker_info_char l : forall t p r,
  fst (staker_info t p r l) = if all_ok l then Some (t + sum_tw l, p + sum_w l) else None.
Proof.
  induction l as [|[k [[t0 w]|]] l IH]; intros t p r; simpl.
  - unfold sum_tw, sum_w, zsum. simpl. do 2 f_equal; lia.
  - rewrite IH. unfold all_ok. simpl. destruct (forallb _ l); [|reflexivity].
    unfold sum_tw, sum_w, zsum. simpl. do 2 f_equal; lia.
  - reflexivity.
Qed.

Lemma staker_info_perm t p r l l' : Permutation l l' -> fst (staker_info t p r l) = fst (staker_info t p r l').
Proof.
  intros P. rewrite !staker_info_char. unfold all_ok.
  rewrite (forallb_perm _ l l' P). unfold sum_tw, sum_w.
  rewrite (zsum_perm _ _ (Permutation_map (fun e => match snd e with Some (t, w) => t + w | None => 0 end) P)).
  rewrite (zsum_perm _ _ (Permutation_map (fun e => match snd e with Some (_, w) => w | None => 0 end) P)).
  reflexivity.
Qed.

Lemma staker_info_reads_ok l : forall t p r, all_ok l = true -> snd (staker_info t p r l) = (r + length l)%nat.
Proof.
  induction l as [|[k [[t0 w]|]] l IH]; intros t p r H; simpl.
  - lia.
  - unfold all_ok in H. simpl in H. rewrite IH by exact H. lia.
  - discriminate.
Qed.

Lemma all_ok_of_In {V} (l : list (Z * option V)) : (forall e, In e l -> snd e <> None) -> all_ok l = true.
Proof.
  intros H. unfold all_ok. apply forallb_forall. intros e He. specialize (H e He). destruct (snd e); congruence.
Qed.

Lemma staker_info_reads_perm t p r l l' :
  (forall e, In e l -> snd e <> None) -> Permutation l l' -> snd (staker_info t p r l) = snd (staker_info t p r l').
Proof.
  intros H P. rewrite !staker_info_reads_ok.
  - rewrite (Permutation_length P). reflexivity.
  - apply all_ok_of_In. intros e He. apply H. eapply Permutation_in; [apply Permutation_sym, P|exact He].
  - apply all_ok_of_In, H.
Qed.

Lemma collect_char {V} (l : list (Z * option V)) : forall acc r,
  fst (collect acc r l) =
  if all_ok l then Some (keyed_fold (fun e => fst e) (fun e _ => snd e) l acc) else None.
Proof.
  induction l as [|[k [v|]] l IH]; intros acc r; simpl.
  - reflexivity.
  - rewrite IH. unfold all_ok. simpl. destruct (forallb _ l); reflexivity.
  - reflexivity.
Qed.

Lemma collect_perm {V} (l l' : list (Z * option V)) acc r :
  Permutation l l' -> NoDup (map fst l) ->
  match fst (collect acc r l), fst (collect acc r l') with
  | Some m, Some m' => feq m m'
  | None, None => True
  | _, _ => False
  end.
Proof.
  intros P ND. rewrite !collect_char. unfold all_ok. rewrite <- (forallb_perm _ l l' P).
  destruct (forallb _ l); [|exact I].
  apply keyed_fold_perm_nodup; [exact ND|exact P|apply feq_refl].
Qed.

(* ---------------------------------------------------------------------------------------------- *)
(* S9 / G4: sort by key, AVS groups, Difference                                                     *)

Section SortByProofs.
  Context {A : Type} (key : A -> Z).

  Lemma insert_by_comm x y l : key x <> key y ->
    insert_by key x (insert_by key y l) = insert_by key y (insert_by key x l).
  Proof.
    intros D. induction l as [|z l IH]; simpl.
    - destruct (key x <=? key y) eqn:E1, (key y <=? key x) eqn:E2; try reflexivity.
      + apply Z.leb_le in E1, E2. lia.
      + apply Z.leb_gt in E1, E2. lia.
    - destruct (key y <=? key z) eqn:Eyz, (key x <=? key z) eqn:Exz; simpl.
      + destruct (key x <=? key y) eqn:E1, (key y <=? key x) eqn:E2; rewrite ?Exz, ?Eyz; try reflexivity.
        * apply Z.leb_le in E1, E2. lia.
        * apply Z.leb_gt in E1, E2. lia.
      + destruct (key x <=? key y) eqn:E1.
        * apply Z.leb_le in E1, Eyz. apply Z.leb_gt in Exz. lia.
        * rewrite Exz, Eyz. reflexivity.
      + destruct (key y <=? key x) eqn:E2.
        * apply Z.leb_le in E2, Exz. apply Z.leb_gt in Eyz. lia.
        * rewrite Exz, Eyz. reflexivity.
      + rewrite Exz, Eyz. rewrite IH. reflexivity.
  Qed.

  Lemma sort_by_perm l l' : NoDup (map key l) -> Permutation l l' -> sort_by key l = sort_by key l'.
  Proof.
    intros ND P. induction P as [|x l l' P IH|x y l|l l' l'' P1 IH1 P2 IH2]; unfold sort_by in *; simpl.
    - reflexivity.
    - simpl in ND. inversion ND; subst. rewrite IH by assumption. reflexivity.
    - simpl in ND. inversion ND as [|? ? Hn ND']; subst. apply insert_by_comm.
      intro E. apply Hn. left. symmetry. exact E.
    - rewrite IH1 by exact ND. apply IH2.
      eapply Permutation_NoDup; [apply Permutation_map, P1 | exact ND].
  Qed.
End SortByProofs.

Lemma collect_sorted_perm {V} (l l' : list (Z * option V)) acc r :
  NoDup (map fst l) -> Permutation l l' -> collect_sorted acc r l = collect_sorted acc r l'.
Proof. intros ND P. unfold collect_sorted. rewrite (sort_by_perm (fun e => fst e) l l' ND P). reflexivity. Qed.

Lemma unstable_sort_ties_witness :
  exists (l l' : list (Z * Z)), Permutation l l' /\ sort_by fst l <> sort_by fst l'.
Proof. exists [(1, 1); (1, 2)], [(1, 2); (1, 1)]. split; [apply perm_swap|]. vm_compute. discriminate. Qed.

Lemma group_stat_perm g g' : NoDup (map t_op g) -> Permutation g g' -> group_stat g = group_stat g'.
Proof. intros ND P. unfold group_stat. rewrite (sort_by_perm t_op g g' ND P). reflexivity. Qed.

Lemma hook_groups_perm gs gs' m :
  Permutation gs gs' -> NoDup (map fst gs) -> feq (hook_groups gs m) (hook_groups gs' m).
Proof. intros P ND. unfold hook_groups. apply keyed_fold_perm_nodup; [exact ND|exact P|apply feq_refl]. Qed.

Lemma difference_with_perm d s s' : Permutation s s' -> difference_with d s = difference_with d s'.
Proof. intros P. unfold difference_with. apply isort_perm, Permutation_app_head, P. Qed.

(* ---------------------------------------------------------------------------------------------- *)
(* S6: recacheAggregatorContext                                                                     *)

Definition rc_R (a b : recache_st) : Prop := rc_prev a = rc_prev b /\ rc_cur a = rc_cur b.

Lemma rc_R_refl s : rc_R s s. Proof. split; reflexivity. Qed.
Lemma rc_R_trans a b c : rc_R a b -> rc_R b c -> rc_R a c.
Proof. intros [H1 H2] [H3 H4]. split; congruence. Qed.

Lemma rc_R_sym_c08 a b : rc_R a b -> rc_R b a.
Proof. intros [H1 H2]. split; congruence. Qed.

Lemma recache_step_R bound s s' e : rc_R s s' -> rc_R (recache_step bound s e) (recache_step bound s' e).
Proof.
  intros [H1 H2]. destruct e as [b p]. unfold recache_step. rewrite <- H1.
  destruct ((b <? bound) && (b >? rc_prev s)); split; simpl; congruence.
Qed.

Lemma recache_step_comm bound s a b : fst a <> fst b ->
  rc_R (recache_step bound (recache_step bound s a) b) (recache_step bound (recache_step bound s b) a).
Proof.
  destruct a as [b1 p1], b as [b2 p2]. simpl. intros D. unfold recache_step.
  rewrite !Z.gtb_ltb.
  destruct (Z.ltb_spec b1 bound), (Z.ltb_spec (rc_prev s) b1); simpl; rewrite ?Z.gtb_ltb;
    destruct (Z.ltb_spec b2 bound), (Z.ltb_spec (rc_prev s) b2); simpl; rewrite ?Z.gtb_ltb;
    repeat match goal with |- context [?p <? ?q] => destruct (Z.ltb_spec p q); simpl end;
    split; simpl; try reflexivity; try (exfalso; lia); try (f_equal; lia).

Qed.

Lemma recache_loop_perm bound l l' st :
  Permutation l l' -> NoDup (map fst l) -> rc_R (recache_loop bound l st) (recache_loop bound l' st).
Proof.
  intros P ND. unfold recache_loop.
  apply (fold_perm_R_nodup rc_R (recache_step bound) rc_R_refl rc_R_trans (recache_step_R bound) fst); try assumption.
  - intros s a b D. apply recache_step_comm, D.
  - apply rc_R_refl.
Qed.

Lemma recache_max_perm l l' : Permutation l l' -> recache_max l = recache_max l'.
Proof.
  intros P. unfold recache_max. apply fold_left_perm_comm; [|exact P].
  intros s a b. rewrite !Z.gtb_ltb.
  destruct (Z.ltb_spec s (fst a)), (Z.ltb_spec s (fst b));
    repeat match goal with |- context [?p <? ?q] => destruct (Z.ltb_spec p q) end; lia.
Qed.

Lemma recache_prev_mono bound l : forall st, rc_prev st <= rc_prev (recache_loop bound l st).
Proof.
  induction l as [|[b p] l IH]; intros st; simpl; [lia|].
  eapply Z.le_trans; [|apply IH]. unfold recache_step. rewrite Z.gtb_ltb.
  destruct (b <? bound); simpl; [|lia]. destruct (Z.ltb_spec (rc_prev st) b); simpl; lia.
Qed.

Lemma live_cons q b p l : live q ((b, p) :: l) = if b >? q then (b, p) :: live q l else live q l.
Proof. reflexivity. Qed.
Lemma recache_loop_cons bound e l st : recache_loop bound (e :: l) st = recache_loop bound l (recache_step bound st e).
Proof. reflexivity. Qed.

Lemma recache_step_prev_mono bound st e : rc_prev st <= rc_prev (recache_step bound st e).
Proof.
  destruct e as [b p]. unfold recache_step. rewrite Z.gtb_ltb.
  destruct (b <? bound); simpl; [|lia]. destruct (Z.ltb_spec (rc_prev st) b); simpl; lia.
Qed.

Lemma recache_dead_entries_gen bound l : forall st q, q <= rc_prev st ->
  rc_R (recache_loop bound l st) (recache_loop bound (live q l) st).
Proof.
  induction l as [|[b p] l IH]; intros st q Hq.
  - apply rc_R_refl.
  - rewrite live_cons, recache_loop_cons, Z.gtb_ltb. destruct (Z.ltb_spec q b).
    + rewrite recache_loop_cons. apply IH.
      eapply Z.le_trans; [exact Hq|]. apply recache_step_prev_mono.
    + eapply rc_R_trans; [|apply IH, Hq].
      apply (fold_R_resp rc_R (recache_step bound) (recache_step_R bound)).
      unfold recache_step. rewrite Z.gtb_ltb.
      destruct (Z.ltb_spec (rc_prev st) b); [lia|]. rewrite andb_false_r. split; reflexivity.
Qed.

Lemma recache_deleted_bound bound l : forall st,
  Forall (fun d => d <= rc_prev st) (rc_deleted st) ->
  Forall (fun d => d <= rc_prev (recache_loop bound l st)) (rc_deleted (recache_loop bound l st)).
Proof.
  induction l as [|[b p] l IH]; intros st H; simpl; [exact H|].
  apply IH. unfold recache_step. rewrite Z.gtb_ltb.
  destruct (b <? bound); simpl; [|exact H].
  destruct (Z.ltb_spec (rc_prev st) b); simpl; [|exact H].
  constructor; [lia|]. eapply Forall_impl; [|exact H]. simpl. intros d Hd. lia.
Qed.

Lemma remaining_live_eq deleted prev l :
  Forall (fun d => d <= prev) deleted -> live prev (remaining deleted l) = live prev l.
Proof.
  intros H. unfold live, remaining. induction l as [|[b p] l IH]; simpl; [reflexivity|].
  destruct (existsb (Z.eqb b) deleted) eqn:E; simpl.
  - rewrite Z.gtb_ltb. destruct (Z.ltb_spec prev b); [|exact IH].
    exfalso. apply existsb_exists in E. destruct E as [d [Hd Ed]]. apply Z.eqb_eq in Ed. subst d.
    rewrite Forall_forall in H. specialize (H b Hd). simpl in H. lia.
  - rewrite IH. reflexivity.
Qed.

Lemma filter_perm {A} (f : A -> bool) l l' : Permutation l l' -> Permutation (filter f l) (filter f l').
Proof.
  intros P. induction P as [|x l l' P IH|x y l|l l' l'' P1 IH1 P2 IH2]; simpl.
  - apply Permutation_refl.
  - destruct (f x); [apply perm_skip|]; exact IH.
  - destruct (f x), (f y); try apply Permutation_refl. apply perm_swap.
  - eapply Permutation_trans; eassumption.
Qed.

Lemma nodup_map_filter {A} (key : A -> Z) (f : A -> bool) l : NoDup (map key l) -> NoDup (map key (filter f l)).
Proof.
  induction l as [|a l IH]; simpl; intros ND; [constructor|].
  inversion ND as [|? ? Hn ND']; subst. destruct (f a); simpl; [|apply IH, ND'].
  constructor; [|apply IH, ND'].
  intro Hin. apply Hn. apply in_map_iff in Hin. destruct Hin as [x [Hx Hf]].
  apply in_map_iff. exists x. split; [exact Hx|]. apply filter_In in Hf. apply Hf.
Qed.

(* one round, two different states that agree on (prev, cur), two different schedules of two different leftovers *)
Lemma recache_round_R l0 b sa sb sta stb :
  NoDup (map fst l0) -> rc_R sta stb ->
  Forall (fun d => d <= rc_prev sta) (rc_deleted sta) -> Forall (fun d => d <= rc_prev stb) (rc_deleted stb) ->
  Permutation sa (remaining (rc_deleted sta) l0) -> Permutation sb (remaining (rc_deleted stb) l0) ->
  rc_R (recache_loop b sa sta) (recache_loop b sb stb).
Proof.
  intros ND R Da Db Pa Pb. pose proof R as [Rp Rc].
  assert (La : Permutation (live (rc_prev sta) sa) (live (rc_prev sta) l0)).
  { unfold live at 1. eapply Permutation_trans; [apply filter_perm, Pa|].
    fold (live (rc_prev sta) (remaining (rc_deleted sta) l0)).
    rewrite remaining_live_eq by exact Da. apply Permutation_refl. }
  assert (Lb : Permutation (live (rc_prev stb) sb) (live (rc_prev stb) l0)).
  { unfold live at 1. eapply Permutation_trans; [apply filter_perm, Pb|].
    fold (live (rc_prev stb) (remaining (rc_deleted stb) l0)).
    rewrite remaining_live_eq by exact Db. apply Permutation_refl. }
  eapply rc_R_trans; [apply recache_dead_entries_gen, Z.le_refl|].
  eapply rc_R_trans; [|apply rc_R_sym_c08, recache_dead_entries_gen, Z.le_refl].
  rewrite <- Rp in *.
  eapply rc_R_trans.
  - apply recache_loop_perm; [exact La|].
    eapply Permutation_NoDup; [apply Permutation_map, Permutation_sym, La|]. apply nodup_map_filter, ND.
  - eapply rc_R_trans.
    + apply (fold_R_resp rc_R (recache_step b) (recache_step_R b)). exact R.
    + apply recache_loop_perm; [apply Permutation_sym, Lb|]. apply nodup_map_filter, ND.
Qed.

Lemma recache_run_R l0 bounds : NoDup (map fst l0) -> forall sta stb sta' stb',
  rc_R sta stb ->
  Forall (fun d => d <= rc_prev sta) (rc_deleted sta) -> Forall (fun d => d <= rc_prev stb) (rc_deleted stb) ->
  recache_run l0 bounds sta sta' -> recache_run l0 bounds stb stb' -> rc_R sta' stb'.
Proof.
  intros ND. induction bounds as [|b bs IH]; intros sta stb sta' stb' R Da Db Ha Hb.
  - inversion Ha; inversion Hb; subst. exact R.
  - inversion Ha as [|? ? sa ? ? Pa Ra]; inversion Hb as [|? ? sb ? ? Pb Rb]; subst.
    eapply IH; [| | |exact Ra|exact Rb].
    + eapply recache_round_R; eassumption.
    + apply recache_deleted_bound, Da.
    + apply recache_deleted_bound, Db.
Qed.

Lemma recache_deleted_witness :
  exists bound st l l', Permutation l l' /\ NoDup (map fst l) /\
    rc_deleted (recache_loop bound l st) <> rc_deleted (recache_loop bound l' st) /\
    rc_lastp (recache_loop bound l st) <> rc_lastp (recache_loop bound l' st).
Proof.
  exists 10, (mkRc 0 None [] None), [(3, 30); (5, 50)], [(5, 50); (3, 30)].
  split; [apply perm_swap|]. split.
  - simpl. constructor; [simpl; intros [H|[]]; discriminate|]. constructor; [intros []|constructor].
  - split; vm_compute; discriminate.
Qed.

Lemma early_exit_reads_witness :
  exists l l', Permutation l l' /\ snd (staker_info 0 0 0 l) <> snd (staker_info 0 0 0 l').
Proof.
  exists [(1, None); (2, Some (1, 1))], [(2, Some (1, 1)); (1, None)]. split; [apply perm_swap|].
  vm_compute. discriminate.
Qed.

(* ---------------------------------------------------------------------------------------------- *)
(* S2: `for _, feederID := range sealed { RemoveNonce…(feederID, agc.GetValidators()) }`            *)

Lemma has_feeder_remove_other f1 f2 nl : f1 <> f2 -> has_feeder f1 (remove_first f2 nl) = has_feeder f1 nl.
Proof.
  intros D. induction nl as [|[f v] nl IH]; simpl; [reflexivity|].
  destruct (Z.eqb_spec f2 f); simpl.
  - subst. destruct (Z.eqb_spec f1 f); [congruence|]. reflexivity.
  - rewrite IH. reflexivity.
Qed.

Lemma remove_first_comm f1 f2 nl : remove_first f1 (remove_first f2 nl) = remove_first f2 (remove_first f1 nl).
Proof.
  induction nl as [|[f v] nl IH]; simpl; [reflexivity|].
  destruct (Z.eqb_spec f2 f), (Z.eqb_spec f1 f); simpl; subst.
  - reflexivity.
  - rewrite Z.eqb_refl. reflexivity.
  - rewrite Z.eqb_refl. reflexivity.
  - destruct (Z.eqb_spec f1 f); [congruence|]. destruct (Z.eqb_spec f2 f); [congruence|].
    rewrite IH. reflexivity.
Qed.

Lemma has_feeder_true_nonempty f nl : has_feeder f nl = true -> nl <> [].
Proof. destruct nl; [discriminate|intros _ H; discriminate]. Qed.

Definition norm_nl (nl : list (Z * Z)) : option (list (Z * Z)) := match nl with [] => None | _ => Some nl end.

Lemma g_remove_nonce_some f k nl :
  g_remove_nonce f k (Some nl) = if has_feeder f nl then norm_nl (remove_first f nl) else Some nl.
Proof. unfold g_remove_nonce, norm_nl. destruct (has_feeder f nl); [|reflexivity]. destruct (remove_first f nl); reflexivity. Qed.

Lemma norm_nl_nonempty nl : nl <> [] -> norm_nl nl = Some nl.
Proof. destruct nl; [congruence|reflexivity]. Qed.

Lemma g_remove_nonce_comm f1 f2 k v :
  g_remove_nonce f1 k (g_remove_nonce f2 k v) = g_remove_nonce f2 k (g_remove_nonce f1 k v).
Proof.
  destruct (Z.eq_dec f1 f2) as [->|D]; [reflexivity|].
  destruct v as [nl|]; [|reflexivity].
  rewrite !g_remove_nonce_some.
  destruct (has_feeder f1 nl) eqn:H1, (has_feeder f2 nl) eqn:H2.
  - assert (N2 : remove_first f2 nl <> []).
    { apply (has_feeder_true_nonempty f1). rewrite has_feeder_remove_other by exact D. exact H1. }
    assert (N1 : remove_first f1 nl <> []).
    { apply (has_feeder_true_nonempty f2). rewrite has_feeder_remove_other by congruence. exact H2. }
    rewrite (norm_nl_nonempty _ N2), (norm_nl_nonempty _ N1), !g_remove_nonce_some.
    rewrite has_feeder_remove_other by exact D. rewrite H1.
    rewrite has_feeder_remove_other by congruence. rewrite H2.
    rewrite remove_first_comm. reflexivity.
  - rewrite g_remove_nonce_some, H1.
    destruct (remove_first f1 nl) as [|e r] eqn:E; [reflexivity|].
    change (norm_nl (e :: r)) with (Some (e :: r)). rewrite g_remove_nonce_some.
    rewrite <- E. rewrite has_feeder_remove_other by congruence. rewrite H2. reflexivity.
  - rewrite g_remove_nonce_some, H2.
    destruct (remove_first f2 nl) as [|e r] eqn:E; [reflexivity|].
    change (norm_nl (e :: r)) with (Some (e :: r)). rewrite g_remove_nonce_some.
    rewrite <- E. rewrite has_feeder_remove_other by exact D. rewrite H1. reflexivity.
  - rewrite !g_remove_nonce_some, H1, H2. reflexivity.
Qed.

(* pointwise value of a keyed fold whose elements are their own (distinct) keys *)
Lemma keyed_fold_id_pointwise {V} (g : Z -> option V -> option V) vals : NoDup vals -> forall m x,
  keyed_fold (fun v => v) g vals m x = if existsb (Z.eqb x) vals then g x (m x) else m x.
Proof.
  induction vals as [|v vals IH]; intros ND m x; simpl; [reflexivity|].
  inversion ND as [|? ? Hn ND']; subst. unfold keyed_fold in *. simpl. rewrite IH by exact ND'.
  unfold keyed_step, fset. destruct (Z.eqb_spec x v); simpl.
  - subst. rewrite ?Z.eqb_refl.
    destruct (existsb (Z.eqb v) vals) eqn:E; [|reflexivity].
    exfalso. apply existsb_exists in E. destruct E as [y [Hy Ey]]. apply Z.eqb_eq in Ey. subst. contradiction.
  - destruct (existsb (Z.eqb x) vals); [|reflexivity].
    destruct (Z.eqb_spec x v); [contradiction|]. reflexivity.
Qed.

Lemma remove_nonce_for_comm f1 vs1 f2 vs2 st : NoDup vs1 -> NoDup vs2 ->
  feq (remove_nonce_for f2 vs2 (remove_nonce_for f1 vs1 st)) (remove_nonce_for f1 vs1 (remove_nonce_for f2 vs2 st)).
Proof.
  intros N1 N2 x. unfold remove_nonce_for.
  rewrite !keyed_fold_id_pointwise by assumption.
  destruct (existsb (Z.eqb x) vs1), (existsb (Z.eqb x) vs2); try reflexivity.
  apply g_remove_nonce_comm.
Qed.

Lemma seal_consume_fold sealed : forall st,
  seal_consume sealed st = fold_left (fun s fv => remove_nonce_for (fst fv) (snd fv) s) sealed st.
Proof. induction sealed as [|[f vals] r IH]; intros st; simpl; [reflexivity|apply IH]. Qed.

Lemma fold_left_map_c08 {A B S} (f : S -> B -> S) (h : A -> B) l : forall s,
  fold_left f (map h l) s = fold_left (fun s x => f s (h x)) l s.
Proof. induction l as [|a l IH]; intros s; simpl; [reflexivity|apply IH]. Qed.

(* one schedule of the validator map per sealed feeder: [sched f] is the order GetValidators() produced when
   feeder f was processed; the keys of a Go map are distinct, hence the NoDup hypotheses *)
Lemma seal_consume_perm (sched sched' : Z -> list Z) fs fs' st :
  (forall f, NoDup (sched f)) -> (forall f, Permutation (sched f) (sched' f)) ->
  Permutation fs fs' ->
  feq (seal_consume (map (fun f => (f, sched f)) fs) st) (seal_consume (map (fun f => (f, sched' f)) fs') st).
Proof.
  intros ND PS P. rewrite !seal_consume_fold, !fold_left_map_c08. simpl.
  eapply feq_trans.
  - apply (fold_perm_R feq (fun s f => remove_nonce_for f (sched f) s) feq_refl feq_trans) with (l' := fs').
    + intros s s' a H. apply remove_nonce_perm; [apply Permutation_refl|exact H].
    + intros s a b. apply remove_nonce_for_comm; apply ND.
    + exact P.
    + apply feq_refl.
  - clear P. generalize st. induction fs' as [|f r IH]; intros s; simpl; [apply feq_refl|].
    eapply feq_trans; [apply IH|].
    apply (fold_R_resp feq (fun s f => remove_nonce_for f (sched' f) s)).
    + intros a b c H. apply remove_nonce_perm; [apply Permutation_refl|exact H].
    + apply remove_nonce_perm; [apply PS|apply feq_refl].
Qed.

(* ---------------------------------------------------------------------------------------------- *)
(* S1: SealRound                                                                                    *)

Definition seal_R (a b : seal_st) : Prop :=
  feq (ss_rounds a) (ss_rounds b) /\ feq (ss_aggs a) (ss_aggs b) /\
  Permutation (ss_failed a) (ss_failed b) /\ Permutation (ss_sealed a) (ss_sealed b).

Lemma seal_R_refl s : seal_R s s.
Proof. repeat split; try apply feq_refl; apply Permutation_refl. Qed.
Lemma seal_R_sym a b : seal_R a b -> seal_R b a.
Proof. intros (H1 & H2 & H3 & H4). repeat split; try (apply feq_sym; assumption); apply Permutation_sym; assumption. Qed.
Lemma seal_R_trans a b c : seal_R a b -> seal_R b c -> seal_R a c.
Proof.
  intros (H1 & H2 & H3 & H4) (G1 & G2 & G3 & G4).
  repeat split; try (eapply feq_trans; eassumption); eapply Permutation_trans; eassumption.
Qed.

(* what one iteration decides, as a function of the visited entry and of the aggregator entry of ITS OWN key *)
Record seal_dec := mkDec { d_round : option (option round); d_agg : bool; d_failed : list Z; d_sealed : list Z }.

Definition dec_of (feeders : Z -> feeder) (maxnonce h : Z) (force : bool) (e : Z * round) (aggv : option bool) : seal_dec :=
  let fid := fst e in
  let rnd := snd e in
  let second := match aggv with Some true => mkDec None true [] [fid] | _ => mkDec None false [] [] end in
  match r_status rnd with
  | ROpen =>
      let fd := feeders fid in
      let expired := (f_end fd >? 0) && (h >=? f_end fd) in
      let oow := ((h - r_based rnd) mod two64 >=? maxnonce) in
      if expired || oow || force
      then mkDec (Some (if expired then None else Some (mkRound (r_based rnd) (r_next rnd) RClosed))) true [f_token fd] [fid]
      else second
  | RClosed => second
  end.

Definition apply_dec (st : seal_st) (fid : Z) (d : seal_dec) : seal_st :=
  mkSeal (match d_round d with Some ov => fset fid ov (ss_rounds st) | None => ss_rounds st end)
         (if d_agg d then fdel fid (ss_aggs st) else ss_aggs st)
         (ss_failed st ++ d_failed d) (ss_sealed st ++ d_sealed d).

Lemma seal_step_dec feeders maxnonce h force st e :
  seal_R (seal_step feeders maxnonce h force st e)
         (apply_dec st (fst e) (dec_of feeders maxnonce h force e (ss_aggs st (fst e)))).
Proof.
  destruct e as [fid rnd]. unfold seal_step, dec_of, apply_dec. simpl.
  destruct (r_status rnd).
  - destruct ((f_end (feeders fid) >? 0) && (h >=? f_end (feeders fid)) ||
              ((h - r_based rnd) mod two64 >=? maxnonce) || force) eqn:C; simpl.
    + unfold fdel at 1. rewrite Z.eqb_refl.
      repeat split; simpl; try apply feq_refl; try apply Permutation_refl.
      destruct ((f_end (feeders fid) >? 0) && (h >=? f_end (feeders fid))); intro x;
        unfold fdel, fupd, fset; destruct (x =? fid); reflexivity.
    + destruct (ss_aggs st fid) as [[|]|]; simpl; rewrite ?app_nil_r;
        repeat split; simpl; try apply feq_refl; try apply Permutation_refl.
  - destruct (ss_aggs st fid) as [[|]|]; simpl; rewrite ?app_nil_r;
      repeat split; simpl; try apply feq_refl; try apply Permutation_refl.
Qed.

Lemma apply_dec_R st st' fid d : seal_R st st' -> seal_R (apply_dec st fid d) (apply_dec st' fid d).
Proof.
  intros (H1 & H2 & H3 & H4). unfold apply_dec. repeat split; simpl.
  - destruct (d_round d); [apply fset_feq; [reflexivity|exact H1] | exact H1].
  - destruct (d_agg d); [apply fdel_feq, H2 | exact H2].
  - apply Permutation_app_tail, H3.
  - apply Permutation_app_tail, H4.
Qed.

Lemma apply_dec_comm st fa da fb db : fa <> fb ->
  seal_R (apply_dec (apply_dec st fa da) fb db) (apply_dec (apply_dec st fb db) fa da).
Proof.
  intros D. unfold apply_dec. repeat split; simpl.
  - destruct (d_round da), (d_round db); try apply feq_refl.
    intro x. unfold fset. repeat match goal with |- context [?p =? ?q] => destruct (Z.eqb_spec p q) end; subst; congruence.
  - destruct (d_agg da), (d_agg db); try apply feq_refl.
    intro x. unfold fdel. repeat match goal with |- context [?p =? ?q] => destruct (Z.eqb_spec p q) end; subst; congruence.
  - rewrite <- !app_assoc. apply Permutation_app_head, Permutation_app_comm.
  - rewrite <- !app_assoc. apply Permutation_app_head, Permutation_app_comm.
Qed.

Lemma apply_dec_aggs_other st fid d x : x <> fid -> ss_aggs (apply_dec st fid d) x = ss_aggs st x.
Proof.
  intros D. unfold apply_dec. simpl. destruct (d_agg d); [|reflexivity].
  unfold fdel. destruct (Z.eqb_spec x fid); [contradiction|reflexivity].
Qed.

Section SealProofs.
  Variable feeders : Z -> feeder.
  Variables maxnonce h : Z.
  Variable force : bool.
  Let step := seal_step feeders maxnonce h force.
  Let dec := dec_of feeders maxnonce h force.

  Lemma seal_step_R st st' e : seal_R st st' -> seal_R (step st e) (step st' e).
  Proof.
    intros H. unfold step.
    eapply seal_R_trans; [apply seal_step_dec|].
    eapply seal_R_trans; [|apply seal_R_sym, seal_step_dec].
    destruct H as (H1 & H2 & H3 & H4). rewrite (H2 (fst e)).
    apply apply_dec_R. repeat split; assumption.
  Qed.

  Lemma seal_step_via_dec st a b : fst a <> fst b ->
    seal_R (step (step st a) b)
           (apply_dec (apply_dec st (fst a) (dec a (ss_aggs st (fst a)))) (fst b) (dec b (ss_aggs st (fst b)))).
  Proof.
    intros D. unfold step.
    eapply seal_R_trans; [apply seal_step_dec|].
    pose proof (seal_step_dec feeders maxnonce h force st a) as Ha.
    assert (E : ss_aggs (seal_step feeders maxnonce h force st a) (fst b) = ss_aggs st (fst b)).
    { destruct Ha as (_ & Ha2 & _). rewrite (Ha2 (fst b)). apply apply_dec_aggs_other. congruence. }
    rewrite E. apply apply_dec_R. exact Ha.
  Qed.

  Lemma seal_step_comm st a b : fst a <> fst b -> seal_R (step (step st a) b) (step (step st b) a).
  Proof.
    intros D.
    eapply seal_R_trans; [apply seal_step_via_dec, D|].
    eapply seal_R_trans; [apply apply_dec_comm, D|].
    apply seal_R_sym, seal_step_via_dec. congruence.
  Qed.

  Lemma seal_round_perm l l' aggs :
    Permutation l l' -> NoDup (map fst l) ->
    seal_R (seal_round feeders maxnonce h force l aggs) (seal_round feeders maxnonce h force l' aggs).
  Proof.
    intros P ND. unfold seal_round.
    apply (fold_perm_R_nodup seal_R step seal_R_refl seal_R_trans seal_step_R fst); try assumption.
    - intros s a b D. apply seal_step_comm, D.
    - repeat split; simpl; try apply feq_refl; try apply Permutation_refl.
      apply of_list_perm; assumption.
  Qed.
End SealProofs.

Lemma seal_lists_witness :
  exists feeders maxnonce h force l l' aggs,
    Permutation l l' /\ NoDup (map fst l) /\
    ss_sealed (seal_round feeders maxnonce h force l aggs) <> ss_sealed (seal_round feeders maxnonce h force l' aggs) /\
    ss_failed (seal_round feeders maxnonce h force l aggs) <> ss_failed (seal_round feeders maxnonce h force l' aggs).
Proof.
  exists (fun fid => mkFeeder (fid + 100) 0), 3, 20, true,
         [(1, mkRound 10 2 ROpen); (2, mkRound 10 2 ROpen)], [(2, mkRound 10 2 ROpen); (1, mkRound 10 2 ROpen)], fempty.
  split; [apply perm_swap|]. split.
  - simpl. constructor; [simpl; intros [H|[]]; discriminate|]. constructor; [intros []|constructor].
  - split; vm_compute; discriminate.
Qed.

(* ---------------------------------------------------------------------------------------------- *)
(* compositions                                                                                      *)

Lemma endblock_seal_phase_perm feeders maxnonce h force l l' aggs sched sched' ns ps :
  Permutation l l' -> NoDup (map fst l) ->
  (forall f, NoDup (sched f)) -> (forall f, Permutation (sched f) (sched' f)) ->
  let r := endblock_seal_phase feeders maxnonce h force l aggs sched ns ps in
  let r' := endblock_seal_phase feeders maxnonce h force l' aggs sched' ns ps in
  feq (fst (fst (fst r))) (fst (fst (fst r'))) /\ feq (snd (fst (fst r))) (snd (fst (fst r'))) /\
  feq (snd (fst r)) (snd (fst r')) /\ feq (snd r) (snd r').
Proof.
  intros P ND NS PS. unfold endblock_seal_phase. simpl.
  destruct (seal_round_perm feeders maxnonce h force l l' aggs P ND) as (H1 & H2 & H3 & H4).
  repeat split; try assumption.
  - apply seal_consume_perm; assumption.
  - apply grow_all_perm, H3.
Qed.

Lemma insert_by_perm {A} (key : A -> Z) x l : Permutation (insert_by key x l) (x :: l).
Proof.
  induction l as [|y l IH]; simpl; [apply Permutation_refl|].
  destruct (key x <=? key y); [apply Permutation_refl|].
  eapply Permutation_trans; [apply perm_skip, IH|apply perm_swap].
Qed.

Lemma sort_by_is_perm {A} (key : A -> Z) l : Permutation (sort_by key l) l.
Proof.
  induction l as [|x l IH]; unfold sort_by in *; simpl; [apply Permutation_refl|].
  eapply Permutation_trans; [apply insert_by_perm|apply perm_skip, IH].
Qed.

Lemma flat_map_perm {A B} (f : A -> list B) l l' : Permutation l l' -> Permutation (flat_map f l) (flat_map f l').
Proof.
  intros P. induction P as [|x l l' P IH|x y l|l l' l'' P1 IH1 P2 IH2]; simpl.
  - apply Permutation_refl.
  - apply Permutation_app_head, IH.
  - rewrite !app_assoc. apply Permutation_app_tail, Permutation_app_comm.
  - eapply Permutation_trans; eassumption.
Qed.

Lemma acc_power_perm occ occ' s : Permutation occ occ' -> acc_power occ s = acc_power occ' s.
Proof. intros P. unfold acc_power. apply zsum_perm, Permutation_map, filter_perm, P. Qed.

Lemma first_occ_In l x : In x (first_occ l) <-> In x l.
Proof.
  unfold first_occ. rewrite <- in_rev. rewrite nodup_In. rewrite <- in_rev. reflexivity.
Qed.

Lemma first_occ_NoDup l : NoDup (first_occ l).
Proof.
  unfold first_occ. eapply Permutation_NoDup; [apply Permutation_rev|]. apply NoDup_nodup.
Qed.

Lemma first_occ_perm l l' : Permutation l l' -> Permutation (first_occ l) (first_occ l').
Proof.
  intros P. apply NoDup_Permutation; try apply first_occ_NoDup.
  intro x. rewrite !first_occ_In. split; intro H.
  - eapply Permutation_in; [exact P|exact H].
  - eapply Permutation_in; [apply Permutation_sym, P|exact H].
Qed.

Lemma alloc_accum_perm R occ occ' rewards :
  Permutation occ occ' ->
  feq (fst (alloc_accum R occ rewards)) (fst (alloc_accum R occ' rewards)) /\
  snd (alloc_accum R occ rewards) = snd (alloc_accum R occ' rewards).
Proof.
  intros P. unfold alloc_accum. apply alloc_stakers_perm.
  eapply Permutation_trans; [apply sort_by_is_perm|].
  eapply Permutation_trans; [|apply Permutation_sym, sort_by_is_perm].
  rewrite (map_ext (fun s => (s, acc_power occ s)) (fun s => (s, acc_power occ' s)))
    by (intro s; rewrite (acc_power_perm occ occ' s P); reflexivity).
  apply Permutation_map, first_occ_perm, Permutation_map, P.
Qed.

Lemma alloc_from_assets_perm R stakers_of power assets assets' rewards :
  Permutation assets assets' ->
  feq (fst (alloc_from_assets R stakers_of power assets rewards)) (fst (alloc_from_assets R stakers_of power assets' rewards)) /\
  snd (alloc_from_assets R stakers_of power assets rewards) = snd (alloc_from_assets R stakers_of power assets' rewards).
Proof. intros P. unfold alloc_from_assets. apply alloc_accum_perm, flat_map_perm, P. Qed.

(* ---------------------------------------------------------------------------------------------- *)
(* RemoveNonceWithFeederIDForAll                                                                     *)

Lemma seal_consume_all_perm keys fs fs' st :
  NoDup keys -> Permutation fs fs' -> feq (seal_consume_all keys fs st) (seal_consume_all keys fs' st).
Proof.
  intros ND P. unfold seal_consume_all.
  apply (seal_consume_perm (fun _ => keys) (fun _ => keys)); [intros _; exact ND|intros _; apply Permutation_refl|exact P].
Qed.

(* a validator without a row stays without one, whether or not the iteration lists it *)
Lemma remove_nonce_absent f vals st x : NoDup vals -> st x = None -> remove_nonce_for f vals st x = None.
Proof.
  intros ND H. unfold remove_nonce_for. rewrite keyed_fold_id_pointwise by exact ND.
  destruct (existsb (Z.eqb x) vals); rewrite H; reflexivity.
Qed.

Lemma nodup_app_l_c08 {A} (l1 l2 : list A) : NoDup (l1 ++ l2) -> NoDup l1.
Proof.
  induction l1 as [|a l1 IH]; simpl; intros H; [constructor|].
  inversion H as [|? ? Hn ND]; subst. constructor; [|apply IH, ND].
  intro Hin. apply Hn. apply in_or_app. left. exact Hin.
Qed.

(* listing additional validators that have no row changes nothing: the store iteration of a later feeder (which no
   longer sees rows deleted by an earlier one) and the initial key list describe the same writes *)
Lemma remove_nonce_extra_keys f vals extra st :
  NoDup (vals ++ extra) -> (forall x, In x extra -> st x = None) ->
  feq (remove_nonce_for f (vals ++ extra) st) (remove_nonce_for f vals st).
Proof.
  intros ND H x. unfold remove_nonce_for.
  rewrite keyed_fold_id_pointwise by exact ND.
  rewrite keyed_fold_id_pointwise by (apply nodup_app_l_c08 in ND; exact ND).
  rewrite existsb_app.
  destruct (existsb (Z.eqb x) vals); simpl; [reflexivity|].
  destruct (existsb (Z.eqb x) extra) eqn:E; [|reflexivity].
  apply existsb_exists in E. destruct E as [y [Hy Ey]]. apply Z.eqb_eq in Ey. subst y.
  rewrite (H x Hy). reflexivity.
Qed.

Lemma swap_removal_witness :
  exists f1 f2 nl, f1 <> f2 /\ remove_swap f1 (remove_swap f2 nl) <> remove_swap f2 (remove_swap f1 nl).
Proof.
  exists 1, 2, [(1, 0); (2, 0); (3, 0); (4, 0)]. split; [discriminate|]. vm_compute. discriminate.
Qed.
