(* C08/Props.v — property theorems only.  State-machine determinism, the part a proof can carry:
   every `range` over a Go map in the consensus packages (inventory coq/C08/sites.txt, tied to the source by
   tools/sitescan) is a fold over a list whose ORDER IS THE SCHEDULE; each theorem says that what reaches the
   store / the ABCI response is the same for ALL schedules (all permutations).  `feq` = finite maps compared
   pointwise; slices that the code sorts afterwards are compared after the sort. *)
From Coq Require Import List ZArith Bool Permutation.
From Exo Require Import Base.Util C08.Model C08.Proofs.
Import ListNotations.
Local Open Scope Z_scope.

(* ---- generic ---------------------------------------------------------------------------------- *)

Theorem C08_model_is_function : forall feeders maxnonce h force l aggs l' aggs',
  l = l' -> aggs = aggs' -> seal_round feeders maxnonce h force l aggs = seal_round feeders maxnonce h force l' aggs'.
Proof. exact model_is_function. Qed.
Print Assumptions C08_model_is_function.

(* one update of the entry `key a` per element, commuting on equal keys (additive updates, idempotent updates) *)
Theorem C08_keyed_fold : forall (A V : Type) (key : A -> Z) (g : A -> option V -> option V) l l' m,
  (forall a b v, key a = key b -> g a (g b v) = g b (g a v)) ->
  Permutation l l' -> feq (keyed_fold key g l m) (keyed_fold key g l' m).
Proof. intros A V key g l l' m C P. apply keyed_fold_perm; [exact C|exact P|apply feq_refl]. Qed.
Print Assumptions C08_keyed_fold.

(* writes to distinct keys *)
Theorem C08_keyed_fold_nodup : forall (A V : Type) (key : A -> Z) (g : A -> option V -> option V) l l' m,
  NoDup (map key l) -> Permutation l l' -> feq (keyed_fold key g l m) (keyed_fold key g l' m).
Proof. intros A V key g l l' m ND P. apply keyed_fold_perm_nodup; [exact ND|exact P|apply feq_refl]. Qed.
Print Assumptions C08_keyed_fold_nodup.

(* a slice collected in map order and then sorted (sort.Sort / sort.Strings on plain values) *)
Theorem C08_sorted_output : forall l l', Permutation l l' -> isort l = isort l'.
Proof. exact isort_perm. Qed.
Print Assumptions C08_sorted_output.

(* sort.Slice (NOT stable) by a key: one outcome iff the keys are distinct … *)
Theorem C08_sort_by_unique_keys : forall (A : Type) (key : A -> Z) l l',
  NoDup (map key l) -> Permutation l l' -> sort_by key l = sort_by key l'.
Proof. intros A key l l'. apply sort_by_perm. Qed.
Print Assumptions C08_sort_by_unique_keys.

(* … and with ties the outcome depends on the input order (so every consumer of such a slice needs its own
   order-independence argument, e.g. C08_AllocateTokensToStakers) *)
Theorem C08_unstable_sort_ties_refuted :
  exists (l l' : list (Z * Z)), Permutation l l' /\ sort_by fst l <> sort_by fst l'.
Proof. exact unstable_sort_ties_witness. Qed.
Print Assumptions C08_unstable_sort_ties_refuted.

(* ---- x/oracle: SealRound and the EndBlock loops that consume its map-ordered slices ------------------ *)

Theorem C08_SealRound : forall feeders maxnonce h force l l' aggs,
  Permutation l l' -> NoDup (map fst l) ->
  let s := seal_round feeders maxnonce h force l aggs in
  let s' := seal_round feeders maxnonce h force l' aggs in
  feq (ss_rounds s) (ss_rounds s') /\ feq (ss_aggs s) (ss_aggs s') /\
  Permutation (ss_failed s) (ss_failed s') /\ Permutation (ss_sealed s) (ss_sealed s').
Proof. intros feeders maxnonce h force l l' aggs P ND. apply seal_round_perm; assumption. Qed.
Print Assumptions C08_SealRound.

(* the returned slices themselves ARE schedule-dependent: only their consumers make the block deterministic *)
Theorem C08_SealRound_lists_refuted :
  exists feeders maxnonce h force l l' aggs,
    Permutation l l' /\ NoDup (map fst l) /\
    ss_sealed (seal_round feeders maxnonce h force l aggs) <> ss_sealed (seal_round feeders maxnonce h force l' aggs) /\
    ss_failed (seal_round feeders maxnonce h force l aggs) <> ss_failed (seal_round feeders maxnonce h force l' aggs).
Proof. exact seal_lists_witness. Qed.
Print Assumptions C08_SealRound_lists_refuted.

(* for feederID in sealed: RemoveNonceWithFeederIDForValidators(feederID, agc.GetValidators()) — any order of
   the sealed feeders, and for every feeder any order of the validator map *)
Theorem C08_EndBlock_sealed_consumer : forall (sched sched' : Z -> list Z) fs fs' st,
  (forall f, NoDup (sched f)) -> (forall f, Permutation (sched f) (sched' f)) -> Permutation fs fs' ->
  feq (seal_consume (map (fun f => (f, sched f)) fs) st) (seal_consume (map (fun f => (f, sched' f)) fs') st).
Proof. exact seal_consume_perm. Qed.
Print Assumptions C08_EndBlock_sealed_consumer.

(* the same loop as it is at HEAD: RemoveNonceWithFeederIDForAll(feederID) iterates the nonce STORE (no schedule);
   what is left of the schedule is the order of `sealed` *)
Theorem C08_EndBlock_sealed_consumer_all : forall keys fs fs' st,
  NoDup keys -> Permutation fs fs' -> feq (seal_consume_all keys fs st) (seal_consume_all keys fs' st).
Proof. exact seal_consume_all_perm. Qed.
Print Assumptions C08_EndBlock_sealed_consumer_all.

(* … and it does not matter that a later feeder's store iteration no longer lists the validators whose row an earlier
   feeder emptied: listing validators without a row changes nothing *)
Theorem C08_remove_nonce_rowless_validators : forall f vals extra st,
  NoDup (vals ++ extra) -> (forall x, In x extra -> st x = None) ->
  feq (remove_nonce_for f (vals ++ extra) st) (remove_nonce_for f vals st).
Proof. exact remove_nonce_extra_keys. Qed.
Print Assumptions C08_remove_nonce_rowless_validators.

(* what all of the above rests on: the NonceList is an ORDERED list and the code removes an entry by
   `append(l[:i], l[i+1:]...)`, which keeps the order of the rest; two such removals commute … *)
Theorem C08_nonce_removal_commutes : forall f1 f2 nl,
  remove_first f1 (remove_first f2 nl) = remove_first f2 (remove_first f1 nl).
Proof. exact remove_first_comm. Qed.
Print Assumptions C08_nonce_removal_commutes.

(* … including the "delete the row when it becomes empty" part (the per-validator store update) … *)
Theorem C08_nonce_row_update_commutes : forall f1 f2 k v,
  g_remove_nonce f1 k (g_remove_nonce f2 k v) = g_remove_nonce f2 k (g_remove_nonce f1 k v).
Proof. exact g_remove_nonce_comm. Qed.
Print Assumptions C08_nonce_row_update_commutes.

(* … whereas the cheaper swap-with-last removal does not: removing 1 then 2 from [1;2;3;4] leaves [4;3], 2 then 1
   leaves [3;4] (seeded mutant C08-3) *)
Theorem C08_swap_removal_refuted :
  exists f1 f2 nl, f1 <> f2 /\ remove_swap f1 (remove_swap f2 nl) <> remove_swap f2 (remove_swap f1 nl).
Proof. exact swap_removal_witness. Qed.
Print Assumptions C08_swap_removal_refuted.

(* msgServer.CreatePrice: RemoveNonceWithFeederIDForValidators(feederID, agc.GetValidators()) for one feeder *)
Theorem C08_remove_nonce_for_validators : forall f vals vals' st,
  Permutation vals vals' -> feq (remove_nonce_for f vals st) (remove_nonce_for f vals' st).
Proof. intros f vals vals' st P. apply remove_nonce_perm; [exact P|apply feq_refl]. Qed.
Print Assumptions C08_remove_nonce_for_validators.

(* for tokenID in failed: GrowRoundID(tokenID) — duplicates allowed (two feeders of one token) *)
Theorem C08_EndBlock_failed_consumer : forall failed failed' st,
  Permutation failed failed' -> feq (grow_all failed st) (grow_all failed' st).
Proof. exact grow_all_perm. Qed.
Print Assumptions C08_EndBlock_failed_consumer.

(* AddZeroNonceItemWithFeederIDForValidators(feederID, agc.GetValidators()) *)
Theorem C08_EndBlock_new_round_nonces : forall f vals vals' st,
  Permutation vals vals' -> feq (add_zero_nonce_for f vals st) (add_zero_nonce_for f vals' st).
Proof. exact add_zero_nonce_perm. Qed.
Print Assumptions C08_EndBlock_new_round_nonces.

(* the sealing phase of oracle.EndBlock end to end: for every order of agc.rounds and every order of the validator
   map at every call of GetValidators(), the same rounds, aggregators, nonce store and price store *)
Theorem C08_oracle_EndBlock_seal_phase : forall feeders maxnonce h force l l' aggs sched sched' ns ps,
  Permutation l l' -> NoDup (map fst l) ->
  (forall f, NoDup (sched f)) -> (forall f, Permutation (sched f) (sched' f)) ->
  let r := endblock_seal_phase feeders maxnonce h force l aggs sched ns ps in
  let r' := endblock_seal_phase feeders maxnonce h force l' aggs sched' ns ps in
  feq (fst (fst (fst r))) (fst (fst (fst r'))) /\ feq (snd (fst (fst r))) (snd (fst (fst r'))) /\
  feq (snd (fst r)) (snd (fst r')) /\ feq (snd r) (snd r').
Proof. exact endblock_seal_phase_perm. Qed.
Print Assumptions C08_oracle_EndBlock_seal_phase.

(* Copy4CheckTx / copy4CheckTx family, GetCache(ItemV): copying a map entry by entry *)
Theorem C08_map_copy : forall (V : Type) (l l' : list (Z * V)) m,
  Permutation l l' -> NoDup (map fst l) -> feq (copy_into l m) (copy_into l' m).
Proof. intros V l l' m. apply copy_into_perm. Qed.
Print Assumptions C08_map_copy.

Theorem C08_SetValidatorPowers : forall vp vp',
  Permutation vp vp' -> NoDup (map fst vp) ->
  feq (fst (set_validator_powers vp)) (fst (set_validator_powers vp')) /\
  snd (set_validator_powers vp) = snd (set_validator_powers vp').
Proof. exact set_validator_powers_perm. Qed.
Print Assumptions C08_SetValidatorPowers.

Theorem C08_cacheValidator_add : forall l l' st,
  Permutation l l' -> NoDup (map fst l) ->
  feq (fst (cache_add l st)) (fst (cache_add l' st)) /\ snd (cache_add l st) = snd (cache_add l' st).
Proof. exact cache_add_perm. Qed.
Print Assumptions C08_cacheValidator_add.

(* reportPrice.aggregate: values of a map -> sort -> median *)
Theorem C08_reportPrice_aggregate : forall l l', Permutation l l' -> report_aggregate l = report_aggregate l'.
Proof. exact report_aggregate_perm. Qed.
Print Assumptions C08_reportPrice_aggregate.

(* ---- recacheAggregatorContext (node restart) ---------------------------------------------------------- *)

Theorem C08_recache_max : forall l l', Permutation l l' -> recache_max l = recache_max l'.
Proof. exact recache_max_perm. Qed.
Print Assumptions C08_recache_max.

(* the params selected by a loop over recentParamsMap (`prev`, what agc.SetParams / setCommonParams got last) *)
Theorem C08_recache_params_loop : forall bound l l' st,
  Permutation l l' -> NoDup (map fst l) ->
  rc_prev (recache_loop bound l st) = rc_prev (recache_loop bound l' st) /\
  rc_cur (recache_loop bound l st) = rc_cur (recache_loop bound l' st).
Proof. intros bound l l' st P ND. apply recache_loop_perm; assumption. Qed.
Print Assumptions C08_recache_params_loop.

(* which keys the loop deletes from the map, and the value left in the outer variable `p`, DO depend on the
   schedule … *)
Theorem C08_recache_deleted_refuted :
  exists bound st l l', Permutation l l' /\ NoDup (map fst l) /\
    rc_deleted (recache_loop bound l st) <> rc_deleted (recache_loop bound l' st) /\
    rc_lastp (recache_loop bound l st) <> rc_lastp (recache_loop bound l' st).
Proof. exact recache_deleted_witness. Qed.
Print Assumptions C08_recache_deleted_refuted.

(* … but entries with key <= prev never matter to a loop, … *)
Theorem C08_recache_dead_entries : forall bound l st,
  rc_prev (recache_loop bound l st) = rc_prev (recache_loop bound (live (rc_prev st) l) st) /\
  rc_cur (recache_loop bound l st) = rc_cur (recache_loop bound (live (rc_prev st) l) st).
Proof. intros bound l st. apply recache_dead_entries_gen. apply Z.le_refl. Qed.
Print Assumptions C08_recache_dead_entries.

(* … and whatever a schedule deleted is dead for every later loop: the live part of what remains is the live
   part of the original map.  So the next loop (C08_recache_dead_entries + C08_recache_params_loop) starts from
   the same prev/cur and sees the same live entries, whatever the schedule of this one was. *)
Theorem C08_recache_remaining_live : forall bound l st,
  Forall (fun d => d <= rc_prev st) (rc_deleted st) ->
  let st' := recache_loop bound l st in
  live (rc_prev st') (remaining (rc_deleted st') l) = live (rc_prev st') l.
Proof. intros bound l st H st'. apply remaining_live_eq. apply recache_deleted_bound. exact H. Qed.
Print Assumptions C08_recache_remaining_live.

(* The whole replay: one round of loop #2 per replayed height, every round with an arbitrary schedule of whatever
   the earlier rounds left in the map.  Any two such runs end with the same prev and the same params. *)
Theorem C08_recache_replay : forall l0 bounds st st1 st2,
  NoDup (map fst l0) -> Forall (fun d => d <= rc_prev st) (rc_deleted st) ->
  recache_run l0 bounds st st1 -> recache_run l0 bounds st st2 ->
  rc_prev st1 = rc_prev st2 /\ rc_cur st1 = rc_cur st2.
Proof.
  intros l0 bounds st st1 st2 ND D H1 H2.
  apply (recache_run_R l0 bounds ND st st st1 st2); try assumption. apply rc_R_refl.
Qed.
Print Assumptions C08_recache_replay.

(* ---- x/assets, x/oracle getters with an early return -------------------------------------------------- *)

Theorem C08_GetStakerSpecifiedAssetInfo : forall t p r l l',
  Permutation l l' -> fst (staker_info t p r l) = fst (staker_info t p r l').
Proof. exact staker_info_perm. Qed.
Print Assumptions C08_GetStakerSpecifiedAssetInfo.

(* GetAssetsDecimal / GetMultipleAssetsPrices: same error-ness, and the same map when there is no error *)
Theorem C08_collect_map : forall (V : Type) (l l' : list (Z * option V)) acc r,
  Permutation l l' -> NoDup (map fst l) ->
  match fst (collect acc r l), fst (collect acc r l') with
  | Some m, Some m' => feq m m'
  | None, None => True
  | _, _ => False
  end.
Proof. intros V l l' acc r. apply collect_perm. Qed.
Print Assumptions C08_collect_map.

(* GetAssetsDecimal / GetMultipleAssetsPrices as repaired (keys collected, sorted, then read in sorted order):
   the WHOLE result — map, error-ness AND the number of store reads, i.e. the gas — is schedule-independent *)
Theorem C08_collect_sorted : forall (V : Type) (l l' : list (Z * option V)) acc r,
  NoDup (map fst l) -> Permutation l l' -> collect_sorted acc r l = collect_sorted acc r l'.
Proof. intros V l l' acc r. apply collect_sorted_perm. Qed.
Print Assumptions C08_collect_sorted.

(* the number of store reads (= gas, inside a transaction) is schedule-independent when no element fails … *)
Theorem C08_no_error_reads : forall t p r l l',
  (forall e, In e l -> snd e <> None) -> Permutation l l' ->
  snd (staker_info t p r l) = snd (staker_info t p r l').
Proof. exact staker_info_reads_perm. Qed.
Print Assumptions C08_no_error_reads.

(* … and schedule-DEPENDENT when one does: the loop returns at the first failing element it happens to visit *)
Theorem C08_early_exit_reads_refuted :
  exists l l', Permutation l l' /\ snd (staker_info 0 0 0 l) <> snd (staker_info 0 0 0 l').
Proof. exact early_exit_reads_witness. Qed.
Print Assumptions C08_early_exit_reads_refuted.

(* the same for the map-building getters as they were BEFORE the repair: reproduced on the real code (the GasUsed of
   a failing OptIntoAVS transaction differed between processes), hence the fix *)
Theorem C08_unsorted_collect_reads_refuted :
  exists (l l' : list (Z * option Z)), Permutation l l' /\ NoDup (map fst l) /\
    snd (collect fempty 0 l) <> snd (collect fempty 0 l').
Proof.
  exists [(1, None); (2, Some 6)], [(2, Some 6); (1, None)]. split; [apply perm_swap|]. split.
  - simpl. constructor; [simpl; intros [H|[]]; discriminate|]. constructor; [intros []|constructor].
  - vm_compute. discriminate.
Qed.
Print Assumptions C08_unsorted_collect_reads_refuted.

(* ---- x/feedistribution -------------------------------------------------------------------------------- *)

(* every order of the staker list — the map order of avsAssets AND whatever the unstable sort.Slice makes of
   equal powers — gives the same rewards and the same remainder; duplicates in the list allowed *)
Theorem C08_AllocateTokensToStakers : forall R l l' rewards,
  Permutation l l' ->
  feq (fst (alloc_stakers R l rewards)) (fst (alloc_stakers R l' rewards)) /\
  snd (alloc_stakers R l rewards) = snd (alloc_stakers R l' rewards).
Proof. exact alloc_stakers_perm. Qed.
Print Assumptions C08_AllocateTokensToStakers.

(* the same from the source of the disorder, in the shape the code has at HEAD: the stakers are visited asset by asset
   in any order of the avsAssets map, a staker met again is not listed again but its power is added up, the list is
   sorted by accumulated power (descending) by a sort that leaves ties in input order *)
Theorem C08_AllocateTokens_accumulated : forall R occ occ' rewards,
  Permutation occ occ' ->
  feq (fst (alloc_accum R occ rewards)) (fst (alloc_accum R occ' rewards)) /\
  snd (alloc_accum R occ rewards) = snd (alloc_accum R occ' rewards).
Proof. exact alloc_accum_perm. Qed.
Print Assumptions C08_AllocateTokens_accumulated.

Theorem C08_AllocateTokens_from_assets : forall R stakers_of power assets assets' rewards,
  Permutation assets assets' ->
  feq (fst (alloc_from_assets R stakers_of power assets rewards)) (fst (alloc_from_assets R stakers_of power assets' rewards)) /\
  snd (alloc_from_assets R stakers_of power assets rewards) = snd (alloc_from_assets R stakers_of power assets' rewards).
Proof. exact alloc_from_assets_perm. Qed.
Print Assumptions C08_AllocateTokens_from_assets.

(* not vacuous: the variant that hands the rounding remainder to the staker visited last is order-sensitive *)
Theorem C08_alloc_dust_to_last_is_order_sensitive :
  exists R total l l', Permutation l l' /\ NoDup (map fst l) /\
    exists k, alloc_dust_last R total R l fempty k <> alloc_dust_last R total R l' fempty k.
Proof. exact alloc_dust_witness. Qed.
Print Assumptions C08_alloc_dust_to_last_is_order_sensitive.

(* ---- x/avs ------------------------------------------------------------------------------------------- *)

Theorem C08_AVS_hook_groups : forall gs gs' m,
  Permutation gs gs' -> NoDup (map fst gs) -> feq (hook_groups gs m) (hook_groups gs' m).
Proof. exact hook_groups_perm. Qed.
Print Assumptions C08_AVS_hook_groups.

Theorem C08_GroupTasks_sort : forall g g',
  NoDup (map t_op g) -> Permutation g g' -> group_stat g = group_stat g'.
Proof. exact group_stat_perm. Qed.
Print Assumptions C08_GroupTasks_sort.

Theorem C08_Difference : forall d s s', Permutation s s' -> difference_with d s = difference_with d s'.
Proof. exact difference_with_perm. Qed.
Print Assumptions C08_Difference.

(* ---- non-vacuity ------------------------------------------------------------------------------------- *)

Definition ex_feeders (fid : Z) : feeder := mkFeeder (fid + 100) (if fid =? 2 then 15 else 0).
Definition ex_rounds : list (Z * round) :=
  [(1, mkRound 10 2 ROpen); (2, mkRound 10 2 ROpen); (3, mkRound 19 5 ROpen); (4, mkRound 10 2 RClosed)].
Definition ex_aggs : fmap bool := fupd 4 true (fupd 1 false fempty).

Example ex_seal_hyps : NoDup (map fst ex_rounds) /\ Permutation ex_rounds (rev ex_rounds).
Proof.
  split; [|apply Permutation_rev].
  simpl. repeat (constructor; [simpl; intuition discriminate|]). constructor.
Qed.

(* feeder 1 leaves the window, feeder 2 expires (deleted), feeder 3 stays open, feeder 4's sealed worker is dropped *)
Example ex_seal_two_orders :
  let s := seal_round ex_feeders 3 20 false ex_rounds ex_aggs in
  let s' := seal_round ex_feeders 3 20 false (rev ex_rounds) ex_aggs in
  (dump [1; 2; 3; 4] (ss_rounds s) = dump [1; 2; 3; 4] (ss_rounds s')) /\
  dump [1; 2; 3; 4] (ss_aggs s) = dump [1; 2; 3; 4] (ss_aggs s') /\
  ss_failed s = [101; 102] /\ ss_failed s' = [102; 101] /\
  ss_sealed s = [1; 2; 4] /\ ss_sealed s' = [4; 2; 1] /\
  ss_rounds s 2 = None /\ ss_rounds s 3 = Some (mkRound 19 5 ROpen).
Proof. vm_compute. repeat split. Qed.

Example ex_alloc_ties :
  let l := [(7, 5); (8, 5); (9, 5); (7, 5)] in
  dump [7; 8; 9] (fst (alloc_stakers (10 * dec_one) l fempty)) =
  dump [7; 8; 9] (fst (alloc_stakers (10 * dec_one) (rev l) fempty)) /\
  snd (alloc_stakers (10 * dec_one) l fempty) = 0.
Proof. vm_compute. split; reflexivity. Qed.

(* stakers 4 and 5 have equal power through different assets: the list (each staker once, powers accumulated) ends
   with 5 or with 4 depending on the asset order, the rewards do not care *)
Example ex_alloc_from_assets :
  let so := fun a => if a =? 1 then [1; 2; 4] else [1; 2; 5] in
  let pw := fun (_ s : Z) => if s <=? 2 then 40 else 3 in
  let occ := fun assets => flat_map (fun a => map (fun s => (s, pw a s)) (so a)) assets in
  let lst := fun o => sort_by (fun sp => - snd sp) (map (fun s => (s, acc_power o s)) (first_occ (map fst o))) in
  lst (occ [1; 2]) = [(1, 80); (2, 80); (4, 3); (5, 3)] /\
  lst (occ [2; 1]) = [(1, 80); (2, 80); (5, 3); (4, 3)] /\
  dump [1; 2; 4; 5] (fst (alloc_from_assets (7 * dec_one) so pw [1; 2] fempty)) =
  dump [1; 2; 4; 5] (fst (alloc_from_assets (7 * dec_one) so pw [2; 1] fempty)).
Proof. vm_compute. repeat split. Qed.

(* the AVS hook: a group whose task info cannot be read is skipped, the others are written; any order *)
Example ex_hook_groups :
  let g1 := (1, (true, [mkTask 7 true (Some 5); mkTask 3 true None; mkTask 9 false (Some 2)])) in
  let g2 := (2, (false, [mkTask 7 true (Some 5)])) in
  let g3 := (3, (true, [mkTask 4 true (Some 1)])) in
  dump [1; 2; 3] (hook_groups [g1; g2; g3] fempty) = dump [1; 2; 3] (hook_groups [g3; g2; g1] fempty) /\
  hook_groups [g1; g2; g3] fempty 1 = Some ([3; 7], [(7, 5)], 5) /\ hook_groups [g1; g2; g3] fempty 2 = None.
Proof. vm_compute. repeat split. Qed.

Example ex_median : report_aggregate [(1, 30); (2, 10); (3, 20)] = Some 20 /\ report_aggregate [(1, 30); (2, 11)] = Some 20 /\
                    report_aggregate [] = None.
Proof. vm_compute. repeat split. Qed.

Example ex_difference : difference [5; 3; 9] [3; 4; 4] = [4; 4; 5; 9].
Proof. vm_compute. reflexivity. Qed.

(* two runs of the replay (bounds 4, 6, 10) that delete different keys on the way *)
Example ex_recache_run :
  let l0 := [(3, 30); (5, 50); (12, 120)] in
  let st := mkRc 0 None [] None in
  recache_run l0 [4; 6; 10] st (recache_loop 10 [(12, 120)] (recache_loop 6 [(5, 50); (12, 120)] (recache_loop 4 l0 st))) /\
  recache_run l0 [4; 6; 10] st
    (recache_loop 10 [(12, 120)] (recache_loop 6 [(12, 120); (5, 50)] (recache_loop 4 [(12, 120); (5, 50); (3, 30)] st))).
Proof.
  split.
  - apply rr_round with (sched := [(3, 30); (5, 50); (12, 120)]); [vm_compute; apply Permutation_refl|].
    apply rr_round with (sched := [(5, 50); (12, 120)]); [vm_compute; apply Permutation_refl|].
    apply rr_round with (sched := [(12, 120)]); [vm_compute; apply Permutation_refl|]. apply rr_done.
  - apply rr_round with (sched := [(12, 120); (5, 50); (3, 30)]);
      [vm_compute; apply Permutation_sym, (Permutation_rev [(3, 30); (5, 50); (12, 120)])|].
    apply rr_round with (sched := [(12, 120); (5, 50)]); [vm_compute; apply perm_swap|].
    apply rr_round with (sched := [(12, 120)]); [vm_compute; apply Permutation_refl|]. apply rr_done.
Qed.

Example ex_recache :
  let st := mkRc 0 None [] None in
  let a := recache_loop 10 [(3, 30); (5, 50); (12, 120)] st in
  let b := recache_loop 10 [(12, 120); (5, 50); (3, 30)] st in
  rc_prev a = 5 /\ rc_cur a = Some 50 /\ rc_prev b = 5 /\ rc_cur b = Some 50 /\
  rc_deleted a = [5; 3] /\ rc_deleted b = [5] /\ rc_lastp a = Some 120 /\ rc_lastp b = Some 30.
Proof. vm_compute. repeat split. Qed.
