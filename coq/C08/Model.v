(* C08/Model.v — executable definitions only.

   State-machine determinism.  A Gallina function is deterministic by construction, so the content of this
   model is the places where Go injects a SCHEDULE into consensus code: `for k, v := range m` over a map `m`.
   Every such loop of the consensus packages (inventory: coq/C08/sites.txt, tied to the source by
   tools/sitescan) is written here as a fold over a `list` whose ORDER IS THE SCHEDULE.  The theorems
   (Proofs.v / Props.v) quantify over all permutations of that list.

   Conventions
   * identifiers (validator / staker / operator addresses, asset ids, feeder ids, token ids) are `Z`;
     the harness encodes strings by order-preserving integer codes, so `<` on codes is `<` on the strings.
   * the Go map being ITERATED is the list `l : list (Z * V)` (keys unique: `NoDup (map fst l)`);
   * the maps / KV stores being WRITTEN are total lookup functions `fmap V := Z -> option V`, compared
     extensionally (`feq`): "writes to distinct keys are compared as finite maps";
   * slices that the code sorts afterwards are compared after the sort (`isort`, `sort_by`);
   * log lines and error texts are not part of the result; error-ness is (`option`). *)
From Coq Require Import List ZArith Bool Lia Permutation.
From Exo Require Import Base.Util.
Import ListNotations.
Local Open Scope Z_scope.

(* ---------------------------------------------------------------------------------------------- *)
(* finite maps as lookup functions                                                                  *)

Definition fmap (V : Type) := Z -> option V.
Definition fempty {V} : fmap V := fun _ => None.
Definition fupd {V} (k : Z) (v : V) (m : fmap V) : fmap V := fun x => if x =? k then Some v else m x.
Definition fdel {V} (k : Z) (m : fmap V) : fmap V := fun x => if x =? k then None else m x.
Definition fset {V} (k : Z) (ov : option V) (m : fmap V) : fmap V := fun x => if x =? k then ov else m x.
Definition feq {V} (m m' : fmap V) : Prop := forall x, m x = m' x.

(* the map held by a Go map value whose iteration order is the list order *)
Fixpoint of_list {V} (l : list (Z * V)) : fmap V :=
  match l with
  | [] => fempty
  | (k, v) :: r => fun x => if x =? k then Some v else of_list r x
  end.

(* the generic shape of almost every site: one update of the entry `key a`, computed from the element and
   the old entry only *)
Definition keyed_step {A V} (key : A -> Z) (g : A -> option V -> option V) (m : fmap V) (a : A) : fmap V :=
  fset (key a) (g a (m (key a))) m.
Definition keyed_fold {A V} (key : A -> Z) (g : A -> option V -> option V) (l : list A) (m : fmap V) : fmap V :=
  fold_left (keyed_step key g) l m.

(* ---------------------------------------------------------------------------------------------- *)
(* sorting (the code's sort.Sort / sort.Slice / sort.Strings)                                        *)

Fixpoint insert (x : Z) (l : list Z) : list Z :=
  match l with
  | [] => [x]
  | y :: r => if x <=? y then x :: y :: r else y :: insert x r
  end.
Definition isort (l : list Z) : list Z := fold_right insert [] l.

(* sort of records by an integer key.  Go's sort.Slice is NOT stable: with equal keys any order of the tied
   elements may come out.  The model is the stable insertion sort applied to the (schedule-ordered) input, so
   "all outcomes of the unstable sort" = "all permutations of the input". *)
Section SortBy.
  Context {A : Type} (key : A -> Z).
  Fixpoint insert_by (x : A) (l : list A) : list A :=
    match l with
    | [] => [x]
    | y :: r => if key x <=? key y then x :: y :: r else y :: insert_by x r
    end.
  Definition sort_by (l : list A) : list A := fold_right insert_by [] l.
End SortBy.

(* ---------------------------------------------------------------------------------------------- *)
(* site: x/oracle/keeper/aggregator/context.go SealRound                                             *)

Inductive rstatus := ROpen | RClosed.
Record round := mkRound { r_based : Z; r_next : Z; r_status : rstatus }.
Record feeder := mkFeeder { f_token : Z; f_end : Z }.          (* params.GetTokenFeeder(feederID) *)

Record seal_st := mkSeal {
  ss_rounds : fmap round;      (* agc.rounds after the loop *)
  ss_aggs   : fmap bool;       (* agc.aggregators: feeder -> worker.sealed *)
  ss_failed : list Z;          (* returned slice of token ids, in iteration order *)
  ss_sealed : list Z }.        (* returned slice of feeder ids, in iteration order *)

Definition two64 : Z := 2 ^ 64.

Definition seal_step (feeders : Z -> feeder) (maxnonce h : Z) (force : bool) (st : seal_st) (e : Z * round) : seal_st :=
  let fid := fst e in
  let rnd := snd e in
  let st1 :=
    match r_status rnd with
    | ROpen =>
        let fd := feeders fid in
        let expired := (f_end fd >? 0) && (h >=? f_end fd) in
        let oow := ((h - r_based rnd) mod two64 >=? maxnonce) in      (* uint64 subtraction *)
        if expired || oow || force then
          mkSeal (if expired then fdel fid (ss_rounds st)
                  else fupd fid (mkRound (r_based rnd) (r_next rnd) RClosed) (ss_rounds st))
                 (fdel fid (ss_aggs st))
                 (ss_failed st ++ [f_token fd])
                 (ss_sealed st ++ [fid])
        else st
    | RClosed => st
    end in
  match ss_aggs st1 fid with
  | Some true => mkSeal (ss_rounds st1) (fdel fid (ss_aggs st1)) (ss_failed st1) (ss_sealed st1 ++ [fid])
  | _ => st1
  end.

(* `rounds` is the iterated map (its order = the schedule); the loop only ever touches the entry of the key it
   is visiting, so the set of visited entries is the initial key set. *)
Definition seal_round (feeders : Z -> feeder) (maxnonce h : Z) (force : bool)
           (rounds : list (Z * round)) (aggs : fmap bool) : seal_st :=
  fold_left (seal_step feeders maxnonce h force) rounds (mkSeal (of_list rounds) aggs [] []).

(* ---------------------------------------------------------------------------------------------- *)
(* consumers of SealRound / PrepareRoundEndBlock in x/oracle/module.go EndBlock                       *)

(* nonce store: validator -> NonceList [(feederID, value)]; absent = empty list *)
Definition nonces := fmap (list (Z * Z)).

Fixpoint remove_first (f : Z) (nl : list (Z * Z)) : list (Z * Z) :=
  match nl with
  | [] => []
  | (f', v) :: r => if f =? f' then r else (f', v) :: remove_first f r
  end.
Fixpoint has_feeder (f : Z) (nl : list (Z * Z)) : bool :=
  match nl with
  | [] => false
  | (f', _) :: r => (f =? f') || has_feeder f r
  end.

(* the seeded variant (C08-3), kept as the non-vacuity witness of the commutation lemma: "swap with the last element,
   drop the last" instead of the order-preserving `append(l[:i], l[i+1:]...)` *)
Fixpoint remove_swap (f : Z) (nl : list (Z * Z)) : list (Z * Z) :=
  match nl with
  | [] => []
  | (f', v) :: r => if f =? f' then match rev r with [] => [] | lst :: rr => lst :: rev rr end
                    else (f', v) :: remove_swap f r
  end.

(* removeNonceWithValidatorAndFeederID *)
Definition g_remove_nonce (f : Z) (_ : Z) (old : option (list (Z * Z))) : option (list (Z * Z)) :=
  match old with
  | None => None
  | Some nl => if has_feeder f nl
               then match remove_first f nl with [] => None | nl' => Some nl' end
               else Some nl
  end.
(* AddZeroNonceItemWithFeederIDForValidators, one validator *)
Definition g_add_zero_nonce (f : Z) (_ : Z) (old : option (list (Z * Z))) : option (list (Z * Z)) :=
  match old with
  | None => Some [(f, 0)]
  | Some nl => if has_feeder f nl then Some nl else Some (nl ++ [(f, 0)])
  end.

(* RemoveNonceWithFeederIDForValidators(feederID, agc.GetValidators()): validators = map-ordered list *)
Definition remove_nonce_for (f : Z) (validators : list Z) (st : nonces) : nonces :=
  keyed_fold (fun v => v) (g_remove_nonce f) validators st.
Definition add_zero_nonce_for (f : Z) (validators : list Z) (st : nonces) : nonces :=
  keyed_fold (fun v => v) (g_add_zero_nonce f) validators st.

(* `for _, feederID := range sealed { RemoveNonce…(feederID, agc.GetValidators()) }` — GetValidators() is
   re-evaluated (a fresh schedule) for every feeder: `scheds` gives one validator order per sealed feeder. *)
Fixpoint seal_consume (sealed : list (Z * list Z)) (st : nonces) : nonces :=
  match sealed with
  | [] => st
  | (f, vals) :: r => seal_consume r (remove_nonce_for f vals st)
  end.

(* HEAD (repair cb7f900): `for _, feederID := range sealed { RemoveNonceWithFeederIDForAll(ctx, feederID) }` — the
   validators are no longer taken from the validator MAP but from an iteration over the nonce STORE (key order, no
   schedule).  [keys] = the validators that have a row when the phase starts (distinct, in store order); a row that an
   earlier feeder emptied and deleted is simply absent later, and removing from an absent row is a no-op, so using
   the initial key list for every feeder describes the same writes.  The remaining schedule is the order of `sealed`. *)
Definition seal_consume_all (keys : list Z) (sealed : list Z) (st : nonces) : nonces :=
  seal_consume (map (fun f => (f, keys)) sealed) st.

(* `for _, tokenID := range failed { GrowRoundID(tokenID) }` : price store token -> (nextRoundID, latest price) *)
Definition g_grow (_ : Z) (old : option (Z * Z)) : option (Z * Z) :=
  match old with
  | Some (next, price) => Some (next + 1, price)
  | None => Some (2, 0)
  end.
Definition grow_all (failed : list Z) (st : fmap (Z * Z)) : fmap (Z * Z) :=
  keyed_fold (fun t => t) g_grow failed st.

(* the sealing phase of oracle.EndBlock, end to end: SealRound, then both consumer loops.  [sched f] = the order in
   which GetValidators() listed the validator map when sealed feeder f was processed.  Result = everything that
   survives the phase: agc.rounds, agc.aggregators (memory), nonce store, price store. *)
Definition endblock_seal_phase (feeders : Z -> feeder) (maxnonce h : Z) (force : bool)
           (rounds : list (Z * round)) (aggs : fmap bool) (sched : Z -> list Z)
           (ns : nonces) (ps : fmap (Z * Z)) : fmap round * fmap bool * nonces * fmap (Z * Z) :=
  let s := seal_round feeders maxnonce h force rounds aggs in
  (ss_rounds s, ss_aggs s,
   seal_consume (map (fun f => (f, sched f)) (ss_sealed s)) ns,
   grow_all (ss_failed s) ps).

(* ---------------------------------------------------------------------------------------------- *)
(* SetValidatorPowers, cacheValidator.add, GetCache(ItemV), Copy4CheckTx family                       *)

(* plain copy of a map into a fresh / existing map *)
Definition copy_into {V} (l : list (Z * V)) (m : fmap V) : fmap V :=
  keyed_fold (fun kv => fst kv) (fun kv _ => Some (snd kv)) l m.

(* SetValidatorPowers: (validatorsPower, totalPower) *)
Definition set_validator_powers (vp : list (Z * Z)) : fmap Z * Z :=
  fold_left (fun st kv => (fupd (fst kv) (snd kv) (fst st), snd st + snd kv)) vp (fempty, 0).

(* cacheValidator.add: (validators, update flag) *)
Definition cache_add_step (st : fmap Z * bool) (kv : Z * Z) : fmap Z * bool :=
  let (m, upd) := st in
  let (op, np) := kv in
  match m op with
  | Some p => if np =? 0 then (fdel op m, true)
              else if negb (p =? np) then (fupd op np m, true) else (m, upd)
  | None => (fupd op np m, true)
  end.
Definition cache_add (validators : list (Z * Z)) (st : fmap Z * bool) : fmap Z * bool :=
  fold_left cache_add_step validators st.

(* ---------------------------------------------------------------------------------------------- *)
(* reportPrice.aggregate: collect the values of a map, sort, median                                   *)

Definition median (l : list Z) : option Z :=
  let s := isort l in
  let n := length s in
  match n with
  | O => None                                             (* index out of range in Go: panic *)
  | _ => if Nat.odd n then nth_error s (Nat.div n 2)
         else match nth_error s (Nat.div n 2), nth_error s (Nat.div n 2 - 1) with
              | Some a, Some b => Some ((a + b) / 2)
              | _, _ => None
              end
  end.
Definition report_aggregate (prices : list (Z * Z)) : option Z := median (map snd prices).

(* ---------------------------------------------------------------------------------------------- *)
(* recacheAggregatorContext: the loops over recentParamsMap with the running `prev`                   *)

Record recache_st := mkRc {
  rc_prev : Z;                  (* prev *)
  rc_cur : option Z;            (* params handed to agc.SetParams / setCommonParams (an id of the params) *)
  rc_deleted : list Z;          (* keys deleted from recentParamsMap (loop #2 only) *)
  rc_lastp : option Z }.        (* the outer variable `p` after the loop: the LAST ITERATED value *)

Definition recache_step (bound : Z) (st : recache_st) (e : Z * Z) : recache_st :=
  let (b, p) := e in
  if (b <? bound) && (b >? rc_prev st)
  then mkRc b (Some p) (b :: rc_deleted st) (Some p)
  else mkRc (rc_prev st) (rc_cur st) (rc_deleted st) (Some p).
Definition recache_loop (bound : Z) (l : list (Z * Z)) (st : recache_st) : recache_st :=
  fold_left (recache_step bound) l st.
(* loop #1 (`from >= to`): max key *)
Definition recache_max (l : list (Z * Z)) : Z :=
  fold_left (fun prev e => if fst e >? prev then fst e else prev) l 0.
(* entries that can still matter to a later loop *)
Definition live (prev : Z) (l : list (Z * Z)) : list (Z * Z) := filter (fun e => fst e >? prev) l.
Definition remaining (deleted : list Z) (l : list (Z * Z)) : list (Z * Z) :=
  filter (fun e => negb (existsb (Z.eqb (fst e)) deleted)) l.

(* The replay loop of recacheAggregatorContext runs loop #2 once per replayed height, each time over what the
   earlier iterations left in recentParamsMap, each time in a fresh iteration order.  [recache_run l0 bounds st st']:
   st' is reachable from st by running the loop for the successive bounds, where every round uses an ARBITRARY
   schedule (permutation) of the entries of the original map l0 that have not been deleted so far. *)
Inductive recache_run (l0 : list (Z * Z)) : list Z -> recache_st -> recache_st -> Prop :=
| rr_done st : recache_run l0 [] st st
| rr_round b bs sched st st' :
    Permutation sched (remaining (rc_deleted st) l0) ->
    recache_run l0 bs (recache_loop b sched st) st' ->
    recache_run l0 (b :: bs) st st'.

(* ---------------------------------------------------------------------------------------------- *)
(* GetStakerSpecifiedAssetInfo (sum over the delegation map, early return on error),
   GetAssetsDecimal / GetMultipleAssetsPrices (build a map, early return on error)                    *)

(* element = (operator, Some (undelegatable tokens, wait-undelegation amount)) or None when the operator asset
   lookup fails.  Result: (info or error, number of store reads performed) *)
Fixpoint staker_info (tot pend : Z) (reads : nat) (l : list (Z * option (Z * Z))) : option (Z * Z) * nat :=
  match l with
  | [] => (Some (tot, pend), reads)
  | (_, None) :: _ => (None, S reads)
  | (_, Some (t, w)) :: r => staker_info (tot + t + w) (pend + w) (S reads) r
  end.

Fixpoint collect {V} (acc : fmap V) (reads : nat) (l : list (Z * option V)) : option (fmap V) * nat :=
  match l with
  | [] => (Some acc, reads)
  | (_, None) :: _ => (None, S reads)
  | (k, Some v) :: r => collect (fupd k v acc) (S reads) r
  end.

(* GetAssetsDecimal / GetMultipleAssetsPrices AFTER repo_patches/fix-c08-sorted-asset-iteration.patch: the keys
   of the map are collected (schedule), sorted (sort.Strings), and the reading loop runs over the sorted slice *)
Definition collect_sorted {V} (acc : fmap V) (reads : nat) (l : list (Z * option V)) : option (fmap V) * nat :=
  collect acc reads (sort_by (fun e => fst e) l).

(* ---------------------------------------------------------------------------------------------- *)
(* x/feedistribution AllocateTokensToStakers                                                         *)

Definition dec_one : Z := 10 ^ 18.
(* rewardToAllStakers.MulDecTruncate(stakerPower.QuoTruncate(total)), one denomination, all values are
   18-decimal fixed point integers (LegacyDec / DecCoin amounts) *)
Definition alloc_reward (R p total : Z) : Z := (R * ((p * dec_one) / total)) / dec_one.

Definition g_add_reward (R total : Z) (sp : Z * Z) (old : option Z) : option Z :=
  Some (match old with Some x => x | None => 0 end + alloc_reward R (snd sp) total).

(* `stakers` = globalStakerAddressList paired with stakersPowerMap, in the order in which the final loop
   visits them (map order of avsAssets, then whatever the unstable sort.Slice made of it). *)
Definition alloc_stakers (R : Z) (stakers : list (Z * Z)) (rewards : fmap Z) : fmap Z * Z :=
  let total := zsum (map snd stakers) in
  if total >? 0
  then (keyed_fold (fun sp => fst sp) (g_add_reward R total) stakers rewards,
        R - zsum (map (fun sp => alloc_reward R (snd sp) total) stakers))
  else (rewards, R).

(* the list as the code builds it (HEAD, after the repair "a staker is listed once with accumulated power"): for every
   asset of the avsAssets MAP (schedule) the stakers of the operator for that asset (a stored, ordered list), each
   with its power for that (avs, asset) visit; a staker met again is NOT listed again, its power is added up
   (stakersPowerMap[staker] = prev + cur).  [occ] = the occurrences (staker, power) in visiting order. *)
Definition acc_power (occ : list (Z * Z)) (s : Z) : Z := zsum (map snd (filter (fun e => fst e =? s) occ)).
Definition first_occ (l : list Z) : list Z := rev (nodup Z.eq_dec (rev l)).      (* first occurrences, in order *)
Definition alloc_accum (R : Z) (occ : list (Z * Z)) (rewards : fmap Z) : fmap Z * Z :=
  alloc_stakers R
    (sort_by (fun sp => - snd sp) (map (fun s => (s, acc_power occ s)) (first_occ (map fst occ))))   (* sort.Slice, descending *)
    rewards.
Definition alloc_from_assets (R : Z) (stakers_of : Z -> list Z) (power : Z -> Z -> Z) (assets : list Z) (rewards : fmap Z) : fmap Z * Z :=
  alloc_accum R (flat_map (fun a => map (fun s => (s, power a s)) (stakers_of a)) assets) rewards.

(* an order-SENSITIVE variant, used only to show that the theorem about [alloc_stakers] is not vacuous and as
   the model of a seeded mutation: the rounding remainder goes to the staker visited last *)
Fixpoint alloc_dust_last (R total rem : Z) (stakers : list (Z * Z)) (rewards : fmap Z) : fmap Z :=
  match stakers with
  | [] => rewards
  | [(s, _)] => fset s (Some (match rewards s with Some x => x | None => 0 end + rem)) rewards
  | (s, p) :: r =>
      let rw := alloc_reward R p total in
      alloc_dust_last R total (rem - rw) r
        (fset s (Some (match rewards s with Some x => x | None => 0 end + rw)) rewards)
  end.

(* ---------------------------------------------------------------------------------------------- *)
(* x/avs: GroupTasksByIDAndAddress (sort.Slice inside a map range), the epoch hook's loop over the groups,
   types.Difference                                                                                  *)

(* one stored result: operator, "has a signature", and the operator's active USD value for the task's AVS
   (None = GetOperatorOptedUSDValue fails: the hook `continue`s, the operator counts as signed but adds no power) *)
Record task_res := mkTask { t_op : Z; t_signed : bool; t_power : option Z }.

(* per group: results sorted by operator; statistics written to the task's own key:
   (signed operators, their (operator, power) list, total power) *)
Definition group_stat (g : list task_res) : list Z * list (Z * Z) * Z :=
  let s := sort_by t_op g in
  let signed := map t_op (filter t_signed s) in
  let powers := flat_map (fun t => if t_signed t then match t_power t with Some p => [(t_op t, p)] | None => [] end else []) s in
  (signed, powers, zsum (map snd powers)).
(* a group = (task key, (ok, results)); ok = GetTaskInfo and GetAVSUSDValue succeed for the group's own task / AVS
   (both are reads keyed by the group itself); when they do not, the hook `continue`s and writes nothing *)
Definition hook_groups (groups : list (Z * (bool * list task_res))) (tasks : fmap (list Z * list (Z * Z) * Z))
  : fmap (list Z * list (Z * Z) * Z) :=
  keyed_fold (fun kg : Z * (bool * list task_res) => fst kg)
             (fun (kg : Z * (bool * list task_res)) old => if fst (snd kg) then Some (group_stat (snd (snd kg))) else old)
             groups tasks.

(* types.Difference(a, b): elements of b not (any more) in the set of a, in b's order; then what is left of the
   set in MAP ORDER; then sort.Strings *)
Fixpoint remove_one (x : Z) (l : list Z) : list Z :=
  match l with
  | [] => []
  | y :: r => if x =? y then r else y :: remove_one x r
  end.
Fixpoint dedup (l : list Z) : list Z :=
  match l with
  | [] => []
  | x :: r => if existsb (Z.eqb x) r then dedup r else x :: dedup r
  end.
(* returns (collected from b, remaining set) *)
Fixpoint diff_scan (set : list Z) (b : list Z) : list Z * list Z :=
  match b with
  | [] => ([], set)
  | x :: r => if existsb (Z.eqb x) set
              then diff_scan (remove_one x set) r
              else let (d, s) := diff_scan set r in (x :: d, s)
  end.
(* `sched` = the remaining set in the order the final map range produces it *)
Definition difference_with (fromb sched : list Z) : list Z := isort (fromb ++ sched).
Definition difference (a b : list Z) : list Z :=
  let (d, s) := diff_scan (dedup a) b in difference_with d s.

(* ---------------------------------------------------------------------------------------------- *)
(* canonical, comparable form of a lookup function on a given key universe (used by check_case)      *)

Definition dump {V} (keys : list Z) (m : fmap V) : list (Z * option V) := map (fun k => (k, m k)) keys.

(* ============================================================================================== *)
(* Cases written by the harness                                                                    *)
From Coq Require Import String.
Local Open Scope string_scope.

(* ---- suite c08: the same block script executed in several separate processes ------------------- *)
(* per block: app hash, per tx (code, data digest, gas wanted, gas used), validator-update digest,
   consensus-param-update digest *)
Record bobs := mkBObs { bo_hash : string; bo_txs : list (Z * string * Z * Z); bo_valupd : string; bo_cpu : string }.
Record dcase := mkDCase { dc_seed : Z; dc_nops : list nat; dc_obs : list (list bobs) }.

Definition tx_eqb (a b : Z * string * Z * Z) : bool :=
  let '(c1, d1, w1, u1) := a in let '(c2, d2, w2, u2) := b in
  (c1 =? c2)%Z && String.eqb d1 d2 && (w1 =? w2)%Z && (u1 =? u2)%Z.
Definition bobs_eqb (a b : bobs) : bool :=
  String.eqb (bo_hash a) (bo_hash b) && list_eqb tx_eqb (bo_txs a) (bo_txs b)
  && String.eqb (bo_valupd a) (bo_valupd b) && String.eqb (bo_cpu a) (bo_cpu b).

(* index of the first block at which two observation lists differ (a missing block differs) *)
Fixpoint first_diff (i : nat) (r l : list bobs) : option nat :=
  match r, l with
  | [], [] => None
  | a :: r', b :: l' => if bobs_eqb a b then first_diff (S i) r' l' else Some i
  | _, _ => Some i
  end.

(* THE PROPERTY, on what the implementation was observed to do: all processes produced byte-identical
   app hashes, tx results, validator updates and consensus-param updates, block by block *)
Definition determinism_monitor (c : dcase) : option nat :=
  match dc_obs c with
  | [] => Some O
  | r :: others =>
      fold_left (fun acc l => match acc with Some i => Some i | None => first_diff O r l end) others None
  end.

(* correspondence of shape: the "model" of a replicated run is the script itself — at least 3 processes, each
   executed every block of the script and every operation of every block *)
Fixpoint shape_ok (i : nat) (nops : list nat) (l : list bobs) : option nat :=
  match nops, l with
  | [], [] => None
  | n :: nops', b :: l' => if Nat.eqb n (List.length (bo_txs b)) then shape_ok (S i) nops' l' else Some i
  | _, _ => Some i
  end.
Definition determinism_check (c : dcase) : option nat :=
  if Nat.ltb (List.length (dc_obs c)) 3 then Some O
  else fold_left (fun acc l => match acc with Some i => Some i | None => shape_ok O (dc_nops c) l end) (dc_obs c) None.

(* ---- suite c08scan: one case per schedule-injection site found in the CURRENT source ------------ *)
(* covered = the site (file:function:operand:fingerprint) is listed in coq/C08/sites.txt with a lemma of
   Props.v or a `benign:` reason; a new / moved / changed site is not covered *)
Record scase := mkSCase { sc_site : string; sc_kind : string; sc_status : string; sc_covered : bool }.
Definition scan_check (c : scase) : option nat := if sc_covered c then None else Some O.

(* ---- suite c08sites: the site models against the real functions (exported API, one process) -------------- *)
Local Open Scope Z_scope.

Record feeder_cfg := mkFC { fc_token : Z; fc_start : Z; fc_interval : Z; fc_end : Z; fc_startround : Z }.

(* PrepareRoundEndBlock on an empty context (ranges over the TokenFeeders SLICE: no schedule) *)
Fixpoint prepare_rounds (maxnonce b fid : Z) (fs : list feeder_cfg) : list (Z * round) :=
  match fs with
  | [] => []
  | f :: r =>
      let rest := prepare_rounds maxnonce b (fid + 1) r in
      if ((fc_end f >? 0) && (fc_end f <=? b)) || (fc_start f >? b) then rest
      else let delta := b - fc_start f in
           let left := delta mod fc_interval f in
           (fid, mkRound (b - left) (fc_startround f + delta / fc_interval f)
                         (if left >=? maxnonce then RClosed else ROpen)) :: rest
  end.

Definition feeder_fn (fs : list feeder_cfg) (fid : Z) : feeder :=
  match nth_error fs (Z.to_nat (fid - 1)) with
  | Some f => mkFeeder (fc_token f) (fc_end f)
  | None => mkFeeder 0 0
  end.

Definition rounds_list (ids : list Z) (m : fmap round) : list (Z * round) :=
  flat_map (fun i => match m i with Some r => [(i, r)] | None => [] end) ids.

Definition zlist_eqb : list Z -> list Z -> bool := list_eqb Z.eqb.
Definition zopt_eqb (a b : option Z) : bool := option_eqb Z.eqb a b.
Definition dump_eqb (a b : list (Z * option Z)) : bool :=
  list_eqb (fun x y => (fst x =? fst y) && zopt_eqb (snd x) (snd y)) a b.

Inductive site_case :=
| SCDifference (a b out : list Z)
| SCGroup (tasks : list (Z * Z * bool)) (out : list (Z * list Z))
| SCMedian (l : list Z) (out : option Z)
| SCValCache (init adds : list (Z * Z)) (keys : list Z) (out : list (Z * option Z))
| SCSetVP (vp : list (Z * Z)) (keys : list Z) (out : list (Z * option Z)) (vals_sorted : list Z)
| SCNonce (rows : list (Z * list (Z * Z))) (fs : list Z) (out : list (Z * list (Z * Z)))
| SCSeal (maxnonce : Z) (fs : list feeder_cfg) (b1 h1 : Z) (force : bool) (h2 : Z)
         (failed1 sealed1 failed2 sealed2 : list Z).

Definition group_tasks (gid : Z) (tasks : list (Z * Z * bool)) : list task_res :=
  flat_map (fun t => let '(g, op, sg) := t in if g =? gid then [mkTask op sg None] else []) tasks.

Definition bool_fail (b : bool) : option nat := if b then None else Some O.

(* the model is evaluated on the CANONICAL order (the order in which the harness wrote the case); the real code
   iterated its map in whatever order the runtime chose: by the theorems the answer must be the same *)
Definition site_check (c : site_case) : option nat :=
  match c with
  | SCDifference a b out => bool_fail (zlist_eqb (difference a b) out)
  | SCGroup tasks out =>
      bool_fail (Nat.eqb (List.length out) (List.length (dedup (map (fun t => fst (fst t)) tasks)))
                 && forallb (fun go => zlist_eqb (map t_op (sort_by t_op (group_tasks (fst go) tasks))) (snd go)) out)
  | SCMedian l out => bool_fail (zopt_eqb (median l) out)
  | SCValCache init adds keys out =>
      bool_fail (dump_eqb (dump keys (fst (cache_add adds (cache_add init (fempty, false))))) out)
  | SCSetVP vp keys out vals =>
      bool_fail (dump_eqb (dump keys (fst (set_validator_powers vp))) out && zlist_eqb (isort (map fst vp)) vals)
  | SCNonce rows fs out =>
      (* RemoveNonceWithFeederIDForAll for the feeders fs in this order, on a store holding exactly `rows`
         (validator -> ORDERED NonceList); out = the rows read back, absent = [] *)
      let st := seal_consume_all (map fst rows) fs (of_list rows) in
      bool_fail (list_eqb (fun x y => (fst x =? fst y) && list_eqb (fun a b => (fst a =? fst b) && (snd a =? snd b)) (snd x) (snd y))
                          (map (fun k => (k, match st k with Some nl => nl | None => [] end)) (map fst rows)) out)
  | SCSeal maxnonce fs b1 h1 force h2 failed1 sealed1 failed2 sealed2 =>
      if negb (forallb (fun f => fc_interval f >? 0) fs) then Some O else
      let ids := map (fun i => Z.of_nat i + 1) (seq 0 (List.length fs)) in
      let r0 := prepare_rounds maxnonce b1 1 fs in
      let s1 := seal_round (feeder_fn fs) maxnonce h1 force r0 fempty in
      if negb (zlist_eqb (isort (ss_failed s1)) failed1 && zlist_eqb (isort (ss_sealed s1)) sealed1) then Some 1%nat else
      let r1 := rounds_list ids (ss_rounds s1) in
      let s2 := seal_round (feeder_fn fs) maxnonce h2 false r1 (ss_aggs s1) in
      if negb (zlist_eqb (isort (ss_failed s2)) failed2 && zlist_eqb (isort (ss_sealed s2)) sealed2) then Some 2%nat else None
  end.
