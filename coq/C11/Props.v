(* C11/Props.v — property theorems only. *)
From Coq Require Import List String Bool ZArith.
From Exo Require Import Base.Util C11.Model C11.Proofs.
Import ListNotations.
Local Open Scope Z_scope.

(* the (repaired) bitmap parser never indexes out of range: for ALL byte strings and ALL staker-list lengths *)
Theorem C11_parse_total : forall (raw : list Z) (nstakers : nat), is_panic (parse raw nstakers) = false.
Proof. exact parse_no_panic. Qed.
Print Assumptions C11_parse_total.

(* the original parser does: a bitmap accepted while the list had three stakers panics once the list has shrunk
   (EndBlock re-applies the stored bitmap through GrowRoundID), and a bitmap whose value bytes are missing panics *)
Theorem C11_parse_original_refuted :
  (parse_original shrink_bitmap 3 = Ok [(2%nat, -1)] /\ parse_original shrink_bitmap 2 = Panic) /\
  parse_original (ind 128) 1 = Panic.
Proof. split; [exact parse_original_shrink | exact parse_original_short]. Qed.
Print Assumptions C11_parse_original_refuted.

(* the repair changes nothing where the original parser did not panic *)
Theorem C11_parse_repair_conservative : forall raw n,
  is_panic (parse_original raw n) = false -> parse raw n = parse_original raw n.
Proof. exact parse_conservative. Qed.
Print Assumptions C11_parse_repair_conservative.

Theorem C11_nst_update_no_panic : forall raw stakers, fst (nst_update_gen DErr raw stakers) <> RPanic.
Proof. exact nst_update_no_panic. Qed.

(* slash: the repaired code never divides by zero; the original does exactly when the operator's value is 0, and
   "value > 0" is not preserved by undelegation (history h_slash below) *)
Theorem C11_slash_no_panic : forall u v, is_panic (slash_gen DErr u v) = false.
Proof. exact slash_no_panic. Qed.
Theorem C11_slash_original_guard : forall u v, 0 < v -> is_panic (slash_gen DPanic u v) = false.
Proof. exact slash_original_positive. Qed.
Theorem C11_slash_original_refuted : forall u, slash_gen DPanic u 0 = Panic.
Proof. exact slash_original_zero. Qed.

(* AVS statistics: the repaired hook skips a group without signed result; the original hook is safe under "every
   stored result has a non-empty signature", which the repaired phase-one check preserves and the original does not *)
Theorem C11_avs_stat_no_panic : forall g known, is_panic (avs_stat_gen DErr g known) = false.
Proof. exact avs_stat_no_panic. Qed.
Theorem C11_avs_invariant_preserved : forall present l stored r,
  results_ok stored = true -> submit_gen DErr present l stored = Ok r -> results_ok r = true.
Proof. exact submit_preserves_results_ok. Qed.
Theorem C11_avs_original_guard : forall g, g <> [] -> results_ok g = true -> is_panic (avs_stat_gen DPanic g true) = false.
Proof. exact avs_stat_original_guarded. Qed.
Theorem C11_avs_original_refuted :
  exists r, submit_gen DPanic true 0 [] = Ok r /\ results_ok r = false /\ avs_stat_gen DPanic r true = Panic.
Proof. exact submit_original_breaks_results_ok. Qed.

(* fee allocation to stakers (after the C17 repair: one entry per staker, powers accumulated): remaining.Sub never
   goes negative, for all rewards and all appearance lists with non-negative values *)
Theorem C11_alloc_no_panic : forall reward apps, 0 <= reward -> Forall (fun e => 0 <= snd e) apps ->
  is_panic (alloc reward apps) = false.
Proof. exact alloc_no_panic. Qed.
Theorem C11_alloc_original_refuted : alloc_original 1000 [(0%nat, 0); (0%nat, 10)] = Panic.
Proof. exact alloc_original_panics. Qed.
Print Assumptions C11_alloc_no_panic.

(* modulo Interval: safe under Interval > 0, which both writers of Interval preserve *)
Theorem C11_round_no_panic : forall i delta, 0 < i -> is_panic (round_gen i delta) = false.
Proof. exact round_no_panic. Qed.
Theorem C11_interval_invariant : (forall p, 0 <= p -> 0 < register_interval p) /\
                                 (forall old new, 0 < old -> 0 < update_params_interval old new).
Proof. split; [exact register_interval_pos | exact update_interval_pos]. Qed.

(* the voting-power update of the operator epoch hook multiplies a share (scaled by 10^18) by a token amount and the
   LegacyDec 315-bit guard panics: safe while share * amount < 2^315 (amounts below ~2^127 at exchange rate 1), false
   for extreme amounts - NOT repaired, recorded as known finding C11-extreme-amount-overflow *)
Theorem C11_voting_power_guard : forall sh a, 0 <= sh -> 0 <= a -> sh * a < 2 ^ 315 -> is_panic (voting_power_gen sh a) = false.
Proof. exact voting_power_guard. Qed.
Theorem C11_voting_power_overflow_refuted : voting_power_gen (2 ^ 130 * 10 ^ 18) (2 ^ 130) = Panic.
Proof. exact voting_power_overflow. Qed.

(* a pending undelegation reached by ANY number of slashes of ANY non-negative proportions keeps a completable amount in
   [0, previous], so its maturity in delegation EndBlock never builds a negative coin (native token) - and a negative
   amount WOULD halt the block end *)
Theorem C11_slashed_undelegation_nonneg : forall amount ps, 0 <= amount -> Forall (fun p => 0 <= p) ps ->
  Forall (fun a => 0 <= a) (slash_undel_all amount amount ps).
Proof. intros amount ps Ha HF. apply slash_undel_all_nonneg; assumption. Qed.
Theorem C11_undelegation_maturity_no_panic : forall native amount ps, 0 <= amount -> Forall (fun p => 0 <= p) ps ->
  complete_gen native (last_actual amount ps) = Ok (last_actual amount ps).
Proof. exact undelegation_maturity_no_panic. Qed.
Theorem C11_maturity_guard_is_needed : forall a, a < 0 -> complete_gen true a = Panic.
Proof. exact complete_negative_native. Qed.
Example C11_ex_two_slashes :
  slash_undel_all 1000000 1000000 [600000000000000000; 857000000000000000] = [400000; 0].
Proof. reflexivity. Qed.

(* stored price strings: "" (round closed without submissions), non-numeric, zero and negative prices all fall back to
   the default price; the value used is always positive *)
Theorem C11_price_value_total : forall parsed, exists v, price_value parsed = Ok v /\ 0 < v.
Proof. exact price_value_total. Qed.

(* the validator set handed to CometBFT at a dogfood epoch end is accepted as long as SOME operator stays eligible
   (opted in, not jailed, self delegation >= minimum, power >= 1); that invariant is NOT preserved by ordinary
   transactions: three histories (all opt out / all drop below the minimum self delegation / all jailed) make the
   real engine refuse the update list = halted chain. NOT repaired: known finding C11-empty-validator-set *)
Theorem C11_valset_nonempty : forall minself nprev ops,
  existsb (eligible minself) ops = true -> valset_epoch_end minself nprev ops <> None.
Proof. exact valset_nonempty. Qed.
Theorem C11_valset_nonempty_invariant_refuted :
  existsb (eligible 100) v3 = true /\
  valset_epoch_end 100 3 (fold_left vstep h_all_opt_out v3) = None /\
  valset_epoch_end 100 3 (fold_left vstep h_all_below_min v3) = None /\
  valset_epoch_end 100 3 (fold_left vstep h_all_jailed v3) = None.
Proof. exact valset_empty_witnesses. Qed.

(* operator commission: the validation of RegisterOperatorReq (stakingtypes CommissionRates.Validate, transcribed) admits
   only rates in [0,1]; every history of registrations keeps "every stored rate is in [0,1]"; under it the split
   tokens - tokens*rate of AllocateTokensToValidator never goes negative; a stored rate of 2 would panic in BeginBlock *)
Theorem C11_commission_valid_range : forall r m ch, commission_valid r m ch = true -> 0 <= r <= P.
Proof. exact commission_valid_range. Qed.
Theorem C11_commission_invariant : forall regs : list (Z * Z * Z),
  rates_ok (fold_left (fun st x => register_operator (fst (fst x)) (snd (fst x)) (snd x) st) regs []) = true.
Proof. exact registry_history_rates_ok. Qed.
Theorem C11_validator_split_no_panic : forall tokens rate, 0 <= tokens -> 0 <= rate <= P ->
  is_panic (validator_split tokens rate) = false.
Proof. exact validator_split_no_panic. Qed.
Theorem C11_commission_guard_is_needed : validator_split (1000 * P) (2 * P) = Panic.
Proof. exact commission_above_one_panics. Qed.

(* the full statement - no history halts the chain - is therefore NOT proved: the event set of [run] leaves out the
   arithmetic overflow guards of sdk.Int / LegacyDec (refuted above for the voting power), the empty validator set
   (refuted above) and everything listed as not modelled in design/C11.md *)
Definition C11_no_halt_full : Prop :=
  forall (h : list event) (s : state) (sh a : Z), inv s = true ->
    (exists s', run DErr s h = Some s') /\ is_panic (voting_power_gen sh a) = false.

(* composition: from every state whose feeder intervals are positive, NO history of transactions and block-level
   events halts the repaired model, and the invariant is kept *)
Theorem C11_no_halt_partial : forall (h : list event) (s : state), inv s = true ->
  exists s', run DErr s h = Some s' /\ inv s' = true.
Proof. exact run_no_halt. Qed.
Print Assumptions C11_no_halt_partial.

(* the same statement is false of the original code, on four short model-guided histories (replayed on the real
   code by the directed scenarios of the harness) *)
Theorem C11_no_halt_original_refuted :
  run DPanic init h_slash = None /\ run DPanic init h_avs = None /\
  run DPanic init h_nst = None /\ run DPanic init h_alloc = None /\ run DPanic init h_avs_novalue = None.
Proof. exact original_halts. Qed.
(* even with every stored signature non-empty the original hook panics when the AVS value lookup fails *)
Theorem C11_avs_original_novalue_refuted : avs_stat_gen DPanic [96] false = Panic.
Proof. reflexivity. Qed.
Print Assumptions C11_no_halt_original_refuted.

Example C11_ex_init_inv : inv init = true.
Proof. reflexivity. Qed.
Example C11_ex_parse_ok : parse (ind 192 ++ [69; 14]) 2 = Ok [(0%nat, 11); (1%nat, -2)].
Proof. reflexivity. Qed.
Example C11_ex_repaired_histories :
  run DErr init h_slash <> None /\ run DErr init h_avs <> None /\
  run DErr init h_nst <> None /\ run DErr init h_alloc <> None /\ run DErr init h_avs_novalue <> None.
Proof. exact repaired_survives. Qed.
