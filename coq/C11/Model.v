(* C11/Model.v — chain liveness: the Go panics reachable from Begin/EndBlock paths, made explicit.
   Every path is transcribed twice through one definition parametrised by what the code does at the dangerous
   point: [Panic] (the ORIGINAL code: division by a zero LegacyDec, nil dereference, slice index out of range,
   negative DecCoins.Sub, modulo zero) or [Err] (the REPAIRED code: guard, log and skip).
     parse_gen        x/oracle/keeper/native_token.go parseBalanceChange (bit-level parser of the NST balance bitmap)
     nst_update_gen   UpdateNSTByBalanceChange, reached from EndBlock through GrowRoundID -> AppendPriceTR
     slash_gen        x/operator/keeper/slash.go SlashAssets: slashUSDValue.Quo(StakingAndWaitUnbonding)
     avs_stat_gen     x/avs/keeper/impl_epoch_hook.go AfterEpochEnd, one task group
     submit_gen       x/avs/keeper/task.go SetTaskResultInfo phase one (what reaches the store)
     alloc_gen        x/feedistribution/keeper/allocation.go AllocateTokensToStakers (remaining.Sub)
     round_gen        x/oracle/keeper/aggregator/context.go PrepareRoundEndBlock (delta % Interval)
   No proofs here. *)
From Coq Require Import List String Bool ZArith Lia.
From Exo Require Import Base.Util.
Import ListNotations.
Local Open Scope Z_scope.
Local Open Scope list_scope.

Inductive outcome (A : Type) := Ok (a : A) | Err | Panic.
Arguments Ok {A} a.
Arguments Err {A}.
Arguments Panic {A}.

Definition is_panic {A} (o : outcome A) : bool := match o with Panic => true | _ => false end.
(* what the code does at a dangerous point: Panic = original, Err = repaired *)
Inductive danger := DPanic | DErr.
Definition oob {A} (d : danger) : outcome A := match d with DPanic => Panic | DErr => Err end.

(* ------------------------------------------------------------------------------------------ *)
(* 1. parseBalanceChange                                                                       *)
(* ------------------------------------------------------------------------------------------ *)
(* bytes are Z in [0,256); Go's uint8 shifts *)
Definition shl8 (b k : Z) : Z := (b * 2 ^ k) mod 256.
Definition shr8 (b k : Z) : Z := b / 2 ^ k.

(* the 5-bit field: 4 bits length, 1 bit sign. Returns (field, byteIndex', bitOffset'). *)
Definition read_len (d : danger) (changes : list Z) (bi : nat) (bo : Z) : outcome (Z * nat * Z) :=
  match nth_error changes bi with
  | None => oob d
  | Some c =>
      let lv := shr8 (shl8 c bo) 3 in
      let bits_left := 8 - bo in
      if bits_left <? 5 then
        match nth_error changes (S bi) with
        | None => oob d
        | Some c2 => Ok (Z.lor lv (shr8 c2 (3 + bits_left)), S bi, 5 - bits_left)
        end
      else
        let bo1 := bo + 5 in
        Ok (lv, (if bits_left =? 5 then S bi else bi), (if bo1 =? 8 then 0 else bo1))
  end.

(* the value bits: at most 15 bits, at least one bit per iteration *)
Fixpoint read_val (d : danger) (fuel : nat) (changes : list Z) (len extracted change : Z) (bi : nat) (bo : Z)
  : outcome (Z * nat * Z) :=
  if negb (extracted <? len) then Ok (change, bi, bo)
  else match fuel with
       | O => Err   (* unreachable: len <= 15 and fuel = 16; excluded by the theorems' fuel lemma *)
       | S f =>
           match nth_error changes bi with
           | None => oob d
           | Some c =>
               let bits_left := 8 - bo in
               let bv := shl8 c bo in
               if len - extracted <? bits_left then
                 let bl := len - extracted in
                 read_val d f changes len (extracted + bl) (Z.lor (change * 2 ^ bl) (shr8 bv (8 - bl))) bi (bo + bl)
               else
                 read_val d f changes len (extracted + bits_left)
                          (Z.lor (change * 2 ^ bits_left) (shr8 bv (8 - bits_left))) (S bi) 0
           end
       end.

(* the 256 indicator bits, most significant bit of each byte first *)
Definition bits_of_byte (b : Z) : list bool :=
  map (fun i => Z.testbit b i) [7; 6; 5; 4; 3; 2; 1; 0].
Definition bits_of (bytes : list Z) : list bool := flat_map bits_of_byte bytes.

(* one loop over the indicator bits; index = position of the bit; acc = (staker index, change) pairs *)
Fixpoint parse_bits (d : danger) (bits : list bool) (index : nat) (changes : list Z) (nstakers : nat)
         (bi : nat) (bo : Z) (acc : list (nat * Z)) : outcome (list (nat * Z)) :=
  match bits with
  | [] => Ok acc
  | false :: r => parse_bits d r (S index) changes nstakers bi bo acc
  | true :: r =>
      match read_len d changes bi bo with
      | Panic => Panic
      | Err => Err
      | Ok (field, bi1, bo1) =>
          let symbol := Z.land field 1 in
          let len := shr8 field 1 in
          if len <=? 0 then Err      (* "length of change value must be at least 1 bit" *)
          else match read_val d 16 changes len 0 0 bi1 bo1 with
               | Panic => Panic
               | Err => Err
               | Ok (v, bi2, bo2) =>
                   let change := if symbol =? 1 then - (v + 1) else v + 1 in
                   if Nat.ltb index nstakers                 (* sl.StakerAddrs[index] *)
                   then parse_bits d r (S index) changes nstakers bi2 bo2 (acc ++ [(index, change)])
                   else oob d
               end
      end
  end.

Definition parse_gen (d : danger) (raw : list Z) (nstakers : nat) : outcome (list (nat * Z)) :=
  parse_bits d (bits_of (firstn 32 raw)) 0 (skipn 32 raw) nstakers 0 0 [].

Definition parse_original := parse_gen DPanic.
Definition parse := parse_gen DErr.

(* UpdateNSTByBalanceChange: stakers in list order; (validators, balance) per staker; balance = 32*validators + change;
   the loop returns at the first staker whose new balance is out of range, stakers before it stay updated *)
Fixpoint lookup_change (i : nat) (l : list (nat * Z)) : Z :=
  match l with [] => 0 | (j, c) :: r => if Nat.eqb i j then c else lookup_change i r end.

Fixpoint apply_changes (stakers : list (Z * Z)) (i : nat) (chg : list (nat * Z)) : list Z * bool :=
  match stakers with
  | [] => ([], true)
  | (nv, bal) :: r =>
      let maxb := 32 * nv in
      let b := maxb + lookup_change i chg in
      if (maxb <? b) || (b <=? 0) then (bal :: map snd r, false)
      else let '(rest, ok) := apply_changes r (S i) chg in (b :: rest, ok)
  end.

(* result class and the balances afterwards *)
Inductive rclass := ROk | RErr | RPanic.
Definition rclass_eqb (a b : rclass) : bool :=
  match a, b with ROk, ROk | RErr, RErr | RPanic, RPanic => true | _, _ => false end.

Definition nst_update_gen (d : danger) (raw : list Z) (stakers : list (Z * Z)) : rclass * list Z :=
  if Nat.ltb (List.length raw) 32 then (RErr, map snd stakers)
  else match stakers with
       | [] => (RErr, [])
       | _ =>
           match parse_gen d raw (List.length stakers) with
           | Panic => (RPanic, map snd stakers)
           | Err => (RErr, map snd stakers)
           | Ok chg => let '(bals, ok) := apply_changes stakers 0 chg in
                       (* fix-c09-nst-balance-change-atomic: one cache for the whole loop, nothing stays on error *)
                       if ok then (ROk, bals) else (RErr, map snd stakers)
           end
       end.

(* ------------------------------------------------------------------------------------------ *)
(* 2. SlashAssets: new proportion = min(1, power*fraction / value); LegacyDec.Quo panics on a zero divisor *)
(* ------------------------------------------------------------------------------------------ *)
(* values are LegacyDec scaled by 10^18, only the divisor matters for liveness *)
Definition slash_gen (d : danger) (slash_usd value : Z) : outcome Z :=
  if value =? 0 then oob d
  else Ok (Z.min 1000000000000000000 ((slash_usd * 1000000000000000000) / value)).

(* ------------------------------------------------------------------------------------------ *)
(* 3. AVS task statistics, one group of results of one task                                    *)
(* ------------------------------------------------------------------------------------------ *)
(* a stored result: length of its BlsSignature as read back from the store (0 = field absent = nil) *)
Definition result := Z.
(* phase one of SetTaskResultInfo. The decoder turns an explicitly encoded empty field into []byte{} (not nil):
   [present] = the field was on the wire; original check: BlsSignature == nil; repaired: len = 0 *)
Definition submit_gen (d : danger) (present : bool) (siglen : Z) (stored : list result) : outcome (list result) :=
  match d with
  | DPanic => if negb present then Err else Ok (stored ++ [siglen])
  | DErr => if negb present || (siglen <=? 0) then Err else Ok (stored ++ [siglen])
  end.

(* the epoch hook for one group: taskID/taskAddr are taken from the first result with a non-nil signature; without
   one GetTaskInfo("0","") fails and the original code dereferences the nil task info. [known] = GetAVSUSDValue finds
   a value entry for the AVS of the task: on error the original code goes on with an empty LegacyDec and calls
   IsZero on it. (No transaction path to known = false was found - CreateAVSTask requires a positive value and a
   changed task address takes the results out of the statistics - so this guard is defensive; the harness reaches
   it by deleting the entry.) *)
Definition avs_stat_gen (d : danger) (group : list result) (known : bool) : outcome nat :=
  let signed := filter (fun l => 0 <? l) group in
  match signed with
  | [] => oob d
  | _ => if known then Ok (List.length signed) else oob d
  end.

Definition results_ok (stored : list result) : bool := forallb (fun l => 0 <? l) stored.

(* ------------------------------------------------------------------------------------------ *)
(* 4. AllocateTokensToStakers: remaining := reward; for each listed staker remaining = remaining.Sub(pay)       *)
(* ------------------------------------------------------------------------------------------ *)
Definition P : Z := 1000000000000000000.
(* QuoTruncate then MulDecTruncate, amounts scaled by P *)
Definition pay (reward power total : Z) : Z := (reward * ((power * P) / total)) / P.

(* the original code lists a staker once per appearance but pays each appearance with the LAST value seen;
   [apps] = appearances (staker id, value) in iteration order *)
Fixpoint last_value (s : nat) (apps : list (nat * Z)) (cur : Z) : Z :=
  match apps with [] => cur | (t, v) :: r => last_value s r (if Nat.eqb s t then v else cur) end.
Fixpoint sum_values (apps : list (nat * Z)) : Z :=
  match apps with [] => 0 | (_, v) :: r => v + sum_values r end.
(* repaired: one entry per staker with the accumulated value *)
Fixpoint accumulate (apps : list (nat * Z)) (acc : list (nat * Z)) : list (nat * Z) :=
  match apps with
  | [] => acc
  | (s, v) :: r =>
      accumulate r (if existsb (fun e => Nat.eqb (fst e) s) acc
                    then map (fun e => if Nat.eqb (fst e) s then (fst e, snd e + v) else e) acc
                    else acc ++ [(s, v)])
  end.

Fixpoint pay_all (d : danger) (reward total remaining : Z) (powers : list Z) : outcome Z :=
  match powers with
  | [] => Ok remaining
  | p :: r => let x := pay reward p total in
              if remaining - x <? 0 then oob d else pay_all d reward total (remaining - x) r
  end.

Definition alloc_original (reward : Z) (apps : list (nat * Z)) : outcome Z :=
  let total := sum_values apps in
  if total <=? 0 then Ok reward
  else pay_all DPanic reward total reward (map (fun a => last_value (fst a) apps 0) apps).
Definition alloc (reward : Z) (apps : list (nat * Z)) : outcome Z :=
  let total := sum_values apps in
  if total <=? 0 then Ok reward
  else pay_all DPanic reward total reward (map snd (accumulate apps [])).

(* ------------------------------------------------------------------------------------------ *)
(* 5. PrepareRoundEndBlock: delta % Interval (uint64; integer division by zero panics)          *)
(* ------------------------------------------------------------------------------------------ *)
Definition round_gen (interval delta : Z) : outcome (Z * Z) :=
  if interval =? 0 then Panic else Ok (delta mod interval, delta / interval).
(* the two writers of Interval: RegisterNewTokenAndSetTokenFeeder (0 or absent -> defaultInterval = 30) and
   UpdateParams (Params.Validate rejects Interval = 0) *)
Definition register_interval (parsed : Z) : Z := if parsed =? 0 then 30 else parsed.
Definition update_params_interval (old new : Z) : Z := if new <=? 0 then old else new.

(* ------------------------------------------------------------------------------------------ *)
(* 5b. UpdateVotingPower (operator epoch hook, BeginBlock) -> CalculateUSDValueForOperator -> TokensFromShares:     *)
(*     OperatorShare.MulInt(TotalAmount) panics "Int overflow" when the product needs more than 315 bits           *)
(*     (LegacyDec guard; shares are scaled by 10^18). NOT repaired: recorded as a known finding.                    *)
(* ------------------------------------------------------------------------------------------ *)
Definition bitlen (x : Z) : Z := if x =? 0 then 0 else Z.log2 (Z.abs x) + 1.
Definition voting_power_gen (opshare amount : Z) : outcome Z :=
  if 315 <? bitlen (opshare * amount) then Panic else Ok (opshare * amount).

(* ------------------------------------------------------------------------------------------ *)
(* 5c. a pending undelegation hit by several slashes, then its maturity in delegation EndBlock                    *)
(*     x/operator/keeper/slash.go SlashFromUndelegation: slash = trunc(p * Amount) is clamped against what is left  *)
(*     (ActualCompletedAmount); x/delegation/keeper/abci.go: for the native token sdk.NewCoin(denom, actual)       *)
(*     panics on a negative amount, for other assets UpdateStakerAssetState returns an error (logged, skipped)     *)
(* ------------------------------------------------------------------------------------------ *)
Definition slash_undel (amount actual p : Z) : Z :=          (* p = proportion scaled by 10^18 *)
  if actual =? 0 then 0
  else let sa := (p * amount) / P in
       if actual <=? sa then 0 else actual - sa.
(* the completable amount after each of the slashes *)
Fixpoint slash_undel_all (amount actual : Z) (ps : list Z) : list Z :=
  match ps with
  | [] => []
  | p :: r => let a := slash_undel amount actual p in a :: slash_undel_all amount a r
  end.
Definition last_actual (amount : Z) (ps : list Z) : Z := last (slash_undel_all amount amount ps) amount.
Definition complete_gen (native : bool) (actual : Z) : outcome Z :=
  if actual <? 0 then (if native then Panic else Err) else Ok actual.

(* ------------------------------------------------------------------------------------------ *)
(* 5d. stored price strings read by the voting-power update (x/oracle/keeper/prices.go GetMultipleAssetsPrices):    *)
(*     NewIntFromString gives a nil Int for "" (a round closed without submissions: GrowRoundID records an empty    *)
(*     price) and for non-numeric strings; the guard `v.IsNil() || v.LTE(0)` falls back to the default price 1      *)
(* ------------------------------------------------------------------------------------------ *)
Definition price_value (parsed : option Z) : outcome Z :=
  match parsed with
  | None => Ok 1                       (* IsNil checked BEFORE any method is called on the value *)
  | Some v => if v <=? 0 then Ok 1 else Ok v
  end.

(* ------------------------------------------------------------------------------------------ *)
(* 5e. the validator set handed to the consensus engine at a dogfood epoch end                                      *)
(*     x/dogfood/keeper/abci.go EndBlock: new set = active, unjailed operators with vote power >= 1 (top MaxValidators);*)
(*     every previous validator outside it gets a power-0 update. CometBFT ValidatorSet.UpdateWithChangeSet refuses a   *)
(*     change list that leaves NO validator ("would result in empty set"), state.updateState fails before Commit on      *)
(*     every node: the chain halts. NOT repaired (known finding C11-empty-validator-set).                               *)
(* ------------------------------------------------------------------------------------------ *)
Record voper := mkVOp { vo_opted : bool; vo_jailed : bool; vo_self : Z; vo_total : Z }.
(* vote power: 0 unless opted in, not jailed and the self delegation reaches the minimum *)
Definition vpower (minself : Z) (o : voper) : Z :=
  if vo_opted o && negb (vo_jailed o) && (minself <=? vo_self o) then vo_total o else 0.
Definition eligible (minself : Z) (o : voper) : bool := 1 <=? vpower minself o.
Inductive vtx :=
| VOptOut (i : nat)                 (* MsgOptOutOfAVS: accepted whenever the operator is active *)
| VUndelegateSelf (i : nat) (amt : Z)
| VJail (i : nat)                   (* slashing / evidence module *)
| VOptIn (i : nat)
| VDelegateSelf (i : nat) (amt : Z).
Fixpoint vupd (i : nat) (f : voper -> voper) (ops : list voper) : list voper :=
  match ops, i with
  | [], _ => []
  | o :: r, O => f o :: r
  | o :: r, S j => o :: vupd j f r
  end.
Definition vstep (ops : list voper) (t : vtx) : list voper :=
  match t with
  | VOptOut i => vupd i (fun o => mkVOp false (vo_jailed o) (vo_self o) (vo_total o)) ops
  | VOptIn i => vupd i (fun o => mkVOp true (vo_jailed o) (vo_self o) (vo_total o)) ops
  | VJail i => vupd i (fun o => mkVOp (vo_opted o) true (vo_self o) (vo_total o)) ops
  | VUndelegateSelf i a =>
      vupd i (fun o => let a' := Z.max 0 (Z.min a (vo_self o)) in mkVOp (vo_opted o) (vo_jailed o) (vo_self o - a') (vo_total o - a')) ops
  | VDelegateSelf i a =>
      vupd i (fun o => let a' := Z.max 0 a in mkVOp (vo_opted o) (vo_jailed o) (vo_self o + a') (vo_total o + a')) ops
  end.
(* epoch end: None = the consensus engine refuses the update list (halt) *)
Definition valset_epoch_end (minself : Z) (nprev : nat) (ops : list voper) : option nat :=
  let n := List.length (filter (eligible minself) ops) in
  match nprev, n with
  | S _, O => None
  | _, _ => Some n
  end.

(* ------------------------------------------------------------------------------------------ *)
(* 5f. AllocateTokensToValidator (distribution epoch hook): commission = tokens * rate, shared = tokens - commission;  *)
(*     DecCoins.Sub panics when rate > 1. The only validation of a stored commission is OperatorInfo.ValidateBasic ->    *)
(*     stakingtypes CommissionRates.Validate (RegisterOperatorReq; there is no commission update message).              *)
(*     Rates are LegacyDec scaled by P.                                                                                  *)
(* ------------------------------------------------------------------------------------------ *)
Definition commission_valid (rate maxrate maxchange : Z) : bool :=
  negb (maxrate <? 0) && negb (P <? maxrate) && negb (rate <? 0) && negb (maxrate <? rate) &&
  negb (maxchange <? 0) && negb (maxrate <? maxchange).
(* tokens and rate scaled by P; MulDec rounds (banker), which never exceeds tokens for rate <= 1 *)
Definition validator_split (tokens rate : Z) : outcome (Z * Z) :=
  let commission := (tokens * rate + P / 2) / P in
  if tokens - commission <? 0 then Panic else Ok (commission, tokens - commission).
(* the operator registry: stored commission rates *)
Definition register_operator (rate maxrate maxchange : Z) (stored : list Z) : list Z :=
  if commission_valid rate maxrate maxchange then stored ++ [rate] else stored.
Definition rates_ok (stored : list Z) : bool := forallb (fun r => (0 <=? r) && (r <=? P)) stored.

(* ------------------------------------------------------------------------------------------ *)
(* 6. block-level composition                                                                  *)
(* ------------------------------------------------------------------------------------------ *)
Record state := mkSt {
  s_value : Z;                 (* operator's staking + wait-unbonding USD value (>= 0) *)
  s_results : list result;     (* stored task results of the task whose statistics are due *)
  s_intervals : list Z;        (* Interval of every token feeder *)
  s_bitmap : list Z;           (* latest stored NST "price" (balance-change bitmap) *)
  s_stakers : list (Z * Z) }.  (* NST staker list: (validators, balance) *)

Inductive event :=
(* transaction level *)
| TxUndelegateAll                       (* value := 0 *)
| TxDelegate (v : Z)
| TxSubmitResult (present : bool) (siglen : Z)
| TxRegisterToken (interval : Z)
| TxUpdateInterval (i : nat) (interval : Z)
| TxPrice (raw : list Z)                (* consensus price for the NST token *)
| TxNSTDeposit (nv : Z)
| TxNSTWithdrawLast                     (* the last staker leaves the list *)
(* block level *)
| BlkSlash (slash_usd : Z)
| BlkAvsEpochEnd (known : bool)          (* known: the AVS of the task still has a USD value entry *)
| BlkOracleEnd (delta : Z)              (* % Interval for every feeder, failed round re-applies the stored bitmap *)
| BlkDistribute (reward : Z) (apps : list (nat * Z)).

Definition set_results (s : state) r := mkSt (s_value s) r (s_intervals s) (s_bitmap s) (s_stakers s).

Fixpoint replace_nth {A} (i : nat) (x : A) (l : list A) : list A :=
  match l, i with
  | [], _ => []
  | _ :: r, O => x :: r
  | a :: r, S j => a :: replace_nth j x r
  end.

(* a step either continues with a state or halts the chain; tx-level panics/errors are recovered by baseapp and
   leave the state unchanged *)
Definition step (d : danger) (s : state) (e : event) : option state :=
  match e with
  | TxUndelegateAll => Some (mkSt 0 (s_results s) (s_intervals s) (s_bitmap s) (s_stakers s))
  | TxDelegate v => Some (mkSt (s_value s + Z.max 0 v) (s_results s) (s_intervals s) (s_bitmap s) (s_stakers s))
  | TxSubmitResult present l =>
      match submit_gen d present l (s_results s) with
      | Ok r => Some (set_results s r)
      | _ => Some s
      end
  | TxRegisterToken i =>
      Some (mkSt (s_value s) (s_results s) (s_intervals s ++ [register_interval (Z.max 0 i)]) (s_bitmap s) (s_stakers s))
  | TxUpdateInterval k i =>
      match nth_error (s_intervals s) k with
      | None => Some s
      | Some old => Some (mkSt (s_value s) (s_results s) (replace_nth k (update_params_interval old i) (s_intervals s))
                               (s_bitmap s) (s_stakers s))
      end
  | TxPrice raw =>
      (* DeliverTx: a panic is recovered, the tx fails, nothing is stored *)
      match fst (nst_update_gen d raw (s_stakers s)) with
      | RPanic => Some s
      | _ => Some (mkSt (s_value s) (s_results s) (s_intervals s) raw
                        (combine (map fst (s_stakers s)) (snd (nst_update_gen d raw (s_stakers s)))))
      end
  | TxNSTDeposit nv => Some (mkSt (s_value s) (s_results s) (s_intervals s) (s_bitmap s) (s_stakers s ++ [(Z.max 1 nv, 32 * Z.max 1 nv)]))
  | TxNSTWithdrawLast => Some (mkSt (s_value s) (s_results s) (s_intervals s) (s_bitmap s) (removelast (s_stakers s)))
  | BlkSlash u => if is_panic (slash_gen d u (s_value s)) then None else Some s
  | BlkAvsEpochEnd known =>
      match s_results s with
      | [] => Some s
      | g => if is_panic (avs_stat_gen d g known) then None else Some (set_results s [])
      end
  | BlkOracleEnd delta =>
      if existsb (fun i => is_panic (round_gen i delta)) (s_intervals s) then None
      else match s_bitmap s with
           | [] => Some s
           | raw => match fst (nst_update_gen d raw (s_stakers s)) with
                    | RPanic => None
                    | _ => Some (mkSt (s_value s) (s_results s) (s_intervals s) raw
                                      (combine (map fst (s_stakers s)) (snd (nst_update_gen d raw (s_stakers s)))))
                    end
           end
  | BlkDistribute reward apps =>
      let apps' := map (fun a => (fst a, Z.max 0 (snd a))) apps in
      if is_panic (match d with DPanic => alloc_original (Z.max 0 reward) apps' | DErr => alloc (Z.max 0 reward) apps' end)
      then None else Some s
  end.

Fixpoint run (d : danger) (s : state) (h : list event) : option state :=
  match h with
  | [] => Some s
  | e :: r => match step d s e with None => None | Some s' => run d s' r end
  end.

Definition inv (s : state) : bool := forallb (fun i => 0 <? i) (s_intervals s).
Definition init : state := mkSt 0 [] [10; 10; 10] [] [].

(* ------------------------------------------------------------------------------------------ *)
(* 7. cases written by the harness                                                             *)
(* ------------------------------------------------------------------------------------------ *)
(* a block-level path driven on the real application: which path, the inputs the model needs, what was observed
   (panic / error / ok) and whether the chain processed the following blocks *)
Inductive path :=
| PNst (raw : list Z) (stakers : list (Z * Z)) (after : list Z)   (* UpdateNSTByBalanceChange + balances afterwards *)
| PGrow (raw : list Z) (stakers : list (Z * Z)) (after : list Z)  (* the same through GrowRoundID (what EndBlock calls) *)
| PSlash (slash_usd value : Z)
| PAvsStat (group : list result) (known : bool)
| PSubmit (present : bool) (siglen : Z) (window : bool) (snapshot : bool)
    (* window: still inside the response period; snapshot: the operator is in the task's opt-in snapshot *)
| PAlloc (reward : Z) (apps : list (nat * Z))
| PSlashUndel (native : bool) (amount : Z) (props : list Z) (actuals : list Z)
    (* one pending undelegation, the proportions of the slashes that reached it (as stored in the slash records),
       the ActualCompletedAmount observed after each slash; c_obs = delegation EndBlock at the maturity height *)
| PCommission (rate maxrate maxchange : Z) (accepted : bool)
    (* MsgRegisterOperator (ValidateBasic + message server) with these commission rates, accepted or not; when
       accepted the operator becomes a validator and a distribution epoch ends with fees: c_obs *)
| PValset (nprev eligible_now : nat)
    (* dogfood epoch end: validators before, operators eligible now; c_later_ok = the real CometBFT
       ValidatorSet.UpdateWithChangeSet accepted the update list returned by the real EndBlock *)
| PPriceString (numeric : bool) (value : Z)
    (* UpdateVotingPower of an AVS one of whose assets has this stored price string *)
| PVotingPower (opshare amount : Z)                                (* UpdateVotingPower of the dogfood AVS *)
| PDelegEnd (n failing : nat)                                      (* delegation EndBlock, one matured record made to fail *)
| PAbci (blocks : nat).                                            (* malformed-tx stream / plain blocks *)

Record case := mkCase { c_path : path; c_obs : rclass; c_later_ok : bool }.

Definition class_of {A} (o : outcome A) : rclass := match o with Ok _ => ROk | Err => RErr | Panic => RPanic end.

Definition zlist_eqb (a b : list Z) : bool := list_eqb Z.eqb a b.

(* the model of the REPAIRED code predicts the observation *)
Definition check_case (c : case) : option nat :=
  let ok :=
    match c_path c with
    | PNst raw stakers after =>
        let '(r, bals) := nst_update_gen DErr raw stakers in
        rclass_eqb r (c_obs c) && zlist_eqb bals after
    | PGrow raw stakers after =>
        (* GrowRoundID logs the error of the NST update and returns nothing *)
        let '(r, bals) := nst_update_gen DErr raw stakers in
        negb (rclass_eqb r RPanic) && rclass_eqb (c_obs c) ROk && zlist_eqb bals after
    | PSlash u v => rclass_eqb (class_of (slash_gen DErr u v)) (c_obs c)
    | PAvsStat g known =>
        (* the hook itself reports nothing: a skipped group and a processed group are both "ok" *)
        match avs_stat_gen DErr g known with Panic => false | _ => rclass_eqb (c_obs c) ROk end
    | PSubmit present l window snapshot =>
        rclass_eqb (if window && snapshot then class_of (submit_gen DErr present l []) else RErr) (c_obs c)
    | PAlloc reward apps => rclass_eqb (class_of (alloc reward apps)) (c_obs c)
    | PSlashUndel native amount ps actuals =>
        zlist_eqb (slash_undel_all amount amount ps) actuals &&
        rclass_eqb (match complete_gen native (last_actual amount ps) with Panic => RPanic | _ => ROk end) (c_obs c)
    | PCommission r m ch accepted =>
        Bool.eqb accepted (commission_valid r m ch) && rclass_eqb (c_obs c) ROk
    | PValset nprev el =>
        (* the model (no per-operator data needed: only whether anybody is eligible) predicts acceptance *)
        Bool.eqb (c_later_ok c) (match nprev, el with S _, O => false | _, _ => true end) && rclass_eqb (c_obs c) ROk
    | PPriceString numeric v =>
        rclass_eqb (class_of (price_value (if numeric then Some v else None))) (c_obs c)
    | PVotingPower sh a => rclass_eqb (class_of (voting_power_gen sh a)) (c_obs c)
    | PDelegEnd n f => Nat.ltb f n && rclass_eqb (c_obs c) ROk    (* per-record errors are logged and skipped *)
    | PAbci _ => true
    end in
  if ok then None else Some 0%nat.

(* the property on observations only: no panic in a block-level step and the later blocks were processed *)
Definition monitor_case (c : case) : option nat :=
  match c_obs c with
  | RPanic => Some 0%nat
  | _ => if negb (c_later_ok c) then Some 1%nat
         else match c_path c with
              | PSlashUndel _ _ _ actuals =>
                  (* the guard of the maturity step: the completable amount of a pending record is never negative *)
                  if forallb (fun a => 0 <=? a) actuals then None else Some 2%nat
              | _ => None
              end
  end.
