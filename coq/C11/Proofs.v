(* C11/Proofs.v — lemmas: the repaired block-level paths never reach Panic; the original ones do. *)
From Coq Require Import List String Bool ZArith Lia.
From Exo Require Import Base.Util C11.Model.
Import ListNotations.
Local Open Scope Z_scope.
Local Open Scope list_scope.

(* ---- parser ---- *)
Lemma read_len_no_panic changes bi bo : is_panic (read_len DErr changes bi bo) = false.
Proof.
  unfold read_len. destruct (nth_error changes bi); [|reflexivity].
  destruct (8 - bo <? 5); [|reflexivity]. destruct (nth_error changes (S bi)); reflexivity.
Qed.

Lemma read_val_no_panic fuel : forall changes len ex ch bi bo,
  is_panic (read_val DErr fuel changes len ex ch bi bo) = false.
Proof.
  induction fuel as [|f IH]; intros; cbn [read_val].
  - destruct (negb (ex <? len)); reflexivity.
  - destruct (negb (ex <? len)); [reflexivity|].
    destruct (nth_error changes bi); [|reflexivity].
    destruct (len - ex <? 8 - bo); apply IH.
Qed.

Lemma parse_bits_no_panic bits : forall index changes n bi bo acc,
  is_panic (parse_bits DErr bits index changes n bi bo acc) = false.
Proof.
  induction bits as [|b r IH]; intros; cbn [parse_bits]; [reflexivity|].
  destruct b; [|apply IH].
  pose proof (read_len_no_panic changes bi bo) as HL.
  destruct (read_len DErr changes bi bo) as [[[field bi1] bo1]| |]; [|reflexivity|discriminate].
  destruct (shr8 field 1 <=? 0); [reflexivity|].
  pose proof (read_val_no_panic 16 changes (shr8 field 1) 0 0 bi1 bo1) as HV.
  destruct (read_val DErr 16 changes (shr8 field 1) 0 0 bi1 bo1) as [[[v bi2] bo2]| |]; [|reflexivity|discriminate].
  destruct (Nat.ltb index n); [apply IH|reflexivity].
Qed.

Lemma parse_no_panic raw n : is_panic (parse raw n) = false.
Proof. unfold parse, parse_gen. apply parse_bits_no_panic. Qed.

(* the repair is conservative: wherever the original parser does not panic, the repaired one returns the same *)
Lemma read_len_conservative changes bi bo :
  is_panic (read_len DPanic changes bi bo) = false -> read_len DErr changes bi bo = read_len DPanic changes bi bo.
Proof.
  unfold read_len. destruct (nth_error changes bi); [|discriminate].
  destruct (8 - bo <? 5); [|reflexivity]. destruct (nth_error changes (S bi)); [reflexivity|discriminate].
Qed.

Lemma read_val_conservative fuel : forall changes len ex ch bi bo,
  is_panic (read_val DPanic fuel changes len ex ch bi bo) = false ->
  read_val DErr fuel changes len ex ch bi bo = read_val DPanic fuel changes len ex ch bi bo.
Proof.
  induction fuel as [|f IH]; intros changes len ex ch bi bo H; cbn [read_val] in *.
  - reflexivity.
  - destruct (negb (ex <? len)); [reflexivity|].
    destruct (nth_error changes bi); [|discriminate].
    destruct (len - ex <? 8 - bo); apply IH; exact H.
Qed.

Lemma parse_bits_conservative bits : forall index changes n bi bo acc,
  is_panic (parse_bits DPanic bits index changes n bi bo acc) = false ->
  parse_bits DErr bits index changes n bi bo acc = parse_bits DPanic bits index changes n bi bo acc.
Proof.
  induction bits as [|b r IH]; intros index changes n bi bo acc H; cbn [parse_bits] in *; [reflexivity|].
  destruct b; [|apply IH; exact H].
  destruct (read_len DPanic changes bi bo) as [[[field bi1] bo1]| |] eqn:EL.
  - rewrite (read_len_conservative changes bi bo) by (rewrite EL; reflexivity). rewrite EL.
    destruct (shr8 field 1 <=? 0); [reflexivity|].
    destruct (read_val DPanic 16 changes (shr8 field 1) 0 0 bi1 bo1) as [[[v bi2] bo2]| |] eqn:EV.
    + rewrite (read_val_conservative 16) by (rewrite EV; reflexivity). rewrite EV.
      destruct (Nat.ltb index n); [apply IH; exact H|discriminate].
    + rewrite (read_val_conservative 16) by (rewrite EV; reflexivity). rewrite EV. reflexivity.
    + discriminate.
  - rewrite (read_len_conservative changes bi bo) by (rewrite EL; reflexivity). rewrite EL. reflexivity.
  - discriminate.
Qed.

Lemma parse_conservative raw n : is_panic (parse_original raw n) = false -> parse raw n = parse_original raw n.
Proof. unfold parse, parse_original, parse_gen. apply parse_bits_conservative. Qed.

Lemma nst_update_no_panic raw stakers : fst (nst_update_gen DErr raw stakers) <> RPanic.
Proof.
  unfold nst_update_gen. destruct (Nat.ltb (List.length raw) 32); [discriminate|].
  destruct stakers as [|x r]; [discriminate|].
  pose proof (parse_no_panic raw (List.length (x :: r))) as H. unfold parse in H.
  destruct (parse_gen DErr raw (List.length (x :: r))); [|discriminate|discriminate].
  destruct (apply_changes (x :: r) 0 a) as [bals ok]. destruct ok; discriminate.
Qed.

(* witnesses against the original parser *)
Definition ind (b : Z) : list Z := b :: repeat 0 31.
(* bit 2 set, one value byte: fine with three stakers, index out of range once the list has shrunk to two *)
Definition shrink_bitmap : list Z := ind 32 ++ [24].
Lemma parse_original_shrink :
  parse_original shrink_bitmap 3 = Ok [(2%nat, -1)] /\ parse_original shrink_bitmap 2 = Panic.
Proof. split; reflexivity. Qed.
Lemma parse_original_short : parse_original (ind 128) 1 = Panic.
Proof. reflexivity. Qed.

(* ---- slash ---- *)
Lemma slash_no_panic u v : is_panic (slash_gen DErr u v) = false.
Proof. unfold slash_gen. destruct (v =? 0); reflexivity. Qed.
Lemma slash_original_zero u : slash_gen DPanic u 0 = Panic.
Proof. reflexivity. Qed.
Lemma slash_original_positive u v : 0 < v -> is_panic (slash_gen DPanic u v) = false.
Proof. intro H. unfold slash_gen. destruct (v =? 0) eqn:E; [apply Z.eqb_eq in E; lia|reflexivity]. Qed.

(* ---- AVS statistics ---- *)
Lemma avs_stat_no_panic g known : is_panic (avs_stat_gen DErr g known) = false.
Proof. unfold avs_stat_gen. destruct (filter (fun l => 0 <? l) g); [reflexivity|]. destruct known; reflexivity. Qed.

Lemma avs_stat_original_guarded g : g <> [] -> results_ok g = true -> is_panic (avs_stat_gen DPanic g true) = false.
Proof.
  intros Hne Hok. unfold avs_stat_gen. destruct g as [|x r]; [contradiction|].
  simpl in *. apply andb_prop in Hok. destruct Hok as [Hx _]. rewrite Hx. reflexivity.
Qed.

Lemma results_ok_app a b : results_ok (a ++ b) = results_ok a && results_ok b.
Proof. unfold results_ok. apply forallb_app. Qed.

Lemma submit_preserves_results_ok present l stored r :
  results_ok stored = true -> submit_gen DErr present l stored = Ok r -> results_ok r = true.
Proof.
  intros H E. unfold submit_gen in E. destruct (negb present || (l <=? 0)) eqn:C; [discriminate|].
  inversion E; subst. rewrite results_ok_app, H. simpl.
  apply orb_false_elim in C. destruct C as [_ C]. apply Z.leb_gt in C.
  destruct (0 <? l) eqn:L; [reflexivity|]. apply Z.ltb_ge in L. lia.
Qed.

Lemma submit_original_breaks_results_ok :
  exists r, submit_gen DPanic true 0 [] = Ok r /\ results_ok r = false /\ avs_stat_gen DPanic r true = Panic.
Proof. exists [0]. repeat split; reflexivity. Qed.

(* ---- fee allocation ---- *)
Lemma P_pos : 0 < P. Proof. unfold P. lia. Qed.

Lemma pay_bound reward p total : 0 <= reward -> 0 <= p -> 0 < total ->
  0 <= pay reward p total /\ pay reward p total * total <= reward * p.
Proof.
  intros Hr Hp Ht. pose proof P_pos as HP. unfold pay.
  set (f := (p * P) / total).
  assert (Hf0 : 0 <= f) by (apply Z.div_pos; nia).
  assert (Hf : f * total <= p * P) by (unfold f; rewrite Z.mul_comm; apply Z.mul_div_le; lia).
  set (x := (reward * f) / P).
  assert (Hx0 : 0 <= x) by (apply Z.div_pos; nia).
  assert (Hx : x * P <= reward * f) by (unfold x; rewrite Z.mul_comm; apply Z.mul_div_le; lia).
  split; [exact Hx0|].
  assert (H1 : x * P * total <= reward * f * total) by nia.
  assert (H2 : reward * f * total <= reward * (p * P)) by nia.
  assert (H3 : (x * total) * P <= (reward * p) * P) by nia.
  apply Z.mul_le_mono_pos_r with (p := P); assumption.
Qed.

Lemma pay_all_no_panic reward total : 0 <= reward -> 0 < total ->
  forall powers remaining, Forall (fun p => 0 <= p) powers ->
  reward * zsum powers <= remaining * total ->
  is_panic (pay_all DPanic reward total remaining powers) = false.
Proof.
  intros Hr Ht. induction powers as [|p r IH]; intros remaining HF HS; simpl; [reflexivity|].
  inversion HF as [|? ? Hp HF']; subst. simpl in HS.
  destruct (pay_bound reward p total Hr Hp Ht) as [Hx0 Hx].
  assert (Hz : 0 <= zsum r) by (clear - HF'; induction HF'; simpl; lia).
  assert (Hrem : reward * zsum r <= (remaining - pay reward p total) * total) by nia.
  destruct (remaining - pay reward p total <? 0) eqn:E.
  - apply Z.ltb_lt in E. exfalso. nia.
  - apply IH; assumption.
Qed.

(* accumulate keeps the sum and the sign of the values *)
Lemma zsum_map_update s v acc :
  existsb (fun e : nat * Z => Nat.eqb (fst e) s) acc = true ->
  NoDup (map fst acc) ->
  zsum (map snd (map (fun e : nat * Z => if Nat.eqb (fst e) s then (fst e, snd e + v) else e) acc)) = zsum (map snd acc) + v.
Proof.
  induction acc as [|[t w] r IH]; intros H ND; simpl in *; [discriminate|].
  inversion ND as [|? ? Hnin ND']; subst.
  destruct (Nat.eqb t s) eqn:E; simpl.
  - apply Nat.eqb_eq in E. subst.
    assert (Hr : map (fun e : nat * Z => if Nat.eqb (fst e) s then (fst e, snd e + v) else e) r = r).
    { clear - Hnin. induction r as [|[t' w'] r' IHr]; simpl in *; [reflexivity|].
      destruct (Nat.eqb t' s) eqn:E'; [apply Nat.eqb_eq in E'; subst; exfalso; apply Hnin; left; reflexivity|].
      f_equal. apply IHr. intro X. apply Hnin. right. exact X. }
    rewrite Hr. lia.
  - rewrite IH; [lia|exact H|exact ND'].
Qed.

Lemma map_fst_update s v (acc : list (nat * Z)) :
  map fst (map (fun e : nat * Z => if Nat.eqb (fst e) s then (fst e, snd e + v) else e) acc) = map fst acc.
Proof. induction acc as [|[t w] r IH]; simpl; [reflexivity|]. rewrite IH. destruct (Nat.eqb t s); reflexivity. Qed.

Lemma existsb_false_notin s (acc : list (nat * Z)) :
  existsb (fun e : nat * Z => Nat.eqb (fst e) s) acc = false -> ~ In s (map fst acc).
Proof.
  induction acc as [|[t w] r IH]; simpl; intros H X; [exact X|].
  apply orb_false_elim in H. destruct H as [H1 H2]. destruct X as [X|X].
  - subst. rewrite Nat.eqb_refl in H1. discriminate.
  - exact (IH H2 X).
Qed.

Lemma NoDup_snoc {A} (l : list A) x : NoDup l -> ~ In x l -> NoDup (l ++ [x]).
Proof.
  induction l as [|a r IH]; simpl; intros ND H.
  - constructor; [intros []|constructor].
  - inversion ND as [|? ? Hn ND']; subst. constructor.
    + intro X. apply in_app_or in X. destruct X as [X|[X|[]]]; [exact (Hn X)|]. subst. apply H. left. reflexivity.
    + apply IH; [exact ND'|]. intro X. apply H. right. exact X.
Qed.

Lemma accumulate_spec apps : forall acc,
  NoDup (map fst acc) -> Forall (fun e => 0 <= snd e) acc -> Forall (fun e => 0 <= snd e) apps ->
  zsum (map snd (accumulate apps acc)) = zsum (map snd acc) + sum_values apps /\
  Forall (fun p => 0 <= p) (map snd (accumulate apps acc)).
Proof.
  induction apps as [|[s v] r IH]; intros acc ND FA FP; simpl.
  - split; [lia|]. clear - FA. induction FA; simpl; constructor; auto.
  - inversion FP as [|? ? Hv FP']; subst. simpl in Hv.
    destruct (existsb (fun e : nat * Z => Nat.eqb (fst e) s) acc) eqn:E.
    + destruct (IH (map (fun e : nat * Z => if Nat.eqb (fst e) s then (fst e, snd e + v) else e) acc)) as [H1 H2].
      * rewrite map_fst_update. exact ND.
      * clear - FA Hv. induction FA as [|[t w] l Hw FA' IHF]; simpl; constructor; auto.
        destruct (Nat.eqb t s); simpl in *; lia.
      * exact FP'.
      * split; [|exact H2]. rewrite H1, (zsum_map_update s v acc E ND). lia.
    + destruct (IH (acc ++ [(s, v)])) as [H1 H2].
      * rewrite map_app. simpl. apply NoDup_snoc; [exact ND|]. apply existsb_false_notin. exact E.
      * apply Forall_app. split; [exact FA|]. constructor; [exact Hv|constructor].
      * exact FP'.
      * split; [|exact H2]. rewrite H1, map_app, zsum_app. simpl. lia.
Qed.

Lemma alloc_no_panic reward apps : 0 <= reward -> Forall (fun e => 0 <= snd e) apps ->
  is_panic (alloc reward apps) = false.
Proof.
  intros Hr HF. unfold alloc. destruct (sum_values apps <=? 0) eqn:E; [reflexivity|].
  apply Z.leb_gt in E.
  destruct (accumulate_spec apps [] (NoDup_nil _) (Forall_nil _) HF) as [H1 H2]. simpl in H1.
  apply pay_all_no_panic; try assumption. rewrite H1. lia.
Qed.

(* original: a staker reached through two AVSs with values 0 and 10 is paid twice with the last value *)
Lemma alloc_original_panics : alloc_original 1000 [(0%nat, 0); (0%nat, 10)] = Panic.
Proof. reflexivity. Qed.
Lemma alloc_repaired_same_input : alloc 1000 [(0%nat, 0); (0%nat, 10)] = Ok 0.
Proof. reflexivity. Qed.

(* ---- round interval ---- *)
Lemma round_no_panic i delta : 0 < i -> is_panic (round_gen i delta) = false.
Proof. intro H. unfold round_gen. destruct (i =? 0) eqn:E; [apply Z.eqb_eq in E; lia|reflexivity]. Qed.
Lemma register_interval_pos p : 0 <= p -> 0 < register_interval p.
Proof. intro H. unfold register_interval. destruct (p =? 0) eqn:E; [lia|apply Z.eqb_neq in E; lia]. Qed.
Lemma update_interval_pos old new : 0 < old -> 0 < update_params_interval old new.
Proof. intro H. unfold update_params_interval. destruct (new <=? 0) eqn:E; [exact H|apply Z.leb_gt in E; exact E]. Qed.

(* ---- composition ---- *)
Lemma forallb_replace_nth (f : Z -> bool) k x l : forallb f l = true -> f x = true -> forallb f (replace_nth k x l) = true.
Proof.
  revert k. induction l as [|a r IH]; intros k H Hx; [destruct k; reflexivity|].
  simpl in H. apply andb_prop in H. destruct H as [Ha Hr].
  destruct k; simpl; [rewrite Hx, Hr; reflexivity|]. rewrite Ha, IH; auto.
Qed.

Lemma forallb_nth (f : Z -> bool) l k x : forallb f l = true -> nth_error l k = Some x -> f x = true.
Proof.
  revert k. induction l as [|a r IH]; intros k H E; [destruct k; discriminate|].
  simpl in H. apply andb_prop in H. destruct H as [Ha Hr].
  destruct k; simpl in E; [inversion E; subst; exact Ha|]. exact (IH k Hr E).
Qed.

Lemma existsb_interval_false l delta : forallb (fun i => 0 <? i) l = true ->
  existsb (fun i => is_panic (round_gen i delta)) l = false.
Proof.
  induction l as [|a r IH]; simpl; intro H; [reflexivity|].
  apply andb_prop in H. destruct H as [Ha Hr]. apply Z.ltb_lt in Ha.
  rewrite (round_no_panic a delta Ha). simpl. apply IH. exact Hr.
Qed.

Lemma step_no_halt s e : inv s = true -> exists s', step DErr s e = Some s' /\ inv s' = true.
Proof.
  intro I. unfold inv in *. destruct e; cbn [step].
  - eexists; split; [reflexivity|exact I].
  - eexists; split; [reflexivity|exact I].
  - destruct (submit_gen DErr present siglen (s_results s)); eexists; split; try reflexivity; exact I.
  - eexists; split; [reflexivity|]. simpl. rewrite forallb_app, I. simpl.
    assert (H : 0 < register_interval (Z.max 0 interval)) by (apply register_interval_pos; lia).
    apply Z.ltb_lt in H. rewrite H. reflexivity.
  - destruct (nth_error (s_intervals s) i) eqn:E; [|eexists; split; [reflexivity|exact I]].
    eexists; split; [reflexivity|]. simpl. apply forallb_replace_nth; [exact I|].
    apply Z.ltb_lt. apply update_interval_pos. apply Z.ltb_lt. exact (forallb_nth _ _ _ _ I E).
  - destruct (fst (nst_update_gen DErr raw (s_stakers s))); eexists; split; try reflexivity; exact I.
  - eexists; split; [reflexivity|exact I].
  - eexists; split; [reflexivity|exact I].
  - rewrite slash_no_panic. eexists; split; [reflexivity|exact I].
  - destruct (s_results s) as [|x r]; [eexists; split; [reflexivity|exact I]|].
    rewrite avs_stat_no_panic. eexists; split; [reflexivity|exact I].
  - rewrite (existsb_interval_false _ delta I).
    destruct (s_bitmap s) as [|b r]; [eexists; split; [reflexivity|exact I]|].
    pose proof (nst_update_no_panic (b :: r) (s_stakers s)) as N.
    destruct (fst (nst_update_gen DErr (b :: r) (s_stakers s))); try (eexists; split; [reflexivity|exact I]).
    exfalso. apply N. reflexivity.
  - rewrite alloc_no_panic; [eexists; split; [reflexivity|exact I]|lia|].
    clear. induction apps as [|[a v] r IH]; simpl; constructor; [simpl; lia|exact IH].
Qed.

Lemma run_no_halt h : forall s, inv s = true -> exists s', run DErr s h = Some s' /\ inv s' = true.
Proof.
  induction h as [|e r IH]; intros s I; simpl; [exists s; split; [reflexivity|exact I]|].
  destruct (step_no_halt s e I) as [s' [E I']]. rewrite E. apply IH. exact I'.
Qed.

(* original code: each path halts the chain on a short model-guided history *)
Definition h_slash : list event := [TxDelegate 100; TxUndelegateAll; BlkSlash 5].
Definition h_avs : list event := [TxSubmitResult true 0; BlkAvsEpochEnd true].
Definition h_avs_novalue : list event := [TxSubmitResult true 96; BlkAvsEpochEnd false].
Definition h_nst : list event :=
  [TxNSTDeposit 1; TxNSTDeposit 1; TxNSTDeposit 1; TxPrice shrink_bitmap; TxNSTWithdrawLast; BlkOracleEnd 7].
Definition h_alloc : list event := [BlkDistribute 1000 [(0%nat, 0); (0%nat, 10)]].

Lemma original_halts :
  run DPanic init h_slash = None /\ run DPanic init h_avs = None /\
  run DPanic init h_nst = None /\ run DPanic init h_alloc = None /\ run DPanic init h_avs_novalue = None.
Proof. repeat split; vm_compute; reflexivity. Qed.

Lemma repaired_survives :
  run DErr init h_slash <> None /\ run DErr init h_avs <> None /\
  run DErr init h_nst <> None /\ run DErr init h_alloc <> None /\ run DErr init h_avs_novalue <> None.
Proof. repeat split; vm_compute; discriminate. Qed.

(* ---- voting power overflow (not repaired) ---- *)
Lemma voting_power_guard sh a : 0 <= sh -> 0 <= a -> sh * a < 2 ^ 315 -> is_panic (voting_power_gen sh a) = false.
Proof.
  intros Hs Ha H. unfold voting_power_gen, bitlen.
  destruct (sh * a =? 0) eqn:E; [reflexivity|]. apply Z.eqb_neq in E.
  assert (Hp : 0 < sh * a) by nia.
  rewrite Z.abs_eq by lia.
  assert (Z.log2 (sh * a) < 315) by (apply Z.log2_lt_pow2; lia).
  destruct (315 <? Z.log2 (sh * a) + 1) eqn:L; [apply Z.ltb_lt in L; lia|reflexivity].
Qed.

Lemma voting_power_overflow : voting_power_gen (2 ^ 130 * 10 ^ 18) (2 ^ 130) = Panic.
Proof. vm_compute. reflexivity. Qed.

(* ---- slashes on a pending undelegation, then maturity ---- *)
Lemma slash_undel_range amount actual p : 0 <= amount -> 0 <= p -> 0 <= actual ->
  0 <= slash_undel amount actual p <= actual.
Proof.
  intros Ha Hp H. pose proof P_pos as HP. unfold slash_undel. destruct (actual =? 0); [lia|].
  assert (0 <= (p * amount) / P) by (apply Z.div_pos; nia).
  destruct (actual <=? (p * amount) / P) eqn:E; [lia|]. apply Z.leb_gt in E. lia.
Qed.

Lemma slash_undel_all_nonneg amount ps : 0 <= amount -> Forall (fun p => 0 <= p) ps ->
  forall actual, 0 <= actual -> Forall (fun a => 0 <= a) (slash_undel_all amount actual ps).
Proof.
  intros Ha HF. induction HF as [|p r Hp HF IH]; intros actual H; simpl; [constructor|].
  destruct (slash_undel_range amount actual p Ha Hp H) as [H1 _]. constructor; [exact H1|apply IH; exact H1].
Qed.

Lemma last_actual_nonneg amount ps : 0 <= amount -> Forall (fun p => 0 <= p) ps -> 0 <= last_actual amount ps.
Proof.
  intros Ha HF. unfold last_actual.
  pose proof (slash_undel_all_nonneg amount ps Ha HF amount Ha) as H.
  induction (slash_undel_all amount amount ps) as [|x l IH]; simpl; [exact Ha|].
  inversion H as [|? ? Hx Hl]; subst. destruct l; [exact Hx|]. apply IH. exact Hl.
Qed.

Lemma undelegation_maturity_no_panic native amount ps : 0 <= amount -> Forall (fun p => 0 <= p) ps ->
  complete_gen native (last_actual amount ps) = Ok (last_actual amount ps).
Proof.
  intros Ha HF. unfold complete_gen. pose proof (last_actual_nonneg amount ps Ha HF) as H.
  destruct (last_actual amount ps <? 0) eqn:E; [apply Z.ltb_lt in E; lia|reflexivity].
Qed.

(* the guard is exactly non-negativity: a negative completable amount of a native record halts the block end *)
Lemma complete_negative_native a : a < 0 -> complete_gen true a = Panic.
Proof. intro H. unfold complete_gen. destruct (a <? 0) eqn:E; [reflexivity|apply Z.ltb_ge in E; lia]. Qed.

(* ---- stored price strings ---- *)
Lemma price_value_total parsed : exists v, price_value parsed = Ok v /\ 0 < v.
Proof.
  destruct parsed as [v|]; simpl; [|exists 1; split; [reflexivity|lia]].
  destruct (v <=? 0) eqn:E; [exists 1; split; [reflexivity|lia]|].
  apply Z.leb_gt in E. exists v. split; [reflexivity|lia].
Qed.

(* ---- validator set at a dogfood epoch end ---- *)
Lemma valset_nonempty minself nprev ops :
  existsb (eligible minself) ops = true -> valset_epoch_end minself nprev ops <> None.
Proof.
  intro H. unfold valset_epoch_end.
  assert (L : List.length (filter (eligible minself) ops) <> 0%nat).
  { induction ops as [|o r IH]; simpl in *; [discriminate|].
    destruct (eligible minself o); simpl; [discriminate|]. apply IH. exact H. }
  destruct nprev; [discriminate|].
  destruct (List.length (filter (eligible minself) ops)); [contradiction|discriminate].
Qed.

(* three ordinary histories empty the eligible set within one epoch: the update list is refused *)
Definition v3 : list voper := [mkVOp true false 101 101; mkVOp true false 100 100; mkVOp true false 100 100].
Definition h_all_opt_out : list vtx := [VOptOut 0; VOptOut 1; VOptOut 2].
Definition h_all_below_min : list vtx := [VUndelegateSelf 0 2; VUndelegateSelf 1 1; VUndelegateSelf 2 1].
Definition h_all_jailed : list vtx := [VJail 0; VJail 1; VJail 2].
Lemma valset_empty_witnesses :
  existsb (eligible 100) v3 = true /\
  valset_epoch_end 100 3 (fold_left vstep h_all_opt_out v3) = None /\
  valset_epoch_end 100 3 (fold_left vstep h_all_below_min v3) = None /\
  valset_epoch_end 100 3 (fold_left vstep h_all_jailed v3) = None.
Proof. repeat split; reflexivity. Qed.

(* ---- operator commission ---- *)
Lemma commission_valid_range r m ch : commission_valid r m ch = true -> 0 <= r <= P.
Proof.
  unfold commission_valid. intro H.
  repeat (apply andb_prop in H; destruct H as [H ?]).
  repeat match goal with H : negb (_ <? _) = true |- _ => apply negb_true_iff in H; apply Z.ltb_ge in H end. lia.
Qed.

Lemma validator_split_no_panic tokens rate : 0 <= tokens -> 0 <= rate <= P -> is_panic (validator_split tokens rate) = false.
Proof.
  intros Ht Hr. pose proof P_pos as HP. unfold validator_split.
  assert (H : (tokens * rate + P / 2) / P <= tokens).
  { assert (Hh : 0 <= P / 2 < P) by (split; [apply Z.div_pos; lia | apply Z.div_lt; lia]).
    assert (H1 : (tokens * rate + P / 2) / P <= (tokens * P + P / 2) / P) by (apply Z.div_le_mono; nia).
    rewrite Z.div_add_l in H1 by lia. rewrite (Z.div_small (P / 2) P Hh) in H1. lia. }
  destruct (tokens - (tokens * rate + P / 2) / P <? 0) eqn:E; [apply Z.ltb_lt in E; lia|reflexivity].
Qed.

Lemma register_preserves_rates_ok r m ch stored :
  rates_ok stored = true -> rates_ok (register_operator r m ch stored) = true.
Proof.
  intro H. unfold register_operator. destruct (commission_valid r m ch) eqn:V; [|exact H].
  unfold rates_ok in *. rewrite forallb_app, H. simpl.
  destruct (commission_valid_range r m ch V) as [H1 H2].
  apply Z.leb_le in H1. apply Z.leb_le in H2. rewrite H1, H2. reflexivity.
Qed.

Lemma registry_history_rates_ok (regs : list (Z * Z * Z)) :
  rates_ok (fold_left (fun st x => register_operator (fst (fst x)) (snd (fst x)) (snd x) st) regs []) = true.
Proof.
  assert (G : forall st, rates_ok st = true ->
    rates_ok (fold_left (fun st x => register_operator (fst (fst x)) (snd (fst x)) (snd x) st) regs st) = true).
  { induction regs as [|x r IH]; intros st H; simpl; [exact H|]. apply IH. apply register_preserves_rates_ok. exact H. }
  apply G. reflexivity.
Qed.

Lemma commission_above_one_panics : validator_split (1000 * P) (2 * P) = Panic.
Proof. vm_compute. reflexivity. Qed.
