(* C06/Props.v — validator-set updates handed to consensus are exactly the eligible top set.
   Statements only; every proof is a lemma of C06/Proofs.v (or a vm_compute witness for the refutations). *)
From Coq Require Import List String Bool ZArith Lia Permutation Sorted.
From Exo Require Import Base.Util Base.IntDec C06.Model C06.Sorting C06.Proofs C06.Link.
Import ListNotations.
Local Open Scope Z_scope.
Local Open Scope string_scope.

(* hypotheses (boolean):
     wf_prev prev  : the previous validator set has one entry per key (it is a KV store keyed by consensus address)
     wf_cands cs   : candidates have distinct operator addresses (store keyed by address) and distinct consensus keys
                     (the registry of C07 is injective)
   end_block_diff prev cs maxv is the list EndBlock returns to consensus for ANY previous set, candidate list (in any
   enumeration order, any powers: ties, zero, negative, more candidates than maxv) and maximum. *)

(* T1: consensus accepts the list (no duplicate, no negative power, no unknown removal) and previous set + updates is
   exactly the top maxv eligible operators by (power desc, operator address asc), as finite maps key -> power *)
Theorem C06_result : forall prev cs maxv,
  wf_prev prev = true -> wf_cands cs = true ->
  exists S, cmt_apply prev (end_block_diff prev cs maxv) [] = Some S /\
            forall k, kv_get S k = kv_get (target maxv cs) k.
Proof.
  intros prev cs maxv Hp Hc. destruct (diff_result prev cs maxv Hp Hc) as [H1 [H2 _]].
  eexists. split; [exact H1 | exact H2].
Qed.
Print Assumptions C06_result.

(* T2: no key twice *)
Theorem C06_nodup_keys : forall prev cs maxv,
  wf_prev prev = true -> wf_cands cs = true -> NoDup (map fst (end_block_diff prev cs maxv)).
Proof. exact diff_nodup. Qed.
Print Assumptions C06_nodup_keys.

(* T3: an entry either carries a power of at least 1 or removes a key of the previous set *)
Theorem C06_no_zero_add : forall prev cs maxv k p,
  wf_prev prev = true -> wf_cands cs = true -> In (k, p) (end_block_diff prev cs maxv) ->
  1 <= p \/ (p = 0 /\ kv_get prev k <> None).
Proof.
  intros prev cs maxv k p Hp Hc Hin. apply diff_in in Hin; try assumption.
  eapply res_spec_entries; [|exact Hin]. intros c Hc'. apply top_k_in in Hc'. tauto.
Qed.
Print Assumptions C06_no_zero_add.

Theorem C06_no_unknown_removal : forall prev cs maxv k,
  wf_prev prev = true -> wf_cands cs = true -> In (k, 0) (end_block_diff prev cs maxv) -> kv_get prev k <> None.
Proof.
  intros prev cs maxv k Hp Hc Hin. destruct (C06_no_zero_add prev cs maxv k 0 Hp Hc Hin) as [H|[_ H]]; [lia | exact H].
Qed.
Print Assumptions C06_no_unknown_removal.

(* T4: the list contains exactly the differences between the previous set and the target, nothing else *)
Theorem C06_updates_exact : forall prev cs maxv k p,
  wf_prev prev = true -> wf_cands cs = true ->
  (In (k, p) (end_block_diff prev cs maxv) <->
   ((kv_get (target maxv cs) k = Some p /\ kv_get prev k <> Some p) \/
    (p = 0 /\ kv_get prev k <> None /\ kv_get (target maxv cs) k = None))).
Proof. exact diff_exact. Qed.
Print Assumptions C06_updates_exact.

(* T5: canonical order — the list depends only on the SET of previous validators and the SET of candidates (any
   enumeration order of either gives the identical list, hence identical on every node), and it is strictly sorted by
   (power descending, key text descending) *)
Theorem C06_order_canonical : forall prev prev' cs cs' maxv,
  wf_prev prev = true -> wf_cands cs = true -> Permutation prev prev' -> Permutation cs cs' ->
  end_block_diff prev cs maxv = end_block_diff prev' cs' maxv /\
  strictly_sorted (end_block_diff prev cs maxv) = true.
Proof.
  intros prev prev' cs cs' maxv Hp Hc HPp HPc. split.
  - apply diff_perm_invariant; assumption.
  - apply diff_strictly_sorted; assumption.
Qed.
Print Assumptions C06_order_canonical.

(* T6: one epoch-end block on the dogfood state: what is returned is end_block_diff; the stored updates are the
   returned list; the marker is cleared; the stored set is the target; the stored total stays the sum of the powers *)
Theorem C06_stored_agree : forall st cs maxv norev,
  d_marker st = true -> wf_prev (d_vals st) = true -> wf_cands cs = true ->
  norev_ok norev (d_vals st) cs = true ->
  let out := fst (end_block st (Some cs) maxv norev) in
  let st' := snd (end_block st (Some cs) maxv norev) in
  out = end_block_diff (d_vals st) cs maxv /\
  d_upd st' = out /\ d_marker st' = false /\
  (forall k, kv_get (d_vals st') k = kv_get (target maxv cs) k) /\
  wf_prev (d_vals st') = true /\
  (d_total st = sum_pow (d_vals st) -> d_total st' = sum_pow (d_vals st')).
Proof.
  intros st cs maxv norev Hm Hp Hc Hr.
  pose proof (end_block_epoch st cs maxv norev Hm Hp Hc Hr) as H. simpl in H.
  destruct H as [H1 [H2 [H3 [_ [H5 [H6 H7]]]]]]. repeat split; assumption.
Qed.
Print Assumptions C06_stored_agree.

(* T7: in every other block the list is empty, the stored list is empty and nothing else changes *)
Theorem C06_empty_otherwise : forall st cands maxv norev,
  d_marker st = false ->
  end_block st cands maxv norev = ([], mkD (d_vals st) (d_total st) [] false).
Proof. exact end_block_other. Qed.
Print Assumptions C06_empty_otherwise.

(* T8: over ANY history of blocks (epoch-end or not, any candidates, any maxima) starting in a consistent state:
   the stored total is always the sum of the stored powers, the stored set stays a map, and the validator set that
   consensus holds (it applies every returned list by its own rules, rejecting would be None) is always defined and
   equal to the stored set *)
Theorem C06_history : forall bs st0 cons0,
  inv st0 -> in_sync st0 cons0 -> blks_ok bs = true ->
  let st := fold_left blk_step bs st0 in
  inv st /\ in_sync st (snd (run st0 cons0 bs)).
Proof.
  intros bs st0 cons0 Hi Hs Hb. pose proof (run_sync bs st0 cons0 Hi Hs Hb) as [H1 H2].
  rewrite run_fst in H1, H2. split; assumption.
Qed.
Print Assumptions C06_history.

(* and after a history that ends with an epoch-end block the stored set is that block's eligible top set *)
Theorem C06_history_last : forall bs b st0,
  inv st0 -> blks_ok (bs ++ [b]) = true -> b_epoch_end b = true ->
  forall k, kv_get (d_vals (fold_left blk_step (bs ++ [b]) st0)) k = kv_get (target (b_max b) (b_cands b)) k.
Proof.
  intros bs b st0 Hi Hb He k. rewrite fold_left_app. simpl.
  unfold blks_ok in Hb. rewrite forallb_app in Hb. apply andb_true_iff in Hb. destruct Hb as [Hb1 Hb2].
  simpl in Hb2. rewrite andb_true_r in Hb2.
  destruct (run_inv bs st0 Hi Hb1) as [Hw [Ht Hm]].
  unfold blk_step. rewrite He.
  pose proof (end_block_epoch (mark_epoch_end (fold_left blk_step bs st0)) (b_cands b) (b_max b) [] eq_refl Hw Hb2
                (norev_ok_nil _ _)) as [_ [_ [_ [_ [Hget _]]]]].
  apply Hget.
Qed.
Print Assumptions C06_history_last.

(* T10: from the operator registry to the candidates. Eligibility as the statement words it (has a consensus key, opted
   in, not jailed, whole part of the ACTIVE USD value at least 1) is what the candidate computation
   (GetActiveOperatorsForChainID + GetVotePowerForChainID) followed by the power cut selects; a registry with one entry
   per operator address and no shared key yields well-formed candidates *)
Theorem C06_eligibility : forall os cs maxv,
  registry_ok os = true -> cands_of os = CandsOk cs ->
  wf_cands cs = true /\ eligible cs = eligible_opers os /\ target maxv cs = target maxv (eligible_opers os).
Proof.
  intros os cs maxv Hr Hc. split; [eapply cands_of_wf; eassumption|].
  split; [apply cands_of_eligible; exact Hc | apply target_registry; exact Hc].
Qed.
Print Assumptions C06_eligibility.

(* T11: the boolean that the correspondence run evaluates on the IMPLEMENTATION's observations (monitor_step: consensus
   accepts, previous set + updates = top set of the registry dump, no zero-power add, strictly sorted, stored set =
   consensus set, stored total = sum, stored updates = returned updates, marker cleared; and in other blocks: empty and
   unchanged) is true of the observation the model produces, for ALL inputs *)
Theorem C06_model_meets_monitor : forall marker maxz minz fresh prev ptot os stored_before s,
  wf_prev prev = true -> registry_ok os = true -> ptot = sum_pow prev ->
  (fresh = true -> forallb (usd_consistent minz) os = true) ->
  model_obs marker maxz minz fresh prev ptot os stored_before = Some s -> monitor_step s = true.
Proof. exact model_meets_monitor. Qed.
Print Assumptions C06_model_meets_monitor.

(* T11b (wave 6): eligibility derived from the CONFIGURED minimum self delegation (active := total when self >= minimum,
   else 0 — what the operator module's epoch hook does with the minimum it reads from the dogfood AVS record) coincides
   with eligibility from the stored active values exactly when the stored values are consistent with that minimum; the
   monitor therefore also compares the implementation with the target computed from the dogfood PARAMS in every block
   whose USD records are as the hook left them, and requires AVS record minimum = params minimum in every block *)
Theorem C06_eligibility_configured : forall minz os maxv,
  forallb (usd_consistent minz) os = true ->
  eligible_cfg minz os = eligible_opers os /\
  target maxv (eligible_cfg minz os) = target maxv (eligible_opers os).
Proof.
  intros minz os maxv H. pose proof (eligible_cfg_consistent minz os H) as E. split; [exact E | rewrite E; reflexivity].
Qed.
Print Assumptions C06_eligibility_configured.

(* and it is a real restriction: an operator whose stored active value ignores the configured minimum (the AVS record
   lagging behind the params) is eligible by the stored value but not by the configuration *)
Example ex_cfg_differs :
  let o := mkOper "a1" (Some "kA") true true false true (150 * P) (150 * P) (150 * P) in
  usd_consistent 200 o = false /\ eligible_opers [o] = [mkCand "a1" "kA" 150] /\ eligible_cfg 200 [o] = [] /\
  eligible_cfg 150 [o] = [mkCand "a1" "kA" 150].
Proof. vm_compute. repeat split; reflexivity. Qed.

(* T9: the sort that stands for Go's sort.Slice is a sort *)
Theorem C06_sort_by_power_correct : forall cs,
  Permutation (sort_by_power cs) cs /\ StronglySorted (fun a b => cand_leb a b = true) (sort_by_power cs).
Proof.
  intros cs. split; [apply isort_perm | apply (isort_sorted cand_leb cand_leb_total cand_leb_trans)].
Qed.
Print Assumptions C06_sort_by_power_correct.

(* ================= link to the registry model of C07/C16 (coq/Dogfood, invariant proved over all histories) =================
   abs_opers / abs_prev / abs_norev (C06/Link.v) read a C06 input off a registry state; an, kn are ANY injective namings of
   operators and keys, usd ANY assignment of USD value records, pw ANY stored powers, ops / ks ANY duplicate-free finite
   lists of operators / keys. *)

(* T12: for every REACHABLE registry state (any history of opt-in, key replacement, opt-out, jail, unjail, undelegation,
   parameter changes and block boundaries with any selection) — and for the state inside the EndBlock that follows it,
   where the candidates are actually read — the C07 hypotheses of the theorems above hold, so C06_result holds
   unconditionally: consensus accepts the list and previous set + updates = eligible top set of the registry dump *)
Theorem C06_result_reachable : forall an kn usd s0 h sel ops ks pw maxv,
  (forall a b : Z, an a = an b -> a = b) -> (forall a b : Z, kn a = kn b -> a = b) ->
  DP.Inv s0 -> NoDup ops -> NoDup ks ->
  forall s, s = DM.hrun s0 h \/ s = fst (DM.step (DM.hrun s0 h) (DM.EndBlock sel)) ->
  registry_ok (abs_opers an kn usd s ops) = true /\
  wf_prev (abs_prev kn s ks pw) = true /\
  forall cs, cands_of (abs_opers an kn usd s ops) = CandsOk cs ->
    wf_cands cs = true /\
    norev_ok (abs_norev kn s ks) (abs_prev kn s ks pw) cs = true /\
    exists S, cmt_apply (abs_prev kn s ks pw) (end_block_diff (abs_prev kn s ks pw) cs maxv) [] = Some S /\
              forall k, kv_get S k = kv_get (target maxv (eligible_opers (abs_opers an kn usd s ops))) k.
Proof.
  intros an kn usd s0 h sel ops ks pw maxv Ha Hk I0 Hno Hnk s Hs.
  assert (I : DP.Inv s).
  { destruct Hs as [Hs|Hs]; subst s; [apply DP.inv_hrun; exact I0|].
    apply (DP.end_block_inv (DM.hrun s0 h) sel). apply DP.inv_hrun. exact I0. }
  split; [apply registry_ok_inv; assumption|]. split; [apply wf_prev_abs; assumption|].
  intros cs Hc. destruct (link_result an kn Ha Hk usd s ops ks pw maxv cs I Hno Hnk Hc) as [Hw Hex].
  split; [exact Hw|]. split; [apply (norev_ok_abs an kn Hk usd s ops ks pw cs I Hc) | exact Hex].
Qed.
Print Assumptions C06_result_reachable.

(* T13: the same for the whole EndBlock on the dogfood state, with the reverse lookups of the registry state: returned
   list = end_block_diff, stored updates = returned, marker cleared, stored set = eligible top set, total = sum *)
Theorem C06_stored_agree_reachable : forall an kn usd s0 h ops ks pw maxv cs tot upd,
  (forall a b : Z, an a = an b -> a = b) -> (forall a b : Z, kn a = kn b -> a = b) ->
  DP.Inv s0 -> NoDup ops -> NoDup ks ->
  let s := DM.hrun s0 h in
  cands_of (abs_opers an kn usd s ops) = CandsOk cs ->
  let st := mkD (abs_prev kn s ks pw) tot upd true in
  let out := fst (end_block st (Some cs) maxv (abs_norev kn s ks)) in
  let st' := snd (end_block st (Some cs) maxv (abs_norev kn s ks)) in
  out = end_block_diff (abs_prev kn s ks pw) cs maxv /\ d_upd st' = out /\ d_marker st' = false /\
  (forall k, kv_get (d_vals st') k = kv_get (target maxv (eligible_opers (abs_opers an kn usd s ops))) k) /\
  (tot = sum_pow (abs_prev kn s ks pw) -> d_total st' = sum_pow (d_vals st')).
Proof.
  intros an kn usd s0 h ops ks pw maxv cs tot upd Ha Hk I0 Hno Hnk s Hc.
  apply (link_stored_agree an kn Ha Hk usd s ops ks pw maxv cs tot upd (DP.inv_hrun h s0 I0) Hno Hnk Hc).
Qed.
Print Assumptions C06_stored_agree_reachable.

(* T14: cross-check of the eligibility predicate against the registry model (cf. C07_jailed_not_selected): every member of
   the C06 target is an operator that — in the registry model's terms — is opted in, NOT jailed, holds that key as its
   current key and is resolvable by it, with power at least 1; and handing the C06 selection to the registry model's
   EndBlock as its external input stores exactly the key set of the C06 target *)
Theorem C06_selection_matches_registry_model : forall an kn usd s ops maxv,
  (forall a b : Z, an a = an b -> a = b) -> (forall a b : Z, kn a = kn b -> a = b) ->
  DP.Inv s -> NoDup ops ->
  (forall cd, In cd (top_k maxv (eligible_opers (abs_opers an kn usd s ops))) ->
     exists o c, In o (sel_ids an kn usd s ops maxv) /\ c_key cd = kn c /\ DM.k_op s o = Some c /\
                 DM.k_rev s c = Some o /\ DM.opted s o = true /\ DM.jailed s o = false /\ 1 <= c_pow cd) /\
  (forall c, DM.new_valset s (sel_ids an kn usd s ops maxv) c = true <->
             In (kn c) (map c_key (top_k maxv (eligible_opers (abs_opers an kn usd s ops))))).
Proof.
  intros an kn usd s ops maxv Ha Hk I Hn. split.
  - intros cd Hin. apply (link_target_sound an kn usd s ops maxv cd I Hin).
  - intros c. apply (link_selection_agrees an kn Ha Hk usd s ops maxv c I Hn).
Qed.
Print Assumptions C06_selection_matches_registry_model.

(* non-vacuity of the link: the registry model's example state (two operators with keys 10 and 11, both validating), after
   a history with a key replacement, a jailing and an opt-out, named by zname; operator 2 never registered a key *)
Definition ex_usd (o : Z) : option (Z * Z) :=
  if (o =? 0)%Z then Some (300 * P, 300 * P) else if (o =? 1)%Z then Some (200 * P, 200 * P) else None.
Definition ex_link_hist : list DM.hop :=
  [DM.Tx (DM.SetKey 0 12); DM.Tx (DM.Jail 11); DM.NextBlock [0; 1] true; DM.Tx (DM.Unjail 11); DM.Tx (DM.OptOut 1)].
Example ex_link :
  DP.Inv DP.ex_state /\ NoDup [0; 1; 2] /\ NoDup [10; 11; 12; 13] /\
  let s := DM.hrun DP.ex_state ex_link_hist in
  cands_of (abs_opers zname zname ex_usd s [0; 1; 2]) = CandsOk [mkCand (zname 0) (zname 12) 300] /\
  abs_prev zname s [10; 11; 12; 13] (fun _ => 7) = [(zname 10, 7); (zname 11, 7)] /\
  end_block_diff (abs_prev zname s [10; 11; 12; 13] (fun _ => 7))
                 [mkCand (zname 0) (zname 12) 300] 100 = [(zname 12, 300); (zname 11, 0); (zname 10, 0)] /\
  sel_ids zname zname ex_usd s [0; 1; 2] 100 = [0].
Proof.
  split; [exact DP.ex_state_inv|]. split; [repeat constructor; simpl; intuition lia|].
  split; [repeat constructor; simpl; intuition lia|]. vm_compute. repeat split; reflexivity.
Qed.

(* ---- non-vacuity: concrete inputs meeting the hypotheses, with ties, sub-unit power, more eligible than max,
        a replaced key and a removed validator ---- *)
Definition ex_prev : list kv := [("kA", 200); ("kB", 150); ("kC", 150); ("kOld", 90)].
Definition ex_cands : list cand :=
  [mkCand "a5" "kE" 150; mkCand "a1" "kA" 200; mkCand "a2" "kB" 150; mkCand "a3" "kC" 150;
   mkCand "a4" "kNew" 90; mkCand "a6" "kF" 0].

Example ex_wf : wf_prev ex_prev = true /\ wf_cands ex_cands = true.
Proof. split; vm_compute; reflexivity. Qed.

(* maximum 3: a1 (200) and the two lowest addresses among the three operators tied at 150 *)
Example ex_target : target 3 ex_cands = [("kA", 200); ("kB", 150); ("kC", 150)].
Proof. vm_compute. reflexivity. Qed.
Example ex_diff3 : end_block_diff ex_prev ex_cands 3 = [("kOld", 0)].
Proof. vm_compute. reflexivity. Qed.
(* maximum 5: the tie is irrelevant, kNew replaces kOld, the zero-power operator stays out *)
Example ex_diff5 : end_block_diff ex_prev ex_cands 5 = [("kE", 150); ("kNew", 90); ("kOld", 0)].
Proof. vm_compute. reflexivity. Qed.

Example ex_history :
  let st0 := mkD ex_prev 590 [] false in
  let bs := [mkBlk false ex_cands 5; mkBlk true ex_cands 3; mkBlk true ex_cands 5; mkBlk false [] 1] in
  inv st0 /\ blks_ok bs = true /\
  d_vals (fold_left blk_step bs st0) = [("kNew", 90); ("kE", 150); ("kA", 200); ("kB", 150); ("kC", 150)] /\
  d_total (fold_left blk_step bs st0) = 740.
Proof. vm_compute. repeat split; reflexivity. Qed.


Definition ex_opers : list oper :=
  [mkOper "a1" (Some "kA") true true false true 200500000000000000000 200500000000000000000 200500000000000000000;
   mkOper "a2" (Some "kB") true true true  true 150000000000000000000 150000000000000000000 150000000000000000000;  (* jailed *)
   mkOper "a3" (Some "kC") true false false false 0 0 0;                                        (* opted out *)
   mkOper "a4" None        false false false false 0 0 0;                                       (* never opted in *)
   mkOper "a5" (Some "kE") true true false true 0 99000000000000000000 99000000000000000000;    (* self below minimum *)
   mkOper "a6" (Some "kF") true true false true 0 999999999999999999 999999999999999999].  (* below one unit (and below the minimum) *)
Example ex_registry :
  registry_ok ex_opers = true /\
  cands_of ex_opers = CandsOk [mkCand "a1" "kA" 200; mkCand "a5" "kE" 0; mkCand "a6" "kF" 0] /\
  eligible_opers ex_opers = [mkCand "a1" "kA" 200] /\
  forallb (usd_consistent 100) ex_opers = true /\
  exists s, model_obs true 100 100 true ex_prev 590 ex_opers [] = Some s /\
            s_upd s = [("kOld", 0); ("kC", 0); ("kB", 0)].
Proof. vm_compute. repeat split; try reflexivity. eexists. split; reflexivity. Qed.

(* outside the statement of C06, noted for C11: nothing keeps the target non-empty. When no operator is eligible the list
   removes every validator; CometBFT refuses an update that empties the validator set. *)
Example ex_empty_target : end_block_diff [("kA", 5); ("kB", 3)] [mkCand "a1" "kA" 0] 10 = [("kB", 0); ("kA", 0)].
Proof. vm_compute. reflexivity. Qed.

(* ---- refutations: the statement is FALSE of the faithful model once an assumption is dropped ---- *)

(* two operators sharing one consensus key (excluded by C07): the key is listed twice, consensus rejects the list, and
   the stored set holds the second power *)
Theorem C06_shared_key_refuted :
  exists prev cs maxv,
    wf_prev prev = true /\ nodupb (map c_addr cs) = true /\
    nodupb (map fst (end_block_diff prev cs maxv)) = false /\
    cmt_apply prev (end_block_diff prev cs maxv) [] = None.
Proof.
  exists [], [mkCand "a1" "K" 5; mkCand "a2" "K" 3], 10%nat. vm_compute. repeat split; reflexivity.
Qed.
Print Assumptions C06_shared_key_refuted.

(* a validator whose reverse lookup consAddr -> operator is missing: ApplyValidatorChanges writes the new power to the
   store and then skips the entry, so consensus keeps the old power while the store and LastTotalPower have the new one *)
Theorem C06_missing_reverse_lookup_refuted :
  exists st cs maxv norev,
    d_marker st = true /\ wf_prev (d_vals st) = true /\ wf_cands cs = true /\ state_ok st = true /\
    let out := fst (end_block st (Some cs) maxv norev) in
    let st' := snd (end_block st (Some cs) maxv norev) in
    out = [] /\ d_vals st' = [("K", 7)] /\ d_total st' = 7 /\ cmt_apply (d_vals st) out [] = Some [("K", 5)].
Proof.
  exists (mkD [("K", 5)] 5 [] true), [mkCand "a1" "K" 7], 10%nat, ["K"]. vm_compute. repeat split; reflexivity.
Qed.
Print Assumptions C06_missing_reverse_lookup_refuted.

(* GetVotePowerForChainID failing (an active operator without USD record): EndBlock returns the empty list but leaves
   the stored ValidatorUpdates of the previous block in place, and the set is not brought to the eligible top set *)
Theorem C06_power_error_refuted :
  exists st,
    d_marker st = true /\
    let out := fst (end_block st None 10 []) in
    let st' := snd (end_block st None 10 []) in
    out = [] /\ d_upd st' <> out /\ d_vals st' = d_vals st.
Proof.
  exists (mkD [("K", 5)] 5 [("K", 5)] true). vm_compute. repeat split; try reflexivity. discriminate.
Qed.
Print Assumptions C06_power_error_refuted.

(* the tie-break that is implemented is the one the statement names: among equal powers the lower operator address wins
   the last seat (an instance; the general fact is the definition of target + C06_result) *)
Example C06_tie_break_is_address_ascending :
  target 1 [mkCand "b" "k2" 7; mkCand "a" "k1" 7] = [("k1", 7)] /\
  end_block_diff [("k2", 7)] [mkCand "b" "k2" 7; mkCand "a" "k1" 7] 1 = [("k1", 7); ("k2", 0)].
Proof. vm_compute. split; reflexivity. Qed.
