(* C06/Link.v — link between the consensus-key registry model of C07/C16 (Dogfood/Model.v, invariant Dogfood/Proofs.v:
   [Inv], preserved by every history [hrun]) and the validator-set model of C06.
   The two models have different state shapes: the registry model keeps total functions over opaque integer
   identifiers (operators, consensus keys = consensus addresses) and an abstract validator set [vs : Z -> bool]; the C06
   model works on the finite dump [list oper] of the operator registry with string identifiers, a previous validator set
   with powers, and USD values.  The abstraction functions below read a C06 input off a registry state:
     abs_opers s ops   — the registry dump over a finite list of registered operators (powers come from [usd], which the
                         registry model does not contain),
     abs_prev s ks pw  — the stored validator set over a finite list of keys with arbitrary stored powers [pw],
     abs_norev s ks    — the keys without reverse lookup.
   Identifiers are renamed by arbitrary injective functions [an], [kn] (e.g. hex of the address bytes, text of the key).
   Result: for every state satisfying the registry invariant — hence for every reachable state — the dump is
   [registry_ok], the candidates are [wf_cands], the previous set is [wf_prev], every key involved has its reverse lookup
   ([norev_ok]); so the C06 theorems hold without the C07 hypotheses.  And the selection the C06 model makes, handed to
   the registry model's EndBlock as its external input [sel], stores exactly the C06 target key set. *)
From Coq Require Import List String Ascii Bool ZArith Lia Permutation FinFun.
From Exo Require Import Base.Util Base.IntDec C06.Model C06.Sorting C06.Proofs.
From Exo Require Dogfood.Model Dogfood.Proofs.
Import ListNotations.
Local Open Scope Z_scope.
Local Open Scope list_scope.

Module DM := Exo.Dogfood.Model.
Module DP := Exo.Dogfood.Proofs.

(* ---- an injective naming of integers by strings (for non-vacuity; any injective naming works) ---- *)
Fixpoint pos_name (p : positive) : string :=
  match p with
  | xH => EmptyString
  | xO q => String "0"%char (pos_name q)
  | xI q => String "1"%char (pos_name q)
  end.
Definition zname (z : Z) : string :=
  match z with
  | Z0 => String "z"%char EmptyString
  | Zpos p => String "p"%char (pos_name p)
  | Zneg p => String "n"%char (pos_name p)
  end.

Lemma pos_name_inj : forall p q, pos_name p = pos_name q -> p = q.
Proof.
  induction p as [p IH|p IH|]; intros [q|q|] H; simpl in H; try discriminate; try reflexivity.
  - inversion H. f_equal. apply IH. assumption.
  - inversion H. f_equal. apply IH. assumption.
Qed.

Lemma zname_inj : forall a b, zname a = zname b -> a = b.
Proof.
  intros [|p|p] [|q|q] H; simpl in H; try discriminate; try reflexivity; inversion H; f_equal; apply pos_name_inj; assumption.
Qed.

Section Link.
  Variable an kn : Z -> string.
  Hypothesis an_inj : forall a b, an a = an b -> a = b.
  Hypothesis kn_inj : forall a b, kn a = kn b -> a = b.
  (* USD value record of an operator: Some (active, total), LegacyDec raw — external to the registry model *)
  Variable usd : Z -> option (Z * Z).

  Definition abs_oper (s : DM.st) (o : Z) : oper :=
    mkOper (an o) (option_map kn (DM.k_ch s o)) (DM.info s o) (DM.opted s o) (DM.jailed s o)
           (match usd o with Some _ => true | None => false end)
           (match usd o with Some (a, _) => a | None => 0 end)
           (match usd o with Some (_, t) => t | None => 0 end)
           (match usd o with Some (_, t) => t | None => 0 end).
  Definition abs_opers (s : DM.st) (ops : list Z) : list oper := map (abs_oper s) ops.

  Definition abs_prev (s : DM.st) (ks : list Z) (pw : Z -> Z) : list kv :=
    map (fun c => (kn c, pw c)) (filter (DM.vs s) ks).
  Definition abs_norev (s : DM.st) (ks : list Z) : list key :=
    map kn (filter (fun c => negb (DM.is_some (DM.k_rev s c))) ks).

  Lemma inj_nodup (f : Z -> string) l : (forall a b, f a = f b -> a = b) -> NoDup l -> NoDup (map f l).
  Proof. intros Hf Hn. apply Injective_map_NoDup; [exact Hf | exact Hn]. Qed.

  Lemma keys_of_abs_in s ops k :
    In k (keys_of (abs_opers s ops)) <-> exists o c, In o ops /\ DM.k_ch s o = Some c /\ k = kn c.
  Proof.
    induction ops as [|o r IH].
    - simpl. split; [intros [] | intros [o [c [[] _]]]].
    - unfold abs_opers in *. cbn [map]. rewrite keys_of_cons. rewrite in_app_iff, IH. cbn [abs_oper o_key].
      split.
      + intros [H|[o' [c [Hi [Hk E]]]]].
        * destruct (DM.k_ch s o) as [c|] eqn:Ec; simpl in H; [|destruct H].
          destruct H as [H|[]]. exists o, c. split; [left; reflexivity|]. split; [exact Ec | symmetry; exact H].
        * exists o', c. split; [right; exact Hi|]. tauto.
      + intros [o' [c [[Hi|Hi] [Hk E]]]].
        * subst o'. left. rewrite Hk. simpl. left. symmetry. exact E.
        * right. exists o', c. tauto.
  Qed.

  Lemma keys_of_abs_nodup s ops : DP.Inv s -> NoDup ops -> NoDup (keys_of (abs_opers s ops)).
  Proof.
    intros I Hn. pose proof (DP.i_core s I) as C.
    induction ops as [|o r IH]; [constructor|].
    inversion Hn as [|? ? Hna Hnr]; subst.
    unfold abs_opers in *. cbn [map]. rewrite keys_of_cons. cbn [abs_oper o_key].
    destruct (DM.k_ch s o) as [c|] eqn:Ec; simpl; [|apply IH; exact Hnr].
    constructor; [|apply IH; exact Hnr].
    intros Hin. apply keys_of_abs_in in Hin. destruct Hin as [o' [c' [Hi [Hk E]]]].
    apply kn_inj in E. subst c'.
    rewrite <- (DP.i_agree s C) in Ec, Hk.
    assert (o = o') by (eapply DP.fwd_inj; eassumption). subst o'. contradiction.
  Qed.

  (* the registry dump of a state satisfying the registry invariant has one entry per address and no shared key *)
  Lemma registry_ok_inv s ops : DP.Inv s -> NoDup ops -> registry_ok (abs_opers s ops) = true.
  Proof.
    intros I Hn. unfold registry_ok. apply andb_true_iff. split; apply nodupb_spec.
    - unfold abs_opers. rewrite map_map. cbn [abs_oper o_addr]. apply inj_nodup; assumption.
    - apply keys_of_abs_nodup; assumption.
  Qed.

  Lemma wf_prev_abs s ks pw : NoDup ks -> wf_prev (abs_prev s ks pw) = true.
  Proof.
    intros Hn. unfold wf_prev, abs_prev. apply nodupb_spec. rewrite map_map. cbn [fst].
    apply inj_nodup; [exact kn_inj|]. apply NoDup_filter. exact Hn.
  Qed.

  Lemma abs_norev_not s ks c : DM.k_rev s c <> None -> kv_mem (kn c) (abs_norev s ks) = false.
  Proof.
    intros H. apply kv_mem_false. intros Hin. unfold abs_norev in Hin. apply in_map_iff in Hin.
    destruct Hin as [c' [E Hf]]. apply kn_inj in E. subst c'. apply filter_In in Hf. destruct Hf as [_ Hf].
    destruct (DM.k_rev s c); [discriminate | contradiction].
  Qed.

  Lemma norev_ok_abs s ops ks pw cs :
    DP.Inv s -> cands_of (abs_opers s ops) = CandsOk cs ->
    norev_ok (abs_norev s ks) (abs_prev s ks pw) cs = true.
  Proof.
    intros I Hc. pose proof (DP.i_core s I) as C. unfold norev_ok. apply forallb_forall. intros k Hk.
    apply negb_true_iff. apply in_app_or in Hk. destruct Hk as [Hk|Hk].
    - unfold abs_prev in Hk. rewrite map_map in Hk. cbn [fst] in Hk. apply in_map_iff in Hk.
      destruct Hk as [c [E Hf]]. subst k. apply filter_In in Hf. destruct Hf as [_ Hv].
      apply abs_norev_not. apply (DP.i_vs s I). exact Hv.
    - apply in_map_iff in Hk. destruct Hk as [cd [E Hin]]. subst k.
      destruct (cands_of_sub _ _ Hc cd Hin) as [_ Hkey]. apply keys_of_abs_in in Hkey.
      destruct Hkey as [o [c [_ [Hch E]]]]. rewrite E. apply abs_norev_not.
      rewrite <- (DP.i_agree s C) in Hch. rewrite (DP.i_fwd s C o c Hch). discriminate.
  Qed.

  (* ---- C06_result without the C07 hypotheses ---- *)
  Lemma link_result s ops ks pw maxv cs :
    DP.Inv s -> NoDup ops -> NoDup ks ->
    cands_of (abs_opers s ops) = CandsOk cs ->
    wf_cands cs = true /\
    exists S, cmt_apply (abs_prev s ks pw) (end_block_diff (abs_prev s ks pw) cs maxv) [] = Some S /\
              forall k, kv_get S k = kv_get (target maxv (eligible_opers (abs_opers s ops))) k.
  Proof.
    intros I Hno Hnk Hc.
    pose proof (cands_of_wf _ _ (registry_ok_inv s ops I Hno) Hc) as Hw. split; [exact Hw|].
    destruct (diff_result (abs_prev s ks pw) cs maxv (wf_prev_abs s ks pw Hnk) Hw) as [H1 [H2 _]].
    eexists. split; [exact H1|]. intros k. rewrite H2. rewrite (target_registry _ _ maxv Hc). reflexivity.
  Qed.

  (* ---- the whole EndBlock (incl. ApplyValidatorChanges with the reverse lookups of the registry state) ---- *)
  Lemma link_stored_agree s ops ks pw maxv cs tot upd :
    DP.Inv s -> NoDup ops -> NoDup ks ->
    cands_of (abs_opers s ops) = CandsOk cs ->
    let st := mkD (abs_prev s ks pw) tot upd true in
    let out := fst (end_block st (Some cs) maxv (abs_norev s ks)) in
    let st' := snd (end_block st (Some cs) maxv (abs_norev s ks)) in
    out = end_block_diff (abs_prev s ks pw) cs maxv /\ d_upd st' = out /\ d_marker st' = false /\
    (forall k, kv_get (d_vals st') k = kv_get (target maxv (eligible_opers (abs_opers s ops))) k) /\
    (tot = sum_pow (abs_prev s ks pw) -> d_total st' = sum_pow (d_vals st')).
  Proof.
    intros I Hno Hnk Hc st.
    pose proof (cands_of_wf _ _ (registry_ok_inv s ops I Hno) Hc) as Hw.
    pose proof (end_block_epoch st cs maxv (abs_norev s ks) eq_refl (wf_prev_abs s ks pw Hnk) Hw
                  (norev_ok_abs s ops ks pw cs I Hc)) as H. cbv zeta in H.
    destruct H as [H1 [H2 [H3 [_ [H5 [_ H7]]]]]].
    cbv zeta. repeat split; try assumption.
    intros k. rewrite H5. rewrite (target_registry _ _ maxv Hc). reflexivity.
  Qed.

  (* ---- eligibility, in the terms of the registry model ---- *)
  Lemma eligible_abs_in s ops cd :
    In cd (eligible_opers (abs_opers s ops)) ->
    exists o c, In o ops /\ DM.k_ch s o = Some c /\ c_addr cd = an o /\ c_key cd = kn c /\
                DM.info s o = true /\ DM.active s o = true /\ 1 <= c_pow cd.
  Proof.
    induction ops as [|o r IH]; [intros []|].
    unfold abs_opers in *. cbn [map]. rewrite eligible_opers_cons. rewrite in_app_iff. intros [H|H].
    - cbn [abs_oper o_key o_addr o_has_opt o_opted_in o_jailed o_has_usd o_active] in H.
      destruct (DM.k_ch s o) as [c|] eqn:Ec; cbn [option_map] in H; [|destruct H].
      match type of H with In _ (if ?b then _ else _) => destruct b eqn:Eb end; [|destruct H].
      destruct H as [H|[]]. subst cd. cbn [c_addr c_key c_pow].
      repeat (apply andb_true_iff in Eb; destruct Eb as [Eb ?]).
      exists o, c. split; [left; reflexivity|]. split; [exact Ec|]. split; [reflexivity|]. split; [reflexivity|].
      split; [assumption|]. split.
      + unfold DM.active. apply andb_true_iff. split; assumption.
      + apply Z.leb_le. assumption.
    - destruct (IH H) as [o' [c [Hi R]]]. exists o', c. split; [right; exact Hi | exact R].
  Qed.

  (* the operators the C06 model selects, as the external input [sel] of the registry model's EndBlock *)
  Definition sel_ids (s : DM.st) (ops : list Z) (maxv : nat) : list Z :=
    filter (fun o => existsb (fun cd => String.eqb (c_addr cd) (an o)) (top_k maxv (eligible_opers (abs_opers s ops)))) ops.

  Lemma top_k_elig s ops maxv cd :
    In cd (top_k maxv (eligible_opers (abs_opers s ops))) -> In cd (eligible_opers (abs_opers s ops)).
  Proof. intros H. apply top_k_in in H. tauto. Qed.

  (* every key of the C06 target belongs to an operator of the selection that is opted in, not jailed, holds that key as
     its current key and is resolvable by it (cf. C07_jailed_not_selected) *)
  Lemma link_target_sound s ops maxv cd :
    DP.Inv s ->
    In cd (top_k maxv (eligible_opers (abs_opers s ops))) ->
    exists o c, In o (sel_ids s ops maxv) /\ c_key cd = kn c /\ DM.k_op s o = Some c /\ DM.k_rev s c = Some o /\
                DM.opted s o = true /\ DM.jailed s o = false /\ 1 <= c_pow cd.
  Proof.
    intros I Hin. pose proof (DP.i_core s I) as C.
    destruct (eligible_abs_in s ops cd (top_k_elig _ _ _ _ Hin)) as [o [c [Hi [Hch [Ha [Hk [_ [Hact Hp]]]]]]]].
    exists o, c. unfold DM.active in Hact. apply andb_true_iff in Hact. destruct Hact as [Ho Hj].
    apply negb_true_iff in Hj. rewrite <- (DP.i_agree s C) in Hch.
    split.
    - unfold sel_ids. apply filter_In. split; [exact Hi|]. apply existsb_exists. exists cd.
      split; [exact Hin | rewrite Ha; apply String.eqb_refl].
    - repeat split; try assumption. apply (DP.i_fwd s C). exact Hch.
  Qed.

  (* handing that selection to the registry model's EndBlock stores exactly the key set of the C06 target *)
  Lemma link_selection_agrees s ops maxv c :
    DP.Inv s -> NoDup ops ->
    (DM.new_valset s (sel_ids s ops maxv) c = true <->
     In (kn c) (map c_key (top_k maxv (eligible_opers (abs_opers s ops))))).
  Proof.
    intros I Hn. pose proof (DP.i_core s I) as C. unfold DM.new_valset. rewrite existsb_exists. split.
    - intros [o [Hsel Hb]]. apply andb_true_iff in Hb. destruct Hb as [_ Hk].
      unfold sel_ids in Hsel. apply filter_In in Hsel. destruct Hsel as [Hi He].
      apply existsb_exists in He. destruct He as [cd [Hcd Hae]]. apply String.eqb_eq in Hae.
      apply in_map_iff. exists cd. split; [|exact Hcd].
      destruct (eligible_abs_in s ops cd (top_k_elig _ _ _ _ Hcd)) as [o' [c' [_ [Hch [Ha [Hkk _]]]]]].
      rewrite Ha in Hae. apply an_inj in Hae. subst o'.
      unfold DM.oz_eqb, option_eqb in Hk. rewrite Hch in Hk. apply Z.eqb_eq in Hk. subst c'. exact Hkk.
    - intros Hin. apply in_map_iff in Hin. destruct Hin as [cd [Hk Hcd]].
      destruct (link_target_sound s ops maxv cd I Hcd) as [o [c' [Hsel [Hkk [Hop [_ [Ho [Hj _]]]]]]]].
      rewrite Hkk in Hk. apply kn_inj in Hk. subst c'.
      exists o. split; [exact Hsel|]. apply andb_true_iff. split.
      + unfold DM.active. rewrite Ho, Hj. reflexivity.
      + rewrite <- (DP.i_agree s C). rewrite Hop. unfold DM.oz_eqb, option_eqb. apply Z.eqb_refl.
  Qed.
End Link.
