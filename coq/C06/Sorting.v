(* C06/Sorting.v — the insertion sort of C06/Model.v is a sort: permutation, sortedness, and uniqueness of the
   sorted permutation (so the result depends only on the multiset of the input); filter / takeWhile / firstn lemmas
   on sorted lists; the string order used by the comparators. *)
From Coq Require Import List String Ascii Bool ZArith Lia Permutation Sorted OrderedTypeEx.
From Exo Require Import C06.Model.
Import ListNotations.

(* ---- strings: String.ltb is a strict total order ---- *)
Lemma str_ltb_lt a b : String.ltb a b = true <-> String_as_OT.lt a b.
Proof.
  unfold String.ltb. rewrite <- String_as_OT.cmp_lt. unfold String_as_OT.cmp.
  destruct (String.compare a b); split; intro H; try reflexivity; try discriminate.
Qed.

Lemma str_ltb_irrefl a : String.ltb a a = false.
Proof.
  destruct (String.ltb a a) eqn:E; [|reflexivity].
  apply str_ltb_lt in E. exfalso. exact (String_as_OT.lt_not_eq _ _ E eq_refl).
Qed.

Lemma str_ltb_trans a b c : String.ltb a b = true -> String.ltb b c = true -> String.ltb a c = true.
Proof. rewrite !str_ltb_lt. apply String_as_OT.lt_trans. Qed.

Lemma str_ltb_asym a b : String.ltb a b = true -> String.ltb b a = false.
Proof.
  intros H. destruct (String.ltb b a) eqn:E; [|reflexivity].
  pose proof (str_ltb_trans _ _ _ H E) as T. rewrite str_ltb_irrefl in T. discriminate.
Qed.

Lemma str_ltb_total a b : String.ltb a b = false -> String.ltb b a = false -> a = b.
Proof.
  unfold String.ltb. intros H1 H2.
  destruct (String.compare a b) eqn:E.
  - apply String.compare_eq_iff in E. exact E.
  - discriminate.
  - rewrite String.compare_antisym in H2. rewrite E in H2. simpl in H2. discriminate.
Qed.

(* ---- generic facts about insertion sort ---- *)
Section SortFacts.
  Context {A : Type}.
  Variable leb : A -> A -> bool.
  Hypothesis leb_total : forall x y, leb x y = false -> leb y x = true.
  Hypothesis leb_trans : forall x y z, leb x y = true -> leb y z = true -> leb x z = true.

  Definition le (x y : A) : Prop := leb x y = true.

  Lemma insert_perm x l : Permutation (insert leb x l) (x :: l).
  Proof.
    induction l as [|y r IH]; simpl; [apply Permutation_refl|].
    destruct (leb x y); [apply Permutation_refl|].
    eapply Permutation_trans; [apply perm_skip; exact IH | apply perm_swap].
  Qed.

  Lemma isort_perm l : Permutation (isort leb l) l.
  Proof.
    induction l as [|x r IH]; simpl; [apply Permutation_refl|].
    eapply Permutation_trans; [apply insert_perm | apply perm_skip; exact IH].
  Qed.

  Lemma insert_sorted x l : StronglySorted le l -> StronglySorted le (insert leb x l).
  Proof.
    induction l as [|y r IH]; intros Hs; simpl.
    - constructor; constructor.
    - destruct (leb x y) eqn:E.
      + constructor; [exact Hs|]. constructor; [exact E|].
        inversion Hs as [|? ? _ Hall]; subst.
        rewrite Forall_forall in *. intros z Hz. eapply leb_trans; [exact E | apply Hall; exact Hz].
      + inversion Hs as [|? ? Hr Hall]; subst. constructor; [apply IH; exact Hr|].
        rewrite Forall_forall in *. intros z Hz.
        apply (Permutation_in _ (insert_perm x r)) in Hz. destruct Hz as [Hz|Hz].
        * subst z. apply leb_total. exact E.
        * apply Hall. exact Hz.
  Qed.

  Lemma isort_sorted l : StronglySorted le (isort leb l).
  Proof. induction l as [|x r IH]; simpl; [constructor | apply insert_sorted; exact IH]. Qed.

  (* a sorted list has only one sorted permutation when leb is antisymmetric on its elements *)
  Lemma sorted_perm_unique l1 : forall l2,
    StronglySorted le l1 -> StronglySorted le l2 -> Permutation l1 l2 ->
    (forall x y, In x l1 -> In y l1 -> leb x y = true -> leb y x = true -> x = y) ->
    l1 = l2.
  Proof.
    induction l1 as [|a r1 IH]; intros l2 H1 H2 HP Hanti.
    - apply Permutation_nil in HP. subst. reflexivity.
    - destruct l2 as [|b r2]; [apply Permutation_sym, Permutation_nil in HP; discriminate|].
      inversion H1 as [|? ? Hr1 Hall1]; subst. inversion H2 as [|? ? Hr2 Hall2]; subst.
      rewrite Forall_forall in Hall1, Hall2.
      assert (Hab : a = b).
      { assert (Ia : In a (b :: r2)) by (eapply Permutation_in; [exact HP | left; reflexivity]).
        assert (Ib : In b (a :: r1)) by (eapply Permutation_in; [apply Permutation_sym; exact HP | left; reflexivity]).
        destruct Ia as [Ia|Ia]; [symmetry; exact Ia|].
        destruct Ib as [Ib|Ib]; [exact Ib|].
        apply Hanti; [left; reflexivity | right; exact Ib | apply Hall1; exact Ib | apply Hall2; exact Ia]. }
      subst b. f_equal. apply IH; [exact Hr1 | exact Hr2 | eapply Permutation_cons_inv; exact HP |].
      intros x y Hx Hy. apply Hanti; right; assumption.
  Qed.

  Definition antisym_on (l : list A) : Prop :=
    forall x y, In x l -> In y l -> leb x y = true -> leb y x = true -> x = y.

  Lemma antisym_on_perm l1 l2 : Permutation l1 l2 -> antisym_on l1 -> antisym_on l2.
  Proof.
    intros HP H x y Hx Hy. apply H; eapply Permutation_in; try (apply Permutation_sym; exact HP); assumption.
  Qed.

  Lemma antisym_on_incl l1 l2 : incl l2 l1 -> antisym_on l1 -> antisym_on l2.
  Proof. intros Hi H x y Hx Hy. apply H; apply Hi; assumption. Qed.

  (* the result of the sort depends only on the multiset of the input *)
  Lemma isort_perm_eq l1 l2 : Permutation l1 l2 -> antisym_on l1 -> isort leb l1 = isort leb l2.
  Proof.
    intros HP Hanti. apply sorted_perm_unique; try apply isort_sorted.
    - eapply Permutation_trans; [apply isort_perm|]. eapply Permutation_trans; [exact HP|].
      apply Permutation_sym, isort_perm.
    - eapply antisym_on_perm; [apply Permutation_sym, isort_perm | exact Hanti].
  Qed.

  Lemma isort_of_sorted l : StronglySorted le l -> antisym_on l -> isort leb l = l.
  Proof.
    intros Hs Hanti. apply sorted_perm_unique; [apply isort_sorted | exact Hs | apply isort_perm |].
    eapply antisym_on_perm; [apply Permutation_sym, isort_perm | exact Hanti].
  Qed.

  (* filter commutes with the sort *)
  Lemma filter_sorted p l : StronglySorted le l -> StronglySorted le (filter p l).
  Proof.
    induction 1 as [|a r Hr IH Hall]; simpl; [constructor|].
    destruct (p a); [|exact IH]. constructor; [exact IH|].
    rewrite Forall_forall in *. intros z Hz. apply filter_In in Hz. apply Hall. tauto.
  Qed.

  Lemma filter_perm p (l1 l2 : list A) : Permutation l1 l2 -> Permutation (filter p l1) (filter p l2).
  Proof.
    induction 1 as [|x l l' _ IH|x y l|l l' l'' _ IH1 _ IH2]; simpl.
    - constructor.
    - destruct (p x); [apply perm_skip|]; exact IH.
    - destruct (p x), (p y); try apply Permutation_refl. apply perm_swap.
    - eapply Permutation_trans; eassumption.
  Qed.

  Lemma filter_isort p l : antisym_on l -> filter p (isort leb l) = isort leb (filter p l).
  Proof.
    intros Hanti. apply sorted_perm_unique.
    - apply filter_sorted, isort_sorted.
    - apply isort_sorted.
    - eapply Permutation_trans; [apply filter_perm, isort_perm | apply Permutation_sym, isort_perm].
    - intros x y Hx Hy. apply filter_In in Hx, Hy. destruct Hx as [Hx _], Hy as [Hy _].
      apply Hanti; eapply Permutation_in; try apply isort_perm; assumption.
  Qed.

  (* on a sorted list, a predicate that is upward closed selects a prefix *)
  Fixpoint take_while (p : A -> bool) (l : list A) : list A :=
    match l with
    | [] => []
    | x :: r => if p x then x :: take_while p r else []
    end.

  Lemma take_while_filter p l :
    StronglySorted le l -> (forall x y, leb x y = true -> p y = true -> p x = true) ->
    take_while p l = filter p l.
  Proof.
    intros Hs Hup. induction Hs as [|a r Hr IH Hall]; simpl; [reflexivity|].
    destruct (p a) eqn:E; [f_equal; exact IH|].
    symmetry. rewrite Forall_forall in Hall.
    clear IH. induction r as [|b r' IHr]; simpl; [reflexivity|].
    destruct (p b) eqn:Eb.
    - assert (p a = true) by (eapply Hup; [apply Hall; left; reflexivity | exact Eb]). congruence.
    - apply IHr.
      + inversion Hr; assumption.
      + intros z Hz. apply Hall. right. exact Hz.
  Qed.

  Lemma take_while_firstn p n l : take_while p (firstn n l) = firstn n (take_while p l).
  Proof.
    revert l. induction n as [|n IH]; intros l; simpl; [reflexivity|].
    destruct l as [|x r]; simpl; [reflexivity|]. destruct (p x); simpl; [f_equal; apply IH | reflexivity].
  Qed.
End SortFacts.
