(* C06/Model.v — executable model of the validator-set update computed at the end of a dogfood epoch.
   Transcribed from
     x/dogfood/keeper/abci.go          EndBlock (the vote-power diff; the queue maintenance before it belongs to C07/C16)
     x/dogfood/keeper/validators.go    ApplyValidatorChanges, SetValidatorUpdates, SetLastTotalPower
     x/dogfood/keeper/impl_epochs_hooks.go  (the epoch-end marker: set in BeginBlock, read and cleared by EndBlock)
     utils/utils.go                    SortByPower
     x/operator/keeper/consensus_keys.go GetOperatorsForChainID / GetActiveOperatorsForChainID, operator.go IsActive,
     x/operator/keeper/usd_value.go    GetVotePowerForChainID (TruncateInt64 of the ACTIVE USD value)
   Identifiers: an operator address is the lower-case hex of its 20 bytes (string order = bytes.Compare); a consensus key
   is the text tmproto PublicKey.String() of the key (printable ASCII) — it is what the final sort.Slice compares, and it
   determines the consensus address that keys the validator store and prevMap (injective, hashing not modelled).
   No proofs here: the model must still run when a proof breaks. *)
From Coq Require Import List String Ascii Bool ZArith Lia.
From Exo Require Import Base.Util Base.IntDec.
Import ListNotations.
Local Open Scope Z_scope.
Local Open Scope list_scope.

(* ---- insertion sort for a boolean "less or equal" (verified in C06/Sorting.v) ---- *)
Section SortDef.
  Context {A : Type}.
  Variable leb : A -> A -> bool.
  Fixpoint insert (x : A) (l : list A) : list A :=
    match l with
    | [] => [x]
    | y :: r => if leb x y then x :: l else y :: insert x r
    end.
  Fixpoint isort (l : list A) : list A :=
    match l with
    | [] => []
    | x :: r => insert x (isort r)
    end.
End SortDef.

Definition key := string.
Definition addr := string.
Definition kv := (key * Z)%type.

(* ---- finite maps key -> power as association lists (first binding counts) ---- *)
Fixpoint kv_get (m : list kv) (k : key) : option Z :=
  match m with
  | [] => None
  | (k', v) :: r => if String.eqb k' k then Some v else kv_get r k
  end.
Definition kv_del (m : list kv) (k : key) : list kv := filter (fun e => negb (String.eqb (fst e) k)) m.
Definition kv_set (m : list kv) (k : key) (v : Z) : list kv := (k, v) :: kv_del m k.
Definition kv_mem (k : key) (l : list key) : bool := existsb (String.eqb k) l.

(* ---- candidates: GetActiveOperatorsForChainID + GetVotePowerForChainID ---- *)
Record cand := mkCand { c_addr : addr; c_key : key; c_pow : Z }.

Record oper := mkOper {
  o_addr : addr;
  o_key : option key;    (* entry under BytePrefixForChainIDAndOperatorToConsKey *)
  o_has_opt : bool;      (* an OptedInfo record exists *)
  o_opted_in : bool;     (* OptedOutHeight = DefaultOptedOutHeight *)
  o_jailed : bool;
  o_has_usd : bool;      (* a USD value record exists *)
  o_active : Z;          (* ActiveUSDValue, LegacyDec raw (scaled by 10^18) *)
  o_total : Z;           (* TotalUSDValue *)
  o_self : Z             (* SelfUSDValue *)
}.

(* IsActive *)
Definition is_active (o : oper) : bool := o_has_opt o && o_opted_in o && negb (o_jailed o).

Definition max_int64 : Z := 9223372036854775807.

Inductive cands_res := CandsOk (l : list cand) | CandsErr | CandsPanic.

(* operators in store order (address ascending); the first operator whose power cannot be computed decides *)
Fixpoint cands_of (os : list oper) : cands_res :=
  match os with
  | [] => CandsOk []
  | o :: r =>
      match o_key o with
      | None => cands_of r
      | Some k =>
          if negb (is_active o) then cands_of r
          else if negb (o_has_usd o) then CandsErr              (* ErrNoKeyInTheStore *)
          else
            let p := dec_trunc_int (o_active o) in              (* TruncateInt64 *)
            if (max_int64 <? p) || (p <? - max_int64 - 1) then CandsPanic
            else match cands_of r with
                 | CandsOk l => CandsOk (mkCand (o_addr o) k p :: l)
                 | e => e
                 end
      end
  end.

(* ---- utils.SortByPower: less(i,j) ---- *)
Definition cand_less (a b : cand) : bool :=
  if c_pow a =? c_pow b then String.ltb (c_addr a) (c_addr b) else c_pow b <? c_pow a.
Definition cand_leb (a b : cand) : bool := negb (cand_less b a).
Definition sort_by_power (cs : list cand) : list cand := isort cand_leb cs.

(* ---- EndBlock, the diff ---- *)
(* prevMap: built by inserting the previous validators one by one *)
Definition prev_map (prev : list kv) : list kv := fold_left (fun m e => kv_set m (fst e) (snd e)) prev [].

(* the loop `for i := range operators`; n = maxVals - i *)
Fixpoint diff_loop (n : nat) (cs : list cand) (pm res : list kv) (tot : Z) : list kv * list kv * Z :=
  match cs with
  | [] => (pm, res, tot)
  | c :: r =>
      match n with
      | O => (pm, res, tot)                                   (* i >= maxVals: break *)
      | S n' =>
          if c_pow c <? 1 then (pm, res, tot)                 (* power < 1: break *)
          else
            match kv_get pm (c_key c) with
            | Some pp =>
                diff_loop n' r (kv_del pm (c_key c))
                  (if pp =? c_pow c then res else res ++ [(c_key c, c_pow c)]) (tot + c_pow c)
            | None => diff_loop n' r pm (res ++ [(c_key c, c_pow c)]) (tot + c_pow c)
            end
      end
  end.

(* the pass over prevList queueing power 0 for whoever is still in prevMap *)
Definition removal_pass (prev pm : list kv) : list kv :=
  flat_map (fun e => match kv_get pm (fst e) with Some _ => [(fst e, 0)] | None => [] end) prev.

(* ---- ApplyValidatorChanges ---- *)
(* final sort: power descending, then PubKey.String() descending *)
Definition upd_less (a b : kv) : bool :=
  if negb (snd a =? snd b) then snd b <? snd a else String.ltb (fst b) (fst a).
Definition upd_leb (a b : kv) : bool := negb (upd_less b a).

(* norev: keys whose reverse lookup consAddr -> operator is missing (the update branch then skips the key AFTER
   having written the new power to ctx).  The slashing hooks are assumed to return nil. *)
Fixpoint apply_changes (norev : list key) (vals chs ret : list kv) : list kv * list kv :=
  match chs with
  | [] => (vals, ret)
  | (k, p) :: r =>
      match kv_get vals k with
      | Some _ =>
          if p <? 1 then apply_changes norev (kv_del vals k) r (ret ++ [(k, p)])
          else
            let vals' := kv_set vals k p in
            if kv_mem k norev then apply_changes norev vals' r ret
            else apply_changes norev vals' r (ret ++ [(k, p)])
      | None =>
          if 0 <? p then apply_changes norev (kv_set vals k p) r (ret ++ [(k, p)])
          else apply_changes norev vals r ret
      end
  end.

(* ---- the dogfood state that C06 is about ---- *)
Record dstate := mkD {
  d_vals : list kv;      (* stored validator set *)
  d_total : Z;           (* LastTotalPower *)
  d_upd : list kv;       (* stored ValidatorUpdates *)
  d_marker : bool        (* epoch-end marker *)
}.

(* the pure core: what is queued (res) and the new total *)
Definition end_block_res (prev : list kv) (cs : list cand) (maxv : nat) : list kv * Z :=
  let '(pm, res1, tot) := diff_loop maxv (sort_by_power cs) (prev_map prev) [] 0 in
  (res1 ++ removal_pass prev pm, tot).

(* the list handed to consensus for (previous set, candidates, maximum) when every reverse lookup exists *)
Definition end_block_diff (prev : list kv) (cs : list cand) (maxv : nat) : list kv :=
  isort upd_leb (snd (apply_changes [] prev (fst (end_block_res prev cs maxv)) [])).

(* EndBlock: cands = None models the error return of GetVotePowerForChainID *)
Definition end_block (st : dstate) (cands : option (list cand)) (maxv : nat) (norev : list key) : list kv * dstate :=
  if negb (d_marker st) then ([], mkD (d_vals st) (d_total st) [] false)
  else
    match cands with
    | None => ([], mkD (d_vals st) (d_total st) (d_upd st) false)   (* returns before SetValidatorUpdates *)
    | Some cs =>
        let '(res, tot) := end_block_res (d_vals st) cs maxv in
        let total' := match res with [] => d_total st | _ => tot end in
        let '(vals', ret) := apply_changes norev (d_vals st) res [] in
        let out := isort upd_leb ret in
        (out, mkD vals' total' out false)
    end.

(* AfterEpochEnd of the dogfood identifier *)
Definition mark_epoch_end (st : dstate) : dstate := mkD (d_vals st) (d_total st) (d_upd st) true.

(* ---- what consensus does with the updates (CometBFT validator-set update rules) ---- *)
Fixpoint cmt_apply (vals upd : list kv) (seen : list key) : option (list kv) :=
  match upd with
  | [] => Some vals
  | (k, p) :: r =>
      if kv_mem k seen then None                                  (* duplicate entry *)
      else if p <? 0 then None                                    (* negative power *)
      else if p =? 0 then
        match kv_get vals k with
        | None => None                                            (* removal of an unknown validator *)
        | Some _ => cmt_apply (kv_del vals k) r (k :: seen)
        end
      else cmt_apply (kv_set vals k p) r (k :: seen)
  end.

(* CometBFT additionally refuses a non-empty change list that leaves no validator at all (types/validator_set.go,
   updateWithChangeSet: "applying the validator changes would result in empty set").  That rule is outside the statement
   of C06 (it is a liveness matter, C11); it is transcribed here so that the transcription [cmt_apply] can be compared
   with the real CometBFT code on every observed block. *)
Definition cmt_code (prev upd : list kv) : Z :=
  match cmt_apply prev upd [] with
  | None => 2
  | Some got => match upd, got with
                | _ :: _, [] => 1
                | _, _ => 0
                end
  end.

(* ---- the specification: eligible top set ---- *)
Definition eligible (cs : list cand) : list cand := filter (fun c => 1 <=? c_pow c) cs.
Definition top_k (maxv : nat) (cs : list cand) : list cand := firstn maxv (sort_by_power (eligible cs)).
Definition target (maxv : nat) (cs : list cand) : list kv := map (fun c => (c_key c, c_pow c)) (top_k maxv cs).

(* canonical form of a finite map, for comparisons *)
Definition kv_key_leb (a b : kv) : bool := negb (String.ltb (fst b) (fst a)).
Definition canon (m : list kv) : list kv := isort kv_key_leb m.
Definition kv_eqb (a b : kv) : bool := String.eqb (fst a) (fst b) && (snd a =? snd b).
Definition same_map (a b : list kv) : bool := list_eqb kv_eqb (canon a) (canon b).
Fixpoint nodupb (l : list string) : bool :=
  match l with
  | [] => true
  | x :: r => negb (kv_mem x r) && nodupb r
  end.
Definition sum_pow (m : list kv) : Z := zsum (map snd m).

(* strictly sorted in the order of the final sort *)
Fixpoint strictly_sorted (l : list kv) : bool :=
  match l with
  | [] => true
  | a :: r => match r with
              | [] => true
              | b :: _ => upd_less a b && strictly_sorted r
              end
  end.

(* ---- correspondence cases (written by the harness) ---- *)
Record step := mkStep {
  s_epoch_ended : bool;  (* the dogfood epoch number advanced in this block's BeginBlock (read from x/epochs) *)
  s_marker : bool;       (* the marker as EndBlock finds it *) s_max : Z;
  s_min_self : Z;        (* dogfood params.MinSelfDelegation at EndBlock *)
  s_avs_min_self : Z;    (* MinSelfDelegation of the dogfood AVS record, which the operator module's epoch hook reads *)
  s_hook_min : Z;        (* dogfood params.MinSelfDelegation when this block's epoch hook ran (-1: none) *)
  s_fresh : bool;        (* the USD value records are as the operator module's epoch hook of this block left them *)
  s_prev : list kv; s_prev_total : Z; s_opers : list oper; s_norev : list key;
  s_panicked : bool;
  s_cmt : Z;   (* what the REAL CometBFT ValidatorSet.UpdateWithChangeSet(prev, updates) answered: 0 accepted, 1 refused because the
                  set would become empty, 2 refused for another reason (duplicate, unknown removal, negative, ...) *)
  s_upd : list kv; s_after : list kv; s_total_after : Z; s_stored_upd : list kv;
  s_marker_after : bool }.
Record case := mkCase { c_steps : list step }.

(* model vs implementation, one block.  The marker the model's EndBlock sees is the one AfterEpochEnd sets: the state
   left by the previous EndBlock has the marker cleared, and the hook fires iff the dogfood epoch ended. *)
Definition check_step (stored_before : list kv) (s : step) : bool :=
  let st0 := mkD (s_prev s) (s_prev_total s) stored_before false in
  let st := if s_epoch_ended s then mark_epoch_end st0 else st0 in
  Bool.eqb (d_marker st) (s_marker s) &&
  match cands_of (s_opers s) with
  | CandsPanic => if d_marker st then s_panicked s else
      (* marker not set: the candidates are never computed *)
      negb (s_panicked s) && list_eqb kv_eqb (s_upd s) [] && same_map (s_after s) (s_prev s)
      && (s_total_after s =? s_prev_total s) && list_eqb kv_eqb (s_stored_upd s) [] && negb (s_marker_after s)
  | cr =>
      let cands := match cr with CandsOk l => Some l | _ => None end in
      let '(out, st') := end_block st cands (Z.to_nat (s_max s)) (s_norev s) in
      negb (s_panicked s)
      && list_eqb kv_eqb out (s_upd s)
      && same_map (d_vals st') (s_after s)
      && (d_total st' =? s_total_after s)
      && list_eqb kv_eqb (d_upd st') (s_stored_upd s)
      && Bool.eqb (d_marker st') (s_marker_after s)
  end.

(* consecutive blocks: nothing but EndBlock touches the stored set / total *)
Fixpoint check_steps (prev_step : option step) (ss : list step) (i : nat) : option nat :=
  match ss with
  | [] => None
  | s :: r =>
      let linked := match prev_step with
                    | None => true
                    | Some p => same_map (s_prev s) (s_after p) && (s_prev_total s =? s_total_after p)
                    end in
      let stored_before := match prev_step with None => [] | Some p => s_stored_upd p end in
      if linked && (0 <=? s_max s) && check_step stored_before s then check_steps (Some s) r (S i) else Some i
  end.

Definition check_case (c : case) : option nat := check_steps None (c_steps c) 0.

(* ---- the property itself, evaluated on what the implementation was observed to do ---- *)
(* eligibility as the statement words it: has a consensus key, opted in, not jailed, whole part of the active USD
   value at least 1 *)
Definition eligible_opers (os : list oper) : list cand :=
  flat_map (fun o => match o_key o with
                     | None => []
                     | Some k =>
                         if o_has_opt o && o_opted_in o && negb (o_jailed o) && o_has_usd o
                            && (1 <=? dec_trunc_int (o_active o))
                         then [mkCand (o_addr o) k (dec_trunc_int (o_active o))] else []
                     end) os.

(* eligibility derived from the CONFIGURED minimum self delegation instead of the stored active value: the operator
   module's epoch hook sets active := total when self >= minimum (whole USD) and 0 otherwise *)
Definition cfg_active (minself : Z) (o : oper) : Z := if minself * P <=? o_self o then o_total o else 0.
Definition eligible_cfg (minself : Z) (os : list oper) : list cand :=
  flat_map (fun o => match o_key o with
                     | None => []
                     | Some k =>
                         if o_has_opt o && o_opted_in o && negb (o_jailed o) && o_has_usd o
                            && (1 <=? dec_trunc_int (cfg_active minself o))
                         then [mkCand (o_addr o) k (dec_trunc_int (cfg_active minself o))] else []
                     end) os.
Definition usd_consistent (minself : Z) (o : oper) : bool := o_active o =? cfg_active minself o.

Definition monitor_step (s : step) : bool :=
  if s_panicked s then true (* nothing was handed to consensus; a halted chain is C11's subject *)
  else if negb (s_cmt s =? cmt_code (s_prev s) (s_upd s)) then false   (* real CometBFT and its transcription disagree *)
  else if negb (s_min_self s =? s_avs_min_self s) then false  (* the AVS record the hook reads lags behind the configured params *)
  else if negb (s_epoch_ended s) then
    (* every block that does not close a dogfood epoch: empty list, nothing changes *)
    list_eqb kv_eqb (s_upd s) [] && list_eqb kv_eqb (s_stored_upd s) []
    && same_map (s_after s) (s_prev s) && (s_total_after s =? s_prev_total s)
  else
    let want := target (Z.to_nat (s_max s)) (eligible_opers (s_opers s)) in
    match cmt_apply (s_prev s) (s_upd s) [] with
    | None => false                           (* consensus would reject: duplicate / unknown removal / negative *)
    | Some got =>
        nodupb (map fst (s_prev s))
        && same_map got want                                     (* previous set + updates = eligible top set *)
        && (negb (s_fresh s) ||                                  (* ... also with eligibility from the configured minimum *)
            same_map got (target (Z.to_nat (s_max s)) (eligible_cfg (s_hook_min s) (s_opers s))))
        && forallb (fun e => negb (snd e =? 0) || match kv_get (s_prev s) (fst e) with Some _ => true | None => false end) (s_upd s)
        && strictly_sorted (s_upd s)                             (* canonical order, no key twice *)
        && same_map (s_after s) got                              (* stored set = what consensus has *)
        && (s_total_after s =? sum_pow (s_after s))              (* stored total power *)
        && list_eqb kv_eqb (s_stored_upd s) (s_upd s)            (* stored updates = returned updates *)
        && negb (s_marker_after s)
    end.

Fixpoint monitor_steps (ss : list step) (i : nat) : option nat :=
  match ss with
  | [] => None
  | s :: r => if monitor_step s then monitor_steps r (S i) else Some i
  end.

Definition monitor_case (c : case) : option nat := monitor_steps (c_steps c) 0.
