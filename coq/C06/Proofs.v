(* C06/Proofs.v — lemmas about the model of dogfood EndBlock / ApplyValidatorChanges (C06/Model.v). *)
From Coq Require Import List String Ascii Bool ZArith Lia Permutation Sorted Morphisms.
From Exo Require Import Base.Util Base.IntDec C06.Model C06.Sorting.
Import ListNotations.
Local Open Scope Z_scope.
Local Open Scope list_scope.

(* ------------------------------------------------------------------------------------------------ *)
(* generic list facts                                                                                *)
(* ------------------------------------------------------------------------------------------------ *)
Lemma NoDup_map_inj_on {A B} (f : A -> B) l x y :
  NoDup (map f l) -> In x l -> In y l -> f x = f y -> x = y.
Proof.
  induction l as [|a r IH]; intros Hn Hx Hy Hf; [destruct Hx|].
  simpl in Hn. inversion Hn as [|? ? Hna Hnr]; subst.
  destruct Hx as [Hx|Hx], Hy as [Hy|Hy]; subst.
  - reflexivity.
  - exfalso. apply Hna. rewrite Hf. apply in_map. exact Hy.
  - exfalso. apply Hna. rewrite <- Hf. apply in_map. exact Hx.
  - apply IH; assumption.
Qed.

Lemma NoDup_map_filter {A B} (f : A -> B) p l : NoDup (map f l) -> NoDup (map f (filter p l)).
Proof.
  induction l as [|a r IH]; simpl; intros Hn; [constructor|].
  inversion Hn as [|? ? Hna Hnr]; subst. destruct (p a); simpl; [|apply IH; exact Hnr].
  constructor; [|apply IH; exact Hnr].
  intros Hin. apply Hna. apply in_map_iff in Hin. destruct Hin as [x [Hx Hi]]. apply filter_In in Hi.
  apply in_map_iff. exists x. tauto.
Qed.

Lemma In_firstn {A} n (l : list A) x : In x (firstn n l) -> In x l.
Proof.
  revert l. induction n as [|n IH]; intros l H; simpl in H; [destruct H|].
  destruct l as [|a r]; [destruct H|]. destruct H as [H|H]; [left; exact H | right; apply IH; exact H].
Qed.

Lemma NoDup_firstn {A} n (l : list A) : NoDup l -> NoDup (firstn n l).
Proof.
  revert l. induction n as [|n IH]; intros l Hn; simpl; [constructor|].
  destruct l as [|a r]; [constructor|]. inversion Hn as [|? ? Hna Hnr]; subst.
  constructor; [|apply IH; exact Hnr]. intros Hin. apply Hna. eapply In_firstn. exact Hin.
Qed.

Lemma NoDup_app_disj {A} (l1 l2 : list A) :
  NoDup l1 -> NoDup l2 -> (forall x, In x l1 -> ~ In x l2) -> NoDup (l1 ++ l2).
Proof.
  induction l1 as [|a r IH]; intros H1 H2 Hd; simpl; [exact H2|].
  inversion H1 as [|? ? Hna Hnr]; subst. constructor.
  - intros Hin. apply in_app_or in Hin. destruct Hin as [Hin|Hin]; [apply Hna; exact Hin|].
    apply (Hd a); [left; reflexivity | exact Hin].
  - apply IH; [exact Hnr | exact H2 |]. intros x Hx. apply Hd. right. exact Hx.
Qed.

Lemma zsum_perm l1 l2 : Permutation l1 l2 -> zsum l1 = zsum l2.
Proof. induction 1; simpl; try lia. Qed.

(* ------------------------------------------------------------------------------------------------ *)
(* string order: "less or equal" as the negation of ltb                                             *)
(* ------------------------------------------------------------------------------------------------ *)
Definition str_leb (a b : string) : bool := negb (String.ltb b a).

Lemma str_leb_total a b : str_leb a b = false -> str_leb b a = true.
Proof.
  unfold str_leb. intros H. apply negb_false_iff in H. apply negb_true_iff. apply str_ltb_asym. exact H.
Qed.

Lemma str_leb_trans a b c : str_leb a b = true -> str_leb b c = true -> str_leb a c = true.
Proof.
  unfold str_leb. rewrite !negb_true_iff. intros H1 H2.
  destruct (String.ltb c a) eqn:E; [|reflexivity]. exfalso.
  destruct (String.ltb a b) eqn:Eab.
  - pose proof (str_ltb_trans _ _ _ E Eab) as T. congruence.
  - pose proof (str_ltb_total _ _ Eab H1) as T. subst b. congruence.
Qed.

Lemma str_leb_antisym a b : str_leb a b = true -> str_leb b a = true -> a = b.
Proof. unfold str_leb. rewrite !negb_true_iff. intros H1 H2. apply str_ltb_total; assumption. Qed.

Lemma string_eqb_sym a b : String.eqb a b = String.eqb b a.
Proof.
  destruct (String.eqb a b) eqn:E1, (String.eqb b a) eqn:E2; try reflexivity.
  - apply String.eqb_eq in E1. subst. rewrite String.eqb_refl in E2. discriminate.
  - apply String.eqb_eq in E2. subst. rewrite String.eqb_refl in E1. discriminate.
Qed.

(* ------------------------------------------------------------------------------------------------ *)
(* the comparator of SortByPower                                                                     *)
(* ------------------------------------------------------------------------------------------------ *)
Lemma cand_leb_spec a b :
  cand_leb a b = true <-> (c_pow b < c_pow a \/ (c_pow a = c_pow b /\ str_leb (c_addr a) (c_addr b) = true)).
Proof.
  unfold cand_leb, cand_less, str_leb.
  destruct (c_pow b =? c_pow a) eqn:E.
  - apply Z.eqb_eq in E. split.
    + intros H. right. split; [lia | exact H].
    + intros [H|[_ H]]; [lia | exact H].
  - apply Z.eqb_neq in E. rewrite negb_true_iff, Z.ltb_ge. split.
    + intros H. left. lia.
    + intros [H|[H _]]; lia.
Qed.

Lemma cand_leb_total a b : cand_leb a b = false -> cand_leb b a = true.
Proof.
  intros H. apply cand_leb_spec.
  destruct (Z.lt_trichotomy (c_pow a) (c_pow b)) as [L|[L|L]].
  - left. exact L.
  - right. split; [lia|]. apply str_leb_total.
    destruct (str_leb (c_addr a) (c_addr b)) eqn:E; [|reflexivity].
    assert (cand_leb a b = true) by (apply cand_leb_spec; right; split; [exact L | exact E]). congruence.
  - assert (cand_leb a b = true) by (apply cand_leb_spec; left; lia). congruence.
Qed.

Lemma cand_leb_trans a b c : cand_leb a b = true -> cand_leb b c = true -> cand_leb a c = true.
Proof.
  rewrite !cand_leb_spec. intros [H1|[H1 S1]] [H2|[H2 S2]].
  - left. lia.
  - left. lia.
  - left. lia.
  - right. split; [lia|]. eapply str_leb_trans; eassumption.
Qed.

Lemma cand_leb_antisym_on cs : NoDup (map c_addr cs) -> antisym_on cand_leb cs.
Proof.
  intros Hn x y Hx Hy H1 H2. apply cand_leb_spec in H1, H2.
  assert (c_addr x = c_addr y).
  { destruct H1 as [H1|[H1 S1]], H2 as [H2|[H2 S2]]; try lia. apply str_leb_antisym; assumption. }
  eapply NoDup_map_inj_on; eassumption.
Qed.

Lemma cand_leb_pow a b : cand_leb a b = true -> c_pow b <= c_pow a.
Proof. rewrite cand_leb_spec. intros [H|[H _]]; lia. Qed.

(* ------------------------------------------------------------------------------------------------ *)
(* the comparator of the final sort in ApplyValidatorChanges                                         *)
(* ------------------------------------------------------------------------------------------------ *)
Lemma upd_leb_spec a b :
  upd_leb a b = true <-> (snd b < snd a \/ (snd a = snd b /\ str_leb (fst b) (fst a) = true)).
Proof.
  unfold upd_leb, upd_less, str_leb.
  destruct (snd b =? snd a) eqn:E; simpl.
  - apply Z.eqb_eq in E. split.
    + intros H. right. split; [lia | exact H].
    + intros [H|[_ H]]; [lia | exact H].
  - apply Z.eqb_neq in E. rewrite negb_true_iff, Z.ltb_ge. split.
    + intros H. left. lia.
    + intros [H|[H _]]; lia.
Qed.

Lemma upd_leb_total a b : upd_leb a b = false -> upd_leb b a = true.
Proof.
  intros H. apply upd_leb_spec.
  destruct (Z.lt_trichotomy (snd a) (snd b)) as [L|[L|L]].
  - left. exact L.
  - right. split; [lia|]. apply str_leb_total.
    destruct (str_leb (fst b) (fst a)) eqn:E; [|reflexivity].
    assert (upd_leb a b = true) by (apply upd_leb_spec; right; split; [exact L | exact E]). congruence.
  - assert (upd_leb a b = true) by (apply upd_leb_spec; left; lia). congruence.
Qed.

Lemma upd_leb_trans a b c : upd_leb a b = true -> upd_leb b c = true -> upd_leb a c = true.
Proof.
  rewrite !upd_leb_spec. intros [H1|[H1 S1]] [H2|[H2 S2]].
  - left. lia.
  - left. lia.
  - left. lia.
  - right. split; [lia|]. eapply str_leb_trans; eassumption.
Qed.

Lemma upd_leb_antisym l : antisym_on upd_leb l.
Proof.
  intros [k1 p1] [k2 p2] _ _ H1 H2. apply upd_leb_spec in H1, H2. simpl in *.
  destruct H1 as [H1|[H1 S1]], H2 as [H2|[H2 S2]]; try lia.
  f_equal; [apply str_leb_antisym; assumption | exact H1].
Qed.

(* the list handed to consensus depends only on the multiset of accepted changes *)
Lemma sort_upd_perm l1 l2 : Permutation l1 l2 -> isort upd_leb l1 = isort upd_leb l2.
Proof.
  intros HP. apply isort_perm_eq; [exact upd_leb_total | exact upd_leb_trans | exact HP | apply upd_leb_antisym].
Qed.

(* ------------------------------------------------------------------------------------------------ *)
(* association lists                                                                                 *)
(* ------------------------------------------------------------------------------------------------ *)
Lemma kv_get_del m k k' : kv_get (kv_del m k) k' = if String.eqb k k' then None else kv_get m k'.
Proof.
  induction m as [|[k0 v0] r IH]; simpl.
  - destruct (String.eqb k k'); reflexivity.
  - destruct (String.eqb k0 k) eqn:E0; simpl.
    + apply String.eqb_eq in E0. subst k0. rewrite IH. destruct (String.eqb k k'); reflexivity.
    + destruct (String.eqb k0 k') eqn:E1.
      * apply String.eqb_eq in E1. subst k'. rewrite string_eqb_sym, E0. reflexivity.
      * exact IH.
Qed.

Lemma kv_get_set m k v k' : kv_get (kv_set m k v) k' = if String.eqb k k' then Some v else kv_get m k'.
Proof. unfold kv_set. simpl. destruct (String.eqb k k') eqn:E; [reflexivity|]. rewrite kv_get_del, E. reflexivity. Qed.

Lemma kv_get_none m k : kv_get m k = None <-> ~ In k (map fst m).
Proof.
  induction m as [|[k0 v0] r IH]; simpl; [tauto|].
  destruct (String.eqb k0 k) eqn:E.
  - apply String.eqb_eq in E. subst. split; [discriminate | intros H; exfalso; apply H; left; reflexivity].
  - apply String.eqb_neq in E. rewrite IH. tauto.
Qed.

Lemma kv_get_some_in m k v : kv_get m k = Some v -> In (k, v) m.
Proof.
  induction m as [|[k0 v0] r IH]; simpl; [discriminate|].
  destruct (String.eqb k0 k) eqn:E.
  - apply String.eqb_eq in E. subst. intros H. inversion H. left. reflexivity.
  - intros H. right. apply IH. exact H.
Qed.

Lemma kv_in_get m k v : NoDup (map fst m) -> In (k, v) m -> kv_get m k = Some v.
Proof.
  induction m as [|[k0 v0] r IH]; simpl; intros Hn Hin; [destruct Hin|].
  inversion Hn as [|? ? Hna Hnr]; subst. destruct Hin as [Hin|Hin].
  - inversion Hin; subst. rewrite String.eqb_refl. reflexivity.
  - destruct (String.eqb k0 k) eqn:E.
    + apply String.eqb_eq in E. subst. exfalso. apply Hna. apply (in_map fst) in Hin. exact Hin.
    + apply IH; assumption.
Qed.

Lemma kv_get_perm m1 m2 k : NoDup (map fst m1) -> Permutation m1 m2 -> kv_get m1 k = kv_get m2 k.
Proof.
  intros Hn HP.
  assert (Hn2 : NoDup (map fst m2)) by (eapply Permutation_NoDup; [apply Permutation_map; exact HP | exact Hn]).
  destruct (kv_get m1 k) eqn:E1.
  - symmetry. apply kv_in_get; [exact Hn2|]. eapply Permutation_in; [exact HP|]. apply kv_get_some_in. exact E1.
  - destruct (kv_get m2 k) eqn:E2; [|reflexivity].
    apply kv_get_some_in in E2. apply Permutation_sym in HP. apply (Permutation_in _ HP) in E2.
    apply kv_in_get in E2; [congruence | exact Hn].
Qed.

Lemma kv_del_id m k : kv_get m k = None -> kv_del m k = m.
Proof.
  induction m as [|[k0 v0] r IH]; simpl; [reflexivity|].
  destruct (String.eqb k0 k) eqn:E; [discriminate|]. simpl. intros H. f_equal. apply IH. exact H.
Qed.

Lemma kv_del_keys_incl m k x : In x (map fst (kv_del m k)) -> In x (map fst m) /\ x <> k.
Proof.
  unfold kv_del. intros H. apply in_map_iff in H. destruct H as [e [He Hi]]. apply filter_In in Hi.
  destruct Hi as [Hi Hk]. split; [subst x; apply in_map; exact Hi|].
  subst x. apply negb_true_iff in Hk. apply String.eqb_neq in Hk. exact Hk.
Qed.

Lemma kv_del_nodup m k : NoDup (map fst m) -> NoDup (map fst (kv_del m k)).
Proof. apply NoDup_map_filter. Qed.

Lemma kv_set_nodup m k v : NoDup (map fst m) -> NoDup (map fst (kv_set m k v)).
Proof.
  intros H. unfold kv_set. simpl. constructor; [|apply kv_del_nodup; exact H].
  intros Hin. apply kv_del_keys_incl in Hin. destruct Hin as [_ Hne]. apply Hne. reflexivity.
Qed.

Lemma kv_mem_in k l : kv_mem k l = true <-> In k l.
Proof.
  unfold kv_mem. rewrite existsb_exists. split.
  - intros [x [Hx He]]. apply String.eqb_eq in He. subst. exact Hx.
  - intros H. exists k. split; [exact H | apply String.eqb_refl].
Qed.

Lemma kv_mem_false k l : kv_mem k l = false <-> ~ In k l.
Proof. rewrite <- kv_mem_in. destruct (kv_mem k l); split; congruence. Qed.

(* two maps without duplicate keys that agree everywhere are permutations of each other *)
Lemma kv_ext_perm m1 m2 :
  NoDup (map fst m1) -> NoDup (map fst m2) -> (forall k, kv_get m1 k = kv_get m2 k) -> Permutation m1 m2.
Proof.
  intros H1 H2 Hext. apply NoDup_Permutation.
  - eapply NoDup_map_inv. exact H1.
  - eapply NoDup_map_inv. exact H2.
  - intros [k v]. split; intros Hin.
    + apply kv_get_some_in. rewrite <- Hext. apply kv_in_get; assumption.
    + apply kv_get_some_in. rewrite Hext. apply kv_in_get; assumption.
Qed.

Lemma sum_pow_ext m1 m2 :
  NoDup (map fst m1) -> NoDup (map fst m2) -> (forall k, kv_get m1 k = kv_get m2 k) -> sum_pow m1 = sum_pow m2.
Proof.
  intros H1 H2 Hext. unfold sum_pow. apply zsum_perm. apply Permutation_map. apply kv_ext_perm; assumption.
Qed.

(* prevMap *)
Lemma prev_map_get_acc prev : forall acc k, NoDup (map fst prev) ->
  kv_get (fold_left (fun m e => kv_set m (fst e) (snd e)) prev acc) k =
  match kv_get prev k with Some v => Some v | None => kv_get acc k end.
Proof.
  induction prev as [|[k0 v0] r IH]; intros acc k Hn; simpl; [reflexivity|].
  inversion Hn as [|? ? Hna Hnr]; subst. rewrite IH by exact Hnr. rewrite kv_get_set.
  destruct (String.eqb k0 k) eqn:E.
  - apply String.eqb_eq in E. subst k0. apply kv_get_none in Hna. rewrite Hna. reflexivity.
  - reflexivity.
Qed.

Lemma prev_map_get prev k : NoDup (map fst prev) -> kv_get (prev_map prev) k = kv_get prev k.
Proof. intros Hn. unfold prev_map. rewrite prev_map_get_acc by exact Hn. destruct (kv_get prev k); reflexivity. Qed.

(* ------------------------------------------------------------------------------------------------ *)
(* the diff loop in closed form                                                                      *)
(* ------------------------------------------------------------------------------------------------ *)
Definition kvc (c : cand) : kv := (c_key c, c_pow c).
Definition pow_ok (c : cand) : bool := 1 <=? c_pow c.

(* the candidates the loop actually visits: at most n, stopping at the first power below 1 *)
Fixpoint taken (n : nat) (cs : list cand) : list cand :=
  match cs, n with
  | c :: r, S n' => if c_pow c <? 1 then [] else c :: taken n' r
  | _, _ => []
  end.

Definition changed (pm : list kv) (c : cand) : bool :=
  match kv_get pm (c_key c) with
  | Some pp => negb (pp =? c_pow c)
  | None => true
  end.

Definition dels (pm : list kv) (ks : list key) : list kv := fold_left kv_del ks pm.

Lemma diff_loop_acc n : forall cs pm res tot,
  diff_loop n cs pm res tot =
  let '(pm', r', t') := diff_loop n cs pm [] 0 in (pm', res ++ r', tot + t').
Proof.
  induction n as [|n IH]; intros cs pm res tot.
  - destruct cs as [|c r]; simpl; rewrite app_nil_r; f_equal; lia.
  - destruct cs as [|c r]; simpl; [rewrite app_nil_r; f_equal; lia|].
    destruct (c_pow c <? 1); [rewrite app_nil_r; f_equal; lia|].
    destruct (kv_get pm (c_key c)) as [pp|].
    + destruct (pp =? c_pow c).
      * rewrite (IH r (kv_del pm (c_key c)) res (tot + c_pow c)).
        rewrite (IH r (kv_del pm (c_key c)) [] (c_pow c)).
        destruct (diff_loop n r (kv_del pm (c_key c)) [] 0) as [[pm' r'] t']. simpl. f_equal; lia.
      * rewrite (IH r (kv_del pm (c_key c)) (res ++ [(c_key c, c_pow c)]) (tot + c_pow c)).
        rewrite (IH r (kv_del pm (c_key c)) [(c_key c, c_pow c)] (c_pow c)).
        destruct (diff_loop n r (kv_del pm (c_key c)) [] 0) as [[pm' r'] t']. simpl.
        rewrite <- app_assoc. simpl. f_equal; lia.
    + rewrite (IH r pm (res ++ [(c_key c, c_pow c)]) (tot + c_pow c)).
      rewrite (IH r pm [(c_key c, c_pow c)] (c_pow c)).
      destruct (diff_loop n r pm [] 0) as [[pm' r'] t'].
      simpl. rewrite <- app_assoc. simpl. f_equal; lia.
Qed.

Lemma changed_del pm k c : k <> c_key c -> changed (kv_del pm k) c = changed pm c.
Proof.
  intros H. unfold changed. rewrite kv_get_del.
  destruct (String.eqb k (c_key c)) eqn:E; [apply String.eqb_eq in E; contradiction | reflexivity].
Qed.

Lemma filter_changed_del pm k l :
  ~ In k (map c_key l) -> filter (changed (kv_del pm k)) l = filter (changed pm) l.
Proof.
  induction l as [|c r IH]; simpl; intros H; [reflexivity|].
  rewrite changed_del by (intros E; apply H; left; symmetry; exact E).
  rewrite IH by (intros E; apply H; right; exact E). reflexivity.
Qed.

Lemma diff_loop_spec n : forall cs pm,
  NoDup (map c_key (taken n cs)) ->
  diff_loop n cs pm [] 0 =
  (dels pm (map c_key (taken n cs)), map kvc (filter (changed pm) (taken n cs)), zsum (map c_pow (taken n cs))).
Proof.
  induction n as [|n IH]; intros cs pm Hn.
  - destruct cs; reflexivity.
  - destruct cs as [|c r]; [reflexivity|]. simpl in *.
    destruct (c_pow c <? 1) eqn:Ep; [reflexivity|]. simpl in Hn.
    inversion Hn as [|? ? Hna Hnr]; subst.
    unfold changed at 1. simpl.
    destruct (kv_get pm (c_key c)) as [pp|] eqn:Eg.
    + rewrite diff_loop_acc. rewrite (IH r (kv_del pm (c_key c)) Hnr).
      rewrite filter_changed_del by exact Hna.
      destruct (pp =? c_pow c); simpl; f_equal; lia.
    + rewrite diff_loop_acc. rewrite (IH r pm Hnr). simpl.
      unfold dels at 2. simpl. rewrite (kv_del_id pm (c_key c) Eg). f_equal; lia.
Qed.

Lemma kv_get_dels ks : forall pm k, kv_get (dels pm ks) k = if kv_mem k ks then None else kv_get pm k.
Proof.
  induction ks as [|k0 r IH]; intros pm k; simpl; [reflexivity|].
  unfold dels in *. simpl. rewrite IH. rewrite kv_get_del. unfold kv_mem. simpl. rewrite (string_eqb_sym k k0).
  destruct (String.eqb k0 k); simpl; destruct (existsb (String.eqb k) r); reflexivity.
Qed.

(* the removal pass in closed form *)
Lemma removal_pass_spec prev pm' ks :
  (forall k, kv_get pm' k = if kv_mem k ks then None else kv_get prev k) ->
  removal_pass prev pm' = map (fun e => (fst e, 0)) (filter (fun e => negb (kv_mem (fst e) ks)) prev).
Proof.
  intros Hpm. unfold removal_pass.
  assert (G : forall l, incl l prev ->
              flat_map (fun e => match kv_get pm' (fst e) with Some _ => [(fst e, 0)] | None => [] end) l =
              map (fun e => (fst e, 0)) (filter (fun e => negb (kv_mem (fst e) ks)) l)).
  { induction l as [|e r IH]; intros Hi; simpl; [reflexivity|].
    rewrite IH by (intros x Hx; apply Hi; right; exact Hx).
    rewrite Hpm. destruct (kv_mem (fst e) ks); simpl; [reflexivity|].
    destruct (kv_get prev (fst e)) eqn:E; [reflexivity|].
    exfalso. apply kv_get_none in E. apply E. apply in_map. apply Hi. left. reflexivity. }
  apply G. apply incl_refl.
Qed.

(* what EndBlock queues, in closed form *)
Definition res_spec (prev : list kv) (T : list cand) : list kv :=
  map kvc (filter (changed prev) T) ++
  map (fun e => (fst e, 0)) (filter (fun e => negb (kv_mem (fst e) (map c_key T))) prev).

Lemma filter_ext_in' {A} (f g : A -> bool) l : (forall x, In x l -> f x = g x) -> filter f l = filter g l.
Proof.
  induction l as [|a r IH]; simpl; intros H; [reflexivity|].
  rewrite (H a) by (left; reflexivity). rewrite IH by (intros x Hx; apply H; right; exact Hx). reflexivity.
Qed.

Lemma end_block_res_spec prev cs maxv :
  NoDup (map fst prev) ->
  NoDup (map c_key (taken maxv (sort_by_power cs))) ->
  end_block_res prev cs maxv =
  (res_spec prev (taken maxv (sort_by_power cs)), zsum (map c_pow (taken maxv (sort_by_power cs)))).
Proof.
  intros Hp Hn. unfold end_block_res. rewrite (diff_loop_spec _ _ _ Hn).
  set (T := taken maxv (sort_by_power cs)) in *.
  unfold res_spec. f_equal. f_equal.
  - f_equal. apply filter_ext_in'. intros c _. unfold changed. rewrite prev_map_get by exact Hp. reflexivity.
  - apply removal_pass_spec. intros k. rewrite kv_get_dels. rewrite prev_map_get by exact Hp. reflexivity.
Qed.

(* ---- properties of the queued list ---- *)
Lemma res_spec_in prev T k p :
  In (k, p) (res_spec prev T) <->
  ((exists c, In c T /\ kvc c = (k, p) /\ changed prev c = true) \/
   (p = 0 /\ In k (map fst prev) /\ ~ In k (map c_key T))).
Proof.
  unfold res_spec. rewrite in_app_iff. split.
  - intros [H|H].
    + apply in_map_iff in H. destruct H as [c [Hc Hi]]. apply filter_In in Hi. left. exists c. tauto.
    + apply in_map_iff in H. destruct H as [e [He Hi]]. apply filter_In in Hi. destruct Hi as [Hi Hm].
      inversion He; subst. right.
      split; [reflexivity|]. split; [apply in_map; exact Hi|].
      apply negb_true_iff in Hm. apply kv_mem_false in Hm. exact Hm.
  - intros [[c [Hc [Hk Hch]]]|[Hp [Hk Hn]]].
    + left. apply in_map_iff. exists c. split; [exact Hk|]. apply filter_In. tauto.
    + right. apply in_map_iff in Hk. destruct Hk as [e [He Hi]]. apply in_map_iff. exists e. subst.
      split; [reflexivity|].
      apply filter_In. split; [exact Hi|]. apply negb_true_iff. apply kv_mem_false. exact Hn.
Qed.

Lemma res_spec_nodup prev T :
  NoDup (map fst prev) -> NoDup (map c_key T) -> NoDup (map fst (res_spec prev T)).
Proof.
  intros Hp Ht. unfold res_spec. rewrite map_app. apply NoDup_app_disj.
  - rewrite map_map. simpl. apply NoDup_map_filter. exact Ht.
  - rewrite map_map. simpl. apply NoDup_map_filter. exact Hp.
  - intros x H1 H2. rewrite map_map in H1, H2. simpl in *.
    apply in_map_iff in H1. destruct H1 as [c [Hc Hi]]. apply filter_In in Hi.
    apply in_map_iff in H2. destruct H2 as [e [He Hj]]. apply filter_In in Hj.
    destruct Hj as [_ Hm]. apply negb_true_iff in Hm. apply kv_mem_false in Hm.
    apply Hm. rewrite He, <- Hc. apply in_map. tauto.
Qed.

(* ------------------------------------------------------------------------------------------------ *)
(* applying a change list: ApplyValidatorChanges (store) and CometBFT (consensus) do the same thing  *)
(* ------------------------------------------------------------------------------------------------ *)
Definition apply_one (vals : list kv) (e : kv) : list kv :=
  if snd e =? 0 then kv_del vals (fst e) else kv_set vals (fst e) (snd e).
Definition apply_map (vals chs : list kv) : list kv := fold_left apply_one chs vals.

(* a change consensus accepts: a positive power, or the removal of a known key *)
Definition valid_change (vals : list kv) (e : kv) : Prop :=
  1 <= snd e \/ (snd e = 0 /\ kv_get vals (fst e) <> None).

Lemma apply_one_get vals e k :
  kv_get (apply_one vals e) k =
  if String.eqb (fst e) k then (if snd e =? 0 then None else Some (snd e)) else kv_get vals k.
Proof.
  unfold apply_one. destruct (snd e =? 0); [rewrite kv_get_del | rewrite kv_get_set]; reflexivity.
Qed.

Lemma valid_change_step vals e r :
  ~ In (fst e) (map fst r) -> Forall (valid_change vals) r -> Forall (valid_change (apply_one vals e)) r.
Proof.
  intros Hn Hf. rewrite Forall_forall in *. intros x Hx. specialize (Hf x Hx).
  destruct Hf as [Hf|[Hf1 Hf2]]; [left; exact Hf | right]. split; [exact Hf1|].
  rewrite apply_one_get. destruct (String.eqb (fst e) (fst x)) eqn:E; [|exact Hf2].
  apply String.eqb_eq in E. exfalso. apply Hn. rewrite E. apply in_map. exact Hx.
Qed.

Lemma apply_changes_ok norev : forall chs vals ret,
  NoDup (map fst chs) -> Forall (valid_change vals) chs ->
  (forall k, In k (map fst chs) -> kv_mem k norev = false) ->
  apply_changes norev vals chs ret = (apply_map vals chs, ret ++ chs).
Proof.
  induction chs as [|[k p] r IH]; intros vals ret Hn Hv Hr; simpl.
  - rewrite app_nil_r. reflexivity.
  - inversion Hn as [|? ? Hna Hnr]; subst. inversion Hv as [|? ? Hv1 Hvr]; subst.
    assert (Hr' : forall k0, In k0 (map fst r) -> kv_mem k0 norev = false) by (intros k0 H0; apply Hr; right; exact H0).
    assert (Hk : kv_mem k norev = false) by (apply Hr; left; reflexivity).
    assert (Hstep : Forall (valid_change (apply_one vals (k, p))) r) by (apply valid_change_step; assumption).
    unfold apply_map. simpl. fold (apply_map (apply_one vals (k, p)) r).
    unfold valid_change in Hv1. simpl in Hv1. unfold apply_one in *. simpl in *.
    destruct Hv1 as [Hp|[Hp Hg]].
    + assert (E0 : (p =? 0) = false) by (apply Z.eqb_neq; lia). rewrite E0 in *.
      destruct (kv_get vals k).
      * assert (E1 : (p <? 1) = false) by (apply Z.ltb_ge; lia). rewrite E1, Hk.
        rewrite IH by assumption. rewrite <- app_assoc. reflexivity.
      * assert (E1 : (0 <? p) = true) by (apply Z.ltb_lt; lia). rewrite E1.
        rewrite IH by assumption. rewrite <- app_assoc. reflexivity.
    + subst p. simpl in *. destruct (kv_get vals k); [|congruence].
      rewrite IH by assumption. rewrite <- app_assoc. reflexivity.
Qed.

Lemma cmt_apply_ok : forall chs vals seen,
  NoDup (map fst chs) -> Forall (valid_change vals) chs ->
  (forall k, In k (map fst chs) -> kv_mem k seen = false) ->
  cmt_apply vals chs seen = Some (apply_map vals chs).
Proof.
  induction chs as [|[k p] r IH]; intros vals seen Hn Hv Hs; simpl; [reflexivity|].
  inversion Hn as [|? ? Hna Hnr]; subst. inversion Hv as [|? ? Hv1 Hvr]; subst.
  assert (Hk : kv_mem k seen = false) by (apply Hs; left; reflexivity). rewrite Hk.
  assert (Hs' : forall k0, In k0 (map fst r) -> kv_mem k0 (k :: seen) = false).
  { intros k0 H0. unfold kv_mem. simpl. apply orb_false_iff. split.
    - apply String.eqb_neq. intros E. subst k0. contradiction.
    - apply Hs. right. exact H0. }
  assert (Hstep : Forall (valid_change (apply_one vals (k, p))) r) by (apply valid_change_step; assumption).
  unfold apply_map. simpl. fold (apply_map (apply_one vals (k, p)) r).
  unfold valid_change in Hv1. simpl in Hv1. unfold apply_one in *. simpl in *.
  destruct Hv1 as [Hp|[Hp Hg]].
  - assert (E0 : (p =? 0) = false) by (apply Z.eqb_neq; lia). rewrite E0 in *.
    assert (E1 : (p <? 0) = false) by (apply Z.ltb_ge; lia). rewrite E1.
    apply IH; assumption.
  - subst p. simpl in *. destruct (kv_get vals k); [|congruence]. apply IH; assumption.
Qed.

Lemma apply_map_get : forall chs vals k,
  NoDup (map fst chs) ->
  kv_get (apply_map vals chs) k =
  match kv_get chs k with
  | Some p => if p =? 0 then None else Some p
  | None => kv_get vals k
  end.
Proof.
  induction chs as [|[k0 p0] r IH]; intros vals k Hn; simpl; [reflexivity|].
  inversion Hn as [|? ? Hna Hnr]; subst.
  unfold apply_map. simpl. fold (apply_map (apply_one vals (k0, p0)) r).
  rewrite IH by exact Hnr. rewrite apply_one_get. simpl.
  destruct (String.eqb k0 k) eqn:E; [|reflexivity].
  apply String.eqb_eq in E. subst k0. apply kv_get_none in Hna. rewrite Hna. reflexivity.
Qed.

Lemma apply_map_nodup : forall chs vals, NoDup (map fst vals) -> NoDup (map fst (apply_map vals chs)).
Proof.
  induction chs as [|e r IH]; intros vals Hn; simpl; [exact Hn|].
  unfold apply_map. simpl. apply IH. unfold apply_one.
  destruct (snd e =? 0); [apply kv_del_nodup | apply kv_set_nodup]; exact Hn.
Qed.

Lemma valid_change_perm vals l1 l2 :
  Permutation l1 l2 -> Forall (valid_change vals) l1 -> Forall (valid_change vals) l2.
Proof. intros HP H. eapply Permutation_Forall; eassumption. Qed.

(* ------------------------------------------------------------------------------------------------ *)
(* the visited candidates are the eligible top set                                                   *)
(* ------------------------------------------------------------------------------------------------ *)
Lemma pow_ok_ltb c : (c_pow c <? 1) = negb (pow_ok c).
Proof. unfold pow_ok. rewrite Z.leb_antisym. rewrite negb_involutive. reflexivity. Qed.

Lemma taken_take_while n : forall l, taken n l = take_while pow_ok (firstn n l).
Proof.
  induction n as [|n IH]; intros l; destruct l as [|c r]; simpl; try reflexivity.
  rewrite pow_ok_ltb. destruct (pow_ok c); simpl; [f_equal; apply IH | reflexivity].
Qed.

Lemma pow_ok_up x y : cand_leb x y = true -> pow_ok y = true -> pow_ok x = true.
Proof. intros H Hy. apply cand_leb_pow in H. unfold pow_ok in *. apply Z.leb_le in Hy. apply Z.leb_le. lia. Qed.

Lemma taken_top_k n cs : NoDup (map c_addr cs) -> taken n (sort_by_power cs) = top_k n cs.
Proof.
  intros Hn. rewrite taken_take_while, take_while_firstn. unfold top_k, sort_by_power, eligible.
  rewrite (take_while_filter cand_leb pow_ok (isort cand_leb cs)
             (isort_sorted cand_leb cand_leb_total cand_leb_trans cs) pow_ok_up).
  rewrite (filter_isort cand_leb cand_leb_total cand_leb_trans pow_ok cs (cand_leb_antisym_on cs Hn)).
  reflexivity.
Qed.

Lemma top_k_in n cs c : In c (top_k n cs) -> In c cs /\ 1 <= c_pow c.
Proof.
  unfold top_k, sort_by_power, eligible. intros H. apply In_firstn in H.
  apply (Permutation_in _ (isort_perm cand_leb _)) in H. apply filter_In in H.
  destruct H as [H1 H2]. split; [exact H1 | apply Z.leb_le; exact H2].
Qed.

Lemma top_k_nodup_keys n cs : NoDup (map c_key cs) -> NoDup (map c_key (top_k n cs)).
Proof.
  intros Hn. unfold top_k, sort_by_power, eligible. rewrite <- firstn_map. apply NoDup_firstn.
  eapply Permutation_NoDup; [apply Permutation_map, Permutation_sym, isort_perm|].
  apply NoDup_map_filter. exact Hn.
Qed.

Lemma top_k_perm n cs cs' : NoDup (map c_addr cs) -> Permutation cs cs' -> top_k n cs = top_k n cs'.
Proof.
  intros Hn HP. unfold top_k, sort_by_power, eligible. f_equal.
  apply isort_perm_eq; [exact cand_leb_total | exact cand_leb_trans | apply filter_perm; exact HP |].
  eapply antisym_on_incl; [|apply cand_leb_antisym_on; exact Hn].
  intros x Hx. apply filter_In in Hx. tauto.
Qed.

Lemma map_fst_kvc T : map fst (map kvc T) = map c_key T.
Proof. rewrite map_map. reflexivity. Qed.

(* ------------------------------------------------------------------------------------------------ *)
(* previous set + queued changes = target                                                           *)
(* ------------------------------------------------------------------------------------------------ *)
Lemma res_spec_valid prev T :
  (forall c, In c T -> 1 <= c_pow c) -> Forall (valid_change prev) (res_spec prev T).
Proof.
  intros Hpow. apply Forall_forall. intros [k p] Hin. apply res_spec_in in Hin.
  destruct Hin as [[c [Hc [Hk _]]]|[Hp [Hk _]]].
  - left. inversion Hk; subst. simpl. apply Hpow. exact Hc.
  - right. simpl. split; [exact Hp|]. intros E. apply kv_get_none in E. contradiction.
Qed.

Lemma res_spec_apply_get prev T k :
  NoDup (map fst prev) -> NoDup (map c_key T) -> (forall c, In c T -> 1 <= c_pow c) ->
  match kv_get (res_spec prev T) k with
  | Some p => if p =? 0 then None else Some p
  | None => kv_get prev k
  end = kv_get (map kvc T) k.
Proof.
  intros Hp Ht Hpow.
  pose proof (res_spec_nodup prev T Hp Ht) as HnR.
  assert (HnT : NoDup (map fst (map kvc T))) by (rewrite map_fst_kvc; exact Ht).
  destruct (kv_get (map kvc T) k) as [p|] eqn:ET.
  - apply kv_get_some_in in ET. apply in_map_iff in ET. destruct ET as [c [Hc Hin]].
    assert (Hp1 : 1 <= p) by (inversion Hc; subst; apply Hpow; exact Hin).
    destruct (changed prev c) eqn:Ech.
    + assert (HinR : In (k, p) (res_spec prev T)) by (apply res_spec_in; left; exists c; tauto).
      rewrite (kv_in_get _ _ _ HnR HinR).
      assert (E0 : (p =? 0) = false) by (apply Z.eqb_neq; lia). rewrite E0. reflexivity.
    + assert (EN : kv_get (res_spec prev T) k = None).
      { apply kv_get_none. intros Hk. apply in_map_iff in Hk. destruct Hk as [[k' q] [Hk' HinR]].
        simpl in Hk'. subst k'. apply res_spec_in in HinR.
        destruct HinR as [[c' [Hc' [Hkq Hch']]]|[_ [_ Hnk]]].
        - assert (c' = c).
          { eapply NoDup_map_inj_on; [exact Ht | exact Hc' | exact Hin |].
            inversion Hc; inversion Hkq; congruence. }
          subst c'. congruence.
        - apply Hnk. inversion Hc; subst. apply in_map. exact Hin. }
      rewrite EN. unfold changed in Ech. inversion Hc; subst.
      destruct (kv_get prev (c_key c)) as [pp|]; [|discriminate].
      apply negb_false_iff in Ech. apply Z.eqb_eq in Ech. subst. reflexivity.
  - apply kv_get_none in ET. rewrite map_fst_kvc in ET.
    destruct (kv_get prev k) as [v|] eqn:EP.
    + assert (HinR : In (k, 0) (res_spec prev T)).
      { apply res_spec_in. right. split; [reflexivity|]. split; [|exact ET].
        apply kv_get_some_in in EP. apply (in_map fst) in EP. exact EP. }
      rewrite (kv_in_get _ _ _ HnR HinR). reflexivity.
    + assert (EN : kv_get (res_spec prev T) k = None).
      { apply kv_get_none. intros Hk. apply in_map_iff in Hk. destruct Hk as [[k' q] [Hk' HinR]].
        simpl in Hk'. subst k'. apply res_spec_in in HinR.
        destruct HinR as [[c' [Hc' [Hkq _]]]|[_ [Hpk _]]].
        - apply ET. inversion Hkq; subst. apply in_map. exact Hc'.
        - apply kv_get_none in EP. contradiction. }
      rewrite EN. reflexivity.
Qed.

(* no zero-power additions, no unknown removals *)
Lemma res_spec_entries prev T k p :
  (forall c, In c T -> 1 <= c_pow c) -> In (k, p) (res_spec prev T) ->
  1 <= p \/ (p = 0 /\ kv_get prev k <> None).
Proof.
  intros Hpow Hin. pose proof (res_spec_valid prev T Hpow) as Hv. rewrite Forall_forall in Hv.
  exact (Hv (k, p) Hin).
Qed.

(* ------------------------------------------------------------------------------------------------ *)
(* well-formedness (boolean) and the main lemmas about end_block_diff                                *)
(* ------------------------------------------------------------------------------------------------ *)
Lemma nodupb_spec l : nodupb l = true <-> NoDup l.
Proof.
  induction l as [|x r IH]; simpl; [split; [constructor | reflexivity]|].
  rewrite andb_true_iff, negb_true_iff, kv_mem_false, IH. split.
  - intros [H1 H2]. constructor; assumption.
  - intros H. inversion H; subst. tauto.
Qed.

(* the previous set is a store (one entry per key); candidates come from a store keyed by operator address and,
   by the consensus-key registry (C07), no two operators share a key *)
Definition wf_prev (prev : list kv) : bool := nodupb (map fst prev).
Definition wf_cands (cs : list cand) : bool := nodupb (map c_addr cs) && nodupb (map c_key cs).

Lemma wf_prev_spec prev : wf_prev prev = true -> NoDup (map fst prev).
Proof. apply nodupb_spec. Qed.
Lemma wf_cands_spec cs : wf_cands cs = true -> NoDup (map c_addr cs) /\ NoDup (map c_key cs).
Proof. unfold wf_cands. rewrite andb_true_iff, !nodupb_spec. tauto. Qed.

Lemma end_block_res_top prev cs maxv :
  wf_prev prev = true -> wf_cands cs = true ->
  end_block_res prev cs maxv = (res_spec prev (top_k maxv cs), sum_pow (target maxv cs)).
Proof.
  intros Hp Hc. apply wf_prev_spec in Hp. apply wf_cands_spec in Hc. destruct Hc as [Ha Hk].
  rewrite end_block_res_spec; [|exact Hp | rewrite taken_top_k by exact Ha; apply top_k_nodup_keys; exact Hk].
  rewrite taken_top_k by exact Ha. unfold sum_pow, target. rewrite map_map. reflexivity.
Qed.

Lemma apply_changes_top norev prev cs maxv :
  wf_prev prev = true -> wf_cands cs = true ->
  (forall c, In c cs -> kv_mem (c_key c) norev = false) ->
  (forall k, In k (map fst prev) -> kv_mem k norev = false) ->
  apply_changes norev prev (res_spec prev (top_k maxv cs)) [] =
  (apply_map prev (res_spec prev (top_k maxv cs)), res_spec prev (top_k maxv cs)).
Proof.
  intros Hp Hc Hr1 Hr2. apply wf_prev_spec in Hp. apply wf_cands_spec in Hc. destruct Hc as [Ha Hk].
  rewrite apply_changes_ok; [reflexivity | | |].
  - apply res_spec_nodup; [exact Hp | apply top_k_nodup_keys; exact Hk].
  - apply res_spec_valid. intros c Hin. apply top_k_in in Hin. tauto.
  - intros k Hin. apply in_map_iff in Hin. destruct Hin as [[k' p] [Hk' Hin]]. simpl in Hk'. subst k'.
    apply res_spec_in in Hin. destruct Hin as [[c [Hcin [Hkc _]]]|[_ [Hpk _]]].
    + inversion Hkc; subst. apply Hr1. apply top_k_in in Hcin. tauto.
    + apply Hr2. exact Hpk.
Qed.

Lemma end_block_diff_eq prev cs maxv :
  wf_prev prev = true -> wf_cands cs = true ->
  end_block_diff prev cs maxv = isort upd_leb (res_spec prev (top_k maxv cs)).
Proof.
  intros Hp Hc. unfold end_block_diff. rewrite end_block_res_top by assumption. simpl.
  rewrite apply_changes_top; try assumption; reflexivity.
Qed.

Lemma upd_perm prev cs maxv :
  Permutation (isort upd_leb (res_spec prev (top_k maxv cs))) (res_spec prev (top_k maxv cs)).
Proof. apply isort_perm. Qed.

Lemma diff_in prev cs maxv k p :
  wf_prev prev = true -> wf_cands cs = true ->
  (In (k, p) (end_block_diff prev cs maxv) <-> In (k, p) (res_spec prev (top_k maxv cs))).
Proof.
  intros Hp Hc. rewrite end_block_diff_eq by assumption. split; intros H.
  - eapply Permutation_in; [apply upd_perm | exact H].
  - eapply Permutation_in; [apply Permutation_sym, upd_perm | exact H].
Qed.

Lemma diff_nodup prev cs maxv :
  wf_prev prev = true -> wf_cands cs = true -> NoDup (map fst (end_block_diff prev cs maxv)).
Proof.
  intros Hp Hc. rewrite end_block_diff_eq by assumption.
  eapply Permutation_NoDup; [apply Permutation_map, Permutation_sym, upd_perm|].
  apply wf_prev_spec in Hp. apply wf_cands_spec in Hc.
  apply res_spec_nodup; [exact Hp | apply top_k_nodup_keys; tauto].
Qed.

Lemma diff_result prev cs maxv :
  wf_prev prev = true -> wf_cands cs = true ->
  cmt_apply prev (end_block_diff prev cs maxv) [] = Some (apply_map prev (end_block_diff prev cs maxv)) /\
  (forall k, kv_get (apply_map prev (end_block_diff prev cs maxv)) k = kv_get (target maxv cs) k) /\
  (forall k, kv_get (apply_map prev (res_spec prev (top_k maxv cs))) k = kv_get (target maxv cs) k).
Proof.
  intros Hp Hc. pose proof (diff_nodup prev cs maxv Hp Hc) as HnD.
  rewrite end_block_diff_eq in * by assumption.
  pose proof (wf_prev_spec _ Hp) as Hp'. pose proof (wf_cands_spec _ Hc) as [Ha Hk].
  assert (HnT : NoDup (map c_key (top_k maxv cs))) by (apply top_k_nodup_keys; exact Hk).
  assert (Hpow : forall c, In c (top_k maxv cs) -> 1 <= c_pow c) by (intros c Hin; apply top_k_in in Hin; tauto).
  pose proof (res_spec_nodup prev _ Hp' HnT) as HnR.
  split; [|split].
  - apply cmt_apply_ok; [exact HnD | | intros; reflexivity].
    eapply valid_change_perm; [apply Permutation_sym, upd_perm | apply res_spec_valid; exact Hpow].
  - intros k. rewrite apply_map_get by exact HnD.
    rewrite <- (kv_get_perm _ _ k HnR (Permutation_sym (upd_perm prev cs maxv))).
    apply res_spec_apply_get; assumption.
  - intros k. rewrite apply_map_get by exact HnR. apply res_spec_apply_get; assumption.
Qed.

Lemma target_nodup maxv cs : wf_cands cs = true -> NoDup (map fst (target maxv cs)).
Proof.
  intros Hc. apply wf_cands_spec in Hc. unfold target. rewrite map_map. simpl.
  apply top_k_nodup_keys. tauto.
Qed.

(* ------------------------------------------------------------------------------------------------ *)
(* canonical order                                                                                   *)
(* ------------------------------------------------------------------------------------------------ *)
Lemma wf_prev_perm prev prev' : Permutation prev prev' -> wf_prev prev = true -> wf_prev prev' = true.
Proof.
  intros HP H. apply nodupb_spec. apply nodupb_spec in H.
  eapply Permutation_NoDup; [apply Permutation_map; exact HP | exact H].
Qed.

Lemma wf_cands_perm cs cs' : Permutation cs cs' -> wf_cands cs = true -> wf_cands cs' = true.
Proof.
  intros HP H. apply wf_cands_spec in H. destruct H as [H1 H2]. unfold wf_cands.
  apply andb_true_iff. split; apply nodupb_spec.
  - eapply Permutation_NoDup; [apply Permutation_map; exact HP | exact H1].
  - eapply Permutation_NoDup; [apply Permutation_map; exact HP | exact H2].
Qed.

Lemma res_spec_perm prev prev' T :
  NoDup (map fst prev) -> Permutation prev prev' -> Permutation (res_spec prev T) (res_spec prev' T).
Proof.
  intros Hn HP. unfold res_spec. apply Permutation_app.
  - assert (E : filter (changed prev) T = filter (changed prev') T).
    { apply filter_ext_in'. intros c _. unfold changed. rewrite (kv_get_perm _ _ (c_key c) Hn HP). reflexivity. }
    rewrite E. apply Permutation_refl.
  - apply Permutation_map. apply filter_perm. exact HP.
Qed.

Lemma diff_perm_invariant prev prev' cs cs' maxv :
  wf_prev prev = true -> wf_cands cs = true -> Permutation prev prev' -> Permutation cs cs' ->
  end_block_diff prev cs maxv = end_block_diff prev' cs' maxv.
Proof.
  intros Hp Hc HPp HPc.
  rewrite (end_block_diff_eq prev cs maxv Hp Hc).
  rewrite (end_block_diff_eq prev' cs' maxv (wf_prev_perm _ _ HPp Hp) (wf_cands_perm _ _ HPc Hc)).
  apply wf_cands_spec in Hc. destruct Hc as [Ha _].
  rewrite <- (top_k_perm maxv cs cs' Ha HPc).
  apply sort_upd_perm. apply res_spec_perm; [apply wf_prev_spec; exact Hp | exact HPp].
Qed.

Lemma sorted_strict l : StronglySorted (le upd_leb) l -> NoDup (map fst l) -> strictly_sorted l = true.
Proof.
  induction 1 as [|a r Hr IH Hall]; intros Hn; [reflexivity|].
  simpl in Hn. inversion Hn as [|? ? Hna Hnr]; subst. simpl.
  destruct r as [|b r']; [reflexivity|]. apply andb_true_iff. split; [|apply IH; exact Hnr].
  rewrite Forall_forall in Hall. assert (Hab : upd_leb a b = true) by (apply Hall; left; reflexivity).
  unfold upd_leb in Hab. fold (upd_leb a b) in Hab.
  destruct (upd_less a b) eqn:E; [reflexivity|]. exfalso.
  assert (Hba : upd_leb b a = true) by (unfold upd_leb; rewrite E; reflexivity).
  assert (a = b) by (apply (upd_leb_antisym [a; b]); simpl; auto).
  subst b. apply Hna. left. reflexivity.
Qed.

Lemma diff_strictly_sorted prev cs maxv :
  wf_prev prev = true -> wf_cands cs = true -> strictly_sorted (end_block_diff prev cs maxv) = true.
Proof.
  intros Hp Hc. apply sorted_strict; [|apply diff_nodup; assumption].
  rewrite end_block_diff_eq by assumption. apply isort_sorted; [exact upd_leb_total | exact upd_leb_trans].
Qed.

(* ------------------------------------------------------------------------------------------------ *)
(* EndBlock on the dogfood state                                                                     *)
(* ------------------------------------------------------------------------------------------------ *)
Definition norev_ok (norev : list key) (prev : list kv) (cs : list cand) : bool :=
  forallb (fun k => negb (kv_mem k norev)) (map fst prev ++ map c_key cs).

Lemma norev_ok_spec norev prev cs : norev_ok norev prev cs = true ->
  (forall c, In c cs -> kv_mem (c_key c) norev = false) /\ (forall k, In k (map fst prev) -> kv_mem k norev = false).
Proof.
  unfold norev_ok. rewrite forallb_forall. intros H. split.
  - intros c Hc. apply negb_true_iff. apply H. apply in_or_app. right. apply in_map. exact Hc.
  - intros k Hk. apply negb_true_iff. apply H. apply in_or_app. left. exact Hk.
Qed.

Lemma norev_ok_nil prev cs : norev_ok [] prev cs = true.
Proof. unfold norev_ok. apply forallb_forall. intros; reflexivity. Qed.

Definition state_ok (st : dstate) : bool :=
  wf_prev (d_vals st) && (d_total st =? sum_pow (d_vals st)).

Lemma end_block_epoch st cs maxv norev :
  d_marker st = true -> wf_prev (d_vals st) = true -> wf_cands cs = true ->
  norev_ok norev (d_vals st) cs = true ->
  let out := fst (end_block st (Some cs) maxv norev) in
  let st' := snd (end_block st (Some cs) maxv norev) in
  out = end_block_diff (d_vals st) cs maxv /\
  d_upd st' = out /\ d_marker st' = false /\
  d_vals st' = apply_map (d_vals st) (res_spec (d_vals st) (top_k maxv cs)) /\
  (forall k, kv_get (d_vals st') k = kv_get (target maxv cs) k) /\
  wf_prev (d_vals st') = true /\
  (d_total st = sum_pow (d_vals st) -> d_total st' = sum_pow (d_vals st')).
Proof.
  intros Hm Hp Hc Hr. apply norev_ok_spec in Hr. destruct Hr as [Hr1 Hr2].
  unfold end_block. rewrite Hm. simpl negb. cbv iota.
  rewrite end_block_res_top by assumption.
  rewrite apply_changes_top by assumption. simpl.
  pose proof (diff_result (d_vals st) cs maxv Hp Hc) as [_ [_ Hget]].
  assert (Hnd : NoDup (map fst (apply_map (d_vals st) (res_spec (d_vals st) (top_k maxv cs))))).
  { apply apply_map_nodup. apply wf_prev_spec. exact Hp. }
  split; [symmetry; apply end_block_diff_eq; assumption|].
  split; [reflexivity|]. split; [reflexivity|]. split; [reflexivity|].
  split; [exact Hget|]. split; [apply nodupb_spec; exact Hnd|].
  intros Htot. destruct (res_spec (d_vals st) (top_k maxv cs)) eqn:ER.
  - simpl. exact Htot.
  - symmetry. apply sum_pow_ext; [exact Hnd | apply target_nodup; exact Hc | exact Hget].
Qed.

Lemma end_block_other st cands maxv norev :
  d_marker st = false ->
  end_block st cands maxv norev = ([], mkD (d_vals st) (d_total st) [] false).
Proof. intros H. unfold end_block. rewrite H. reflexivity. Qed.

(* ---- histories of blocks ---- *)
Record blk := mkBlk { b_epoch_end : bool; b_cands : list cand; b_max : nat }.

Definition blk_step (st : dstate) (b : blk) : dstate :=
  snd (end_block (if b_epoch_end b then mark_epoch_end st else st) (Some (b_cands b)) (b_max b) []).
Definition blk_out (st : dstate) (b : blk) : list kv :=
  fst (end_block (if b_epoch_end b then mark_epoch_end st else st) (Some (b_cands b)) (b_max b) []).

Definition blks_ok (bs : list blk) : bool := forallb (fun b => wf_cands (b_cands b)) bs.

Definition inv (st : dstate) : Prop :=
  wf_prev (d_vals st) = true /\ d_total st = sum_pow (d_vals st) /\ d_marker st = false.

Lemma blk_step_inv st b : inv st -> wf_cands (b_cands b) = true -> inv (blk_step st b).
Proof.
  intros [Hw [Ht Hm]] Hc. unfold blk_step. destruct (b_epoch_end b).
  - pose proof (end_block_epoch (mark_epoch_end st) (b_cands b) (b_max b) [] eq_refl Hw Hc (norev_ok_nil _ _))
      as [_ [_ [Hm' [_ [_ [Hw' Ht']]]]]].
    split; [exact Hw'|]. split; [apply Ht'; exact Ht | exact Hm'].
  - rewrite end_block_other by exact Hm. simpl. split; [exact Hw|]. split; [exact Ht | reflexivity].
Qed.

Lemma run_inv bs : forall st, inv st -> blks_ok bs = true -> inv (fold_left blk_step bs st).
Proof.
  induction bs as [|b r IH]; intros st Hi Hb; simpl; [exact Hi|].
  simpl in Hb. apply andb_true_iff in Hb. destruct Hb as [Hb1 Hb2].
  apply IH; [apply blk_step_inv; assumption | exact Hb2].
Qed.

(* ---- exactly the changes, nothing superfluous ---- *)
Lemma res_spec_exact prev T k p :
  NoDup (map c_key T) ->
  (In (k, p) (res_spec prev T) <->
   ((kv_get (map kvc T) k = Some p /\ kv_get prev k <> Some p) \/
    (p = 0 /\ kv_get prev k <> None /\ kv_get (map kvc T) k = None))).
Proof.
  intros Ht. assert (HnT : NoDup (map fst (map kvc T))) by (rewrite map_fst_kvc; exact Ht).
  rewrite res_spec_in. split.
  - intros [[c [Hc [Hk Hch]]]|[Hp [Hk Hn]]].
    + left. split.
      * apply kv_in_get; [exact HnT|]. apply in_map_iff. exists c. tauto.
      * unfold changed in Hch. inversion Hk; subst. destruct (kv_get prev (c_key c)) as [pp|]; [|discriminate].
        apply negb_true_iff in Hch. apply Z.eqb_neq in Hch. congruence.
    + right. split; [exact Hp|]. split.
      * intros E. apply kv_get_none in E. contradiction.
      * apply kv_get_none. rewrite map_fst_kvc. exact Hn.
  - intros [[Hg Hne]|[Hp [Hk Hn]]].
    + left. apply kv_get_some_in in Hg. apply in_map_iff in Hg. destruct Hg as [c [Hc Hin]].
      exists c. split; [exact Hin|]. split; [exact Hc|]. unfold changed. inversion Hc; subst.
      destruct (kv_get prev (c_key c)) as [pp|]; [|reflexivity].
      apply negb_true_iff. apply Z.eqb_neq. congruence.
    + right. split; [exact Hp|]. split.
      * destruct (kv_get prev k) eqn:E; [|congruence]. apply kv_get_some_in in E. apply (in_map fst) in E. exact E.
      * apply kv_get_none in Hn. rewrite map_fst_kvc in Hn. exact Hn.
Qed.

Lemma diff_exact prev cs maxv k p :
  wf_prev prev = true -> wf_cands cs = true ->
  (In (k, p) (end_block_diff prev cs maxv) <->
   ((kv_get (target maxv cs) k = Some p /\ kv_get prev k <> Some p) \/
    (p = 0 /\ kv_get prev k <> None /\ kv_get (target maxv cs) k = None))).
Proof.
  intros Hp Hc. rewrite diff_in by assumption. apply res_spec_exact.
  apply top_k_nodup_keys. apply wf_cands_spec in Hc. tauto.
Qed.

(* ---- consensus and the application never drift apart, over any history ---- *)
Lemma cmt_apply_ext c prev chs :
  (forall k, kv_get c k = kv_get prev k) ->
  NoDup (map fst chs) -> Forall (valid_change prev) chs ->
  cmt_apply c chs [] = Some (apply_map c chs) /\
  (forall k, kv_get (apply_map c chs) k = kv_get (apply_map prev chs) k).
Proof.
  intros Hext Hn Hv. split.
  - apply cmt_apply_ok; [exact Hn | | intros; reflexivity].
    rewrite Forall_forall in *. intros e He. specialize (Hv e He). unfold valid_change in *. rewrite Hext. exact Hv.
  - intros k. rewrite !apply_map_get by exact Hn. destruct (kv_get chs k); [reflexivity | apply Hext].
Qed.

Definition cons_step (cons : option (list kv)) (out : list kv) : option (list kv) :=
  match cons with
  | Some c => cmt_apply c out []
  | None => None
  end.

Fixpoint run (st : dstate) (cons : option (list kv)) (bs : list blk) : dstate * option (list kv) :=
  match bs with
  | [] => (st, cons)
  | b :: r => run (blk_step st b) (cons_step cons (blk_out st b)) r
  end.

Definition in_sync (st : dstate) (cons : option (list kv)) : Prop :=
  exists c, cons = Some c /\ forall k, kv_get c k = kv_get (d_vals st) k.

Lemma blk_sync st cons b :
  inv st -> in_sync st cons -> wf_cands (b_cands b) = true ->
  in_sync (blk_step st b) (cons_step cons (blk_out st b)).
Proof.
  intros [Hw [Ht Hm]] [c [Hc Hext]] Hwc. subst cons. unfold blk_step, blk_out. destruct (b_epoch_end b).
  - pose proof (end_block_epoch (mark_epoch_end st) (b_cands b) (b_max b) [] eq_refl Hw Hwc (norev_ok_nil _ _))
      as [Hout [_ [_ [Hvals [Hget _]]]]].
    simpl in Hout, Hvals, Hget. simpl cons_step. rewrite Hout.
    pose proof (diff_nodup (d_vals st) (b_cands b) (b_max b) Hw Hwc) as Hnd.
    pose proof (diff_result (d_vals st) (b_cands b) (b_max b) Hw Hwc) as [_ [Hg1 _]].
    assert (Hv : Forall (valid_change (d_vals st)) (end_block_diff (d_vals st) (b_cands b) (b_max b))).
    { rewrite end_block_diff_eq by assumption.
      eapply valid_change_perm; [apply Permutation_sym, upd_perm|].
      apply res_spec_valid. intros x Hx. apply top_k_in in Hx. tauto. }
    destruct (cmt_apply_ext c (d_vals st) _ Hext Hnd Hv) as [Hs He].
    exists (apply_map c (end_block_diff (d_vals st) (b_cands b) (b_max b))). split; [exact Hs|].
    intros k. rewrite He, Hg1. symmetry. apply Hget.
  - rewrite end_block_other by exact Hm. simpl. exists c. split; [reflexivity | exact Hext].
Qed.

Lemma run_sync bs : forall st cons,
  inv st -> in_sync st cons -> blks_ok bs = true ->
  inv (fst (run st cons bs)) /\ in_sync (fst (run st cons bs)) (snd (run st cons bs)).
Proof.
  induction bs as [|b r IH]; intros st cons Hi Hs Hb; simpl; [split; assumption|].
  simpl in Hb. apply andb_true_iff in Hb. destruct Hb as [Hb1 Hb2].
  apply IH; [apply blk_step_inv; assumption | apply blk_sync; assumption | exact Hb2].
Qed.

Lemma run_fst bs : forall st cons, fst (run st cons bs) = fold_left blk_step bs st.
Proof. induction bs as [|b r IH]; intros st cons; simpl; [reflexivity | apply IH]. Qed.

(* ------------------------------------------------------------------------------------------------ *)
(* from the operator registry to the candidates: eligibility as the statement words it               *)
(* ------------------------------------------------------------------------------------------------ *)
Lemma cands_of_cons o r :
  cands_of (o :: r) =
  match o_key o with
  | None => cands_of r
  | Some k =>
      if negb (is_active o) then cands_of r
      else if negb (o_has_usd o) then CandsErr
      else if (max_int64 <? dec_trunc_int (o_active o)) || (dec_trunc_int (o_active o) <? - max_int64 - 1) then CandsPanic
      else match cands_of r with
           | CandsOk l => CandsOk (mkCand (o_addr o) k (dec_trunc_int (o_active o)) :: l)
           | e => e
           end
  end.
Proof. reflexivity. Qed.

Lemma eligible_opers_cons o r :
  eligible_opers (o :: r) =
  match o_key o with
  | None => []
  | Some k =>
      if o_has_opt o && o_opted_in o && negb (o_jailed o) && o_has_usd o && (1 <=? dec_trunc_int (o_active o))
      then [mkCand (o_addr o) k (dec_trunc_int (o_active o))] else []
  end ++ eligible_opers r.
Proof. reflexivity. Qed.

Ltac dif H := match type of H with context [if ?b then _ else _] => destruct b eqn:? end.

Lemma cands_of_eligible : forall os cs, cands_of os = CandsOk cs -> eligible cs = eligible_opers os.
Proof.
  induction os as [|o r IH]; intros cs H.
  - simpl in H. inversion H. reflexivity.
  - rewrite cands_of_cons in H. rewrite eligible_opers_cons.
    destruct (o_key o) as [k|]; [|apply IH; exact H].
    unfold is_active in H.
    destruct (o_has_opt o && o_opted_in o && negb (o_jailed o)) eqn:Ea; [|apply IH; exact H].
    cbn [negb] in H. cbv iota in H.
    destruct (o_has_usd o) eqn:Eu; [|discriminate]. cbn [negb] in H. cbv iota in H.
    dif H; [discriminate|].
    destruct (cands_of r) as [l| |] eqn:Er; try discriminate. inversion H; subst cs.
    cbn [andb]. unfold eligible. cbn [filter c_pow]. fold (eligible l). rewrite (IH l eq_refl).
    destruct (1 <=? dec_trunc_int (o_active o)); reflexivity.
Qed.

Lemma eligible_idem cs : eligible (eligible cs) = eligible cs.
Proof.
  unfold eligible. induction cs as [|c r IH]; simpl; [reflexivity|].
  destruct (1 <=? c_pow c) eqn:E; simpl; [rewrite E, IH; reflexivity | exact IH].
Qed.

Lemma target_registry os cs maxv :
  cands_of os = CandsOk cs -> target maxv cs = target maxv (eligible_opers os).
Proof.
  intros H. unfold target, top_k. rewrite <- (cands_of_eligible os cs H). rewrite eligible_idem. reflexivity.
Qed.

Definition keys_of (os : list oper) : list key :=
  flat_map (fun o => match o_key o with Some k => [k] | None => [] end) os.
(* the registry is a store keyed by operator address, and no two operators hold the same key (C07) *)
Definition registry_ok (os : list oper) : bool := nodupb (map o_addr os) && nodupb (keys_of os).

Lemma keys_of_cons o r : keys_of (o :: r) = match o_key o with Some k => [k] | None => [] end ++ keys_of r.
Proof. reflexivity. Qed.

Lemma cands_of_sub : forall os cs, cands_of os = CandsOk cs ->
  (forall c, In c cs -> In (c_addr c) (map o_addr os) /\ In (c_key c) (keys_of os)).
Proof.
  induction os as [|o r IH]; intros cs H c Hc.
  - simpl in H. inversion H; subst. destruct Hc.
  - rewrite cands_of_cons in H. rewrite keys_of_cons. cbn [map].
    destruct (o_key o) as [k|] eqn:Ek.
    + dif H.
      * destruct (IH cs H c Hc) as [H1 H2]. split; [right; exact H1 | right; exact H2].
      * dif H; [discriminate|]. dif H; [discriminate|].
        destruct (cands_of r) as [l| |] eqn:Er; try discriminate. inversion H; subst cs.
        destruct Hc as [Hc|Hc].
        -- subst c. cbn [c_addr c_key]. split; left; reflexivity.
        -- destruct (IH l eq_refl c Hc) as [H1 H2]. split; [right; exact H1 | right; exact H2].
    + destruct (IH cs H c Hc) as [H1 H2]. split; [right; exact H1 | exact H2].
Qed.

Lemma cands_of_wf : forall os cs, registry_ok os = true -> cands_of os = CandsOk cs -> wf_cands cs = true.
Proof.
  induction os as [|o r IH]; intros cs Hr H.
  - simpl in H. inversion H. reflexivity.
  - unfold registry_ok in Hr. rewrite keys_of_cons in Hr. cbn [map nodupb] in Hr.
    apply andb_true_iff in Hr. destruct Hr as [Ha Hk].
    apply andb_true_iff in Ha. destruct Ha as [Ha1 Ha2].
    rewrite cands_of_cons in H. destruct (o_key o) as [k|] eqn:Ek.
    + cbn [app nodupb] in Hk. apply andb_true_iff in Hk. destruct Hk as [Hk1 Hk2].
      assert (Hr' : registry_ok r = true) by (unfold registry_ok; rewrite Ha2, Hk2; reflexivity).
      dif H; [apply IH; assumption|].
      dif H; [discriminate|]. dif H; [discriminate|].
      destruct (cands_of r) as [l| |] eqn:Er; try discriminate. inversion H; subst cs.
      pose proof (IH l Hr' eq_refl) as Hw. unfold wf_cands in *. cbn [map nodupb c_addr c_key].
      apply andb_true_iff in Hw. destruct Hw as [Hw1 Hw2]. rewrite Hw1, Hw2. rewrite !andb_true_r.
      apply andb_true_iff. split; apply negb_true_iff; apply kv_mem_false; intros Hin;
        apply in_map_iff in Hin; destruct Hin as [c [Hc Hin]]; destruct (cands_of_sub r l Er c Hin) as [S1 S2].
      * apply negb_true_iff in Ha1. apply kv_mem_false in Ha1. apply Ha1. rewrite <- Hc. exact S1.
      * apply negb_true_iff in Hk1. apply kv_mem_false in Hk1. apply Hk1. rewrite <- Hc. exact S2.
    + cbn [app] in Hk. assert (Hr' : registry_ok r = true) by (unfold registry_ok; rewrite Ha2; exact Hk).
      apply IH; assumption.
Qed.

(* ------------------------------------------------------------------------------------------------ *)
(* the monitor's boolean is true of everything the model produces                                   *)
(* ------------------------------------------------------------------------------------------------ *)
Lemma kv_key_leb_total a b : kv_key_leb a b = false -> kv_key_leb b a = true.
Proof. apply str_leb_total. Qed.
Lemma kv_key_leb_trans a b c : kv_key_leb a b = true -> kv_key_leb b c = true -> kv_key_leb a c = true.
Proof. apply str_leb_trans. Qed.
Lemma kv_key_leb_antisym m : NoDup (map fst m) -> antisym_on kv_key_leb m.
Proof.
  intros Hn x y Hx Hy H1 H2. eapply NoDup_map_inj_on; try eassumption.
  apply (str_leb_antisym _ _ H1 H2).
Qed.

Lemma kv_eqb_refl e : kv_eqb e e = true.
Proof. unfold kv_eqb. rewrite String.eqb_refl, Z.eqb_refl. reflexivity. Qed.

Lemma same_map_ext m1 m2 :
  NoDup (map fst m1) -> NoDup (map fst m2) -> (forall k, kv_get m1 k = kv_get m2 k) -> same_map m1 m2 = true.
Proof.
  intros H1 H2 Hext. unfold same_map, canon.
  rewrite (isort_perm_eq kv_key_leb kv_key_leb_total kv_key_leb_trans m1 m2
             (kv_ext_perm m1 m2 H1 H2 Hext) (kv_key_leb_antisym m1 H1)).
  apply list_eqb_refl. apply kv_eqb_refl.
Qed.

Lemma same_map_refl m : same_map m m = true.
Proof. unfold same_map. apply list_eqb_refl. apply kv_eqb_refl. Qed.

(* the observation record the model itself would produce for one block *)
Definition model_obs (marker : bool) (maxz minz : Z) (fresh : bool) (prev : list kv) (ptot : Z) (os : list oper)
                     (stored_before : list kv) : option step :=
  match cands_of os with
  | CandsOk cs =>
      let r := end_block (mkD prev ptot stored_before marker) (Some cs) (Z.to_nat maxz) [] in
      Some (mkStep marker marker maxz minz minz (if marker then minz else -1) fresh prev ptot os [] false
                   (cmt_code prev (fst r)) (fst r) (d_vals (snd r)) (d_total (snd r)) (d_upd (snd r))
                   (d_marker (snd r)))
  | _ => None
  end.

(* when every stored active value is what the operator module's hook derives from the configured minimum, eligibility
   from the configuration and eligibility from the stored active values coincide *)
Lemma eligible_cfg_consistent minz os :
  forallb (usd_consistent minz) os = true -> eligible_cfg minz os = eligible_opers os.
Proof.
  induction os as [|o r IH]; intros H; [reflexivity|].
  cbn [forallb] in H. apply andb_true_iff in H. destruct H as [Ho Hr].
  unfold eligible_cfg, eligible_opers in *. cbn [flat_map]. rewrite (IH Hr).
  unfold usd_consistent in Ho. apply Z.eqb_eq in Ho. rewrite <- Ho. reflexivity.
Qed.

Lemma cfg_clause (fresh : bool) got n minz os :
  (fresh = true -> eligible_cfg minz os = eligible_opers os) ->
  same_map got (target n (eligible_opers os)) = true ->
  (negb fresh || same_map got (target n (eligible_cfg minz os))) = true.
Proof. intros H Hs. destruct fresh; simpl; [rewrite (H eq_refl); exact Hs | reflexivity]. Qed.

Lemma model_meets_monitor marker maxz minz fresh prev ptot os stored_before s :
  wf_prev prev = true -> registry_ok os = true -> ptot = sum_pow prev ->
  (fresh = true -> forallb (usd_consistent minz) os = true) ->
  model_obs marker maxz minz fresh prev ptot os stored_before = Some s -> monitor_step s = true.
Proof.
  intros Hp Hr Ht Hfr Hs. unfold model_obs in Hs. destruct (cands_of os) as [cs| |] eqn:Ec; try discriminate.
  pose proof (cands_of_wf os cs Hr Ec) as Hc. inversion Hs; subst s; clear Hs.
  unfold monitor_step. simpl s_panicked. cbv iota. cbn [s_cmt s_prev s_upd]. rewrite Z.eqb_refl. cbn [negb]. cbv iota.
  cbn [s_min_self s_avs_min_self]. rewrite Z.eqb_refl. cbn [negb]. cbv iota.
  simpl s_epoch_ended. destruct marker.
  - simpl negb. cbv iota. simpl s_prev. simpl s_upd. simpl s_max. simpl s_opers. simpl s_after.
    simpl s_total_after. simpl s_stored_upd. simpl s_marker_after. cbn [s_fresh s_hook_min].
    pose proof (end_block_epoch (mkD prev ptot stored_before true) cs (Z.to_nat maxz) [] eq_refl Hp Hc
                  (norev_ok_nil _ _)) as H. simpl in H.
    destruct H as [Hout [Hupd [Hm [Hvals [Hget [Hw Htot]]]]]].
    rewrite Hout, Hupd, Hm, Hout.
    destruct (diff_result prev cs (Z.to_nat maxz) Hp Hc) as [Hcmt [Hg1 _]]. rewrite Hcmt.
    assert (Hn1 : NoDup (map fst (apply_map prev (end_block_diff prev cs (Z.to_nat maxz))))).
    { apply apply_map_nodup. apply wf_prev_spec. exact Hp. }
    assert (Hn2 : NoDup (map fst (target (Z.to_nat maxz) cs))) by (apply target_nodup; exact Hc).
    assert (Hsm : same_map (apply_map prev (end_block_diff prev cs (Z.to_nat maxz)))
                           (target (Z.to_nat maxz) (eligible_opers os)) = true).
    { rewrite <- (target_registry os cs (Z.to_nat maxz) Ec). apply same_map_ext; assumption. }
    repeat (apply andb_true_iff; split).
    + exact Hp.
    + exact Hsm.
    + apply cfg_clause; [|exact Hsm]. intros E. apply eligible_cfg_consistent. apply Hfr. exact E.
    + apply forallb_forall. intros [k p] Hin. simpl.
      apply diff_in in Hin; try assumption.
      destruct (res_spec_entries prev _ k p (fun c Hc' => proj2 (top_k_in _ _ c Hc')) Hin) as [H1|[H1 H2]].
      * apply orb_true_iff. left. apply negb_true_iff. apply Z.eqb_neq. lia.
      * apply orb_true_iff. right. destruct (kv_get prev k); [reflexivity | congruence].
    + apply diff_strictly_sorted; assumption.
    + apply same_map_ext; [apply wf_prev_spec; exact Hw | exact Hn1 |].
      intros k. rewrite Hget, Hg1. reflexivity.
    + apply Z.eqb_eq. apply Htot. exact Ht.
    + apply list_eqb_refl. apply kv_eqb_refl.
    + reflexivity.
  - simpl. rewrite same_map_refl, Z.eqb_refl. reflexivity.
Qed.
