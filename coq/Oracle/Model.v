(* Oracle/Model.v — executable model of the exocore price oracle (shared by C12 and C13).

   Transcribed from
     x/oracle/keeper/aggregator/{context,worker,filter,calculator,aggregator}.go
     x/oracle/keeper/common/types.go      (Set, ExceedsThreshold, BigIntList.Median)
     x/oracle/keeper/{prices,nonce,msg_server_create_price}.go
     x/oracle/module.go                   (EndBlock glue)
     app/ante/cosmos/{txsize_gas,sigverify}.go + app/ante/utils/oracle.go (fee-less branch)
     baseapp.runTx                        (ante writes persist, message writes are all-or-nothing,
                                           the package-level aggregator memory is never rolled back)

   Scope of this model (stated again in design/C12.md):
   * the source table is the one of DefaultParams: source 1 (Chainlink) valid + deterministic, source 0
     = custom non-deterministic source, every feeder uses rule 1 = "all valid sources".  Under these
     params checkMsg only lets messages through that carry exactly ONE price source, id 1, with
     1..MaxDetID prices, all with a non-empty det-ID; the worker (filter/calculator/aggregator) is
     therefore modelled for one deterministic source.
   * params do not change inside a case (no UpdateParams op); the msg/params caches and the recent-*
     stores belong to C14 and are not modelled.
   * validators and other senders are small integers (index into the harness key table).
   * message / stored timestamps are Z seconds relative to a fixed base date (-1 = empty string,
     -2 = malformed string); block times are Z nanoseconds relative to the same base; prices are Z
     (decimal strings; non-numeric price strings are outside the model).
   No proofs here. *)
From Coq Require Import List String Ascii Bool ZArith Lia.
From Exo Require Import Base.Util.
Import ListNotations.
Local Open Scope Z_scope.
Local Open Scope list_scope.

(* ---------- small association lists keyed by Z, kept sorted by key (canonical form) ---------- *)
Section ZMap.
  Context {V : Type}.
  Fixpoint zget (l : list (Z * V)) (k : Z) : option V :=
    match l with
    | [] => None
    | (k', v) :: r => if k =? k' then Some v else zget r k
    end.
  Fixpoint zset (l : list (Z * V)) (k : Z) (v : V) : list (Z * V) :=
    match l with
    | [] => [(k, v)]
    | (k', v') :: r =>
        if k =? k' then (k, v) :: r
        else if k <? k' then (k, v) :: (k', v') :: r
        else (k', v') :: zset r k v
    end.
  Fixpoint zdel (l : list (Z * V)) (k : Z) : list (Z * V) :=
    match l with
    | [] => []
    | (k', v') :: r => if k =? k' then r else (k', v') :: zdel r k
    end.
End ZMap.

Definition two64 : Z := 18446744073709551616.
Definition usub (a b : Z) : Z := (a - b) mod two64.   (* uint64 subtraction as Go does it *)

(* ---------- parameters ---------- *)
Record feeder := mkFeeder {
  f_id : Z; f_token : Z; f_start : Z; f_interval : Z; f_start_round : Z; f_end : Z }.

Record params := mkParams {
  p_max_nonce : Z; p_thr_a : Z; p_thr_b : Z; p_max_detid : Z; p_max_size : Z;
  p_feeders : list feeder;          (* TokenFeeders[1..] in slice order; f_id = slice index *)
  p_tokens : list (Z * Z) }.        (* token id -> Decimal *)

Definition get_feeder (p : params) (id : Z) : option feeder :=
  find (fun f => f_id f =? id) (p_feeders p).

Definition token_decimal (p : params) (tok : Z) : option Z := zget (p_tokens p) tok.

(* ExceedsThreshold: power * B > total * A *)
Definition exceeds (p : params) (power total : Z) : bool := total * p_thr_a p <? power * p_thr_b p.

(* ---------- store ---------- *)
Record ptr := mkPtr { pt_round : Z; pt_price : option Z; pt_dec : Z; pt_ts : Z }.
Record tprices := mkTP { tp_next : option Z; tp_list : list (Z * ptr) }.   (* key = round id *)

Record store := mkStore {
  s_prices : list (Z * tprices);               (* token id -> prices *)
  s_nonces : list (Z * list (Z * Z)) }.         (* validator -> NonceList in slice order (feeder, value) *)

Definition empty_tp : tprices := mkTP None [].
Definition get_tp (s : store) (tok : Z) : tprices :=
  match zget (s_prices s) tok with Some t => t | None => empty_tp end.
Definition set_tp (s : store) (tok : Z) (t : tprices) : store :=
  mkStore (zset (s_prices s) tok t) (s_nonces s).

(* GetNextRoundID *)
Definition next_round_id (t : tprices) : Z :=
  match tp_next t with
  | None => 1
  | Some n => if n =? 0 then 1 else n
  end.

(* AppendPriceTR (NST branch not modelled: no NST asset is attached to the tokens used) *)
Definition append_price (p : params) (s : store) (tok : Z) (x : ptr) : store * bool :=
  let t := get_tp s tok in
  let n := next_round_id t in
  if negb (n =? pt_round x) then (s, false)
  else
    let l1 := zset (tp_list t) n x in
    let e := usub n (p_max_size p) in
    let l2 := if 0 <? e then zdel l1 e else l1 in
    (set_tp s tok (mkTP (Some (n + 1)) l2), true).

(* GetPriceTRLatest *)
Definition latest_price (t : tprices) : option ptr :=
  match tp_next t with
  | None => None
  | Some n => if n <=? 1 then None else zget (tp_list t) (n - 1)
  end.

(* GrowRoundID *)
Definition grow_round (p : params) (s : store) (tok : Z) : store :=
  let t := get_tp s tok in
  match latest_price t with
  | Some x => fst (append_price p s tok (mkPtr (pt_round x + 1) (pt_price x) (pt_dec x) (pt_ts x)))
  | None => fst (append_price p s tok (mkPtr (next_round_id t) None 0 (-1)))
  end.

(* nonce rows *)
Fixpoint row_has (row : list (Z * Z)) (fid : Z) : bool :=
  match row with [] => false | (f, _) :: r => (f =? fid) || row_has r fid end.

Fixpoint row_remove (row : list (Z * Z)) (fid : Z) : list (Z * Z) :=
  match row with
  | [] => []
  | (f, v) :: r => if f =? fid then r else (f, v) :: row_remove r fid
  end.

(* AddZeroNonceItemWithFeederIDForValidators *)
Definition add_zero_nonce_one (n : list (Z * list (Z * Z))) (fid v : Z) : list (Z * list (Z * Z)) :=
  match zget n v with
  | Some row => if row_has row fid then n else zset n v (row ++ [(fid, 0)])
  | None => zset n v [(fid, 0)]
  end.
Definition add_zero_nonce (n : list (Z * list (Z * Z))) (fid : Z) (vals : list Z) :=
  fold_left (fun acc v => add_zero_nonce_one acc fid v) vals n.

(* removeNonceWithValidatorAndFeederID *)
Definition remove_nonce_one (n : list (Z * list (Z * Z))) (fid v : Z) : list (Z * list (Z * Z)) :=
  match zget n v with
  | Some row =>
      if row_has row fid then
        match row_remove row fid with
        | [] => zdel n v
        | row' => zset n v row'
        end
      else n
  | None => n
  end.
Definition remove_nonce (n : list (Z * list (Z * Z))) (fid : Z) (vals : list Z) :=
  fold_left (fun acc v => remove_nonce_one acc fid v) vals n.

(* CheckAndIncreaseNonce: Some new-table on success *)
Fixpoint row_bump (row : list (Z * Z)) (fid nonce : Z) : option (list (Z * Z)) :=
  match row with
  | [] => None                                          (* feeder not found *)
  | (f, v) :: r =>
      if f =? fid then (if v + 1 =? nonce then Some ((f, v + 1) :: r) else None)
      else match row_bump r fid nonce with Some r' => Some ((f, v) :: r') | None => None end
  end.

(* msg.Nonce is an int32 converted to uint32 *)
Definition as_u32 (n : Z) : Z := n mod 4294967296.

Definition check_and_increase (p : params) (n : list (Z * list (Z * Z))) (v fid nonce : Z)
  : option (list (Z * list (Z * Z))) :=
  let nn := as_u32 nonce in
  if p_max_nonce p <? nn then None
  else match zget n v with
       | None => None
       | Some row => match row_bump row fid nn with
                     | Some row' => Some (zset n v row')
                     | None => None
                     end
       end.

(* ---------- memory: aggregator context ---------- *)
Record round := mkRound { r_base : Z; r_next : Z; r_status : Z }.   (* status 1 open, 2 closed *)

Record cround := mkCR {                 (* calculator: one det-ID of the deterministic source *)
  cr_det : string; cr_prices : list (Z * Z) (* price, power *); cr_price : option Z; cr_ts : Z }.

Record report := mkRep {                (* aggregator: one validator's report, single DS slot *)
  rp_val : Z; rp_power : Z; rp_dec : Z; rp_slot : option Z; rp_det : string; rp_ts : Z }.

Record worker := mkW {
  w_sealed : bool; w_price : option Z;
  w_fnonces : list (Z * list Z);        (* filter.validatorNonce, per creator, insertion order *)
  w_fdets : list (Z * list string);     (* filter.validatorSource for source 1, per creator *)
  w_vlen : Z; w_total : Z;              (* captured at newWorker *)
  w_crounds : option (list cround);     (* calculator.deterministicSource[1]; None = not created *)
  w_reports : list report; w_rpower : Z;
  w_ds : option string;                 (* aggregator.dsPrices[1] *)
  w_final : option Z }.

Record mem := mkMem {
  m_vals : list (Z * Z);                (* validator -> power, sorted by id *)
  m_total : Z;
  m_rounds : list (Z * round);          (* feeder id -> round, sorted *)
  m_workers : list (Z * worker) }.      (* feeder id -> worker, sorted *)

(* st_digest: hash of the whole oracle KV store except the nonce rows (observed only; the model carries 0) *)
Record state := mkState { st_store : store; st_mem : mem; st_digest : Z }.

Definition val_ids (m : mem) : list Z := map fst (m_vals m).

Definition new_worker (m : mem) : worker :=
  mkW false None [] [] (Z.of_nat (List.length (m_vals m))) (m_total m) None [] 0 None None.

Definition sealed_worker (price : Z) : worker :=
  mkW true (Some price) [] [] 0 0 None [] 0 None None.

(* ---------- messages ---------- *)
(* pi_num: the price string is a decimal number (false: e.g. "abc"; pi_price is then meaningless). Such a message is
   rejected by sanityCheck before the aggregator memory is touched (repaired behaviour, fix-c13-nonnumeric-price.patch). *)
Record pitem := mkPI { pi_det : string; pi_price : Z; pi_dec : Z; pi_ts : Z; pi_num : bool }.
Record psource := mkPS { ps_id : Z; ps_prices : list pitem }.
Record msg := mkMsg { m_creator : Z; m_feeder : Z; m_base : Z; m_nonce : Z; m_prices : list psource }.
Record tx := mkTx { t_msgs : list msg; t_size : Z; t_pk_ok : bool; t_sig_ok : bool }.

(* ---------- common.Set ---------- *)
Fixpoint mem_z (x : Z) (l : list Z) : bool :=
  match l with [] => false | y :: r => (x =? y) || mem_z x r end.
Fixpoint mem_s (x : string) (l : list string) : bool :=
  match l with [] => false | y :: r => String.eqb x y || mem_s x r end.

Definition zlen {A} (l : list A) : Z := Z.of_nat (List.length l).

Definition set_add_z (size : Z) (l : list Z) (x : Z) : list Z * bool :=
  if zlen l =? size then (l, false) else if mem_z x l then (l, false) else (l ++ [x], true).
Definition set_add_s (size : Z) (l : list string) (x : string) : list string * bool :=
  if zlen l =? size then (l, false) else if mem_s x l then (l, false) else (l ++ [x], true).

(* ---------- filter ---------- *)
(* addPSource for the deterministic source: keep the items whose det-ID is new for this validator *)
Fixpoint filter_items (size : Z) (seen : list string) (items : list pitem) : list string * list pitem :=
  match items with
  | [] => (seen, [])
  | it :: r =>
      let '(seen1, ok) := set_add_s size seen (pi_det it) in
      let '(seen2, kept) := filter_items size seen1 r in
      (seen2, if ok then it :: kept else kept)
  end.

(* filtrate: returns the worker with updated filter sets and the kept items ([] = nothing filled) *)
Definition filtrate (p : params) (w : worker) (creator nonce : Z) (items : list pitem) : worker * list pitem :=
  let nonces := match zget (w_fnonces w) creator with Some l => l | None => [] end in
  let '(nonces', ok) := set_add_z (p_max_nonce p) nonces nonce in
  let fn' := zset (w_fnonces w) creator nonces' in
  if negb ok then
    (mkW (w_sealed w) (w_price w) fn' (w_fdets w) (w_vlen w) (w_total w) (w_crounds w)
         (w_reports w) (w_rpower w) (w_ds w) (w_final w), [])
  else
    let seen := match zget (w_fdets w) creator with Some l => l | None => [] end in
    let '(seen', kept) := filter_items (p_max_detid p) seen items in
    (mkW (w_sealed w) (w_price w) fn' (zset (w_fdets w) creator seen') (w_vlen w) (w_total w) (w_crounds w)
         (w_reports w) (w_rpower w) (w_ds w) (w_final w), kept).

(* ---------- aggregator.fillPrice ---------- *)
Fixpoint has_report (l : list report) (v : Z) : bool :=
  match l with [] => false | r :: t => (rp_val r =? v) || has_report t v end.

(* the copy loop for a DS already confirmed: last report with a priced slot wins *)
Fixpoint last_priced (l : list report) (acc : option (Z * string * Z)) : option (Z * string * Z) :=
  match l with
  | [] => acc
  | r :: t => last_priced t (match rp_slot r with Some x => Some (x, rp_det r, rp_ts r) | None => acc end)
  end.

Definition agg_fill (w : worker) (v power : Z) (kept : list pitem) : worker :=
  if has_report (w_reports w) v then w      (* slot exists: DS values are only updated by the calculator *)
  else
    let dec := match kept with it :: _ => pi_dec it | [] => 0 end in
    let base := mkRep v power dec None EmptyString (-1) in
    let rep := match w_ds w with
               | Some _ =>
                   (* the new report is already in the list when the loop runs, but its slot is unpriced *)
                   match last_priced (w_reports w) None with
                   | Some (x, d, t) => mkRep v power dec (Some x) d t
                   | None => base
                   end
               | None => base
               end in
    mkW (w_sealed w) (w_price w) (w_fnonces w) (w_fdets w) (w_vlen w) (w_total w) (w_crounds w)
        (w_reports w ++ [rep]) (w_rpower w + power) (w_ds w) (w_final w).

(* ---------- calculator ---------- *)
Fixpoint has_confirmed (l : list cround) : bool :=
  match l with [] => false | c :: r => (match cr_price c with Some _ => true | None => false end) || has_confirmed r end.

(* updatePriceAndPower on an unconfirmed round: (prices', updated, confirmed price) *)
Fixpoint bump_price (p : params) (total : Z) (l : list (Z * Z)) (price power : Z)
  : option (list (Z * Z) * option Z) :=         (* None = price not in the list *)
  match l with
  | [] => None
  | (pr, pw) :: r =>
      if pr =? price then
        let pw' := pw + power in
        Some ((pr, pw') :: r, if exceeds p pw' total then Some pr else None)
      else match bump_price p total r price power with
           | Some (r', c) => Some ((pr, pw) :: r', c)
           | None => None
           end
  end.

Definition update_price_and_power (p : params) (vlen total : Z) (c : cround) (price power : Z)
  : cround * bool * bool :=                    (* round', updated, confirmed *)
  match cr_price c with
  | Some _ => (c, false, true)
  | None =>
      match bump_price p total (cr_prices c) price power with
      | Some (l', Some x) => (mkCR (cr_det c) l' (Some x) (cr_ts c), true, true)
      | Some (l', None) => (mkCR (cr_det c) l' None (cr_ts c), true, false)
      | None =>
          if zlen (cr_prices c) <? vlen then
            let l' := cr_prices c ++ [(price, power)] in
            if exceeds p power total then (mkCR (cr_det c) l' (Some price) (cr_ts c), true, true)
            else (mkCR (cr_det c) l' None (cr_ts c), true, false)
          else (c, false, false)
      end
  end.

(* one item against the round list: getOrNewRound + updatePriceAndPower.
   result: rounds', Some (det, price, ts) when this item confirmed its round *)
Fixpoint calc_item_in (p : params) (vlen total : Z) (l : list cround) (it : pitem) (power : Z)
  : option (list cround * option (string * Z * Z)) :=   (* None = det-ID not present *)
  match l with
  | [] => None
  | c :: r =>
      if String.eqb (cr_det c) (pi_det it) then
        match cr_price c with
        | Some _ => Some (c :: r, None)                (* confirmed round: getOrNewRound returns nil *)
        | None =>
            let '(c', upd, conf) := update_price_and_power p vlen total c (pi_price it) power in
            Some (c' :: r,
                  if upd && conf then
                    match cr_price c' with Some x => Some (cr_det c', x, cr_ts c') | None => None end
                  else None)
        end
      else match calc_item_in p vlen total r it power with
           | Some (r', o) => Some (c :: r', o)
           | None => None
           end
  end.

Definition calc_item (p : params) (vlen total : Z) (l : list cround) (it : pitem) (power : Z)
  : list cround * option (string * Z * Z) :=
  match calc_item_in p vlen total l it power with
  | Some x => x
  | None =>
      if zlen l <? p_max_detid p * vlen then
        let c0 := mkCR (pi_det it) [] None (pi_ts it) in
        let '(c', upd, conf) := update_price_and_power p vlen total c0 (pi_price it) power in
        (l ++ [c'],
         if upd && conf then match cr_price c' with Some x => Some (cr_det c', x, cr_ts c') | None => None end
         else None)
      else (l, None)
  end.

(* the loop over the kept items of the single source: stops at the first confirmation *)
Fixpoint calc_items (p : params) (vlen total : Z) (l : list cround) (items : list pitem) (power : Z)
  : list cround * option (string * Z * Z) :=
  match items with
  | [] => (l, None)
  | it :: r =>
      match calc_item p vlen total l it power with
      | (l', Some c) => (l', Some c)
      | (l', None) => calc_items p vlen total l' r power
      end
  end.

(* calculator.fillPrice for the single source *)
Definition calc_fill (p : params) (w : worker) (kept : list pitem) (power : Z)
  : option (list cround) * option (string * Z * Z) :=
  match kept with
  | [] => (w_crounds w, None)                  (* no source in the list: the loop body never runs *)
  | _ =>
      let l := match w_crounds w with Some l => l | None => [] end in
      if has_confirmed l then (Some l, None)
      else let '(l', c) := calc_items p (w_vlen w) (w_total w) l kept power in (Some l', c)
  end.

(* Go string comparison id < detID *)
Definition str_ltb (a b : string) : bool :=
  match String.compare a b with Lt => true | _ => false end.

(* aggregator.confirmDSPrice *)
Definition confirm_ds (w : worker) (c : string * Z * Z) : worker :=
  let '(det, price, ts) := c in
  let take := match w_ds w with
              | None => true
              | Some id => (String.eqb id EmptyString) || str_ltb id det
              end in
  if negb take then w
  else mkW (w_sealed w) (w_price w) (w_fnonces w) (w_fdets w) (w_vlen w) (w_total w) (w_crounds w)
           (map (fun r => mkRep (rp_val r) (rp_power r) (rp_dec r) (Some price) det ts) (w_reports w))
           (w_rpower w) (Some det) (w_final w).

(* ---------- BigIntList.Median ---------- *)
Fixpoint insert_sorted (x : Z) (l : list Z) : list Z :=
  match l with
  | [] => [x]
  | y :: r => if x <=? y then x :: y :: r else y :: insert_sorted x r
  end.
Definition sort_z (l : list Z) : list Z := fold_right insert_sorted [] l.

(* None = index out of range (empty list): a Go panic *)
Definition median (l : list Z) : option Z :=
  let s := sort_z l in
  let n := List.length s in
  if Nat.eqb (Nat.modulo n 2) 1 then nth_error s (Nat.div n 2)
  else match nth_error s (Nat.div n 2), nth_error s (Nat.div n 2 - 1) with
       | Some a, Some b => Some ((a + b) / 2)
       | _, _ => None
       end.

(* reportPrice.aggregate for one slot: Median of a one-element list; None = nil price (Go nil deref) *)
Definition report_value (r : report) : option Z :=
  match rp_slot r with Some x => median [x] | None => None end.

Fixpoint all_some {A} (l : list (option A)) : option (list A) :=
  match l with
  | [] => Some []
  | Some x :: r => match all_some r with Some r' => Some (x :: r') | None => None end
  | None :: _ => None
  end.

Inductive agg_res := AggNone | AggFinal (x : Z) | AggPanic.

(* aggregator.aggregate *)
Definition agg_aggregate (p : params) (w : worker) : agg_res :=
  match w_final w with
  | Some x => AggFinal x
  | None =>
      if exceeds p (w_rpower w) (w_total w) then
        match w_ds w with
        | Some _ =>
            match all_some (map report_value (w_reports w)) with
            | Some vs => match median vs with Some x => AggFinal x | None => AggPanic end
            | None => AggPanic
            end
        | None => AggNone
        end
      else AggNone
  end.

(* worker.do *)
Definition worker_do (p : params) (w : worker) (creator power nonce : Z) (items : list pitem)
  : worker * bool :=                            (* worker', listFilled != nil *)
  let '(w1, kept) := filtrate p w creator nonce items in
  match kept with
  | [] => (w1, false)
  | _ =>
      let w2 := agg_fill w1 creator power kept in
      let '(cr, conf) := calc_fill p w2 kept power in
      let w3 := mkW (w_sealed w2) (w_price w2) (w_fnonces w2) (w_fdets w2) (w_vlen w2) (w_total w2) cr
                    (w_reports w2) (w_rpower w2) (w_ds w2) (w_final w2) in
      (match conf with Some c => confirm_ds w3 c | None => w3 end, true)
  end.

(* ---------- checkTimestamp, sanityCheck, checkMsg ---------- *)
Definition five_s : Z := 5000000000.

Definition check_timestamp (now : Z) (m : msg) : bool :=
  forallb (fun ps => forallb (fun it => (0 <=? pi_ts it) && (pi_ts it * 1000000000 <=? now + five_s)) (ps_prices ps)) (m_prices m).

Definition valid_source (sid : Z) : bool := (sid =? 0) || (sid =? 1).   (* sid >= 2: index out of range *)
Definition det_source (sid : Z) : bool := sid =? 1.

Definition sanity_source (p : params) (ps : psource) : bool :=
  let n := zlen (ps_prices ps) in
  (1 <=? n) && (n <=? p_max_detid p) && valid_source (ps_id ps) && forallb pi_num (ps_prices ps) &&
  (if det_source (ps_id ps) then forallb (fun it => negb (String.eqb (pi_det it) EmptyString)) (ps_prices ps)
   else (n <=? 1) && forallb (fun it => String.eqb (pi_det it) EmptyString) (ps_prices ps)).

Definition sanity_check (p : params) (m : mem) (x : msg) : bool :=
  (match zget (m_vals m) (m_creator x) with Some _ => true | None => false end) &&
  negb (match m_prices x with [] => true | _ => false end) &&
  forallb (sanity_source p) (m_prices x).

(* CheckRules for rule "all valid sources" with the single valid source 1 *)
Definition check_rules (x : msg) : bool :=
  match m_prices x with
  | [ps] => ps_id ps =? 1
  | _ => false
  end.

Definition check_decimal (p : params) (f : feeder) (x : msg) : bool :=
  match token_decimal p (f_token f) with
  | Some d => forallb (fun ps => forallb (fun it => pi_dec it =? d) (ps_prices ps)) (m_prices x)
  | None => false
  end.

Definition check_msg (p : params) (m : mem) (x : msg) : bool :=
  sanity_check p m x &&
  match zget (m_rounds m) (m_feeder x) with
  | Some r =>
      (r_status r =? 1) && (m_base x =? r_base r) && check_rules x &&
      match get_feeder p (m_feeder x) with Some f => check_decimal p f x | None => false end
  | None => false
  end.

(* ---------- FillPrice + the store part of CreatePrice ---------- *)
Inductive msg_res := MsgCounted | MsgFinal | MsgErr | MsgPanic.

Definition set_worker (m : mem) (fid : Z) (w : worker) : mem :=
  mkMem (m_vals m) (m_total m) (m_rounds m) (zset (m_workers m) fid w).
Definition set_round (m : mem) (fid : Z) (r : round) : mem :=
  mkMem (m_vals m) (m_total m) (zset (m_rounds m) fid r) (m_workers m).

Definition first_ts (x : msg) : Z :=
  match m_prices x with
  | ps :: _ => match ps_prices ps with it :: _ => pi_ts it | [] => -1 end
  | [] => -1
  end.

(* one message through the msg server, on (store, mem); the store result is the tx-local cache *)
Definition create_price (p : params) (now : Z) (s : store) (m : mem) (x : msg) : store * mem * msg_res :=
  if negb (check_timestamp now x) then (s, m, MsgErr)
  else if negb (check_msg p m x) then (s, m, MsgErr)
  else
    let fid := m_feeder x in
    let w0 := match zget (m_workers m) fid with Some w => w | None => new_worker m end in
    let m0 := set_worker m fid w0 in
    if w_sealed w0 then (s, m0, MsgErr)
    else
      let power := match zget (m_vals m) (m_creator x) with Some pw => pw | None => 0 end in
      let items := match m_prices x with ps :: _ => ps_prices ps | [] => [] end in
      let '(w1, filled) := worker_do p w0 (m_creator x) power (m_nonce x) items in
      let m1 := set_worker m fid w1 in
      if negb filled then (s, m1, MsgErr)
      else
        match agg_aggregate p w1 with
        | AggPanic => (s, m1, MsgPanic)
        | AggNone => (s, m1, MsgCounted)
        | AggFinal price =>
            match zget (m_rounds m) fid, get_feeder p fid with
            | Some r, Some f =>
                let m2 := set_worker (set_round m1 fid (mkRound (r_base r) (r_next r) 2)) fid (sealed_worker price) in
                let dec := match token_decimal p (f_token f) with Some d => d | None => 0 end in
                let item := mkPtr (r_next r) (Some price) dec (first_ts x) in
                let '(s1, ok) := append_price p s (f_token f) item in
                let s2 := if ok then s1 else grow_round p s (f_token f) in
                let s3 := mkStore (s_prices s2) (remove_nonce (s_nonces s2) fid (val_ids m)) in
                (s3, m2, MsgFinal)
            | _, _ => (s, m1, MsgPanic)
            end
        end.

(* runMsgs: all messages on a tx-local store cache; the first failure discards the cache, the memory
   keeps whatever was done to it *)
Fixpoint run_msgs (p : params) (now : Z) (s : store) (m : mem) (l : list msg) : option store * mem :=
  match l with
  | [] => (Some s, m)
  | x :: r =>
      match create_price p now s m x with
      | (s', m', MsgCounted) | (s', m', MsgFinal) => run_msgs p now s' m' r
      | (_, m', _) => (None, m')
      end
  end.

(* ---------- ante handler, fee-less branch ---------- *)
Definition tx_size_limit : Z := 1000.

Fixpoint ante_nonces (p : params) (n : list (Z * list (Z * Z))) (l : list msg) : option (list (Z * list (Z * Z))) :=
  match l with
  | [] => Some n
  | x :: r => match check_and_increase p n (m_creator x) (m_feeder x) (m_nonce x) with
              | Some n' => ante_nonces p n' r
              | None => None
              end
  end.

Definition ante (p : params) (s : store) (t : tx) : option store :=
  if tx_size_limit <? t_size t then None
  else if negb (t_pk_ok t) then None
  else if negb (t_sig_ok t) then None
  else match ante_nonces p (s_nonces s) (t_msgs t) with
       | Some n' => Some (mkStore (s_prices s) n')
       | None => None
       end.

(* DeliverTx: (state', admitted, all messages succeeded) *)
Definition deliver_tx (p : params) (now : Z) (st : state) (t : tx) : state * bool * bool :=
  match ante p (st_store st) t with
  | None => (st, false, false)
  | Some s1 =>
      match run_msgs p now s1 (st_mem st) (t_msgs t) with
      | (Some s2, m2) => (mkState s2 m2 0, true, true)
      | (None, m2) => (mkState s1 m2 0, true, false)
      end
  end.

(* ---------- EndBlock ---------- *)
(* cacheValidator.add, one update *)
Definition apply_update (vals : list (Z * Z)) (u : Z * Z) : list (Z * Z) :=
  let '(v, np) := u in
  match zget vals v with
  | Some _ => if np =? 0 then zdel vals v else zset vals v np
  | None => zset vals v np
  end.

(* SealRound for one feeder: (rounds, workers, failed tokens, sealed feeders) accumulate *)
Definition seal_one (p : params) (h : Z) (force : bool)
           (acc : list (Z * round) * list (Z * worker) * list Z * list Z) (fr : Z * round)
  : list (Z * round) * list (Z * worker) * list Z * list Z :=
  let '(rounds, workers, failed, sealed) := acc in
  let '(fid, r) := fr in
  let '(rounds1, workers1, failed1, sealed1) :=
    if r_status r =? 1 then
      match get_feeder p fid with
      | Some f =>
          let expired := (0 <? f_end f) && (f_end f <=? h) in
          let out_of_window := p_max_nonce p <=? usub h (r_base r) in
          if expired || out_of_window || force then
            (if expired then zdel rounds fid else zset rounds fid (mkRound (r_base r) (r_next r) 2),
             zdel workers fid, failed ++ [f_token f], sealed ++ [fid])
          else (rounds, workers, failed, sealed)
      | None => (rounds, workers, failed, sealed)      (* nil feeder: Go would panic; excluded by wf *)
      end
    else (rounds, workers, failed, sealed) in
  match zget workers1 fid with
  | Some w => if w_sealed w then (rounds1, zdel workers1 fid, failed1, sealed1 ++ [fid])
              else (rounds1, workers1, failed1, sealed1)
  | None => (rounds1, workers1, failed1, sealed1)
  end.

Definition seal_round (p : params) (h : Z) (force : bool) (m : mem)
  : mem * list Z * list Z :=
  let '(rounds, workers, failed, sealed) :=
    fold_left (seal_one p h force) (m_rounds m) (m_rounds m, m_workers m, [], []) in
  (mkMem (m_vals m) (m_total m) rounds workers, failed, sealed).

(* PrepareRoundEndBlock for one feeder *)
Definition prepare_one (p : params) (h : Z) (acc : list (Z * round) * list (Z * worker) * list Z) (f : feeder)
  : list (Z * round) * list (Z * worker) * list Z :=
  let '(rounds, workers, fresh) := acc in
  if ((0 <? f_end f) && (f_end f <=? h)) || (h <? f_start f) then acc
  else
    let delta := h - f_start f in
    let left := delta mod f_interval f in
    let count := delta / f_interval f in
    let base := h - left in
    let next := f_start_round f + count in
    match zget rounds (f_id f) with
    | None =>
        if p_max_nonce p <=? left then (zset rounds (f_id f) (mkRound base next 2), workers, fresh)
        else (zset rounds (f_id f) (mkRound base next 1), workers,
              if left =? 0 then fresh ++ [f_id f] else fresh)
    | Some r =>
        if left =? 0 then (zset rounds (f_id f) (mkRound base next 1), zdel workers (f_id f), fresh ++ [f_id f])
        else if (r_status r =? 1) && (p_max_nonce p <=? left)
             then (zset rounds (f_id f) (mkRound (r_base r) (r_next r) 2), workers, fresh)
             else acc
    end.

Definition prepare_round (p : params) (h : Z) (m : mem) : mem * list Z :=
  if h <? 1 then (m, [])
  else
    let '(rounds, workers, fresh) := fold_left (prepare_one p h) (p_feeders p) (m_rounds m, m_workers m, []) in
    (mkMem (m_vals m) (m_total m) rounds workers, fresh).

Definition end_block (p : params) (h : Z) (updates : list (Z * Z)) (st : state) : state :=
  let m0 := st_mem st in
  let force := match updates with [] => false | _ => true end in
  let m1 := if force then
              let vals := fold_left apply_update updates (m_vals m0) in
              mkMem vals (zsum (map snd vals)) (m_rounds m0) (m_workers m0)
            else m0 in
  let '(m2, failed, sealed) := seal_round p h force m1 in
  (* RemoveNonceWithFeederIDForAll: the rows of a sealed feeder are removed for every validator that has a row,
     also for validators that this block's update has just removed from the set *)
  let n1 := fold_left (fun n fid => remove_nonce n fid (map fst n)) sealed (s_nonces (st_store st)) in
  let s1 := fold_left (fun s tok => grow_round p s tok) failed (mkStore (s_prices (st_store st)) n1) in
  let '(m3, fresh) := prepare_round p h m2 in
  let n2 := fold_left (fun n fid => add_zero_nonce n fid (val_ids m3)) fresh (s_nonces s1) in
  mkState (mkStore (s_prices s1) n2) m3 0.

(* ================= correspondence cases (written by the harness) =================
   Observations are written as differences to the previous observation (None = component unchanged),
   only to keep the generated terms small; [apply_obs] rebuilds the full observed state. *)
Record obs := mkObs {
  ob_prices : option (list (Z * tprices));
  ob_nonces : option (list (Z * list (Z * Z)));
  ob_vals : option (list (Z * Z) * Z);
  ob_rounds : option (list (Z * round));
  ob_workers : option (list (Z * worker));
  ob_digest : option Z }.

Definition odflt {A} (o : option A) (d : A) : A := match o with Some x => x | None => d end.

Definition apply_obs (st : state) (o : obs) : state :=
  let s := st_store st in
  let m := st_mem st in
  let vt := odflt (ob_vals o) (m_vals m, m_total m) in
  mkState (mkStore (odflt (ob_prices o) (s_prices s)) (odflt (ob_nonces o) (s_nonces s)))
          (mkMem (fst vt) (snd vt) (odflt (ob_rounds o) (m_rounds m)) (odflt (ob_workers o) (m_workers m)))
          (odflt (ob_digest o) (st_digest st)).

(* o_check: result of app.CheckTx on the same tx, run right before DeliverTx (suite abci only; None = not run).
   CheckTx executes the ante chain only, on the check state = the state committed by the previous block plus the
   nonce increments of the CheckTx calls made since. *)
Record txobs := mkTxObs { o_check : option bool; o_admitted : bool; o_ok : bool; o_after : option obs (* None = dump unchanged *) }.
Record block := mkBlock {
  b_height : Z; b_time : Z; b_txs : list (tx * txobs); b_updates : list (Z * Z); b_after : obs }.
Record case := mkCase { c_params : params; c_init : state; c_blocks : list block }.

Definition tx_after (st : state) (o : txobs) : state :=
  match o_after o with Some x => apply_obs st x | None => st end.

(* ---- equality of observations ---- *)
Definition oz_eqb := option_eqb Z.eqb.
Definition ptr_eqb (a b : ptr) := (pt_round a =? pt_round b) && oz_eqb (pt_price a) (pt_price b) &&
                                  (pt_dec a =? pt_dec b) && (pt_ts a =? pt_ts b).
Definition kv_eqb {V} (f : V -> V -> bool) (a b : Z * V) := (fst a =? fst b) && f (snd a) (snd b).
Definition tp_eqb (a b : tprices) := oz_eqb (tp_next a) (tp_next b) && list_eqb (kv_eqb ptr_eqb) (tp_list a) (tp_list b).
Definition zz_eqb (a b : Z * Z) := (fst a =? fst b) && (snd a =? snd b).
Definition prices_eqb := list_eqb (kv_eqb tp_eqb).
Definition nonces_eqb := list_eqb (kv_eqb (list_eqb zz_eqb)).
Definition store_eqb (a b : store) :=
  prices_eqb (s_prices a) (s_prices b) && nonces_eqb (s_nonces a) (s_nonces b).
Definition round_eqb (a b : round) := (r_base a =? r_base b) && (r_next a =? r_next b) && (r_status a =? r_status b).
Definition cround_eqb (a b : cround) :=
  String.eqb (cr_det a) (cr_det b) && list_eqb zz_eqb (cr_prices a) (cr_prices b) &&
  oz_eqb (cr_price a) (cr_price b) && (cr_ts a =? cr_ts b).
Definition report_eqb (a b : report) :=
  (rp_val a =? rp_val b) && (rp_power a =? rp_power b) && (rp_dec a =? rp_dec b) &&
  oz_eqb (rp_slot a) (rp_slot b) && String.eqb (rp_det a) (rp_det b) && (rp_ts a =? rp_ts b).
(* the part of a worker that says what has been counted towards the round *)
Definition worker_counted_eqb (a b : worker) :=
  Bool.eqb (w_sealed a) (w_sealed b) && oz_eqb (w_price a) (w_price b) &&
  option_eqb (list_eqb cround_eqb) (w_crounds a) (w_crounds b) &&
  list_eqb report_eqb (w_reports a) (w_reports b) && (w_rpower a =? w_rpower b) &&
  option_eqb String.eqb (w_ds a) (w_ds b) && oz_eqb (w_final a) (w_final b).
Definition worker_eqb (a b : worker) :=
  worker_counted_eqb a b &&
  list_eqb (kv_eqb (list_eqb Z.eqb)) (w_fnonces a) (w_fnonces b) &&
  list_eqb (kv_eqb (list_eqb String.eqb)) (w_fdets a) (w_fdets b) &&
  (w_vlen a =? w_vlen b) && (w_total a =? w_total b).
Definition rounds_eqb := list_eqb (kv_eqb round_eqb).
Definition mem_eqb (a b : mem) :=
  list_eqb zz_eqb (m_vals a) (m_vals b) && (m_total a =? m_total b) &&
  rounds_eqb (m_rounds a) (m_rounds b) &&
  list_eqb (kv_eqb worker_eqb) (m_workers a) (m_workers b).
Definition state_eqb (a b : state) := store_eqb (st_store a) (st_store b) && mem_eqb (st_mem a) (st_mem b).

(* ---- check_case: run the model from the observed state, compare after every tx / block ----
   step numbering: 1000*block index + tx index (1-based), EndBlock = 1000*block index + 999 *)
(* the CheckTx step: ante on (prices irrelevant, check-state nonce table) *)
Definition check_tx_step (p : params) (cn : list (Z * list (Z * Z))) (t : tx) (o : txobs)
  : list (Z * list (Z * Z)) * bool :=
  match o_check o with
  | None => (cn, true)
  | Some b => match ante p (mkStore [] cn) t with
              | Some s1 => (s_nonces s1, b)
              | None => (cn, negb b)
              end
  end.

Fixpoint check_txs (p : params) (now : Z) (st : state) (cn : list (Z * list (Z * Z))) (l : list (tx * txobs)) (i : nat)
  : state * option nat :=
  match l with
  | [] => (st, None)
  | (t, o) :: r =>
      let '(cn', okc) := check_tx_step p cn t o in
      let '(st', adm, ok) := deliver_tx p now st t in
      let obs := tx_after st o in
      if okc && Bool.eqb adm (o_admitted o) && Bool.eqb ok (o_ok o) && state_eqb st' obs
      then check_txs p now obs cn' r (S i) else (st', Some i)
  end.

Fixpoint check_blocks (p : params) (st : state) (bs : list block) (i : nat) : option nat :=
  match bs with
  | [] => None
  | b :: r =>
      match check_txs p (b_time b) st (s_nonces (st_store st)) (b_txs b) (1000 * i + 1) with
      | (_, Some j) => Some j
      | (st1, None) =>
          let st2 := end_block p (b_height b) (b_updates b) st1 in
          let obs := apply_obs st1 (b_after b) in
          if state_eqb st2 obs then check_blocks p obs r (S i) else Some (1000 * i + 999)%nat
      end
  end.

(* division by a zero interval is a Go panic; such params are outside the model *)
Definition params_wf (p : params) : bool := forallb (fun f => 1 <=? f_interval f) (p_feeders p).

Definition check_case (c : case) : option nat :=
  if negb (params_wf (c_params c)) then Some 0%nat
  else check_blocks (c_params c) (c_init c) (c_blocks c) 0.

(* ================= property monitors: the statements of C12 / C13 evaluated on the OBSERVED trace =================
   Nothing below calls deliver_tx / end_block / create_price: the monitors look at the inputs (params, txs,
   validator updates, block heights / times) and at what the implementation was observed to do. *)

(* Params.Validate, the part that matters here *)
Definition feeder_valid (p : params) (f : feeder) : bool :=
  (1 <=? f_token f) && (1 <=? f_start_round f) && (1 <=? f_interval f) && (1 <=? f_start f) &&
  ((f_end f =? 0) || ((f_start f <? f_end f) && (p_max_nonce p <=? (f_end f - f_start f) mod f_interval f))) &&
  (2 * p_max_nonce p <=? f_interval f) &&
  (match token_decimal p (f_token f) with Some _ => true | None => false end).

Definition params_valid (p : params) : bool :=
  (1 <=? p_max_nonce p) && (1 <=? p_max_detid p) && (1 <=? p_thr_a p) && (p_thr_a p <=? p_thr_b p) &&
  (1 <=? p_max_size p) && forallb (feeder_valid p) (p_feeders p).

(* ghost log kept by the monitors: counted submissions (from the tx inputs of txs observed to succeed) *)
Record sub := mkSub { sb_feeder : Z; sb_base : Z; sb_val : Z; sb_det : string; sb_price : Z }.

Definition subs_of_msg (x : msg) : list sub :=
  flat_map (fun ps => map (fun it => mkSub (m_feeder x) (m_base x) (m_creator x) (pi_det it) (pi_price it)) (ps_prices ps))
           (m_prices x).

Definition subs_of_tx (t : tx) : list sub := flat_map subs_of_msg (t_msgs t).

(* the first price a validator reported for a det-ID in a round (later, conflicting values are ignored) *)
Fixpoint first_price (l : list sub) (fid base v : Z) (det : string) : option Z :=
  match l with
  | [] => None
  | s :: r => if (sb_feeder s =? fid) && (sb_base s =? base) && (sb_val s =? v) && String.eqb (sb_det s) det
              then Some (sb_price s) else first_price r fid base v det
  end.

Definition reported (l : list sub) (fid base v : Z) : bool :=
  existsb (fun s => (sb_feeder s =? fid) && (sb_base s =? base) && (sb_val s =? v)) l.

Definition power_sum (vals : list (Z * Z)) (f : Z -> bool) : Z :=
  zsum (map (fun vp => if f (fst vp) then snd vp else 0) vals).

(* the statement "more than A/B of the power has reported, and more than A/B agrees on (det, price)" *)
Definition supermajority (p : params) (vals : list (Z * Z)) (total : Z) (l : list sub) (fid base price : Z) : bool :=
  exceeds p (power_sum vals (reported l fid base)) total &&
  existsb (fun s => (sb_feeder s =? fid) && (sb_base s =? base) &&
                    exceeds p (power_sum vals (fun v => match first_price l fid base v (sb_det s) with
                                                        | Some x => x =? price | None => false end)) total) l.

(* expected round id of the round whose base block is [base] *)
Definition round_id_at (f : feeder) (base : Z) : Z := f_start_round f + (base - f_start f) / f_interval f.

(* --- C12, step over a transaction --- *)
Definition carry_of (prev : option ptr) (n : Z) : ptr :=
  match prev with
  | Some x => mkPtr (pt_round x + 1) (pt_price x) (pt_dec x) (pt_ts x)
  | None => mkPtr n None 0 (-1)
  end.

(* what may happen to one token's price list in one step: nothing, or exactly one new round written at the
   expected key; old rounds are never rewritten; the list never grows beyond the cap *)
Definition token_step (p : params) (tb ta : tprices) : option (option ptr) :=   (* Some None = unchanged; Some (Some x) = x written; None = bad *)
  let nb := next_round_id tb in
  let na := next_round_id ta in
  if (na =? nb) && tp_eqb tb ta then Some None
  else if na =? nb + 1 then
    match zget (tp_list ta) nb with
    | Some x =>
        if forallb (fun kv => (fst kv =? nb) ||
                              match zget (tp_list tb) (fst kv) with Some y => ptr_eqb y (snd kv) | None => false end)
                   (tp_list ta) &&
           ((zlen (tp_list ta) <=? p_max_size p) || (zlen (tp_list ta) <=? zlen (tp_list tb)))
        then Some (Some x) else None
    | None => None
    end
  else None.

Definition tokens_of (a b : store) : list Z := map fst (s_prices a) ++ map fst (s_prices b).

(* [trusted fid base]: the monitor's log of counted submissions is complete for that round (the round was opened
   inside the case, or the case started without a worker for the feeder); cases of suite abci are consecutive cuts of
   one chain and may start in the middle of a round *)
(* the validator set as the PROPERTY defines it: the set the case started with, changed by the validator-set updates
   of the blocks (power 0 = removed). The monitors weigh reports with it, not with the powers found in memory. *)
Definition spec_update (vals : list (Z * Z)) (u : Z * Z) : list (Z * Z) :=
  if snd u =? 0 then zdel vals (fst u) else zset vals (fst u) (snd u).
Definition spec_vals (vals : list (Z * Z)) (updates : list (Z * Z)) : list (Z * Z) := fold_left spec_update updates vals.

Definition c12_tx_ok (p : params) (vals : list (Z * Z)) (trusted : Z -> Z -> bool) (log : list sub) (before after : state) (t : tx) (o : txobs) : bool :=
  let total := zsum (map snd vals) in
  forallb (fun tok =>
    match token_step p (get_tp (st_store before) tok) (get_tp (st_store after) tok) with
    | None => false
    | Some None => true
    | Some (Some x) =>
        o_admitted o && o_ok o &&
        existsb (fun m =>
          match get_feeder p (m_feeder m) with
          | Some f =>
              (f_token f =? tok) &&
              let prev := latest_price (get_tp (st_store before) tok) in
              let nb := next_round_id (get_tp (st_store before) tok) in
              match pt_price x with
              | Some pr =>
                  (* a final price: the agreed value, for the expected round, with the token's decimals *)
                  ((negb (trusted (m_feeder m) (m_base m)) || supermajority p vals total log (m_feeder m) (m_base m) pr) &&
                   (pt_round x =? round_id_at f (m_base m)) && (pt_round x =? nb) &&
                   (match token_decimal p tok with Some d => pt_dec x =? d | None => false end))
                  (* or the fallback of CreatePrice (round id mismatch): the previous price again, still only
                     after a super-majority agreed on some value *)
                  || (ptr_eqb x (carry_of prev nb) &&
                      (negb (trusted (m_feeder m) (m_base m)) ||
                       existsb (fun s => supermajority p vals total log (m_feeder m) (m_base m) (sb_price s)) log))
              | None =>
                  ptr_eqb x (carry_of prev nb) &&
                  (negb (trusted (m_feeder m) (m_base m)) ||
                   existsb (fun s => supermajority p vals total log (m_feeder m) (m_base m) (sb_price s)) log)
              end
          | None => false
          end) (t_msgs t)
    end) (tokens_of (st_store before) (st_store after)).

(* --- C12, step over EndBlock --- *)
Definition feeder_ended (f : feeder) (b : Z) : bool := (0 <? f_end f) && (f_end f <=? b).

Definition nogap_state (p : params) (f : feeder) (b next : Z) (forced : bool) : bool :=
  if b <? f_start f then true
  else if feeder_ended f b then next =? f_start_round f + (f_end f - 1 - f_start f) / f_interval f + 1
  else
    let eid := round_id_at f b in
    let left := (b - f_start f) mod f_interval f in
    (eid <=? next) && (next <=? eid + 1) &&
    (if p_max_nonce p <=? left then next =? eid + 1 else true) &&
    (if forced && negb (left =? 0) then next =? eid + 1 else true).

(* precondition: store and (observed) memory agree on where the feeder stands after block b *)
Definition nogap_pre (p : params) (f : feeder) (b : Z) (st : state) : bool :=
  let next := next_round_id (get_tp (st_store st) (f_token f)) in
  if b <? f_start f then next =? f_start_round f
  else if feeder_ended f b then nogap_state p f b next false
  else
    nogap_state p f b next false &&
    match zget (m_rounds (st_mem st)) (f_id f) with
    | Some r => (r_next r =? round_id_at f b) &&
                (r_base r =? b - (b - f_start f) mod f_interval f) &&
                (next =? r_next r + (if r_status r =? 1 then 0 else 1))
    | None => false
    end.

Definition distinct_tokens (p : params) : bool :=
  forallb (fun f => Z.of_nat (List.length (filter (fun g => f_token g =? f_token f) (p_feeders p))) =? 1) (p_feeders p).

(* the feeder that is responsible for a token at block b: the latest started one (Params.Validate lets a new feeder
   continue a token after the previous feeder's end block, with the round ids continuing); before any has started,
   the one that starts first *)
Definition current_feeder (p : params) (tok b : Z) : option feeder :=
  let fs := filter (fun f => f_token f =? tok) (p_feeders p) in
  let started := filter (fun f => f_start f <=? b) fs in
  match started with
  | f0 :: r => Some (fold_left (fun a f => if f_start a <? f_start f then f else a) r f0)
  | [] => match fs with
          | f0 :: r => Some (fold_left (fun a f => if f_start f <? f_start a then f else a) r f0)
          | [] => None
          end
  end.

Definition feeder_tokens (p : params) : list Z :=
  fold_left (fun acc f => if mem_z (f_token f) acc then acc else acc ++ [f_token f]) (p_feeders p) [].

(* [tracked]: the tokens for which store and memory agreed (nogap_pre of the responsible feeder) in the initial state
   of the case; for those the round-numbering statement must hold after every EndBlock, whatever happened in between.
   [vals']: the validator set after this block's update, as the property defines it. *)
Definition c12_end_ok (p : params) (tracked : list Z) (vals' : list (Z * Z)) (h : Z) (updates : list (Z * Z)) (before after : state) : bool :=
  let forced := match updates with [] => false | _ => true end in
  (* every token: nothing, or one carried-forward round *)
  forallb (fun tok =>
    let tb := get_tp (st_store before) tok in
    match token_step p tb (get_tp (st_store after) tok) with
    | None => false
    | Some None => true
    | Some (Some x) => ptr_eqb x (carry_of (latest_price tb) (next_round_id tb))
    end) (tokens_of (st_store before) (st_store after)) &&
  (* a validator-set change replaces the weights: exactly the new set, total = their sum *)
  (if forced then list_eqb zz_eqb (m_vals (st_mem after)) vals' && (m_total (st_mem after) =? zsum (map snd vals')) else true) &&
  (* round numbering: one round per interval, closed exactly once.
     (the statement is evaluated for invalid params as well, should such params ever get stored) *)
  forallb (fun tok =>
     match current_feeder p tok h with
     | Some f => nogap_state p f h (next_round_id (get_tp (st_store after) tok)) forced
     | None => true
     end) tracked.

(* --- C13, step over a transaction --- *)
Fixpoint count_prior (l : list msg) (creator fid : Z) : Z :=
  match l with
  | [] => 0
  | x :: r => (if (m_creator x =? creator) && (m_feeder x =? fid) then 1 else 0) + count_prior r creator fid
  end.

Fixpoint row_value (row : list (Z * Z)) (fid : Z) : option Z :=
  match row with [] => None | (f, v) :: r => if f =? fid then Some v else row_value r fid end.

(* the admission statement, clause by clause, on the observed state before the tx *)
Fixpoint admit_msgs_ok (p : params) (vals : list (Z * Z)) (before : state) (done todo : list msg) : bool :=
  match todo with
  | [] => true
  | x :: r =>
      (match zget vals (m_creator x) with Some _ => true | None => false end) &&
      (match zget (m_rounds (st_mem before)) (m_feeder x) with Some rd => r_status rd =? 1 | None => false end) &&
      (match get_feeder p (m_feeder x) with Some _ => true | None => false end) &&
      (match zget (s_nonces (st_store before)) (m_creator x) with
       | Some row => match row_value row (m_feeder x) with
                     | Some v => (as_u32 (m_nonce x) =? v + 1 + count_prior done (m_creator x) (m_feeder x)) &&
                                 (as_u32 (m_nonce x) <=? p_max_nonce p)
                     | None => false
                     end
       | None => false
       end) &&
      admit_msgs_ok p vals before (done ++ [x]) r
  end.

Definition admit_ok (p : params) (vals : list (Z * Z)) (before : state) (t : tx) : bool :=
  (t_size t <=? tx_size_limit) && t_pk_ok t && t_sig_ok t && admit_msgs_ok p vals before [] (t_msgs t).

(* the counting statement for one message *)
Definition count_msg_ok (p : params) (now : Z) (log : list sub) (before : state) (x : msg) : bool :=
  (match zget (m_rounds (st_mem before)) (m_feeder x), get_feeder p (m_feeder x) with
   | Some rd, Some f =>
       (m_base x =? r_base rd) &&
       (match m_prices x with [ps] => ps_id ps =? 1 | _ => false end) &&
       (match token_decimal p (f_token f) with
        | Some d => forallb (fun ps => forallb (fun it => pi_dec it =? d) (ps_prices ps)) (m_prices x)
        | None => false
        end)
   | _, _ => false
   end) &&
  forallb (fun ps => forallb (fun it => (0 <=? pi_ts it) && (pi_ts it * 1000000000 <=? now + five_s)) (ps_prices ps)) (m_prices x) &&
  forallb (fun ps => forallb pi_num (ps_prices ps)) (m_prices x) &&
  existsb (fun ps => existsb (fun it =>
             match first_price log (m_feeder x) (m_base x) (m_creator x) (pi_det it) with None => true | Some _ => false end)
             (ps_prices ps)) (m_prices x).

Definition fresh_like (w : worker) : bool :=
  negb (w_sealed w) && (match w_price w with None => true | _ => false end) &&
  (match w_crounds w with None => true | _ => false end) && (match w_reports w with [] => true | _ => false end) &&
  (w_rpower w =? 0) && (match w_ds w with None => true | _ => false end) && (match w_final w with None => true | _ => false end).

(* same counted content per feeder; a missing worker counts as a fresh empty one *)
Definition workers_counted_same (a b : list (Z * worker)) : bool :=
  forallb (fun fid =>
    match zget a fid, zget b fid with
    | Some x, Some y => worker_counted_eqb x y
    | None, Some y => fresh_like y
    | Some x, None => fresh_like x
    | None, None => true
    end) (map fst a ++ map fst b).

Definition only_nonce_of (creators : list Z) (before after : state) : bool :=
  prices_eqb (s_prices (st_store before)) (s_prices (st_store after)) &&
  (st_digest before =? st_digest after) &&
  forallb (fun v => mem_z v creators ||
                    option_eqb (list_eqb zz_eqb) (zget (s_nonces (st_store before)) v) (zget (s_nonces (st_store after)) v))
          (map fst (s_nonces (st_store before)) ++ map fst (s_nonces (st_store after))) &&
  list_eqb zz_eqb (m_vals (st_mem before)) (m_vals (st_mem after)) &&
  (m_total (st_mem before) =? m_total (st_mem after)) &&
  rounds_eqb (m_rounds (st_mem before)) (m_rounds (st_mem after)) &&
  workers_counted_same (m_workers (st_mem before)) (m_workers (st_mem after)).

(* admitted-message log for the bound: (creator, feeder, base block of the feeder's round when admitted) *)
Definition adm_of_tx (before : state) (t : tx) : list (Z * Z * Z) :=
  map (fun x => (m_creator x, m_feeder x,
                 match zget (m_rounds (st_mem before)) (m_feeder x) with Some rd => r_base rd | None => -1 end)) (t_msgs t).

Definition adm_count (l : list (Z * Z * Z)) (k : Z * Z * Z) : Z :=
  let '(c, f, b) := k in
  zlen (filter (fun e => let '(c', f', b') := e in (c =? c') && (f =? f') && (b =? b')) l).

(* processes the messages of a successful tx in order, extending the ghost log as it goes *)
Fixpoint count_msgs_ok (p : params) (now : Z) (log : list sub) (before : state) (l : list msg) : bool :=
  match l with
  | [] => true
  | x :: r => count_msg_ok p now log before x && count_msgs_ok p now (log ++ subs_of_msg x) before r
  end.

Definition c13_tx_ok (p : params) (vals : list (Z * Z)) (now : Z) (log : list sub) (adm : list (Z * Z * Z))
           (before after : state) (t : tx) (o : txobs) : bool :=
  if negb (o_admitted o) then
    (* not admitted: nothing changes at all (store and memory), and it cannot have succeeded *)
    negb (o_ok o) && (match o_after o with None => true | Some _ => false end)
  else
    admit_ok p vals before t &&
    forallb (fun k => adm_count (adm ++ adm_of_tx before t) k <=? p_max_nonce p) (adm_of_tx before t) &&
    (if o_ok o then count_msgs_ok p now log before (t_msgs t)
     else only_nonce_of (map m_creator (t_msgs t)) before after).

(* CheckTx: admitted to the mempool only under the same admission statement, evaluated on the committed state
   plus the messages CheckTx admitted earlier in this block *)
Definition c13_check_ok (p : params) (vals : list (Z * Z)) (blk : state) (chk : list msg) (t : tx) (o : txobs) : bool :=
  match o_check o with
  | Some true =>
      (t_size t <=? tx_size_limit) && t_pk_ok t && t_sig_ok t && admit_msgs_ok p vals blk chk (t_msgs t)
  | _ => true
  end.

(* --- running the monitors over a case --- *)
(* mn_blk: observed state at the start of the current block (= committed state); mn_chk: messages of the txs of
   this block that CheckTx admitted so far *)
(* mn_vals: the validator set as defined by the case's initial set and the updates so far *)
Record mon := mkMon { mn_st : state; mn_log : list sub; mn_adm : list (Z * Z * Z); mn_blk : state; mn_chk : list msg; mn_vals : list (Z * Z) }.

Fixpoint mon_txs (f : mon -> Z -> state -> tx -> txobs -> bool) (now : Z) (m : mon) (l : list (tx * txobs)) (i : nat)
  : mon * option nat :=
  match l with
  | [] => (m, None)
  | (t, o) :: r =>
      let after := tx_after (mn_st m) o in
      if f m now after t o then
        let log' := if o_admitted o && o_ok o then mn_log m ++ subs_of_tx t else mn_log m in
        let adm' := if o_admitted o then mn_adm m ++ adm_of_tx (mn_st m) t else mn_adm m in
        let chk' := match o_check o with Some true => mn_chk m ++ t_msgs t | _ => mn_chk m end in
        mon_txs f now (mkMon after log' adm' (mn_blk m) chk' (mn_vals m)) r (S i)
      else (m, Some i)
  end.

Fixpoint mon_blocks (ftx : mon -> Z -> state -> tx -> txobs -> bool)
         (fend : list (Z * Z) -> Z -> list (Z * Z) -> state -> state -> bool) (m : mon) (bs : list block) (i : nat) : option nat :=
  match bs with
  | [] => None
  | b :: r =>
      match mon_txs ftx (b_time b) m (b_txs b) (1000 * i + 1) with
      | (_, Some j) => Some j
      | (m1, None) =>
          let after := apply_obs (mn_st m1) (b_after b) in
          let vals' := spec_vals (mn_vals m1) (b_updates b) in
          if fend vals' (b_height b) (b_updates b) (mn_st m1) after
          then mon_blocks ftx fend (mkMon after (mn_log m1) (mn_adm m1) after [] vals') r (S i)
          else Some (1000 * i + 999)%nat
      end
  end.

Definition tracked_tokens (c : case) : list Z :=
  match c_blocks c with
  | [] => []
  | b :: _ => filter (fun tok => match current_feeder (c_params c) tok (b_height b - 1) with
                                 | Some f => nogap_pre (c_params c) f (b_height b - 1) (c_init c)
                                 | None => false
                                 end) (feeder_tokens (c_params c))
  end.

Definition mon_init (c : case) : mon := mkMon (c_init c) [] [] (c_init c) [] (m_vals (st_mem (c_init c))).

(* every path that stores oracle params validates them (UpdateParams, and since the repair the token registration), so
   the params a case is recorded with - the ones the chain really had - must satisfy Params.Validate's feeder rules;
   step 0 = they do not *)
Definition monitor_c12 (c : case) : option nat :=
  let p := c_params c in
  let h_first := match c_blocks c with b :: _ => b_height b | [] => 0 end in
  let trusted := fun fid base =>
    (h_first <=? base) || match zget (m_workers (st_mem (c_init c))) fid with None => true | Some _ => false end in
  match
  mon_blocks (fun m now after t o =>
                c12_tx_ok p (mn_vals m) trusted (if o_admitted o && o_ok o then mn_log m ++ subs_of_tx t else mn_log m) (mn_st m) after t o)
             (c12_end_ok p (tracked_tokens c)) (mon_init c) (c_blocks c) 0
  with
  | Some j => Some j          (* a concrete failing step comes first *)
  | None => if params_valid p then None else Some 0%nat
  end.

(* C13 after EndBlock: nonce rows are what lets a fee-less tx in, so
   - every row (v, f) belongs to a member v of the validator set as the property defines it (after this block's update)
     and to a feeder f whose round is open ("nobody else gets any");
   - every round that this EndBlock opened (base block = this height, open) has a zero row for every member. *)
Definition c13_end_ok (vals' : list (Z * Z)) (h : Z) (updates : list (Z * Z)) (before after : state) : bool :=
  let rounds := m_rounds (st_mem after) in
  let nonces := s_nonces (st_store after) in
  forallb (fun vr =>
             (match zget vals' (fst vr) with Some _ => true | None => false end) &&
             forallb (fun fv => match zget rounds (fst fv) with Some r => r_status r =? 1 | None => false end) (snd vr))
          nonces &&
  forallb (fun fr =>
             if (r_status (snd fr) =? 1) && (r_base (snd fr) =? h) then
               forallb (fun vp => match zget nonces (fst vp) with
                                  | Some row => match row_value row (fst fr) with Some x => x =? 0 | None => false end
                                  | None => false
                                  end) vals'
             else true) rounds.

Definition monitor_c13 (c : case) : option nat :=
  let p := c_params c in
  mon_blocks (fun m now after t o => c13_tx_ok p (mn_vals m) now (mn_log m) (mn_adm m) (mn_st m) after t o &&
                                     c13_check_ok p (mn_vals m) (mn_blk m) (mn_chk m) t o)
             c13_end_ok (mon_init c) (c_blocks c) 0.

(* ================= kernel cases: the pure functions BigIntList.Median and ExceedsThreshold =================
   The oracle suite reaches Median only with equal per-validator values (single deterministic source), so the two
   pure kernels are additionally run on their own over boundary-biased inputs. *)
Inductive kcase :=
| KMedian (l : list Z) (res : option Z)                     (* None = the Go call panicked *)
| KThreshold (a b power total : Z) (res : bool).

Definition check_kcase (k : kcase) : option nat :=
  match k with
  | KMedian l res => if option_eqb Z.eqb (median l) res then None else Some 0%nat
  | KThreshold a b power total res =>
      if Bool.eqb (exceeds (mkParams 0 a b 0 0 [] []) power total) res then None else Some 0%nat
  end.

(* the statements themselves, on the observed results *)
Fixpoint count_le (x : Z) (l : list Z) : nat :=
  match l with [] => 0 | y :: r => (if y <=? x then 1 else 0) + count_le x r end.
Fixpoint count_lt (x : Z) (l : list Z) : nat :=
  match l with [] => 0 | y :: r => (if y <? x then 1 else 0) + count_lt x r end.

(* [x] is an element at (0-based) position [i] of the sorted list, expressed without sorting *)
Definition at_rank (l : list Z) (i : nat) (x : Z) : bool :=
  existsb (Z.eqb x) l && Nat.leb (count_lt x l) i && Nat.ltb i (count_le x l).

Definition monitor_kcase (k : kcase) : option nat :=
  match k with
  | KMedian l res =>
      let n := List.length l in
      match res with
      | None => if Nat.eqb n 0 then None else Some 0%nat
      | Some x =>
          if Nat.eqb n 0 then Some 0%nat
          else if Nat.eqb (Nat.modulo n 2) 1 then (if at_rank l (Nat.div n 2) x then None else Some 0%nat)
          else if existsb (fun a => existsb (fun b => at_rank l (Nat.div n 2) a && at_rank l (Nat.div n 2 - 1) b &&
                                                     (x =? (a + b) / 2)) l) l
               then None else Some 0%nat
      end
  | KThreshold a b power total res =>
      if Bool.eqb res (total * a <? power * b) then None else Some 0%nat
  end.
