(* Oracle/Lemmas.v — generic facts about the Z-keyed association lists and small helpers of Oracle/Model.v. *)
From Coq Require Import List String Bool ZArith Lia.
From Exo Require Import Base.Util Oracle.Model.
Import ListNotations.
Local Open Scope Z_scope.

Section ZMapFacts.
  Context {V : Type}.

  Lemma zget_zset_same (l : list (Z * V)) k v : zget (zset l k v) k = Some v.
  Proof.
    induction l as [|[k' v'] r IH]; simpl.
    - rewrite Z.eqb_refl. reflexivity.
    - destruct (k =? k') eqn:E; simpl.
      + rewrite Z.eqb_refl. reflexivity.
      + destruct (k <? k'); simpl.
        * rewrite Z.eqb_refl. reflexivity.
        * rewrite E. exact IH.
  Qed.

  Lemma zget_zset_other (l : list (Z * V)) k k2 v : k2 <> k -> zget (zset l k v) k2 = zget l k2.
  Proof.
    intro Hne. induction l as [|[k' v'] r IH]; simpl.
    - destruct (k2 =? k) eqn:E; [apply Z.eqb_eq in E; contradiction | reflexivity].
    - destruct (k =? k') eqn:E; simpl.
      + apply Z.eqb_eq in E. subst k'.
        destruct (k2 =? k) eqn:E2; [apply Z.eqb_eq in E2; contradiction | reflexivity].
      + destruct (k <? k'); simpl.
        * destruct (k2 =? k) eqn:E2; [apply Z.eqb_eq in E2; contradiction | reflexivity].
        * destruct (k2 =? k'); [reflexivity | exact IH].
  Qed.

  Lemma zget_zset (l : list (Z * V)) k k2 v :
    zget (zset l k v) k2 = if k2 =? k then Some v else zget l k2.
  Proof.
    destruct (k2 =? k) eqn:E.
    - apply Z.eqb_eq in E. subst. apply zget_zset_same.
    - apply Z.eqb_neq in E. apply zget_zset_other. exact E.
  Qed.

  Lemma zget_zdel_other (l : list (Z * V)) k k2 : k2 <> k -> zget (zdel l k) k2 = zget l k2.
  Proof.
    intro Hne. induction l as [|[k' v'] r IH]; simpl; [reflexivity|].
    destruct (k =? k') eqn:E; simpl.
    - apply Z.eqb_eq in E. subst k'.
      destruct (k2 =? k) eqn:E2; [apply Z.eqb_eq in E2; contradiction | reflexivity].
    - destruct (k2 =? k'); [reflexivity | exact IH].
  Qed.
End ZMapFacts.

Lemma exceeds_spec p power total :
  exceeds p power total = true <-> total * p_thr_a p < power * p_thr_b p.
Proof. unfold exceeds. apply Z.ltb_lt. Qed.

Lemma zlen_nonneg {A} (l : list A) : 0 <= zlen l.
Proof. unfold zlen. lia. Qed.

Lemma zlen_app {A} (l1 l2 : list A) : zlen (l1 ++ l2) = zlen l1 + zlen l2.
Proof. unfold zlen. rewrite app_length. lia. Qed.

Section ZMapIn.
  Context {V : Type}.
  Lemma zget_in (l : list (Z * V)) k v : zget l k = Some v -> In (k, v) l.
  Proof.
    induction l as [|[k' v'] r IH]; simpl; [discriminate|].
    destruct (k =? k') eqn:E; intro H.
    - apply Z.eqb_eq in E. subst k'. inversion H; subst. left. reflexivity.
    - right. exact (IH H).
  Qed.
  Lemma in_zset (l : list (Z * V)) k v x : In x (zset l k v) -> x = (k, v) \/ In x l.
  Proof.
    induction l as [|[k' v'] r IH]; simpl.
    - intros [H|[]]; left; symmetry; exact H.
    - destruct (k =? k'); simpl.
      + intros [H|H]; [left; symmetry; exact H | right; right; exact H].
      + destruct (k <? k'); simpl.
        * intros [H|H]; [left; symmetry; exact H | right; exact H].
        * intros [H|H]; [right; left; exact H | destruct (IH H) as [E|E]; [left; exact E | right; right; exact E]].
  Qed.
  Lemma in_zdel (l : list (Z * V)) k x : In x (zdel l k) -> In x l.
  Proof.
    induction l as [|[k' v'] r IH]; simpl; [auto|].
    destruct (k =? k'); simpl; [intro H; right; exact H | intros [H|H]; [left; exact H | right; exact (IH H)]].
  Qed.
End ZMapIn.
