(* C16/Proofs.v — lemmas for the C16 theorems (on top of the shared invariant of Dogfood/Proofs.v). *)
From Coq Require Import List Bool ZArith Lia.
From Exo Require Import Base.Util Dogfood.Model Dogfood.Proofs C16.Model.
Import ListNotations.
Local Open Scope Z_scope.

Lemma no_hold s o r :
  k_rm s o = false -> validating s o = false -> step s (Undelegate o r) = (s, ROk).
Proof. intros H1 H2. simpl. unfold undelegate. rewrite H1, H2. reflexivity. Qed.

Lemma registered_on_time s o r :
  k_rm s o = false -> validating s o = true ->
  let s' := fst (step s (Undelegate o r)) in
  snd (step s (Undelegate o r)) = ROk /\ In (cur s + unb s, r) (q_und s') /\ mat s' r = Some (cur s + unb s) /\
  holds s' r = holds s r + 1 /\ (forall r', r' <> r -> holds s' r' = holds s r') /\
  q_opt s' = q_opt s /\ q_prune s' = q_prune s.
Proof.
  intros H1 H2. simpl. unfold undelegate. rewrite H1, H2. simpl. unfold completion_epoch, mset, zadd.
  rewrite !Z.eqb_refl. repeat split; try reflexivity.
  - apply In_qappend. right. reflexivity.
  - intros r' Hne. destruct (Z.eqb_spec r' r); [contradiction | reflexivity].
Qed.

Lemma with_optout s o r f :
  k_rm s o = true -> fin s o = Some f ->
  let s' := fst (step s (Undelegate o r)) in
  snd (step s (Undelegate o r)) = ROk /\ In (f, r) (q_und s') /\ mat s' r = Some f /\ holds s' r = holds s r + 1.
Proof.
  intros H1 H2. simpl. unfold undelegate. rewrite H1, H2. simpl. unfold mset, zadd. rewrite !Z.eqb_refl.
  repeat split; try reflexivity. apply In_qappend. right. reflexivity.
Qed.

Lemma optout_has_finish_epoch s o : Inv s -> k_rm s o = true -> ~ In o (p_opt s) ->
  exists f, fin s o = Some f /\ cur s <= f /\ In (f, o) (q_opt s).
Proof.
  intros I H Hn. pose proof (i_core s I) as C. destruct (i_rm s C o H) as (_ & _ & [H3|[f H3]]); [contradiction|].
  exists f. split; [assumption|]. pose proof (i_fin s C o f H3) as Hin. split; [|assumption].
  apply (i_str_opt s C (f, o) Hin).
Qed.

Lemma no_stranded s0 h : Inv s0 ->
  let s := hrun s0 h in
  (forall p, In p (q_opt s) -> cur s <= fst p) /\ (forall p, In p (q_prune s) -> cur s <= fst p) /\
  (forall p, In p (q_und s) -> cur s <= fst p).
Proof. intro I. pose proof (i_core _ (inv_hrun h s0 I)) as C. destruct C. auto. Qed.

Lemma drained s0 h : Inv s0 ->
  let s := hrun s0 h in
  (forall r, holds s r = zcount r (map snd (q_und s)) + zcount r (p_und s)) /\
  (ep_end s = false -> p_opt s = [] /\ p_prune s = [] /\ p_und s = []).
Proof. intro I. pose proof (inv_hrun h s0 I) as I'. split; [apply (i_holds _ (i_core _ I')) | apply (i_pend _ I')]. Qed.

Lemma not_early s0 h f x : Inv s0 ->
  all_states (fun t => cur t <= f) s0 h ->
  let s := hrun s0 h in
  (In (f, x) (q_und s0) -> In (f, x) (q_und s) /\ 1 <= holds s x) /\
  (In (f, x) (q_opt s0) -> In (f, x) (q_opt s) /\ k_rm s x = true) /\
  (In (f, x) (q_prune s0) -> In (f, x) (q_prune s) /\ k_rev s x <> None).
Proof.
  intros I Hall s. destruct (hrun_keeps h s0 f I Hall) as (A1 & A2 & A3). fold s in A1, A2, A3.
  pose proof (inv_hrun h s0 I) as I'. fold s in I'. pose proof (i_core s I') as C.
  repeat split.
  - apply A3; assumption.
  - assert (Hin : In (f, x) (q_und s)) by (apply A3; assumption).
    rewrite (i_holds s C x). pose proof (zcount_nonneg x (p_und s)).
    assert (0 < zcount x (map snd (q_und s))); [|lia].
    clear - Hin. induction (q_und s) as [|[g y] q IH]; [contradiction|]. simpl. rewrite zcount_cons.
    pose proof (zcount_nonneg x (map snd q)). destruct Hin as [Hin|Hin].
    + inversion Hin. subst. rewrite Z.eqb_refl. lia.
    + specialize (IH Hin). destruct (x =? y); lia.
  - apply A1; assumption.
  - apply (i_qopt s C f x). apply A1; assumption.
  - apply A2; assumption.
  - assert (Hin : In (f, x) (q_prune s)) by (apply A2; assumption).
    apply (i_prune s C x). apply in_app_iff. left. apply in_map_iff. exists (f, x). tauto.
Qed.

(* exchanging the epoch clock (EpochIdentifier) is refused while anything is scheduled or pending, so no entry can be
   stranded or delayed by it *)
Lemma clock_change_guarded s c :
  (nothing_scheduled s = false -> step s (SetClock c) = (s, ROk)) /\
  (nothing_scheduled s = true ->
     let s' := fst (step s (SetClock c)) in
     cur s' = c /\ q_opt s' = [] /\ q_prune s' = [] /\ q_und s' = [] /\ p_opt s' = [] /\ p_prune s' = [] /\ p_und s' = [] /\
     holds s' = holds s /\ k_rev s' = k_rev s /\ k_rm s' = k_rm s).
Proof.
  simpl. split; intro H; rewrite H; [reflexivity|]. simpl. unfold nothing_scheduled in H.
  destruct (q_opt s); [|discriminate]. destruct (q_prune s); [|discriminate]. destruct (q_und s); [|discriminate].
  destruct (p_opt s); [|discriminate]. destruct (p_prune s); [|discriminate]. destruct (p_und s); [|discriminate].
  repeat split; reflexivity.
Qed.

(* the block whose BeginBlock closes epoch [cur s] moves exactly queue(cur s) to the pending lists *)
Lemma tick_moves_due s :
  let s' := fst (step s (BeginBlock true)) in
  cur s' = cur s + 1 /\ ep_end s' = true /\
  p_opt s' = qget (q_opt s) (cur s) /\ p_prune s' = qget (q_prune s) (cur s) /\ p_und s' = qget (q_und s) (cur s) /\
  q_opt s' = qclear (q_opt s) (cur s) /\ q_prune s' = qclear (q_prune s) (cur s) /\ q_und s' = qclear (q_und s) (cur s) /\
  holds s' = holds s /\ k_rev s' = k_rev s /\ k_rm s' = k_rm s.
Proof. simpl. repeat split; reflexivity. Qed.

(* the EndBlock of that block releases every pending entry exactly once, and the queues are untouched *)
Lemma closing_block_releases s sel : Inv s -> ep_end s = true ->
  let s' := fst (step s (EndBlock sel)) in
  snd (step s (EndBlock sel)) = ROk /\ ep_end s' = false /\
  p_opt s' = [] /\ p_prune s' = [] /\ p_und s' = [] /\
  (forall r, holds s' r = holds s r - zcount r (p_und s)) /\
  (forall o, In o (p_opt s) -> k_rm s' o = false) /\
  (forall c, In c (p_prune s) -> k_rev s' c = None) /\
  q_opt s' = q_opt s /\ q_prune s' = q_prune s /\ q_und s' = q_und s /\ cur s' = cur s.
Proof.
  intros I He. simpl. pose proof (end_block_effect s sel I) as H. cbv zeta in H.
  destruct H as (Hr & Hqo & Hqp & Hqu & Hc & _ & _ & _ & _ & H2). destruct (H2 He) as (P1 & P2 & P3 & P4 & P5 & P6 & _).
  destruct (end_block_inv s sel I) as [_ Hee]. tauto.
Qed.

Lemma other_blocks_release_nothing s sel : ep_end s = false -> step s (EndBlock sel) = (s, ROk).
Proof. intro H. simpl. unfold end_block. rewrite H. reflexivity. Qed.

(* the monitor's state predicates hold of the model on every history *)
Lemma monitor_state_sound s : Inv s -> b_no_stranded s = true /\ b_pending_only_at_epoch_end s = true.
Proof.
  intro I. pose proof (i_core s I) as C. split.
  - unfold b_no_stranded. rewrite !andb_true_iff, !forallb_forall. repeat split; intros p Hp; apply Z.leb_le.
    + apply (i_str_opt s C p Hp).
    + apply (i_str_prune s C p Hp).
    + apply (i_str_und s C p Hp).
  - unfold b_pending_only_at_epoch_end. destruct (ep_end s) eqn:He; [reflexivity|].
    destruct (i_pend s I He) as (H1 & H2 & H3). rewrite H1, H2, H3. reflexivity.
Qed.

(* "validating" (the hold decision of AfterUndelegationStarted: current key, or the key replaced during this epoch, in
   the stored validator set) coincides with owning an address of the stored validator set *)
Lemma validating_iff_owns s o : Inv s ->
  (validating s o = true -> exists c, vs s c = true /\ k_rev s c = Some o) /\
  (forall c, vs s c = true -> k_rev s c = Some o -> k_op s o <> None -> validating s o = true).
Proof.
  intro I. pose proof (i_core s I) as C. unfold validating. split.
  - destruct (k_op s o) as [k|] eqn:Hop; [|discriminate]. intro H. apply orb_true_iff in H. destruct H as [H|H].
    + exists k. split; [assumption | apply (i_fwd s C); assumption].
    + destruct (k_prev s o) as [pk|] eqn:Hp; [|discriminate]. exists pk. split; [assumption | apply (i_prev s I); assumption].
  - intros c Hv Hr Hk. destruct (k_op s o) as [k|] eqn:Hop; [|congruence].
    destruct (i_own s I c o Hv Hr) as [H|H].
    + assert (Ek : k = c) by congruence. subst k. rewrite Hv. reflexivity.
    + rewrite H, Hv. apply orb_true_r.
Qed.
