(* C16/Props.v — property theorems only.  Model: Dogfood/Model.v (repaired code); invariant: Dogfood/Proofs.v.
   Histories ([hrun]) are arbitrary sequences of transactions (opt-in with key, opt-in, key replacement, opt-out,
   undelegation, change of EpochsUntilUnbonded) and block boundaries NextBlock sel tick (EndBlock of the current block
   with ANY validator selection, then BeginBlock of the next block, which closes the current epoch iff tick — one
   tick per block also while the chain catches up after downtime, by C15). *)
From Coq Require Import List Bool ZArith.
From Exo Require Import Base.Util Dogfood.Model Dogfood.Proofs C16.Model C16.Proofs.
Import ListNotations.
Local Open Scope Z_scope.

(* registration: an undelegation from a validating operator is queued for epoch cur+unb, with exactly one hold *)
Theorem C16_registered_on_time : forall s o r,
  k_rm s o = false -> validating s o = true ->
  let s' := fst (step s (Undelegate o r)) in
  snd (step s (Undelegate o r)) = ROk /\ In (cur s + unb s, r) (q_und s') /\ mat s' r = Some (cur s + unb s) /\
  holds s' r = holds s r + 1 /\ (forall r', r' <> r -> holds s' r' = holds s r') /\
  q_opt s' = q_opt s /\ q_prune s' = q_prune s.
Proof. exact registered_on_time. Qed.
Print Assumptions C16_registered_on_time.

(* not earlier: whatever happens (any history, changes of EpochsUntilUnbonded, downtime, jailing, attempts to exchange the
   epoch clock), an entry queued for epoch f is still queued — hold in place, opt-out marker set, address resolvable — on
   every history during which epoch f is not closed ([all_states]: cur <= f in every state passed) *)
Theorem C16_not_released_early : forall s0 h f x, Inv s0 ->
  all_states (fun t => cur t <= f) s0 h ->
  let s := hrun s0 h in
  (In (f, x) (q_und s0) -> In (f, x) (q_und s) /\ 1 <= holds s x) /\
  (In (f, x) (q_opt s0) -> In (f, x) (q_opt s) /\ k_rm s x = true) /\
  (In (f, x) (q_prune s0) -> In (f, x) (q_prune s) /\ k_rev s x <> None).
Proof. exact not_early. Qed.
Print Assumptions C16_not_released_early.

(* the dogfood EpochIdentifier (the clock the queue keys refer to) can be exchanged only while nothing is scheduled or
   pending; otherwise UpdateParams keeps the old identifier.  So C16_no_stranded survives this parameter change too *)
Theorem C16_clock_change_guarded : forall s c,
  (nothing_scheduled s = false -> step s (SetClock c) = (s, ROk)) /\
  (nothing_scheduled s = true ->
     let s' := fst (step s (SetClock c)) in
     cur s' = c /\ q_opt s' = [] /\ q_prune s' = [] /\ q_und s' = [] /\ p_opt s' = [] /\ p_prune s' = [] /\ p_und s' = [] /\
     holds s' = holds s /\ k_rev s' = k_rev s /\ k_rm s' = k_rm s).
Proof. exact clock_change_guarded. Qed.
Print Assumptions C16_clock_change_guarded.

(* not later / nothing left behind: on every history every queue key is >= the current epoch *)
Theorem C16_no_stranded : forall s0 h, Inv s0 ->
  let s := hrun s0 h in
  (forall p, In p (q_opt s) -> cur s <= fst p) /\ (forall p, In p (q_prune s) -> cur s <= fst p) /\
  (forall p, In p (q_und s) -> cur s <= fst p).
Proof. exact no_stranded. Qed.
Print Assumptions C16_no_stranded.

(* exactly in the closing block: BeginBlock closing epoch e moves queue(e), and only queue(e), to pending ... *)
Theorem C16_tick_moves_due : forall s,
  let s' := fst (step s (BeginBlock true)) in
  cur s' = cur s + 1 /\ ep_end s' = true /\
  p_opt s' = qget (q_opt s) (cur s) /\ p_prune s' = qget (q_prune s) (cur s) /\ p_und s' = qget (q_und s) (cur s) /\
  q_opt s' = qclear (q_opt s) (cur s) /\ q_prune s' = qclear (q_prune s) (cur s) /\ q_und s' = qclear (q_und s) (cur s) /\
  holds s' = holds s /\ k_rev s' = k_rev s /\ k_rm s' = k_rm s.
Proof. exact tick_moves_due. Qed.
Print Assumptions C16_tick_moves_due.

(* ... and the EndBlock of that block releases each pending entry exactly once, never panics, and clears the lists *)
Theorem C16_closing_block_releases : forall s sel, Inv s -> ep_end s = true ->
  let s' := fst (step s (EndBlock sel)) in
  snd (step s (EndBlock sel)) = ROk /\ ep_end s' = false /\
  p_opt s' = [] /\ p_prune s' = [] /\ p_und s' = [] /\
  (forall r, holds s' r = holds s r - zcount r (p_und s)) /\
  (forall o, In o (p_opt s) -> k_rm s' o = false) /\
  (forall c, In c (p_prune s) -> k_rev s' c = None) /\
  q_opt s' = q_opt s /\ q_prune s' = q_prune s /\ q_und s' = q_und s /\ cur s' = cur s.
Proof. exact closing_block_releases. Qed.
Print Assumptions C16_closing_block_releases.

Theorem C16_other_blocks_release_nothing : forall s sel, ep_end s = false -> step s (EndBlock sel) = (s, ROk).
Proof. exact other_blocks_release_nothing. Qed.
Print Assumptions C16_other_blocks_release_nothing.

(* drained, once: on every history the hold count of a record equals the number of queue / pending mentions of it
   (so it is zero as soon as the entry has been released and can never be released twice), and the pending lists are
   empty outside the block that closes an epoch *)
Theorem C16_drained : forall s0 h, Inv s0 ->
  let s := hrun s0 h in
  (forall r, holds s r = zcount r (map snd (q_und s)) + zcount r (p_und s)) /\
  (ep_end s = false -> p_opt s = [] /\ p_prune s = [] /\ p_und s = []).
Proof. exact drained. Qed.
Print Assumptions C16_drained.

(* no hold for an operator whose current and previous keys are not in the stored validator set *)
Theorem C16_no_hold : forall s o r,
  k_rm s o = false -> validating s o = false -> step s (Undelegate o r) = (s, ROk).
Proof. exact no_hold. Qed.
Print Assumptions C16_no_hold.

(* the hold decision is the right one: "validating" = the operator owns an address of the stored validator set
   (through its current key or the key it replaced during this epoch), on every history *)
Theorem C16_hold_iff_validating_address : forall s0 h o, Inv s0 ->
  let s := hrun s0 h in
  (validating s o = true -> exists c, vs s c = true /\ k_rev s c = Some o) /\
  (forall c, vs s c = true -> k_rev s c = Some o -> k_op s o <> None -> validating s o = true).
Proof. intros s0 h o I. apply validating_iff_owns. apply inv_hrun. exact I. Qed.
Print Assumptions C16_hold_iff_validating_address.

(* an undelegation from an operator that is opting out matures with the opt-out; and the finish epoch exists
   whenever the marker is set and the opt-out is not being completed by the current block *)
Theorem C16_with_optout : forall s o r f,
  k_rm s o = true -> fin s o = Some f ->
  let s' := fst (step s (Undelegate o r)) in
  snd (step s (Undelegate o r)) = ROk /\ In (f, r) (q_und s') /\ mat s' r = Some f /\ holds s' r = holds s r + 1.
Proof. exact with_optout. Qed.
Print Assumptions C16_with_optout.

Theorem C16_optout_has_finish_epoch : forall s0 h o, Inv s0 ->
  let s := hrun s0 h in
  k_rm s o = true -> ~ In o (p_opt s) -> exists f, fin s o = Some f /\ cur s <= f /\ In (f, o) (q_opt s).
Proof. intros s0 h o I. apply optout_has_finish_epoch. apply inv_hrun. exact I. Qed.
Print Assumptions C16_optout_has_finish_epoch.

(* the state predicates the monitor evaluates on the implementation hold of the model on every history *)
Theorem C16_monitor_state_sound : forall s0 h, Inv s0 ->
  b_no_stranded (hrun s0 h) = true /\ b_pending_only_at_epoch_end (hrun s0 h) = true.
Proof. intros s0 h I. apply monitor_state_sound. apply inv_hrun. exact I. Qed.
Print Assumptions C16_monitor_state_sound.

(* ---- non-vacuity: a concrete state with two validating operators satisfies the invariant, and a concrete history
   registers, keeps and releases an undelegation exactly on time ---- *)
Example C16_inv_satisfiable : Inv ex_state.
Proof. exact ex_state_inv. Qed.

Definition ex_history : list hop :=
  [Tx (Undelegate 0 100); Tx (SetUnb 1); Tx (OptOut 1); Tx (Undelegate 1 101); NextBlock [0; 1] true;   (* epoch 5 closes *)
   NextBlock [0; 1] true;                                                                              (* epoch 6 closes: opt-out + record 101 *)
   NextBlock [0; 1] false].

Example ex_run :
  let s := hrun ex_state ex_history in
  (cur s, holds s 100, holds s 101, k_rm s 1, k_op s 1, q_und s) = (7, 1, 0, false, None, [(7, 100)]).
Proof. vm_compute. reflexivity. Qed.
