(* C16/Model.v — the statement of C16 as boolean predicates, evaluated on the IMPLEMENTATION's observed
   states (abs of the harness dump); the transition function of the model is not used here.
   The shared executable model (step, check_case) lives in Dogfood/Model.v. *)
From Coq Require Import List Bool ZArith Lia.
From Exo Require Import Base.Util Dogfood.Model.
Import ListNotations.
Local Open Scope Z_scope.
Local Open Scope list_scope.

Definition case_type := case.
Definition c16_check_case := check_case.

(* ---- state predicates ---- *)

(* nothing can be left behind: every queue key is >= the current epoch *)
Definition b_no_stranded (s : st) : bool :=
  forallb (fun p => cur s <=? fst p) (q_opt s) && forallb (fun p => cur s <=? fst p) (q_prune s) &&
  forallb (fun p => cur s <=? fst p) (q_und s).

(* pending lists are non-empty only inside the block that closes an epoch *)
Definition b_pending_only_at_epoch_end (s : st) : bool :=
  ep_end s || (match p_opt s, p_prune s, p_und s with [], [], [] => true | _, _, _ => false end).

(* hold count of a record = number of times a queue or the pending list mentions it (0 or 1);
   reverse lookup <-> queue entry *)
Definition b_holds_match (U : univ) (s : st) : bool :=
  forallb (fun r =>
     let n := zcount r (map snd (q_und s)) + zcount r (p_und s) in
     (holds s r =? n) && (n <=? 1) &&
     match mat s r with
     | Some f => zmem r (qget (q_und s) f) || (zmem r (p_und s) && (f =? cur s - 1))
     | None => n =? 0
     end) (u_recs U).

Definition b_fin_match (U : univ) (s : st) : bool :=
  forallb (fun o =>
     let n := zcount o (map snd (q_opt s)) in
     (n <=? 1) &&
     match fin s o with
     | Some f => zmem o (qget (q_opt s) f) && k_rm s o
     | None => n =? 0
     end) (u_ops U) &&
  forallb (fun c => zcount c (map snd (q_prune s)) + zcount c (p_prune s) <=? 1) (u_keys U).

Definition c16_state_ok (U : univ) (s : st) : bool :=
  b_no_stranded s && b_pending_only_at_epoch_end s && b_holds_match U s && b_fin_match U s.

(* ---- step predicates ---- *)
Definition q_same (U : univ) (q1 q2 : queue) : bool := q_eq_on U q1 q2.

(* the block whose BeginBlock closes epoch e moves exactly queue(e) to the pending lists *)
Definition b_tick (U : univ) (a b : st) : bool :=
  (cur b =? cur a + 1) && ep_end b &&
  lz_eqb (p_opt b) (qget (q_opt a) (cur a)) && lz_eqb (p_prune b) (qget (q_prune a) (cur a)) &&
  lz_eqb (p_und b) (qget (q_und a) (cur a)) &&
  q_same U (q_opt b) (qclear (q_opt a) (cur a)) && q_same U (q_prune b) (qclear (q_prune a) (cur a)) &&
  q_same U (q_und b) (qclear (q_und a) (cur a)) &&
  forallb (fun r => holds a r =? holds b r) (u_recs U).

Definition b_dogfood_same (U : univ) (a b : st) : bool :=
  q_same U (q_opt a) (q_opt b) && q_same U (q_prune a) (q_prune b) && q_same U (q_und a) (q_und b) &&
  lz_eqb (p_opt a) (p_opt b) && lz_eqb (p_prune a) (p_prune b) && lz_eqb (p_und a) (p_und b) &&
  Bool.eqb (ep_end a) (ep_end b) && (cur a =? cur b) &&
  forallb (fun r => (holds a r =? holds b r) && oz_eqb (mat a r) (mat b r)) (u_recs U) &&
  forallb (fun o => oz_eqb (fin a o) (fin b o)) (u_ops U).

(* EndBlock of the closing block releases every pending entry exactly once and nothing else *)
Definition b_end_block (U : univ) (a b : st) : bool :=
  if ep_end a then
    negb (ep_end b) && match p_opt b, p_prune b, p_und b with [], [], [] => true | _, _, _ => false end &&
    forallb (fun r => (holds b r =? holds a r - zcount r (p_und a)) &&
                      (negb (zmem r (p_und a)) || negb (is_some (mat b r)))) (u_recs U) &&
    forallb (fun o => negb (zmem o (p_opt a)) || (negb (k_rm b o) && negb (is_some (k_op b o)))) (u_ops U) &&
    forallb (fun c => negb (zmem c (p_prune a)) || negb (is_some (k_rev b c))) (u_keys U) &&
    q_same U (q_opt a) (q_opt b) && q_same U (q_prune a) (q_prune b) && q_same U (q_und a) (q_und b) && (cur a =? cur b)
  else b_dogfood_same U a b.

(* entries of q2 beyond q1, per epoch; None if q1 is not a per-epoch prefix of q2 *)
Fixpoint strip_prefix (l1 l2 : list Z) : option (list Z) :=
  match l1, l2 with
  | [], _ => Some l2
  | x :: r1, y :: r2 => if x =? y then strip_prefix r1 r2 else None
  | _ :: _, [] => None
  end.

Definition q_grows_only_at (U : univ) (q1 q2 : queue) (allowed : Z -> Z -> bool) : bool :=
  forallb (fun e => match strip_prefix (qget q1 e) (qget q2 e) with
                    | Some extra => forallb (allowed e) extra
                    | None => false
                    end) (u_eps U) &&
  forallb (fun p => zmem (fst p) (u_eps U)) q2.

(* a transaction only registers: new entries go to epoch cur+unb (an undelegation from an operator that is
   opting out goes to that operator's finish epoch), each with exactly one hold; nothing is released *)
Definition b_tx (U : univ) (a : st) (x : op) (r : res) (b : st) : bool :=
  let ce := cur a + unb a in
  let at_ce (e _ : Z) := e =? ce in
  let und_target :=
    match x with
    | Undelegate o _ => if k_rm a o then match fin a o with Some f => f | None => -1 end else ce
    | _ => ce
    end in
  q_grows_only_at U (q_opt a) (q_opt b) at_ce && q_grows_only_at U (q_prune a) (q_prune b) at_ce &&
  q_grows_only_at U (q_und a) (q_und b) (fun e rr => (e =? und_target) && match x with Undelegate _ r0 => rr =? r0 | _ => false end) &&
  lz_eqb (p_opt a) (p_opt b) && lz_eqb (p_prune a) (p_prune b) && lz_eqb (p_und a) (p_und b) &&
  Bool.eqb (ep_end a) (ep_end b) && (cur a =? cur b) &&
  forallb (fun rr => holds b rr =? holds a rr + (zcount rr (map snd (q_und b)) - zcount rr (map snd (q_und a)))) (u_recs U) &&
  (* hold / no-hold decision and opt-out maturity *)
  match x with
  | Undelegate o r0 =>
      if k_rm a o then
        match fin a o with
        | Some f => res_eqb r ROk && zmem r0 (qget (q_und b) f) && (holds b r0 =? holds a r0 + 1)
        | None =>            (* no finish epoch: only while the opt out is completed by this very block; then nothing is held *)
            zmem o (p_opt a) && res_eqb r ROk && q_same U (q_und a) (q_und b) && (holds b r0 =? holds a r0)
        end
      else if validating a o || existsb (fun c => vs a c && oz_eqb (k_rev a c) (Some o)) (u_keys U)
           (* the operator validates: with its current key, the key it replaced this epoch, or — independently of the
              previous-key index — it owns an address of the stored validator set *)
      then res_eqb r ROk && zmem r0 (qget (q_und b) ce) && (holds b r0 =? holds a r0 + 1)
      else res_eqb r ROk && q_same U (q_und a) (q_und b) && (holds b r0 =? holds a r0)
  | SetKey o k | SetKeyK o k | OptInKey o k =>
      (* a key that is replaced (first replacement of the epoch) must be registered for pruning at cur+unb *)
      match k_op a o with
      | Some c => negb (res_eqb r ROk && negb (c =? k) && negb (is_some (k_prev a o))) || zmem c (qget (q_prune b) ce)
      | None => true
      end
  | OptOut o =>
      (* an opt-out of an operator that has a key must be registered for completion at cur+unb *)
      negb (res_eqb r ROk && is_some (k_op a o)) || (zmem o (qget (q_opt b) ce) && oz_eqb (fin b o) (Some ce))
  | _ => true
  end.

Definition c16_step_ok (U : univ) (a : st) (x : op) (r : res) (b : st) : bool :=
  match x with
  | BeginBlock true => b_tick U a b
  | BeginBlock false => b_dogfood_same U a b
  | EndBlock _ => b_end_block U a b
  | SetClock _ =>
      (* the epoch clock of the queues may only be exchanged while nothing is scheduled or pending *)
      if nothing_scheduled a then b_dogfood_same U (with_cur a (cur b)) b else b_dogfood_same U a b
  | _ => b_tx U a x r b
  end.

Fixpoint monitor_steps (U : univ) (a : st) (l : list stepobs) (i : nat) : option nat :=
  match l with
  | [] => None
  | x :: rest =>
      let b := abs (so_obs x) in
      if c16_state_ok U b && c16_step_ok U a (so_op x) (so_res x) b
      then monitor_steps U b rest (S i) else Some i
  end.

Definition monitor_case (c : case) : option nat :=
  if negb (c16_state_ok (c_univ c) (abs (c_init c))) then Some 0%nat
  else monitor_steps (c_univ c) (abs (c_init c)) (c_steps c) 1.
